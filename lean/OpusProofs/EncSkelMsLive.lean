import OpusProofs.MsEncode
import OpusProofs.MsEncodeSkel
import OpusProofs.EncSkelMs
import OpusProofs.EncSkelMsRate
/-
  OpusProofs.EncSkelMsLive — C05 for the multistream encoder, stated over C10's TIED model of
  `opus_multistream_encode_native` (`Opus.MsEncode.loop` / `encodeNative`, OpusModel/MsEncode.lean, executed by
  the `msenc` correspondence suite; imported read-only): if `max_data_bytes ≥ smallest_packet`, every stream is
  handed a LEGAL budget (≥ 1 byte, ≥ 2 for 100 ms) — so a per-stream encoder that succeeds on every legal budget
  (C05 for `opus_encode_native`) is never made to fail, the loop runs to the end, and the call returns a packet.
  Its size (≤ max_data_bytes, exactly the clamped size with VBR off) and structure are C10's `loop_spec`.
-/
namespace Opus.EncSkel.Proofs
open Opus Opus.EncSkel Opus.Framing Opus.FramingSpec Opus.Repack Opus.RepackProofs Opus.LayoutSpec Opus.MsEncode

/-- The per-stream encoder succeeds whenever its budget is legal for `opus_encode_native`
    (`max_data_bytes ≥ 1`, and not one byte for a 100 ms frame — opus_encoder.c:1154-1168); C05's `ret_le_out` /
    `too_small_clean` for the single-stream encoder. -/
def EncLive (fs100 : Bool) (enc : Nat → Int → Res Bytes) : Prop :=
  ∀ s cm, 1 ≤ cm → ¬ (cm = 1 ∧ fs100 = true) → ∃ pk, enc s cm = .ok pk

/-- C10's `currMax` is C05's `msCurrMax` (the one the driver executes for suite op `mscurr3`). -/
theorem msCurrMax_eq_c10 (n s : Nat) (fs fsz maxData tot : Int) :
    MsEncode.currMax n s (decide (fs / fsz = 10)) maxData tot = msCurrMax n fs fsz maxData tot s := by
  unfold MsEncode.currMax msCurrMax MsEncode.MS_FRAME_TMP
  simp only [decide_eq_true_eq]
  have hl : (s + 1 ≠ n) ↔ ((s : Int) ≠ (n : Int) - 1) := by omega
  by_cases h10 : fs / fsz = 10 <;> by_cases hls : s + 1 = n <;>
    simp only [h10, hls, hl, ne_eq, not_true_eq_false, if_true, if_false] <;>
    (try rw [if_neg (by omega)])

theorem smallest_eq (n : Nat) (fs fsz : Int) :
    MsEncode.smallestPacket n (decide (fs / fsz = 10)) = msSmallest n fs fsz := by
  unfold MsEncode.smallestPacket msSmallest
  simp only [decide_eq_true_eq]
  split <;> omega

theorem serialize_pos (p : Packet) (hv : Valid p) : 1 ≤ (serialize false p).length := by
  have hne := valid_ne p hv
  obtain ⟨f, hf⟩ := List.exists_mem_of_ne_nil _ hne
  have := frame_lt_serialize p f hf
  omega

theorem lastLen_lt (p : Packet) (hv : Valid p) : p.lens.getLastD 0 + 1 ≤ (serialize false p).length := by
  have hne := valid_ne p hv
  have hl : p.lens ≠ [] := by simp [Packet.lens, hne]
  rw [List.getLastD_eq_getLast?, List.getLast?_eq_some_getLast hl]
  simp only [Option.getD_some]
  have hm : p.lens.getLast hl ∈ p.lens := List.getLast_mem hl
  obtain ⟨f, hf, hfl⟩ := List.mem_map.1 hm
  have := frame_lt_serialize p f hf
  omega

/-- **The stream loop runs to the end**: from any point where the space left covers the minimum the remaining
    streams need (`msNeed`), every stream's budget is legal, its encoder therefore succeeds, and what the
    repacketiser emits for it leaves enough for the rest. -/
theorem loop_live (n fs frameSize : Nat) (fsI fszI : Int) (vbr : Bool) (maxB : Int) (enc : Nat → Int → Res Bytes)
    (hc : EncContract fs frameSize enc) (hlive : EncLive (decide (fsI / fszI = 10)) enc) :
    ∀ (k s : Nat) (tot : Int) (acc : Bytes), s + k = n → 0 ≤ tot → tot + msNeed n (fsI / fszI) s ≤ maxB →
      ∃ out, loop n (decide (fsI / fszI = 10)) vbr maxB enc k s tot acc = .ok out
  | 0, _, _, acc, _, _, _ => ⟨acc, rfl⟩
  | k + 1, s, tot, acc, hsk, htot, hinv => by
    obtain ⟨⟨hb1, hb2⟩, hstep⟩ := msCurrMax_spec n fsI fszI maxB tot s (by omega) (by omega) hinv
    rw [← msCurrMax_eq_c10] at hb1 hb2 hstep
    obtain ⟨pk, henc⟩ := hlive s _ hb1 (by
      intro ⟨h1, h2⟩; simp only [decide_eq_true_eq] at h2; exact hb2 ⟨h1, h2⟩)
    obtain ⟨p, hv, hpf, hpk, hd, hle⟩ := hc s _ pk henc
    subst hpk
    have hfit := fits n s (by omega) (decide (fsI / fszI = 10)) maxB tot p hv hle
    obtain ⟨hcat, q, hout, hvq, hdq, hlq⟩ := stream_step fs frameSize p hv hpf hd (maxB - tot)
      (decide (s + 1 ≠ n)) (!vbr && decide (s + 1 = n)) hfit
    by_cases hlast : s + 1 = n
    · have hk0 : k = 0 := by omega
      subst hk0
      unfold loop
      simp only [henc, hcat, hout]
      exact ⟨_, rfl⟩
    · simp only [hlast, ne_eq, not_false_eq_true, decide_true, decide_false, Bool.and_false, Bool.false_eq_true,
        if_false] at hlq hout
      have hsd := minSize_sd p.lens
      have hmin := minSize_minimal false p hv
      have hpos := serialize_pos p hv
      have hll := lastLen_lt p hv
      have hnext := (hstep ⟨((serialize false p).length : Int), (p.lens.getLastD 0 : Nat), ((serialize true q).length : Int)⟩
        (by dsimp only; omega) (by dsimp only; exact hle) (by dsimp only; omega) (by dsimp only; omega)).1
        (by omega) (by
          dsimp only
          rw [hlq, hsd]
          unfold sdSize
          simp only [if_true]
          split <;> split <;> omega)
      dsimp only at hnext
      unfold loop
      simp only [henc, hcat, hlast, ne_eq, not_false_eq_true, decide_true, decide_false, Bool.and_false, hout]
      exact loop_live n fs frameSize fsI fszI vbr maxB enc hc hlive k (s + 1) _ _ (by omega) (by omega)
        (by push_cast; exact hnext)

theorem msSerialize_pos : ∀ (ps : List Packet), ps ≠ [] → (∀ p ∈ ps, Valid p) → 1 ≤ (LayoutSpec.msSerialize ps).length
  | [], h, _ => absurd rfl h
  | [p], _, hv => by simpa [LayoutSpec.msSerialize] using serialize_pos p (hv p (by simp))
  | p :: q :: r, _, hv => by
    have := msSerialize_pos (q :: r) (by simp) (fun x hx => hv x (by simp [hx]))
    simp only [LayoutSpec.msSerialize, List.length_append]
    omega

/-- **C05 for the multistream stream loop** (C10's tied `MsEncode.loop`, any effective `max_data_bytes = maxB ≥
    smallest_packet`): for EVERY per-stream encoder behaviour that (a) when it succeeds returns a valid packet of the
    common duration in at most `curr_max` bytes (C02/C05 single stream, `EncContract`), (b) succeeds on every legal
    budget (`EncLive`), the call returns a packet `out` with `1 ≤ |out| ≤ maxB`, `|out| = maxB` with VBR off, of the
    multistream structure. -/
theorem ms_loop_ret (n : Nat) (hn : 1 ≤ n) (fs frameSize : Nat) (fsI fszI : Int) (vbr : Bool) (maxB : Int)
    (enc : Nat → Int → Res Bytes) (hc : EncContract fs frameSize enc) (ht : EncTotal enc)
    (hlive : EncLive (decide (fsI / fszI = 10)) enc) (hsmall : msSmallest n fsI fszI ≤ maxB) :
    ∃ out, loop n (decide (fsI / fszI = 10)) vbr maxB enc n 0 0 [] = .ok out ∧
      1 ≤ out.length ∧ (out.length : Int) ≤ maxB ∧ (vbr = false → (out.length : Int) = maxB) ∧
      ∃ ps : List Packet, ps.length = n ∧ (∀ p ∈ ps, Valid p) ∧ (∀ p ∈ ps, duration fs p = frameSize) ∧
        out = LayoutSpec.msSerialize ps := by
  have hneed : msNeed n (fsI / fszI) 0 = msSmallest n fsI fszI := by
    unfold msNeed msSmallest
    rw [if_neg (by omega)]
    dsimp only
    split <;> omega
  obtain ⟨out, hout⟩ := loop_live n fs frameSize fsI fszI vbr maxB enc hc hlive n 0 0 [] (by omega) (by omega)
    (by show (0 : Int) + msNeed (n : Int) (fsI / fszI) 0 ≤ maxB; rw [hneed]; omega)
  obtain ⟨h1, -, -⟩ := loop_spec n fs frameSize (decide (fsI / fszI = 10)) vbr maxB enc hc ht n 0 [] 0 (by omega) (by omega) rfl
    (fun _ h => by cases h) (fun _ h => by cases h) rfl
  obtain ⟨ps, hlen, hval, hdur, hser, hle, hcbr⟩ := h1 out hout
  refine ⟨out, hout, ?_, hle, hcbr, ps, hlen, hval, hdur, hser⟩
  rw [hser]
  exact msSerialize_pos ps (by intro h; rw [h] at hlen; simp at hlen; omega) hval

/-! ### the CBR clamp: C10's `cbrClamp` is C05's `msMaxBytes`; OPUS_AUTO through the rate allocation -/

/-- `st->bitrate_bps` as C10's `cbrClamp` takes it (`none` = OPUS_BITRATE_MAX). -/
def brOpt (br : Int) : Option Int := if br = Opus.EncDecide.OPUS_BITRATE_MAX then none else some br

theorem fs100_eq (fs fsz : Nat) : decide (fs / fsz = 10) = decide ((fs : Int) / (fsz : Int) = 10) := by
  have : ((fs / fsz : Nat) : Int) = (fs : Int) / (fsz : Int) := Int.natCast_ediv fs fsz
  by_cases h : fs / fsz = 10
  · have : (fs : Int) / (fsz : Int) = 10 := by omega
    simp [h, this]
  · have : ¬ (fs : Int) / (fsz : Int) = 10 := by omega
    simp [h, this]

theorem cbrClamp_eq (n fs fsz : Nat) (vbr : Bool) (br rs maxData : Int) (hb : br ≠ Opus.EncDecide.OPUS_AUTO) :
    cbrClamp n (decide ((fs : Int) / (fsz : Int) = 10)) vbr fs fsz (brOpt br) maxData =
      msMaxBytes (if vbr then 1 else 0) br rs n fs fsz maxData := by
  unfold cbrClamp msMaxBytes brOpt
  rw [smallest_eq]
  have hd : ((3 * 8 * fs / fsz : Nat) : Int) = 3 * 8 * (fs : Int) / (fsz : Int) := by
    rw [Int.natCast_ediv]; push_cast; rfl
  cases vbr
  · simp only [Bool.false_eq_true, if_false, if_true, if_neg hb]
    by_cases hm : br = Opus.EncDecide.OPUS_BITRATE_MAX
    · simp only [hm, if_true, ne_eq, not_true_eq_false, if_false]
    · simp only [hm, if_false, ne_eq, not_false_eq_true, if_true, hd]
  · simp only [if_true, show ¬ ((1 : Int) = 0) by decide, if_false]

/-- `opus_multistream_encode_native` for every bit-rate setting: the entry test of :860, then C10's stream loop run with
    the `max_data_bytes` that the CBR clamp of :878-888 leaves, where for OPUS_AUTO the clamp uses the sum of
    `rate_allocation` (`msMaxBytesAlloc`).  For every setting other than OPUS_AUTO this IS C10's tied
    `MsEncode.encodeNative` (`msEncodeAlloc_eq`); for OPUS_AUTO the clamp value is tied by suite op `mscurr3`. -/
def msEncodeAlloc (l : MsLayout) (fs fsz : Nat) (vbr : Bool) (br maxData : Int) (enc : Nat → Int → Res Bytes) : Res Bytes :=
  let fs100 := decide (fs / fsz = 10)
  if maxData < smallestPacket l.nbStreams.toNat fs100 then .err .bufferTooSmall
  else loop l.nbStreams.toNat fs100 vbr (msMaxBytesAlloc l (if vbr then 1 else 0) br fs fsz maxData) enc l.nbStreams.toNat 0 0 []

theorem msEncodeAlloc_eq (l : MsLayout) (hn : 0 ≤ l.nbStreams) (fs fsz : Nat) (vbr : Bool) (br maxData : Int)
    (enc : Nat → Int → Res Bytes) (hb : br ≠ Opus.EncDecide.OPUS_AUTO) :
    msEncodeAlloc l fs fsz vbr br maxData enc = MsEncode.encodeNative l.nbStreams.toNat fs fsz vbr (brOpt br) maxData enc := by
  unfold msEncodeAlloc MsEncode.encodeNative msMaxBytesAlloc
  dsimp only
  rw [fs100_eq, cbrClamp_eq l.nbStreams.toNat fs fsz vbr br (msRateSum l fs fsz br) maxData hb, Int.toNat_of_nonneg hn]

/-- **C05 for `opus_multistream_encode_native`, all settings.**  For every layout, rate, legal frame size, VBR/CBR,
    bit-rate setting (OPUS_AUTO, OPUS_BITRATE_MAX, explicit), `max_data_bytes`, and EVERY per-stream encoder within the
    single-stream contracts (`EncContract`: a success is a valid packet of the common duration in ≤ `curr_max` bytes;
    `EncLive`: it succeeds whenever `curr_max ≥ 1` and not (1 byte ∧ 100 ms)):
    * `max_data_bytes < smallest_packet` → OPUS_BUFFER_TOO_SMALL;
    * otherwise the call SUCCEEDS (no stream is ever handed an illegal budget) with `1 ≤ ret ≤ max_data_bytes`, with VBR
      off `ret` is exactly the clamped size `msMaxBytesAlloc`, and the bytes are a valid multistream packet. -/
theorem ms_encode_alloc_ret (l : MsLayout) (hl : MsLayoutOk l) (fs fsz : Nat)
    (hfs : fs = 8000 ∨ fs = 12000 ∨ fs = 16000 ∨ fs = 24000 ∨ fs = 48000) (hleg : legalFrame fs fsz = true)
    (vbr : Bool) (br maxData : Int) (enc : Nat → Int → Res Bytes)
    (hc : EncContract fs fsz enc) (ht : EncTotal enc) (hlive : EncLive (decide (fs / fsz = 10)) enc) :
    (maxData < msSmallest l.nbStreams fs fsz → msEncodeAlloc l fs fsz vbr br maxData enc = .err .bufferTooSmall) ∧
    (msSmallest l.nbStreams fs fsz ≤ maxData →
      ∃ out, msEncodeAlloc l fs fsz vbr br maxData enc = .ok out ∧ 1 ≤ out.length ∧ (out.length : Int) ≤ maxData ∧
        (vbr = false → (out.length : Int) = msMaxBytesAlloc l 0 br fs fsz maxData) ∧
        ∃ ps : List Packet, (ps.length : Int) = l.nbStreams ∧ (∀ p ∈ ps, Valid p) ∧ (∀ p ∈ ps, duration fs p = fsz) ∧
          out = LayoutSpec.msSerialize ps) := by
  have hn := hl.n1
  have hnn : ((l.nbStreams.toNat : Nat) : Int) = l.nbStreams := Int.toNat_of_nonneg (by omega)
  have hfsI : ((fs : Nat) : Int) = 8000 ∨ (fs : Int) = 12000 ∨ (fs : Int) = 16000 ∨ (fs : Int) = 24000 ∨ (fs : Int) = 48000 := by omega
  unfold msEncodeAlloc
  dsimp only
  rw [fs100_eq, smallest_eq, hnn]
  rw [fs100_eq] at hlive
  constructor
  · intro h; rw [if_pos h]
  · intro h
    rw [if_neg (by omega)]
    -- the clamped budget is between smallest_packet and max_data_bytes
    have hmax : msSmallest l.nbStreams fs fsz ≤ msMaxBytesAlloc l (if vbr then 1 else 0) br fs fsz maxData ∧
        msMaxBytesAlloc l (if vbr then 1 else 0) br fs fsz maxData ≤ maxData := by
      unfold msMaxBytesAlloc msMaxBytes
      cases vbr
      · simp only [Bool.false_eq_true, if_false, if_true]
        split
        · rename_i hb
          have := ms_auto_enough l hl fs fsz hfsI hleg
          rw [hb]; omega
        · split <;> omega
      · simp only [if_true, show ¬ ((1 : Int) = 0) by decide, if_false]; omega
    obtain ⟨out, ho, h1, h2, h3, ps, p1, p2, p3, p4⟩ := ms_loop_ret l.nbStreams.toNat (by omega) fs fsz fs fsz vbr
      (msMaxBytesAlloc l (if vbr then 1 else 0) br fs fsz maxData) enc hc ht hlive (by rw [hnn]; exact hmax.1)
    refine ⟨out, ho, h1, by omega, ?_, ps, by rw [p1, hnn], p2, p3, p4⟩
    intro hv
    rw [h3 hv, hv]
    rfl

/-- The same over C10's `MsEncode.encodeNative` itself (explicit bit-rate or OPUS_BITRATE_MAX), any stream count / rate /
    frame size. -/
theorem ms_encode_native_ret (n : Nat) (hn : 1 ≤ n) (fs fsz : Nat) (vbr : Bool) (bitrate : Option Int) (maxData : Int)
    (enc : Nat → Int → Res Bytes) (hc : EncContract fs fsz enc) (ht : EncTotal enc)
    (hlive : EncLive (decide (fs / fsz = 10)) enc) :
    (maxData < smallestPacket n (decide (fs / fsz = 10)) →
      MsEncode.encodeNative n fs fsz vbr bitrate maxData enc = .err .bufferTooSmall) ∧
    (smallestPacket n (decide (fs / fsz = 10)) ≤ maxData →
      ∃ out, MsEncode.encodeNative n fs fsz vbr bitrate maxData enc = .ok out ∧ 1 ≤ out.length ∧
        (out.length : Int) ≤ maxData ∧
        (vbr = false → (out.length : Int) = cbrClamp n (decide (fs / fsz = 10)) vbr fs fsz bitrate maxData) ∧
        ∃ ps : List Packet, ps.length = n ∧ (∀ p ∈ ps, Valid p) ∧ (∀ p ∈ ps, duration fs p = fsz) ∧
          out = LayoutSpec.msSerialize ps) := by
  unfold MsEncode.encodeNative
  dsimp only
  constructor
  · intro h; rw [if_pos h]
  · intro h
    rw [if_neg (by omega)]
    have hle := cbrClamp_le n (decide (fs / fsz = 10)) vbr fs fsz bitrate maxData
    have hge : smallestPacket n (decide (fs / fsz = 10)) ≤ cbrClamp n (decide (fs / fsz = 10)) vbr fs fsz bitrate maxData := by
      unfold cbrClamp
      split
      · exact h
      · split
        · exact h
        · omega
    rw [fs100_eq] at hlive hge ⊢
    rw [smallest_eq] at hge
    obtain ⟨out, ho, h1, h2, h3, hps⟩ := ms_loop_ret n hn fs fsz fs fsz vbr _ enc hc ht hlive hge
    rw [fs100_eq] at hle
    rw [← fs100_eq] at h2 h3
    rw [fs100_eq] at h2 h3
    exact ⟨out, ho, h1, by omega, h3, hps⟩

/-! ### … with the single-stream encoder skeleton in every stream -/

/-- The encoder skeleton of C02/C05 succeeds on every legal budget (`ret_le_out`): C10's `skelEnc` is live. -/
theorem skelEnc_live (sts : Nat → St) (fuzz : Bool) (fsz : Int) (hfsz : 0 < fsz) (ors : Nat → Int → NatOr)
    (frs : Nat → Int → List Bytes) (fs : Int) (hfsAll : ∀ s, (sts s).fs = fs) (hok : SkelOk sts fuzz fsz ors frs) :
    EncLive (decide (fs / fsz = 10)) (skelEnc sts fuzz fsz ors frs) := by
  intro s cm h1 h2
  have he : entryCheck (sts s) fsz cm = none := by
    unfold entryCheck
    dsimp only
    rw [if_neg (by omega), if_neg]
    intro ⟨hm, hf⟩
    apply h2
    refine ⟨by omega, ?_⟩
    simp only [decide_eq_true_eq]
    rw [← hfsAll s, hf, Int.mul_ediv_cancel_left _ (by omega : fsz ≠ 0)]
  have hp := encodeNative_post (sts s) fuzz fsz cm (ors s cm) he (hok s cm).1
  unfold skelEnc
  dsimp only
  rw [if_pos hp.retLo]
  exact ⟨_, rfl⟩

end Opus.EncSkel.Proofs
