import OpusProofs.RepackProps
import OpusModel.DecSkel.Spec
/-
  C07 helper lemmas, part 16: what the decoder skeleton (C01's model, read-only) derives from a packet
  is the same for a packet and its padded / unpadded form.
-/
namespace Opus.RepackProofs
open Opus Opus.Framing Opus.FramingSpec Opus.FramingProofs Opus.Repack Opus.Ext Opus.DecSkel

/-- The TOC helpers only look at the configuration and stereo bits (`toc >> 2`). -/
theorem toc_helpers_congr (t1 t2 : Nat) (h : t1 / 4 = t2 / 4) (fs : Nat) :
    samplesPerFrame t1 fs = samplesPerFrame t2 fs ∧ getMode t1 = getMode t2 ∧
    getBandwidth t1 = getBandwidth t2 ∧ getNbChannels t1 = getNbChannels t2 := by
  have h8 : t1 / 8 = t2 / 8 := by omega
  have h16 : t1 / 16 = t2 / 16 := by omega
  have h32 : t1 / 32 = t2 / 32 := by omega
  have h128 : t1 / 128 = t2 / 128 := by omega
  refine ⟨?_, ?_, ?_, ?_⟩
  · simp only [samplesPerFrame, h8, h32, h128]
  · simp only [getMode, h32, h128]
  · simp only [getBandwidth, h16, h32, h128]
  · simp only [getNbChannels, h]

/-- The decoder's return value (number of samples or error) depends on the packet only through the
    configuration bits and the frame count. -/
theorem nativeRet_congr (st : DecState) (bs1 bs2 : Bytes) (sd1 sd2 : Bool) (p1 p2 : Parsed) (frame_size fec : Int)
    (h1 : parseImpl sd1 bs1 = .ok p1) (h2 : parseImpl sd2 bs2 = .ok p2) (htoc : bs1.headD 0 / 4 = bs2.headD 0 / 4)
    (hcount : p1.count = p2.count) :
    nativeRet st (some bs1) bs1.length frame_size fec sd1 = nativeRet st (some bs2) bs2.length frame_size fec sd2 := by
  have hne : ∀ (bs : Bytes) (sd : Bool) (p : Parsed), parseImpl sd bs = .ok p → bs ≠ [] := by
    intro bs sd p h hnil; subst hnil; simp [parseImpl] at h
  have hl1 : ¬ ((bs1.length : Int) = 0 ∨ (some bs1).isNone = true) := by
    have := hne bs1 sd1 p1 h1; simp [this]
  have hl2 : ¬ ((bs2.length : Int) = 0 ∨ (some bs2).isNone = true) := by
    have := hne bs2 sd2 p2 h2; simp [this]
  have hspf := (toc_helpers_congr _ _ htoc st.Fs.toNat).1
  unfold nativeRet
  by_cases c1 : fec < 0 ∨ fec > 1
  · rw [if_pos c1, if_pos c1]
  rw [if_neg c1, if_neg c1]
  by_cases c2 : fec ≠ 0 ∧ cmod frame_size (st.Fs / 400) ≠ 0
  · rw [if_pos ⟨Or.inl c2.1, c2.2⟩, if_pos ⟨Or.inl c2.1, c2.2⟩]
  have d1 : ¬ ((fec ≠ 0 ∨ (bs1.length : Int) = 0 ∨ (some bs1).isNone = true) ∧ cmod frame_size (st.Fs / 400) ≠ 0) := by
    rintro ⟨h | h, hm⟩
    · exact c2 ⟨h, hm⟩
    · exact hl1 h
  have d2 : ¬ ((fec ≠ 0 ∨ (bs2.length : Int) = 0 ∨ (some bs2).isNone = true) ∧ cmod frame_size (st.Fs / 400) ≠ 0) := by
    rintro ⟨h | h, hm⟩
    · exact c2 ⟨h, hm⟩
    · exact hl2 h
  rw [if_neg d1, if_neg d2, if_neg hl1, if_neg hl2, if_neg (by omega), if_neg (by omega)]
  simp only [Option.getD_some, Int.toNat_natCast, List.take_length, h1, h2, hspf, hcount]

end Opus.RepackProofs
