import OpusProofs.SilkCoreState
import OpusProofs.SilkParamsDec
import OpusProofs.SilkParamsGains
import OpusProofs.SilkParamsPitchSpread
/-
  OpusProofs.SilkCoreParams — totality of the model of `silk_decode_parameters` for in-range indices, and what it
  guarantees about the decoder control block (property C03, slice SilkCore).  Re-uses C18's theorems about the NLSF
  decoder, NLSF2A, the gain dequantiser and `silk_decode_pitch`.
-/
namespace Opus.SilkCoreProofs
open Opus Opus.SilkParams Opus.SilkCore Opus.Gen Opus.Frozen

/-- The index ranges the symbol layer delivers (C03 stage 1, `silkSyms_indices_in_range`), as far as
    `silk_decode_parameters` / `silk_decode_core` depend on them.  No condition on the gain indices, `lagIndex`, the NLSF
    residual values, the seed or the pulse values. -/
structure FrameOk (fs nb : Nat) (f : FrameIn) : Prop where
  sig : f.signalType = 0 ∨ f.signalType = 1 ∨ f.signalType = 2
  qoff : f.quantOffsetType = 0 ∨ f.quantOffsetType = 1
  gains : nb ≤ f.gainsIdx.length
  nlsf : ∃ (cb1 : Nat) (idx : List Int), f.nlsfIdx.take (lpcOrder fs + 1) = (cb1 : Int) :: idx ∧
           cb1 < (cbOf fs).nVectors ∧ idx.length = lpcOrder fs
  interp : 0 ≤ f.interp ∧ f.interp ≤ 4
  contour : f.signalType = 2 → 0 ≤ f.contourIndex ∧ ∀ cb, pitchCodebook (fs : Int) nb = .ok cb → f.contourIndex < (cb.2 : Int)
  per : f.signalType = 2 → f.perIndex = 0 ∨ f.perIndex = 1 ∨ f.perIndex = 2
  ltp : f.signalType = 2 → nb ≤ f.ltpIdx.length ∧
          ∀ i ∈ f.ltpIdx.take nb, 0 ≤ i ∧ i < (SilkCoreTabs.ltpVqSizes.getD f.perIndex.toNat 0 : Int)
  scale : f.signalType = 2 → 0 ≤ f.ltpScaleIndex ∧ f.ltpScaleIndex ≤ 2
  pulses : frameLen fs nb ≤ f.pulses.length

/-- What the decoder control block satisfies after `silk_decode_parameters`. -/
structure ParamsOk (fs nb : Nat) (f : FrameIn) (p : ParamsOut) : Prop where
  gainsLen : p.ctrl.gainsQ16.length = nb
  gainsPos : ∀ g ∈ p.ctrl.gainsQ16, 81920 ≤ g ∧ g ≤ 1686110208
  pitchLen : p.ctrl.pitchL.length = nb
  pitchRange : f.signalType = 2 → ∀ l ∈ p.ctrl.pitchL, 2 * (fs : Int) ≤ l ∧ l ≤ 18 * (fs : Int)
  pitchSpread : f.signalType = 2 → ∀ i j, i < nb → j < nb → p.ctrl.pitchL.getD i 0 - p.ctrl.pitchL.getD j 0 ≤ 18
  predLen : p.ctrl.pred0.length = lpcOrder fs ∧ p.ctrl.pred1.length = lpcOrder fs
  lgi : 0 ≤ p.lastGainIndex ∧ p.lastGainIndex ≤ 63
  nlsfLen : p.prevNlsf.length = 16
  nlsfRange : ∀ e ∈ p.prevNlsf.take (lpcOrder fs), 0 ≤ e ∧ e ≤ 32767

theorem spaced_len : ∀ (x d : List Int) (p : Int), SpacedFrom p x d → d.length = x.length + 1 := by
  intro x
  induction x with
  | nil =>
    intro d p h
    match d, h with
    | [_], _ => rfl
  | cons x0 xs ih =>
    intro d p h
    match d, h with
    | _ :: ds, h => simp only [List.length_cons]; rw [ih ds x0 h.2]

theorem cbOf_cases (fs : Nat) : (cbOf fs = cbNbMb ∧ lpcOrder fs = 10) ∨ (cbOf fs = cbWb ∧ lpcOrder fs = 16) := by
  unfold cbOf lpcOrder
  split
  · left; exact ⟨rfl, rfl⟩
  · right; exact ⟨rfl, rfl⟩

theorem cb_order : cbNbMb.order = 10 ∧ cbWb.order = 16 := by decide

/-- NLSF part: C18's `decodeNlsfParams_spec` for the codebook of the rate, plus the length and range of the new NLSF vector. -/
theorem nlsfPart (fs : Nat) (cb1 : Nat) (idx prev : List Int) (coef ffar : Int) (h1 : cb1 < (cbOf fs).nVectors)
    (hlen : idx.length = lpcOrder fs) (hpl : prev.length = lpcOrder fs) (hpr : ∀ e ∈ prev, 0 ≤ e ∧ e ≤ 32767)
    (hc0 : 0 ≤ coef) (hc1 : coef ≤ 4) :
    ∃ a0 a1 nlsf, decodeNlsfParams (cbOf fs) ((cb1 : Int) :: idx) prev coef ffar = .ok (a0, a1, nlsf) ∧
      a0.length = lpcOrder fs ∧ a1.length = lpcOrder fs ∧ nlsf.length = lpcOrder fs ∧ ∀ e ∈ nlsf, 0 ≤ e ∧ e ≤ 32767 := by
  rcases cbOf_cases fs with ⟨hcb, ho⟩ | ⟨hcb, ho⟩
  · rw [hcb] at h1 ⊢
    obtain ⟨a0, a1, nlsf, hd, hsp, l0, l1, _⟩ := decodeNlsfParams_spec cbNbMb cb1 idx prev coef ffar
      (cbNbMb_stage1 cb1 (List.mem_range.mpr h1)) (by decide) cbNbMb_deltaOk cbNbMb_wellformed.delta_pos
      (by rw [hlen, ho]; decide) (by rw [hpl, ho]; decide) hpr hc0 hc1
    refine ⟨a0, a1, nlsf, hd, by rw [l0, ho]; decide, by rw [l1, ho]; decide, ?_, ?_⟩
    · have := spaced_len _ _ _ hsp
      have hl : cbNbMb.deltaMinQ15.length = 11 := by decide
      omega
    · intro e he
      exact ⟨spaced_ge nlsf _ 0 hsp (fun e he => by have := cbNbMb_wellformed.delta_pos e he; omega) e he,
             (spaced_le nlsf _ 0 hsp cbNbMb_wellformed.delta_pos).2 e he⟩
  · rw [hcb] at h1 ⊢
    obtain ⟨a0, a1, nlsf, hd, hsp, l0, l1, _⟩ := decodeNlsfParams_spec cbWb cb1 idx prev coef ffar
      (cbWb_stage1 cb1 (List.mem_range.mpr h1)) (by decide) cbWb_deltaOk cbWb_wellformed.delta_pos
      (by rw [hlen, ho]; decide) (by rw [hpl, ho]; decide) hpr hc0 hc1
    refine ⟨a0, a1, nlsf, hd, by rw [l0, ho]; decide, by rw [l1, ho]; decide, ?_, ?_⟩
    · have := spaced_len _ _ _ hsp
      have hl : cbWb.deltaMinQ15.length = 17 := by decide
      omega
    · intro e he
      exact ⟨spaced_ge nlsf _ 0 hsp (fun e he => by have := cbWb_wellformed.delta_pos e he; omega) e he,
             (spaced_le nlsf _ 0 hsp cbWb_wellformed.delta_pos).2 e he⟩

theorem getI_ok (l : List Int) (i : Int) (h0 : 0 ≤ i) (h1 : i.toNat < l.length) : ∃ v, getI l i = .ok v := by
  unfold getI
  rw [if_neg (by omega)]
  rw [List.getElem?_eq_getElem h1]
  exact ⟨_, rfl⟩

theorem bwexp16Loop_len : ∀ (l : List Int) (c cm1 : Int), (bwexp16Loop l c cm1).length = l.length := by
  intro l
  induction l with
  | nil => intro c cm1; simp [bwexp16Loop]
  | cons x xs ih =>
    intro c cm1
    cases xs with
    | nil => simp [bwexp16Loop]
    | cons y ys => simp only [bwexp16Loop, List.length_cons]; rw [ih]; simp

theorem ltpRow_ok (cbk : List Int) (ix : Int) (h0 : 0 ≤ ix) (h1 : (ix * 5 + 4).toNat < cbk.length) :
    ∃ r, ltpRow cbk ix = .ok r := by
  unfold ltpRow
  obtain ⟨t0, e0⟩ := getI_ok cbk (ix * 5) (by omega) (by omega)
  obtain ⟨t1, e1⟩ := getI_ok cbk (ix * 5 + 1) (by omega) (by omega)
  obtain ⟨t2, e2⟩ := getI_ok cbk (ix * 5 + 2) (by omega) (by omega)
  obtain ⟨t3, e3⟩ := getI_ok cbk (ix * 5 + 3) (by omega) (by omega)
  obtain ⟨t4, e4⟩ := getI_ok cbk (ix * 5 + 4) (by omega) (by omega)
  simp only [e0, e1, e2, e3, e4, Res.bind_ok, Res.pure_eq]
  exact ⟨_, rfl⟩

theorem ltpRows_ok (cbk : List Int) : ∀ (l : List Int), (∀ ix ∈ l, 0 ≤ ix ∧ (ix * 5 + 4).toNat < cbk.length) →
    ∃ r, ltpRows cbk l = .ok r := by
  intro l
  induction l with
  | nil => intro _; exact ⟨[], rfl⟩
  | cons ix rest ih =>
    intro h
    obtain ⟨r, hr⟩ := ltpRow_ok cbk ix (h ix (List.mem_cons_self)).1 (h ix (List.mem_cons_self)).2
    obtain ⟨rs, hrs⟩ := ih (fun i hi => h i (List.mem_cons_of_mem _ hi))
    simp only [ltpRows, hr, hrs, Res.bind_ok, Res.pure_eq]
    exact ⟨_, rfl⟩

theorem ltpCbk_ok (per : Int) (h : per = 0 ∨ per = 1 ∨ per = 2) :
    ∃ cbk, ltpCbk per = .ok cbk ∧ cbk.length = 5 * SilkCoreTabs.ltpVqSizes.getD per.toNat 0 := by
  rcases h with h | h | h <;> subst h
  · exact ⟨SilkCoreTabs.ltpVq0, rfl, by decide +kernel⟩
  · exact ⟨SilkCoreTabs.ltpVq1, rfl, by decide +kernel⟩
  · exact ⟨SilkCoreTabs.ltpVq2, rfl, by decide +kernel⟩

/-- `silk_decode_parameters` is total on an invariant state and in-range indices, and its results satisfy `ParamsOk`. -/
theorem decodeParameters_total (s : DecState) (f : FrameIn) (hs : StateOk s) (hf : FrameOk s.fsKHz s.nbSubfr f) :
    ∃ p, decodeParameters s f = .ok p ∧ ParamsOk s.fsKHz s.nbSubfr f p := by
  obtain ⟨cb1, idx, hni, hcb1, hidx⟩ := hf.nlsf
  have hord : lpcOrder s.fsKHz = 10 ∨ lpcOrder s.fsKHz = 16 := (cfg_nums hs.cfg).2.2.2
  have hpl : (s.prevNlsf.take (lpcOrder s.fsKHz)).length = lpcOrder s.fsKHz := by
    rw [List.length_take, hs.nlsfLen]; omega
  have hcoef : 0 ≤ f.interp ∧ f.interp ≤ 4 := hf.interp
  obtain ⟨a0, a1, nlsf, hd, l0, l1, ln, rn⟩ := nlsfPart s.fsKHz cb1 idx (s.prevNlsf.take (lpcOrder s.fsKHz)) f.interp
    s.firstFrameAfterReset hcb1 hidx hpl hs.nlsfRange hcoef.1 hcoef.2
  have hg := gainsDequantLoop_spec (if f.condCoding = SilkCoreTabs.codeConditionally then 1 else 0)
    (f.gainsIdx.take s.nbSubfr) true s.lastGainIndex
  have hgl : (f.gainsIdx.take s.nbSubfr).length = s.nbSubfr := by rw [List.length_take]; have := hf.gains; omega
  have hne : f.gainsIdx.take s.nbSubfr ≠ [] := by
    intro he; rw [he] at hgl; rcases hs.cfg.2 with h | h <;> rw [h] at hgl <;> simp at hgl
  have hnl16 : (nlsf ++ s.prevNlsf.drop (lpcOrder s.fsKHz)).length = 16 := by
    rw [List.length_append, List.length_drop, ln, hs.nlsfLen]; omega
  have hnr : ∀ e ∈ (nlsf ++ s.prevNlsf.drop (lpcOrder s.fsKHz)).take (lpcOrder s.fsKHz), 0 ≤ e ∧ e ≤ 32767 := by
    intro e he
    rw [List.take_append_of_le_length (by omega)] at he
    exact rn e (List.mem_of_mem_take he)
  have hb0 : (if s.lossCnt ≠ 0 then bwexpander16 a0 SilkCoreTabs.bweAfterLossQ16 else a0).length = lpcOrder s.fsKHz := by
    split
    · unfold bwexpander16; rw [bwexp16Loop_len]; exact l0
    · exact l0
  have hb1 : (if s.lossCnt ≠ 0 then bwexpander16 a1 SilkCoreTabs.bweAfterLossQ16 else a1).length = lpcOrder s.fsKHz := by
    split
    · unfold bwexpander16; rw [bwexp16Loop_len]; exact l1
    · exact l1
  unfold decodeParameters
  simp only [hni, hd, Res.bind_ok]
  by_cases hv : f.signalType = SilkCoreTabs.typeVoiced
  · have hv2 : f.signalType = 2 := hv
    rw [if_pos hv]
    obtain ⟨lags, hlags, hll, hlr⟩ := decodePitch_spec f.lagIndex f.contourIndex (s.fsKHz : Int) s.nbSubfr
      (by rcases hs.cfg.1 with h | h | h <;> rw [h] <;> simp) hs.cfg.2 (hf.contour hv2).1 (hf.contour hv2).2
    have hsp := decodePitch_spread f.lagIndex f.contourIndex (s.fsKHz : Int) s.nbSubfr
      (by rcases hs.cfg.1 with h | h | h <;> rw [h] <;> simp) hs.cfg.2 (hf.contour hv2).1 (hf.contour hv2).2 lags hlags
    obtain ⟨cbk, hcbk, hcl⟩ := ltpCbk_ok f.perIndex (hf.per hv2)
    obtain ⟨ltp, hltp⟩ := ltpRows_ok cbk (f.ltpIdx.take s.nbSubfr) (by
      intro ix hix
      have := (hf.ltp hv2).2 ix hix
      refine ⟨this.1, ?_⟩
      rw [hcl]; omega)
    obtain ⟨sc, hsc⟩ := getI_ok SilkCoreTabs.ltpScalesQ14 f.ltpScaleIndex (hf.scale hv2).1 (by
      have := (hf.scale hv2).2
      have hl : SilkCoreTabs.ltpScalesQ14.length = 3 := by decide
      omega)
    simp only [hlags, hcbk, hltp, hsc, Res.bind_ok, Res.pure_eq]
    refine ⟨_, rfl, ?_⟩
    exact { gainsLen := by show (gainsDequant _ _ _).1.length = _; unfold gainsDequant; rw [hg.1, hgl]
            gainsPos := by
              intro g hgm
              exact hg.2.1 g hgm
            pitchLen := hll
            pitchRange := fun _ => hlr
            pitchSpread := fun _ => hsp
            predLen := ⟨hb0, hb1⟩
            lgi := hg.2.2 hne
            nlsfLen := hnl16
            nlsfRange := hnr }
  · rw [if_neg hv]
    simp only [Res.pure_eq]
    refine ⟨_, rfl, ?_⟩
    exact { gainsLen := by show (gainsDequant _ _ _).1.length = _; unfold gainsDequant; rw [hg.1, hgl]
            gainsPos := by
              intro g hgm
              exact hg.2.1 g hgm
            pitchLen := by simp
            pitchRange := fun h2 => absurd h2 hv
            pitchSpread := fun h2 => absurd h2 hv
            predLen := ⟨hb0, hb1⟩
            lgi := hg.2.2 hne
            nlsfLen := hnl16
            nlsfRange := hnr }

end Opus.SilkCoreProofs
