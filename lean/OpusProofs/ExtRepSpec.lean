import OpusProofs.ExtNoRepeat
/-
  C16 helper lemmas, part 11: list-level specification of what `opus_packet_extensions_generate` writes
  when it uses the "repeat these extensions" mechanism (ID 2).

  The generator treats the extensions of each frame as a queue (`rems`: one list per frame, in array
  order).  For frame `f` it finds the longest prefix `pre` of the queue of `f` that can be repeated in
  ALL later frames (the k-th extension of every later queue has the same ID and, for short IDs, the
  same length), writes `pre`, the repeat indicator, the payloads of the matching extensions of every
  later frame (which are thereby removed from those queues), then the rest `post` of frame `f`.
-/
set_option linter.unusedVariables false
namespace Opus.ExtProofs
open Opus Opus.Ext

/-- The test of extensions.c:504-515 between the candidate `x` of a later frame and `e`. -/
def matchB (x e : Ext) : Bool := decide (x.id = e.id) && !(decide (x.id < 32) && decide (x.len ≠ e.len))

/-- Every later queue has a head that matches `e`. -/
def headsMatch (later : List (List Ext)) (e : Ext) : Bool :=
  later.all (fun r => match r.head? with | some x => matchB x e | none => false)

/-- Number of leading extensions of `a` that can be repeated in all `later` queues. -/
def repCount : List Ext → List (List Ext) → Nat
  | [], _ => 0
  | e :: a, later => if headsMatch later e then repCount a (later.map List.tail) + 1 else 0

/-- Position of the last long extension (ID ≥ 32) of `pre`. -/
def lastLongPos : List Ext → Option Nat
  | [] => none
  | e :: l => match lastLongPos l with
    | some k => some (k + 1)
    | none => if 32 ≤ e.id then some 0 else none

/-- Extensions written one after the other (separator when the frame changes); the `n`-th extension
    written overall uses the `L = 0` form. -/
def serW (n : Nat) : Nat → Nat → List Ext → List Nat
  | _, _, [] => []
  | cur, w, e :: l => sepBytes e.frame.toNat cur ++ extBytes e (decide ((w : Int) = (n : Int) - 1)) ++ serW n e.frame.toNat (w + 1) l

/-- Payloads (with their length bytes) of the `R` repeated extensions of one later frame; `z` = position
    whose length bytes are dropped (the last long extension of the last frame when the indicator has L = 0). -/
def repPayloads (z : Option Nat) (k : Nat) : List Ext → List Nat
  | [] => []
  | x :: l => (extBytes x (decide (z = some k))).tail ++ repPayloads z (k + 1) l

def repBlock (R : Nat) (last : Bool) (ll : Option Nat) : List (List Ext) → List Nat
  | [] => []
  | [r] => repPayloads (if last then ll else none) 0 (r.take R)
  | r :: rs => repPayloads none 0 (r.take R) ++ repBlock R last ll rs

/-- Number of repeated extensions of frame `f`: none for the last frame. -/
def blockR (a : List Ext) (later : List (List Ext)) : Nat := if later = [] then 0 else repCount a later

/-- `last` of extensions.c:589-590 (`L = 0` on the repeat indicator). -/
def blockLast (n : Nat) (a : List Ext) (later : List (List Ext)) (w : Nat) : Bool :=
  let R := blockR a later
  decide (w + R + R * later.length = n) || (lastLongPos (a.take R) = none && (a.drop R).isEmpty)

/-- Frame written last (`curr_frame`) after a list has been written. -/
def curAfter (cur : Nat) (l : List Ext) : Nat := lastFrame cur l

/-- Everything written for the queues `a :: later` (frames `f, f+1, …`), starting with `curr_frame = cur`
    and `written = w`. -/
def serAll (n : Nat) : List (List Ext) → Nat → Nat → List Nat
  | [], _, _ => []
  | a :: later, cur, w =>
    let R := blockR a later
    let last := blockLast n a later w
    let pre := a.take R
    let post := a.drop R
    let cur1 := curAfter cur pre
    let cur2 := if 0 < R ∧ last = true then cur1 + 1 else cur1
    let w2 := w + R + R * later.length
    serW n cur w pre ++ (if 0 < R then [if last then 4 else 5] else []) ++ repBlock R last (lastLongPos pre) later ++
      serW n cur2 w2 post ++
      serAll n (later.map (List.drop R)) (curAfter cur2 post) (w2 + post.length)
termination_by l => l.length
decreasing_by simp

/-- The order in which iteration reports them. -/
def expAll : List (List Ext) → List Ext
  | [] => []
  | a :: later =>
    let R := blockR a later
    a.take R ++ (later.map (List.take R)).flatten ++ a.drop R ++ expAll (later.map (List.drop R))
termination_by l => l.length
decreasing_by simp

/-- The queues of an extension array. -/
def queues (exts : Array Ext) (nbF : Nat) : List (List Ext) := (List.range nbF).map (allOf exts)

end Opus.ExtProofs
