import OpusModel.RangeCoder
/-
  OpusProofs.RangeCoderTellTable — exhaustive kernel evaluation behind `ec_tell_frac` (C08, Stage A):
  the table variant equals the squaring variant on every class of `rng`
  (exhaustive kernel evaluation over the 2^15 values of the top 16 bits),
  bounds, monotonicity in `rng`.
-/
namespace Opus.RangeCoder

/-- Exhaustive check predicate for one value `r = 32768 + i` of the top 16 bits of `rng`:
    table variant = squaring variant, at most 7, and monotone to the next value. -/
def fracChk (i : Nat) : Bool :=
  let r := 32768 + i
  fracTable r == fracSquare r && decide (fracTable r ≤ 7) && decide (fracTable r ≤ fracTable (r + 1))

def allFrom (p : Nat → Bool) (lo : Nat) : Nat → Bool
  | 0 => true
  | n + 1 => p (lo + n) && allFrom p lo n

theorem allFrom_spec (p : Nat → Bool) (lo : Nat) :
    ∀ n, allFrom p lo n = true → ∀ i, lo ≤ i → i < lo + n → p i = true
  | 0, _, i, h1, h2 => by omega
  | n + 1, h, i, h1, h2 => by
    simp [allFrom] at h
    by_cases e : i = lo + n
    · subst e; exact h.1
    · exact allFrom_spec p lo n h.2 i h1 (by omega)

theorem fracChk_chunk0 : allFrom fracChk 0 4096 = true := by decide +kernel
theorem fracChk_chunk1 : allFrom fracChk 4096 4096 = true := by decide +kernel
theorem fracChk_chunk2 : allFrom fracChk 8192 4096 = true := by decide +kernel
theorem fracChk_chunk3 : allFrom fracChk 12288 4096 = true := by decide +kernel
theorem fracChk_chunk4 : allFrom fracChk 16384 4096 = true := by decide +kernel
theorem fracChk_chunk5 : allFrom fracChk 20480 4096 = true := by decide +kernel
theorem fracChk_chunk6 : allFrom fracChk 24576 4096 = true := by decide +kernel
theorem fracChk_chunk7 : allFrom fracChk 28672 4096 = true := by decide +kernel

theorem fracChk_all (i : Nat) (h : i < 32768) : fracChk i = true := by
  have h0 := allFrom_spec fracChk 0 4096 fracChk_chunk0 i
  have h1 := allFrom_spec fracChk 4096 4096 fracChk_chunk1 i
  have h2 := allFrom_spec fracChk 8192 4096 fracChk_chunk2 i
  have h3 := allFrom_spec fracChk 12288 4096 fracChk_chunk3 i
  have h4 := allFrom_spec fracChk 16384 4096 fracChk_chunk4 i
  have h5 := allFrom_spec fracChk 20480 4096 fracChk_chunk5 i
  have h6 := allFrom_spec fracChk 24576 4096 fracChk_chunk6 i
  have h7 := allFrom_spec fracChk 28672 4096 fracChk_chunk7 i
  by_cases c0 : i < 4096; · exact h0 (by omega) (by omega)
  by_cases c1 : i < 8192; · exact h1 (by omega) (by omega)
  by_cases c2 : i < 12288; · exact h2 (by omega) (by omega)
  by_cases c3 : i < 16384; · exact h3 (by omega) (by omega)
  by_cases c4 : i < 20480; · exact h4 (by omega) (by omega)
  by_cases c5 : i < 24576; · exact h5 (by omega) (by omega)
  by_cases c6 : i < 28672; · exact h6 (by omega) (by omega)
  exact h7 (by omega) (by omega)

end Opus.RangeCoder
