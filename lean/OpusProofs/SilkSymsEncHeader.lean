import OpusProofs.SilkSymsEncFrame
import OpusProofs.SilkSymsHistory
/-
  C08 × C03 composition, part 6: the payload header — the VAD/LBRR-flag bits the encoder patches into
  the placeholder against the single bits `silk_Decode` reads, the LBRR-flags symbol, and the LBRR data
  (`silk_Decode` reads and drops it in normal decoding; the encoder writes it with conditional coding of
  its own).
-/
namespace Opus.SilkSymsEncProofs
open Opus Opus.RangeCoder Opus.SilkSyms Opus.SilkSymsEnc Opus.SilkSymsFrozen.Icdf

/-- A list of flags. -/
def AllBits (l : List Nat) : Prop := ∀ v ∈ l, v ≤ 1

theorem AllBits.tail {b : Nat} {l : List Nat} (h : AllBits (b :: l)) : AllBits l :=
  fun v hv => h v (List.mem_cons_of_mem _ hv)

theorem AllBits.getD {l : List Nat} (h : AllBits l) (i : Nat) : l.getD i 0 ≤ 1 := by
  rw [List.getD_eq_getElem?_getD]
  cases hq : l[i]? with
  | none => simp
  | some v => simp only [Option.getD_some]; exact h v (List.mem_of_getElem? hq)

theorem AllBits.take {l : List Nat} (h : AllBits l) (n : Nat) : AllBits (l.take n) :=
  fun v hv => h v (List.mem_of_mem_take hv)

/-! ### The patched word -/

theorem bitsWord_acc : ∀ (bs : List Nat) (acc : Nat), bitsWord bs acc = acc * 2 ^ bs.length + bitsWord bs 0
  | [], acc => by simp [bitsWord]
  | b :: bs, acc => by
    rw [bitsWord, bitsWord, bitsWord_acc bs (2 * acc + b), bitsWord_acc bs (2 * 0 + b), List.length_cons, Nat.pow_succ]
    rw [Nat.add_mul, Nat.mul_zero, Nat.zero_add, Nat.mul_comm 2 acc, Nat.mul_assoc, Nat.mul_comm 2 (2 ^ bs.length)]
    omega

theorem bitsWord_lt : ∀ (bs : List Nat), AllBits bs → bitsWord bs 0 < 2 ^ bs.length
  | [], _ => by simp [bitsWord]
  | b :: bs, h => by
    rw [bitsWord, bitsWord_acc, List.length_cons, Nat.pow_succ]
    have := bitsWord_lt bs h.tail
    have hb := h b (List.mem_cons_self ..)
    have : (2 * 0 + b) * 2 ^ bs.length ≤ 1 * 2 ^ bs.length := Nat.mul_le_mul_right _ (by omega)
    omega

/-- The decoder's single-bit reads of the patched word are the flags, first to last. -/
theorem bitsOps_word : ∀ (bs : List Nat), AllBits bs → bitsOps (bitsWord bs 0) bs.length = flagOps bs
  | [], _ => rfl
  | b :: bs, h => by
    have hb := h b (List.mem_cons_self ..)
    have hlt := bitsWord_lt bs h.tail
    have hpos : 0 < 2 ^ bs.length := Nat.pow_pos (by decide)
    rw [bitsWord, bitsWord_acc, List.length_cons, bitsOps, flagOps, List.map_cons]
    have e0 : (2 * 0 + b) = b := by omega
    rw [e0]
    have e1 : (b * 2 ^ bs.length + bitsWord bs 0) / 2 ^ bs.length = b := by
      rw [Nat.mul_comm, Nat.mul_add_div hpos, Nat.div_eq_of_lt hlt]; omega
    have e2 : (b * 2 ^ bs.length + bitsWord bs 0) % 2 ^ bs.length = bitsWord bs 0 := by
      rw [Nat.mul_comm, Nat.mul_add_mod, Nat.mod_eq_of_lt hlt]
    rw [e1, e2, Nat.mod_eq_of_lt (by omega), bitsOps_word bs h.tail, flagOps]

/-! ### LBRR flags symbol -/

theorem lbrrSymbol_zero : ∀ (fl : List Nat), lbrrSymbol fl = 0 → ∀ i, fl.getD i 0 = 0
  | [], _, i => by simp
  | f :: fs, h, i => by
    rw [lbrrSymbol] at h
    cases i with
    | zero => simp only [List.getD_cons_zero]; omega
    | succ i => simp only [List.getD_cons_succ]; exact lbrrSymbol_zero fs (by omega) i

theorem lbrrSymbol_bit : ∀ (fl : List Nat), AllBits fl → ∀ i, lbrrSymbol fl / 2 ^ i % 2 = fl.getD i 0
  | [], _, i => by simp [lbrrSymbol]
  | f :: fs, h, i => by
    have hf := h f (List.mem_cons_self ..)
    rw [lbrrSymbol]
    cases i with
    | zero => simp only [Nat.pow_zero, Nat.div_one, List.getD_cons_zero]; omega
    | succ i =>
      simp only [List.getD_cons_succ]
      have : (f + 2 * lbrrSymbol fs) / 2 = lbrrSymbol fs := by omega
      have e : (f + 2 * lbrrSymbol fs) / 2 ^ (i + 1) = lbrrSymbol fs / 2 ^ i := by
        rw [Nat.pow_succ, Nat.mul_comm (2 ^ i) 2, ← Nat.div_div_eq_div_mul, this]
      rw [e, lbrrSymbol_bit fs h.tail i]

theorem lbrrSymbol_lt : ∀ (fl : List Nat), AllBits fl → lbrrSymbol fl < 2 ^ fl.length
  | [], _ => by simp [lbrrSymbol]
  | f :: fs, h => by
    have hf := h f (List.mem_cons_self ..)
    have := lbrrSymbol_lt fs h.tail
    rw [lbrrSymbol, List.length_cons, Nat.pow_succ]
    omega

theorem take_getD (fl : List Nat) (n i : Nat) (h : i < n) : (fl.take n).getD i 0 = fl.getD i 0 := by
  rw [List.getD_eq_getElem?_getD, List.getD_eq_getElem?_getD, List.getElem?_take, if_pos h]

theorem decodeLbrrFlags_spec {nfpp : Nat} {fl : List Nat} {c : Dec} (hn : 1 ≤ nfpp ∧ nfpp ≤ 3) (hb : AllBits fl)
    (hl : nfpp ≤ fl.length) (h : Reads c (lbrrSymOps nfpp fl)) :
    decodeLbrrFlags nfpp (lbrrFlagOf nfpp fl) c = (lbrr3 nfpp fl, after c (lbrrSymOps nfpp fl)) := by
  unfold decodeLbrrFlags
  have hbt := hb.take nfpp
  by_cases hz : lbrrSymbol (fl.take nfpp) = 0
  · have h0 := lbrrSymbol_zero _ hz
    have hf : lbrrFlagOf nfpp fl = 0 := by unfold lbrrFlagOf; rw [if_neg (fun hh => hh hz)]
    have ho : lbrrSymOps nfpp fl = [] := by unfold lbrrSymOps; rw [if_neg (fun hh => hh.1 hz)]
    rw [hf, ho, if_pos rfl, after_nil]
    refine Prod.ext ?_ rfl
    show [0, 0, 0] = lbrr3 nfpp fl
    simp only [lbrr3, List.range, List.range.loop, List.map_cons, List.map_nil]
    have e : ∀ i, (if i < nfpp then fl.getD i 0 else 0) = 0 := by
      intro i
      split
      · rename_i hi; rw [← take_getD fl nfpp i hi]; exact h0 i
      · rfl
    rw [e 0, e 1, e 2]
  · have hf : lbrrFlagOf nfpp fl = 1 := by unfold lbrrFlagOf; rw [if_pos hz]
    rw [hf, if_neg (by decide)]
    by_cases h1 : nfpp = 1
    · subst h1
      have ho : lbrrSymOps 1 fl = [] := by unfold lbrrSymOps; rw [if_neg (fun hh => absurd hh.2 (by decide))]
      rw [ho, if_pos rfl, after_nil]
      refine Prod.ext ?_ rfl
      show [1, 0, 0] = lbrr3 1 fl
      have hb0 := lbrrSymbol_bit _ hbt 0
      have hlt := lbrrSymbol_lt _ hbt
      have hlen : (fl.take 1).length = 1 := by rw [List.length_take]; omega
      rw [hlen] at hlt
      rw [take_getD fl 1 0 (by decide)] at hb0
      simp only [lbrr3, List.range, List.range.loop, List.map_cons, List.map_nil]
      have : fl.getD 0 0 = 1 := by
        rw [← hb0]; simp only [Nat.pow_zero, Nat.div_one]; omega
      rw [if_pos (by decide), if_neg (by decide), if_neg (by decide), this]
    · have hgt : nfpp > 1 := by omega
      have ho : lbrrSymOps nfpp fl =
          [ic (lbrrSymbol (fl.take nfpp) - 1) ([silk_LBRR_flags_2_iCDF, silk_LBRR_flags_3_iCDF].getD (nfpp - 2) [])] := by
        unfold lbrrSymOps; rw [if_pos ⟨hz, hgt⟩]
      rw [ho] at h ⊢
      rw [if_neg h1]
      split
      rename_i s c1 e
      rw [sym_spec h] at e
      obtain ⟨rfl, rfl⟩ := Prod.mk.inj e
      refine Prod.ext ?_ rfl
      simp only
      unfold lbrr3
      apply List.map_congr_left
      intro i _
      have hs : lbrrSymbol (fl.take nfpp) - 1 + 1 = lbrrSymbol (fl.take nfpp) := by omega
      rw [hs]
      split
      · rename_i hi
        rw [lbrrSymbol_bit _ hbt i, take_getD fl nfpp i hi]
      · rfl

theorem lbrrSymOps_legal {nfpp : Nat} {fl : List Nat} (hn : 1 ≤ nfpp ∧ nfpp ≤ 3) (hb : AllBits fl)
    (hl : nfpp ≤ fl.length) : IcLegal (lbrrSymOps nfpp fl) := by
  unfold lbrrSymOps
  split
  · rename_i h
    have hlt := lbrrSymbol_lt _ (hb.take nfpp)
    have hlen : (fl.take nfpp).length = nfpp := by rw [List.length_take]; omega
    rw [hlen] at hlt
    have hp : 0 < 2 ^ nfpp := Nat.pow_pos (by decide)
    exact icLegal_ic (tab_lbrrFlags nfpp (by omega) (by omega)) (by omega)
  · exact icLegal_nil

/-! ### One frame inside a payload -/

theorem encLag_prev (rate : Rate) (cc ps : Nat) (pl lag : Int) :
    encLag rate cc ps pl lag = encLag rate cc (if cc = 2 then ps else 0) (if cc = 2 ∧ ps = 2 then pl else 0) lag := by
  unfold encLag lagDeltaFits
  by_cases hc : cc = 2
  · by_cases hp : ps = 2
    · simp only [hc, hp, and_self, if_true]
    · simp only [hc, hp, if_true, and_false, false_and, if_false]
  · simp only [hc, false_and, if_false]

/-- Only the part of the conditional-coding memory the decoder hands over matters to the encoder. -/
theorem encodeFrame_prev (rate : Rate) (nb : Nat) (lbrr : Bool) (cc ps : Nat) (pl : Int) (ix : Indices) (pu : List Int) :
    encodeFrame rate nb lbrr cc ps pl ix pu =
    encodeFrame rate nb lbrr cc (if cc = 2 then ps else 0) (if cc = 2 ∧ ps = 2 then pl else 0) ix pu := by
  unfold encodeFrame encodeIndices encVoiced
  rw [encLag_prev]

theorem encodeFrame_ok {rate : Rate} {nb cc ps : Nat} {lbrr v : Bool} {pl : Int} {ix : Indices} {pu : List Int}
    (hix : IxOk rate nb v cc ix) (hl : lbrr = true → v = true) :
    ∃ a, encodeFrame rate nb lbrr cc ps pl ix pu = .ok a := by
  have hs := hix.sig
  have hq := hix.qoff
  have hv := hix.vad
  have ht : ∃ t, encType lbrr ix.signalType ix.quantOffsetType = .ok t := by
    unfold encType
    rw [if_neg (by omega)]
    by_cases h2 : lbrr = true ∧ 2 * ix.signalType + ix.quantOffsetType < 2
    · exfalso
      have := hl h2.1
      rw [this] at hv
      have : ix.signalType ≠ 0 := by simpa using hv.symm
      omega
    · rw [if_neg h2]
      split <;> exact ⟨_, rfl⟩
  obtain ⟨t, ht⟩ := ht
  unfold encodeFrame encodeIndices
  rw [ht]
  exact ⟨_, rfl⟩

/-- `ecPrevSignalType` / `ecPrevLagIndex` after a frame (decode_indices.c:147-149, `decodeOne`). -/
def updCh (ch : Chan) (ix : Indices) : Chan :=
  { ch with ecPrevSignalType := ix.signalType,
            ecPrevLagIndex := if ix.signalType = 2 then ix.lagIndex else ch.ecPrevLagIndex }

/-- One frame of one channel inside a payload. -/
theorem decodeOne_spec {cfg : Cfg} {n fi lbrrN cc : Nat} {lbrr v : Bool} {ch : Chan} {p : EcPrev} {f : FrameIn} {d : Dec}
    (hnb : cfg.nbSubfr = 2 ∨ cfg.nbSubfr = 4) (hix : IxOk cfg.rate cfg.nbSubfr v cc f.ix)
    (hp : PulsesOk (frameLength cfg.rate cfg.nbSubfr) f.pulses) (hl : lbrr = true → v = true)
    (hv : v = decide (lbrrN ≠ 0 ∨ ch.vad.getD fi 0 ≠ 0)) (hps : ch.ecPrevSignalType = p.sig)
    (hpl : ch.ecPrevLagIndex = p.lag) (h : Reads d (frameOps cfg.rate cfg.nbSubfr lbrr cc p f)) :
    decodeOne cfg n fi lbrrN cc ch d =
      (frameEvs cfg n fi lbrrN cc p f, updCh ch f.ix, after d (frameOps cfg.rate cfg.nbSubfr lbrr cc p f)) := by
  obtain ⟨a, ha⟩ := encodeFrame_ok (ps := p.sig) (pl := p.lag) (pu := f.pulses) hix hl
  have hfo : frameOps cfg.rate cfg.nbSubfr lbrr cc p f = a := by unfold frameOps; rw [ha]
  rw [hfo] at h ⊢
  rw [encodeFrame_prev] at ha
  unfold decodeOne
  rw [← hv, hps, hpl]
  split
  rename_i evs ix' c2 e
  rw [decodeOneCore_spec hnb hix hp ha h] at e
  obtain ⟨rfl, e2⟩ := Prod.mk.inj e
  obtain ⟨rfl, rfl⟩ := Prod.mk.inj e2
  rw [updCh, hpl]
  rfl

theorem frameOps_legal {rate : Rate} {nb cc : Nat} {lbrr v : Bool} {p : EcPrev} {f : FrameIn}
    (hix : IxOk rate nb v cc f.ix) (hp : PulsesOk (frameLength rate nb) f.pulses) (hl : lbrr = true → v = true) :
    IcLegal (frameOps rate nb lbrr cc p f) := by
  obtain ⟨a, ha⟩ := encodeFrame_ok (ps := p.sig) (pl := p.lag) (pu := f.pulses) hix hl
  have hfo : frameOps rate nb lbrr cc p f = a := by unfold frameOps; rw [ha]
  rw [hfo]
  exact encodeFrame_legal hix hp ha

/-! ### Stereo predictor -/

theorem predOps_eq {ix : List Nat} (h : PredOk ix) :
    predOps ix = [ic (5 * ix.getD 2 0 + ix.getD 5 0) silk_stereo_pred_joint_iCDF,
      ic (ix.getD 0 0) silk_uniform3_iCDF, ic (ix.getD 1 0) silk_uniform5_iCDF,
      ic (ix.getD 3 0) silk_uniform3_iCDF, ic (ix.getD 4 0) silk_uniform5_iCDF] := by
  obtain ⟨_, h0, h1, h2, h3, h4, h5⟩ := h
  unfold predOps encStereoPred
  rw [if_neg (by omega), if_neg (fun hh => hh ⟨h0, h1⟩), if_neg (fun hh => hh ⟨h3, h4⟩)]

theorem stereoIxG_spec {tj t3 t5 : List Nat} {n a0 a1 b0 b1 : Nat} {d : Dec}
    (h : Reads d [ic n tj, ic a0 t3, ic a1 t5, ic b0 t3, ic b1 t5]) :
    stereoIxG tj t3 t5 d = ((n, a0, a1, b0, b1), after d [ic n tj, ic a0 t3, ic a1 t5, ic b0 t3, ic b1 t5]) := by
  rw [reads_cons_append] at h
  obtain ⟨h1, h⟩ := h
  rw [reads_cons_append] at h
  obtain ⟨h2, h⟩ := h
  rw [reads_cons_append] at h
  obtain ⟨h3, h⟩ := h
  rw [reads_cons_append] at h
  obtain ⟨h4, h5⟩ := h
  rw [after_cons_cons, after_cons_cons, after_cons_cons, after_cons_cons]
  rw [stereoIxG]
  split
  rename_i n' c1 e1
  rw [sym_spec h1] at e1
  obtain ⟨rfl, rfl⟩ := Prod.mk.inj e1
  split
  rename_i a0' c2 e2
  rw [sym_spec h2] at e2
  obtain ⟨rfl, rfl⟩ := Prod.mk.inj e2
  split
  rename_i a1' c3 e3
  rw [sym_spec h3] at e3
  obtain ⟨rfl, rfl⟩ := Prod.mk.inj e3
  split
  rename_i b0' c4 e4
  rw [sym_spec h4] at e4
  obtain ⟨rfl, rfl⟩ := Prod.mk.inj e4
  split
  rename_i b1' c5' e5
  rw [sym_spec h5] at e5
  obtain ⟨rfl, rfl⟩ := Prod.mk.inj e5
  rfl

theorem stereoDecodePred_spec {ix : List Nat} {d : Dec} (hok : PredOk ix) (h : Reads d (predOps ix)) :
    stereoDecodePred d = (stereoMk (5 * ix.getD 2 0 + ix.getD 5 0) (ix.getD 0 0) (ix.getD 1 0) (ix.getD 3 0) (ix.getD 4 0),
      after d (predOps ix)) := by
  rw [predOps_eq hok] at h ⊢
  rw [stereoDecodePred, stereoDecodePredG]
  split
  rename_i nn a0 a1 b0 b1 c5 e
  rw [stereoIxG_spec h] at e
  obtain ⟨e6, rfl⟩ := Prod.mk.inj e
  obtain ⟨rfl, e7⟩ := Prod.mk.inj e6
  obtain ⟨rfl, e8⟩ := Prod.mk.inj e7
  obtain ⟨rfl, e9⟩ := Prod.mk.inj e8
  obtain ⟨rfl, rfl⟩ := Prod.mk.inj e9
  rfl

theorem predOps_legal {ix : List Nat} (h : PredOk ix) : IcLegal (predOps ix) := by
  rw [predOps_eq h]
  obtain ⟨_, h0, h1, h2, h3, h4, h5⟩ := h
  exact icLegal_cons (icLegal_ic tab_stereoJoint (by omega)) (icLegal_cons (icLegal_ic tab_uniform3 h0)
    (icLegal_cons (icLegal_ic tab_uniform5 h1) (icLegal_cons (icLegal_ic tab_uniform3 h3) (icLegal_ic tab_uniform5 h4))))

theorem midOnly_spec {m : Nat} {d : Dec} (h : Reads d (encMidOnly m)) :
    stereoDecodeMidOnly d = (m, after d (encMidOnly m)) := by
  unfold encMidOnly at h ⊢
  unfold stereoDecodeMidOnly
  exact sym_spec h

theorem midOnly_legal {m : Nat} (h : m ≤ 1) : IcLegal (encMidOnly m) :=
  icLegal_ic tab_stereoMid (by omega)

/-! ### Header flags -/

theorem range_map_getD (l : List Nat) : (List.range l.length).map (fun i => l.getD i 0) = l := by
  apply List.ext_getElem
  · simp
  · intro i h1 h2
    simp only [List.getElem_map, List.getElem_range]
    rw [List.getD_eq_getElem?_getD, List.getElem?_eq_getElem h2, Option.getD_some]

theorem flagOps_append (a b : List Nat) : flagOps (a ++ b) = flagOps a ++ flagOps b := by
  unfold flagOps; rw [List.map_append]

theorem chanFlagBits_eq {cfg : Cfg} {c : ChanIn} (h : ChanOk cfg c) :
    chanFlagBits cfg.nfpp c = c.vad ++ [lbrrFlagOf cfg.nfpp c.lbrrFlags] := by
  unfold chanFlagBits lbrrFlagOf
  rw [← h.vadLen, range_map_getD]

theorem chanFlagBits_bits {cfg : Cfg} {c : ChanIn} (h : ChanOk cfg c) : AllBits (chanFlagBits cfg.nfpp c) := by
  rw [chanFlagBits_eq h]
  intro v hv
  rcases List.mem_append.mp hv with hv | hv
  · exact h.vadBits v hv
  · rw [List.mem_singleton] at hv
    rw [hv]; unfold lbrrFlagOf; split <;> decide

theorem chanFlagBits_length {cfg : Cfg} {c : ChanIn} (h : ChanOk cfg c) : (chanFlagBits cfg.nfpp c).length = cfg.nfpp + 1 := by
  rw [chanFlagBits_eq h, List.length_append, h.vadLen]; rfl

theorem chanFlags_spec {cfg : Cfg} {c : ChanIn} {d : Dec} (h : ChanOk cfg c)
    (hr : Reads d (flagOps (chanFlagBits cfg.nfpp c))) :
    decodeChanFlags cfg.nfpp d = (c.vad, lbrrFlagOf cfg.nfpp c.lbrrFlags, after d (flagOps (chanFlagBits cfg.nfpp c))) := by
  rw [chanFlagBits_eq h, flagOps_append] at hr ⊢
  have hl : lbrrFlagOf cfg.nfpp c.lbrrFlags ≤ 1 := by unfold lbrrFlagOf; split <;> decide
  have := decodeChanFlags_spec (vs := c.vad) (l := lbrrFlagOf cfg.nfpp c.lbrrFlags) (d := d) h.vadBits hl hr
  rw [h.vadLen] at this
  exact this

/-- One channel's decoder state after the header flags. -/
def hdrCh (nfpp : Nat) (c : ChanIn) (ch : Chan) : Chan :=
  { ch with vad := c.vad, lbrrFlag := lbrrFlagOf nfpp c.lbrrFlags, lbrrFlags := lbrr3 nfpp c.lbrrFlags }

/-- The decoder state after the header flags. -/
def hdrSt (cfg : Cfg) (pk : PacketIn) (st : SilkSt) : SilkSt :=
  { st with ch0 := hdrCh cfg.nfpp pk.ch0 st.ch0, ch1 := if cfg.nCh = 2 then hdrCh cfg.nfpp pk.ch1 st.ch1 else st.ch1 }

/-- What the decoder reads for the flags: the patched bits, then the LBRR-flags symbols. -/
def flagsOps (cfg : Cfg) (pk : PacketIn) : List Op :=
  flagOps (headerBits cfg pk) ++
  (lbrrSymOps cfg.nfpp pk.ch0.lbrrFlags ++ (if cfg.nCh = 2 then lbrrSymOps cfg.nfpp pk.ch1.lbrrFlags else []))

theorem decodeFlags_spec {cfg : Cfg} {pk : PacketIn} (hok : PacketOk cfg pk) (st : SilkSt) {d : Dec}
    (h : Reads d (flagsOps cfg pk)) :
    (if cfg.nCh = 2 then decodeFlagsStereo cfg st d else decodeFlagsMono cfg st d) =
      { st := hdrSt cfg pk st, dom := 0, c := after d (flagsOps cfg pk), evs := headerEvs cfg pk } := by
  have h0 := hok.ch0
  unfold flagsOps headerBits at h ⊢
  unfold hdrSt headerEvs
  by_cases h2 : cfg.nCh = 2
  · have h1 := hok.ch1 h2
    simp only [if_pos h2] at h ⊢
    rw [flagOps_append, reads_append, reads_append, reads_append] at h
    simp only [after_append] at h
    obtain ⟨⟨ha, hb⟩, hc, hd⟩ := h
    rw [flagOps_append, after_append, after_append, after_append]
    rw [decodeFlagsStereo]
    split
    rename_i v0 l0 c1 e1
    rw [chanFlags_spec h0 ha] at e1
    obtain ⟨rfl, e1'⟩ := Prod.mk.inj e1
    obtain ⟨rfl, rfl⟩ := Prod.mk.inj e1'
    split
    rename_i v1 l1 c2 e2
    rw [chanFlags_spec h1 hb] at e2
    obtain ⟨rfl, e2'⟩ := Prod.mk.inj e2
    obtain ⟨rfl, rfl⟩ := Prod.mk.inj e2'
    split
    rename_i f0 c3 e3
    rw [decodeLbrrFlags_spec hok.nfpp h0.lbrrBits (by rw [h0.lbrrLen]; exact Nat.le_refl _) hc] at e3
    obtain ⟨rfl, rfl⟩ := Prod.mk.inj e3
    split
    rename_i f1 c4 e4
    rw [decodeLbrrFlags_spec hok.nfpp h1.lbrrBits (by rw [h1.lbrrLen]; exact Nat.le_refl _) hd] at e4
    obtain ⟨rfl, rfl⟩ := Prod.mk.inj e4
    rfl
  · simp only [if_neg h2, List.append_nil] at h ⊢
    rw [reads_append] at h
    rw [after_append]
    rw [decodeFlagsMono]
    split
    rename_i v0 l0 c1 e1
    rw [chanFlags_spec h0 h.1] at e1
    obtain ⟨rfl, e1'⟩ := Prod.mk.inj e1
    obtain ⟨rfl, rfl⟩ := Prod.mk.inj e1'
    split
    rename_i f0 c2 e2
    rw [decodeLbrrFlags_spec hok.nfpp h0.lbrrBits (by rw [h0.lbrrLen]; exact Nat.le_refl _) h.2] at e2
    obtain ⟨rfl, rfl⟩ := Prod.mk.inj e2
    rfl

theorem headerBits_bits {cfg : Cfg} {pk : PacketIn} (hok : PacketOk cfg pk) : AllBits (headerBits cfg pk) := by
  unfold headerBits
  intro v hv
  rcases List.mem_append.mp hv with hv | hv
  · exact chanFlagBits_bits hok.ch0 v hv
  · split at hv
    · rename_i h2; exact chanFlagBits_bits (hok.ch1 h2) v hv
    · cases hv

theorem headerBits_length {cfg : Cfg} {pk : PacketIn} (hok : PacketOk cfg pk) :
    (headerBits cfg pk).length = (cfg.nfpp + 1) * cfg.nCh := by
  unfold headerBits
  rw [List.length_append, chanFlagBits_length hok.ch0]
  rcases hok.nCh with h1 | h2
  · rw [if_neg (by omega), h1]; simp
  · rw [if_pos h2, chanFlagBits_length (hok.ch1 h2), h2]; omega

theorem flagsOps_syms_legal {cfg : Cfg} {pk : PacketIn} (hok : PacketOk cfg pk) :
    IcLegal (lbrrSymOps cfg.nfpp pk.ch0.lbrrFlags ++ (if cfg.nCh = 2 then lbrrSymOps cfg.nfpp pk.ch1.lbrrFlags else [])) := by
  apply icLegal_append
  · exact lbrrSymOps_legal hok.nfpp hok.ch0.lbrrBits (by rw [hok.ch0.lbrrLen]; exact Nat.le_refl _)
  · split
    · rename_i h2
      exact lbrrSymOps_legal hok.nfpp (hok.ch1 h2).lbrrBits (by rw [(hok.ch1 h2).lbrrLen]; exact Nat.le_refl _)
    · exact icLegal_nil

end Opus.SilkSymsEncProofs
