import OpusProofs.RangeCoderRun
/-
  OpusProofs.RangeCoderPatch — C08, `ec_enc_patch_initial_bits` (entenc.c:231-258).

  When the first `n ≤ 8` bits of the stream were coded with a power-of-two probability, the
  encoder's interval stays inside one cell `[t, t+1) * 2^(s-n)` of the code space (`t` = the value of
  those bits, `s` = current scale).  Patching replaces `t` by `v`: the interval moves by
  `(v - t)` cells and nothing else changes.
-/
namespace Opus.RangeCoder

/-- Size of a cell of the first `n` bits at the encoder's current scale `2^(31 + 8*encM c)`. -/
def cellSz (c : Enc) (n : Nat) : Nat := 2 ^ (31 - n) * 256 ^ encM c

/-- The interval lies in cell `t` of the first `n` bits, and so do the digits already output. -/
structure Cell (n t : Nat) (c : Enc) : Prop where
  n_le : n ≤ 8
  t_lt : t < 2 ^ n
  lo : t * cellSz c n ≤ encLow c
  hi : encLow c + c.rng ≤ (t + 1) * cellSz c n
  dig : 1 ≤ encM c → t * cellSz c n + c.val ≤ encLow c

theorem cellSz_pos (c : Enc) (n : Nat) : 0 < cellSz c n :=
  Nat.mul_pos (Nat.pow_pos (by decide)) (Nat.pow_pos (by decide))

/-- For at least one digit the cell size is a multiple of `2^31`. -/
theorem cellSz_eq (c : Enc) (n : Nat) (hn : n ≤ 8) (hM : 1 ≤ encM c) :
    cellSz c n = 2147483648 * (2 ^ (8 - n) * 256 ^ (encM c - 1)) := by
  unfold cellSz
  have e1 : encM c = (encM c - 1) + 1 := by omega
  have e2 : (31 - n) = 23 + (8 - n) := by omega
  conv => lhs; rw [e1, Nat.pow_succ, e2, Nat.pow_add]
  have : (2147483648 : Nat) = 2 ^ 23 * 256 := by decide
  rw [this]
  simp only [Nat.mul_assoc, Nat.mul_comm, Nat.mul_left_comm]

/-! ### The cell is preserved by every operation other than the patch -/

theorem cell_encSub (n t : Nat) (c : Enc) (r a b : Nat) (first : Bool) (inv : EncInv c) (ok : SubOk c.rng r a b)
    (h : Cell n t c) : Cell n t (encSub c r a b first) := by
  obtain ⟨f1, f2, f3⟩ := ok.facts
  have hr := ok.r_pos
  obtain ⟨h1, h2, h3, h4, h5⟩ := h
  have eM := encSub_encM c r a b first
  have eD := encSub_digitsVal c r a b first
  have eC : cellSz (encSub c r a b first) n = cellSz c n := by unfold cellSz; rw [eM]
  have hv : (encSub c r a b first).val + (encSub c r a b first).rng ≤ c.val + c.rng ∧
      0 < (encSub c r a b first).rng ∧ (encSub c r a b first).rng ≤ c.rng ∧
      c.val ≤ (encSub c r a b first).val := by
    unfold encSub; split
    · simp only; omega
    · simp only; rw [f2]; omega
  have heL : encLow (encSub c r a b first) = digitsVal c * 2147483648 + (encSub c r a b first).val := by
    unfold encLow; rw [eD]
  unfold encLow at h3 h4 h5
  refine ⟨h1, h2, ?_, ?_, ?_⟩
  · rw [eC, heL]; omega
  · rw [eC, heL]; omega
  · intro hM; rw [eM] at hM; have := h5 hM; rw [eC, heL]; omega

theorem cell_normStep (n t : Nat) (c : Enc) (pre : EncPre c) (hr : c.rng ≤ 8388608)
    (hnb : c.nbitsTotal < 4294967296) (herr : (normStep c).error = 0) (h : Cell n t c) :
    Cell n t (normStep c) := by
  obtain ⟨_, _, s2, s3, s4, _⟩ := normStep_spec c pre hr hnb herr
  obtain ⟨h1, h2, h3, h4, h5⟩ := h
  have eC : cellSz (normStep c) n = 256 * cellSz c n := by
    unfold cellSz; rw [s4, Nat.pow_succ]
    simp only [Nat.mul_assoc, Nat.mul_comm, Nat.mul_left_comm]
  have hv : (normStep c).val < 2147483648 := by
    show c.val * 256 % 2147483648 < 2147483648
    omega
  have e1 : t * (256 * cellSz c n) = 256 * (t * cellSz c n) := Nat.mul_left_comm _ _ _
  have e2 : (t + 1) * (256 * cellSz c n) = 256 * ((t + 1) * cellSz c n) := Nat.mul_left_comm _ _ _
  refine ⟨h1, h2, ?_, ?_, ?_⟩
  · rw [eC, s2, e1]; omega
  · rw [eC, s2, s3, e2]; omega
  · intro hM
    have hq := cellSz_eq (normStep c) n h1 hM
    have hlo : t * cellSz (normStep c) n ≤ encLow (normStep c) := by rw [eC, s2, e1]; omega
    rw [hq] at hlo ⊢
    have e3 : t * (2147483648 * (2 ^ (8 - n) * 256 ^ (encM (normStep c) - 1))) =
        2147483648 * (t * (2 ^ (8 - n) * 256 ^ (encM (normStep c) - 1))) := Nat.mul_left_comm _ _ _
    rw [e3] at hlo ⊢
    unfold encLow at hlo ⊢
    generalize t * (2 ^ (8 - n) * 256 ^ (encM (normStep c) - 1)) = Q at *
    generalize digitsVal (normStep c) = D at *
    omega

theorem cell_encNormalize (n t : Nat) (c : Enc) (pre : EncPre c) (hn : (encNormalize c).nbitsTotal < 4294967296)
    (herr : (encNormalize c).error = 0) (h : Cell n t c) : Cell n t (encNormalize c) := by
  induction hm : 8388609 - c.rng using Nat.strongRecOn generalizing c with
  | _ m ih =>
    by_cases hc : 0 < c.rng ∧ c.rng ≤ 8388608
    · rw [encNormalize_step c hc] at hn herr ⊢
      have hnb := encNormalize_nbits_ge (normStep c)
      have hnb2 : (normStep c).nbitsTotal = c.nbitsTotal + 8 := rfl
      have herr1 : (normStep c).error = 0 := by
        apply Classical.byContradiction; intro hne
        exact encNormalize_error_mono _ hne herr
      obtain ⟨_, s1, _, s3, _⟩ := normStep_spec c pre hc.2 (by omega) herr1
      exact ih (8388609 - (normStep c).rng) (by rw [s3]; omega) (normStep c) s1 hn herr
        (cell_normStep n t c pre hc.2 (by omega) herr1 h) rfl
    · rw [encNormalize_done c hc]; exact h

theorem cell_prim (n t : Nat) (c : Enc) (op : Op) (inv : EncInv c) (hl : op.Legal) {r a b : Nat} {first : Bool}
    (hsub : op.sub c.rng = some (r, a, b, first)) (hn : (encOp c op).nbitsTotal < 4294967296)
    (herr : (encOp c op).error = 0) (h : Cell n t c) : Cell n t (encOp c op) := by
  obtain ⟨ok, heq⟩ := encOp_sub c op inv hl hsub
  rw [heq] at hn herr ⊢
  obtain ⟨pre, _, _⟩ := encSub_spec c r a b first inv ok
  exact cell_encNormalize n t _ pre hn herr (cell_encSub n t c r a b first inv ok h)

theorem encBits_val (c : Enc) (v n : Nat) : (encBits c v n).val = c.val := by
  unfold encBits
  simp only
  split
  · exact encBitsFlush_frame (·.val) (by simp) _ _ _
  · rfl

theorem cell_bits (n t : Nat) (c : Enc) (v k : Nat) (ri : RunInv c) (hk : k ≤ 25) (hv : v < 2 ^ k)
    (herr : (encBits c v k).error = 0) (h : Cell n t c) : Cell n t (encBits c v k) := by
  obtain ⟨g1, g2, g3, _, _, _⟩ := encBits_range c v k ri hk hv herr
  obtain ⟨h1, h2, h3, h4, h5⟩ := h
  have eC : cellSz (encBits c v k) n = cellSz c n := by unfold cellSz; rw [g1]
  exact ⟨h1, h2, by rw [eC, g2]; exact h3, by rw [eC, g2, g3]; exact h4,
    fun hM => by rw [eC, g2, encBits_val]; exact h5 (by rw [← g1]; exact hM)⟩

/-- Every operation of the round-trip theorems keeps the interval in its cell. -/
theorem cell_op (n t : Nat) (c : Enc) (op : Op) (ri : RunInv c) (hl : op.LegalAt c)
    (hn : (encOp c op).nbitsTotal < 4294967296) (herr : (encOp c op).error = 0) (h : Cell n t c) :
    Cell n t (encOp c op) := by
  cases op with
  | encode fl fh ft => exact cell_prim n t c _ ri.inv hl rfl hn herr h
  | encodeBin fl fh nb => exact cell_prim n t c _ ri.inv hl rfl hn herr h
  | bitLogp v logp =>
    by_cases hv : v ≠ 0
    · exact cell_prim n t c _ ri.inv hl (r := c.rng / 2 ^ logp) (a := 1) (b := 0) (first := false)
        (by simp only [Op.sub]; rw [if_pos hv]) hn herr h
    · exact cell_prim n t c _ ri.inv hl (r := c.rng / 2 ^ logp) (a := 2 ^ logp) (b := 1) (first := true)
        (by simp only [Op.sub]; rw [if_neg hv]) hn herr h
  | icdf s tbl ftb => exact cell_prim n t c _ ri.inv hl rfl hn herr h
  | icdf16 s tbl ftb => exact cell_prim n t c _ ri.inv hl rfl hn herr h
  | bits v k => exact cell_bits n t c v k ri hl.2.1 hl.2.2 herr h
  | patchInitial v k => exact absurd hl (by simp [Op.LegalAt])
  | shrink size =>
    obtain ⟨_, g1, g2⟩ := step_shrink c size ri hl.1 hl.2 herr
    obtain ⟨h1, h2, h3, h4, h5⟩ := h
    have eC : cellSz (encShrink c size) n = cellSz c n := by unfold cellSz; rw [g1]
    exact ⟨h1, h2, by simp only [encOp]; rw [eC, g2]; exact h3,
      by simp only [encOp]; rw [eC, g2]; exact h4,
      fun hM => by simp only [encOp]; rw [eC, g2]; exact h5 (by simp only [encOp] at hM; rw [← g1]; exact hM)⟩
  | uint v ft =>
    obtain ⟨l1, l2, l3⟩ := hl
    simp only [encOp, encUint] at hn herr ⊢
    by_cases hb : ilog (ft - 1) > 8
    · rw [if_pos hb] at hn herr ⊢
      have hleg := uint_hi_legal l1 l2 l3 hb
      generalize hftb : ilog (ft - 1) - 8 = ftb at *
      have hftb24 : ftb ≤ 24 := by
        have : ilog (ft - 1) ≤ 32 := by rw [ilog_lt_iff]; omega
        omega
      have hlo : v % 2 ^ ftb < 2 ^ ftb := Nat.mod_lt _ (Nat.pow_pos (by decide))
      have hmono := (encBits_rn (encode c (v / 2 ^ ftb) (v / 2 ^ ftb + 1) ((ft - 1) / 2 ^ ftb + 1))
        (v % 2 ^ ftb) ftb).2
      have herr1 : (encode c (v / 2 ^ ftb) (v / 2 ^ ftb + 1) ((ft - 1) / 2 ^ ftb + 1)).error = 0 := by
        apply Classical.byContradiction; intro hne
        exact encBits_error_mono _ _ _ hne herr
      have s1 := step_prim c (.encode (v / 2 ^ ftb) (v / 2 ^ ftb + 1) ((ft - 1) / 2 ^ ftb + 1)) ri hleg rfl
        (by simp only [encOp]; omega) herr1
      have c1 := cell_prim n t c (.encode (v / 2 ^ ftb) (v / 2 ^ ftb + 1) ((ft - 1) / 2 ^ ftb + 1)) ri.inv hleg rfl
        (by simp only [encOp]; omega) herr1 h
      simp only [encOp] at s1 c1
      exact cell_bits n t _ _ _ s1.run (by omega) hlo herr c1
    · rw [if_neg hb] at hn herr ⊢
      exact cell_prim n t c (.encode v (v + 1) (ft - 1 + 1)) ri.inv (uint_lo_legal l1 l3 hb) rfl hn herr h

/-! ### The patch itself -/

theorem pow_split8 (n : Nat) (hn : n ≤ 8) : 2 ^ n * 2 ^ (8 - n) = 256 := by
  rw [← Nat.pow_add]; have : n + (8 - n) = 8 := by omega
  rw [this]

theorem patchByte_eq (b v n : Nat) (hn : n ≤ 8) (hv : v < 2 ^ n) :
    patchByte b v n = b % 2 ^ (8 - n) + v * 2 ^ (8 - n) ∧ b % 2 ^ (8 - n) + v * 2 ^ (8 - n) < 256 := by
  have hlt : b % 2 ^ (8 - n) < 2 ^ (8 - n) := Nat.mod_lt _ (Nat.pow_pos (by decide))
  refine ⟨by unfold patchByte; exact or_shift _ _ _ hlt, ?_⟩
  have h8 := pow_split8 n hn
  have : (v + 1) * 2 ^ (8 - n) ≤ 2 ^ n * 2 ^ (8 - n) := Nat.mul_le_mul_right _ hv
  rw [Nat.add_mul] at this
  omega

/-- Replacing the top `n` bits (`t`, forced by the bounds) of the leading digit `b` by `v`. -/
theorem top_bits_core (n t v b P low : Nat) (hn : n ≤ 8) (hP : 0 < P) (hlow : low < P)
    (h1 : t * (2 ^ (8 - n) * P) ≤ b * P + low) (h2 : b * P + low < (t + 1) * (2 ^ (8 - n) * P)) :
    b / 2 ^ (8 - n) = t ∧
    (b % 2 ^ (8 - n) + v * 2 ^ (8 - n)) * P + low + t * (2 ^ (8 - n) * P) =
      b * P + low + v * (2 ^ (8 - n) * P) := by
  generalize hQ : 2 ^ (8 - n) = Q at *
  have hQ0 : 0 < Q := by rw [← hQ]; exact Nat.pow_pos (by decide)
  have a1 : t * Q < b + 1 := by
    apply Nat.lt_of_mul_lt_mul_right (a := P)
    rw [Nat.mul_assoc, Nat.add_mul]; omega
  have a2 : b < (t + 1) * Q := by
    apply Nat.lt_of_mul_lt_mul_right (a := P)
    rw [Nat.mul_assoc]; omega
  have hd : b / Q = t := by
    exact Nat.div_eq_of_lt_le (by omega) a2
  refine ⟨hd, ?_⟩
  have hb : b = t * Q + b % Q := by
    have := Nat.div_add_mod b Q
    rw [hd, Nat.mul_comm] at this; exact this.symm
  generalize b % Q = m at *
  subst hb
  simp only [Nat.add_mul, Nat.mul_assoc]
  omega

theorem patch_arith (W X P Q t v b low D D' val rng n : Nat) (hW : 0 < W) (hP : 0 < P) (hX : Q * P = X)
    (hQ : 2 ^ (8 - n) = Q) (hn : n ≤ 8) (hv : v < 2 ^ n) (hlow : low < P) (hD : D = b * P + low)
    (hD' : D' = (b % Q + v * Q) * P + low) (h3 : t * (W * X) ≤ D * W + val)
    (h4 : D * W + val + rng ≤ (t + 1) * (W * X)) (h5' : t * (W * X) + val ≤ D * W + val) (hrp : 0 < rng) :
    v * (W * X) ≤ D' * W + val ∧ D' * W + val + rng ≤ (v + 1) * (W * X) ∧
    v * (W * X) + val ≤ D' * W + val ∧ D' * W + val + t * (W * X) = D * W + val + v * (W * X) ∧
    b / Q = t ∧ (b % Q + v * Q = 255 → low + 1 = P → val + rng ≤ W) := by
  have h8 := pow_split8 n hn
  rw [hQ] at h8
  have hvX : (v + 1) * X ≤ 256 * P := by
    have : (v + 1) * X ≤ 2 ^ n * X := Nat.mul_le_mul_right _ hv
    rw [← hX, ← Nat.mul_assoc (2 ^ n), h8] at this; rw [← hX]; exact this
  have d1 : t * X ≤ D := by
    have : (t * X) * W ≤ D * W := by
      rw [Nat.mul_assoc, Nat.mul_comm X W]; omega
    exact Nat.le_of_mul_le_mul_right this hW
  have d2 : D < (t + 1) * X := by
    have : D * W < ((t + 1) * X) * W := by
      rw [Nat.mul_assoc, Nat.mul_comm X W]; omega
    exact Nat.lt_of_mul_lt_mul_right this
  obtain ⟨k1, k2⟩ := top_bits_core n t v b P low hn hP hlow (by rw [hQ, hX, ← hD]; exact d1)
    (by rw [hQ, hX, ← hD]; exact d2)
  rw [hQ] at k1 k2
  rw [hX, ← hD, ← hD'] at k2
  have e1 : D' * W + (t * X) * W = D * W + (v * X) * W := by
    rw [← Nat.add_mul, ← Nat.add_mul, k2]
  have eT : ∀ k, k * (W * X) = (k * X) * W := fun k => by rw [Nat.mul_assoc, Nat.mul_comm X W]
  have eT1 : ∀ k, (k + 1) * (W * X) = (k * X) * W + X * W := fun k => by
    rw [Nat.add_mul, Nat.one_mul, eT, Nat.mul_comm W X]
  rw [eT] at h3 h5'
  rw [eT1] at h4
  rw [eT, eT1, eT]
  have last : b % Q + v * Q = 255 → low + 1 = P → val + rng ≤ W := by
    intro hb hl
    have hd' : D' + 1 = 256 * P := by rw [hD', hb]; omega
    have m1 : (v * X + X) * W ≤ (256 * P) * W :=
      Nat.mul_le_mul_right _ (by rw [Nat.add_mul, Nat.one_mul] at hvX; exact hvX)
    have m2 : (D' + 1) * W = (256 * P) * W := by rw [hd']
    rw [Nat.add_mul, Nat.one_mul] at m2
    rw [Nat.add_mul] at m1
    generalize D' * W = dw' at *
    generalize D * W = dw at *
    generalize (t * X) * W = tw at *
    generalize (v * X) * W = vw at *
    generalize X * W = xw at *
    generalize (256 * P) * W = pw at *
    omega
  refine ⟨?_, ?_, ?_, ?_, k1, last⟩ <;>
    (generalize D' * W = dw' at *
     generalize D * W = dw at *
     generalize (t * X) * W = tw at *
     generalize (v * X) * W = vw at *
     generalize X * W = xw at *
     omega)

/-- The effect of replacing the top `n` bits of the leading output digit on the interval. -/
theorem patch_digits (n t v : Nat) (c c' : Enc) (b low : Nat) (hv : v < 2 ^ n) (hM : 1 ≤ encM c)
    (eM : encM c' = encM c) (ev : c'.val = c.val) (er : c'.rng = c.rng)
    (hD : digitsVal c = b * 256 ^ (encM c - 1) + low)
    (hD' : digitsVal c' = (b % 2 ^ (8 - n) + v * 2 ^ (8 - n)) * 256 ^ (encM c - 1) + low)
    (hlow : low < 256 ^ (encM c - 1)) (hrp : 0 < c.rng) (h : Cell n t c) :
    Cell n v c' ∧ encLow c' + t * cellSz c n = encLow c + v * cellSz c n ∧ b / 2 ^ (8 - n) = t ∧
    (b % 2 ^ (8 - n) + v * 2 ^ (8 - n) = 255 → low + 1 = 256 ^ (encM c - 1) → c.val + c.rng ≤ 2147483648) := by
  obtain ⟨h1, h2, h3, h4, h5⟩ := h
  have h5' := h5 hM
  have hZ := cellSz_eq c n h1 hM
  have hZ' : cellSz c' n = cellSz c n := by unfold cellSz; rw [eM]
  have eL' : encLow c' = digitsVal c' * 2147483648 + c.val := by unfold encLow; rw [ev]
  have eL : encLow c = digitsVal c * 2147483648 + c.val := rfl
  rw [hZ, eL] at h3 h4 h5'
  obtain ⟨a1, a2, a3, a4, a5, a6⟩ := patch_arith 2147483648 (2 ^ (8 - n) * 256 ^ (encM c - 1)) (256 ^ (encM c - 1))
    (2 ^ (8 - n)) t v b low (digitsVal c) (digitsVal c') c.val c.rng n (by decide) (Nat.pow_pos (by decide)) rfl rfl
    h1 hv hlow hD hD' h3 h4 h5' hrp
  exact ⟨⟨h1, hv, by rw [hZ', hZ, eL']; exact a1, by rw [hZ', hZ, eL', er]; exact a2,
    fun _ => by rw [hZ', hZ, eL', ev]; exact a3⟩, by rw [hZ, eL', eL]; exact a4, a5, a6⟩

theorem pendVal_lt (c : Enc) (h1 : c.rem ≤ 255) : pendVal c < 256 ^ pendCount c := by
  unfold pendVal pendCount
  have hp : 0 < 256 ^ c.ext := Nat.pow_pos (by decide)
  split
  · rename_i hr
    have : c.rem.toNat ≤ 255 := by omega
    have h2 : c.rem.toNat * 256 ^ c.ext ≤ 255 * 256 ^ c.ext := Nat.mul_le_mul_right _ this
    rw [Nat.add_comm 1 c.ext, Nat.pow_succ]
    omega
  · simp only [Nat.zero_add]; omega

/-- What the proofs need about one `ec_enc_patch_initial_bits` on a state whose interval lies in
    cell `t` of the first `n` bits. -/
theorem patch_spec (c : Enc) (n t v : Nat) (ri : RunInv c) (hc : Cell n t c) (hv : v < 2 ^ n) :
    (encPatchInitialBits c v n).error = c.error ∧ RunInv (encPatchInitialBits c v n) ∧
    Cell n v (encPatchInitialBits c v n) ∧ encM (encPatchInitialBits c v n) = encM c ∧
    (encPatchInitialBits c v n).rng = c.rng ∧ (encPatchInitialBits c v n).nbitsTotal = c.nbitsTotal ∧
    encLow (encPatchInitialBits c v n) + t * cellSz c n = encLow c + v * cellSz c n ∧
    (encPatchInitialBits c v n).storage = c.storage ∧ rawN (encPatchInitialBits c v n) = rawN c ∧
    rawQ (encPatchInitialBits c v n) (encPatchInitialBits c v n).endWindow = rawQ c c.endWindow := by
  obtain ⟨inv, raw, bytes⟩ := ri
  obtain ⟨⟨wf, rp, rh, sl, cs, eb⟩, rl⟩ := inv
  have hn8 := hc.n_le
  by_cases ho : c.offs > 0
  · -- (a) the first byte is in the buffer
    have e : encPatchInitialBits c v n =
        { c with buf := c.buf.set 0 (patchByte (c.buf.getD 0 0) v n % 256) } := by
      unfold encPatchInitialBits; simp only [if_pos ho]
    rw [e]
    obtain ⟨pb1, pb2⟩ := patchByte_eq (c.buf.getD 0 0) v n hn8 hv
    rw [pb1, Nat.mod_eq_of_lt pb2]
    have hlen : 0 < c.buf.length := by have := wf.offs_le; have := wf.storage_le; omega
    obtain ⟨b0, bt, hbuf⟩ : ∃ b0 bt, c.buf = b0 :: bt := by
      cases hcb : c.buf with
      | nil => rw [hcb] at hlen; simp at hlen
      | cons x xs => exact ⟨x, xs, rfl⟩
    have hb0 : c.buf.getD 0 0 = b0 := by rw [hbuf]; rfl
    rw [hb0]
    rw [hb0] at pb2
    have hb0lt : b0 < 256 := bytes b0 (by rw [hbuf]; simp)
    have hoffs : c.offs = (c.offs - 1) + 1 := by omega
    have hbtlen : c.offs - 1 ≤ bt.length := by
      have := wf.offs_le; have := wf.storage_le; rw [hbuf] at this; simp at this; omega
    have htk : c.buf.take c.offs = b0 :: bt.take (c.offs - 1) := by
      rw [hbuf, hoffs, List.take_succ_cons]; simp
    have htk' : ∀ x, (c.buf.set 0 x).take c.offs = x :: bt.take (c.offs - 1) := by
      intro x; rw [hbuf, List.set_cons_zero, hoffs, List.take_succ_cons]; simp
    have hR : bytesVal (bt.take (c.offs - 1)) < 256 ^ (c.offs - 1) := by
      have := bytesVal_lt (bt.take (c.offs - 1)) (fun b hb => bytes b (by
        rw [hbuf]; exact List.mem_cons_of_mem _ (List.mem_of_mem_take hb)))
      rw [List.length_take, Nat.min_eq_left hbtlen] at this; exact this
    have hpv := pendVal_lt c wf.rem_hi
    have hM1 : encM c - 1 = (c.offs - 1) + pendCount c := by unfold encM; omega
    have hD : ∀ x, bytesVal (x :: bt.take (c.offs - 1)) * 256 ^ pendCount c + pendVal c =
        x * 256 ^ (encM c - 1) + (bytesVal (bt.take (c.offs - 1)) * 256 ^ pendCount c + pendVal c) := by
      intro x
      rw [bytesVal_cons, List.length_take, Nat.min_eq_left hbtlen, hM1, Nat.pow_add, Nat.add_mul, Nat.mul_assoc]
      omega
    have hlow : bytesVal (bt.take (c.offs - 1)) * 256 ^ pendCount c + pendVal c < 256 ^ (encM c - 1) := by
      rw [hM1, Nat.pow_add]
      have : (bytesVal (bt.take (c.offs - 1)) + 1) * 256 ^ pendCount c ≤ 256 ^ (c.offs - 1) * 256 ^ pendCount c :=
        Nat.mul_le_mul_right _ hR
      rw [Nat.add_mul] at this
      omega
    generalize hc' : ({ c with buf := c.buf.set 0 (b0 % 2 ^ (8 - n) + v * 2 ^ (8 - n)) } : Enc) = c'
    have f_buf : c'.buf = c.buf.set 0 (b0 % 2 ^ (8 - n) + v * 2 ^ (8 - n)) := by rw [← hc']
    have eM : encM c' = encM c := by rw [← hc']; rfl
    have hMge : 1 ≤ encM c := by unfold encM; omega
    have dD : digitsVal c = b0 * 256 ^ (encM c - 1) +
        (bytesVal (bt.take (c.offs - 1)) * 256 ^ pendCount c + pendVal c) := by
      unfold digitsVal; rw [htk]; exact hD b0
    have dD' : digitsVal c' = (b0 % 2 ^ (8 - n) + v * 2 ^ (8 - n)) * 256 ^ (encM c - 1) +
        (bytesVal (bt.take (c.offs - 1)) * 256 ^ pendCount c + pendVal c) := by
      rw [← hc']
      show bytesVal ((c.buf.set 0 (b0 % 2 ^ (8 - n) + v * 2 ^ (8 - n))).take c.offs) * 256 ^ pendCount c +
        pendVal c = _
      rw [htk']; exact hD _
    obtain ⟨q1, q2, _, _⟩ := patch_digits n t v c c' b0 _ hv hMge eM (by rw [← hc']) (by rw [← hc'])
      dD dD' hlow rp hc
    have hbo : BytesOk c'.buf := by rw [f_buf]; exact bytesOk_set bytes _ _ pb2
    refine ⟨by rw [← hc'], ⟨⟨⟨⟨by rw [← hc']; exact wf.offs_le, ?_, by rw [← hc']; exact wf.rem_lo,
      by rw [← hc']; exact wf.rem_hi⟩, by rw [← hc']; exact rp, by rw [← hc']; exact rh, by rw [← hc']; exact sl,
      by rw [← hc']; exact cs, by rw [← hc']; exact eb⟩, by rw [← hc']; exact rl⟩,
      ⟨by rw [← hc']; exact raw.win_lt, by rw [← hc']; exact raw.nend_le⟩, hbo⟩, q1, eM, by rw [← hc'],
      by rw [← hc'], q2, by rw [← hc'], by rw [← hc']; rfl, ?_⟩
    · rw [f_buf, List.length_set]; rw [← hc']; exact wf.storage_le
    · unfold rawQ
      have e1 : c'.storage = c.storage := by rw [← hc']
      have e2 : c'.endOffs = c.endOffs := by rw [← hc']
      have e3 : c'.endWindow = c.endWindow := by rw [← hc']
      rw [e1, e2, e3]
      congr 1
      apply tailVal_congr
      intro j hj
      unfold endByte
      have := wf.offs_le
      rw [if_pos (by omega), if_pos (by omega), f_buf, getD_set, if_neg (by omega)]
  · have ho0 : c.offs = 0 := by omega
    have htk0 : c.buf.take c.offs = [] := by rw [ho0]; rfl
    by_cases hr : c.rem ≥ 0
    · -- (b) the first byte is the carry-pending `rem`
      have e : encPatchInitialBits c v n = { c with rem := ((patchByte c.rem.toNat v n : Nat) : Int) } := by
        unfold encPatchInitialBits; simp only [if_neg ho, if_pos hr]
      rw [e]
      obtain ⟨pb1, pb2⟩ := patchByte_eq c.rem.toNat v n hn8 hv
      rw [pb1]
      generalize hc' : ({ c with rem := ((c.rem.toNat % 2 ^ (8 - n) + v * 2 ^ (8 - n) : Nat) : Int) } : Enc) = c'
      have f_rem : c'.rem = ((c.rem.toNat % 2 ^ (8 - n) + v * 2 ^ (8 - n) : Nat) : Int) := by rw [← hc']
      have hr' : c'.rem ≥ 0 := by rw [f_rem]; omega
      have pc : pendCount c = 1 + c.ext := by unfold pendCount; rw [if_pos hr]
      have pc' : pendCount c' = 1 + c.ext := by
        unfold pendCount; rw [if_pos hr']; rw [← hc']
      have eM : encM c' = encM c := by unfold encM; rw [pc, pc']; rw [← hc']
      have hM1 : encM c - 1 = c.ext := by unfold encM; rw [pc, ho0]; omega
      have hMge : 1 ≤ encM c := by unfold encM; rw [pc]; omega
      have hpp : 0 < 256 ^ c.ext := Nat.pow_pos (by decide)
      have dD : digitsVal c = c.rem.toNat * 256 ^ (encM c - 1) + (256 ^ c.ext - 1) := by
        unfold digitsVal pendVal; rw [htk0, if_pos hr, hM1]; simp
      have dD' : digitsVal c' = (c.rem.toNat % 2 ^ (8 - n) + v * 2 ^ (8 - n)) * 256 ^ (encM c - 1) +
          (256 ^ c.ext - 1) := by
        unfold digitsVal pendVal
        rw [if_pos hr', f_rem, hM1, Int.toNat_natCast]
        have e1 : c'.offs = c.offs := by rw [← hc']
        have e2 : c'.ext = c.ext := by rw [← hc']
        have e3 : c'.buf = c.buf := by rw [← hc']
        rw [e1, e2, e3, htk0, bytesVal_nil, Nat.zero_mul, Nat.zero_add]
      obtain ⟨q1, q2, _, q4⟩ := patch_digits n t v c c' c.rem.toNat _ hv hMge eM (by rw [← hc']) (by rw [← hc'])
        dD dD' (by rw [hM1]; omega) rp hc
      refine ⟨by rw [← hc'], ⟨⟨⟨⟨by rw [← hc']; exact wf.offs_le, by rw [← hc']; exact wf.storage_le,
        by omega, by rw [f_rem]; omega⟩, by rw [← hc']; exact rp, by rw [← hc']; exact rh,
        by rw [← hc']; exact sl, ?_, by rw [← hc']; exact eb⟩, by rw [← hc']; exact rl⟩,
        ⟨by rw [← hc']; exact raw.win_lt, by rw [← hc']; exact raw.nend_le⟩, by rw [← hc']; exact bytes⟩,
        q1, eM, by rw [← hc'], by rw [← hc'], q2, by rw [← hc'], by rw [← hc']; rfl, by rw [← hc']; rfl⟩
      intro hx
      have e1 : c'.val = c.val := by rw [← hc']
      have e2 : c'.rng = c.rng := by rw [← hc']
      rw [e1, e2]
      rcases hx with hx | hx
      · omega
      · exact q4 (by rw [f_rem] at hx; omega) (by rw [hM1]; omega)
    · by_cases hx : c.ext > 0
      · -- (c) the first byte is a buffered 0xFF
        have e : encPatchInitialBits c v n =
            { c with rem := ((patchByte 255 v n : Nat) : Int), ext := c.ext - 1 } := by
          unfold encPatchInitialBits; simp only [if_neg ho, if_neg hr, if_pos hx]
        rw [e]
        obtain ⟨pb1, pb2⟩ := patchByte_eq 255 v n hn8 hv
        rw [pb1]
        generalize hc' : ({ c with rem := ((255 % 2 ^ (8 - n) + v * 2 ^ (8 - n) : Nat) : Int), ext := c.ext - 1 } : Enc) = c'
        have f_rem : c'.rem = ((255 % 2 ^ (8 - n) + v * 2 ^ (8 - n) : Nat) : Int) := by rw [← hc']
        have f_ext : c'.ext = c.ext - 1 := by rw [← hc']
        have hr' : c'.rem ≥ 0 := by rw [f_rem]; omega
        have pc : pendCount c = c.ext := by unfold pendCount; rw [if_neg hr]; omega
        have pc' : pendCount c' = c.ext := by unfold pendCount; rw [if_pos hr', f_ext]; omega
        have eM : encM c' = encM c := by unfold encM; rw [pc, pc']; rw [← hc']
        have hM1 : encM c - 1 = c.ext - 1 := by unfold encM; rw [pc, ho0]; omega
        have hMge : 1 ≤ encM c := by unfold encM; rw [pc]; omega
        have hpp : 0 < 256 ^ (c.ext - 1) := Nat.pow_pos (by decide)
        have hsplit : 256 ^ c.ext = 256 * 256 ^ (c.ext - 1) := by
          have : c.ext = (c.ext - 1) + 1 := by omega
          conv => lhs; rw [this, Nat.pow_succ]
          omega
        have dD : digitsVal c = 255 * 256 ^ (encM c - 1) + (256 ^ (c.ext - 1) - 1) := by
          unfold digitsVal pendVal; rw [htk0, if_neg hr, hM1, hsplit]; simp; omega
        have dD' : digitsVal c' = (255 % 2 ^ (8 - n) + v * 2 ^ (8 - n)) * 256 ^ (encM c - 1) +
            (256 ^ (c.ext - 1) - 1) := by
          unfold digitsVal pendVal
          rw [if_pos hr', f_rem, f_ext, hM1, Int.toNat_natCast]
          have e1 : c'.offs = c.offs := by rw [← hc']
          have e3 : c'.buf = c.buf := by rw [← hc']
          rw [e1, e3, htk0, bytesVal_nil, Nat.zero_mul, Nat.zero_add]
        obtain ⟨q1, q2, _, q4⟩ := patch_digits n t v c c' 255 _ hv hMge eM (by rw [← hc']) (by rw [← hc'])
          dD dD' (by rw [hM1]; omega) rp hc
        have hcs := cs (Or.inl (by omega))
        refine ⟨by rw [← hc'], ⟨⟨⟨⟨by rw [← hc']; exact wf.offs_le, by rw [← hc']; exact wf.storage_le,
          by omega, by rw [f_rem]; omega⟩, by rw [← hc']; exact rp, by rw [← hc']; exact rh,
          by rw [← hc']; exact sl, ?_, by rw [f_ext]; rw [← hc']; simp only; omega⟩, by rw [← hc']; exact rl⟩,
          ⟨by rw [← hc']; exact raw.win_lt, by rw [← hc']; exact raw.nend_le⟩, by rw [← hc']; exact bytes⟩,
          q1, eM, by rw [← hc'], by rw [← hc'], q2, by rw [← hc'], by rw [← hc']; rfl, by rw [← hc']; rfl⟩
        intro _
        have e1 : c'.val = c.val := by rw [← hc']
        have e2 : c'.rng = c.rng := by rw [← hc']
        rw [e1, e2]; exact hcs
      · -- (d) nothing has been output yet: the bits are still in `val`
        have hx0 : c.ext = 0 := by omega
        have pc : pendCount c = 0 := by unfold pendCount; rw [if_neg hr, hx0]
        have hM0 : encM c = 0 := by unfold encM; rw [pc, ho0]
        have hD0 : digitsVal c = 0 := by
          unfold digitsVal pendVal; rw [htk0, if_neg hr, hx0]; simp
        have hZ : cellSz c n = 2 ^ (31 - n) := by unfold cellSz; rw [hM0]; simp
        obtain ⟨_, h2, h3, h4, _⟩ := hc
        rw [hZ] at h3 h4 ⊢
        have hL : encLow c = c.val := by unfold encLow; rw [hD0]; simp
        rw [hL] at h3 h4 ⊢
        have hpow : 2 ^ n * 2 ^ (31 - n) = 2147483648 := by
          rw [← Nat.pow_add]; have : n + (31 - n) = 31 := by omega
          rw [this]
        have hdiv : 2147483648 / 2 ^ n = 2 ^ (31 - n) :=
          Nat.div_eq_of_eq_mul_right (Nat.pow_pos (by decide)) hpow.symm
        have e31 : 23 + (8 - n) = 31 - n := by omega
        have hZp : 0 < 2 ^ (31 - n) := Nat.pow_pos (by decide)
        have htop : (t + 1) * 2 ^ (31 - n) ≤ 2147483648 := by
          rw [← hpow]; exact Nat.mul_le_mul_right _ h2
        have hvtop : (v + 1) * 2 ^ (31 - n) ≤ 2147483648 := by
          rw [← hpow]; exact Nat.mul_le_mul_right _ hv
        rw [Nat.add_mul, Nat.one_mul] at h4 htop hvtop
        have hrz : c.rng ≤ 2 ^ (31 - n) := by omega
        have hval : c.val < 2147483648 := by omega
        have hmod : c.val % 2 ^ (31 - n) < 2 ^ (31 - n) := Nat.mod_lt _ hZp
        have hdt : c.val / 2 ^ (31 - n) = t := Nat.div_eq_of_lt_le h3 (by rw [Nat.add_mul, Nat.one_mul]; omega)
        have hvm : c.val = t * 2 ^ (31 - n) + c.val % 2 ^ (31 - n) := by
          have := Nat.div_add_mod c.val (2 ^ (31 - n))
          rw [hdt, Nat.mul_comm] at this; exact this.symm
        have e : encPatchInitialBits c v n =
            { c with val := c.val % 2 ^ (31 - n) + v * 2 ^ (31 - n) } := by
          unfold encPatchInitialBits
          simp only [if_neg ho, if_neg hr, if_neg hx, hdiv, if_pos hrz, e31]
          have h0 : c.val / 2147483648 = 0 := Nat.div_eq_of_lt hval
          have hsh : v <<< (31 - n) < 4294967296 := by rw [Nat.shiftLeft_eq]; omega
          rw [h0, Nat.zero_mul, Nat.add_zero, u32_of_lt hsh, or_shift _ _ _ hmod]
        rw [e]
        generalize hc' : ({ c with val := c.val % 2 ^ (31 - n) + v * 2 ^ (31 - n) } : Enc) = c'
        have f_val : c'.val = c.val % 2 ^ (31 - n) + v * 2 ^ (31 - n) := by rw [← hc']
        have eM : encM c' = encM c := by rw [← hc']; rfl
        have eD : digitsVal c' = 0 := by rw [← hc']; exact hD0
        have hZ' : cellSz c' n = 2 ^ (31 - n) := by unfold cellSz; rw [eM, hM0]; simp
        have hL' : encLow c' = c'.val := by unfold encLow; rw [eD]; simp
        have e2 : c'.rng = c.rng := by rw [← hc']
        have e3 : c'.rem = c.rem := by rw [← hc']
        generalize 2 ^ (31 - n) = Z at *
        generalize htZ : t * Z = tZ at *
        generalize hvZ : v * Z = vZ at *
        refine ⟨by rw [← hc'], ⟨⟨⟨⟨by rw [← hc']; exact wf.offs_le, by rw [← hc']; exact wf.storage_le,
          by rw [e3]; exact wf.rem_lo, by rw [e3]; exact wf.rem_hi⟩, by rw [e2]; exact rp, by rw [e2]; exact rh,
          by rw [e2, f_val]; omega, fun _ => by rw [e2, f_val]; omega, by rw [← hc']; exact eb⟩,
          by rw [e2]; exact rl⟩,
          ⟨by rw [← hc']; exact raw.win_lt, by rw [← hc']; exact raw.nend_le⟩, by rw [← hc']; exact bytes⟩,
          ⟨hn8, hv, by rw [hZ', hL', f_val, hvZ]; omega,
            by rw [hZ', hL', f_val, e2, Nat.add_mul, Nat.one_mul, hvZ]; omega,
            fun hh => by rw [eM, hM0] at hh; omega⟩,
          eM, e2, by rw [← hc'], by rw [hL', f_val]; omega, by rw [← hc'], by rw [← hc']; rfl, by rw [← hc']; rfl⟩

end Opus.RangeCoder
