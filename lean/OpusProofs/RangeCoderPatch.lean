import OpusProofs.RangeCoderRun
/-
  OpusProofs.RangeCoderPatch — C08, `ec_enc_patch_initial_bits` (entenc.c:231-258).

  When the first `n ≤ 8` bits of the stream were coded with a power-of-two probability, the
  encoder's interval stays inside one cell `[t, t+1) * 2^(s-n)` of the code space (`t` = the value of
  those bits, `s` = current scale).  Patching replaces `t` by `v`: the interval moves by
  `(v - t)` cells and nothing else changes.
-/
namespace Opus.RangeCoder

/-- Size of a cell of the first `n` bits at the encoder's current scale `2^(31 + 8*encM c)`. -/
def cellSz (c : Enc) (n : Nat) : Nat := 2 ^ (31 - n) * 256 ^ encM c

/-- The interval lies in cell `t` of the first `n` bits, and so do the digits already output. -/
structure Cell (n t : Nat) (c : Enc) : Prop where
  n_le : n ≤ 8
  t_lt : t < 2 ^ n
  lo : t * cellSz c n ≤ encLow c
  hi : encLow c + c.rng ≤ (t + 1) * cellSz c n
  dig : 1 ≤ encM c → t * cellSz c n + c.val ≤ encLow c

theorem cellSz_pos (c : Enc) (n : Nat) : 0 < cellSz c n :=
  Nat.mul_pos (Nat.pow_pos (by decide)) (Nat.pow_pos (by decide))

/-- For at least one digit the cell size is a multiple of `2^31`. -/
theorem cellSz_eq (c : Enc) (n : Nat) (hn : n ≤ 8) (hM : 1 ≤ encM c) :
    cellSz c n = 2147483648 * (2 ^ (8 - n) * 256 ^ (encM c - 1)) := by
  unfold cellSz
  have e1 : encM c = (encM c - 1) + 1 := by omega
  have e2 : (31 - n) = 23 + (8 - n) := by omega
  conv => lhs; rw [e1, Nat.pow_succ, e2, Nat.pow_add]
  have : (2147483648 : Nat) = 2 ^ 23 * 256 := by decide
  rw [this]
  simp only [Nat.mul_assoc, Nat.mul_comm, Nat.mul_left_comm]

/-! ### The cell is preserved by every operation other than the patch -/

theorem cell_encSub (n t : Nat) (c : Enc) (r a b : Nat) (first : Bool) (inv : EncInv c) (ok : SubOk c.rng r a b)
    (h : Cell n t c) : Cell n t (encSub c r a b first) := by
  obtain ⟨f1, f2, f3⟩ := ok.facts
  have hr := ok.r_pos
  obtain ⟨h1, h2, h3, h4, h5⟩ := h
  have eM := encSub_encM c r a b first
  have eD := encSub_digitsVal c r a b first
  have eC : cellSz (encSub c r a b first) n = cellSz c n := by unfold cellSz; rw [eM]
  have hv : (encSub c r a b first).val + (encSub c r a b first).rng ≤ c.val + c.rng ∧
      0 < (encSub c r a b first).rng ∧ (encSub c r a b first).rng ≤ c.rng ∧
      c.val ≤ (encSub c r a b first).val := by
    unfold encSub; split
    · simp only; omega
    · simp only; rw [f2]; omega
  have heL : encLow (encSub c r a b first) = digitsVal c * 2147483648 + (encSub c r a b first).val := by
    unfold encLow; rw [eD]
  unfold encLow at h3 h4 h5
  refine ⟨h1, h2, ?_, ?_, ?_⟩
  · rw [eC, heL]; omega
  · rw [eC, heL]; omega
  · intro hM; rw [eM] at hM; have := h5 hM; rw [eC, heL]; omega

theorem cell_normStep (n t : Nat) (c : Enc) (pre : EncPre c) (hr : c.rng ≤ 8388608)
    (hnb : c.nbitsTotal < 4294967296) (herr : (normStep c).error = 0) (h : Cell n t c) :
    Cell n t (normStep c) := by
  obtain ⟨_, _, s2, s3, s4, _⟩ := normStep_spec c pre hr hnb herr
  obtain ⟨h1, h2, h3, h4, h5⟩ := h
  have eC : cellSz (normStep c) n = 256 * cellSz c n := by
    unfold cellSz; rw [s4, Nat.pow_succ]
    simp only [Nat.mul_assoc, Nat.mul_comm, Nat.mul_left_comm]
  have hv : (normStep c).val < 2147483648 := by
    show c.val * 256 % 2147483648 < 2147483648
    omega
  have e1 : t * (256 * cellSz c n) = 256 * (t * cellSz c n) := Nat.mul_left_comm _ _ _
  have e2 : (t + 1) * (256 * cellSz c n) = 256 * ((t + 1) * cellSz c n) := Nat.mul_left_comm _ _ _
  refine ⟨h1, h2, ?_, ?_, ?_⟩
  · rw [eC, s2, e1]; omega
  · rw [eC, s2, s3, e2]; omega
  · intro hM
    have hq := cellSz_eq (normStep c) n h1 hM
    have hlo : t * cellSz (normStep c) n ≤ encLow (normStep c) := by rw [eC, s2, e1]; omega
    rw [hq] at hlo ⊢
    have e3 : t * (2147483648 * (2 ^ (8 - n) * 256 ^ (encM (normStep c) - 1))) =
        2147483648 * (t * (2 ^ (8 - n) * 256 ^ (encM (normStep c) - 1))) := Nat.mul_left_comm _ _ _
    rw [e3] at hlo ⊢
    unfold encLow at hlo ⊢
    generalize t * (2 ^ (8 - n) * 256 ^ (encM (normStep c) - 1)) = Q at *
    generalize digitsVal (normStep c) = D at *
    omega

theorem cell_encNormalize (n t : Nat) (c : Enc) (pre : EncPre c) (hn : (encNormalize c).nbitsTotal < 4294967296)
    (herr : (encNormalize c).error = 0) (h : Cell n t c) : Cell n t (encNormalize c) := by
  induction hm : 8388609 - c.rng using Nat.strongRecOn generalizing c with
  | _ m ih =>
    by_cases hc : 0 < c.rng ∧ c.rng ≤ 8388608
    · rw [encNormalize_step c hc] at hn herr ⊢
      have hnb := encNormalize_nbits_ge (normStep c)
      have hnb2 : (normStep c).nbitsTotal = c.nbitsTotal + 8 := rfl
      have herr1 : (normStep c).error = 0 := by
        apply Classical.byContradiction; intro hne
        exact encNormalize_error_mono _ hne herr
      obtain ⟨_, s1, _, s3, _⟩ := normStep_spec c pre hc.2 (by omega) herr1
      exact ih (8388609 - (normStep c).rng) (by rw [s3]; omega) (normStep c) s1 hn herr
        (cell_normStep n t c pre hc.2 (by omega) herr1 h) rfl
    · rw [encNormalize_done c hc]; exact h

theorem cell_prim (n t : Nat) (c : Enc) (op : Op) (inv : EncInv c) (hl : op.Legal) {r a b : Nat} {first : Bool}
    (hsub : op.sub c.rng = some (r, a, b, first)) (hn : (encOp c op).nbitsTotal < 4294967296)
    (herr : (encOp c op).error = 0) (h : Cell n t c) : Cell n t (encOp c op) := by
  obtain ⟨ok, heq⟩ := encOp_sub c op inv hl hsub
  rw [heq] at hn herr ⊢
  obtain ⟨pre, _, _⟩ := encSub_spec c r a b first inv ok
  exact cell_encNormalize n t _ pre hn herr (cell_encSub n t c r a b first inv ok h)

theorem encBits_val (c : Enc) (v n : Nat) : (encBits c v n).val = c.val := by
  unfold encBits
  simp only
  split
  · exact encBitsFlush_frame (·.val) (by simp) _ _ _
  · rfl

theorem cell_bits (n t : Nat) (c : Enc) (v k : Nat) (ri : RunInv c) (hk : k ≤ 25) (hv : v < 2 ^ k)
    (herr : (encBits c v k).error = 0) (h : Cell n t c) : Cell n t (encBits c v k) := by
  obtain ⟨g1, g2, g3, _, _, _⟩ := encBits_range c v k ri hk hv herr
  obtain ⟨h1, h2, h3, h4, h5⟩ := h
  have eC : cellSz (encBits c v k) n = cellSz c n := by unfold cellSz; rw [g1]
  exact ⟨h1, h2, by rw [eC, g2]; exact h3, by rw [eC, g2, g3]; exact h4,
    fun hM => by rw [eC, g2, encBits_val]; exact h5 (by rw [← g1]; exact hM)⟩

/-- Every operation of the round-trip theorems keeps the interval in its cell. -/
theorem cell_op (n t : Nat) (c : Enc) (op : Op) (ri : RunInv c) (hl : op.LegalAt c)
    (hn : (encOp c op).nbitsTotal < 4294967296) (herr : (encOp c op).error = 0) (h : Cell n t c) :
    Cell n t (encOp c op) := by
  cases op with
  | encode fl fh ft => exact cell_prim n t c _ ri.inv hl rfl hn herr h
  | encodeBin fl fh nb => exact cell_prim n t c _ ri.inv hl rfl hn herr h
  | bitLogp v logp =>
    by_cases hv : v ≠ 0
    · exact cell_prim n t c _ ri.inv hl (r := c.rng / 2 ^ logp) (a := 1) (b := 0) (first := false)
        (by simp only [Op.sub]; rw [if_pos hv]) hn herr h
    · exact cell_prim n t c _ ri.inv hl (r := c.rng / 2 ^ logp) (a := 2 ^ logp) (b := 1) (first := true)
        (by simp only [Op.sub]; rw [if_neg hv]) hn herr h
  | icdf s tbl ftb => exact cell_prim n t c _ ri.inv hl rfl hn herr h
  | icdf16 s tbl ftb => exact cell_prim n t c _ ri.inv hl rfl hn herr h
  | bits v k => exact cell_bits n t c v k ri hl.2.1 hl.2.2 herr h
  | patchInitial v k => exact absurd hl (by simp [Op.LegalAt])
  | shrink size =>
    obtain ⟨_, g1, g2⟩ := step_shrink c size ri hl.1 hl.2 herr
    obtain ⟨h1, h2, h3, h4, h5⟩ := h
    have eC : cellSz (encShrink c size) n = cellSz c n := by unfold cellSz; rw [g1]
    exact ⟨h1, h2, by simp only [encOp]; rw [eC, g2]; exact h3,
      by simp only [encOp]; rw [eC, g2]; exact h4,
      fun hM => by simp only [encOp]; rw [eC, g2]; exact h5 (by simp only [encOp] at hM; rw [← g1]; exact hM)⟩
  | uint v ft =>
    obtain ⟨l1, l2, l3⟩ := hl
    simp only [encOp, encUint] at hn herr ⊢
    by_cases hb : ilog (ft - 1) > 8
    · rw [if_pos hb] at hn herr ⊢
      have hleg := uint_hi_legal l1 l2 l3 hb
      generalize hftb : ilog (ft - 1) - 8 = ftb at *
      have hftb24 : ftb ≤ 24 := by
        have : ilog (ft - 1) ≤ 32 := by rw [ilog_lt_iff]; omega
        omega
      have hlo : v % 2 ^ ftb < 2 ^ ftb := Nat.mod_lt _ (Nat.pow_pos (by decide))
      have hmono := (encBits_rn (encode c (v / 2 ^ ftb) (v / 2 ^ ftb + 1) ((ft - 1) / 2 ^ ftb + 1))
        (v % 2 ^ ftb) ftb).2
      have herr1 : (encode c (v / 2 ^ ftb) (v / 2 ^ ftb + 1) ((ft - 1) / 2 ^ ftb + 1)).error = 0 := by
        apply Classical.byContradiction; intro hne
        exact encBits_error_mono _ _ _ hne herr
      have s1 := step_prim c (.encode (v / 2 ^ ftb) (v / 2 ^ ftb + 1) ((ft - 1) / 2 ^ ftb + 1)) ri hleg rfl
        (by simp only [encOp]; omega) herr1
      have c1 := cell_prim n t c (.encode (v / 2 ^ ftb) (v / 2 ^ ftb + 1) ((ft - 1) / 2 ^ ftb + 1)) ri.inv hleg rfl
        (by simp only [encOp]; omega) herr1 h
      simp only [encOp] at s1 c1
      exact cell_bits n t _ _ _ s1.run (by omega) hlo herr c1
    · rw [if_neg hb] at hn herr ⊢
      exact cell_prim n t c (.encode v (v + 1) (ft - 1 + 1)) ri.inv (uint_lo_legal l1 l3 hb) rfl hn herr h

end Opus.RangeCoder
