import OpusModel.SilkApiSpec
/-! Proofs for the C01 `SilkApi` slice: silk_stereo_MS_to_LR (lengths, int16 outputs). -/
namespace Opus.SilkApi

theorem sat16_in16 (x : Int) : In16 (sat16 x) := by
  unfold sat16 In16; split
  · omega
  · split <;> omega

theorem msLoop1_length (x1 : List Int) (d0 d1 : Int) : ∀ (cnt n : Nat) (p0 p1 : Int) (x2 : List Int),
    (msLoop1 x1 d0 d1 cnt n p0 p1 x2).length = x2.length
  | 0, _, _, _, _ => rfl
  | cnt + 1, n, p0, p1, x2 => by
    unfold msLoop1
    simp only []
    rw [msLoop1_length x1 d0 d1 cnt]; simp

theorem msLoop2_length (x1 : List Int) (p0 p1 : Int) : ∀ (cnt n : Nat) (x2 : List Int),
    (msLoop2 x1 p0 p1 cnt n x2).length = x2.length
  | 0, _, _ => rfl
  | cnt + 1, n, x2 => by
    unfold msLoop2
    rw [msLoop2_length x1 p0 p1 cnt]; simp

theorem msToLR_length (st : Stereo) (x1 x2 : List Int) (p0 p1 fs N : Int) :
    (msToLR st x1 x2 p0 p1 fs N).x1.length = x1.length ∧ (msToLR st x1 x2 p0 p1 fs N).x2.length = x2.length := by
  unfold msToLR
  simp [msLoop1_length, msLoop2_length]

theorem mapIdx_sat (f : Nat → Int → Int) (l : List Int) (k : Nat) (v : Int) (hf : ∀ w, In16 (f k w))
    (h : (l.mapIdx f)[k]? = some v) : In16 v := by
  rw [List.getElem?_mapIdx] at h
  cases hl : l[k]? with
  | none => simp [hl] at h
  | some w => simp [hl] at h; rw [← h]; exact hf w

theorem msToLR_x1_in16 (st : Stereo) (x1 x2 : List Int) (p0 p1 fs N : Int) (k : Nat) (h1 : 1 ≤ k) (h2 : k ≤ N.toNat) (v : Int)
    (hk : (msToLR st x1 x2 p0 p1 fs N).x1[k]? = some v) : In16 v := by
  unfold msToLR at hk
  refine mapIdx_sat _ _ k v (fun w => ?_) hk
  simp only [if_pos (And.intro h1 h2)]
  exact sat16_in16 _

theorem msToLR_x2_in16 (st : Stereo) (x1 x2 : List Int) (p0 p1 fs N : Int) (k : Nat) (h1 : 1 ≤ k) (h2 : k ≤ N.toNat) (v : Int)
    (hk : (msToLR st x1 x2 p0 p1 fs N).x2[k]? = some v) : In16 v := by
  unfold msToLR at hk
  refine mapIdx_sat _ _ k v (fun w => ?_) hk
  simp only [if_pos (And.intro h1 h2)]
  exact sat16_in16 _

end Opus.SilkApi
