import OpusModel.Interleave
import OpusModel.Gen.Globals
/-
  OpusProofs.Interleave — lemmas behind OpusProps/C14.lean.
  Core tactics only (no Mathlib).
-/
namespace Opus.Interleave

variable {Ro St In Out : Type}

@[simp] theorem update_same (f : Nat → St) (o : Nat) (s : St) : update f o s o = s := by
  simp [update]

@[simp] theorem update_other (f : Nat → St) (o t : Nat) (s : St) (h : t ≠ o) : update f o s t = f t := by
  simp [update, h]

/-- `exec` never changes the read-only part. -/
theorem exec_ro (step : Ro → St → In → St × Out) (m : Mem Ro St) (c : Call In) :
    (exec step m c).1.ro = m.ro := rfl

/-- `exec` leaves every other object untouched. -/
theorem exec_other (step : Ro → St → In → St × Out) (m : Mem Ro St) (c : Call In) (t : Nat)
    (h : t ≠ c.obj) : (exec step m c).1.objs t = m.objs t := by
  simp [exec, h]

theorem run_ro (step : Ro → St → In → St × Out) (m : Mem Ro St) (s : List (Call In)) :
    (run step m s).1.ro = m.ro := by
  induction s generalizing m with
  | nil => rfl
  | cons c cs ih => simp only [run]; rw [ih]; rfl

/-- Core lemma: along ANY schedule, thread `t` sees exactly its own serial run on its projection. -/
theorem run_eq_runAlone (step : Ro → St → In → St × Out) (m : Mem Ro St) (s : List (Call In)) (t : Nat) :
    (run step m s).1.objs t = (runAlone step m.ro (m.objs t) (project t s)).1 ∧
    (run step m s).2 t = (runAlone step m.ro (m.objs t) (project t s)).2 := by
  induction s generalizing m with
  | nil => simp [run, runAlone, project]
  | cons c cs ih =>
    have h := ih (exec step m c).1
    by_cases hc : c.obj = t
    · subst hc
      simp only [run, project, if_true, runAlone]
      rw [exec_ro] at h
      have hobj : (exec step m c).1.objs c.obj = (step m.ro (m.objs c.obj) c.inp).1 := by simp [exec]
      have hout : (exec step m c).2 = (step m.ro (m.objs c.obj) c.inp).2 := rfl
      rw [hobj] at h
      exact ⟨h.1, by rw [hout, h.2]⟩
    · have hne : t ≠ c.obj := fun e => hc e.symm
      simp only [run, project, if_neg hc, if_neg hne]
      rw [exec_ro, exec_other step m c t hne] at h
      exact h

/-- `grun` under the footprint premise is `run`. -/
theorem grun_eq_run (gstep : Ro → (Nat → St) → Nat → In → (Nat → St) × Out)
    (step : Ro → St → In → St × Out) (hl : Local gstep step) (m : Mem Ro St) (s : List (Call In)) :
    grun gstep m s = run step m s := by
  induction s generalizing m with
  | nil => rfl
  | cons c cs ih =>
    simp only [grun, run, exec]
    rw [hl m.ro m.objs c.obj c.inp]
    simp only []
    rw [ih]

/-- The inductive notion of merge implies the projection characterisation. -/
theorem Merge.isSchedule {P : Nat → List In} {s : List (Call In)} (h : Merge P s) : IsSchedule P s := by
  induction h with
  | nil hP => intro t; simp [project, hP t]
  | @cons P o i rest s hP _ ih =>
    intro t
    by_cases ho : o = t
    · subst ho
      have := ih o
      simp only [project, if_true]
      rw [this, update_same, hP]
    · have hne : t ≠ o := fun e => ho e.symm
      have := ih t
      simp only [project, if_neg ho]
      rw [this, update_other _ _ _ _ hne]

/-- Every projection-schedule is an inductive merge (so the two notions coincide). -/
theorem isSchedule_merge {P : Nat → List In} {s : List (Call In)} (h : IsSchedule P s) : Merge P s := by
  induction s generalizing P with
  | nil => exact Merge.nil (fun t => (h t).symm)
  | cons c cs ih =>
    obtain ⟨o, i⟩ := c
    have ho := h o
    simp only [project, if_true] at ho
    refine Merge.cons (rest := project o cs) ho.symm (ih ?_)
    intro t
    by_cases hto : t = o
    · subst hto; simp
    · have := h t
      have hne : ¬ o = t := fun e => hto e.symm
      simp only [project, if_neg hne] at this
      rw [update_other _ _ _ _ hto, this]

/-- With one writable shared cell the conclusion fails: same scripts, two schedules, different outputs. -/
theorem cache_breaks_serial :
    let m : Mem Unit Nat := { ro := (), objs := fun _ => 0 }
    let a : List (Call Nat) := [⟨1, 5⟩, ⟨2, 7⟩]
    let b : List (Call Nat) := [⟨2, 7⟩, ⟨1, 5⟩]
    (∀ t, project t a = project t b) ∧ (grun cacheStep m a).2 1 ≠ (grun cacheStep m b).2 1 := by
  refine ⟨?_, by decide⟩
  intro t
  simp only [project]
  by_cases h1 : 1 = t <;> by_cases h2 : 2 = t <;> simp [h1, h2]
  omega

/-- and consequently `cacheStep` has no local presentation. -/
theorem cacheStep_not_local : ¬ ∃ step : Unit → Nat → Nat → Nat × Nat, Local cacheStep step := by
  rintro ⟨step, hl⟩
  have h := cache_breaks_serial
  simp only at h
  obtain ⟨hp, hne⟩ := h
  apply hne
  rw [grun_eq_run _ _ hl, grun_eq_run _ _ hl]
  rw [(run_eq_runAlone step _ _ 1).2, (run_eq_runAlone step _ _ 1).2, hp 1]

/-! ### Facts about the regenerated table -/

open Opus.Gen.Globals in
theorem sections_all_ok : ∀ e ∈ sections, sectionEntryOk e = true := by decide +kernel

open Opus.Gen.Globals in
theorem dataSymbols_all_ok : ∀ e ∈ dataSymbols, symbolEntryOk e = true := by decide +kernel

open Opus.Gen.Globals in
theorem imports_all_ok : ∀ s ∈ imports, importOk s = true := by decide +kernel

open Opus.Gen.Globals in
theorem config_ok : configThreadSafe configDefined = true := by decide +kernel

open Opus.Gen.Globals in
/-- the table is not trivially empty: it covers all members and contains the dispatch tables. -/
theorem table_nonempty :
    100 ≤ memberCount ∧ 100 ≤ sections.length ∧ 50 ≤ dataSymbols.length ∧
    (dataSymbols.any (fun e => e.2.1 == "SILK_NSQ_IMPL" && e.2.2.2.2.1 == ".data.rel.ro")) = true := by
  decide +kernel

end Opus.Interleave
