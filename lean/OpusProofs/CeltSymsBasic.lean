import OpusModel.CeltSyms
import OpusProofs.RangeCoderBasic
/-
  C03 stage 2, part 1: a *stand-alone* invariant of the range decoder on arbitrary bytes,

      J c  :=  c.val < 2^32  ∧  2^23 < c.rng ≤ 2^31,

  established by `ec_dec_init` and preserved by every decoder call of the CELT header (bit_logp, icdf with a
  well-formed table, uint/decode+update with a consistent interval, raw bits), together with the range of the value
  each call returns.  (C08 proves much more, but relative to an encoder run; here nothing is assumed about the bytes.)
-/
namespace Opus.CeltSymsProofs
open Opus Opus.RangeCoder

/-- The decoder invariant that holds on arbitrary input. -/
def J (c : Dec) : Prop := c.val < 4294967296 ∧ 8388608 < c.rng ∧ c.rng ≤ 2147483648

theorem decNormalize_val_lt (c : Dec) (h : c.val < 4294967296) : (decNormalize c).val < 4294967296 := by
  fun_induction decNormalize c with
  | case1 c hc b c1 hb sym ih => exact ih (by dsimp only; omega)
  | case2 c hc => exact h

/-- Normalisation turns "value in range, range positive" into `J`. -/
theorem J_norm (c : Dec) (hv : c.val < 4294967296) (h0 : 0 < c.rng) (h1 : c.rng ≤ 2147483648) : J (decNormalize c) := by
  have hrn := decNormalize_rn c
  have hs := normRN_spec c.rng c.nbitsTotal h0 h1
  have hr : (decNormalize c).rng = (normRN c.rng c.nbitsTotal).1 := by
    have := congrArg Prod.fst hrn; exact this
  exact ⟨decNormalize_val_lt c hv, by rw [hr]; exact hs.1, by rw [hr]; exact hs.2.1⟩

theorem J_decInit (buf : List Nat) (n : Nat) : J (decInit buf n) := by
  unfold decInit
  dsimp only
  apply J_norm
  · dsimp only; exact sub32_lt _ _
  · dsimp only; rw [readByte_rng]; show 0 < 128; omega
  · dsimp only; rw [readByte_rng]; show 128 ≤ 2147483648; omega

/-! ### ec_dec_bit_logp -/

theorem pow_le_of_le {a b : Nat} (h : a ≤ b) : 2 ^ a ≤ 2 ^ b := Nat.pow_le_pow_right (by omega) h

theorem J_bitLogp (c : Dec) (hj : J c) (logp : Nat) (h1 : 1 ≤ logp) (h2 : logp ≤ 23) :
    J (decBitLogp c logp).2 ∧ (decBitLogp c logp).1 ≤ 1 := by
  obtain ⟨hv, hr0, hr1⟩ := hj
  have hp1 : 2 ≤ 2 ^ logp := by
    have := pow_le_of_le h1; simpa using this
  have hp2 : 2 ^ logp ≤ 8388608 := by
    have := pow_le_of_le h2; simpa using this
  have hs1 : 1 ≤ c.rng / 2 ^ logp := (Nat.le_div_iff_mul_le (by omega)).2 (by omega)
  have hs2 : c.rng / 2 ^ logp * 2 ≤ c.rng := by
    have := Nat.div_mul_le_self c.rng (2 ^ logp)
    have : c.rng / 2 ^ logp * 2 ≤ c.rng / 2 ^ logp * 2 ^ logp := Nat.mul_le_mul_left _ hp1
    omega
  refine ⟨?_, ?_⟩
  · unfold decBitLogp
    dsimp only
    apply J_norm
    · dsimp only; split
      · exact hv
      · exact sub32_lt _ _
    · dsimp only; split
      · omega
      · rw [sub32_of_le (by omega) (by omega)]; omega
    · dsimp only; split
      · omega
      · rw [sub32_of_le (by omega) (by omega)]; omega
  · unfold decBitLogp; dsimp only; split <;> omega

/-! ### ec_dec_icdf -/

/-- `r * x` stays below the running `t` along the table, up to the first `0` entry (where the scan stops): what an
    ICDF that is strictly decreasing down to its terminating zero guarantees. -/
def Chain (r : Nat) : Nat → List Nat → Prop
  | _, [] => True
  | t, x :: xs => r * x < t ∧ (x = 0 ∨ Chain r (r * x) xs)

theorem decIcdfLoop_inv (r d : Nat) : ∀ (xs : List Nat) (t k : Nat), 0 < t → t ≤ 4294967296 → Chain r t xs →
    (decIcdfLoop r d xs t k).2.2 < (decIcdfLoop r d xs t k).2.1 ∧ (decIcdfLoop r d xs t k).2.1 ≤ t
  | [], t, k, h0, _, _ => by simp [decIcdfLoop]; exact h0
  | x :: xs, t, k, h0, ht, hc => by
    unfold decIcdfLoop
    have hm : mul32 r x = r * x := mul32_of_lt (by have := hc.1; omega)
    rw [hm]
    dsimp only
    split
    · rename_i hd
      rcases hc.2 with hz | hch
      · subst hz; simp at hd
      · have := decIcdfLoop_inv r d xs (r * x) (k + 1) (by omega) (by have := hc.1; omega) hch
        exact ⟨this.1, by have := hc.1; omega⟩
    · exact ⟨hc.1, Nat.le_refl _⟩

/-- Strictly decreasing list. -/
def Decr : List Nat → Prop
  | a :: b :: t => b < a ∧ Decr (b :: t)
  | _ => True

theorem chain_of_decr (r : Nat) (hr : 1 ≤ r) : ∀ (xs : List Nat) (x0 : Nat), Decr (x0 :: xs) → Chain r (r * x0) xs
  | [], _, _ => trivial
  | x :: xs, x0, h => ⟨Nat.mul_lt_mul_of_pos_left h.1 (by omega), Or.inr (chain_of_decr r hr xs x h.2)⟩

/-- A table usable with `ftb` bits: non-empty, first entry below `2^ftb`, strictly decreasing. -/
def TblOk (ftb : Nat) (tbl : List Nat) : Prop :=
  match tbl with
  | [] => False
  | x0 :: xs => x0 < 2 ^ ftb ∧ Decr (x0 :: xs)

theorem J_icdf (c : Dec) (hj : J c) (tbl : List Nat) (ftb : Nat) (hf : ftb ≤ 8) (ht : TblOk ftb tbl) :
    J (decIcdf c tbl ftb).2 := by
  obtain ⟨hv, hr0, hr1⟩ := hj
  have hp : 2 ^ ftb ≤ 256 := by have := pow_le_of_le hf; simpa using this
  have hp0 : 0 < 2 ^ ftb := Nat.pow_pos (by omega)
  have hr : 1 ≤ c.rng / 2 ^ ftb := (Nat.le_div_iff_mul_le hp0).2 (by omega)
  have hchain : Chain (c.rng / 2 ^ ftb) c.rng tbl := by
    cases tbl with
    | nil => trivial
    | cons x0 xs =>
      have hx := ht.1
      have h1 : c.rng / 2 ^ ftb * x0 < c.rng := by
        have ha : c.rng / 2 ^ ftb * (x0 + 1) ≤ c.rng / 2 ^ ftb * 2 ^ ftb := Nat.mul_le_mul_left _ (by omega)
        have hb := Nat.div_mul_le_self c.rng (2 ^ ftb)
        have hc : c.rng / 2 ^ ftb * (x0 + 1) = c.rng / 2 ^ ftb * x0 + c.rng / 2 ^ ftb := by
          rw [Nat.mul_add, Nat.mul_one]
        omega
      exact ⟨h1, Or.inr (chain_of_decr _ hr xs x0 ht.2)⟩
  have hinv := decIcdfLoop_inv (c.rng / 2 ^ ftb) c.val tbl c.rng 0 (by omega) (by omega) hchain
  unfold decIcdf
  dsimp only
  generalize decIcdfLoop (c.rng / 2 ^ ftb) c.val tbl c.rng 0 = y at hinv
  obtain ⟨ret, t, s⟩ := y
  dsimp only at hinv ⊢
  apply J_norm
  · dsimp only; exact sub32_lt _ _
  · dsimp only; rw [sub32_of_le (by omega) (by omega)]; omega
  · dsimp only; rw [sub32_of_le (by omega) (by omega)]; omega

/-- `ec_dec_icdf` preserves `J` whenever the table keeps `r·icdf[k]` strictly below the running bound until the scan stops. -/
theorem J_icdf_chain (c : Dec) (hj : J c) (tbl : List Nat) (ftb : Nat)
    (hchain : Chain (c.rng / 2 ^ ftb) c.rng tbl) : J (decIcdf c tbl ftb).2 := by
  obtain ⟨hv, hr0, hr1⟩ := hj
  have hinv := decIcdfLoop_inv (c.rng / 2 ^ ftb) c.val tbl c.rng 0 (by omega) (by omega) hchain
  unfold decIcdf
  dsimp only
  generalize decIcdfLoop (c.rng / 2 ^ ftb) c.val tbl c.rng 0 = y at hinv
  obtain ⟨ret, t, s⟩ := y
  dsimp only at hinv ⊢
  apply J_norm
  · dsimp only; exact sub32_lt _ _
  · dsimp only; rw [sub32_of_le (by omega) (by omega)]; omega
  · dsimp only; rw [sub32_of_le (by omega) (by omega)]; omega

/-! ### ec_decode / ec_decode_bin + ec_dec_update -/

/-- What `ec_decode(ft)` / `ec_decode_bin(bits)` return under `J`: a cumulative frequency below `ft`. -/
theorem decode_lt (c : Dec) (hj : J c) (ft : Nat) (h1 : 1 ≤ ft) (h2 : ft ≤ 32768) :
    (decode c ft).1 < ft ∧ (decode c ft).2 = { c with ext := c.rng / ft } := by
  obtain ⟨hv, hr0, hr1⟩ := hj
  unfold decode udiv
  dsimp only
  have hext : 256 ≤ c.rng / ft := (Nat.le_div_iff_mul_le (by omega)).2 (by
    have : 256 * ft ≤ 256 * 32768 := Nat.mul_le_mul_left _ h2
    omega)
  have hq : c.val / (c.rng / ft) < 16777216 := (Nat.div_lt_iff_lt_mul (by omega)).2 (by
    have : 16777216 * 256 ≤ 16777216 * (c.rng / ft) := Nat.mul_le_mul_left _ hext
    omega)
  have e1 : u32 (c.val / (c.rng / ft)) = c.val / (c.rng / ft) := u32_of_lt (by omega)
  have e2 : u32 (c.val / (c.rng / ft) + 1) = c.val / (c.rng / ft) + 1 := u32_of_lt (by omega)
  rw [e1, e2]
  refine ⟨?_, rfl⟩
  unfold mini
  split
  · rw [sub32_of_le (by omega) (Nat.le_refl _)]; omega
  · rw [sub32_of_le (by omega) (by omega)]; omega

theorem decodeBin_eq (c : Dec) (bits : Nat) (hb : bits ≤ 15) : decodeBin c bits = decode c (2 ^ bits) := by
  have hp : 2 ^ bits ≤ 32768 := by have := pow_le_of_le hb; simpa using this
  unfold decodeBin decode udiv
  rw [u32_of_lt (by omega : 2 ^ bits < 4294967296)]

/-- `ec_dec_update(fl, fh, ft)` with `fl < fh ≤ ft` after a `decode` that set `ext = rng/ft`. -/
theorem J_update (c : Dec) (hj : J c) (ft fl fh : Nat) (h1 : 1 ≤ ft) (h2 : ft ≤ 32768) (hl : fl < fh) (hh : fh ≤ ft) :
    J (decUpdate { c with ext := c.rng / ft } fl fh ft) := by
  obtain ⟨hv, hr0, hr1⟩ := hj
  have hext : 1 ≤ c.rng / ft := (Nat.le_div_iff_mul_le (by omega)).2 (by omega)
  have hmul : c.rng / ft * ft ≤ c.rng := Nat.div_mul_le_self _ _
  have hA : c.rng / ft * (ft - fh) ≤ c.rng / ft * ft := Nat.mul_le_mul_left _ (by omega)
  have hB : c.rng / ft * (fh - fl) ≤ c.rng / ft * ft := Nat.mul_le_mul_left _ (by omega)
  have hC : c.rng / ft * 1 ≤ c.rng / ft * (fh - fl) := Nat.mul_le_mul_left _ (by omega)
  have hD : c.rng / ft * (ft - fh) + c.rng / ft * fh = c.rng / ft * ft := by
    rw [← Nat.mul_add]; congr 1; omega
  have hE : c.rng / ft * 1 ≤ c.rng / ft * fh := Nat.mul_le_mul_left _ (by omega)
  have e1 : sub32 ft fh = ft - fh := sub32_of_le (by omega) hh
  have e2 : mul32 (c.rng / ft) (ft - fh) = c.rng / ft * (ft - fh) := mul32_of_lt (by omega)
  have e3 : sub32 fh fl = fh - fl := sub32_of_le (by omega) (by omega)
  have e4 : mul32 (c.rng / ft) (fh - fl) = c.rng / ft * (fh - fl) := mul32_of_lt (by omega)
  have e5 : sub32 c.rng (c.rng / ft * (ft - fh)) = c.rng - c.rng / ft * (ft - fh) := sub32_of_le (by omega) (by omega)
  unfold decUpdate
  dsimp only
  rw [e1, e2, e3, e4, e5]
  apply J_norm
  · dsimp only; exact sub32_lt _ _
  · dsimp only; split <;> omega
  · dsimp only; split <;> omega

/-- `ec_dec_uint(ft)` for `2 ≤ ft ≤ 256` (no raw-bit part): value below `ft`, `J` preserved. -/
theorem J_uint (c : Dec) (hj : J c) (ft : Nat) (h1 : 2 ≤ ft) (h2 : ft ≤ 256) :
    (decUint c ft).1 < ft ∧ J (decUint c ft).2 := by
  have hil : ilog (ft - 1) ≤ 8 := (ilog_lt_iff).2 (by omega)
  unfold decUint
  dsimp only
  rw [if_neg (by omega)]
  have e : ft - 1 + 1 = ft := by omega
  rw [e]
  have hd := decode_lt c hj ft (by omega) (by omega)
  generalize decode c ft = y at hd
  obtain ⟨s, c1⟩ := y
  dsimp only at hd ⊢
  rw [hd.2]
  exact ⟨hd.1, J_update c hj ft s (s + 1) (by omega) (by omega) (by omega) (by omega)⟩

/-! ### ec_dec_bits -/

theorem readByteFromEnd_vr (c : Dec) : (readByteFromEnd c).2.val = c.val ∧ (readByteFromEnd c).2.rng = c.rng := by
  unfold readByteFromEnd; split <;> exact ⟨rfl, rfl⟩

theorem decBitsFill_vr_aux : ∀ (n : Nat) (c : Dec) (w a : Nat), 32 - a ≤ n →
    (decBitsFill c w a).1.val = c.val ∧ (decBitsFill c w a).1.rng = c.rng
  | 0, c, w, a, hn => by
    rw [decBitsFill]
    have hr := readByteFromEnd_vr c
    generalize readByteFromEnd c = y at hr
    obtain ⟨b, c1⟩ := y
    dsimp only at hr ⊢
    rw [dif_neg (by omega)]
    exact hr
  | n + 1, c, w, a, hn => by
    rw [decBitsFill]
    have hr := readByteFromEnd_vr c
    generalize readByteFromEnd c = y at hr
    obtain ⟨b, c1⟩ := y
    dsimp only at hr ⊢
    split
    · have ih := decBitsFill_vr_aux n c1 (w ||| u32 (b <<< a)) (a + 8) (by omega)
      exact ⟨ih.1.trans hr.1, ih.2.trans hr.2⟩
    · exact hr

theorem decBitsFill_vr (c : Dec) (w a : Nat) : (decBitsFill c w a).1.val = c.val ∧ (decBitsFill c w a).1.rng = c.rng :=
  decBitsFill_vr_aux (32 - a) c w a (Nat.le_refl _)

theorem J_bits (c : Dec) (hj : J c) (n : Nat) : J (decBits c n).2 ∧ (decBits c n).1 < 2 ^ n := by
  unfold decBits
  dsimp only
  refine ⟨?_, Nat.mod_lt _ (Nat.pow_pos (by omega))⟩
  unfold J
  dsimp only
  split
  · have := decBitsFill_vr c c.endWindow c.nendBits
    rw [this.1, this.2]; exact hj
  · exact hj

end Opus.CeltSymsProofs
