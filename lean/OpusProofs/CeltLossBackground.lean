/-
  CELT decoder: how far ONE received frame may raise the background-noise floor `backgroundLogE` (C09, slice CeltBg).

  celt/celt_decoder.c, celt_decode_with_ec_dred (normal-decode path, after the synthesis):
      max_background_increase = IMIN(160, st->loss_duration+M)*GCONST(0.001f);
      backgroundLogE[i] = MING(backgroundLogE[i] + max_background_increase, oldBandE[i]);
  `backgroundLogE` is the floor of the noise concealment (celt_decode_lost: oldBandE = MAX(backgroundLogE, oldBandE - decay)),
  so this factor bounds how much of the signal level a received frame can turn into "background" after a loss burst.
  The cap and the step are literals; they are regenerated behaviourally (tools/extract/CeltBgConsts.c) together with a
  probe table on which the model below is checked.  Core Lean only.
-/
import OpusModel.SilkPlcGains
import OpusModel.Gen.CeltBgConsts

namespace Opus.CeltLossBackground
open Opus.Gen.CeltBgConsts

/-- `IMIN(160, st->loss_duration + M)`: the rise of `backgroundLogE` allowed to a decoded frame of `120·2^LM` samples, in units of
    GCONST(0.001f); `ld` = `loss_duration` on entry (it is reset only afterwards, :1354). -/
def bgIncrease (ld : Int) (LM : Nat) : Int := min celtBgCap (ld + celtBgStep.getD LM 0)

/-- The factor never exceeds the regenerated cap, whatever the counter. -/
theorem bgIncrease_le_cap (ld : Int) (LM : Nat) : bgIncrease ld LM ≤ celtBgCap := by
  unfold bgIncrease; omega

theorem celtBgCap_eq : celtBgCap = 160 := rfl

theorem bgIncrease_le (ld : Int) (LM : Nat) : bgIncrease ld LM ≤ 160 := by
  have := bgIncrease_le_cap ld LM; rw [celtBgCap_eq] at this; exact this

/-- Below the cap the factor is the weight of the missing frames plus the frame itself. -/
theorem bgIncrease_below (ld : Int) (LM : Nat) (h : ld + celtBgStep.getD LM 0 ≤ 160) :
    bgIncrease ld LM = ld + celtBgStep.getD LM 0 := by
  unfold bgIncrease; rw [celtBgCap_eq]; omega

/-- Monotone in the loss duration (a longer burst never gives the update packet less weight). -/
theorem bgIncrease_mono (a b : Int) (LM : Nat) (h : a ≤ b) : bgIncrease a LM ≤ bgIncrease b LM := by
  unfold bgIncrease; omega

/-- The model reproduces every probe of the compiled decoder (both sides of the cap, all four frame sizes). -/
theorem probes_ok : celtBgProbes.all (fun p => bgIncrease p.1 p.2.1 == p.2.2) = true := by decide

/-- The probes do reach the cap and values below it (the table is not degenerate). -/
theorem probes_nondegenerate :
    celtBgProbes.any (fun p => p.2.2 == 160 && decide (p.1 ≥ 10000)) = true ∧ celtBgProbes.any (fun p => p.2.2 == 1) = true := by decide

end Opus.CeltLossBackground
