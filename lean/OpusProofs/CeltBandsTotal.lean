import OpusProofs.CeltBandsFault
import OpusProofs.CeltSymsHeader
import OpusProofs.CeltAllocFinal
/-
  C03, stage 2b: totality of the whole CELT frame model `Opus.CeltBands.celtFrame`.

  * The header hands C17's allocation an input inside the domain of its theorems (`Dom`: offsets ≥ 0, caps of
    `init_caps`, `total ≤ len·64`), so `clt_compute_allocation` returns for every oracle (`alloc_main`, C17).
  * What C03 needs from the allocation beyond that is stated as a contract on its coder calls (`AllocOps`): at most
    63 of them, every `ec_dec_uint` with `2 ≤ ft < 2^32`.  (True of rate.c — one skip flag per band, the intensity
    `uint` with `ft = codedBands+1-start`, one dual-stereo flag — but a statement about C17's model.)
  * Under it `celtFrame` always returns a frame.
-/
namespace Opus.CeltBandsProofs
open Opus Opus.RangeCoder Opus.CeltSymsFrozen Opus.CeltBands Opus.CeltSyms
open Opus.CeltSymsProofs

/-- The contract on the allocation's coder calls (decoder side, any oracle). -/
def AllocOps (p : CeltAlloc.Inp) : Prop :=
  ∀ orc o, CeltAlloc.computeAllocation p { encode := false, oracle := orc, ops := [] } = .ok o →
    o.ops.length ≤ 63 ∧ ∀ v ft, CeltAlloc.Op.uint v ft ∈ o.ops → 2 ≤ ft ∧ ft < 4294967296

/-! ### the allocation input is in C17's domain -/

theorem getD_map_nonneg (l : List Nat) (j : Nat) : 0 ≤ (l.map Int.ofNat).getD j 0 := by
  rw [List.getD_eq_getElem?_getD, List.getElem?_map]
  cases l[j]? with
  | none => simp
  | some x => simp

theorem getD_map_le (l : List Nat) (M : Nat) (hl : ∀ x ∈ l, x ≤ M) (j : Nat) : (l.map Int.ofNat).getD j 0 ≤ (M : Int) := by
  rw [List.getD_eq_getElem?_getD, List.getElem?_map]
  cases hx : l[j]? with
  | none => simp
  | some x =>
    have := hl x (List.mem_of_getElem? hx)
    simp
    omega

theorem capOf_small : ∀ LM, LM < 4 → ∀ C, C < 3 → ∀ i, i < 21 →
    capOf { start := 0, end_ := 0, C := C, LM := LM } i ≤ 16777216 := by decide +kernel

theorem capOf_le (cfg : CeltCfg) (hl : cfg.LM < 4) (hc : cfg.C < 3) (i : Nat) (hi : i < 21) : capOf cfg i ≤ 16777216 :=
  capOf_small cfg.LM hl cfg.C hc i hi

theorem readTail_shape (cfg : CeltCfg) (len : Nat) (flags : Nat × PostFilter × Nat × Nat) (coarse : List Int)
    (tr0 : List CEv) (c : Dec) :
    (readTail cfg len flags coarse tr0 c).caps = (List.range nbEBands).map (capOf cfg) ∧
    (readTail cfg len flags coarse tr0 c).bits ≤ ((len * 64 : Nat) : Int) := by
  unfold readTail
  generalize tfDecode cfg flags.2.2.1 c = y
  obtain ⟨tf, sel, c1, t1⟩ := y
  dsimp only
  generalize readSpread ((len * 8 : Nat) : Int) c1 = y
  obtain ⟨spread, c2, t2⟩ := y
  dsimp only
  generalize dynalloc cfg (cfg.end_ - cfg.start) cfg.start 6 ((len * 8 * 8 : Nat) : Int) c2 = y
  obtain ⟨offs, totalF, c3, t3⟩ := y
  dsimp only
  generalize readTrim totalF c3 = y
  obtain ⟨trim, c4, t4⟩ := y
  dsimp only
  refine ⟨rfl, ?_⟩
  generalize tellFrac c4 = t
  split <;> omega

theorem celtHeader_shape (cfg : CeltCfg) (len : Nat) (c : Dec) (h : CeltHdr) (hh : celtHeader cfg len c = .ok h) :
    h.caps = (List.range nbEBands).map (capOf cfg) ∧ h.bits ≤ ((len * 64 : Nat) : Int) := by
  unfold celtHeader at hh
  generalize readFlags cfg ((len * 8 : Nat) : Int) c = y at hh
  obtain ⟨flags, c1, t1⟩ := y
  dsimp only at hh
  split at hh
  · injection hh with hh
    rw [← hh]
    exact readTail_shape _ _ _ _ _ _
  all_goals exact absurd hh (by simp)

theorem allocInp_dom (cfg : CeltCfg) (len : Nat) (c : Dec) (h : CeltHdr) (hh : celtHeader cfg len c = .ok h)
    (hl : cfg.LM < 4) (hC : cfg.C = 1 ∨ cfg.C = 2) (hse : cfg.start < cfg.end_) (he : cfg.end_ ≤ 21)
    (hlen : len ≤ 262144) : OpusProofs.CeltAlloc.Dom (allocInp cfg h) := by
  obtain ⟨hcaps, hbits⟩ := celtHeader_shape cfg len c h hh
  refine ⟨hse, he, hC, by show cfg.LM ≤ 3; omega, ?_, ?_, ?_⟩
  · intro j
    exact getD_map_nonneg _ j
  · intro j
    refine ⟨getD_map_nonneg _ j, ?_⟩
    show (h.caps.map Int.ofNat).getD j 0 ≤ 16777216
    rw [hcaps]
    apply getD_map_le _ 16777216
    intro x hx
    rw [List.mem_map] at hx
    obtain ⟨i, hi, rfl⟩ := hx
    rw [List.mem_range] at hi
    exact capOf_le cfg hl (by omega) i hi
  · show h.bits ≤ 16777216
    omega

/-! ### the allocation, driven by the decoder -/

theorem allocDrive_ok (p : CeltAlloc.Inp) (hp : OpusProofs.CeltAlloc.Dom p) (hops : AllocOps p) :
    ∀ (k : Nat) (orc : List Nat) (s : BSt), 64 ≤ orc.length + k → 1 ≤ k → s.fault = false →
      ∃ o s', allocDrive p k orc s = .ok (o, s') ∧ s'.fault = false
  | 0, _, _, _, hk, _ => by omega
  | k + 1, orc, s, hlen, _, hs => by
    unfold allocDrive
    obtain ⟨o, ho, _⟩ := OpusProofs.CeltAlloc.alloc_main p hp { encode := false, oracle := orc, ops := [] }
      (fun h => by simp at h)
    rw [ho]
    dsimp only
    obtain ⟨hn, hu⟩ := hops orc o ho
    cases hd : o.ops.drop orc.length with
    | nil => exact ⟨o, s, rfl, hs⟩
    | cons op rest =>
      have hlt : orc.length < o.ops.length := by
        have : (o.ops.drop orc.length).length = o.ops.length - orc.length := List.length_drop
        rw [hd] at this
        simp at this
        omega
      cases op with
      | bit v =>
        dsimp only
        have hb := bit_fault s 1
        generalize s.bit 1 = y at hb
        obtain ⟨v', s1⟩ := y
        dsimp only at hb ⊢
        exact allocDrive_ok p hp hops k (orc ++ [v']) s1 (by simp; omega) (by omega) (by rw [hb]; exact hs)
      | uint v ft =>
        dsimp only
        have hm : CeltAlloc.Op.uint v ft ∈ o.ops := List.mem_of_mem_drop (by rw [hd]; exact List.mem_cons_self)
        have hb := uint_ok s ft hs (hu v ft hm).1 (hu v ft hm).2
        generalize s.uint ft = y at hb
        obtain ⟨v', s1⟩ := y
        dsimp only at hb ⊢
        exact allocDrive_ok p hp hops k (orc ++ [v']) s1 (by simp; omega) (by omega) hb

/-! ### the frame -/

/-- **Totality of the CELT frame model.**  From any decoder state satisfying `J` (a fresh `ec_dec_init`, or the state
    the SILK layer hands over in a hybrid frame), for every legal configuration and arbitrary bytes, `celtFrame` returns
    a frame — never an error, `.oob` or `.abort`: no laplace.c assertion, the allocation returns, no pulse-cache
    index leaves `cache.bits`, every `ec_dec_uint` has `2 ≤ ft < 2^32`, every `V(N,K)` is found in the table. -/
theorem celtFrame_total (cfg : CeltCfg) (len : Nat) (c : Dec) (hj : J c) (hl : cfg.LM < 4) (hC : cfg.C = 1 ∨ cfg.C = 2)
    (hse : cfg.start < cfg.end_) (he : cfg.end_ ≤ 21) (hlen : len ≤ 262144)
    (hops : ∀ h, celtHeader cfg len c = .ok h → AllocOps (allocInp cfg h)) :
    ∃ f, celtFrame cfg len c = .ok f := by
  unfold celtFrame
  obtain ⟨h, hh, _⟩ := celtHeader_ok cfg hl len c hj
  rw [hh]
  dsimp only
  obtain ⟨o, s, hd, hs⟩ := allocDrive_ok (allocInp cfg h) (allocInp_dom cfg len c h hh hl hC hse he hlen) (hops h hh)
    64 [] { rem := 0, c := h.dec, tr := [], fault := false } (by simp) (by omega) rfl
  rw [hd]
  dsimp only
  have hf := afterAlloc_fault cfg len h o { s with tr := [] } hl (by omega) he hs
  rw [hf]
  simp only [Bool.false_eq_true, if_false]
  exact ⟨_, rfl⟩

end Opus.CeltBandsProofs
