import OpusModel.Pcm
import Mathlib.Tactic.Linarith
import Mathlib.Tactic.Ring
import Mathlib.Tactic.Positivity
/-
  OpusProofs.Pcm — lemmas about the exact binary32 model of OpusModel/Pcm.lean:
  round-half-even (`rne`), the binary32 rounding `roundMag` (exact on representable values,
  left inverse of `mag`), and the consequences for the conversion macros.
-/
namespace Opus.Pcm

/-! ### round half even -/

/-- `z` is `k / 2^d` rounded to the nearest integer, ties to even. -/
def IsRne (z k : Int) (d : Nat) : Prop :=
  2 * |z * 2 ^ d - k| ≤ 2 ^ d ∧ (2 * |z * 2 ^ d - k| = 2 ^ d → z % 2 = 0)

theorem rne_isRne (k : Int) (d : Nat) : IsRne (rne k d) k d := by
  have hD : (0 : Int) < 2 ^ d := by positivity
  have hk : k = k / 2 ^ d * 2 ^ d + k % 2 ^ d := (Int.ediv_mul_add_emod k (2 ^ d)).symm
  have hr0 : 0 ≤ k % 2 ^ d := Int.emod_nonneg _ (ne_of_gt hD)
  have hr1 : k % 2 ^ d < 2 ^ d := Int.emod_lt_of_pos _ hD
  unfold IsRne rne
  generalize k / 2 ^ d = q at *
  generalize k % 2 ^ d = r at *
  generalize (2 : Int) ^ d = D at *
  simp only
  split
  · rename_i h
    have e : (q + 1) * D - k = D - r := by rw [hk]; ring
    rw [e, abs_of_nonneg (by omega)]
    refine ⟨by omega, fun h2 => ?_⟩
    rcases h with h | ⟨_, h⟩ <;> omega
  · rename_i h
    have e : q * D - k = -r := by rw [hk]; ring
    rw [e, abs_neg, abs_of_nonneg hr0]
    refine ⟨by omega, fun h2 => ?_⟩
    have : ¬ (q % 2 = 1) := fun hq => h (Or.inr ⟨h2, hq⟩)
    omega

/-- The nearest-even rounding is unique. -/
theorem isRne_unique {z z' k : Int} {d : Nat} (h : IsRne z k d) (h' : IsRne z' k d) : z = z' := by
  have hD : (0 : Int) < 2 ^ d := by positivity
  obtain ⟨h1, h2⟩ := h
  obtain ⟨h1', h2'⟩ := h'
  generalize (2 : Int) ^ d = D at *
  by_contra hne
  rcases lt_or_gt_of_ne hne with hlt | hlt
  · have hz : z + 1 ≤ z' := hlt
    have : (z + 1) * D ≤ z' * D := Int.mul_le_mul_of_nonneg_right hz (le_of_lt hD)
    have a1 := abs_le.mp (show |z * D - k| ≤ D - |z' * D - k| by linarith [abs_nonneg (z' * D - k)])
    have b1 := neg_abs_le (z' * D - k); have b2 := le_abs_self (z' * D - k)
    have c1 := neg_abs_le (z * D - k); have c2 := le_abs_self (z * D - k)
    have hzD : (z + 1) * D = z * D + D := by ring
    have e1 : 2 * |z * D - k| = D := by nlinarith
    have e2 : 2 * |z' * D - k| = D := by nlinarith
    have hz'eq : z' = z + 1 := by nlinarith
    have := h2 e1; have := h2' e2; omega
  · have hz : z' + 1 ≤ z := hlt
    have : (z' + 1) * D ≤ z * D := Int.mul_le_mul_of_nonneg_right hz (le_of_lt hD)
    have b1 := neg_abs_le (z' * D - k); have b2 := le_abs_self (z' * D - k)
    have c1 := neg_abs_le (z * D - k); have c2 := le_abs_self (z * D - k)
    have hzD : (z' + 1) * D = z' * D + D := by ring
    have e1 : 2 * |z * D - k| = D := by nlinarith
    have e2 : 2 * |z' * D - k| = D := by nlinarith
    have hz'eq : z = z' + 1 := by nlinarith
    have := h2 e1; have := h2' e2; omega

theorem rne_of_isRne {z k : Int} {d : Nat} (h : IsRne z k d) : rne k d = z :=
  isRne_unique (rne_isRne k d) h

/-- An integer is its own rounding. -/
theorem rne_mul_pow (z : Int) (d : Nat) : rne (z * 2 ^ d) d = z := by
  apply rne_of_isRne
  have hD : (0 : Int) < 2 ^ d := by positivity
  unfold IsRne
  simp only [sub_self, abs_zero, mul_zero]
  exact ⟨le_of_lt hD, fun h => absurd h (ne_of_lt hD)⟩

/-- Rounding is monotone. -/
theorem rne_mono {k k' : Int} (d : Nat) (h : k ≤ k') : rne k d ≤ rne k' d := by
  have hD : (0 : Int) < 2 ^ d := by positivity
  obtain ⟨a1, a2⟩ := rne_isRne k d
  obtain ⟨b1, b2⟩ := rne_isRne k' d
  generalize rne k d = z at *
  generalize rne k' d = z' at *
  generalize (2 : Int) ^ d = D at *
  by_contra hlt
  have hz : z' + 1 ≤ z := by omega
  have : (z' + 1) * D ≤ z * D := Int.mul_le_mul_of_nonneg_right hz (le_of_lt hD)
  have hzD : (z' + 1) * D = z' * D + D := by ring
  have c1 := neg_abs_le (z' * D - k'); have c2 := le_abs_self (z' * D - k')
  have d1 := neg_abs_le (z * D - k); have d2 := le_abs_self (z * D - k)
  have e1 : 2 * |z * D - k| = D := by nlinarith
  have e2 : 2 * |z' * D - k'| = D := by nlinarith
  have hz'eq : z = z' + 1 := by nlinarith
  have := a2 e1; have := b2 e2; omega

/-! ### `Nat.log2` and powers of two -/

theorem log2_eq_of_bounds {n k : Nat} (h1 : 2 ^ k ≤ n) (h2 : n < 2 ^ (k + 1)) : Nat.log2 n = k := by
  have hn : n ≠ 0 := by
    intro h; subst h; exact absurd h1 (by have := Nat.two_pow_pos k; omega)
  have a : k ≤ Nat.log2 n := (Nat.le_log2 hn).mpr h1
  have b : Nat.log2 n < k + 1 := (Nat.log2_lt hn).mpr h2
  omega

theorem pow_split {a b : Nat} (h : a ≤ b) : (2 : Nat) ^ b = 2 ^ a * 2 ^ (b - a) := by
  rw [← Nat.pow_add]; congr 1; omega

/-! ### `roundMag` is exact on representable values -/

theorem mag_small {m : Nat} (h : m < 2 ^ 23) : mag m = some m := by
  unfold mag
  have h1 : m / 2 ^ 23 = 0 := Nat.div_eq_of_lt h
  have h2 : m % 2 ^ 23 = m := Nat.mod_eq_of_lt h
  rw [h1, h2]; rfl

theorem mag_normal {E m : Nat} (hE : E + 1 < 255) (hm : m < 2 ^ 23) :
    mag ((E + 1) * 2 ^ 23 + m) = some ((2 ^ 23 + m) * 2 ^ E) := by
  unfold mag
  have h1 : ((E + 1) * 2 ^ 23 + m) / 2 ^ 23 = E + 1 := by
    rw [Nat.mul_comm, Nat.mul_add_div (by positivity), Nat.div_eq_of_lt hm]
  have h2 : ((E + 1) * 2 ^ 23 + m) % 2 ^ 23 = m := by
    rw [Nat.mul_comm, Nat.mul_add_mod, Nat.mod_eq_of_lt hm]
  have h3 : (E + 1) % 256 = E + 1 := Nat.mod_eq_of_lt (by omega)
  simp only [h1, h2, h3]
  have : ¬ (E + 1 = 255) := by omega
  simp [this]

/-- The rounding decision of `roundMag` when the remainder is zero. -/
theorem roundStep_zero (sh Q : Nat) :
    (if sh = 0 then Q else if 2 ^ sh / 2 < 0 ∨ (0 = 2 ^ sh / 2 ∧ Q % 2 = 1) then Q + 1 else Q) = Q := by
  split
  · rfl
  · rename_i hsh
    have : 1 ≤ 2 ^ sh / 2 := by
      obtain ⟨s, rfl⟩ : ∃ s, sh = s + 1 := ⟨sh - 1, by omega⟩
      rw [Nat.pow_succ, Nat.mul_div_cancel _ (by norm_num)]; exact Nat.one_le_two_pow
    rw [if_neg]; omega

/-- If the unit in the last place of the rounded result divides `n`, no rounding happens. -/
theorem roundMag_exact (n d : Nat) (hdiv : 2 ^ (max (Nat.log2 n - 23) d) ∣ n) (hfin : n < 2 ^ (277 + d)) :
    mag (roundMag n d) = some (n / 2 ^ d) := by
  unfold roundMag
  have hL0 : n = 0 → Nat.log2 n = 0 := by intro h; subst h; decide
  have hL1 : n ≠ 0 → 2 ^ Nat.log2 n ≤ n := fun hn => (Nat.le_log2 hn).mp (le_refl _)
  have hL2 : n ≠ 0 → n < 2 ^ (Nat.log2 n + 1) := fun hn => (Nat.log2_lt hn).mp (Nat.lt_succ_self _)
  have hLfin : n ≠ 0 → Nat.log2 n < 277 + d := fun hn => (Nat.log2_lt hn).mpr hfin
  generalize Nat.log2 n = L at *
  have hd_le : d ≤ max (L - 23) d := le_max_right _ _
  have hshdef : max (L - 23) d = L - 23 ∨ max (L - 23) d = d := by
    rcases le_total (L - 23) d with h | h
    · exact Or.inr (max_eq_right h)
    · exact Or.inl (max_eq_left h)
  have hshge : L - 23 ≤ max (L - 23) d := le_max_left _ _
  generalize max (L - 23) d = sh at *
  obtain ⟨Q, hQ⟩ := hdiv
  have hpos : 0 < 2 ^ sh := Nat.two_pow_pos sh
  have hqdiv : n / 2 ^ sh = Q := by rw [hQ]; exact Nat.mul_div_cancel_left _ hpos
  have hrmod : n % 2 ^ sh = 0 := by rw [hQ]; exact Nat.mul_mod_right _ _
  have hnd : n / 2 ^ d = Q * 2 ^ (sh - d) := by
    rw [hQ, pow_split hd_le, Nat.mul_assoc, Nat.mul_div_cancel_left _ (Nat.two_pow_pos d), Nat.mul_comm]
  simp only [hqdiv, hrmod, roundStep_zero]
  by_cases hn : n = 0
  · have hQ0 : Q = 0 := by
      rw [hn] at hQ
      rcases Nat.mul_eq_zero.mp hQ.symm with h | h
      · exact absurd h (ne_of_gt hpos)
      · exact h
    have hL := hL0 hn
    have hshd : sh = d := by rcases hshdef with h | h <;> omega
    subst hQ0 hshd
    simp [hnd, mag]
  · have hL1 := hL1 hn
    have hL2 := hL2 hn
    have hLfin := hLfin hn
    by_cases hcase : 23 + d ≤ L
    · -- normal result: sh = L - 23
      have hsh : sh = L - 23 := by rcases hshdef with h | h <;> omega
      subst hsh
      have hLs : (2 : Nat) ^ L = 2 ^ (L - 23) * 2 ^ 23 := by rw [← Nat.pow_add]; congr 1; omega
      have hLs1 : (2 : Nat) ^ (L + 1) = 2 ^ (L - 23) * 2 ^ 24 := by rw [← Nat.pow_add]; congr 1; omega
      have hQlo : 2 ^ 23 ≤ Q := by
        rw [hQ, hLs] at hL1; exact Nat.le_of_mul_le_mul_left hL1 hpos
      have hQhi : Q < 2 ^ 24 := by
        rw [hQ, hLs1] at hL2; exact Nat.lt_of_mul_lt_mul_left hL2
      obtain ⟨E, hE⟩ : ∃ E, L - 23 - d = E := ⟨_, rfl⟩
      have hbits : (L - 23 - d) * 2 ^ 23 + Q = (E + 1) * 2 ^ 23 + (Q - 2 ^ 23) := by
        rw [hE]; omega
      have hE1 : E + 1 < 255 := by omega
      have hm : Q - 2 ^ 23 < 2 ^ 23 := by omega
      have hlt : ¬ (0x7f800000 ≤ (E + 1) * 2 ^ 23 + (Q - 2 ^ 23)) := by
        have : (E + 1) * 2 ^ 23 ≤ 254 * 2 ^ 23 := Nat.mul_le_mul_right _ (by omega)
        omega
      have hQQ : 2 ^ 23 + (Q - 2 ^ 23) = Q := by omega
      rw [hbits, if_neg hlt, mag_normal hE1 hm, hnd, hE, hQQ]
    · -- subnormal result: sh = d
      have hsh : sh = d := by rcases hshdef with h | h <;> omega
      subst hsh
      have hQhi : Q < 2 ^ 23 := by
        have h4 : (2 : Nat) ^ (L + 1) ≤ 2 ^ sh * 2 ^ 23 := by
          rw [← Nat.pow_add]; exact Nat.pow_le_pow_right (by norm_num) (by omega)
        have h3 : 2 ^ sh * Q < 2 ^ sh * 2 ^ 23 := by rw [← hQ]; exact lt_of_lt_of_le hL2 h4
        exact Nat.lt_of_mul_lt_mul_left h3
      have hlt : ¬ (0x7f800000 ≤ (sh - sh) * 2 ^ 23 + Q) := by
        rw [Nat.sub_self, Nat.zero_mul, Nat.zero_add]; omega
      rw [if_neg hlt, hnd, Nat.sub_self, Nat.zero_mul, Nat.zero_add, Nat.pow_zero, Nat.mul_one]
      exact mag_small hQhi

/-- `n = q·2^t` with a 24-bit `q`: the rounding unit divides `n` as soon as `d ≤ t`. -/
theorem dvd_of_dyadic {n q t d : Nat} (hn : n = q * 2 ^ t) (hq : q < 2 ^ 24) (hd : d ≤ t) :
    2 ^ (max (Nat.log2 n - 23) d) ∣ n := by
  have hle : max (Nat.log2 n - 23) d ≤ t := by
    apply max_le _ hd
    by_cases h0 : n = 0
    · subst h0; have : Nat.log2 0 = 0 := by decide
      omega
    · have : n < 2 ^ (24 + t) := by
        rw [hn, Nat.pow_add]; exact Nat.mul_lt_mul_of_pos_right hq (by positivity)
      have := (Nat.log2_lt h0).mpr this
      omega
  have h2 : 2 ^ (max (Nat.log2 n - 23) d) ∣ q * 2 ^ t := Dvd.dvd.mul_left (Nat.pow_dvd_pow 2 hle) q
  exact hn ▸ h2

/-- Every finite binary32 magnitude is a 24-bit integer times a power of two, below 2^277. -/
theorem mag_dyadic {b n : Nat} (h : mag b = some n) : ∃ q t, n = q * 2 ^ t ∧ q < 2 ^ 24 ∧ n < 2 ^ 277 := by
  unfold mag at h
  have hm : b % 2 ^ 23 < 2 ^ 23 := Nat.mod_lt _ (by positivity)
  have he : b / 2 ^ 23 % 256 < 256 := Nat.mod_lt _ (by norm_num)
  generalize b % 2 ^ 23 = m at *
  generalize b / 2 ^ 23 % 256 = e at *
  simp only at h
  split at h
  · cases h
  · split at h
    · injection h with h; subst h
      refine ⟨m, 0, by simp, by omega, ?_⟩
      exact lt_trans hm (Nat.pow_lt_pow_right (by norm_num) (by norm_num))
    · injection h with h; subst h
      refine ⟨2 ^ 23 + m, e - 1, rfl, by omega, ?_⟩
      have h1 : (2 ^ 23 + m) * 2 ^ (e - 1) < 2 ^ 24 * 2 ^ (e - 1) :=
        Nat.mul_lt_mul_of_pos_right (by omega) (by positivity)
      have h2 : (2 : Nat) ^ 24 * 2 ^ (e - 1) ≤ 2 ^ 277 := by
        rw [← Nat.pow_add]; exact Nat.pow_le_pow_right (by norm_num) (by omega)
      omega

/-- `roundMag` is a left inverse of `mag` (on the 31 magnitude bits). -/
theorem roundMag_mag {m n : Nat} (hm : m < 2 ^ 31) (h : mag m = some n) : roundMag n 0 = m := by
  unfold mag at h
  have hdecomp : m = m / 2 ^ 23 * 2 ^ 23 + m % 2 ^ 23 := by
    have := Nat.div_add_mod m (2 ^ 23); linarith [Nat.mul_comm (2 ^ 23) (m / 2 ^ 23)]
  have hf : m % 2 ^ 23 < 2 ^ 23 := Nat.mod_lt _ (by positivity)
  have he : m / 2 ^ 23 < 256 := by
    apply Nat.div_lt_of_lt_mul; calc m < 2 ^ 31 := hm
      _ = 2 ^ 23 * 256 := by norm_num
  have hemod : m / 2 ^ 23 % 256 = m / 2 ^ 23 := Nat.mod_eq_of_lt he
  rw [hemod] at h
  generalize m % 2 ^ 23 = f at *
  generalize m / 2 ^ 23 = e at *
  simp only at h
  split at h
  · cases h
  · rename_i he255
    split at h
    · rename_i he0
      injection h with h; subst h
      subst he0
      have hlog : Nat.log2 f - 23 = 0 := by
        by_cases h0 : f = 0
        · subst h0; decide
        · have := (Nat.log2_lt h0).mpr hf; omega
      unfold roundMag
      simp only [hlog, max_self, pow_zero, Nat.div_one, if_true, Nat.zero_sub, zero_mul, zero_add]
      rw [if_neg (by omega)]; omega
    · rename_i he0
      injection h with h; subst h
      obtain ⟨E, rfl⟩ : ∃ E, e = E + 1 := ⟨e - 1, by omega⟩
      simp only [Nat.add_sub_cancel] at *
      have hlo : 2 ^ (23 + E) ≤ (2 ^ 23 + f) * 2 ^ E := by
        rw [Nat.pow_add]; exact Nat.mul_le_mul_right _ (by omega)
      have hhi : (2 ^ 23 + f) * 2 ^ E < 2 ^ (23 + E + 1) := by
        have : (2 : Nat) ^ (23 + E + 1) = 2 ^ 24 * 2 ^ E := by rw [← Nat.pow_add]; congr 1; omega
        rw [this]; exact Nat.mul_lt_mul_of_pos_right (by omega) (by positivity)
      have hlog : Nat.log2 ((2 ^ 23 + f) * 2 ^ E) = 23 + E := log2_eq_of_bounds hlo hhi
      unfold roundMag
      have hsh : max (23 + E - 23) 0 = E := by simp
      simp only [hlog, hsh]
      have hq : (2 ^ 23 + f) * 2 ^ E / 2 ^ E = 2 ^ 23 + f := Nat.mul_div_cancel _ (by positivity)
      have hr : (2 ^ 23 + f) * 2 ^ E % 2 ^ E = 0 := Nat.mul_mod_left _ _
      simp only [hq, hr]
      have hq' : (if E = 0 then 2 ^ 23 + f else if 2 ^ E / 2 < 0 ∨ (0 = 2 ^ E / 2 ∧ (2 ^ 23 + f) % 2 = 1) then 2 ^ 23 + f + 1 else 2 ^ 23 + f) = 2 ^ 23 + f := by
        split
        · rfl
        · rename_i hE
          have : 1 ≤ 2 ^ E / 2 := by
            obtain ⟨s, rfl⟩ : ∃ s, E = s + 1 := ⟨E - 1, by omega⟩
            rw [Nat.pow_succ, Nat.mul_div_cancel _ (by norm_num)]; exact Nat.one_le_two_pow
          rw [if_neg]; omega
      rw [hq']
      have hlt : ¬ (0x7f800000 ≤ (E - 0) * 2 ^ 23 + (2 ^ 23 + f)) := by
        have : E * 2 ^ 23 ≤ 253 * 2 ^ 23 := Nat.mul_le_mul_right _ (by omega)
        simp only [Nat.sub_zero]; omega
      rw [if_neg hlt, hdecomp]; simp only [Nat.sub_zero]; ring

end Opus.Pcm
