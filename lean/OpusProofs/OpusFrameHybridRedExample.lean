import OpusProofs.OpusFrameHybridRed
import OpusProofs.OpusFrameLockstepExample
/-
  C08, slice Hybrid — a concrete HYBRID frame WITH redundancy, every hypothesis of
  `opus_frame_lockstep_hybrid_red_partial` (the CELT main-part hypothesis `hmain` included) evaluated in the kernel:
  SWB mono 10 ms, budget 91 bytes: WB SILK part (`hybPacket`), redundancy flag 1, `celt_to_silk = 1`,
  `ec_enc_uint(30-2, 256)`, `ec_enc_shrink(60)`, CELT bands 17-18 from C17's encoder model on the shared coder, and a
  30-byte SWB 5 ms redundancy frame (C17's encoder model on a coder of its own: 105 coder calls, filled to the last bit).
-/
namespace Opus.OpusFrameProofs.Example
open Opus Opus.RangeCoder Opus.SilkSyms Opus.SilkSymsEnc Opus.SilkSymsEncProofs Opus.OpusFrameEnc Opus.CeltSymsEnc
open OpusProofs.CeltHdr Opus.OpusFrameProofs

def cfgR19 : EncCfg := { start := 0, end_ := 19, C := 1, LM := 1, vbr := false, lfe := false, size := 30 }
/-- decisions: silence 0, pf off, transient 0, intra 0, 19 energies, 19 tf decisions, spread 2, 19 × no dynalloc boost,
    trim 5, intensity 19, dual 0, prev 0, signalBandwidth 19; then 38 × 1 for the band data -/
def dsR19 : List Int := [0, 0, 0, 0, 1, 2, -1, 0, 0, 1, 0, -2, 0, 0, 1, 0, 0, 0, 0, 1, 0, -1, 0] ++ List.replicate 19 0 ++
  [2] ++ List.replicate 19 0 ++ [5, 19, 0, 0, 19] ++ List.replicate 38 1
def bufR19 : List Nat := List.replicate 30 0
def s0R19 : St := { e := encInit bufR19 30, ops := [], ds := dsR19 }
def allR19 : List Op := match Opus.CeltBandsEnc.encFrame cfgR19 s0R19 with | .ok f => f.ops | _ => []

def worldR19 : World :=
  { buf := bufR19, size := 30, all := allR19, hs := by decide, hb := by decide +kernel, hl := by decide +kernel,
    hn := by decide +kernel, herr := by decide +kernel, hn29 := by decide +kernel }

theorem ownR19 : ∃ fr, OwnCoderFrame worldR19 cfgR19 s0R19 fr ∧ fr.fin.rng = 727052288 ∧ fr.ops.length = 105 ∧ tell fr.fin = 240 := by
  have hok : (match Opus.CeltBandsEnc.encFrame cfgR19 s0R19 with | .ok _ => true | _ => false) = true := by decide +kernel
  cases h : Opus.CeltBandsEnc.encFrame cfgR19 s0R19 with
  | ok fr =>
    have hall : allR19 = fr.ops := by unfold allR19; rw [h]
    have f1 : (match Opus.CeltBandsEnc.encFrame cfgR19 s0R19 with
        | .ok f => decide (f.hdr.silence = 0 ∧ f.hdr.size = 30 ∧ f.hdr.pf.on = 0 ∧
            (cfgR19.start : Int) ≤ f.hdr.allocInp.intensity ∧ f.hdr.allocInp.dualStereo = 0 ∧ f.fin.rng = 727052288 ∧
            f.ops.length = 105 ∧ tell f.fin = 240)
        | _ => false) = true := by decide +kernel
    rw [h] at f1
    have f1 := of_decide_eq_true f1
    have hlen : worldR19.len = 30 := by decide +kernel
    refine ⟨fr, ⟨rfl, rfl, rfl, h, f1.1, ⟨[], by rw [List.append_nil]; exact hall⟩, by decide, by decide,
      by rw [hlen, f1.2.1], Or.inl hlen, by rw [hlen]; decide +kernel, fun hne => absurd f1.2.2.1 hne, f1.2.2.2.1,
      Or.inl f1.2.2.2.2.1⟩, f1.2.2.2.2.2.1, f1.2.2.2.2.2.2.1, f1.2.2.2.2.2.2.2⟩
  | err e => rw [h] at hok; cases hok
  | oob => rw [h] at hok; cases hok
  | abort => rw [h] at hok; cases hok

end Opus.OpusFrameProofs.Example
