/* c20_dtx.c — correspondence + witness-search harness for DTX (property C20).

   The harness TU *is* src/opus_encoder.c (it is #included below) so that
     - the OpusEncoder struct and the static helpers are visible,
     - every inner call of silk_Encode goes through a recording wrapper,
     - every `RESTORE_STACK` (a no-op macro in the VAR_ARRAYS build, placed by the code in
       front of every `return`) records the locals `activity`, `is_silence`,
       `analysis_info->valid`, `to_celt` of opus_encode_frame_native as the code itself
       computed them (file-scope variables of the same names serve the other functions).
   Nothing in /repo is edited; with the macro trick removed the included code is the
   library's own translation unit.

   Modes:  tie <seed> <nruns>        `I dtx call …`/`O …` per encode call + `I dtx run …` per run
           search <seed> <nruns>     property predicates evaluated on the implementation;
                                     prints `W {json}` per violation and `# …` statistics
           one <subseed> <verbose>   re-run a single run (replay)                          */
#ifdef HAVE_CONFIG_H
#include "config.h"
#endif
#include "vcommon.h"
#include <math.h>
#include "celt.h"
#include "API.h"
#include "stack_alloc.h"
#include "opus.h"
#include "opus_private.h"
#include "analysis.h"
#include "float/structs_FLP.h"
#include "define.h"

/* ---------------------------------------------------------------- recording */
#define VMAXEV 64
typedef struct {
   int kind;            /* 0 = silk_Encode call, 1 = return of opus_encode_frame_native */
   /* kind 0 */
   int prefill, act_param, nch, nfr, nbytes_zero, usedtx;
   int low0[3], mid[3], low1[3];
   int c0pre, c1pre, c0post, c1post, in0post, in1post;
   /* kind 1 */
   int activity, is_silence, valid, to_celt;
} vev;
static vev vlog[VMAXEV];
static int vlogn;
static int vlog_overflow;

/* fall-backs seen by RESTORE_STACK in functions that have no such local */
static int activity = -77;
static int is_silence = -77;
static int to_celt = -77;
static AnalysisInfo *analysis_info = NULL;

static int vvalid_p(const AnalysisInfo *a) { return a ? a->valid : -77; }
static int vvalid_s(AnalysisInfo a) { return a.valid; }
#define VVALID(x) _Generic((x), AnalysisInfo *: vvalid_p, const AnalysisInfo *: vvalid_p, AnalysisInfo: vvalid_s)(x)

static void vtrace_ret(const char *fn, int act, int sil, int valid, int tc)
{
   if (strcmp(fn, "opus_encode_frame_native") != 0) return;
   if (vlogn >= VMAXEV) { vlog_overflow = 1; return; }
   memset(&vlog[vlogn], 0, sizeof(vev));
   vlog[vlogn].kind = 1;
   vlog[vlogn].activity = act; vlog[vlogn].is_silence = sil; vlog[vlogn].valid = valid; vlog[vlogn].to_celt = tc;
   vlogn++;
}
#undef RESTORE_STACK
#define RESTORE_STACK vtrace_ret(__func__, (int)(activity), (int)(is_silence), VVALID(analysis_info), (int)(to_celt))

opus_int vwrap_silk_Encode(void *encState, silk_EncControlStruct *encControl, const opus_res *samplesIn,
      opus_int nSamplesIn, ec_enc *psRangeEnc, opus_int32 *nBytesOut, const opus_int prefillFlag, opus_int activity_);
#define silk_Encode vwrap_silk_Encode

/* analysis_info.valid as opus_encode_native sees it right after run_analysis (it decides
   silk_mode.useDTX, src/opus_encoder.c:1388); -1 = run_analysis was not called */
static int v_valid0 = -1;
static void vwrap_run_analysis(TonalityAnalysisState *analysis, const CELTMode *celt_mode, const void *analysis_pcm,
      int analysis_frame_size, int frame_size, int c1, int c2, int C, opus_int32 Fs,
      int lsb_depth, downmix_func downmix, AnalysisInfo *info);
#define run_analysis vwrap_run_analysis

#include "src/opus_encoder.c"

#undef silk_Encode
#undef run_analysis
static void vwrap_run_analysis(TonalityAnalysisState *analysis, const CELTMode *celt_mode, const void *analysis_pcm,
      int analysis_frame_size, int frame_size, int c1, int c2, int C, opus_int32 Fs,
      int lsb_depth, downmix_func downmix, AnalysisInfo *info)
{
   run_analysis(analysis, celt_mode, analysis_pcm, analysis_frame_size, frame_size, c1, c2, C, Fs, lsb_depth, downmix, info);
   v_valid0 = info->valid;
}
#undef RESTORE_STACK
#define RESTORE_STACK

opus_int vwrap_silk_Encode(void *encState, silk_EncControlStruct *encControl, const opus_res *samplesIn,
      opus_int nSamplesIn, ec_enc *psRangeEnc, opus_int32 *nBytesOut, const opus_int prefillFlag, opus_int activity_)
{
   silk_encoder *ps = (silk_encoder *)encState;
   vev e; int i, r;
   memset(&e, 0, sizeof(e));
   e.kind = 0; e.prefill = prefillFlag; e.act_param = activity_;
   e.nch = encControl->nChannelsInternal; e.usedtx = encControl->useDTX;
   e.c0pre = ps->state_Fxx[0].sCmn.noSpeechCounter; e.c1pre = ps->state_Fxx[1].sCmn.noSpeechCounter;
   r = silk_Encode(encState, encControl, samplesIn, nSamplesIn, psRangeEnc, nBytesOut, prefillFlag, activity_);
   e.nfr = ps->state_Fxx[0].sCmn.nFramesEncoded;
   if (e.nfr > 3) e.nfr = 3;
   for (i = 0; i < e.nfr; i++) {
      e.low0[i] = !ps->state_Fxx[0].sCmn.VAD_flags[i];
      e.mid[i] = ps->sStereo.mid_only_flags[i] != 0;   /* read as enc_API.c:524 reads it: stale when coding mono */
      e.low1[i] = (e.nch == 2 && !e.mid[i]) ? !ps->state_Fxx[1].sCmn.VAD_flags[i] : 0;
   }
   e.nbytes_zero = (*nBytesOut == 0);
   e.c0post = ps->state_Fxx[0].sCmn.noSpeechCounter; e.c1post = ps->state_Fxx[1].sCmn.noSpeechCounter;
   e.in0post = ps->state_Fxx[0].sCmn.inDTX; e.in1post = ps->state_Fxx[1].sCmn.inDTX;
   if (vlogn >= VMAXEV) vlog_overflow = 1; else vlog[vlogn++] = e;
   return r;
}

/* ---------------------------------------------------------------- run description */
#define MAXCALLS 2200
#define MAXSEG 12
typedef struct {
   /* configuration */
   int fs, ch, app, cx, vbr, cvbr, ubr /* -1000 auto, -1 max, else b/s */, out_bytes, q /* frame size in 2.5 ms units */;
   int dtx, fec, loss, sigtype, force_ch, maxbw, int16_api, noise_gap /* gap = low noise instead of digital silence */;
   int vary /* mid-stream ctl changes */, unaligned;
   int nseg; int seg_ms[MAXSEG]; int seg_active[MAXSEG] /* 0 gap, 1 speech, 2 faint noise (stereo: anti-phase, R = -L) */;
   int seg_cx[MAXSEG] /* OPUS_SET_COMPLEXITY at the first call of the segment; 0 = leave */;
   uint64_t sigseed;
   int nan_off_ms;  /* seg kind 3: position of the NaN sample inside every packet */
   char scen[160];   /* "" for generated runs, else "<family> <index> <description>" */
} runcfg;

static const int QS[9] = {1, 2, 4, 8, 16, 24, 32, 40, 48};
static const int FSS[5] = {8000, 12000, 16000, 24000, 48000};

static void gen_run(vrng *r, runcfg *c, int tier_long)
{
   int i, n;
   memset(c, 0, sizeof(*c));
   c->fs = FSS[vbelow(r, 5)];
   if (vchance(r, 55)) c->fs = vchance(r, 50) ? 48000 : 16000;
   c->ch = 1 + vbelow(r, 2);
   c->app = vchance(r, 45) ? OPUS_APPLICATION_VOIP : (vchance(r, 75) ? OPUS_APPLICATION_AUDIO : OPUS_APPLICATION_RESTRICTED_LOWDELAY);
   c->cx = vchance(r, 50) ? vrange(r, 7, 10) : vrange(r, 0, 10);
   c->vbr = vchance(r, 65); c->cvbr = vbelow(r, 2);
   switch (vbelow(r, 6)) {
   case 0: c->ubr = -1000; break;
   case 1: c->ubr = -1; break;
   case 2: c->ubr = vrange(r, 6000, 16000); break;
   case 3: c->ubr = vrange(r, 16000, 40000); break;
   case 4: c->ubr = vrange(r, 40000, 160000); break;
   default: c->ubr = vrange(r, 2500, 12000); break;
   }
   c->out_bytes = vchance(r, 70) ? 1276 : (vchance(r, 50) ? 4000 : vrange(r, 40, 400));
   c->q = QS[vbelow(r, 9)];
   if (vchance(r, 30)) c->q = 8;
   c->dtx = vchance(r, 85);
   c->fec = vchance(r, 20); c->loss = c->fec ? vrange(r, 0, 30) : (vchance(r, 10) ? vrange(r, 0, 20) : 0);
   c->sigtype = vchance(r, 50) ? OPUS_AUTO : (vchance(r, 60) ? OPUS_SIGNAL_VOICE : OPUS_SIGNAL_MUSIC);
   c->force_ch = vchance(r, 80) ? OPUS_AUTO : 1 + (int)vbelow(r, 2);
   c->maxbw = vchance(r, 75) ? OPUS_BANDWIDTH_FULLBAND : OPUS_BANDWIDTH_NARROWBAND + (int)vbelow(r, 5);
   c->int16_api = vchance(r, 25);
   c->noise_gap = vchance(r, 15);
   c->vary = vchance(r, 12);
   c->unaligned = vchance(r, 15);
   n = vrange(r, 2, tier_long ? 7 : 5);
   c->nseg = n;
   {
      int act = vbelow(r, 2);
      for (i = 0; i < n; i++) {
         int ms;
         switch (vbelow(r, 6)) {
         case 0: ms = 0; break;
         case 1: ms = vrange(r, 0, 300); break;
         case 2: ms = vrange(r, 150, 700); break;
         case 3: ms = vrange(r, 500, 1500); break;
         case 4: ms = vrange(r, 1000, tier_long ? 5000 : 2500); break;
         default: ms = vrange(r, 0, tier_long ? 5000 : 2000); break;
         }
         c->seg_ms[i] = ms; c->seg_active[i] = act; act = !act;
      }
   }
   c->sigseed = vnext(r);
   if (vchance(r, 8)) { /* budget family: DTX off near the low-budget boundary */
      c->dtx = 0; c->vary = 0;
      c->ubr = vchance(r, 70) ? vrange(r, 500, 5000) : vrange(r, 5000, 20000);
      c->out_bytes = vchance(r, 70) ? vrange(r, 1, 40) : 1276;
      if (c->nseg > 3) c->nseg = 3;
      for (i = 0; i < c->nseg; i++) if (c->seg_ms[i] > 800) c->seg_ms[i] = 800;
   }
}

/* ---------------------------------------------------------------- deterministic scenarios
   silence-grid  : speech 1 s, digital silence 1.6 s, speech 0.4 s over Fs>=16k x channels x application x
                   all nine frame durations x complexity {7,10} x VBR/CBR  (the S4 clause "digital silence at
                   complexity >= 7, Fs >= 16 kHz must reach DTX within the stated window")
   regime-switch : runs in which the detector in charge (generalised / SILK) changes in the middle of a gap */
static const int GRID_FS[3] = {16000, 24000, 48000};
static const int GRID_APP[3] = {OPUS_APPLICATION_VOIP, OPUS_APPLICATION_AUDIO, OPUS_APPLICATION_RESTRICTED_LOWDELAY};
static int scen_cfg(const char *family, int idx, runcfg *c)
{
   memset(c, 0, sizeof(*c));
   c->ubr = -1000; c->out_bytes = 1276; c->dtx = 1; c->sigtype = OPUS_AUTO; c->force_ch = OPUS_AUTO;
   c->maxbw = OPUS_BANDWIDTH_FULLBAND; c->vbr = 1; c->cvbr = 0; c->sigseed = 0x5eed0000u + (unsigned)idx;
   if (!strcmp(family, "silence-grid")) {
      int i = idx;
      if (idx < 0 || idx >= 3 * 2 * 3 * 9 * 2 * 2) return 0;
      c->vbr = i % 2; i /= 2;
      c->cx = (i % 2) ? 10 : 7; i /= 2;
      c->q = QS[i % 9]; i /= 9;
      c->app = GRID_APP[i % 3]; i /= 3;
      c->ch = 1 + i % 2; i /= 2;
      c->fs = GRID_FS[i % 3];
      if (!c->vbr) c->ubr = 32000;
      c->nseg = 3;
      c->seg_ms[0] = 1000; c->seg_active[0] = 1;
      c->seg_ms[1] = 1600; c->seg_active[1] = 0;
      c->seg_ms[2] = 400;  c->seg_active[2] = 1;
      snprintf(c->scen, sizeof(c->scen), "silence-grid %d fs=%d ch=%d app=%d q=%d cx=%d vbr=%d", idx, c->fs, c->ch, c->app, c->q, c->cx, c->vbr);
      return 1;
   }
   if (!strcmp(family, "budget-boundary")) {
      /* the low-budget guard of opus_encode_native (src/opus_encoder.c:1267-1268) at its boundaries, for every frame
         duration: bitrate = 3*8*frame_rate -1/0/+1, buffer 2/3/4 bytes, and for packets longer than 20 ms bitrate
         2400 -1/0/+1 and buffer*frame_rate around 300; DTX off and on, VBR and CBR.  Returns -1 for combinations that
         do not exist (the long-frame rules for frame_rate >= 50). */
      int q, v, dtx, vbr, fr, i = idx;
      if (idx < 0 || idx >= 9 * 11 * 4) return 0;
      vbr = i % 2; i /= 2; dtx = i % 2; i /= 2; v = i % 11; i /= 11; q = QS[i % 9];
      fr = 400 / q;
      if (v >= 6 && fr >= 50) return -1;
      c->fs = 48000; c->ch = 1; c->app = OPUS_APPLICATION_AUDIO; c->cx = 5; c->vbr = vbr; c->dtx = dtx; c->q = q;
      c->out_bytes = 1276; c->ubr = 64000;
      if (v < 3) c->ubr = 24 * fr + (v - 1);
      else if (v < 6) c->out_bytes = v - 1;                               /* 2, 3, 4 */
      else if (v < 9) c->ubr = 2400 + (v - 7);
      else c->out_bytes = (300 + fr - 1) / fr - (v == 9 ? 1 : 0);      /* max_data_bytes*frame_rate just below / at 300 */
      if (c->ubr < 500) c->ubr = 500;
      c->nseg = 1; c->seg_ms[0] = 240; c->seg_active[0] = 1;
      snprintf(c->scen, sizeof(c->scen), "budget-boundary %d fs=48000 ch=1 q=%d frame_rate=%d bitrate=%d out=%d dtx=%d vbr=%d", idx, q, fr, c->ubr, c->out_bytes, dtx, vbr);
      return 1;
   }
   if (!strcmp(family, "low-budget-gray")) {
      /* DTX off, 60 ms packets, 64 kb/s VBR, 18-byte buffer: 6 bytes per 20 ms would fit, yet the code's
         300 bytes/s rule (src/opus_encoder.c:1267) emits 2-byte PLC packets */
      if (idx != 0) return 0;
      c->fs = 48000; c->ch = 1; c->app = OPUS_APPLICATION_AUDIO; c->cx = 5; c->vbr = 1; c->ubr = 64000;
      c->out_bytes = 18; c->q = 24; c->dtx = 0; c->nseg = 1;
      c->seg_ms[0] = 600; c->seg_active[0] = 1;
      snprintf(c->scen, sizeof(c->scen), "low-budget-gray 0 fs=48000 ch=1 audio vbr 64000b/s out=18 q=24 dtx=0 speech600");
      return 1;
   }
   if (!strcmp(family, "nan-pattern")) {
      /* fixed configuration; after 1 s of speech every packet is faint noise with ONE NaN sample 10 ms into it */
      if (idx < 0 || idx > 10) return 0;    /* NaN 5..55 ms into the packet: which analysis windows it invalidates */
      c->fs = 24000; c->ch = 1; c->app = OPUS_APPLICATION_VOIP; c->cx = 10; c->vbr = 1; c->cvbr = 1; c->ubr = 20000; c->sigtype = OPUS_SIGNAL_VOICE;
      c->q = 24; c->nseg = 2;
      c->seg_ms[0] = 1020; c->seg_active[0] = 1; c->nan_off_ms = 5 + 5 * idx;
      c->seg_ms[1] = 16000; c->seg_active[1] = 3;
      snprintf(c->scen, sizeof(c->scen), "nan-pattern %d fs=24000 ch=1 voip cx=10 20000b/s q=24 speech1020,faint+NaN@%dms 16000", idx, 5 + 5 * idx);
      return 1;
   }
   if (!strcmp(family, "silk-bust")) {
      /* DTX off, FEC on, 60 ms stereo SILK packets, tight output buffer: SILK exceeds its budget */
      if (idx != 0) return 0;
      c->fs = 16000; c->ch = 2; c->app = OPUS_APPLICATION_VOIP; c->cx = 3; c->vbr = 1; c->cvbr = 1; c->ubr = 87781;
      c->out_bytes = 79; c->q = 24; c->dtx = 0; c->fec = 1; c->loss = 4; c->nseg = 1;
      c->seg_ms[0] = 3000; c->seg_active[0] = 1;
      snprintf(c->scen, sizeof(c->scen), "silk-bust 0 fs=16000 ch=2 voip cx=3 cvbr 87781b/s out=79 q=24 dtx=0 fec=1 loss=4 speech3000");
      return 1;
   }
   if (!strcmp(family, "regime-switch")) {
      c->fs = 16000; c->app = OPUS_APPLICATION_VOIP; c->cx = 10; c->sigtype = OPUS_SIGNAL_VOICE; c->q = 8;
      switch (idx) {
      case 0: /* fixed configuration: stereo, faint anti-phase noise keeps analysis_info.valid at 0 */
         c->ch = 2; c->ubr = 16000; c->nseg = 3;
         c->seg_ms[0] = 200; c->seg_active[0] = 0;
         c->seg_ms[1] = 400; c->seg_active[1] = 2;
         c->seg_ms[2] = 600; c->seg_active[2] = 0;
         snprintf(c->scen, sizeof(c->scen), "regime-switch 0 antiphase-stereo fs=16000 ch=2 q=8 cx=10 silence200,faint400,silence600");
         return 1;
      case 1: /* complexity 10 -> 5 -> 10 during digital silence */
         c->ch = 1; c->ubr = 12000; c->nseg = 4; c->vary = 0;
         c->seg_ms[0] = 1000; c->seg_active[0] = 1;
         c->seg_ms[1] = 200;  c->seg_active[1] = 0;
         c->seg_ms[2] = 360;  c->seg_active[2] = 0; c->seg_cx[2] = 5;
         c->seg_ms[3] = 600;  c->seg_active[3] = 0; c->seg_cx[3] = 10;
         snprintf(c->scen, sizeof(c->scen), "regime-switch 1 complexity-ctl fs=16000 ch=1 q=8 cx=10,5,10 speech1000,silence200,silence360,silence600");
         return 1;
      case 2: /* as 0 with 40 ms packets (two SILK frames per packet) */
         c->ch = 2; c->ubr = 16000; c->q = 16; c->nseg = 3;
         c->seg_ms[0] = 200; c->seg_active[0] = 0;
         c->seg_ms[1] = 400; c->seg_active[1] = 2;
         c->seg_ms[2] = 640; c->seg_active[2] = 0;
         snprintf(c->scen, sizeof(c->scen), "regime-switch 2 antiphase-stereo fs=16000 ch=2 q=16 cx=10 silence200,faint400,silence640");
         return 1;
      default: return 0;
      }
   }
   return 0;
}

/* ---------------------------------------------------------------- signal */
typedef struct { double ph, f0, t; vrng r; double lp; } sig;
static void sig_init(sig *s, uint64_t seed) { memset(s, 0, sizeof(*s)); s->r.s = seed; s->f0 = 120; }
static double sig_noise(sig *s) { return ((double)(vnext(&s->r) >> 11) / 9007199254740992.0) * 2 - 1; }
/* speech-like: glottal pulse train through two formants, 4 Hz syllabic envelope */
static float sig_speech(sig *s, int fs)
{
   double t = s->t, env, f0, x = 0, k;
   int h;
   env = 0.55 + 0.45 * sin(2 * M_PI * 3.7 * t);
   f0 = 130 + 40 * sin(2 * M_PI * 0.9 * t) + 15 * sin(2 * M_PI * 2.3 * t);
   s->ph += f0 / fs; if (s->ph >= 1) s->ph -= 1;
   for (h = 1; h <= 30; h++) {
      double fh = h * f0, a;
      if (fh > 0.45 * fs) break;
      a = 1.0 / (1 + pow((fh - 600) / 250, 2)) + 0.6 / (1 + pow((fh - 1500) / 350, 2)) + 0.25 / (1 + pow((fh - 2700) / 500, 2)) + 0.02;
      x += a * sin(2 * M_PI * h * s->ph);
   }
   k = 0.12 * env * x + 0.002 * sig_noise(s);
   s->t += 1.0 / fs;
   return (float)k;
}

/* ---------------------------------------------------------------- per-call record */
typedef struct {
   int low_budget_expected;
   int len, indtx;
   /* pre / post model-visible state */
   int pre[10], post[10];
   int digsil, valid0, mode_after, nsub;
   int nev_start, nev;
   int ms_q1;        /* duration of the call in Q1 ms */
   int any_active;   /* some coded sub-frame had activity == 1 */
   int any_nonzero_act; /* some coded sub-frame had activity != 0 */
   int all_inactive;
   int vad_active;   /* some SILK frame of channel 0 had VAD flag 1 */
   int gray, lowb;
   int dtx_on, q;
   int bust;         /* 2-byte "PLC frame": SILK exceeded its bit budget (src/opus_encoder.c:2448-2457) */
} callrec;

static void read_state(OpusEncoder *st, int *s)
{
   silk_encoder *ps = (silk_encoder *)((char *)st + st->silk_enc_offset);
   s[0] = st->nb_no_activity_ms_Q1;
   s[1] = st->prev_mode;
   s[2] = st->silk_mode.useDTX;
   s[3] = ps->state_Fxx[0].sCmn.noSpeechCounter;
   s[4] = ps->state_Fxx[1].sCmn.noSpeechCounter;
   s[5] = ps->nChannelsInternal;
   s[6] = st->silk_mode.nChannelsInternal;
   s[7] = ps->prev_decode_only_middle;
   s[8] = st->mode;
   s[9] = 0;
}

static int mode_tok(int m) { return m == MODE_SILK_ONLY ? 1 : m == MODE_HYBRID ? 2 : m == MODE_CELT_ONLY ? 3 : 0; }

/* the low-budget predicate of opus_encode_native (src/opus_encoder.c:1249-1268), recomputed for
   the witness search only (premise of dtx_off_no_tiny); the tie does not use it */
static int low_budget(OpusEncoder *st, int frame_size, int out_bytes, int *gray)
{
   int max_data_bytes = IMIN(1276, out_bytes), frame_rate = st->Fs / frame_size, cbr_bytes;
   opus_int32 br = user_bitrate_to_bitrate(st, frame_size, max_data_bytes);
   int low;
   if (!st->use_vbr) {
      int frame_rate12 = 12 * st->Fs / frame_size;
      cbr_bytes = IMIN((12 * br / 8 + frame_rate12 / 2) / frame_rate12, max_data_bytes);
      br = cbr_bytes * (opus_int32)frame_rate12 * 8 / 12;
      max_data_bytes = IMAX(1, cbr_bytes);
   }
   low = max_data_bytes < 3 || br < 3 * frame_rate * 8 || (frame_rate < 50 && (max_data_bytes * frame_rate < 300 || br < 2400));
   /* "gray": low by the code's rule although buffer and bitrate allow three bytes for the packet */
   *gray = low && !(max_data_bytes < 3 || (long)br * frame_size < 3L * 8 * st->Fs);
   return low;
}

/* ---------------------------------------------------------------- printing of tie lines */
static void print_oracles(FILE *f, const callrec *c, int evbase)
{
   int i, j, k;
   { /* to_celt of opus_encode_native = the value the last coded frame received (:1693) */
      int tc = 0, n = 0;
      for (i = evbase; n < c->nsub; i++) if (vlog[i].kind == 1) { n++; tc = vlog[i].to_celt; }
      fprintf(f, "%d %d %d %d %d", c->digsil, c->valid0, mode_tok(c->mode_after), tc != 0, c->nsub);
   }
   i = evbase;
   for (k = 0; k < c->nsub; k++) {
      int start = i, nsilk = 0;
      while (vlog[i].kind == 0) { nsilk++; i++; }
      fprintf(f, " %d %d %d %d", vlog[i].valid, vlog[i].activity, (c->nsub == 1 && c->bust) ? 1 : 0, nsilk);
      for (j = start; j < i; j++) {
         int t;
         fprintf(f, " %d %d %d", vlog[j].prefill, vlog[j].nch, vlog[j].nfr);
         for (t = 0; t < vlog[j].nfr; t++) fprintf(f, " %d %d %d", vlog[j].low0[t], vlog[j].mid[t], vlog[j].low1[t]);
      }
      i++;
   }
}

static void print_cfg(FILE *f, OpusEncoder *st, int out_bytes, int q)
{
   fprintf(f, "%d %d %d %d %d %d %d %d", st->use_dtx, st->Fs, st->channels, st->silk_mode.complexity, st->use_vbr,
           st->user_bitrate_bps, out_bytes, q);
}

static void print_state(FILE *f, const int *s)
{
   fprintf(f, "%d %d %d %d %d %d %d %d %d", s[0], mode_tok(s[1]), s[2], s[3], s[4], s[5], s[6], s[7], mode_tok(s[8]));
}

/* ---------------------------------------------------------------- one run */
typedef struct {
   long calls, dtx_packets, tiny_nodtx, runs, onset_checked, resume_checked, off_checked, gray_tiny, dec_checked;
   long silk_dtx_packets, multi_dtx_packets, lowb_calls, cfg_gen, cfg_silk, refresh_seen, bad_coh, mixed_runs, scen_runs, bust_packets, shape_checked, silk_onset_checked, silk_onset_max, tie_dtx, tie_silk_dtx, tie_multi_dtx, tie_lowb, tie_indtx;
   long violations;
} stats;
static stats S;
static int g_tie, g_verbose, g_metrics;
#ifndef C20_GAP_MAX_DB
#define C20_GAP_MAX_DB (-45.0)
#endif
#ifndef C20_ACT_MIN_DB
#define C20_ACT_MIN_DB (-12.0)
#endif
#ifndef C20_SILK_ONSET_MAX_MS
#define C20_SILK_ONSET_MAX_MS 600
#endif
#ifndef C20_ACT_MAX_DB
#define C20_ACT_MAX_DB (6.0)
#endif
static char **g_ovr; static int g_novr;

static char g_input[256];     /* how to re-run the current run: "run <subseed> <long>" or "scenario <family> <idx> …" */
static int g_bust;             /* the current violation is a "SILK busted its budget" packet with DTX off */
static int g_gray;             /* the current violation is a low-budget PLC packet in the gray zone (long frames) */
static int g_mixed;            /* the current violation concerns a run across a change of the detector in charge */
static void witness(const char *clause, uint64_t subseed, int call, const char *fmt, ...)
{
   va_list ap;
   S.violations++;
   printf("W {\"clause\":\"%s\",\"input\":\"%s%s\",\"subseed\":\"%llu\",\"call\":%d,\"detail\":\"", clause,
          g_mixed && strncmp(g_input, "scenario regime-switch", 22) ? "scenario regime-switch (found in) " :
          g_bust && strncmp(g_input, "scenario silk-bust", 18) ? "scenario silk-bust (found in) " :
          g_gray && strncmp(g_input, "scenario low-budget-gray", 24) ? "scenario low-budget-gray (found in) " : "", g_input,
          (unsigned long long)subseed, call);
   va_start(ap, fmt); vprintf(fmt, ap); va_end(ap);
   printf("\"}\n");
}

static double rms_db(const float *x, long n)
{
   double e = 0; long i;
   if (n <= 0) return -200;
   for (i = 0; i < n; i++) e += (double)x[i] * x[i];
   e /= n;
   return e <= 1e-20 ? -200 : 10 * log10(e);
}

static callrec calls[MAXCALLS];
static unsigned char *pkts[MAXCALLS];
static int evbase_of[MAXCALLS];
static vev evstore[MAXCALLS * 8];
static long evstore_n;

static void do_run(uint64_t subseed, int tier_long, const runcfg *preset)
{
   vrng r; runcfg c; OpusEncoder *enc; OpusDecoder *dec = NULL, *dec2 = NULL;
   int err, ncalls = 0, i, seg, fsz, pure = 1;
   long total_samples, pos = 0, seg_end[MAXSEG];
   float *pcm; short *pcm16; float *in_all = NULL;
   sig sg; unsigned char pkt[4000];
   int analysis_on;
   int cur_seg = -1;
   r.s = subseed;
   if (preset) { c = *preset; snprintf(g_input, sizeof(g_input), "scenario %s", c.scen); }
   else { gen_run(&r, &c, tier_long); snprintf(g_input, sizeof(g_input), "run %llu %d", (unsigned long long)subseed, tier_long); }
   g_mixed = 0;
   { /* optional overrides (replay experiments): key=value pairs */
      int a;
      for (a = 0; a < g_novr; a++) {
         const char *kv = g_ovr[a]; const char *eq = strchr(kv, '='); int val;
         if (!eq) continue;
         val = atoi(eq + 1);
#define OVR(name, field) if (!strncmp(kv, name "=", strlen(name) + 1)) c.field = val
         OVR("dtx", dtx); OVR("out", out_bytes); OVR("fec", fec); OVR("loss", loss); OVR("vbr", vbr); OVR("cx", cx);
         OVR("ubr", ubr); OVR("q", q); OVR("fs", fs); OVR("ch", ch); OVR("app", app); OVR("i16", int16_api); OVR("vary", vary);
#undef OVR
      }
   }
   fsz = c.q * c.fs / 400;
   enc = opus_encoder_create(c.fs, c.ch, c.app, &err);
   if (!enc) { printf("# encoder_create failed %d\n", err); return; }
   opus_encoder_ctl(enc, OPUS_SET_COMPLEXITY(c.cx));
   opus_encoder_ctl(enc, OPUS_SET_VBR(c.vbr));
   opus_encoder_ctl(enc, OPUS_SET_VBR_CONSTRAINT(c.cvbr));
   opus_encoder_ctl(enc, OPUS_SET_BITRATE(c.ubr == -1000 ? OPUS_AUTO : c.ubr == -1 ? OPUS_BITRATE_MAX : c.ubr));
   opus_encoder_ctl(enc, OPUS_SET_DTX(c.dtx));
   opus_encoder_ctl(enc, OPUS_SET_INBAND_FEC(c.fec));
   opus_encoder_ctl(enc, OPUS_SET_PACKET_LOSS_PERC(c.loss));
   opus_encoder_ctl(enc, OPUS_SET_SIGNAL(c.sigtype));
   opus_encoder_ctl(enc, OPUS_SET_FORCE_CHANNELS(c.force_ch));
   opus_encoder_ctl(enc, OPUS_SET_MAX_BANDWIDTH(c.maxbw));
   analysis_on = c.cx >= 7 && c.fs >= 16000;
   if (c.dtx) { if (analysis_on) S.cfg_gen++; else S.cfg_silk++; }

   /* schedule -> sample positions (aligned to packet boundaries unless c.unaligned) */
   total_samples = 0;
   for (seg = 0; seg < c.nseg; seg++) {
      long n = (long)c.seg_ms[seg] * c.fs / 1000;
      if (!c.unaligned) n = (n / fsz) * fsz;
      total_samples += n; seg_end[seg] = total_samples;
   }
   ncalls = (int)(total_samples / fsz);
   if (ncalls > MAXCALLS) ncalls = MAXCALLS;
   if (ncalls == 0) { opus_encoder_destroy(enc); return; }
   pcm = (float *)calloc((size_t)fsz * c.ch, sizeof(float));
   pcm16 = (short *)calloc((size_t)fsz * c.ch, sizeof(short));
   if (!g_tie) in_all = (float *)calloc((size_t)ncalls * fsz, sizeof(float));
   sig_init(&sg, c.sigseed);
   if (!g_tie) { dec = opus_decoder_create(c.fs, c.ch, &err); dec2 = opus_decoder_create(c.fs, c.ch, &err); }
   evstore_n = 0;

   if (g_verbose) {
      printf("# run subseed=%llu fs=%d ch=%d app=%d cx=%d vbr=%d cvbr=%d ubr=%d out=%d q=%d dtx=%d fec=%d loss=%d sig=%d fch=%d maxbw=%d i16=%d noisegap=%d vary=%d unal=%d segs=",
             (unsigned long long)subseed, c.fs, c.ch, c.app, c.cx, c.vbr, c.cvbr, c.ubr, c.out_bytes, c.q, c.dtx, c.fec, c.loss, c.sigtype, c.force_ch, c.maxbw, c.int16_api, c.noise_gap, c.vary, c.unaligned);
      for (seg = 0; seg < c.nseg; seg++) printf("%s%d:%d", seg ? "," : "", c.seg_active[seg], c.seg_ms[seg]);
      printf(" calls=%d\n", ncalls);
   }

   for (i = 0; i < ncalls; i++) {
      callrec *cr = &calls[i];
      int k, n, ret, allzero = 1, gray = 0;
      opus_int32 v = 0;
      memset(cr, 0, sizeof(*cr));
      /* mid-stream setting changes (only in `vary` runs; such runs emit no `run` line) */
      if (c.vary && vchance(&r, 4)) {
         pure = 0;
         switch (vbelow(&r, 6)) {
         case 0: opus_encoder_ctl(enc, OPUS_SET_DTX(vbelow(&r, 2))); break;
         case 1: opus_encoder_ctl(enc, OPUS_SET_BITRATE(vrange(&r, 6000, 96000))); break;
         case 2: opus_encoder_ctl(enc, OPUS_SET_COMPLEXITY(vrange(&r, 0, 10))); break;
         case 3: opus_encoder_ctl(enc, OPUS_RESET_STATE); break;
         case 4: opus_encoder_ctl(enc, OPUS_SET_FORCE_CHANNELS(vchance(&r, 50) ? OPUS_AUTO : 1 + (int)vbelow(&r, 2))); break;
         default: opus_encoder_ctl(enc, OPUS_SET_SIGNAL(vchance(&r, 50) ? OPUS_SIGNAL_VOICE : OPUS_SIGNAL_MUSIC)); break;
         }
      }
      /* per-segment complexity change (scenario runs) */
      {
         seg = 0; while (seg < c.nseg - 1 && pos >= seg_end[seg]) seg++;
         if (seg != cur_seg) {
            cur_seg = seg;
            if (c.seg_cx[seg]) { opus_encoder_ctl(enc, OPUS_SET_COMPLEXITY(c.seg_cx[seg])); pure = 0; }
         }
      }
      /* input */
      for (n = 0; n < fsz; n++) {
         int active; float x;
         long p = pos + n;
         seg = 0; while (seg < c.nseg - 1 && p >= seg_end[seg]) seg++;
         active = c.seg_active[seg];
         x = sig_speech(&sg, c.fs);
         if (!active) x = c.noise_gap ? (float)(0.0002 * sig_noise(&sg)) : 0.f;
         if (active == 3) {   /* faint noise with one NaN sample 10 ms into every packet */
            x = (float)(0.0001 * sig_noise(&sg));
            if (n == c.fs / 1000 * c.nan_off_ms) x = NAN;
            for (k = 0; k < c.ch; k++) pcm[n * c.ch + k] = x;
            allzero = 0;
            if (in_all) in_all[(long)i * fsz + n] = 0;
            continue;
         }
         if (active == 2) {   /* faint noise; stereo: exactly anti-phase, so that the analysis downmix is digital silence */
            x = (float)(0.0001 * sig_noise(&sg));
            for (k = 0; k < c.ch; k++) pcm[n * c.ch + k] = (k == 1) ? -x : x;
            if (x != 0) allzero = 0;
            if (in_all) in_all[(long)i * fsz + n] = x;
            continue;
         }
         if (c.int16_api) { short s16 = (short)lrintf(x * 32767.f); x = s16 / 32768.f; for (k = 0; k < c.ch; k++) pcm16[n * c.ch + k] = s16; }
         for (k = 0; k < c.ch; k++) pcm[n * c.ch + k] = (k == 1) ? 0.8f * x : x;
         if (c.int16_api && c.ch == 2) pcm16[n * c.ch + 1] = (short)(pcm16[n * c.ch] * 4 / 5);
         if (c.ch == 2 && c.int16_api) pcm[n * c.ch + 1] = pcm16[n * c.ch + 1] / 32768.f;
         if (pcm[n * c.ch] != 0 || (c.ch == 2 && pcm[n * c.ch + 1] != 0)) allzero = 0;
         if (in_all) in_all[(long)i * fsz + n] = pcm[n * c.ch];
      }
      pos += fsz;
      cr->digsil = allzero;
      cr->dtx_on = enc->use_dtx; cr->q = c.q;
      cr->ms_q1 = 5 * c.q;
      cr->lowb = low_budget(enc, fsz, c.out_bytes, &gray);
      cr->gray = gray;
      read_state(enc, cr->pre);
      vlogn = 0; vlog_overflow = 0; v_valid0 = -1;
      if (g_tie) {
         printf("I dtx call "); print_cfg(stdout, enc, c.out_bytes, c.q); printf(" ");
         print_state(stdout, cr->pre);
         /* the oracle part of the line is known only after the call: the line is completed below,
            before the O line; a crash inside the call leaves a truncated I line followed by the trap's O line */
         fflush(stdout);
      }
      if (c.int16_api) ret = opus_encode(enc, pcm16, fsz, pkt, c.out_bytes);
      else ret = opus_encode_float(enc, pcm, fsz, pkt, c.out_bytes);
      opus_encoder_ctl(enc, OPUS_GET_IN_DTX(&v));
      read_state(enc, cr->post);
      cr->len = ret; cr->indtx = v;
      cr->mode_after = enc->mode;
      /* events of this call */
      cr->nsub = 0; cr->valid0 = 0; cr->all_inactive = 1;
      for (k = 0; k < vlogn; k++) {
         if (vlog[k].kind == 1) {
            cr->nsub++;
            if (vlog[k].activity == 1) cr->any_active = 1;
            if (vlog[k].activity != 0) { cr->any_nonzero_act = 1; cr->all_inactive = 0; }
         } else {
            int t; for (t = 0; t < vlog[k].nfr; t++) if (!vlog[k].prefill && !vlog[k].low0[t]) cr->vad_active = 1;
         }
      }
      if (cr->nsub == 0) cr->all_inactive = 0;
      /* analysis_info.valid of opus_encode_native (recorded by the run_analysis wrapper; 0 when the
         analysis did not run, src/opus_encoder.c:1177) */
      cr->valid0 = v_valid0 > 0 ? 1 : 0;
      if (cr->nsub > 0) {
         int sil = 0; for (k = 0; k < vlogn; k++) if (vlog[k].kind == 1) { sil = vlog[k].is_silence; break; }
         if (cr->valid0 == 0 && !sil) for (k = 0; k < vlogn; k++) if (vlog[k].kind == 1 && vlog[k].valid) { S.bad_coh++; if (!g_tie && g_verbose) printf("# incoherent-valid %s call %d\n", g_input, i); break; }
      }
      /* 2-byte "PLC frame" of a single-frame packet: SILK exceeded its bit budget (src/opus_encoder.c:2448-2457).
         It is the inner encoder's output, not a DTX return: a single-frame DTX packet has one byte. */
      cr->bust = (ret == 2 && pkt[1] == 0 && cr->nsub == 1 && !cr->lowb && vlogn >= 2 && vlog[vlogn - 2].kind == 0 && !vlog[vlogn - 2].nbytes_zero
                  && !(cr->post[0] > cr->pre[0]));
      evbase_of[i] = (int)evstore_n;
      for (k = 0; k < vlogn && evstore_n < (long)(sizeof(evstore) / sizeof(evstore[0])); k++) evstore[evstore_n++] = vlog[k];
      if (g_tie) {
         int sil = -1;
         printf(" "); print_oracles(stdout, cr, 0); printf("\n");
         for (k = 0; k < vlogn; k++) if (vlog[k].kind == 1) { sil = vlog[k].is_silence; break; }
         if (ret < 0) printf("O %s", verr(ret)); else if (ret <= 2) printf("O len=%d", ret); else printf("O len=N");
         printf(" sil=%d acts=", sil);
         { int first = 1; for (k = 0; k < vlogn; k++) if (vlog[k].kind == 1) { printf("%s%d", first ? "" : ",", vlog[k].activity); first = 0; } if (first) printf("-"); }
         printf(" nz=");
         { int first = 1; for (k = 0; k < vlogn; k++) if (vlog[k].kind == 0 && !vlog[k].prefill) { printf("%s%d", first ? "" : ",", vlog[k].nbytes_zero); first = 0; } if (first) printf("-"); }
         printf(" tc=");
         { int first = 1; for (k = 0; k < vlogn; k++) if (vlog[k].kind == 1) { printf("%s%d", first ? "" : ",", vlog[k].to_celt != 0); first = 0; } if (first) printf("-"); }
         printf(" indtx=%d st=", (int)v); print_state(stdout, cr->post);
         printf("%s\n", vlog_overflow ? " OVERFLOW" : "");
      }
      S.calls++;
      if (cr->bust) S.bust_packets++;
      if (ret >= 1 && ret <= 2 && !cr->lowb && !cr->bust) { S.tie_dtx++; if (cr->post[2]) S.tie_silk_dtx++; if (cr->nsub > 1) S.tie_multi_dtx++; }
      if (cr->lowb) S.tie_lowb++;
      if (v) S.tie_indtx++;
      if (ret >= 0) { pkts[i] = (unsigned char *)malloc(ret > 0 ? ret : 1); memcpy(pkts[i], pkt, ret); } else pkts[i] = NULL;
      if (g_verbose > 1)
         printf("# call %d t=%dms len=%d indtx=%d digsil=%d nb=%d->%d mode=%d pm=%d c0=%d lowb=%d act=%d/%d\n", i, i * c.q * 5 / 2, ret, (int)v, allzero,
                cr->pre[0], cr->post[0], mode_tok(enc->mode), mode_tok(enc->prev_mode), cr->post[3], cr->lowb, cr->any_active, cr->all_inactive);
   }

   /* the run as one line: the model folds the per-call function over the recorded oracles */
   if (g_tie && pure && ncalls <= 420) {
      OpusEncoder *e0 = enc;
      printf("I dtx run %d %d %d %d %d %d %d %d %d", c.dtx, c.fs, c.ch, c.cx, c.vbr, c.ubr == -1000 ? OPUS_AUTO : c.ubr == -1 ? OPUS_BITRATE_MAX : c.ubr, c.out_bytes, c.q, ncalls);
      for (i = 0; i < ncalls; i++) {
         int k;
         vlogn = 0;
         for (k = evbase_of[i]; k < (i + 1 < ncalls ? evbase_of[i + 1] : (int)evstore_n); k++) vlog[vlogn++] = evstore[k];
         printf(" "); print_oracles(stdout, &calls[i], 0);
      }
      printf("\nO pk=");
      for (i = 0; i < ncalls; i++) { int l = calls[i].len; putchar(l < 0 ? 'E' : l == 1 ? '1' : l == 2 ? '2' : 'N'); }
      printf(" dx=");
      for (i = 0; i < ncalls; i++) putchar(calls[i].indtx ? '1' : '0');
      printf(" st="); print_state(stdout, calls[ncalls - 1].post); printf("\n");
      (void)e0;
   }

   /* ------------------------------------------------ property predicates on the implementation */
   if (!g_tie) {
      int Fq1 = 5 * c.q;
      long sil_start_q1 = -1; int silk_sil_seen = 0;   /* SILK-regime digital silence stretch: start time, DTX seen */
      long t_stop_q1 = 0;       /* end of the last coded sub-frame whose activity decision was != 0 (Q1 ms) */
      int run_len_q1 = 0, run_first = -1, seen_dtx_since_stop = 0, run_regime = 0, run_mixed = 0;
      float *out = (float *)calloc((size_t)fsz * c.ch, sizeof(float));
      int bust_reported = 0, nbust = 0, gray_reported = 0;
      for (i = 0; i < ncalls; i++) nbust += calls[i].bust;
      for (i = 0; i < ncalls; i++) {
         callrec *cr = &calls[i];
         int tiny = cr->len >= 0 && cr->len <= 2 && !cr->bust;   /* DTX / low-budget packet */
         long t0 = (long)i * Fq1;
         if (cr->len < 0) { witness("encode_error", subseed, i, "opus_encode returned %s", verr(cr->len)); continue; }
         if (cr->lowb) S.lowb_calls++;
         /* DTX off => no tiny packet while the budget is at least three bytes per frame */
         if (!cr->dtx_on && !cr->lowb) {
            S.off_checked++;
            if (tiny) witness("dtx_off_no_tiny", subseed, i, "DTX disabled, budget not in the low-budget class, yet len=%d", cr->len);
            if (cr->bust) {
               g_bust = 1;
               if (!bust_reported) witness("dtx_off_no_tiny", subseed, i, "DTX disabled, buffer %d bytes and bitrate allow far more than three bytes, yet len=2 (TOC + 00: SILK exceeded its bit budget, src/opus_encoder.c:2448-2457); %d such packets in this run", c.out_bytes, nbust);
               bust_reported = 1;
               g_bust = 0;
            }
         }
         if (!cr->dtx_on && cr->gray && tiny) {
            S.gray_tiny++;
            if (!gray_reported) {
               g_gray = 1;
               witness("dtx_off_no_tiny", subseed, i, "DTX disabled, buffer %d bytes and bitrate allow three bytes per frame, yet len=%d: packets longer than 20 ms fall into the code's low-budget class below 300 bytes/s or 2400 bit/s (src/opus_encoder.c:1267)", c.out_bytes, cr->len);
               g_gray = 0;
               gray_reported = 1;
            }
         }
         /* shape of a DTX packet: TOC alone / code 1 / code 3 CBR with the frame count, nothing else */
         if (tiny && cr->dtx_on && !cr->lowb && pkts[i]) {
            const unsigned char *b = pkts[i];
            int ok = cr->nsub <= 1 ? (cr->len == 1 && (b[0] & 3) == 0) : cr->nsub == 2 ? (cr->len == 1 && (b[0] & 3) == 1)
                     : (cr->len == 2 && (b[0] & 3) == 3 && b[1] == cr->nsub);
            S.shape_checked++;
            if (!ok) witness("dtx_packet_shape", subseed, i, "DTX packet of %d coded frames is %02x %02x (len %d)", cr->nsub, b[0], cr->len > 1 ? b[1] : 0, cr->len);
         }
         if (tiny && !cr->lowb) {
            S.dtx_packets++;
            if (cr->nsub > 1) S.multi_dtx_packets++;
            if (cr->post[2]) S.silk_dtx_packets++;
            if (!cr->dtx_on) { /* already reported above */ }
            /* in-DTX query true on every DTX packet */
            if (cr->dtx_on && !cr->indtx) witness("in_dtx_on_dtx_packets", subseed, i, "len=%d but OPUS_GET_IN_DTX=0", cr->len);
            /* resume: a call with an active coded frame is coded normally */
            /* the decision that counts is the one of the detector in charge of the call (silk_mode.useDTX) */
            if (cr->any_active && !cr->post[2]) witness("dtx_resume", subseed, i, "generalised detector in charge and its activity decision was 1 in a coded frame, yet len=%d", cr->len);
            if (cr->post[2] && cr->vad_active) witness("dtx_resume", subseed, i, "SILK VAD flag 1 in the packet, yet len=%d", cr->len);
         }
         if (cr->any_active && !cr->lowb) S.resume_checked++;
         /* onset of SILK's own DTX on digital silence (the analysis does not run: SILK's detector is in charge;
            SILK or hybrid mode, so that the detector exists): a DTX packet must start within the calibrated
            number of milliseconds (theory: NB_SPEECH_FRAMES_BEFORE_DTX + 7 SILK frames + resampler/high-pass tail) */
         if (cr->dtx_on && !analysis_on && !cr->lowb && pure) {
            int silkish = mode_tok(cr->mode_after) == 1 || mode_tok(cr->mode_after) == 2;
            if (cr->digsil && silkish && cr->post[2]) {
               if (sil_start_q1 < 0) { sil_start_q1 = t0; silk_sil_seen = 0; }
               if (tiny && !silk_sil_seen) {
                  silk_sil_seen = 1; S.silk_onset_checked++;
                  if (g_metrics) printf("# metric silk_onset_q1=%ld q=%d fs=%d\n", t0 - sil_start_q1, c.q, c.fs);
                  if ((t0 - sil_start_q1) > S.silk_onset_max) S.silk_onset_max = t0 - sil_start_q1;
               }
               if (!silk_sil_seen && t0 - sil_start_q1 > 2 * C20_SILK_ONSET_MAX_MS) {
                  witness("silk_dtx_onset", subseed, i, "SILK's detector in charge, digital silence for %ld/2 ms (%d-unit packets), no DTX packet yet (calibrated limit %d ms)", t0 - sil_start_q1, c.q, C20_SILK_ONSET_MAX_MS);
                  silk_sil_seen = 1;
               }
            } else sil_start_q1 = -1;
         }
         /* run bound */
         if (tiny && !cr->lowb && cr->dtx_on) {
            if (run_first < 0) { run_first = i; run_len_q1 = 0; S.runs++; run_regime = cr->post[2]; run_mixed = 0; }
            if (cr->post[2] != run_regime) { if (!run_mixed) S.mixed_runs++; run_mixed = 1; }
            run_len_q1 += Fq1;
            if (run_len_q1 >= 800 + Fq1 && run_len_q1 - Fq1 < 800 + Fq1) {   /* reported once per run */
               g_mixed = run_mixed;
               witness("dtx_run_bound", subseed, i, "run of DTX packets starting at call %d lasts %d/2 ms >= 400 ms + frame %d/2 ms%s", run_first, run_len_q1, Fq1,
                       run_mixed ? " (silk_mode.useDTX changed inside the run: the detector in charge changed)" : " (one detector in charge throughout)");
               g_mixed = 0;
            }
         } else {
            if (run_first >= 0 && !cr->lowb) S.refresh_seen++;
            run_first = -1;
         }
         /* onset under the generalised detector on digital silence.  "Activity stopped" is the encoder's own
            decision: the end of the last coded frame of a non-DTX packet whose activity value was not 0. */
         if (cr->dtx_on && analysis_on && !cr->lowb && pure) {
            if (!tiny && cr->nsub > 0) {
               int k, sub = 0, fsub = Fq1 / cr->nsub;   /* every coded frame lasts Fq1/nsub */
               for (k = evbase_of[i]; k < (i + 1 < ncalls ? evbase_of[i + 1] : (int)evstore_n); k++)
                  if (evstore[k].kind == 1) { sub++; if (evstore[k].activity != 0) { t_stop_q1 = t0 + (long)sub * fsub; seen_dtx_since_stop = 0; } }
            }
            {
               long dt = t0 - t_stop_q1;     /* start of this packet relative to the stop of activity */
               if (tiny) {
                  if (!seen_dtx_since_stop && cr->digsil && cr->all_inactive) {
                     S.onset_checked++;
                     if (!(dt > 400 - Fq1 && dt < 400 + Fq1))
                        witness("dtx_onset", subseed, i, "first DTX packet starts %ld/2 ms after activity stopped (frame %d/2 ms)", dt, Fq1);
                  }
                  seen_dtx_since_stop = 1;
               } else if (cr->digsil && cr->all_inactive && !seen_dtx_since_stop && dt >= 400 + Fq1) {
                  witness("dtx_onset", subseed, i, "no DTX packet although digital silence has lasted %ld/2 ms since activity stopped (frame %d/2 ms)", dt, Fq1);
                  seen_dtx_since_stop = 1;
               }
            }
         }
      }
      /* decoder fed the DTX stream: as given, and with DTX packets presented as losses */
      if (dec && dec2) {
         long gap_n = 0, act_n = 0; double gap_e = 0, act_e = 0, in_e = 0;
         for (i = 0; i < ncalls; i++) {
            callrec *cr = &calls[i];
            int tiny, n1, n2, n;
            if (cr->len < 0 || !pkts[i]) continue;
            tiny = cr->len <= 2 && !cr->bust;
            n1 = opus_decode_float(dec, pkts[i], cr->len, out, fsz, 0);
            if (n1 != fsz) witness("decoder_duration", subseed, i, "decode of %d-byte packet returned %d, requested %d", cr->len, n1, fsz);
            if (n1 == fsz) {
               double e = 0; int bad = 0;
               for (n = 0; n < fsz * c.ch; n++) { if (!(out[n] == out[n]) || fabsf(out[n]) > 1e6f) bad = 1; }
               for (n = 0; n < fsz; n++) e += (double)out[n * c.ch] * out[n * c.ch];
               if (bad) witness("decoder_output", subseed, i, "non-finite sample in decoded DTX stream");
               /* near-silence: DTX packets in a digital-silence gap, at least 60 ms into the run of DTX */
               if (tiny && cr->dtx_on && !cr->lowb && cr->digsil && i >= 3 && calls[i - 1].len <= 2 && calls[i - 1].digsil) { gap_e += e; gap_n += fsz; }
               if (!tiny && cr->any_active && i > 8) { double ie = 0; for (n = 0; n < fsz; n++) ie += (double)in_all[(long)i * fsz + n] * in_all[(long)i * fsz + n]; act_e += e; in_e += ie; act_n += fsz; }
            }
            if (tiny && cr->dtx_on) n2 = opus_decode_float(dec2, NULL, 0, out, fsz, 0);
            else n2 = opus_decode_float(dec2, pkts[i], cr->len, out, fsz, 0);
            if (n2 != fsz) witness("decoder_duration", subseed, i, "decode (DTX packets as losses) returned %d, requested %d", n2, fsz);
            S.dec_checked++;
         }
         if (gap_n > 0 && !c.noise_gap) {
            double db = gap_e <= 1e-20 ? -200 : 10 * log10(gap_e / gap_n);
            if (g_metrics) printf("# metric gap_db=%.2f n=%ld vary=%d\n", db, gap_n, c.vary);
            if (db > C20_GAP_MAX_DB) witness("decoder_gap_level", subseed, -1, "decoded level during DTX on digital silence is %.1f dBFS (calibrated limit %.1f)", db, (double)C20_GAP_MAX_DB);
         }
         if (pure && act_n > 4L * c.fs / 10 && in_e > 0 && (c.ubr < 0 || c.ubr >= 12000) && c.out_bytes >= 100) {   /* fixed settings only */
            double d = 10 * log10((act_e + 1e-12) / (in_e + 1e-12));
            if (g_metrics) printf("# metric act_db=%.2f n=%ld vary=%d app=%d q=%d\n", d, act_n, c.vary, c.app, c.q);
            if (d < C20_ACT_MIN_DB || d > C20_ACT_MAX_DB) witness("decoder_active_level", subseed, -1, "decoded/input energy over active packets is %.1f dB (calibrated range %.1f..%.1f)", d, (double)C20_ACT_MIN_DB, (double)C20_ACT_MAX_DB);
         }
      }
      free(out);
   }
   for (i = 0; i < ncalls; i++) { free(pkts[i]); pkts[i] = NULL; }
   free(pcm); free(pcm16); free(in_all);
   if (dec) opus_decoder_destroy(dec);
   if (dec2) opus_decoder_destroy(dec2);
   opus_encoder_destroy(enc);
}

int main(int argc, char **argv)
{
   vinstall_traps();
   if (argc >= 4 && (!strcmp(argv[1], "tie") || !strcmp(argv[1], "search"))) {
      uint64_t seed = strtoull(argv[2], NULL, 10);
      long n = atol(argv[3]), i;
      int tier_long = argc >= 5 ? atoi(argv[4]) : 0;
      vrng top; top.s = seed; top.s = vnext(&top) ^ (argv[1][0] == 't' ? 0x746965ULL : 0x736561726368ULL);
      g_tie = !strcmp(argv[1], "tie");
      g_metrics = argc >= 6 && !strcmp(argv[5], "metrics");
      for (i = 0; i < n; i++) {
         uint64_t sub = vnext(&top);
         long v0 = S.violations;
         do_run(sub, tier_long, NULL);
         if (!g_tie && S.violations > v0) printf("# violating run subseed=%llu\n", (unsigned long long)sub);
      }
   } else if (argc >= 3 && !strcmp(argv[1], "one")) {
      g_tie = 0; g_verbose = argc >= 4 ? atoi(argv[3]) : 1;
      if (argc >= 5 && !strcmp(argv[4], "tie")) g_tie = 1;
      if (argc > 6) { g_ovr = argv + 6; g_novr = argc - 6; }
      do_run(strtoull(argv[2], NULL, 10), argc >= 6 ? atoi(argv[5]) : 0, NULL);
   } else if (argc >= 5 && !strcmp(argv[1], "scen")) {
      /* scen <family> <from> <to> [stride] [verbose] [tie]: deterministic scenarios from..to-1 (step stride) */
      int from = atoi(argv[3]), to = atoi(argv[4]), stride = argc >= 6 ? atoi(argv[5]) : 1, i;
      runcfg pc;
      g_tie = argc >= 8 && !strcmp(argv[7], "tie"); g_verbose = argc >= 7 ? atoi(argv[6]) : 0;
      if (stride < 1) stride = 1;
      for (i = from; i < to; i += stride) {
         long v0 = S.violations;
         int rc = scen_cfg(argv[2], i, &pc);
         if (rc == 0) break;
         if (rc < 0) continue;
         do_run(0x5ce0000u + (unsigned)i, 0, &pc);
         S.scen_runs++;
         if (!g_tie && S.violations > v0) printf("# violating scenario %s\n", pc.scen);
      }
   } else {
      fprintf(stderr, "usage: c20_dtx tie|search <seed> <nruns> [long] | one <subseed> [verbose] [tie] [long] | scen <family> <from> <to> [stride] [verbose] [tie]\n");
      return 64;
   }
   if (g_tie)
      printf("# tie-dist calls=%ld dtx_packets=%ld silk_dtx_packets=%ld multiframe_dtx_packets=%ld lowbudget_calls=%ld in_dtx_answers_1=%ld cfg_generalised=%ld cfg_silkdtx=%ld incoherent_valid=%ld silk_bust_packets=%ld\n",
             S.calls, S.tie_dtx, S.tie_silk_dtx, S.tie_multi_dtx, S.tie_lowb, S.tie_indtx, S.cfg_gen, S.cfg_silk, S.bad_coh, S.bust_packets);
   else
   printf("# stats calls=%ld dtx_packets=%ld silk_dtx=%ld multiframe_dtx=%ld runs=%ld refresh=%ld onset_checked=%ld resume_checked=%ld off_checked=%ld gray_tiny=%ld lowbudget_calls=%ld dec_checked=%ld cfg_generalised=%ld cfg_silkdtx=%ld incoherent_valid=%ld mixed_detector_runs=%ld scenario_runs=%ld silk_bust_packets=%ld shape_checked=%ld silk_onset_checked=%ld silk_onset_max_q1=%ld violations=%ld\n",
          S.calls, S.dtx_packets, S.silk_dtx_packets, S.multi_dtx_packets, S.runs, S.refresh_seen, S.onset_checked, S.resume_checked, S.off_checked,
          S.gray_tiny, S.lowb_calls, S.dec_checked, S.cfg_gen, S.cfg_silk, S.bad_coh, S.mixed_runs, S.scen_runs, S.bust_packets, S.shape_checked, S.silk_onset_checked, S.silk_onset_max, S.violations);
   return 0;
}
