/* c19_softclip.c — correspondence + witness-search harness for C19 (soft clipping, decoder gain).
   Modes:  rand <seed> <n>        tie: opus_pcm_soft_clip on the property's input families (I/O lines)
           edge                   tie: degenerate arguments, tiny N/C, special values
           gain <level>           tie: OPUS_SET_GAIN accept/reject + celt_exp2(6.48814081e-4f*g) (level 0: 2049 gains, 1: all 65536)
           search <seed> <n>      property predicates evaluated on the implementation alone (W/STAT lines)
           gainsearch <seed> <n>  twin decoders, gain g vs 0 (W/STAT lines)
   Floats travel as little-endian byte strings (vhex of the raw array).                                      */
#include "vcommon.h"
#include <math.h>
#include "opus.h"
#include "arch.h"
#include "float_cast.h"
#include "mathops.h"
#include "opus_private.h"   /* OPUS_SET_FORCE_MODE, MODE_SILK_ONLY, MODE_CELT_ONLY */

static uint32_t f2u(float f) { uint32_t u; memcpy(&u, &f, 4); return u; }
static float u2f(uint32_t u) { float f; memcpy(&f, &u, 4); return f; }
static double vunit(vrng *r) { return (double)(vnext(r) >> 11) / 9007199254740992.0; }
static double vsym(vrng *r) { return 2.0 * vunit(r) - 1.0; }

static const float amps[] = {0.f, 1e-3f, 0.5f, 0.9f, 0.99f, 1.0f, 1.0000001f, 1.01f, 1.1f, 1.5f, 1.9f, 2.0f, 2.0000002f,
                             2.5f, 3.f, 10.f, 100.f, 1e3f, 1e4f, 1e6f};
#define NAMPS ((int)(sizeof(amps) / sizeof(amps[0])))
static const float specials[] = {0.f, -0.f, 1.f, -1.f, 2.f, -2.f, 0.99999994f, -0.99999994f, 1.0000001f, -1.0000001f,
                                 1.9999999f, -1.9999999f, 2.0000002f, -2.0000002f, 1e-45f, -1e-45f, 1.17549435e-38f,
                                 0.5f, -0.5f, 3.4e38f, -3.4e38f, 1e6f, -1e6f, 1.5f, -1.5f};
#define NSPECIALS ((int)(sizeof(specials) / sizeof(specials[0])))

/* Fill x[N*C] from one of the property's input families.  Only finite values unless allow_nonfinite. */
static int gen_signal(vrng *r, float *x, int N, int C, int allow_nonfinite)
{
   int fam = vbelow(r, 9), i, c;
   float A = amps[vbelow(r, NAMPS)];
   if (vchance(r, 30)) A = (float)(vunit(r) * 3.0);
   switch (fam) {
   case 0: /* noise of amplitude A */
      for (i = 0; i < N * C; i++) x[i] = (float)(A * vsym(r));
      break;
   case 1: /* sines, per-channel frequency and phase */
      for (c = 0; c < C; c++) {
         double w = 0.001 + 3.0 * vunit(r) * vunit(r), ph = 6.283 * vunit(r);
         for (i = 0; i < N; i++) x[i * C + c] = (float)(A * sin(w * i + ph));
      }
      break;
   case 2: /* quiet signal with isolated peaks */
      for (i = 0; i < N * C; i++) x[i] = (float)(0.9 * vsym(r));
      { int k = 1 + vbelow(r, 6); while (k-- && N * C > 0) x[vbelow(r, N * C)] = (float)((vchance(r, 50) ? 1 : -1) * (1.0 + 2.5 * vunit(r))); }
      break;
   case 3: /* runs above range without a zero crossing */
      for (c = 0; c < C; c++) {
         float s = vchance(r, 50) ? 1.f : -1.f; int run = 0;
         for (i = 0; i < N; i++) {
            if (run == 0) { run = 1 + vbelow(r, 2 * N + 1); if (vchance(r, 40)) s = -s; }
            run--;
            x[i * C + c] = s * (float)(vchance(r, 70) ? 1.0 + 1.2 * vunit(r) : 1.3 * vunit(r));
         }
      }
      break;
   case 4: /* sign changes at the frame edges, loud in the middle */
      for (c = 0; c < C; c++) {
         float s = vchance(r, 50) ? 1.f : -1.f;
         int k1 = vbelow(r, 4), k2 = vbelow(r, 4);
         for (i = 0; i < N; i++) {
            float v = s * (float)(0.2 + 2.0 * vunit(r));
            if (i < k1 || i >= N - k2) v = -v * (vchance(r, 50) ? 0.3f : 1.f);
            if (vchance(r, 3)) v = 0.f;
            x[i * C + c] = v;
         }
      }
      break;
   case 5: /* special values */
      for (i = 0; i < N * C; i++) x[i] = specials[vbelow(r, NSPECIALS)];
      break;
   case 6: /* random finite bit patterns (wide exponent range) */
      for (i = 0; i < N * C; i++) { uint32_t u; do u = (uint32_t)vnext(r); while (((u >> 23) & 255) == 255); x[i] = u2f(u); }
      break;
   case 7: /* ramp through the clipping point, slow */
      for (c = 0; c < C; c++) {
         double v = A * vsym(r), d = 0.2 * vsym(r);
         for (i = 0; i < N; i++) { x[i * C + c] = (float)v; v += d; if (v > 2.5 || v < -2.5) d = -d; }
      }
      break;
   default: /* mixture: peak first (special case start==0), then quiet */
      for (c = 0; c < C; c++) {
         float s = vchance(r, 50) ? 1.f : -1.f; int pk = vbelow(r, N > 0 ? (N < 12 ? N : 12) : 1);
         for (i = 0; i < N; i++)
            x[i * C + c] = i <= pk + 3 ? s * (float)(0.3 + 1.7 * vunit(r) * (i <= pk ? (i + 1.0) / (pk + 1.0) : 1.0)) : (float)(0.8 * vsym(r));
      }
   }
   if (allow_nonfinite && vchance(r, 4) && N * C > 0) {
      int k = 1 + vbelow(r, 3);
      while (k--) x[vbelow(r, N * C)] = vchance(r, 50) ? (vchance(r, 50) ? INFINITY : -INFINITY) : u2f(0x7fc00000u | (vchance(r, 50) ? 0x80000000u : 0));
      return 9;
   }
   return fam;
}

static int pick_N(vrng *r, int small)
{
   static const int big[] = {120, 240, 480, 960, 1920, 2880, 5760, 5759, 961, 17, 100};
   int k = vbelow(r, 100);
   if (small || k < 70) return vrange(r, 1, 40);
   if (k < 90) return vrange(r, 41, 400);
   return big[vbelow(r, sizeof(big) / sizeof(big[0]))];
}

/* floats as little-endian bytes; every NaN is printed as the canonical quiet NaN 7fc00000 (Lean's Float32.toBits does the
   same on the model side; non-finite samples are outside the property, they only exercise the comparisons) */
static void hexf(const float *p, long n)
{
   static const char d[] = "0123456789abcdef";
   long i; int k; fputc('x', stdout);
   for (i = 0; p && i < n; i++) {
      uint32_t u = f2u(p[i]);
      if (p[i] != p[i]) u = 0x7fc00000u;
      for (k = 0; k < 4; k++) { unsigned b = (u >> (8 * k)) & 255; fputc(d[b >> 4], stdout); fputc(d[b & 15], stdout); }
   }
}

/* one tie case: prints I line, calls, prints O line. xlen/mlen = number of floats actually supplied */
static void tie_case(int N, int C, float *x, long xlen, float *mem, long mlen)
{
   float *xe = x ? (float *)vexact((unsigned char *)x, 4 * xlen) : NULL;
   float *me = mem ? (float *)vexact((unsigned char *)mem, 4 * mlen) : NULL;
   printf("I softclip clip %d %d %d ", N, C, (x ? 0 : 1) + (mem ? 0 : 2)); hexf(mem, mlen); fputc(' ', stdout); hexf(x, xlen); fputc('\n', stdout);
   fflush(stdout);
   opus_pcm_soft_clip(xe, N, C, me);
   {  /* coarse outcome class first (it keys the distribution): was the signal modified, is a coefficient carried over */
      int changed = x && memcmp(x, xe, 4 * xlen) != 0, carried = 0; long q;
      for (q = 0; me && q < mlen; q++) if (f2u(me[q]) != 0) carried = 1;
      printf("O %s ", (N < 1 || C < 1 || !x || !mem) ? "ignored" : changed ? (carried ? "clipped-carry" : "clipped") : (carried ? "same-carry" : "same"));
   }
   hexf(xe, xlen); fputc(' ', stdout); hexf(me, mlen); fputc('\n', stdout);
   if (x && xe) memcpy(x, xe, 4 * xlen);
   if (mem && me) memcpy(mem, me, 4 * mlen);
   free(xe); free(me);
}

static void run_rand(uint64_t seed, long cases)
{
   vrng r; long k; r.s = seed ^ 0xC19;
   static float x[5760 * 8]; float mem[8];
   k = 0;
   while (k < cases) {
      int C = vchance(&r, 60) ? vrange(&r, 1, 2) : vrange(&r, 1, 8);
      int frames = vchance(&r, 50) ? 1 : vrange(&r, 2, 4), f, c;
      int small = !vchance(&r, 8);
      for (c = 0; c < 8; c++) mem[c] = 0;
      if (vchance(&r, 10)) for (c = 0; c < C; c++) mem[c] = (float)(0.25 * vsym(&r));       /* a plausible carried-over coefficient */
      for (f = 0; f < frames && k < cases; f++, k++) {
         int N = pick_N(&r, small);
         gen_signal(&r, x, N, C, 1);
         tie_case(N, C, x, (long)N * C, mem, C);
      }
   }
}

static void run_edge(void)
{
   float x[64], mem[8]; int i, N, C;
   vrng r; r.s = 77;
   /* degenerate arguments: nothing may be touched */
   for (N = -2; N <= 2; N++) for (C = -2; C <= 2; C++) {
      if (N >= 1 && C >= 1) continue;
      for (i = 0; i < 8; i++) { x[i] = 3.f - i; mem[i & 7] = 0.125f * (i - 3); }
      tie_case(N, C, x, 8, mem, 2);
   }
   for (i = 0; i < 8; i++) { x[i] = 3.f - i; mem[i] = 0.1f; }
   tie_case(4, 2, NULL, 0, mem, 2);
   tie_case(4, 2, x, 8, NULL, 0);
   tie_case(4, 2, NULL, 0, NULL, 0);
   tie_case(0, 0, NULL, 0, NULL, 0);
   /* every (N,C) with N<=6, C<=8 on three signal shapes */
   for (N = 1; N <= 6; N++) for (C = 1; C <= 8; C++) {
      int s;
      for (s = 0; s < 3; s++) {
         for (i = 0; i < N * C; i++) x[i] = s == 0 ? 1.5f : s == 1 ? (float)(2.2 * vsym(&r)) : specials[vbelow(&r, NSPECIALS)];
         for (i = 0; i < 8; i++) mem[i] = 0;
         tie_case(N, C, x, N * C, mem, C);
         for (i = 0; i < N * C; i++) x[i] = (float)(1.2 * vsym(&r));
         tie_case(N, C, x, N * C, mem, C);   /* second frame re-uses the memory */
      }
   }
   /* all ordered pairs / triples of special values, mono, fresh memory */
   { int a, b; for (a = 0; a < NSPECIALS; a++) for (b = 0; b < NSPECIALS; b++) {
        x[0] = specials[a]; x[1] = specials[b]; x[2] = specials[(a + b) % NSPECIALS]; mem[0] = 0;
        tie_case(3, 1, x, 3, mem, 1);
        x[0] = specials[b]; x[1] = specials[a]; mem[0] = mem[0];
        tie_case(2, 1, x, 2, mem, 1);
   } }
}

static void run_gain(int level)
{
   static const int vals[] = {-2147483647 - 1, -65536, -32770, -32769, -32768, -32767, -1, 0, 1, 256, 3050, 32766, 32767, 32768, 32769, 65535, 65536, 2147483647};
   int err, i, g;
   OpusDecoder *d = opus_decoder_create(48000, 2, &err);
   opus_int32 cur = 0;
   for (i = 0; i < (int)(sizeof(vals) / sizeof(vals[0])); i++) {
      int ret; opus_int32 after;
      opus_decoder_ctl(d, OPUS_GET_GAIN(&cur));
      printf("I softclip gainctl %d %d\n", cur, vals[i]);
      ret = opus_decoder_ctl(d, OPUS_SET_GAIN(vals[i]));
      opus_decoder_ctl(d, OPUS_GET_GAIN(&after));
      printf("O %s %d\n", verr(ret), after);
   }
   opus_decoder_destroy(d);
   for (g = -32768; g <= 32767; g++) {
      float G;
      if (!level && (g & 31) != 0 && g != 32767 && g != -1 && g != 1) continue;
      G = celt_exp2(MULT16_16_P15(QCONST16(6.48814081e-4f, 25), g));
      printf("I softclip gainval %d\nO G %u\n", g, f2u(G));
   }
}

/* ------------------------------------------------------------------ witness search (implementation only) */
static long n_cases, n_wit, n_active, n_pass, n_chan, n_degen, n_residue;
static long famhist[10];

/* W <suite> | <input> | <expected> | <observed> | <why>   (input = the call in the `softclip clip` line format) */
static void witness(const char *suite, int N, int C, const float *mem, const float *x, const char *expected, const char *observed, const char *why)
{
   n_wit++;
   if (n_wit > 8) return;
   printf("W %s | softclip clip %d %d 0 ", suite, N, C); hexf(mem, C > 0 ? C : 0); fputc(' ', stdout); hexf(x, (N > 0 && C > 0) ? (long)N * C : 0);
   printf(" | %s | %s | %s\n", expected, observed, why);
}

/* The per-call predicates of the property on one call (zero-initialised or carried memory mem0, finite input x0):
   1 bounded, 2 sign flipped (strict: any sample, however small), 4 pass-through.  Output in y / mem. */
typedef struct { int kind, idx; char exp[160], obs[200]; } viol;
static void eval_call(int N, int C, const float *mem0, const float *x0, float *y, float *mem, viol *v)
{
   int i, c, allin = 1, memzero = 1;
   float *ye = (float *)vexact((const unsigned char *)x0, 4L * N * C), *me = (float *)vexact((const unsigned char *)mem0, 4L * C);
   opus_pcm_soft_clip(ye, N, C, me);
   memcpy(y, ye, 4L * N * C); memcpy(mem, me, 4L * C);
   free(ye); free(me);
   v->kind = 0; v->idx = -1;
   for (i = 0; i < N * C; i++) if (!(fabsf(x0[i]) <= 1.f)) allin = 0;
   for (c = 0; c < C; c++) if (f2u(mem0[c]) != 0) memzero = 0;
   for (i = 0; i < N * C; i++) if (!(y[i] >= -1.f && y[i] <= 1.f)) {
      v->kind = 1; v->idx = i; snprintf(v->exp, sizeof v->exp, "every output sample in [-1, 1]");
      snprintf(v->obs, sizeof v->obs, "out[%d]=%.9g (bits %08x) for in[%d]=%.9g", i, y[i], f2u(y[i]), i, x0[i]); return; }
   for (i = 0; i < N * C; i++) if ((x0[i] > 0 && y[i] < 0) || (x0[i] < 0 && y[i] > 0)) {
      v->kind = 2; v->idx = i;
      snprintf(v->exp, sizeof v->exp, "out[%d] has the sign of in[%d] (or is zero)", i, i);
      snprintf(v->obs, sizeof v->obs, "in[%d]=%.9g (bits %08x) out[%d]=%.9g (bits %08x)", i, x0[i], f2u(x0[i]), i, y[i], f2u(y[i])); return; }
   if (allin && memzero) {
      for (i = 0; i < N * C; i++) if (f2u(x0[i]) != f2u(y[i])) {
         v->kind = 4; v->idx = i; snprintf(v->exp, sizeof v->exp, "output bit-identical to the input, memory stays 0");
         snprintf(v->obs, sizeof v->obs, "in[%d]=%08x out[%d]=%08x", i, f2u(x0[i]), i, f2u(y[i])); return; }
      for (c = 0; c < C; c++) if (mem[c] != 0.f) {   /* value comparison: -0.0 is still a cleared memory */
         v->kind = 4; v->idx = c; snprintf(v->exp, sizeof v->exp, "output bit-identical to the input, memory stays 0");
         snprintf(v->obs, sizeof v->obs, "declip_mem[%d] became %08x", c, f2u(mem[c])); return; }
   }
}

/* Shrink a failing call: keep only the channel of the offending sample (with that channel's memory), then the shortest
   prefix on which a violation of the same kind remains. */
static void report_shrunk(int N, int C, const float *mem0, const float *x0, const viol *v0)
{
   static float xs[5760], ys[5760]; float m0, m1; viol v; int i, c = v0->idx % C, n, best = -1;
   static const char *suites[] = {"", "softclip-bounded", "softclip-sign", "softclip-sign", "softclip-passthrough"};
   static const char *whys[] = {"", "the soft clipper must map any finite input to samples in [-1, 1]",
      "the soft clipper must never flip a sample's sign",
      "the soft clipper must never flip a sample's sign",
      "a signal already inside [-1, 1] with cleared memory must be left bit-for-bit untouched"};
   for (i = 0; i < N; i++) xs[i] = x0[i * C + c];
   m0 = mem0[c];
   for (n = 1; n <= N; n++) { eval_call(n, 1, &m0, xs, ys, &m1, &v); if (v.kind == v0->kind) { best = n; break; } }
   if (best > 0) witness(suites[v0->kind], best, 1, &m0, xs, v.exp, v.obs, whys[v0->kind]);
   else witness(suites[v0->kind], N, C, mem0, x0, v0->exp, v0->obs, whys[v0->kind]);
}

static void run_search(uint64_t seed, long cases)
{
   vrng r; long k = 0; r.s = seed ^ 0x5EA5C19;
   static float x0[5760 * 8], y[5760 * 8], z[5760 * 8], ch[5760]; float mem[8], mem0[8], memz[8];
   char exp[160], obs[256];
   while (k < cases) {
      int C = vchance(&r, 50) ? vrange(&r, 1, 2) : vrange(&r, 1, 8);
      int frames = vchance(&r, 40) ? 1 : vrange(&r, 2, 5), f, c, i;
      int small = !vchance(&r, 15);
      for (c = 0; c < 8; c++) mem[c] = 0;       /* memory as the API documents it: zero-initialised, then carried */
      for (f = 0; f < frames && k < cases; f++, k++) {
         int N = pick_N(&r, small), fam, allin = 1, memzero = 1;
         viol v;
         fam = gen_signal(&r, x0, N, C, 0);
         famhist[fam]++;
         memcpy(mem0, mem, sizeof mem);
         eval_call(N, C, mem0, x0, y, mem, &v);
         n_cases++;
         for (i = 0; i < N * C; i++) if (!(fabsf(x0[i]) <= 1.f)) allin = 0;
         for (c = 0; c < C; c++) if (f2u(mem0[c]) != 0) memzero = 0;
         if (!allin) n_active++;
         if (allin && memzero) n_pass++;
         if (v.kind == 2) n_residue++;
         if (v.kind) report_shrunk(N, C, mem0, x0, &v);
         /* channel independence: the same data channel by channel */
         {
            int diff = 0;
            n_chan++;
            for (c = 0; c < C && !diff; c++) {
               float m1 = mem0[c]; float *ce, *m1e;
               for (i = 0; i < N; i++) ch[i] = x0[i * C + c];
               ce = (float *)vexact((unsigned char *)ch, 4L * N); m1e = (float *)vexact((unsigned char *)&m1, 4);
               opus_pcm_soft_clip(ce, N, 1, m1e);
               for (i = 0; i < N; i++) if (f2u(ce[i]) != f2u(y[i * C + c])) { diff = 1; snprintf(obs, sizeof obs, "channel %d sample %d: interleaved call gives %08x, single-channel call gives %08x", c, i, f2u(y[i * C + c]), f2u(ce[i])); break; }
               if (!diff && f2u(*m1e) != f2u(mem[c])) { diff = 1; snprintf(obs, sizeof obs, "channel %d memory: interleaved call leaves %08x, single-channel call leaves %08x", c, f2u(mem[c]), f2u(*m1e)); }
               free(ce); free(m1e);
            }
            if (diff) witness("softclip-channel", N, C, mem0, x0, "the C-channel call equals C single-channel calls on the de-interleaved data with that channel's memory", obs, "each channel must be treated independently of the others");
         }
         /* degenerate arguments are ignored (same buffers, N or C < 1, or a null pointer) */
         if (vchance(&r, 25)) {
            int which = vbelow(&r, 4), n2 = N, c2 = C;
            n_degen++;
            memcpy(z, x0, 4L * N * C); memcpy(memz, mem0, sizeof memz);
            if (which == 0) n2 = -(int)vbelow(&r, 3); else if (which == 1) c2 = -(int)vbelow(&r, 3);
            if (which == 2) opus_pcm_soft_clip(NULL, n2, c2, memz);
            else if (which == 3) opus_pcm_soft_clip(z, n2, c2, NULL);
            else opus_pcm_soft_clip(z, n2, c2, memz);
            if (memcmp(z, x0, 4L * N * C) != 0 || memcmp(memz, mem0, sizeof memz) != 0) {
               snprintf(obs, sizeof obs, "call with N=%d C=%d %s modified its arguments", n2, c2, which == 2 ? "and a null pcm pointer" : which == 3 ? "and a null memory pointer" : "");
               snprintf(exp, sizeof exp, "buffers untouched");
               witness("softclip-degenerate", N, C, mem0, x0, exp, obs, "degenerate arguments (C<1, N<1, null pointer) must be ignored");
            }
         }
      }
   }
   printf("STAT cases=%ld active=%ld passthrough=%ld channel=%ld degenerate=%ld sign_flips=%ld witnesses=%ld fam=%ld,%ld,%ld,%ld,%ld,%ld,%ld,%ld,%ld\n",
          n_cases, n_active, n_pass, n_chan, n_degen, n_residue, n_wit, famhist[0], famhist[1], famhist[2], famhist[3], famhist[4], famhist[5], famhist[6], famhist[7], famhist[8]);
}

/* ------------------------------------------------------------------ gain: twin decoders */
static opus_int16 my_f2i16(float v)   /* scale, round half even, saturate — written without the library's macros */
{
   double s = (double)v * 32768.0, q;
   if (!(s > -32768.0)) return -32768;
   if (!(s < 32767.0)) return 32767;
   q = nearbyint(s);            /* default rounding mode: to nearest, ties to even */
   return (opus_int16)q;
}

static void gen_audio(vrng *r, float *pcm, int n, int ch, int kind, double *phase, float amp)
{
   int i, c;
   for (i = 0; i < n; i++) for (c = 0; c < ch; c++) {
      double v;
      if (kind == 0) v = amp * sin(phase[c]);
      else if (kind == 1) v = amp * (0.6 * sin(phase[c]) + 0.4 * vsym(r));
      else v = amp * vsym(r);
      phase[c] += 0.02 + 0.05 * c + (kind == 1 ? 0.001 * vsym(r) : 0);
      pcm[i * ch + c] = (float)v;
   }
}

static int corpus_mode;   /* gaincorpus: every stream alternates SILK-only / CELT-only packets on every frame, no loss, fixed gains */
static double gain_tol = 4e-6;   /* relative tolerance of the gain factor against 10^(g/5120); overridden by argv[4] (tools/props/C19_calib.json) */
static void run_gainsearch(uint64_t seed, long streams)
{
   vrng r; long s; r.s = seed ^ 0x6A19;
   long frames_total = 0, wit = 0, sat_hits = 0, lost = 0, samples = 0;
   double max_rel = 0;
   static float in[5760 * 2], o0[5760 * 2], og[5760 * 2], tmp[5760 * 2];
   static opus_int16 s0[5760 * 2], sg[5760 * 2];
   unsigned char pkt[4000];
   static const int rates[] = {8000, 12000, 16000, 24000, 48000};
   static const int gains[] = {1, -1, 256, -256, 1536, -1536, 3050, 5120, -5120, 10240, -10240, 20000, 32767, -32768};
   /* the gain factor itself against 10^(g/5120), all gains */
   { int g; for (g = -32768; g <= 32767; g++) {
        float G = celt_exp2(MULT16_16_P15(QCONST16(6.48814081e-4f, 25), g));
        double want = pow(10.0, g / 5120.0), rel = fabs(G - want) / want;
        if (rel > max_rel) max_rel = rel;
        if (rel > gain_tol && wit++ < 8) printf("W gain-factor | OPUS_SET_GAIN(%d) | gain factor 10^(g/5120)=%.9g within the calibrated relative tolerance | celt_exp2(6.48814081e-4f*g)=%.9g (relative error %.3g) | a decoder gain of g (Q8 dB) must multiply the signal by 10^(g/5120)\n", g, want, G, rel);
   } }
   for (s = 0; s < streams; s++) {
      int Fs = rates[vbelow(&r, 5)], ch = vrange(&r, 1, 2), dch = vrange(&r, 1, 2), dFs = rates[vbelow(&r, 5)];
      int app = vchance(&r, 50) ? OPUS_APPLICATION_AUDIO : OPUS_APPLICATION_VOIP;
      int g = vchance(&r, 70) ? gains[vbelow(&r, sizeof(gains) / sizeof(gains[0]))] : vrange(&r, -32768, 32767);
      int err, f, nframes = 6 + vbelow(&r, 8), kind = vbelow(&r, 3), i;
      float amp = vchance(&r, 30) ? 1.0f : (float)(0.05 + 0.6 * vunit(&r));
      static const int durs[] = {120, 240, 480, 960, 1920, 2880};   /* at 48 kHz */
      int fs48 = durs[vbelow(&r, 6)], fsz = fs48 * (Fs / 1000) / 48;
      double phase[2] = {0, 1};
      float G, mem16[2] = {0, 0};
      OpusEncoder *enc = opus_encoder_create(Fs, ch, app, &err);
      OpusDecoder *d0 = opus_decoder_create(dFs, dch, &err), *dg = opus_decoder_create(dFs, dch, &err);
      OpusDecoder *e0 = opus_decoder_create(dFs, dch, &err), *eg = opus_decoder_create(dFs, dch, &err);
      int maxfs = dFs / 25 * 3;  /* 120 ms */
      char det[300];
      /* mode-switching streams: a second encoder forced to the other coding mode; the packet fed to the decoders alternates
         between the two every 1..3 frames, so the decoder goes through SILK<->CELT transitions without redundancy frames
         (the recursive opus_decode_frame call for the cross-fade, src/opus_decoder.c:373-377 and 511-515) */
      OpusEncoder *enc2 = NULL; int dual = corpus_mode || (s % 3) == 1, use2 = 0, hold = 0;
      if (corpus_mode) { static const int cg[] = {256, 5120, -13232, 31747, -16422, 1}; g = cg[s % 6]; }
      if (dual) {
         if (fs48 < 480) { fs48 = 960; fsz = fs48 * (Fs / 1000) / 48; }
         enc2 = opus_encoder_create(Fs, ch, app, &err);
         opus_encoder_ctl(enc, OPUS_SET_FORCE_MODE(MODE_SILK_ONLY)); opus_encoder_ctl(enc2, OPUS_SET_FORCE_MODE(MODE_CELT_ONLY));
         opus_encoder_ctl(enc2, OPUS_SET_BITRATE(24000 + vbelow(&r, 100000)));
      }
      opus_encoder_ctl(enc, OPUS_SET_BITRATE(6000 + vbelow(&r, 120000)));
      if (vchance(&r, 30)) opus_encoder_ctl(enc, OPUS_SET_FORCE_CHANNELS(1));
      if (vchance(&r, 30)) opus_encoder_ctl(enc, OPUS_SET_INBAND_FEC(1)), opus_encoder_ctl(enc, OPUS_SET_PACKET_LOSS_PERC(20));
      if (opus_decoder_ctl(dg, OPUS_SET_GAIN(g)) != OPUS_OK || opus_decoder_ctl(eg, OPUS_SET_GAIN(g)) != OPUS_OK) { printf("W gain-ctl | OPUS_SET_GAIN(%d) | OPUS_OK | error | every gain in [-32768, 32767] must be accepted\n", g); wit++; }
      G = g ? celt_exp2(MULT16_16_P15(QCONST16(6.48814081e-4f, 25), g)) : 1.f;
      for (f = 0; f < nframes; f++) {
         int len, n0, ng, m0, mg, lose = f > 1 && vchance(&r, 12) && !corpus_mode, fec = 0;
         opus_uint32 r0, rg, q0, qg;
         gen_audio(&r, in, fsz, ch, kind, phase, amp);
         len = opus_encode_float(enc, in, fsz, pkt, sizeof pkt);
         if (len < 0) break;
         if (dual) {
            unsigned char pkt2[4000]; int len2 = opus_encode_float(enc2, in, fsz, pkt2, sizeof pkt2);
            if (len2 < 0) break;
            if (hold-- <= 0) { use2 = !use2; hold = corpus_mode ? 0 : vbelow(&r, 3); }
            if (use2) { memcpy(pkt, pkt2, len2); len = len2; }
         }
         if (lose) { lost++; n0 = opus_decode_float(d0, NULL, 0, o0, fs48 * (dFs / 1000) / 48, 0); ng = opus_decode_float(dg, NULL, 0, og, fs48 * (dFs / 1000) / 48, 0);
                     m0 = opus_decode(e0, NULL, 0, s0, fs48 * (dFs / 1000) / 48, 0); mg = opus_decode(eg, NULL, 0, sg, fs48 * (dFs / 1000) / 48, 0); }
         else { fec = f > 2 && vchance(&r, 8);
                n0 = opus_decode_float(d0, pkt, len, o0, maxfs, fec); ng = opus_decode_float(dg, pkt, len, og, maxfs, fec);
                m0 = opus_decode(e0, pkt, len, s0, maxfs, fec); mg = opus_decode(eg, pkt, len, sg, maxfs, fec); }
         opus_decoder_ctl(d0, OPUS_GET_FINAL_RANGE(&r0)); opus_decoder_ctl(dg, OPUS_GET_FINAL_RANGE(&rg));
         opus_decoder_ctl(e0, OPUS_GET_FINAL_RANGE(&q0)); opus_decoder_ctl(eg, OPUS_GET_FINAL_RANGE(&qg));
         frames_total++;
         snprintf(det, sizeof det, "c19_softclip gainsearch %llu: stream %ld Fs=%d ch=%d dFs=%d dch=%d app=%d g=%d mode-switching=%d frame=%d (packet mode %s) lost=%d fec=%d", (unsigned long long)seed, s, Fs, ch, dFs, dch, app, g, dual, f, dual ? (use2 ? "CELT" : "SILK") : "auto", lose, fec);
         if (n0 != ng || m0 != mg || n0 != m0) { if (wit++ < 8) printf("W gain-count | %s | equal sample counts | float(0)=%d float(g)=%d int16(0)=%d int16(g)=%d | the decoder gain must not change the sample count\n", det, n0, ng, m0, mg); continue; }
         if (r0 != rg || q0 != qg || r0 != q0) { if (wit++ < 8) printf("W gain-range | %s | equal final ranges | float(0)=%08x float(g)=%08x int16(0)=%08x int16(g)=%08x | the decoder gain must not change the final range\n", det, r0, rg, q0, qg); }
         if (n0 <= 0) continue;
         samples += (long)n0 * dch;
         /* float output scales exactly: one binary32 multiplication by G per sample, nothing else */
         for (i = 0; i < n0 * dch; i++) {
            float want = g ? o0[i] * G : o0[i];
            if (f2u(want) != f2u(og[i])) { if (wit++ < 8) printf("W gain-scale | %s | %.9g = %.9g * %.9g (one binary32 multiplication) | sample %d: gain 0 gives %.9g, gain g gives %.9g | the float output must be the gain-0 output times the gain factor and nothing else\n", det, want, o0[i], G, i, o0[i], og[i]); break; }
         }
         /* int16 output saturates, never wraps: on a normal decode call it is the scaled float signal through the soft clipper
            (own memory), x32768, rounded, saturated; PLC / FEC calls bypass the soft clipper in opus_decode_native and give
            saturate(round(32768*float)) directly */
         memcpy(tmp, og, 4L * n0 * dch);
         if (!lose && !fec) opus_pcm_soft_clip(tmp, n0, dch, mem16);
         for (i = 0; i < n0 * dch; i++) {
            opus_int16 want = my_f2i16(tmp[i]);
            if (want == 32767 || want == -32768 || fabsf(og[i]) > 1.f) sat_hits++;
            if (want != sg[i]) { if (wit++ < 8) printf("W gain-int16 | %s | %d (%s x32768, rounded to nearest even, saturated) | sample %d: float(g)=%.9g int16(g)=%d | with a decoder gain the integer output must saturate, not wrap\n", det, want, (lose || fec) ? "float output" : "float output through the soft clipper,", i, og[i], sg[i]); break; }
            /* (a sample >= 2 need not come out at exactly 32767: the continuation of the previous frame's curve lowers it first) */
            if ((og[i] > 0.01f && sg[i] < 0) || (og[i] < -0.01f && sg[i] > 0)) {
               if (wit++ < 8) printf("W gain-wrap | %s | int16 of the same sign as the float output | sample %d: float(g)=%.9g int16(g)=%d | integer output must saturate rather than wrap\n", det, i, og[i], sg[i]); break; }
         }
      }
      opus_encoder_destroy(enc); if (enc2) opus_encoder_destroy(enc2); opus_decoder_destroy(d0); opus_decoder_destroy(dg); opus_decoder_destroy(e0); opus_decoder_destroy(eg);
   }
   printf("STAT cases=%ld streams=%ld lost=%ld samples=%ld saturating_samples=%ld gain_factor_max_rel_err=%.3g witnesses=%ld\n", frames_total, streams, lost, samples, sat_hits, max_rel, wit);
}

/* stdin: re-run recorded `softclip clip N C flags <mem> <x>` lines: the tie answer (I/O lines) and, for flags 0, the
   property predicates on the implementation (P line). */
static void run_stdin(void)
{
   static char line[1 << 20], memh[1 << 10], xh[1 << 20]; static unsigned char mb[256], xb[4 * 5760 * 8];
   static float y[5760 * 8]; float mo[8];
   while (fgets(line, sizeof line, stdin)) {
      int N, C, flags; long ml, xl; viol v;
      if (sscanf(line, "softclip clip %d %d %d %1023s %1048575s", &N, &C, &flags, memh, xh) != 5) continue;
      ml = vunhex(memh, mb, sizeof mb); xl = vunhex(xh, xb, sizeof xb);
      if (ml < 0 || xl < 0 || ml % 4 || xl % 4) continue;
      if (flags == 0 && N >= 1 && C >= 1 && C <= 8 && xl == 4L * N * C && ml == 4L * C) {
         eval_call(N, C, (float *)mb, (float *)xb, y, mo, &v);
         printf("P kind=%d %s | %s\n", v.kind, v.kind ? v.exp : "bounded, sign kept, pass-through where applicable", v.kind ? v.obs : "ok");
      }
      tie_case(N, C, (flags & 1) ? NULL : (float *)xb, xl / 4, (flags & 2) ? NULL : (float *)mb, ml / 4);
   }
}

/* boost: directed search for |out| > 1 in binary32 where the 2^-22 boost `a += a*2.4e-7f` has the least margin: two-sample
   frames {x, maxval} (one excursion, no ramp) with maxval at / just below 2, just above 1, and random in (1,2]; x sweeping the
   floats just below maxval and around the vertex 1/(2a) of x + a*x*x.  level scales the sweep. */
static void run_boost(int level)
{
   long n = 0, bad = 0; double worst = 0; uint32_t mu, xu; uint64_t s = 12345; long k; int pass;
   uint32_t nm = level ? 3000 : 400, nx = level ? 30000 : 4000; long nr = level ? 300000 : 30000;
   for (pass = 0; pass < 3; pass++) {
      long cnt = pass < 2 ? (long)nm : nr;
      for (k = 0; k < cnt; k++) {
         uint32_t lo, hi; float m, a, v;
         if (pass == 0) mu = 0x40000000u - (uint32_t)k; else if (pass == 1) mu = 0x3f800001u + (uint32_t)k;
         else { s = s * 6364136223846793005ULL + 1442695040888963407ULL; mu = 0x3f800001u + (uint32_t)((s >> 33) % 0x7fffffu); if (mu > 0x40000000u) mu = 0x40000000u; }
         m = u2f(mu); hi = mu; lo = mu - (pass < 2 ? nx : 300);
         for (xu = hi; xu > lo; xu--) {
            int sg; for (sg = 0; sg < 2; sg++) {
               float b[2], mem[1] = {0}; int i;
               b[0] = sg ? -u2f(xu) : u2f(xu); b[1] = sg ? -m : m;
               { float in0 = b[0], in1 = b[1];
                 opus_pcm_soft_clip(b, 2, 1, mem); n++;
                 for (i = 0; i < 2; i++) { if (fabs(b[i]) > worst) worst = fabs(b[i]);
                    if (!(fabsf(b[i]) <= 1.f)) { float xin[2]; float m0 = 0; char obs[160]; xin[0] = in0; xin[1] = in1; bad++;
                       snprintf(obs, sizeof obs, "out[%d]=%.9g (bits %08x) for x=%.9g maxval=%.9g", i, b[i], f2u(b[i]), in0, in1);
                       witness("softclip-bounded", 2, 1, &m0, xin, "every output sample in [-1, 1]", obs, "the soft clipper must map any finite input to samples in [-1, 1] (boost margin)"); } } }
            } }
         if (pass == 2) { a = (m - 1) / (m * m); v = 1.f / (2 * a);
            if (v < m) { uint32_t vu = f2u(v); for (xu = vu + 150; xu > vu - 150; xu--) if (u2f(xu) <= m) {
               float b[2], mem[1] = {0}, in0 = u2f(xu); b[0] = in0; b[1] = m; opus_pcm_soft_clip(b, 2, 1, mem); n++;
               if (!(fabsf(b[0]) <= 1.f) || !(fabsf(b[1]) <= 1.f)) { float xin[2]; float m0 = 0; char obs[160]; xin[0] = in0; xin[1] = m; bad++;
                  snprintf(obs, sizeof obs, "out=%.9g,%.9g for x=%.9g maxval=%.9g", b[0], b[1], in0, m);
                  witness("softclip-bounded", 2, 1, &m0, xin, "every output sample in [-1, 1]", obs, "the soft clipper must map any finite input to samples in [-1, 1] (boost margin)"); } } } }
      }
   }
   printf("STAT cases=%ld above_one=%ld worst_abs_out=%.9g witnesses=%ld\n", n, bad, worst, n_wit);
}

int main(int argc, char **argv)
{
   vinstall_traps();
   if (argc >= 3 && !strcmp(argv[1], "boost")) { run_boost(atoi(argv[2])); return 0; }
   if (argc >= 2 && !strcmp(argv[1], "stdin")) { run_stdin(); return 0; }
   if (argc >= 5 && !strcmp(argv[1], "gainsearch")) gain_tol = atof(argv[4]);
   if (argc >= 2 && !strcmp(argv[1], "gaincorpus")) { corpus_mode = 1; if (argc >= 3) gain_tol = atof(argv[2]); run_gainsearch(0xC0FFEEULL, 12); return 0; }
   if (argc >= 4 && !strcmp(argv[1], "rand")) run_rand(strtoull(argv[2], 0, 10), atol(argv[3]));
   else if (argc >= 2 && !strcmp(argv[1], "edge")) run_edge();
   else if (argc >= 3 && !strcmp(argv[1], "gain")) run_gain(atoi(argv[2]));
   else if (argc >= 4 && !strcmp(argv[1], "search")) run_search(strtoull(argv[2], 0, 10), atol(argv[3]));
   else if (argc >= 4 && !strcmp(argv[1], "gainsearch")) run_gainsearch(strtoull(argv[2], 0, 10), atol(argv[3]));
   else { fprintf(stderr, "usage: c19_softclip rand <seed> <n> | edge | gain <level> | search <seed> <n> | gainsearch <seed> <n> [tol] | gaincorpus [tol] | stdin\n"); return 64; }
   return 0;
}
