/* c15_pvq.c — correspondence harness for the integer bookkeeping model of the PVQ pulse search (OpusModel/KernelsPvq.lean,
   property C15).  The model takes the floating-point parts of op_pvq_search_c (celt/vq.c) and op_pvq_search_sse2
   (celt/x86/vq_sse2.c) as oracles; this harness RECORDS what those parts returned in the compiled kernels and hands the
   recording to the model, which must then reproduce the kernel's iy[] and yy exactly.

   The TU #includes both files from /repo's working tree with three hooks at points that occur exactly once per function:
     * `celt_sig_assert(pulsesLeft>=0)` (vq.c:237, vq_sse2.c:138) — directly after the pre-search; the hook reads the locals
       `iy`, `N`, `pulsesLeft` in scope: the pre-search counts `proj`;
     * `opus_unlikely(...)` (vq.c:299) — the only comparison of the C arg-max; the hook reads the loop counters `i`, `j`
       and the outcome: the position chosen in greedy iteration i is the last j with a true comparison (0 if none);
     * `_mm_cvtsi128_si32` (vq_sse2.c:128,190) — after the pre-search every call returns `best_id`.
   I kernels pvq <c|sse2> <N> <K> <proj> <picks> <signs>        O iy=<list> yy=<int>
      run <seed> <n>      unit-norm bands N 2..176, K 1..64, six input styles (dense, sparse, near ties, one dominant,
                          decaying, silence); both kernels on every case */
#include "vcommon.h"
#include <math.h>
#include <xmmintrin.h>
#include <emmintrin.h>
#include "arch.h"
/* every header the two files include, BEFORE the hooks are installed (inline functions in headers use the same macros) */
#include "mathops.h"
#include "cwrs.h"
#include "vq.h"
#include "os_support.h"
#include "bands.h"
#include "rate.h"
#include "pitch.h"
#include "celt_lpc.h"
#include "stack_alloc.h"
#include "celt/x86/x86cpu.h"

#define MAXN 200
static int g_phase = 0;                 /* 0 = before / inside the pre-search, 1 = greedy loop */
static int g_proj[MAXN], g_nproj, g_left;
static int g_picks[4096], g_npicks;
static int g_cur_i = -1, g_cur_best = 0;

static void verif_after_proj(const int *iy, int N, int pulsesLeft)
{
   int k; g_nproj = N; for (k = 0; k < N && k < MAXN; k++) g_proj[k] = iy[k];
   g_left = pulsesLeft; g_phase = 1; g_npicks = 0; g_cur_i = -1;
}
static void flush_c_pick(void) { if (g_cur_i >= 0 && g_npicks < 4096) g_picks[g_npicks++] = g_cur_best; }
static int verif_cond(int i, int j, int c)
{
   if (i != g_cur_i) { flush_c_pick(); g_cur_i = i; g_cur_best = 0; }
   if (c) g_cur_best = j;
   return c;
}
static int verif_cvt(int v) { if (g_phase == 1 && g_npicks < 4096) g_picks[g_npicks++] = v; return v; }

#undef celt_sig_assert
#define celt_sig_assert(cond) verif_after_proj(iy, N, pulsesLeft)
#undef opus_unlikely
#define opus_unlikely(x) verif_cond(i, j, !!(x))
#include "celt/vq.c"
#define _mm_cvtsi128_si32(v) verif_cvt(_mm_cvtsi128_si32(v))
#include "celt/x86/vq_sse2.c"
#undef _mm_cvtsi128_si32

static long g_cases = 0;
static void pl(const int *p, int n) { int i; if (!n) printf("-"); for (i = 0; i < n; i++) printf("%s%d", i ? "," : "", p[i]); }

static void one(vrng *r)
{
   int N = vchance(r, 70) ? vrange(r, 2, 32) : vrange(r, 33, 176);
   int K = vchance(r, 70) ? vrange(r, 1, 12) : vrange(r, 13, 64);
   float X0[MAXN + 4], X[MAXN + 4]; int iy[MAXN + 4], signs[MAXN], style = vbelow(r, 6), i, v; double nrm = 0; float yy;
   if (vchance(r, 5)) K = vrange(r, N + 4, N + 40) > 128 ? 128 : vrange(r, N + 4, N + 40);   /* K far above N */
   for (i = 0; i < N; i++) {
      double x;
      if (style == 0) x = (double)vrange(r, -1000, 1000);
      else if (style == 1) x = vchance(r, 20) ? (double)vrange(r, -1000, 1000) : 0.0;
      else if (style == 2) x = (vchance(r, 50) ? 1.0 : -1.0) * (1000.0 + vrange(r, -2, 2));
      else if (style == 3) x = (i == 0 ? 1000.0 : (double)vrange(r, -30, 30));
      else x = 1000.0 * exp(-0.2 * i) * (vchance(r, 50) ? 1 : -1) + vrange(r, -5, 5);
      X0[i] = (float)x; nrm += x * x;
   }
   if (nrm == 0) { X0[0] = 1.f; nrm = 1; }
   if (style == 5 && vchance(r, 30)) { for (i = 0; i < N; i++) X0[i] = 0.f; nrm = 1; }      /* silence: the "too many pulses left" branch */
   for (i = 0; i < N; i++) { X0[i] = (float)(X0[i] / sqrt(nrm)); signs[i] = X0[i] < 0; }
   for (v = 0; v < 2; v++) {
      memcpy(X, X0, N * sizeof(float));
      for (i = 0; i < N + 4; i++) iy[i] = 0;
      g_phase = 0; g_npicks = 0; g_cur_i = -1; g_nproj = 0;
      if (v == 0) { yy = op_pvq_search_c(X, iy, K, N, 0); flush_c_pick(); }
      else yy = op_pvq_search_sse2(X, iy, K, N, 0);
      g_phase = 0;
      printf("I kernels pvq %s %d %d ", v ? "sse2" : "c", N, K); pl(g_proj, g_nproj); printf(" "); pl(g_picks, g_npicks); printf(" "); pl(signs, N); printf("\n");
      printf("O iy="); pl(iy, N);
      if (yy == (float)(long)yy) printf(" yy=%ld\n", (long)yy); else printf(" yy=%.9g\n", yy);
      g_cases++;
   }
}

int main(int argc, char **argv)
{
   vinstall_traps();
   if (argc >= 4 && !strcmp(argv[1], "run")) {
      vrng r; long i, n = atol(argv[3]);
      r.s = strtoull(argv[2], 0, 10) ^ 0x9F9C15ULL; r.s = vnext(&r) + 81;
      for (i = 0; i < n; i++) one(&r);
      printf("# pvq cases=%ld\n", g_cases);
   } else { fprintf(stderr, "usage: c15_pvq run <seed> <n>\n"); return 64; }
   fflush(stdout);
   return 0;
}
