/* c01_decskel.c — correspondence + witness-search harness for the decoder control skeleton
   (C01, and the PLC/FEC part of C09).

   The translation unit #includes src/opus_decoder.c and src/opus_multistream_decoder.c with
   the DSP entry points renamed to recording wrappers, so that every inner call (arguments,
   buffers, results) made by the real control code is observed, the OpusDecoder struct is
   visible, and stack buffers are identified through a redefined ALLOC.  Everything else comes
   from libopus.a (the archive members opus_decoder.o / opus_multistream_decoder.o are never
   pulled in because this TU defines all of their symbols).

   Per decode call one line pair is emitted
     I decskel dec <fmt> <pre-state> <packet|N> <len> <frame_size> <fec> <oracle answers>
     O <ret> st=<post-state> po=<packet_offset|-> ev=<inner call sequence>
   (see lean/Driver/SuiteDecSkel.lean for the grammar).  Because the oracle answers are only
   known after the call, a line `P …` with the arguments is printed (and flushed) before the
   call; if the call dies (sanitizer report, celt_assert → abort, watchdog) the handler prints
   the I line with the answers so far and `O SANITIZER|ABORT|TIMEOUT`.
   The same run evaluates the C01/C09 predicates on the implementation (no model involved);
   a failure prints `W <kind> | <replayable description>`.

   Modes:  rand <seed> <sessions> [quiet]     random call histories, single-stream decoder
           ms <seed> <sessions> [quiet]       multistream + projection decoders
           (C09: harness/c09_loss.c #includes this file with C01_NO_MAIN and adds the loss-pattern modes)  */
#ifdef HAVE_CONFIG_H
#include "config.h"
#endif
#include <stdarg.h>
#include <math.h>
#include "celt.h"
#include "opus.h"
#include "entdec.h"
#include "modes.h"
#include "API.h"
#include "stack_alloc.h"
#include "float_cast.h"
#include "opus_private.h"
#include "os_support.h"
#include "structs.h"
#include "define.h"
#include "mathops.h"
#include "cpu_support.h"
#include "opus_multistream.h"
#include "opus_projection.h"
#include "main.h"
#include "PLC.h"
#include "vcommon.h"
#include "entenc.h"
#include "laplace.h"
/* the coarse-energy probability model is `static` in quant_bands.c: include the file (this TU then provides all of
   quant_bands.o's symbols, compiled from the same source, so the archive member is not pulled in) */
#include "celt/quant_bands.c"

/* ------------------------------------------------------------------ recorder */
#define VMAXEV (1 << 20)
typedef struct { char kind; const void *p; long n; } valloc_t;
static struct {
   int on;                       /* recording inner calls of a single-stream decode */
   int ms_on;                    /* recording per-stream native calls of a multistream decode */
   int trace_plc;                /* emit `decskel plcgain` pairs from inside silk_Decode */
   const unsigned char *pkt; long pktlen;
   const void *user; long usercap;            /* caller's float buffer (fmt f / native) */
   char ev[VMAXEV]; long evn;
   char orc[VMAXEV]; long orn;
   char contract[512];
   valloc_t al[64]; int nal;
   int Fs, ch;
   long buf_cap;                 /* ms: size of `buf` */
   int lbrr_seen;                /* LBRR flag silk_Decode decoded from the first frame (-1 none) */
   char pending[VMAXEV];
   int quiet;
   long n_calls, n_w;
} G;

static void vapp(char *b, long *n, const char *fmt, ...)
{
   va_list ap; long room = VMAXEV - 64 - *n; int k;
   if (room <= 0) return;
   va_start(ap, fmt); k = vsnprintf(b + *n, (size_t)room, fmt, ap); va_end(ap);
   if (k > 0) *n += (k < room ? k : room - 1);
}
#define EV(...) vapp(G.ev, &G.evn, __VA_ARGS__)
#define ORC(...) vapp(G.orc, &G.orn, __VA_ARGS__)
static void vcontract(const char *fmt, ...)
{
   va_list ap; if (G.contract[0]) return;
   va_start(ap, fmt); vsnprintf(G.contract, sizeof G.contract, fmt, ap); va_end(ap);
}

static void verif_alloc(const char *name, const void *p, long n)
{
   char kind; int i, j;
   if (!G.on && !G.ms_on) return;
   if (!strcmp(name, "out")) kind = 'P';
   else if (!strcmp(name, "pcm_silk")) kind = 'S';
   else if (!strncmp(name, "pcm_transition", 14)) kind = 'T';
   else if (!strcmp(name, "redundant_audio")) kind = 'D';
   else if (!strcmp(name, "buf")) { kind = 'B'; G.buf_cap = n; }
   else kind = '?';
   /* drop stale entries that overlap the new block (stack reuse) */
   for (i = j = 0; i < G.nal; i++) {
      const char *a = (const char *)G.al[i].p, *b = a + G.al[i].n * (long)sizeof(opus_res);
      const char *c = (const char *)p, *d = c + n * (long)sizeof(opus_res);
      if (!(b <= c || d <= a)) continue;
      G.al[j++] = G.al[i];
   }
   G.nal = j;
   if (G.nal == 64) { memmove(G.al, G.al + 1, 63 * sizeof(valloc_t)); G.nal = 63; }
   G.al[G.nal].kind = kind; G.al[G.nal].p = p; G.al[G.nal].n = n; G.nal++;
}

/* pointer -> "<buf><off>/<cap>" */
static void vptr(char *o, const opus_res *p)
{
   int i;
   if (G.user && p >= (const opus_res *)G.user && p <= (const opus_res *)G.user + G.usercap) {
      sprintf(o, "P%ld/%ld", (long)(p - (const opus_res *)G.user), G.usercap); return;
   }
   for (i = G.nal - 1; i >= 0; i--) {
      const opus_res *a = (const opus_res *)G.al[i].p;
      if (p >= a && p <= a + G.al[i].n) { sprintf(o, "%c%ld/%ld", G.al[i].kind, (long)(p - a), G.al[i].n); return; }
   }
   strcpy(o, "?0/0");
}
static long vptr_room(const opus_res *p)   /* samples from p to the end of its buffer, -1 unknown */
{
   int i;
   if (G.user && p >= (const opus_res *)G.user && p <= (const opus_res *)G.user + G.usercap)
      return G.usercap - (long)(p - (const opus_res *)G.user);
   for (i = G.nal - 1; i >= 0; i--) {
      const opus_res *a = (const opus_res *)G.al[i].p;
      if (p >= a && p <= a + G.al[i].n) return G.al[i].n - (long)(p - a);
   }
   return -1;
}

#undef ALLOC
#define ALLOC(var, size, type) type var[size]; verif_alloc(#var, var, (long)(size))

/* ------------------------------------------------------------------ gain pass and cross-fades (inline loops)
   opus_decode_frame applies the decoder gain and the cross-fades with inline loops; they are observed through the
   arithmetic macros those loops use.  In the float build celt_exp2 and MULT16_32_P16 occur in opus_decoder.c only in
   the gain block (one celt_exp2 per pass, one multiply per sample, on pcm[i]) and MULT16_16_Q15 only in smooth_fade
   (one per output sample).  The original macro bodies are kept in the verif_orig_* functions, so the arithmetic is
   the tree's own.  A pass is reported lazily, when the next recorded event (or the end of the call) arrives:
   `G<count>@<first sample>` for a gain pass, `F<count>` for a cross-fade. */
static struct { int kind; const opus_res *p0; long n; int contiguous; } GP;
static void vflush(void)
{
   if (GP.kind == 'G') {
      char pb[64]; vptr(pb, GP.p0);
      EV("%sG%ld@%s", G.evn ? ";" : "", GP.n, pb);
      if (!GP.contiguous) vcontract("gain pass over %ld samples at %s is not one contiguous sweep", GP.n, pb);
      else { long room = vptr_room(GP.p0); if (GP.n > 0 && room >= 0 && room < GP.n) vcontract("gain pass over %ld samples at %s", GP.n, pb); }
   } else if (GP.kind == 'F') EV("%sF%ld", G.evn ? ";" : "", GP.n);
   GP.kind = 0; GP.n = 0; GP.p0 = NULL; GP.contiguous = 1;
}
static int vgain_begin(void) { if (G.on) { vflush(); GP.kind = 'G'; } return 0; }
static int vgain_touch(const opus_res *p)
{
   if (!G.on) return 0;
   if (GP.kind != 'G') { vflush(); GP.kind = 'G'; }           /* a gain multiply without the celt_exp2 before it */
   if (GP.n == 0) GP.p0 = p; else if (p != GP.p0 + GP.n) GP.contiguous = 0;
   GP.n++;
   return 0;
}
static int vfade_touch(void)
{
   if (!G.on) return 0;
   if (GP.kind != 'F') { vflush(); GP.kind = 'F'; }
   GP.n++;
   return 0;
}
#ifndef FIXED_POINT
static OPUS_INLINE opus_val32 verif_orig_exp2(opus_val32 x) { return celt_exp2(x); }
static OPUS_INLINE opus_val32 verif_orig_mul_p16(opus_val32 a, opus_val32 b) { return MULT16_32_P16(a, b); }
static OPUS_INLINE opus_val16 verif_orig_mul_q15(opus_val16 a, opus_val16 b) { return MULT16_16_Q15(a, b); }
#endif

/* ------------------------------------------------------------------ wrappers (oracles) */
static void plc_trace_pre(void *decState, silk_DecControlStruct *dc);
static void plc_trace_post(void *decState, silk_DecControlStruct *dc);

static opus_int verif_wrap_silk_Decode(void *decState, silk_DecControlStruct *dc, opus_int lostFlag,
      opus_int newPacketFlag, ec_dec *rd, opus_res *samplesOut, opus_int32 *nSamplesOut, int arch)
{
   opus_int ret; int tell; char pb[64];
   int ps = dc->payloadSize_ms, isr = dc->internalSampleRate, nci = dc->nChannelsInternal,
       nca = dc->nChannelsAPI, api = dc->API_sampleRate;
   int valid = (ps == 10 || ps == 20 || ps == 40 || ps == 60) && (isr == 8000 || isr == 12000 || isr == 16000)
            && (nci == 1 || nci == 2) && (nca == 1 || nca == 2) && nca == G.ch && api == G.Fs
            && (lostFlag >= 0 && lostFlag <= 2);
   long room = vptr_room(samplesOut);
   if (!G.on) return silk_Decode(decState, dc, lostFlag, newPacketFlag, rd, samplesOut, nSamplesOut, arch);
   vflush();
   vptr(pb, samplesOut);
   if (valid && room >= 0 && room < (long)((ps == 10 ? 10 : 20) * (api / 1000)) * nca)
      vcontract("silk_Decode would write %ld samples at %s", (long)((ps == 10 ? 10 : 20) * (api / 1000)) * nca, pb);
   if (G.trace_plc && lostFlag == 1 && valid) plc_trace_pre(decState, dc);
   *nSamplesOut = 0;
   ret = silk_Decode(decState, dc, lostFlag, newPacketFlag, rd, samplesOut, nSamplesOut, arch);
   if (G.trace_plc && lostFlag == 1 && valid) plc_trace_post(decState, dc);
   tell = lostFlag == 1 ? 0 : ec_tell(rd);
   if (lostFlag != 1 && newPacketFlag && G.lbrr_seen < 0) {   /* first frame of the packet only: that is what opus_packet_has_lbrr inspects */
      silk_decoder_state *cs = (silk_decoder_state *)decState;   /* channel_state[] is the first member of silk_decoder (dec_API.c:44) */
      G.lbrr_seen = cs[0].LBRR_flag || (nci == 2 && cs[1].LBRR_flag);
   }
   ORC("%ss:%d:%d:%d", G.orn ? ";" : "", (int)ret, (int)*nSamplesOut, tell);
   EV("%sS%d,%d,%d,%d,%d,%d,%d@%s=%d,%d", G.evn ? ";" : "", ps, isr, nci, nca, api, (int)lostFlag, (int)newPacketFlag, pb,
      (int)ret, (int)*nSamplesOut);
   if (valid) {
      if (ret != 0) vcontract("silk_Decode returned %d for valid arguments", (int)ret);
      else if (*nSamplesOut != (ps == 10 ? 10 : 20) * (api / 1000)) vcontract("silk_Decode nSamplesOut=%d", (int)*nSamplesOut);
      if (lostFlag != 1 && tell < 1) vcontract("ec_tell=%d after silk_Decode", tell);
   }
   return ret;
}

static int celt_common(int which, CELTDecoder *st, const unsigned char *data, int len, opus_res *pcm,
      int frame_size, ec_dec *dec, int accum)
{
   int ret; char pb[64], db[32];
   int legal;
   if (!G.on) return which ? celt_decode_with_ec_dred(st, data, len, pcm, frame_size, dec, accum)
                           : celt_decode_with_ec(st, data, len, pcm, frame_size, dec, accum);
   vflush();
   vptr(pb, pcm);
   if (data == NULL) strcpy(db, "n");
   else if (G.pkt && data >= G.pkt && data <= G.pkt + G.pktlen) {
      sprintf(db, "%ld", (long)(data - G.pkt));
      if (len > 0 && (data - G.pkt) + len > G.pktlen) vcontract("celt_decode given %d bytes at packet offset %ld of %ld", len, (long)(data - G.pkt), G.pktlen);
   } else strcpy(db, "z");
   legal = G.Fs > 0 && frame_size > 0 && (frame_size * (48000 / G.Fs) == 120 || frame_size * (48000 / G.Fs) == 240
        || frame_size * (48000 / G.Fs) == 480 || frame_size * (48000 / G.Fs) == 960) && len >= 0 && len <= 1275 && pcm != NULL;
   if (legal) { long room = vptr_room(pcm); if (room >= 0 && room < (long)frame_size * G.ch) vcontract("celt_decode would write %ld samples at %s", (long)frame_size * G.ch, pb); }
   ret = which ? celt_decode_with_ec_dred(st, data, len, pcm, frame_size, dec, accum)
               : celt_decode_with_ec(st, data, len, pcm, frame_size, dec, accum);
   ORC("%sc:%d", G.orn ? ";" : "", ret);
   EV("%sC%s,%d,%d,%d,%d@%s=%d", G.evn ? ";" : "", db, len, frame_size, dec != NULL, accum, pb, ret);
   if (legal && ret != frame_size) vcontract("celt_decode returned %d for frame_size %d len %d", ret, frame_size, len);
   return ret;
}
static int verif_wrap_celt_dred(CELTDecoder *st, const unsigned char *data, int len, opus_res *pcm, int frame_size, ec_dec *dec, int accum)
{ return celt_common(1, st, data, len, pcm, frame_size, dec, accum); }
static int verif_wrap_celt(CELTDecoder *st, const unsigned char *data, int len, opus_res *pcm, int frame_size, ec_dec *dec, int accum)
{ return celt_common(0, st, data, len, pcm, frame_size, dec, accum); }

static int verif_wrap_bit_logp(ec_dec *d, unsigned logp)
{
   int t0, t1, v;
   if (!G.on) return ec_dec_bit_logp(d, logp);
   t0 = ec_tell(d); v = ec_dec_bit_logp(d, logp); t1 = ec_tell(d);
   ORC("%sb:%d:%d", G.orn ? ";" : "", v, t1);
   if ((v != 0 && v != 1) || t1 < t0 || t1 > t0 + (int)logp) vcontract("ec_dec_bit_logp(%u): bit %d tell %d->%d", logp, v, t0, t1);
   return v;
}
static opus_uint32 verif_wrap_uint(ec_dec *d, opus_uint32 ft)
{
   int t0, t1; opus_uint32 v;
   if (!G.on) return ec_dec_uint(d, ft);
   t0 = ec_tell(d); v = ec_dec_uint(d, ft); t1 = ec_tell(d);
   ORC("%su:%u:%d", G.orn ? ";" : "", (unsigned)v, t1);
   if (v >= ft || t1 < t0) vcontract("ec_dec_uint(%u): %u tell %d->%d", (unsigned)ft, (unsigned)v, t0, t1);
   return v;
}
static void verif_wrap_dec_init(ec_dec *d, unsigned char *buf, opus_uint32 storage)
{
   if (G.on) {
      long off = G.pkt ? (long)(buf - G.pkt) : -1;
      vflush();
      EV("%sI%ld,%u", G.evn ? ";" : "", off, (unsigned)storage);
      if (!G.pkt || off < 0 || off + (long)storage > G.pktlen) vcontract("ec_dec_init on bytes [%ld,%ld) of a %ld-byte packet", off, off + (long)storage, G.pktlen);
   }
   ec_dec_init(d, buf, storage);
}
static opus_int verif_wrap_silk_Reset(void *decState)
{
   if (G.on) { vflush(); EV("%sR", G.evn ? ";" : ""); }
   return silk_ResetDecoder(decState);
}
static void verif_wrap_soft_clip(float *x, int N, int C, float *mem)
{
   if (G.on) { char pb[64]; vflush(); vptr(pb, x); EV("%sK%d,%d@%s", G.evn ? ";" : "", N, C, pb); }
   opus_pcm_soft_clip(x, N, C, mem);
}

#define silk_Decode verif_wrap_silk_Decode
#define celt_decode_with_ec_dred verif_wrap_celt_dred
#define celt_decode_with_ec verif_wrap_celt
#define ec_dec_bit_logp verif_wrap_bit_logp
#define ec_dec_uint verif_wrap_uint
#define ec_dec_init verif_wrap_dec_init
#define silk_ResetDecoder verif_wrap_silk_Reset
#define opus_pcm_soft_clip verif_wrap_soft_clip
#ifndef FIXED_POINT
#undef celt_exp2
#define celt_exp2(x) (vgain_begin(), verif_orig_exp2(x))
#undef MULT16_32_P16
#define MULT16_32_P16(a,b) (vgain_touch(&(a)), verif_orig_mul_p16(a, b))
#undef MULT16_16_Q15
#define MULT16_16_Q15(a,b) (vfade_touch(), verif_orig_mul_q15(a, b))
#endif
#include "src/opus_decoder.c"
#ifndef FIXED_POINT
#undef celt_exp2
#define celt_exp2(x) verif_orig_exp2(x)
#undef MULT16_32_P16
#define MULT16_32_P16(a,b) verif_orig_mul_p16(a, b)
#undef MULT16_16_Q15
#define MULT16_16_Q15(a,b) verif_orig_mul_q15(a, b)
#endif
#undef silk_Decode
#undef celt_decode_with_ec_dred
#undef celt_decode_with_ec
#undef ec_dec_bit_logp
#undef ec_dec_uint
#undef ec_dec_init
#undef silk_ResetDecoder
#undef opus_pcm_soft_clip

/* ---- per-stream calls of the multistream decoder */
static char g_msin[VMAXEV]; static long g_msin_n;      /* native answers ret:po;… */
static char g_mscalls[VMAXEV]; static long g_mscalls_n;
static int verif_wrap_native(OpusDecoder *st, const unsigned char *data, opus_int32 len, opus_res *pcm, int frame_size,
      int decode_fec, int self_delimited, opus_int32 *packet_offset, int soft_clip, const OpusDRED *dred, opus_int32 dred_offset)
{
   int ret; static int sidx;
   if (!G.ms_on) return opus_decode_native(st, data, len, pcm, frame_size, decode_fec, self_delimited, packet_offset, soft_clip, dred, dred_offset);
   if (g_mscalls_n == 0) sidx = 0;
   {
      long room = vptr_room(pcm);
      if (room >= 0 && room < (long)frame_size * st->channels) vcontract("stream %d decodes %d x %d samples into %ld", sidx, frame_size, st->channels, room);
   }
   ret = opus_decode_native(st, data, len, pcm, frame_size, decode_fec, self_delimited, packet_offset, soft_clip, dred, dred_offset);
   vapp(g_mscalls, &g_mscalls_n, "%s%d,%d,%d,%d", g_mscalls_n ? ";" : "", sidx, (int)len, frame_size, self_delimited);
   vapp(g_msin, &g_msin_n, "%s%d:%d", g_msin_n ? ";" : "", ret, packet_offset ? (int)*packet_offset : 0);
   sidx++;
   return ret;
}
#define opus_decode_native verif_wrap_native
#include "src/opus_multistream_decoder.c"
#undef opus_decode_native

/* ------------------------------------------------------------------ SILK PLC gain trace (C09) */
typedef struct { int lossCnt, voiced, nb_subfr, B[5], rs, plt, inv, fs_kHz, order; } plcsnap;
static plcsnap g_snap[2]; static int g_snap_n;
static void plc_trace_pre(void *decState, silk_DecControlStruct *dc)
{
   silk_decoder_state *cs = (silk_decoder_state *)decState; int n, i;
   g_snap_n = 0;
   for (n = 0; n < dc->nChannelsInternal && n < 2; n++) {
      silk_decoder_state *s = &cs[n]; plcsnap *q = &g_snap[n];
      opus_int16 lpc[MAX_LPC_ORDER];
      int fs_kHz_dec = (dc->internalSampleRate >> 10) + 1;
      /* silk_Decode reconfigures a channel (and resets its loss counter) when the rate changes,
         and the second channel is concealed only when it has side information: trace only
         channels whose configuration is stable. */
      q->fs_kHz = s->fs_kHz;
      if (s->fs_kHz != fs_kHz_dec || s->sPLC.fs_kHz != s->fs_kHz || s->LPC_order < 10) { q->fs_kHz = -1; g_snap_n = n + 1; continue; }
      q->lossCnt = s->lossCnt; q->voiced = s->prevSignalType == TYPE_VOICED;
      q->nb_subfr = dc->payloadSize_ms == 10 ? 2 : 4;
      for (i = 0; i < 5; i++) q->B[i] = s->sPLC.LTPCoef_Q14[i];
      q->rs = s->sPLC.randScale_Q14; q->plt = s->sPLC.prevLTP_scale_Q14; q->order = s->LPC_order;
      memcpy(lpc, s->sPLC.prevLPC_Q12, sizeof lpc);
      if (s->first_frame_after_reset) memset(lpc, 0, sizeof lpc);
      silk_bwexpander(lpc, s->LPC_order, SILK_FIX_CONST(BWE_COEF, 16));
      q->inv = silk_LPC_inverse_pred_gain(lpc, s->LPC_order, 0);
      g_snap_n = n + 1;
   }
}
static void plc_trace_post(void *decState, silk_DecControlStruct *dc)
{
   silk_decoder_state *cs = (silk_decoder_state *)decState; int n;
   for (n = 0; n < g_snap_n; n++) {
      silk_decoder_state *s = &cs[n]; plcsnap *q = &g_snap[n];
      if (q->fs_kHz < 0 || s->lossCnt != q->lossCnt + 1) continue;     /* channel was not concealed by this call */
      if (G.quiet) continue;
      printf("I decskel plcgain %d %d %d %d,%d,%d,%d,%d %d %d %d\n", q->lossCnt, q->voiced, q->nb_subfr,
             q->B[0], q->B[1], q->B[2], q->B[3], q->B[4], q->rs, q->plt, q->inv);
      printf("O g=%d,%d,%d,%d,%d %d\n", s->sPLC.LTPCoef_Q14[0], s->sPLC.LTPCoef_Q14[1], s->sPLC.LTPCoef_Q14[2],
             s->sPLC.LTPCoef_Q14[3], s->sPLC.LTPCoef_Q14[4], s->sPLC.randScale_Q14);
   }
   (void)dc;
}

/* ------------------------------------------------------------------ line output */
static void st_str(char *o, const OpusDecoder *st)
{
   sprintf(o, "%d,%d,%d,%d,%d,%d,%d,%d,%d,%d,%d,%d,%d,%d,%d", (int)st->Fs, st->channels, (int)st->DecControl.API_sampleRate,
           (int)st->DecControl.nChannelsAPI, (int)st->DecControl.nChannelsInternal, (int)st->DecControl.internalSampleRate,
           (int)st->DecControl.payloadSize_ms, st->decode_gain, st->stream_channels, st->bandwidth, st->mode, st->prev_mode,
           st->frame_size, st->prev_redundancy, st->last_packet_duration);
}
static const char *ret_str(int r) { static char b[24]; if (r < 0) return verr(r); sprintf(b, "n=%d", r); return b; }

static void die_with(const char *what)
{
   if (G.pending[0]) {
      fputs("\nI ", stdout); fputs(G.pending, stdout);
      if (G.on) { fputs(" ", stdout); fputs(G.orn ? G.orc : "-", stdout); }
      else if (G.ms_on) { fputs(" ", stdout); fputs(g_msin_n ? g_msin : "-", stdout); }
   }
   printf("\nO %s\n", what); fflush(stdout);
}
static void my_abort(int sig) { (void)sig; die_with("ABORT"); _exit(3); }
static void my_alarm(int sig) { (void)sig; die_with("TIMEOUT"); _exit(5); }
#if defined(__SANITIZE_ADDRESS__)
static void my_death(void) { die_with("SANITIZER"); }
#endif
static void my_segv(int sig) { (void)sig; die_with("SIGSEGV"); _exit(4); }
static void install(void)
{
   vinstall_traps();
#if defined(__SANITIZE_ADDRESS__)
   __sanitizer_set_death_callback(my_death);
#else
   signal(SIGSEGV, my_segv);
#endif
   signal(SIGABRT, my_abort);
   signal(SIGALRM, my_alarm);
}

static void witness(const char *kind, const char *fmt, ...)
{
   va_list ap; G.n_w++;
   printf("W %s | ", kind);
   va_start(ap, fmt); vprintf(fmt, ap); va_end(ap);
   printf(" | %s\n", G.pending);
}

/* ------------------------------------------------------------------ guarded PCM buffers */
#define GUARD 256
typedef struct { unsigned char *base; void *pcm; size_t bytes; } gbuf;
static gbuf galloc(size_t bytes)
{
   gbuf g; g.bytes = bytes;
#if defined(__SANITIZE_ADDRESS__)
   g.base = (unsigned char *)malloc(bytes ? bytes : 1); g.pcm = g.base;
#else
   g.base = (unsigned char *)malloc(bytes + 2 * GUARD);
   memset(g.base, 0xA5, GUARD); memset(g.base + GUARD + bytes, 0xA5, GUARD); g.pcm = g.base + GUARD;
#endif
   memset(g.pcm, 0x7F, bytes);      /* 0x7f7f7f7f = a large finite float, never NaN */
   return g;
}
static int gcheck(gbuf *g)
{
#if !defined(__SANITIZE_ADDRESS__)
   size_t i;
   for (i = 0; i < GUARD; i++) if (g->base[i] != 0xA5 || g->base[GUARD + g->bytes + i] != 0xA5) return 0;
#endif
   (void)g; return 1;
}
static void gfree(gbuf *g) { free(g->base); }

/* ------------------------------------------------------------------ one decode call */
enum { FMT16, FMT24, FMTF, FMTN0, FMTN1 };
static const char *fmt_name[] = {"16", "24", "f", "n0", "n1"};

typedef struct { int ret; int lpd; int finite; float peak; } callres;

/* decodes; `keep` (optional, float) receives ret*ch samples converted to float in [-1,1] scale */
static callres do_call(OpusDecoder *st, int fmt, const unsigned char *pkt, long n, int isnull, long len, int frame_size, int fec,
      float *keep)
{
   char pre[256], post[256]; callres cr; gbuf g; unsigned char *p = NULL; opus_int32 po = 0; int ret;
   long nsamp = frame_size > 0 ? (long)frame_size * st->channels : 0;
   size_t esz = fmt == FMT16 ? 2 : 4;
   long i;
   int Fs = st->Fs, ch = st->channels;
   G.n_calls++;
   st_str(pre, st);
   if (!isnull) p = vexact(pkt, n);
   g = galloc((size_t)nsamp * esz);
   {
      long k = 0; k += sprintf(G.pending + k, "decskel dec %s %s ", fmt_name[fmt], pre);
      if (isnull) k += sprintf(G.pending + k, "N"); else {
         static const char d[] = "0123456789abcdef"; long j; G.pending[k++] = 'x';
         for (j = 0; j < n; j++) { G.pending[k++] = d[p[j] >> 4]; G.pending[k++] = d[p[j] & 15]; }
      }
      sprintf(G.pending + k, " %ld %d %d", len, frame_size, fec);
   }
   if (!G.quiet) { printf("P %s\n", G.pending); fflush(stdout); }
   G.on = 1; G.evn = G.orn = 0; G.ev[0] = G.orc[0] = 0; G.contract[0] = 0; G.nal = 0; G.lbrr_seen = -1;
   GP.kind = 0; GP.n = 0; GP.p0 = NULL; GP.contiguous = 1;
   G.pkt = p; G.pktlen = isnull ? 0 : n; G.Fs = Fs; G.ch = ch;
   if (fmt == FMTF || fmt == FMTN0 || fmt == FMTN1) { G.user = g.pcm; G.usercap = nsamp; } else { G.user = NULL; G.usercap = 0; }
   alarm(20);
   switch (fmt) {
   case FMT16: ret = opus_decode(st, p, (opus_int32)len, (opus_int16 *)g.pcm, frame_size, fec); break;
   case FMT24: ret = opus_decode24(st, p, (opus_int32)len, (opus_int32 *)g.pcm, frame_size, fec); break;
   case FMTF: ret = opus_decode_float(st, p, (opus_int32)len, (float *)g.pcm, frame_size, fec); break;
   default: ret = opus_decode_native(st, p, (opus_int32)len, (opus_res *)g.pcm, frame_size, fec, fmt == FMTN1, &po, 0, NULL, 0); break;
   }
   alarm(0);
   vflush();
   G.on = 0;
   st_str(post, st);
   if (!G.quiet) {
      printf("I %s %s\n", G.pending, G.orn ? G.orc : "-");
      if (G.contract[0]) printf("O CONTRACT %s\n", G.contract);
      else {
         printf("O %s st=%s po=", ret_str(ret), post);
         if (fmt == FMTN0 || fmt == FMTN1) printf("%d", (int)po); else printf("-");
         printf(" ev=%s\n", G.evn ? G.ev : "-");
      }
   } else if (G.contract[0]) witness("contract", "%s", G.contract);
   /* ---- C01 / C09 predicates on the implementation */
   cr.ret = ret; cr.finite = 1; cr.peak = 0;
   { opus_int32 v = -1; opus_decoder_ctl(st, OPUS_GET_LAST_PACKET_DURATION(&v)); cr.lpd = v; }
   if (ret >= 0) {
      if (ret == 0 || (frame_size > 0 && ret > frame_size) || frame_size <= 0)
         witness("retrange", "returned %d for frame_size %d", ret, frame_size);
   } else if (ret != OPUS_BAD_ARG && ret != OPUS_BUFFER_TOO_SMALL && ret != OPUS_INVALID_PACKET)
      witness("reterr", "returned %s", verr(ret));
   if (!gcheck(&g)) witness("canary", "wrote outside the caller's buffer of %ld samples", nsamp);
   if (ret > 0 && ret <= frame_size) {
      for (i = 0; i < (long)ret * ch; i++) {
         float v = fmt == FMT16 ? ((opus_int16 *)g.pcm)[i] / 32768.f : fmt == FMT24 ? ((opus_int32 *)g.pcm)[i] / 8388608.f : ((float *)g.pcm)[i];
         if (!(v == v) || v > 3.0e38f || v < -3.0e38f) { cr.finite = 0; break; }
         if (fabsf(v) > cr.peak) cr.peak = fabsf(v);
         if (keep) keep[i] = v;
      }
      if (!cr.finite) witness("nonfinite", "sample %ld of %d x %d is not finite", i, ret, ch);
   }
   /* duration clauses */
   if (!isnull && len > 0 && len == n && !fec && frame_size > 0) {
      int ns = opus_packet_get_nb_samples(p, (opus_int32)len, Fs);
      unsigned char toc; opus_int16 sz[48]; int cnt;
      cnt = (fmt == FMTN1) ? opus_packet_parse_impl(p, (opus_int32)len, 1, &toc, NULL, sz, NULL, NULL, NULL, NULL)
                           : opus_packet_parse(p, (opus_int32)len, &toc, NULL, sz, NULL);
      if (cnt > 0 && ns > 0) {
         if (frame_size >= ns && (ret != ns || cr.lpd != ns))
            witness("duration", "valid framing announces %d samples, buffer %d: returned %s, last-packet-duration %d", ns, frame_size, ret_str(ret), cr.lpd);
         if (frame_size < ns && ret != OPUS_BUFFER_TOO_SMALL)
            witness("duration", "valid framing announces %d samples, buffer %d: returned %s", ns, frame_size, ret_str(ret));
      } else if (ret >= 0) witness("framing", "packet with invalid framing decoded to %d samples", ret);
   }
   if ((isnull || len == 0) && (fec == 0 || fec == 1) && frame_size > 0) {
      if (frame_size % (Fs / 400) == 0) {
         if (ret != frame_size || cr.lpd != frame_size) witness("plcduration", "concealment of %d samples returned %s, last-packet-duration %d", frame_size, ret_str(ret), cr.lpd);
      } else if (ret != OPUS_BAD_ARG) witness("plcduration", "concealment of %d samples (not a multiple of 2.5 ms) returned %s", frame_size, ret_str(ret));
   }
   if (!isnull && len > 0 && len == n && fec == 1 && frame_size > 0) {
      unsigned char toc; opus_int16 sz[48];
      int cnt = (fmt == FMTN1) ? opus_packet_parse_impl(p, (opus_int32)len, 1, &toc, NULL, sz, NULL, NULL, NULL, NULL)
                               : opus_packet_parse(p, (opus_int32)len, &toc, NULL, sz, NULL);
      if (frame_size % (Fs / 400) != 0) { if (ret != OPUS_BAD_ARG) witness("fecduration", "FEC request of %d samples returned %s", frame_size, ret_str(ret)); }
      else if (cnt > 0) { if (ret != frame_size || cr.lpd != frame_size) witness("fecduration", "FEC request of %d samples returned %s, last-packet-duration %d", frame_size, ret_str(ret), cr.lpd); }
      else if (ret >= 0) witness("framing", "FEC on a packet with invalid framing returned %d", ret);
   }
   G.pending[0] = 0;
   gfree(&g); if (p) free(p);
   return cr;
}

static void do_reset(OpusDecoder *st)
{
   char pre[256], post[256];
   st_str(pre, st);
   if (!G.quiet) printf("I decskel reset %s\n", pre);
   opus_decoder_ctl(st, OPUS_RESET_STATE);
   st_str(post, st);
   if (!G.quiet) printf("O st=%s\n", post);
}
static void do_gain(OpusDecoder *st, int v)
{
   char pre[256], post[256]; int e;
   st_str(pre, st);
   if (!G.quiet) printf("I decskel gain %s %d\n", pre, v);
   e = opus_decoder_ctl(st, OPUS_SET_GAIN(v));
   st_str(post, st);
   if (!G.quiet) printf("O %s st=%s\n", verr(e), post);
   { opus_int32 g = 0; opus_decoder_ctl(st, OPUS_GET_GAIN(&g)); if (e == OPUS_OK && g != v) witness("gain", "OPUS_GET_GAIN %d after OPUS_SET_GAIN %d", (int)g, v); }
}
static OpusDecoder *do_init(int Fs, int ch)
{
   int err = 0; OpusDecoder *st;
   if (!G.quiet) printf("I decskel init %d %d\n", Fs, ch);
   st = opus_decoder_create(Fs, ch, &err);
   if (!G.quiet) { if (st) { char s[256]; st_str(s, st); printf("O st=%s\n", s); } else printf("O %s\n", verr(err)); }
   return st;
}

/* ------------------------------------------------------------------ packet sources */
static const int RATES[5] = {8000, 12000, 16000, 24000, 48000};

typedef struct { OpusEncoder *enc; int ch; double ph1, ph2; int silent; int app; } vsrc;
static void src_open(vsrc *s, vrng *r, int app)
{
   int err; s->ch = 1 + vbelow(r, 2); s->app = app;
   s->enc = opus_encoder_create(48000, s->ch, app, &err);
   s->ph1 = s->ph2 = 0; s->silent = 0;
}
static void src_ctl(vsrc *s, vrng *r, int force_mode)
{
   static const int bws[] = {OPUS_AUTO, OPUS_BANDWIDTH_NARROWBAND, OPUS_BANDWIDTH_MEDIUMBAND, OPUS_BANDWIDTH_WIDEBAND, OPUS_BANDWIDTH_SUPERWIDEBAND, OPUS_BANDWIDTH_FULLBAND};
   static const int brs[] = {6000, 9000, 12000, 16000, 20000, 24000, 32000, 48000, 64000, 96000, 128000, 256000, 510000};
   opus_encoder_ctl(s->enc, OPUS_SET_BITRATE(brs[vbelow(r, 13)]));
   opus_encoder_ctl(s->enc, OPUS_SET_BANDWIDTH(bws[vbelow(r, 6)]));
   opus_encoder_ctl(s->enc, OPUS_SET_VBR(vbelow(r, 2)));
   opus_encoder_ctl(s->enc, OPUS_SET_COMPLEXITY(vbelow(r, 6)));
   opus_encoder_ctl(s->enc, OPUS_SET_INBAND_FEC(vbelow(r, 3)));
   opus_encoder_ctl(s->enc, OPUS_SET_PACKET_LOSS_PERC(vchance(r, 50) ? 0 : vrange(r, 5, 40)));
   opus_encoder_ctl(s->enc, OPUS_SET_DTX(vchance(r, 30)));
   opus_encoder_ctl(s->enc, OPUS_SET_FORCE_CHANNELS(vchance(r, 70) ? OPUS_AUTO : 1 + (int)vbelow(r, 2)));
   if (force_mode >= 0) opus_encoder_ctl(s->enc, OPUS_SET_FORCE_MODE(force_mode));
}
/* encode one frame of `dur` (in 2.5 ms units: 1,2,4,8,16,24,32,40,48); returns packet length */
static int src_packet(vsrc *s, vrng *r, int dur, unsigned char *out, int max)
{
   static float in[2 * 5760]; int N = dur * 120, i, c, ret;
   double f1 = 180 + 40 * vbelow(r, 8), f2 = 1200 + 300 * vbelow(r, 10);
   float a = s->silent ? 0.f : 0.05f + 0.1f * vbelow(r, 5);
   if (vchance(r, 8)) s->silent = !s->silent;
   for (i = 0; i < N; i++) {
      float v = a * (float)(sin(s->ph1) + 0.5 * sin(s->ph2)) + a * 0.2f * ((int)vbelow(r, 2001) - 1000) / 1000.f;
      s->ph1 += 2 * M_PI * f1 / 48000; s->ph2 += 2 * M_PI * f2 / 48000;
      for (c = 0; c < s->ch; c++) in[i * s->ch + c] = c ? v * 0.7f : v;
   }
   if (s->ph1 > 1e4) s->ph1 = fmod(s->ph1, 2 * M_PI);
   if (s->ph2 > 1e4) s->ph2 = fmod(s->ph2, 2 * M_PI);
   if (s->app == OPUS_APPLICATION_RESTRICTED_LOWDELAY && dur > 8 && dur != 16 && dur != 24) dur = 8, N = 960;
   ret = opus_encode_float(s->enc, in, N, out, max);
   return ret;
}

/* synthetic framing (as in c06_framing.c): valid-by-construction packet, random payload */
static long put_size(unsigned char *o, int s) { if (s < 252) { o[0] = s; return 1; } o[0] = 252 + (s & 3); o[1] = (s - o[0]) >> 2; return 2; }
static long gen_packet(vrng *r, int sd, unsigned char *o, int big)
{
   int code = vbelow(r, 4), config = vbelow(r, 32), stereo = vbelow(r, 2);
   int count, vbr = 0, i, sizes[64]; long n = 0, padtotal = 0;
   int fdur48;
   o[0] = config * 8 + stereo * 4 + code; n = 1;
   fdur48 = opus_packet_get_samples_per_frame(o, 48000);
   if (code == 0) count = 1; else if (code < 3) count = 2;
   else { int maxc = 5760 / fdur48; count = vchance(r, 90) ? vrange(r, 1, maxc) : vrange(r, 0, 63); vbr = vbelow(r, 2); }
   {
      static const int szc[] = {0, 0, 1, 1, 2, 3, 8, 20, 40, 100, 251, 252, 253, 400, 1275};
      int base = vchance(r, 60) ? (int)vbelow(r, 60) : szc[vbelow(r, 15)];
      if (big) { base = vrange(r, 100, 1275); if (count > 6) count = 6; }
      for (i = 0; i < count; i++) sizes[i] = (code == 1 || (code == 3 && !vbr)) ? base : (vchance(r, 70) ? (int)vbelow(r, 80) : szc[vbelow(r, 15)]);
   }
   if (code == 3) {
      int haspad = vchance(r, 30), chain = 0, last = 0;
      o[n++] = (count & 63) | (haspad ? 64 : 0) | (vbr ? 128 : 0);
      if (haspad) {
         chain = vchance(r, 70) ? 0 : vrange(r, 1, big ? 8 : 2); last = vbelow(r, 255);
         for (i = 0; i < chain; i++) o[n++] = 255;
         o[n++] = last; padtotal = 254L * chain + last;
      }
   }
   if (code == 2 || (code == 3 && vbr)) for (i = 0; i < count - 1; i++) n += put_size(o + n, sizes[i]);
   if (sd && count > 0) n += put_size(o + n, sizes[count - 1]);
   for (i = 0; i < count; i++) { int k; for (k = 0; k < sizes[i]; k++) o[n++] = (unsigned char)vnext(r); }
   { long k; for (k = 0; k < padtotal; k++) o[n++] = 0; }
   return n;
}

/* Structured CELT-only packet (code 0) whose range-coded header is written with the library's own entropy coder: not
   silence, optional post-filter, transient flag, intra / inter energy flag, then a CHOSEN coarse-energy delta for every
   band and channel (large positive ones drive the decoded band energies far beyond what any encoder produces; with
   inter prediction they accumulate over consecutive packets), then arbitrary bytes.  `LM` < 0: random frame size.
   Returns the packet length; *dur48 = duration in 48 kHz samples. */
static long gen_celt_hot(vrng *r, unsigned char *o, int LM, int intra, int qmode, int *dur48)
{
   static const int ENDB[4] = {13, 17, 19, 21};
   int bwidx = vchance(r, 50) ? 3 : (int)vbelow(r, 4), stereo = vbelow(r, 2), C = 1 + stereo, end, i, c, payload, used;
   ec_enc enc; const unsigned char *prob; int transient;
   if (LM < 0) LM = vchance(r, 50) ? 3 : (int)vbelow(r, 4);
   end = ENDB[bwidx];
   o[0] = (unsigned char)(((16 + 4 * bwidx + LM) << 3) | (stereo << 2));
   payload = 30 + 40 * C + (int)vbelow(r, 90);
   ec_enc_init(&enc, o + 1, payload);
   ec_enc_bit_logp(&enc, 0, 15);                                   /* silence = 0 */
   if (vchance(r, 20)) {                                            /* post-filter */
      int octave = vbelow(r, 6);
      ec_enc_bit_logp(&enc, 1, 1); ec_enc_uint(&enc, octave, 6); ec_enc_bits(&enc, vbelow(r, 1u << (4 + octave)), 4 + octave);
      ec_enc_bits(&enc, vbelow(r, 8), 3); ec_enc_icdf(&enc, vbelow(r, 3), tapset_icdf, 2);
   } else ec_enc_bit_logp(&enc, 0, 1);
   transient = vchance(r, 25);
   if (LM > 0) ec_enc_bit_logp(&enc, transient, 3);
   ec_enc_bit_logp(&enc, intra, 3);
   prob = e_prob_model[LM][intra];
   for (i = 0; i < end; i++) for (c = 0; c < C; c++) {
      int pi = 2 * (i < 20 ? i : 20), qi;
      if (payload * 8 - ec_tell(&enc) < 15 + 40) goto done;       /* keep clear of the low-budget symbol alphabet */
      switch (qmode) {
      case 0: qi = 12; break;                                      /* +72 dB per band */
      case 1: qi = vrange(r, 6, 14); break;
      case 2: qi = (i & 1) ? vrange(r, 8, 14) : -vrange(r, 0, 3); break;
      case 3: qi = -vrange(r, 4, 12); break;
      default: qi = vrange(r, -2, 9); break;
      }
      ec_laplace_encode(&enc, &qi, prob[pi] << 7, prob[pi + 1] << 6);
   }
done:
   ec_enc_done(&enc);
   used = (int)ec_range_bytes(&enc);
   if (vchance(r, 60)) for (i = used; i < payload; i++) o[1 + i] = (unsigned char)vnext(r);
   *dur48 = 120 << LM;
   return 1 + payload;
}

static void mutate(vrng *r, unsigned char *b, long *n, long cap)
{
   int m = vbelow(r, 100);
   if (m < 60 || *n == 0) return;
   if (m < 72) { int k = vrange(r, 1, 4); while (k--) b[vbelow(r, (uint32_t)*n)] ^= 1 << vbelow(r, 8); }
   else if (m < 80) *n = vbelow(r, (uint32_t)*n + 1);
   else if (m < 85) { int k = vrange(r, 1, 6); while (k-- && *n < cap) b[(*n)++] = (unsigned char)vnext(r); }
   else if (m < 92) b[vbelow(r, *n < 4 ? (uint32_t)*n : 4)] = (unsigned char)vnext(r);
   else if (m < 96) { long k; for (k = 1; k < *n; k++) b[k] = (unsigned char)vnext(r); }
   else b[0] = (unsigned char)vnext(r);
}

static int pick_frame_size(vrng *r, int Fs, int need)
{
   int m = vbelow(r, 100), u = Fs / 400;
   if (m < 45) return Fs / 25 * 3;                 /* 120 ms: always enough */
   if (m < 60) return need > 0 ? need : u * 8;
   if (m < 68) return need > 1 ? need - 1 : 1;
   if (m < 75) return need > 0 ? need + vrange(r, 1, 3 * u) : u;
   if (m < 83) return u * vrange(r, 1, 48);
   if (m < 88) return vrange(r, 1, Fs / 25 * 3);
   if (m < 92) return Fs;                          /* one second */
   if (m < 95) return vrange(r, 1, u - 1 > 1 ? u - 1 : 1);
   if (m < 97) return 0;
   if (m < 98) return -vrange(r, 1, 1000);
   return u * vrange(r, 49, 400);
}

static const int DURS[9] = {1, 2, 4, 8, 16, 24, 32, 40, 48};
static const int FMODES[4] = {-1, MODE_SILK_ONLY, MODE_HYBRID, MODE_CELT_ONLY};

static void run_session(vrng *r, int steps)
{
   static unsigned char pkt[90000], nxt[20000];
   int Fs = RATES[vbelow(r, 5)], ch = 1 + vbelow(r, 2), i, nsrc = 1 + vbelow(r, 3);
   vsrc src[3]; OpusDecoder *st;
   static const int apps[3] = {OPUS_APPLICATION_VOIP, OPUS_APPLICATION_AUDIO, OPUS_APPLICATION_RESTRICTED_LOWDELAY};
   if (vchance(r, 2)) { OpusDecoder *bad = do_init(vchance(r, 50) ? 44100 : Fs, vchance(r, 50) ? 3 : 0); if (bad) opus_decoder_destroy(bad); }
   st = do_init(Fs, ch);
   for (i = 0; i < nsrc; i++) { src_open(&src[i], r, apps[vbelow(r, 3)]); src_ctl(&src[i], r, FMODES[vbelow(r, 4)]); }
   for (i = 0; i < steps; i++) {
      int op = vbelow(r, 100), fmt = vbelow(r, 100);
      fmt = fmt < 30 ? FMT16 : fmt < 45 ? FMT24 : fmt < 85 ? FMTF : fmt < 93 ? FMTN0 : FMTN1;
      if (op < 50) {
         vsrc *s = &src[vbelow(r, nsrc)]; long n; int need;
         if (vchance(r, 25)) src_ctl(s, r, FMODES[vbelow(r, 4)]);
         n = src_packet(s, r, DURS[vchance(r, 70) ? 3 : vbelow(r, 9)], pkt, vchance(r, 90) ? 1500 : vrange(r, 3, 400));
         if (n < 0) continue;
         if (fmt == FMTN1) fmt = FMTN0;
         mutate(r, pkt, &n, sizeof pkt);
         need = n > 0 ? opus_packet_get_nb_samples(pkt, (opus_int32)n, Fs) : 0;
         do_call(st, fmt, pkt, n, 0, n, pick_frame_size(r, Fs, need), vchance(r, 4) ? vrange(r, -1, 2) : 0, NULL);
      } else if (op < 62) {
         int sd = fmt == FMTN1; long n = gen_packet(r, sd, pkt, vchance(r, 5)); int need;
         if (sd && vchance(r, 40)) { int k = vbelow(r, 20); while (k--) pkt[n++] = (unsigned char)vnext(r); }
         mutate(r, pkt, &n, sizeof pkt);
         need = n > 0 ? opus_packet_get_nb_samples(pkt, (opus_int32)n, Fs) : 0;
         do_call(st, fmt, pkt, n, 0, n, pick_frame_size(r, Fs, need), vchance(r, 10), NULL);
      } else if (op < 66) {
         long n = vbelow(r, vchance(r, 90) ? 40 : 3000), k; for (k = 0; k < n; k++) pkt[k] = (unsigned char)vnext(r);
         do_call(st, fmt, pkt, n, 0, n, pick_frame_size(r, Fs, 0), vchance(r, 10), NULL);
      } else if (op < 82) {
         /* concealment: NULL pointer, or a non-NULL pointer with len 0 */
         int nullp = vchance(r, 70); pkt[0] = (unsigned char)vnext(r);
         do_call(st, fmt, pkt, nullp ? 0 : 1, nullp, 0, pick_frame_size(r, Fs, 0), vchance(r, 15) ? vrange(r, -1, 2) : 0, NULL);
      } else if (op < 93) {
         /* FEC: ask for the lost frame from the next packet, then decode that packet */
         vsrc *s = &src[vbelow(r, nsrc)]; long n = src_packet(s, r, DURS[vchance(r, 60) ? 3 : 2 + vbelow(r, 5)], nxt, 1500); int pfs, fs;
         if (n <= 0) continue;
         if (fmt == FMTN1) fmt = FMTN0;
         if (vchance(r, 10)) mutate(r, nxt, &n, sizeof nxt);
         if (n <= 0) continue;
         pfs = opus_packet_get_samples_per_frame(nxt, Fs);
         fs = vchance(r, 55) ? pfs : vchance(r, 50) ? pfs + (Fs / 400) * vrange(r, 1, 40) : pick_frame_size(r, Fs, pfs);
         do_call(st, fmt, nxt, n, 0, n, fs, 1, NULL);
         do_call(st, fmt, nxt, n, 0, n, Fs / 25 * 3, 0, NULL);
      } else if (op < 95 && vchance(r, 35)) {
         /* structured CELT packets with extreme band energies: one intra packet, a few inter packets that keep adding,
            then concealment — through every entry point */
         int dur48, LM = vchance(r, 60) ? 3 : (int)vbelow(r, 4), k, reps = 1 + vbelow(r, 5), qm = vbelow(r, 5), u = Fs / 400;
         for (k = 0; k < reps; k++) {
            int f2 = vbelow(r, 100); long n;
            f2 = f2 < 15 ? FMT16 : f2 < 30 ? FMT24 : f2 < 90 ? FMTF : FMTN0;
            n = gen_celt_hot(r, pkt, LM, k == 0 || vchance(r, 20), vchance(r, 70) ? qm : (int)vbelow(r, 5), &dur48);
            do_call(st, f2, pkt, n, 0, n, vchance(r, 80) ? Fs / 25 * 3 : (u << LM), 0, NULL);
         }
         for (k = vbelow(r, 4); k > 0; k--) do_call(st, vchance(r, 75) ? FMTF : FMT16, pkt, 0, 1, 0, (u << LM) * (1 + vbelow(r, 3)), 0, NULL);
      } else if (op < 96) do_reset(st);
      else if (op < 99) do_gain(st, vchance(r, 80) ? vrange(r, -3000, 3000) : vchance(r, 50) ? 32768 : -32769);
      else { /* non-NULL pointer with a negative length */
         pkt[0] = 0; do_call(st, fmt, pkt, 1, 0, -vrange(r, 1, 5), pick_frame_size(r, Fs, 0), 0, NULL);
      }
   }
   for (i = 0; i < nsrc; i++) opus_encoder_destroy(src[i].enc);
   opus_decoder_destroy(st);
}

/* ------------------------------------------------------------------ multistream / projection */
static void do_ms_call(OpusMSDecoder *ms, OpusProjectionDecoder *pj, int Fs, int channels, int streams, int fmt,
      const unsigned char *pkt, long n, long len, int frame_size, int fec)
{
   gbuf g; unsigned char *p = vexact(pkt, n); int ret; long nsamp = frame_size > 0 ? (long)frame_size * channels : 0;
   size_t esz = fmt == FMT16 ? 2 : 4; long i;
   G.n_calls++;
   g = galloc((size_t)nsamp * esz);
   {
      long k = sprintf(G.pending, "decskel ms %d %d ", Fs, streams), j; static const char d[] = "0123456789abcdef";
      G.pending[k++] = 'x'; for (j = 0; j < n; j++) { G.pending[k++] = d[p[j] >> 4]; G.pending[k++] = d[p[j] & 15]; }
      sprintf(G.pending + k, " %ld %d", len, frame_size);
   }
   if (!G.quiet) { printf("P %s\n", G.pending); fflush(stdout); }
   G.ms_on = 1; G.nal = 0; G.buf_cap = 0; G.contract[0] = 0; g_msin_n = g_mscalls_n = 0; g_msin[0] = g_mscalls[0] = 0; G.user = NULL;
   alarm(30);
   if (pj) ret = fmt == FMT16 ? opus_projection_decode(pj, p, (opus_int32)len, (opus_int16 *)g.pcm, frame_size, fec)
               : fmt == FMT24 ? opus_projection_decode24(pj, p, (opus_int32)len, (opus_int32 *)g.pcm, frame_size, fec)
               : opus_projection_decode_float(pj, p, (opus_int32)len, (float *)g.pcm, frame_size, fec);
   else ret = fmt == FMT16 ? opus_multistream_decode(ms, p, (opus_int32)len, (opus_int16 *)g.pcm, frame_size, fec)
            : fmt == FMT24 ? opus_multistream_decode24(ms, p, (opus_int32)len, (opus_int32 *)g.pcm, frame_size, fec)
            : opus_multistream_decode_float(ms, p, (opus_int32)len, (float *)g.pcm, frame_size, fec);
   alarm(0);
   G.ms_on = 0;
   if (!G.quiet) {
      printf("I %s %s\n", G.pending, g_msin_n ? g_msin : "-");
      if (G.contract[0]) printf("O CONTRACT %s\n", G.contract);
      else printf("O %s buf=%ld calls=%s\n", ret_str(ret), G.buf_cap, g_mscalls_n ? g_mscalls : "-");
   } else if (G.contract[0]) witness("contract", "%s", G.contract);
   if (ret >= 0) { if (ret == 0 || ret > frame_size) witness("retrange", "multistream returned %d for frame_size %d", ret, frame_size); }
   else if (ret != OPUS_BAD_ARG && ret != OPUS_BUFFER_TOO_SMALL && ret != OPUS_INVALID_PACKET) witness("reterr", "multistream returned %s", verr(ret));
   if (!gcheck(&g)) witness("canary", "multistream wrote outside the caller's buffer of %ld samples", nsamp);
   if (ret > 0 && ret <= frame_size && fmt == FMTF)
      for (i = 0; i < (long)ret * channels; i++) { float v = ((float *)g.pcm)[i]; if (!(v == v) || v > 3.0e38f || v < -3.0e38f) { witness("nonfinite", "multistream sample %ld not finite", i); break; } }
   if (len == 0 && frame_size > 0) {
      int fsz = frame_size < Fs / 25 * 3 ? frame_size : Fs / 25 * 3;
      if (fsz % (Fs / 400) == 0 ? ret != fsz : ret != OPUS_BAD_ARG) witness("plcduration", "multistream concealment of %d samples returned %s", frame_size, ret_str(ret));
   }
   G.pending[0] = 0; gfree(&g); free(p);
}

static void run_ms_session(vrng *r, int steps)
{
   static unsigned char pkt[60000]; static float in[18 * 5760];
   int Fs = RATES[vbelow(r, 5)], family = vchance(r, 25) ? 3 : vchance(r, 50) ? 1 : vchance(r, 50) ? 0 : 255;
   int channels, streams = 0, coupled = 0, err = 0, i, c; unsigned char mapping[256];
   OpusMSEncoder *enc = NULL; OpusProjectionEncoder *penc = NULL; OpusMSDecoder *ms = NULL; OpusProjectionDecoder *pj = NULL;
   if (family == 0) channels = 1 + vbelow(r, 2);
   else if (family == 1) channels = 1 + vbelow(r, 8);
   else if (family == 3) { static const int ac[] = {4, 9, 16, 6, 11, 18}; channels = ac[vbelow(r, 6)]; if (channels > 6 && vchance(r, 60)) channels = 4; }
   else channels = 1 + vbelow(r, 6);
   if (family == 3) {
      penc = opus_projection_ambisonics_encoder_create(48000, channels, 3, &streams, &coupled, OPUS_APPLICATION_AUDIO, &err);
      if (!penc) return;
      {
         opus_int32 msz = 0; unsigned char *mat;
         opus_projection_encoder_ctl(penc, OPUS_PROJECTION_GET_DEMIXING_MATRIX_SIZE(&msz));
         mat = (unsigned char *)malloc(msz);
         opus_projection_encoder_ctl(penc, OPUS_PROJECTION_GET_DEMIXING_MATRIX(mat, msz));
         pj = opus_projection_decoder_create(Fs, channels, streams, coupled, mat, msz, &err);
         free(mat);
      }
      if (!pj) { opus_projection_encoder_destroy(penc); return; }
   } else {
      enc = opus_multistream_surround_encoder_create(48000, channels, family, &streams, &coupled, mapping, OPUS_APPLICATION_AUDIO, &err);
      if (!enc) return;
      if (vchance(r, 30)) {   /* random layout for the decoder: permute / mute / duplicate channels */
         for (c = 0; c < channels; c++) { int m = vbelow(r, 100); if (m < 15) mapping[c] = 255; else if (m < 40) mapping[c] = vbelow(r, streams + coupled); }
      }
      ms = opus_multistream_decoder_create(Fs, channels, streams, coupled, mapping, &err);
      if (!ms) { opus_multistream_encoder_destroy(enc); return; }
   }
   for (i = 0; i < steps; i++) {
      int op = vbelow(r, 100), fmt = vbelow(r, 3), dur = DURS[vchance(r, 60) ? 3 : vbelow(r, 6)], N = dur * 120, k; long n;
      for (k = 0; k < N * channels; k++) in[k] = 0.1f * (float)sin(0.01 * k * (1 + k % channels)) + 0.02f * ((int)vbelow(r, 201) - 100) / 100.f;
      if (enc && vchance(r, 20)) opus_multistream_encoder_ctl(enc, OPUS_SET_BITRATE(vrange(r, 6000, 64000) * streams));
      n = penc ? opus_projection_encode_float(penc, in, N, pkt, sizeof pkt) : opus_multistream_encode_float(enc, in, N, pkt, sizeof pkt);
      if (n <= 0) continue;
      if (vchance(r, 12)) {
         /* every stream carries a structured CELT packet with extreme band energies (self-delimited framing for all but the
            last stream), then concealment */
         int LM = vchance(r, 60) ? 3 : (int)vbelow(r, 4), dur48, s2, reps = 1 + vbelow(r, 3), k2, qm = vbelow(r, 5);
         for (k2 = 0; k2 < reps; k2++) {
            long m = 0; static unsigned char one[600];
            for (s2 = 0; s2 < streams; s2++) {
               long l1 = gen_celt_hot(r, one, LM, k2 == 0, qm, &dur48);
               pkt[m++] = one[0];
               if (s2 != streams - 1) m += put_size(pkt + m, (int)(l1 - 1));
               memcpy(pkt + m, one + 1, l1 - 1); m += l1 - 1;
            }
            do_ms_call(ms, pj, Fs, channels, streams, vchance(r, 70) ? FMTF : fmt, pkt, m, m, Fs / 25 * 3, 0);
         }
         for (k2 = vbelow(r, 3); k2 > 0; k2--) do_ms_call(ms, pj, Fs, channels, streams, FMTF, pkt, 0, 0, (Fs / 400) << LM, 0);
         continue;
      }
      if (op < 60) {
         int need, fs; mutate(r, pkt, &n, sizeof pkt);
         need = dur * (Fs / 400); fs = pick_frame_size(r, Fs, need); if (fs > Fs) fs = Fs;
         do_ms_call(ms, pj, Fs, channels, streams, fmt, pkt, n, n, fs, vchance(r, 5));
      } else if (op < 75) { int fs = pick_frame_size(r, Fs, 0); if (fs > Fs) fs = Fs; do_ms_call(ms, pj, Fs, channels, streams, fmt, pkt, 0, 0, fs, vchance(r, 10)); }
      else if (op < 85) { n = vbelow(r, 60); for (k = 0; k < n; k++) pkt[k] = (unsigned char)vnext(r); do_ms_call(ms, pj, Fs, channels, streams, fmt, pkt, n, n, Fs / 25 * 3, 0); }
      else if (op < 95) do_ms_call(ms, pj, Fs, channels, streams, fmt, pkt, n, n, dur * (Fs / 400) + (Fs / 400) * vbelow(r, 8), 1);
      else do_ms_call(ms, pj, Fs, channels, streams, fmt, pkt, n, vchance(r, 50) ? -1 : n, vchance(r, 50) ? 0 : -5, 0);
   }
   if (enc) opus_multistream_encoder_destroy(enc);
   if (penc) opus_projection_encoder_destroy(penc);
   if (ms) opus_multistream_decoder_destroy(ms);
   if (pj) opus_projection_decoder_destroy(pj);
}

/* ------------------------------------------------------------------ fixed corpus
   Packets that once made a decode entry point return an undocumented error.
   1: the 168-byte CELT-only super-wide-band 20 ms stereo packet of tools/c03_budget_packets.txt (found by C03's bit-budget
      search): two PVQ reads in the last coded band leave ec_tell = 8*len + 1, and before /repo 59715713
      celt_decode_with_ec_dred returned OPUS_INTERNAL_ERROR, which opus_decode passed on.  Every entry point must return
      960*Fs/48000 samples at every rate, for a mono and a stereo decoder. */
static const char *CORPUS_HEX[] = {
   "x" "dcbedb13fdf8bb1c7392a9b8c396d39f0459f6fe38def9ac92e087c19ade0bef4f8d98f64ccef84a6d372ebe9c3b9495"
   "dce7d50810b6c172589fd786066760fe3d75f21b2ddd51a03a7c2b7f4a675881d1cd249f615ab6051d0319fb9042c4b2"
   "8396d4acab752d122ac756b0cf6c61799beb45a22e96c7d44d2667210ba2dde1e3f4016151d3d17f2e477c4b08c1e0c0"
   "ee5d787b9bcc355beb0ff38c4b7f7221dc6f948e126e12f2",
};
static void run_corpus(void)
{
   static unsigned char b[1500]; int k, ri, ch, fmt;
   for (k = 0; k < (int)(sizeof CORPUS_HEX / sizeof CORPUS_HEX[0]); k++) {
      long n = vunhex(CORPUS_HEX[k], b, sizeof b);
      if (n <= 0) continue;
      for (ri = 0; ri < 5; ri++) for (ch = 1; ch <= 2; ch++) for (fmt = FMT16; fmt <= FMTN1; fmt++) {
         OpusDecoder *st = do_init(RATES[ri], ch); int want = opus_packet_get_nb_samples(b, (opus_int32)n, RATES[ri]); callres cr;
         if (!st) continue;
         cr = do_call(st, fmt, b, n, 0, n, fmt == FMTN1 ? 5760 * RATES[ri] / 48000 : want, 0, NULL);
         if (fmt != FMTN1 && cr.ret != want) {
            snprintf(G.pending, sizeof G.pending, "decskel corpus %d %d %d %s", k + 1, RATES[ri], ch, fmt_name[fmt]);
            witness("corpus", "corpus packet %d (%ld bytes) decoded to %s instead of %d samples", k + 1, n, ret_str(cr.ret), want);
            G.pending[0] = 0;
         }
         opus_decoder_destroy(st);
      }
   }
}

/* ------------------------------------------------------------------ packet-inspection functions read only the packet
   "Every packet-inspection function reads only the packet" (C01): opus_packet_get_bandwidth / _nb_channels /
   _samples_per_frame / _nb_frames / _nb_samples, opus_decoder_get_nb_samples, opus_packet_has_lbrr, opus_packet_parse,
   opus_packet_parse_impl(self_delimited) and opus_multistream_packet_validate are evaluated
     - on an exact-size heap copy of the packet (the sanitizer build reports any access outside it), and
     - on a copy followed by guard bytes set to 0x00, 0xFF and 0x5A: a result that differs depends on bytes behind the
       packet (no sanitizer needed);
   the frame pointers opus_packet_parse returns must lie inside the packet; opus_packet_has_lbrr is also compared with the
   model (`decskel lbrr`).  Packets: every 1-byte and 2-byte packet, structured 3- and 4-byte packets (every TOC x
   interesting count / size bytes), synthetic framings of every code, real encoder packets, and truncations / bit flips. */
#define INSP_NV 24
typedef struct { int v[INSP_NV]; } insp_res;
static const char *INSP_NAME[INSP_NV] = {"opus_packet_get_bandwidth", "opus_packet_get_nb_channels", "opus_packet_get_samples_per_frame(48000)",
   "opus_packet_get_samples_per_frame(8000)", "opus_packet_get_nb_frames", "opus_packet_get_nb_samples(48000)", "opus_packet_get_nb_samples(16000)",
   "opus_decoder_get_nb_samples", "opus_packet_has_lbrr", "opus_packet_parse", "opus_packet_parse toc", "opus_packet_parse payload_offset",
   "opus_packet_parse sizes", "opus_packet_parse frames", "opus_packet_parse_impl(self_delimited)", "opus_packet_parse_impl packet_offset",
   "opus_packet_parse_impl sizes", "opus_multistream_packet_validate(1)", "opus_multistream_packet_validate(2)", "opus_multistream_packet_validate(3)",
   "opus_packet_parse_impl padding", "-", "-", "-"};
static int insp_frames_ok;
static void insp_eval(const unsigned char *p, long len, OpusDecoder *dec, insp_res *o)
{
   const unsigned char *fr[48]; opus_int16 sz[48]; unsigned char toc = 0; int po = 0, k = 0, i, ret; opus_int32 pko = 0, padlen = 0;
   const unsigned char *pad = NULL;
   memset(o, 0, sizeof *o);
   o->v[k++] = opus_packet_get_bandwidth(p);
   o->v[k++] = opus_packet_get_nb_channels(p);
   o->v[k++] = opus_packet_get_samples_per_frame(p, 48000);
   o->v[k++] = opus_packet_get_samples_per_frame(p, 8000);
   o->v[k++] = opus_packet_get_nb_frames(p, (opus_int32)len);
   o->v[k++] = opus_packet_get_nb_samples(p, (opus_int32)len, 48000);
   o->v[k++] = opus_packet_get_nb_samples(p, (opus_int32)len, 16000);
   o->v[k++] = opus_decoder_get_nb_samples(dec, p, (opus_int32)len);
   o->v[k++] = opus_packet_has_lbrr(p, (opus_int32)len);
   ret = opus_packet_parse(p, (opus_int32)len, &toc, fr, sz, &po);
   o->v[k++] = ret;
   if (ret > 0) {
      unsigned sum = 0, h = 0;
      for (i = 0; i < ret; i++) {
         sum = sum * 31u + (unsigned)sz[i]; h = h * 31u + (unsigned)(fr[i] - p);
         if (fr[i] < p || fr[i] + sz[i] > p + len || sz[i] < 0) insp_frames_ok = 0;
      }
      o->v[k++] = toc; o->v[k++] = po; o->v[k++] = (int)(sum & 0x7fffffff); o->v[k++] = (int)(h & 0x7fffffff);
   } else k += 4;
   ret = opus_packet_parse_impl(p, (opus_int32)len, 1, &toc, fr, sz, &po, &pko, &pad, &padlen);
   o->v[k++] = ret;
   if (ret > 0) {
      unsigned sum = 0;
      for (i = 0; i < ret; i++) { sum = sum * 31u + (unsigned)sz[i]; if (fr[i] < p || fr[i] + sz[i] > p + len || sz[i] < 0) insp_frames_ok = 0; }
      if (pko < 0 || pko > len) insp_frames_ok = 0;
      if (padlen < 0 || (padlen > 0 && (pad < p || pad + padlen > p + len))) insp_frames_ok = 0;
      o->v[k++] = (int)pko; o->v[k++] = (int)(sum & 0x7fffffff);
   } else k += 2;
   o->v[k++] = opus_multistream_packet_validate(p, (opus_int32)len, 1, 48000);
   o->v[k++] = opus_multistream_packet_validate(p, (opus_int32)len, 2, 48000);
   o->v[k++] = opus_multistream_packet_validate(p, (opus_int32)len, 3, 16000);
   o->v[k++] = ret > 0 ? (int)padlen : 0;
}
static void insp_packet(const unsigned char *pkt, long len, OpusDecoder *dec, int tie)
{
   static const unsigned char GV[3] = {0x00, 0xFF, 0x5A};
   insp_res rx, rg[3]; unsigned char *p, *g; int gi, k; long j; int hl;
   if (len < 1 || len > 20000) return;
   G.n_calls++;
   {  long q = sprintf(G.pending, "decskel lbrr x");
      static const char d[] = "0123456789abcdef";
      for (j = 0; j < len; j++) { G.pending[q++] = d[pkt[j] >> 4]; G.pending[q++] = d[pkt[j] & 15]; }
      G.pending[q] = 0; }
   p = vexact(pkt, len);
   if (tie && !G.quiet) { printf("I %s\n", G.pending); fflush(stdout); }
   insp_frames_ok = 1;
   insp_eval(p, len, dec, &rx);
   hl = rx.v[8];
   if (tie && !G.quiet) { if (hl < 0) printf("O %s\n", verr(hl)); else printf("O %d\n", hl); }
   if (!insp_frames_ok) witness("inspect", "opus_packet_parse returned a frame / padding / packet_offset outside the %ld-byte packet", len);
   if (hl != 0 && hl != 1 && hl != OPUS_BAD_ARG && hl != OPUS_INVALID_PACKET) witness("inspect", "opus_packet_has_lbrr returned %d", hl);
   free(p);
   g = (unsigned char *)malloc((size_t)len + 16);
   memcpy(g, pkt, (size_t)len);
   for (gi = 0; gi < 3; gi++) { memset(g + len, GV[gi], 16); insp_eval(g, len, dec, &rg[gi]); }
   free(g);
   for (k = 0; k < INSP_NV; k++)
      if (rg[0].v[k] != rg[1].v[k] || rg[0].v[k] != rg[2].v[k] || rg[0].v[k] != rx.v[k]) {
         witness("inspect", "%s depends on bytes behind the %ld-byte packet (%d / %d / %d with guard bytes 00 / ff / 5a)", INSP_NAME[k], len, rg[0].v[k], rg[1].v[k], rg[2].v[k]);
         break;
      }
   G.pending[0] = 0;
}
static void run_insp(vrng *r, long n)
{
   static unsigned char b[90000]; long i, len; int t, a, c, e, err;
   static const unsigned char B1[] = {0, 1, 2, 3, 47, 48, 49, 63, 64, 65, 66, 0x80, 0x81, 0x82, 0xC0, 0xC1, 0xC2, 0xC3, 250, 251, 252, 253, 254, 255};
   static const unsigned char B2[] = {0, 1, 2, 3, 251, 252, 253, 254, 255};
   OpusDecoder *dec = opus_decoder_create(RATES[vbelow(r, 5)], 1 + vbelow(r, 2), &err);
   vsrc src; static const int DUR[] = {1, 2, 4, 8, 16, 24, 32, 40, 48};
   static const int apps[3] = {OPUS_APPLICATION_VOIP, OPUS_APPLICATION_AUDIO, OPUS_APPLICATION_RESTRICTED_LOWDELAY};
   for (t = 0; t < 256; t++) { b[0] = (unsigned char)t; insp_packet(b, 1, dec, 1); }
   for (t = 0; t < 256; t++) for (a = 0; a < 256; a++) { b[0] = (unsigned char)t; b[1] = (unsigned char)a; insp_packet(b, 2, dec, 1); }
   for (t = 0; t < 256; t++) for (a = 0; a < (int)sizeof B1; a++) for (c = 0; c < (int)sizeof B2 + 1; c++) {
      int tie = ((t + a + c) & 3) == 0;
      b[0] = (unsigned char)t; b[1] = B1[a]; b[2] = c < (int)sizeof B2 ? B2[c] : (unsigned char)vnext(r);
      insp_packet(b, 3, dec, tie);
      for (e = 0; e < 3; e++) { b[3] = e == 0 ? 0 : e == 1 ? 255 : (unsigned char)vnext(r); insp_packet(b, 4, dec, tie && e == 2); }
   }
   for (i = 0; i < n; i++) {
      int k = vbelow(r, 100), reps = 12, j;
      src_open(&src, r, apps[vbelow(r, 3)]); src_ctl(&src, r, vchance(r, 50) ? OPUS_AUTO : (vchance(r, 70) ? MODE_SILK_ONLY : MODE_HYBRID));
      for (j = 0; j < reps; j++) {
         if (k < 45) len = src_packet(&src, r, DUR[vbelow(r, 9)], b, 1500);
         else len = gen_packet(r, vchance(r, 30), b, vchance(r, 5));
         if (len < 1) continue;
         insp_packet(b, len, dec, 1);
         if (vchance(r, 60)) { long cut = 1 + (long)vbelow(r, (uint32_t)len); insp_packet(b, cut, dec, 1); }              /* truncation */
         if (vchance(r, 50)) { long at = vbelow(r, (uint32_t)(len < 4 ? len : 4)); b[at] ^= (unsigned char)(1u << vbelow(r, 8)); insp_packet(b, len, dec, 1); }
         /* the first frame emptied: SILK / hybrid TOC with a zero first size (codes 2 and 3) */
         if (vchance(r, 30)) { b[0] = (unsigned char)((b[0] & 0xFC) | 2); b[1] = 0; insp_packet(b, 2 + (long)vbelow(r, 3), dec, 1); }
      }
      opus_encoder_destroy(src.enc);
   }
   opus_decoder_destroy(dec);
}

#ifndef C01_NO_MAIN
int main(int argc, char **argv)
{
   vrng r; long i, n;
   install();
   if (argc >= 4 && (!strcmp(argv[1], "rand") || !strcmp(argv[1], "ms"))) {
      r.s = strtoull(argv[2], 0, 10) * 0xD1342543DE82EF95ULL + 0x632BE59BD9B4E019ULL + (argv[1][0] == 'm'); r.s ^= vnext(&r) >> 7;   /* not a shift of another seed's Weyl sequence */ n = atol(argv[3]);
      G.quiet = argc >= 5 && !strcmp(argv[4], "quiet");
      if (argv[1][0] == 'r') run_corpus();
      for (i = 0; i < n; i++) { if (argv[1][0] == 'r') run_session(&r, 60); else run_ms_session(&r, 30); }
      printf("# %s seed=%s sessions=%ld calls=%ld witnesses=%ld\n", argv[1], argv[2], n, G.n_calls, G.n_w);
      return 0;
   }
   if (argc >= 4 && !strcmp(argv[1], "insp")) {
      r.s = strtoull(argv[2], 0, 10) * 0xD1342543DE82EF95ULL + 0x3C6EF372FE94F82BULL; r.s ^= vnext(&r) >> 7; n = atol(argv[3]);
      G.quiet = argc >= 5 && !strcmp(argv[4], "quiet");
      run_insp(&r, n);
      printf("# insp seed=%s sessions=%ld calls=%ld witnesses=%ld\n", argv[2], n, G.n_calls, G.n_w);
      return 0;
   }
   fprintf(stderr, "usage: c01_decskel rand|ms|insp <seed> <sessions> [quiet]\n");
   return 64;
}
#endif
