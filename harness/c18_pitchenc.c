/* c18_pitchenc.c — property C18, clause "quantising parameters on the encoder side and dequantising them gives the same
   values the decoder will reconstruct", for pitch lags / contours.

   The encoder's pitch analyser (silk_pitch_analysis_core_FLP, or silk_pitch_analysis_core in a fixed-point build) ends
   with an integer tail that turns the selected lag and contour into (a) the per-sub-frame lags the encoder itself uses
   and (b) lagIndex / contourIndex.  The tail is a function of (Fs_kHz, nb_subfr, lag, CBimax), and lag / CBimax are
   recoverable from the two indices it stores, so it is tied to the Lean model `pitchEncTail` by running the WHOLE
   library function and handing its outputs to the model:

      tail <seed> <n>   synthetic quasi-periodic signals (period near 18 ms, near 2 ms, anywhere; rising / falling /
                        flat period; 8/12/16 kHz x 2/4 sub-frames x complexity 0..2), the library's analyser run on each:
                           I silkparams pitchenc <fs> <nb> <lagIndex> <contourIndex>
                           O OK enc=<pitch_out> li=<lagIndex> ci=<contourIndex> dec=<silk_decode_pitch(li, ci)>
                        (only signals analysed as voiced).  A deterministic sweep (independent of the seed) comes first so
                        that both clamps are exercised in every run.
      enc <seed> <n>    witness search on the real encoder/decoder: mono SILK-only opus_encode_float on such signals; the
                        lags every voiced call of the analyser inside the encoder leaves in psEncCtrl->pitchL are compared
                        with the lags silk_decode_pitch produces inside opus_decode for the same packet (both observed by
                        link-time --wrap).  Prints `V ...` per violation and `# search cases=<n> violations=<m>`.
   Every randomly drawn case is derived from the seed argument only. */
#include "vcommon.h"
#include <math.h>
#include "main.h"
#include "pitch_est_defines.h"
#ifdef FIXED_POINT
#include "main_FIX.h"
#else
#include "main_FLP.h"
#endif
#include "opus.h"
#include "opus_private.h"

#define MAXLEN ((PE_LTP_MEM_LENGTH_MS + PE_MAX_NB_SUBFR * PE_SUBFR_LENGTH_MS) * 16)

static void plisti(const int *p, int n) { int i; if (!n) printf("-"); for (i = 0; i < n; i++) printf("%s%d", i ? "," : "", p[i]); }

/* ------------------------------------------------------------------ observation points (link-time --wrap) */
#define MAXREC 64
typedef struct { int fs, nb, li, ci, lags[PE_MAX_NB_SUBFR]; } rec_t;
static rec_t enc_rec[MAXREC], dec_rec[MAXREC];
static int n_enc_rec = 0, n_dec_rec = 0;

void __real_silk_decode_pitch(opus_int16 lagIndex, opus_int8 contourIndex, opus_int pitch_lags[], const opus_int Fs_kHz, const opus_int nb_subfr);
void __wrap_silk_decode_pitch(opus_int16 lagIndex, opus_int8 contourIndex, opus_int pitch_lags[], const opus_int Fs_kHz, const opus_int nb_subfr)
{
   __real_silk_decode_pitch(lagIndex, contourIndex, pitch_lags, Fs_kHz, nb_subfr);
   if (n_dec_rec < MAXREC && nb_subfr <= PE_MAX_NB_SUBFR) {
      rec_t *r = &dec_rec[n_dec_rec++]; int k;
      r->fs = Fs_kHz; r->nb = nb_subfr; r->li = lagIndex; r->ci = contourIndex;
      for (k = 0; k < nb_subfr; k++) r->lags[k] = pitch_lags[k];
   }
}

static void enc_note(int unvoiced, const opus_int *pitch_out, int li, int ci, int fs, int nb)
{
   if (!unvoiced && n_enc_rec < MAXREC && nb <= PE_MAX_NB_SUBFR) {
      rec_t *r = &enc_rec[n_enc_rec++]; int k;
      r->fs = fs; r->nb = nb; r->li = li; r->ci = ci;
      for (k = 0; k < nb; k++) r->lags[k] = pitch_out[k];
   }
}

#ifdef FIXED_POINT
opus_int __real_silk_pitch_analysis_core(const opus_int16 *frame, opus_int *pitch_out, opus_int16 *lagIndex, opus_int8 *contourIndex,
   opus_int *LTPCorr_Q15, opus_int prevLag, const opus_int32 t1, const opus_int t2, const opus_int Fs_kHz, const opus_int complexity,
   const opus_int nb_subfr, int arch);
opus_int __wrap_silk_pitch_analysis_core(const opus_int16 *frame, opus_int *pitch_out, opus_int16 *lagIndex, opus_int8 *contourIndex,
   opus_int *LTPCorr_Q15, opus_int prevLag, const opus_int32 t1, const opus_int t2, const opus_int Fs_kHz, const opus_int complexity,
   const opus_int nb_subfr, int arch)
{
   opus_int r = __real_silk_pitch_analysis_core(frame, pitch_out, lagIndex, contourIndex, LTPCorr_Q15, prevLag, t1, t2, Fs_kHz, complexity, nb_subfr, arch);
   enc_note(r, pitch_out, *lagIndex, *contourIndex, Fs_kHz, nb_subfr);
   return r;
}
#else
opus_int __real_silk_pitch_analysis_core_FLP(const silk_float *frame, opus_int *pitch_out, opus_int16 *lagIndex, opus_int8 *contourIndex,
   silk_float *LTPCorr, opus_int prevLag, const silk_float t1, const silk_float t2, const opus_int Fs_kHz, const opus_int complexity,
   const opus_int nb_subfr, int arch);
opus_int __wrap_silk_pitch_analysis_core_FLP(const silk_float *frame, opus_int *pitch_out, opus_int16 *lagIndex, opus_int8 *contourIndex,
   silk_float *LTPCorr, opus_int prevLag, const silk_float t1, const silk_float t2, const opus_int Fs_kHz, const opus_int complexity,
   const opus_int nb_subfr, int arch)
{
   opus_int r = __real_silk_pitch_analysis_core_FLP(frame, pitch_out, lagIndex, contourIndex, LTPCorr, prevLag, t1, t2, Fs_kHz, complexity, nb_subfr, arch);
   enc_note(r, pitch_out, *lagIndex, *contourIndex, Fs_kHz, nb_subfr);
   return r;
}
#endif

/* ------------------------------------------------------------------ signals */
typedef struct { double P0, slope, phase, decay, omega, amp, noise; } vsig_t;

static double unif(vrng *r) { return (double)(vnext(r) >> 11) / 9007199254740992.0; }

/* pulse train with linearly drifting period, every pulse a short damped resonance, on a noise floor */
static void make_signal(double *x, int len, const vsig_t *s, vrng *r)
{
   int n; double t = s->phase;
   for (n = 0; n < len; n++) x[n] = s->noise * (2.0 * unif(r) - 1.0);
   while (t < len) {
      int n0 = t < 0 ? 0 : (int)ceil(t); double per;
      for (n = n0; n < len && n < n0 + 200; n++) { double dt = n - t; x[n] += s->amp * exp(-dt / s->decay) * cos(s->omega * dt); }
      per = s->P0 + s->slope * t;
      if (per < 4.0) per = 4.0;
      t += per;
   }
}

/* kind 0: period around 18 ms; 1: around 2 ms; 2: anywhere */
static void rand_sig(vrng *r, int fs, int kind, vsig_t *s)
{
   int lo = PE_MIN_LAG_MS * fs, hi = PE_MAX_LAG_MS * fs;
   if (kind == 0) s->P0 = hi + vrange(r, -24, 6) * 0.5;
   else if (kind == 1) s->P0 = lo + vrange(r, -4, 20) * 0.5;
   else s->P0 = lo + unif(r) * (hi - lo);
   s->slope = vchance(r, 20) ? 0.0 : (unif(r) * 2.0 - 1.0) * (vchance(r, 50) ? 0.012 : 0.04);
   s->phase = unif(r) * s->P0;
   s->decay = (kind == 1 ? 3.0 : 6.0) + unif(r) * (kind == 1 ? 6.0 : 20.0);
   s->omega = 0.15 + unif(r) * 0.6;
   s->amp = 2000.0 + unif(r) * 8000.0;
   s->noise = vchance(r, 50) ? 20.0 : unif(r) * 400.0;
}

/* ------------------------------------------------------------------ tail mode */
static long n_voiced = 0, n_unvoiced = 0, n_top = 0, n_bottom = 0, n_clamp_top = 0, n_clamp_bot = 0;
static unsigned char seen_contour[3][2][PE_NB_CBKS_STAGE3_MAX];

static int lag_cbk_size(int fs, int nb)
{
   if (fs == 8) return nb == PE_MAX_NB_SUBFR ? PE_NB_CBKS_STAGE2_EXT : PE_NB_CBKS_STAGE2_10MS;
   return nb == PE_MAX_NB_SUBFR ? PE_NB_CBKS_STAGE3_MAX : PE_NB_CBKS_STAGE3_10MS;
}

static void report(int fs, int nb, int li, int ci, const int *enc)
{
   int dec[PE_MAX_NB_SUBFR], k, top = 0, bot = 0, lo = PE_MIN_LAG_MS * fs, hi = PE_MAX_LAG_MS * fs;
   printf("I silkparams pitchenc %d %d %d %d\n", fs, nb, li, ci); fflush(stdout);
   __real_silk_decode_pitch((opus_int16)li, (opus_int8)ci, dec, fs, nb);
   printf("O OK enc="); plisti(enc, nb); printf(" li=%d ci=%d dec=", li, ci); plisti(dec, nb); printf("\n");
   n_voiced++;
   for (k = 0; k < nb; k++) { if (dec[k] == hi) top = 1; if (dec[k] == lo) bot = 1; }
   n_top += top; n_bottom += bot;
   /* a clamp was active on some sub-frame: the flat lag is strictly inside while a sub-frame sits on the bound, or
      the other way round */
   if (top && lo + li < hi) n_clamp_top++;
   if (bot && li > 0) n_clamp_bot++;
   if (ci >= 0 && ci < lag_cbk_size(fs, nb)) seen_contour[fs == 8 ? 0 : fs == 12 ? 1 : 2][nb == 2 ? 0 : 1][ci] = 1;
}

static void analyse(int fs, int nb, int complexity, int prevLag, double t1, double t2, const vsig_t *s, vrng *r)
{
   static double x[MAXLEN];
   int len = (PE_LTP_MEM_LENGTH_MS + nb * PE_SUBFR_LENGTH_MS) * fs, n, unvoiced;
   opus_int pitch_enc[PE_MAX_NB_SUBFR] = {0, 0, 0, 0};
   opus_int16 lagIndex = 0; opus_int8 contourIndex = 0;
   make_signal(x, len, s, r);
   {
#ifdef FIXED_POINT
      static opus_int16 frame[MAXLEN]; opus_int LTPCorr_Q15 = 0;
      for (n = 0; n < len; n++) { double v = floor(x[n] + 0.5); frame[n] = (opus_int16)(v > 32767 ? 32767 : v < -32768 ? -32768 : v); }
      unvoiced = __real_silk_pitch_analysis_core(frame, pitch_enc, &lagIndex, &contourIndex, &LTPCorr_Q15, prevLag,
         (opus_int32)(t1 * 65536), (opus_int)(t2 * 8192), fs, complexity, nb, 0);
#else
      static silk_float frame[MAXLEN]; silk_float LTPCorr = 0;
      for (n = 0; n < len; n++) frame[n] = (silk_float)floor(x[n] + 0.5);
      unvoiced = __real_silk_pitch_analysis_core_FLP(frame, pitch_enc, &lagIndex, &contourIndex, &LTPCorr, prevLag,
         (silk_float)t1, (silk_float)t2, fs, complexity, nb, 0);
#endif
   }
   if (unvoiced) { n_unvoiced++; return; }
   report(fs, nb, lagIndex, contourIndex, pitch_enc);
}

static void run_tail(uint64_t seed, long n)
{
   static const int fss[3] = {8, 12, 16};
   vrng r, fixed; long i; int f, nb, ip, is, kind, a, b, c, cnt;
   r.s = seed * 0x9E3779B97F4A7C15ULL + 0x18C0FFEEULL;
   fixed.s = 0x5EED18ULL;
   /* deterministic sweep: periods crossing the upper and the lower end of the range with rising and falling drift */
   for (f = 0; f < 3; f++) for (nb = 2; nb <= 4; nb += 2) for (kind = 0; kind < 2; kind++)
      for (ip = -10; ip <= 4; ip += 2) for (is = -3; is <= 3; is++) {
         vsig_t s; int fs = fss[f];
         s.P0 = (kind == 0 ? PE_MAX_LAG_MS : PE_MIN_LAG_MS) * fs + (kind == 0 ? 0.5 * ip : 0.5 * (ip + 6));
         s.slope = is * 0.006; s.phase = 3.0 + 7.0 * (ip & 3); s.decay = kind == 0 ? 18.0 : 5.0; s.omega = 0.35; s.amp = 8000.0; s.noise = 20.0;
         analyse(fs, nb, 2, 0, 0.6, 0.3, &s, &fixed);
      }
   for (i = 0; i < n; i++) {
      vsig_t s; int fs = fss[vbelow(&r, 3)], complexity = (int)vbelow(&r, 3), prevLag;
      nb = vchance(&r, 50) ? 2 : 4;
      kind = (int)vbelow(&r, 3);
      rand_sig(&r, fs, kind, &s);
      prevLag = vchance(&r, 50) ? 0 : vrange(&r, PE_MIN_LAG_MS * fs, PE_MAX_LAG_MS * fs);
      analyse(fs, nb, complexity, prevLag, 0.4 + 0.4 * unif(&r), 0.15 + 0.35 * unif(&r), &s, &r);
   }
   cnt = 0;
   for (a = 0; a < 3; a++) for (b = 0; b < 2; b++) for (c = 0; c < PE_NB_CBKS_STAGE3_MAX; c++) cnt += seen_contour[a][b][c];
   printf("# pitchenc voiced=%ld unvoiced=%ld lag_on_upper_bound=%ld lag_on_lower_bound=%ld upper_clamp_active=%ld lower_clamp_active=%ld distinct_rate_nb_contour=%d\n",
      n_voiced, n_unvoiced, n_top, n_bottom, n_clamp_top, n_clamp_bot, cnt);
}

/* ------------------------------------------------------------------ enc mode: the real encoder against the real decoder */
static void run_enc(uint64_t seed, long n)
{
   static const int fss[3] = {8, 12, 16};
   static const int bws[3] = {OPUS_BANDWIDTH_NARROWBAND, OPUS_BANDWIDTH_MEDIUMBAND, OPUS_BANDWIDTH_WIDEBAND};
   vrng r; long it, cases = 0, viol = 0, frames = 0, top = 0, bot = 0, unmatched = 0;
   r.s = seed * 0x9E3779B97F4A7C15ULL + 0xE18CULL;
   for (it = 0; it < n; it++) {
      int f = (int)vbelow(&r, 3), fs = fss[f], Fs = fs * 1000, err, p, npk = vrange(&r, 4, 10), kind = vchance(&r, 45) ? 0 : (int)vbelow(&r, 3), k, j;
      int ms = vchance(&r, 30) ? 10 : vchance(&r, 70) ? 20 : vchance(&r, 50) ? 40 : 60;
      int fsz = Fs / 1000 * ms, total = fsz * npk;
      OpusEncoder *enc = opus_encoder_create(Fs, 1, OPUS_APPLICATION_VOIP, &err);
      OpusDecoder *dec = opus_decoder_create(Fs, 1, &err);
      double *x = (double *)malloc(total * sizeof(double));
      float *pcm = (float *)malloc(fsz * sizeof(float)), *out = (float *)malloc(fsz * sizeof(float));
      unsigned char pkt[1500];
      vsig_t sg;
      rand_sig(&r, fs, kind, &sg);
      if (vchance(&r, 60)) sg.slope *= 0.25;            /* long signals: keep the period inside the range for a while */
      make_signal(x, total, &sg, &r);
      opus_encoder_ctl(enc, OPUS_SET_FORCE_MODE(MODE_SILK_ONLY));
      opus_encoder_ctl(enc, OPUS_SET_BANDWIDTH(bws[f]));
      opus_encoder_ctl(enc, OPUS_SET_COMPLEXITY(vrange(&r, 0, 10)));
      opus_encoder_ctl(enc, OPUS_SET_BITRATE(vrange(&r, 8000, 40000)));
      opus_encoder_ctl(enc, OPUS_SET_VBR(vchance(&r, 70)));
      for (p = 0; p < npk; p++) {
         int len, got;
         for (j = 0; j < fsz; j++) pcm[j] = (float)(x[p * fsz + j] / 32768.0);
         n_enc_rec = n_dec_rec = 0;
         len = opus_encode_float(enc, pcm, fsz, pkt, sizeof(pkt));
         if (len <= 0) break;
         {
            unsigned char *q = vexact(pkt, len);
            got = opus_decode_float(dec, q, len, out, fsz, 0);
            free(q);
         }
         if (got != fsz) break;
         cases++;
         if (n_enc_rec != n_dec_rec) { unmatched++; continue; }      /* not this clause: counted, reported in the summary */
         for (k = 0; k < n_enc_rec; k++) {
            rec_t *e = &enc_rec[k], *d = &dec_rec[k]; int bad = e->fs != d->fs || e->nb != d->nb, hi = PE_MAX_LAG_MS * e->fs, lo = PE_MIN_LAG_MS * e->fs, t = 0, b = 0;
            frames++;
            for (j = 0; j < e->nb && !bad; j++) { if (e->lags[j] != d->lags[j]) bad = 1; if (d->lags[j] == hi) t = 1; if (d->lags[j] == lo) b = 1; }
            top += t; bot += b;
            if (bad) {
               viol++;
               printf("V silkparams pitchenc %d %d %d %d | encoder pitchL == decoder pitchL (opus_encode_float -> opus_decode_float, mono SILK-only %d kHz, %d ms, packet %d of case %ld seed %llu) | enc=",
                  e->fs, e->nb, e->li, e->ci, fs, ms, p, it, (unsigned long long)seed);
               plisti(e->lags, e->nb); printf(" dec(fs=%d nb=%d li=%d ci=%d)=", d->fs, d->nb, d->li, d->ci); plisti(d->lags, d->nb); printf("\n");
            }
         }
      }
      free(x); free(pcm); free(out);
      opus_encoder_destroy(enc); opus_decoder_destroy(dec);
   }
   printf("# pitchenc-enc voiced_frames=%ld lag_on_upper_bound=%ld lag_on_lower_bound=%ld packets_with_unequal_voiced_counts=%ld\n", frames, top, bot, unmatched);
   printf("# search cases=%ld violations=%ld\n", cases, viol);
}

static void run_stdin(void)
{
   /* replay: `silkparams pitchenc fs nb li ci` — the tail cannot be called in isolation, so the recorded case is looked
      for by re-running the deterministic sweep; here only the decoder side is evaluated */
   char line[256];
   while (fgets(line, sizeof(line), stdin)) {
      int fs, nb, li, ci, dec[PE_MAX_NB_SUBFR];
      if (sscanf(line, "silkparams pitchenc %d %d %d %d", &fs, &nb, &li, &ci) == 4 && (nb == 2 || nb == 4) && (fs == 8 || fs == 12 || fs == 16)
          && ci >= 0 && ci < lag_cbk_size(fs, nb)) {
         __real_silk_decode_pitch((opus_int16)li, (opus_int8)ci, dec, fs, nb);
         printf("O OK dec="); plisti(dec, nb); printf("\n");
      } else printf("O bad-op\n");
   }
}

int main(int argc, char **argv)
{
   vinstall_traps();
   if (argc >= 4 && !strcmp(argv[1], "tail")) run_tail(strtoull(argv[2], 0, 10), atol(argv[3]));
   else if (argc >= 4 && !strcmp(argv[1], "enc")) run_enc(strtoull(argv[2], 0, 10), atol(argv[3]));
   else if (argc >= 2 && !strcmp(argv[1], "stdin")) run_stdin();
   else { fprintf(stderr, "usage: c18_pitchenc tail|enc <seed> <n> | stdin\n"); return 64; }
   fflush(stdout);
   return 0;
}
