/* c18_chain.c — C18 extension "chain": two implementation-only searches on the state that is carried from frame to frame.
 *
 *   switch <seed> <n> [full]   crafted SILK-only packets (range ENcoder + silk_encode_indices, zero excitation) are decoded by the
 *                       real opus_decode; histories good frame(s) at one internal rate -> (loss / reset / nothing) -> frame at
 *                       another rate (all ordered pairs of NB/MB/WB x 10/20 ms, mono / stereo, mono->stereo, mid-only->side)
 *                       whose first frame carries NLSFInterpCoef_Q2 in 0..4.  silk_decode_parameters of the library is replaced
 *                       by the same source (#include "silk/decode_parameters.c") with silk_NLSF2A wrapped: EVERY LSF vector
 *                       handed to silk_NLSF2A must lie in (0, 32768), be ordered with the minimum spacing of the codebook in
 *                       force (both half-frame filters), and both filters must pass silk_LPC_inverse_pred_gain.
 *   gain <seed> <n>     real encoder (forced SILK-only, CBR / CVBR / VBR, 6..24 kb/s, NB/MB/WB, 10..60 ms, complexity 0..10,
 *                       FEC on/off, mono/stereo) -> real decoder; after every packet the encoder's running state is compared
 *                       with the decoder's: LastGainIndex, previous quantised NLSF vector, previous lag.
 *   replay x<pkt> ...   decode the given packets ('-' = lost, 'R' = OPUS_RESET_STATE) on a fresh 48 kHz stereo decoder, print the
 *                       vectors handed to silk_NLSF2A and the verdict.
 *   greplay <args>      re-run one gain stream (arguments as printed in the witness).
 * Output: `W <family> <input> => <observation>` per failing case, `S cases=… …` summary.  All randomness from the seed. */
#include "config.h"
#include "vcommon.h"
#include <math.h>
#include <stdarg.h>
#include "opus.h"
#include "opus_private.h"
#include "silk/main.h"
#include "silk/API.h"
#include "silk/control.h"
#include "silk/tables.h"
#ifdef FIXED_POINT
#include "silk/fixed/main_FIX.h"
#else
#include "silk/float/main_FLP.h"
#endif
#include "celt/entenc.h"
#include "celt/entdec.h"

/* ------------------------------------------------------------------ recording copy of silk_decode_parameters */
static void rec_NLSF2A(opus_int16 *a_Q12, const opus_int16 *NLSF, const opus_int d, int arch);
#define silk_NLSF2A rec_NLSF2A
#define silk_decode_parameters inner_decode_parameters
#include "silk/decode_parameters.c"
#undef silk_NLSF2A
#undef silk_decode_parameters

static silk_decoder_state *g_dec;      /* decoder whose parameters are being decoded */
static int g_call;                     /* index of the silk_NLSF2A call inside the frame */
static int g_verbose;
static long g_nlsf2a, g_interp_used, g_frames;
static int g_bad; static char g_why[1200];

static void note(const char *fmt, ...)
{
   va_list ap; size_t l = strlen(g_why);
   g_bad++;
   if (l > sizeof g_why - 300) return;
   if (l) { g_why[l++] = ';'; g_why[l++] = ' '; g_why[l] = 0; }
   va_start(ap, fmt); vsnprintf(g_why + l, sizeof g_why - l, fmt, ap); va_end(ap);
}

static void rec_NLSF2A(opus_int16 *a_Q12, const opus_int16 *NLSF, const opus_int d, int arch)
{
   const silk_NLSF_CB_struct *cb = g_dec ? g_dec->psNLSF_CB : NULL;
   int i, bad = 0; char v[400]; size_t l = 0;
   g_nlsf2a++;
   if (g_call == 1) g_interp_used++;
   if (cb) {
      if (d != cb->order) { note("silk_NLSF2A order %d but the codebook in force has order %d", d, cb->order); bad = 1; }
      else {
         if (NLSF[0] < cb->deltaMin_Q15[0]) bad = 1;
         for (i = 1; i < d; i++) if (NLSF[i] - NLSF[i - 1] < cb->deltaMin_Q15[i]) bad = 1;
         if (32768 - NLSF[d - 1] < cb->deltaMin_Q15[d]) bad = 1;
         if (bad) {
            for (i = 0; i < d; i++) l += snprintf(v + l, sizeof v - l, "%s%d", i ? "," : "", NLSF[i]);
            note("fs=%dkHz %s LSF vector handed to silk_NLSF2A is not ordered with the codebook's minimum spacing: {%s}"
                 " (first_frame_after_reset=%d, NLSFInterpCoef_Q2=%d)", g_dec->fs_kHz,
                 g_call == 0 ? "decoded (second-half)" : "interpolated (first-half)", v, g_dec->first_frame_after_reset,
                 g_dec->indices.NLSFInterpCoef_Q2);
            for (i = 1; i < d; i++) if (NLSF[i] - NLSF[i - 1] < cb->deltaMin_Q15[i]) {
               note("NLSF[%d]-NLSF[%d] = %d < deltaMin %d", i, i - 1, NLSF[i] - NLSF[i - 1], cb->deltaMin_Q15[i]); break; }
         }
      }
   }
   if (g_verbose) {
      printf("#   silk_NLSF2A call %d (fs %d kHz, flag %d, interp %d): {", g_call, g_dec ? g_dec->fs_kHz : 0,
             g_dec ? g_dec->first_frame_after_reset : -1, g_dec ? g_dec->indices.NLSFInterpCoef_Q2 : -1);
      for (i = 0; i < d; i++) printf("%s%d", i ? "," : "", NLSF[i]);
      printf("}%s\n", bad ? "  <-- NOT ORDERED" : "");
   }
   g_call++;
   silk_NLSF2A(a_Q12, NLSF, d, arch);
}

/* replaces the library's silk_decode_parameters (decode_parameters.o is not pulled from the archive) */
void silk_decode_parameters(silk_decoder_state *psDec, silk_decoder_control *psDecCtrl, opus_int condCoding)
{
   int k, i;
   g_dec = psDec; g_call = 0; g_frames++;
   inner_decode_parameters(psDec, psDecCtrl, condCoding);
   for (k = 0; k < 2; k++) {
      if (silk_LPC_inverse_pred_gain_c(psDecCtrl->PredCoef_Q12[k], psDec->LPC_order) <= 0)
         note("fs=%dkHz half %d: the prediction filter fails silk_LPC_inverse_pred_gain (unstable)", psDec->fs_kHz, k);
   }
   for (i = 0; i < psDec->nb_subfr; i++)
      if (psDecCtrl->Gains_Q16[i] < 65536 || psDecCtrl->Gains_Q16[i] > 1686110208)
         note("gain %d out of the dequantiser's range", (int)psDecCtrl->Gains_Q16[i]);
   g_dec = NULL;
}

/* ------------------------------------------------------------------ crafted packets */
typedef struct { int sig, qoff, g[4], cb1, res[16], interp, lag, per, ltp[4], scale, seed; } fr_t;
typedef struct { int kind;   /* 0 packet, 1 lost, 2 reset */
                 int bw, ms, stereo, midonly; fr_t f[2]; unsigned char pkt[400]; int len; } step_t;

static const int bw_khz[3] = { 8, 12, 16 };

static void enc_frame(ec_enc *enc, int khz, int nb, const fr_t *f)
{
   static silk_encoder_state E; static opus_int8 pulses[MAX_FRAME_LENGTH + 32]; int i;
   memset(&E, 0, sizeof E); memset(pulses, 0, sizeof pulses);
   E.fs_kHz = khz; E.nb_subfr = nb; E.frame_length = nb * 5 * khz;
   E.psNLSF_CB = khz == 16 ? &silk_NLSF_CB_WB : &silk_NLSF_CB_NB_MB;
   E.predictLPCOrder = E.psNLSF_CB->order;
   if (khz == 8) E.pitch_contour_iCDF = nb == 4 ? silk_pitch_contour_NB_iCDF : silk_pitch_contour_10_ms_NB_iCDF;
   else E.pitch_contour_iCDF = nb == 4 ? silk_pitch_contour_iCDF : silk_pitch_contour_10_ms_iCDF;
   E.pitch_lag_low_bits_iCDF = khz == 16 ? silk_uniform8_iCDF : khz == 12 ? silk_uniform6_iCDF : silk_uniform4_iCDF;
   E.indices.signalType = (opus_int8)f->sig; E.indices.quantOffsetType = (opus_int8)f->qoff;
   for (i = 0; i < nb; i++) E.indices.GainsIndices[i] = (opus_int8)f->g[i];
   E.indices.NLSFIndices[0] = (opus_int8)f->cb1;
   for (i = 0; i < E.psNLSF_CB->order; i++) E.indices.NLSFIndices[i + 1] = (opus_int8)f->res[i];
   E.indices.NLSFInterpCoef_Q2 = (opus_int8)f->interp;
   E.indices.lagIndex = (opus_int16)f->lag; E.indices.contourIndex = 0; E.indices.PERIndex = (opus_int8)f->per;
   for (i = 0; i < nb; i++) E.indices.LTPIndex[i] = (opus_int8)f->ltp[i];
   E.indices.LTP_scaleIndex = (opus_int8)f->scale; E.indices.Seed = (opus_int8)f->seed;
   silk_encode_indices(&E, enc, 0, 0, CODE_INDEPENDENTLY);
   silk_encode_pulses(enc, f->sig, f->qoff, pulses, E.frame_length);
}

static void craft(step_t *s)
{
   ec_enc enc; int khz = bw_khz[s->bw], nb = s->ms == 10 ? 2 : 4, n, nbytes;
   opus_int8 ix[2][3] = { { 0, 0, 0 }, { 0, 0, 0 } };
   memset(s->pkt, 0, sizeof s->pkt);
   s->pkt[0] = (unsigned char)(((s->bw * 4 + (s->ms == 10 ? 0 : 1)) << 3) | (s->stereo ? 4 : 0));
   ec_enc_init(&enc, s->pkt + 1, sizeof s->pkt - 1);
   for (n = 0; n <= s->stereo; n++) {
      int vad = s->f[n].sig > 0;
      if (n == 1 && s->midonly) vad = 0;
      ec_enc_bit_logp(&enc, vad, 1); ec_enc_bit_logp(&enc, 0, 1);
   }
   if (s->stereo) {
      silk_stereo_encode_pred(&enc, ix);
      if (s->midonly || s->f[1].sig == 0) silk_stereo_encode_mid_only(&enc, (opus_int8)(s->midonly ? 1 : 0));
   }
   enc_frame(&enc, khz, nb, &s->f[0]);
   if (s->stereo && !s->midonly) enc_frame(&enc, khz, nb, &s->f[1]);
   nbytes = (ec_tell(&enc) + 7) >> 3;
   if (nbytes < 1) nbytes = 1;
   ec_enc_shrink(&enc, (opus_uint32)nbytes);
   ec_enc_done(&enc);
   s->len = enc.error ? -1 : 1 + nbytes;
}

static void rnd_frame(vrng *r, fr_t *f, int khz, int cb1, int respat, int interp)
{
   int i, order = khz == 16 ? 16 : 10;
   memset(f, 0, sizeof *f);
   f->sig = vchance(r, 25) ? 2 : (int)vbelow(r, 2) ; f->qoff = (int)vbelow(r, 2);
   f->g[0] = (int)vbelow(r, 64); for (i = 1; i < 4; i++) f->g[i] = (int)vbelow(r, 41);
   f->cb1 = cb1 < 0 ? (int)vbelow(r, 32) : cb1;
   for (i = 0; i < order; i++) {
      switch (respat) {
      case 0: f->res[i] = 0; break;
      case 1: f->res[i] = 10; break;
      case 2: f->res[i] = -10; break;
      case 3: f->res[i] = (i & 1) ? 10 : -10; break;
      case 4: f->res[i] = (i & 1) ? -10 : 10; break;
      case 5: f->res[i] = vrange(r, -4, 4); break;
      default: f->res[i] = vrange(r, -10, 10); break;
      }
   }
   f->interp = interp < 0 ? (int)vbelow(r, 5) : interp;
   if (f->sig == 2) {
      f->lag = (int)vbelow(r, (uint32_t)(32 * (khz >> 1))); f->per = (int)vbelow(r, 3);
      for (i = 0; i < 4; i++) f->ltp[i] = (int)vbelow(r, (uint32_t)(8 << f->per));
      f->scale = (int)vbelow(r, 3);
   }
   f->seed = (int)vbelow(r, 4);
}

static OpusDecoder *g_od;
static opus_int16 g_pcm[5760 * 2];

/* runs a history; returns number of predicate failures, text in g_why */
static int run_steps(step_t *st, int ns)
{
   int i, rc;
   opus_decoder_ctl(g_od, OPUS_RESET_STATE);
   g_bad = 0; g_why[0] = 0;
   for (i = 0; i < ns; i++) {
      if (st[i].kind == 2) { opus_decoder_ctl(g_od, OPUS_RESET_STATE); continue; }
      if (st[i].kind == 1) { rc = opus_decode(g_od, NULL, 0, g_pcm, st[i].ms * 48, 0); continue; }
      if (g_verbose) printf("# step %d: packet of %d bytes (TOC 0x%02x)\n", i, st[i].len, st[i].pkt[0]);
      rc = opus_decode(g_od, st[i].pkt, st[i].len, g_pcm, 5760, 0);
      if (rc != st[i].ms * 48) note("step %d: opus_decode returned %d (%s) on a crafted legal packet", i, rc, rc < 0 ? verr(rc) : "samples");
   }
   return g_bad;
}

static void print_steps(step_t *st, int ns)
{
   int i;
   printf("replay");
   for (i = 0; i < ns; i++) {
      printf(" ");
      if (st[i].kind == 2) printf("R"); else if (st[i].kind == 1) printf("-"); else vhex(stdout, st[i].pkt, st[i].len);
   }
   printf(" [");
   for (i = 0; i < ns; i++) {
      if (st[i].kind == 2) printf("%sreset", i ? " -> " : ""); else if (st[i].kind == 1) printf("%slost", i ? " -> " : "");
      else printf("%s%dkHz/%dms/%s cb1=%d interp=%d", i ? " -> " : "", bw_khz[st[i].bw], st[i].ms,
                  st[i].stereo ? (st[i].midonly ? "stereo-midonly" : "stereo") : "mono", st[i].f[0].cb1, st[i].f[0].interp);
   }
   printf("]");
}

static int do_switch(uint64_t seed, long n, int full)
{
   vrng r; long cases = 0, nw = 0, gridc = 0; int a, b, q, i0, i1, rp, err; step_t st[8];
   static const int cbA[] = { 0, 7, 13, 22, 31, 4, 17, 27 }, cbB[] = { 0, 3, 9, 14, 20, 25, 31, 6, 11, 17, 23, 28 };
   int nA = full ? 8 : 3, nB = full ? 12 : 4, nR = full ? 7 : 4;
   r.s = seed * 0x9E3779B97F4A7C15ULL + 18;
   g_od = opus_decoder_create(48000, 2, &err);
   /* (1) systematic grid: good frame(s) at rate a -> frame at rate b with interp q */
   for (a = 0; a < 6; a++) for (b = 0; b < 6; b++) for (q = 0; q <= 4; q++)
   for (i0 = 0; i0 < nA; i0++) for (i1 = 0; i1 < nB; i1++) for (rp = 0; rp < nR; rp++) {
      int ns = 0, k, pre = 1 + (int)vbelow(&r, 2), mid = (int)vbelow(&r, 8), stereo = (int)vbelow(&r, 4) == 0;
      memset(st, 0, sizeof st);
      for (k = 0; k < pre; k++) {
         st[ns].bw = a >> 1; st[ns].ms = (a & 1) ? 20 : 10; st[ns].stereo = stereo && vchance(&r, 50);
         rnd_frame(&r, &st[ns].f[0], bw_khz[a >> 1], (cbA[i0] + 5 * k) & 31, k ? 6 : (rp + i1) % 7, k ? -1 : 4);
         rnd_frame(&r, &st[ns].f[1], bw_khz[a >> 1], -1, 6, -1);
         craft(&st[ns]); ns++;
      }
      if (mid == 0) { st[ns].kind = 1; st[ns].ms = (a & 1) ? 20 : 10; ns++; }     /* a lost packet before the switch */
      st[ns].bw = b >> 1; st[ns].ms = (b & 1) ? 20 : 10; st[ns].stereo = stereo;
      rnd_frame(&r, &st[ns].f[0], bw_khz[b >> 1], cbB[i1], rp, q);
      rnd_frame(&r, &st[ns].f[1], bw_khz[b >> 1], (cbB[i1] * 7 + 3) & 31, (rp + 2) % 7, q);
      craft(&st[ns]); ns++;
      /* one more frame at the new rate: now interpolation is legitimate */
      st[ns] = st[ns - 1]; rnd_frame(&r, &st[ns].f[0], bw_khz[b >> 1], -1, 6, -1); rnd_frame(&r, &st[ns].f[1], bw_khz[b >> 1], -1, 6, -1);
      craft(&st[ns]); ns++;
      cases++; gridc++;
      if (run_steps(st, ns) && nw < 6) { printf("W switch "); print_steps(st, ns); printf(" => %s\n", g_why); nw++; }
   }
   /* (2) random histories: resets, losses, mono->stereo, mid-only -> side, rate switches, 3..7 steps */
   for (; n > 0; n--) {
      int ns = 3 + (int)vbelow(&r, 5), k, bw = (int)vbelow(&r, 3), ms = vchance(&r, 70) ? 20 : 10, stereo = vchance(&r, 40);
      memset(st, 0, sizeof st);
      for (k = 0; k < ns; k++) {
         int c = (int)vbelow(&r, 100);
         if (k > 0 && c < 8) { st[k].kind = 2; continue; }
         if (k > 0 && c < 18) { st[k].kind = 1; st[k].ms = ms; continue; }
         if (c < 50) bw = (int)vbelow(&r, 3);
         if (c >= 40 && c < 60) ms = vchance(&r, 70) ? 20 : 10;
         if (c >= 55 && c < 80) stereo = !stereo;
         st[k].bw = bw; st[k].ms = ms; st[k].stereo = stereo; st[k].midonly = stereo && vchance(&r, 35);
         rnd_frame(&r, &st[k].f[0], bw_khz[bw], -1, (int)vbelow(&r, 7), vchance(&r, 70) ? (int)vbelow(&r, 4) : 4);
         rnd_frame(&r, &st[k].f[1], bw_khz[bw], -1, (int)vbelow(&r, 7), vchance(&r, 70) ? (int)vbelow(&r, 4) : 4);
         craft(&st[k]);
      }
      cases++;
      if (run_steps(st, ns) && nw < 6) { printf("W switch "); print_steps(st, ns); printf(" => %s\n", g_why); nw++; }
   }
   printf("S cases=%ld grid=%ld frames=%ld nlsf2a_vectors=%ld interpolated=%ld failing_reported=%ld\n", cases, gridc, g_frames, g_nlsf2a,
          g_interp_used, nw);
   opus_decoder_destroy(g_od);
   return 0;
}

static int do_replay(int argc, char **argv)
{
   static step_t st[64]; int ns = 0, i, err;
   for (i = 0; i < argc && ns < 64; i++) {
      memset(&st[ns], 0, sizeof st[ns]);
      if (argv[i][0] == '[') break;
      if (!strcmp(argv[i], "R")) st[ns].kind = 2;
      else if (!strcmp(argv[i], "-")) { st[ns].kind = 1; st[ns].ms = 20; }
      else { long l = vunhex(argv[i], st[ns].pkt, sizeof st[ns].pkt); if (l < 1) { printf("bad packet\n"); return 2; }
             st[ns].len = (int)l; st[ns].ms = ((st[ns].pkt[0] >> 3) & 3) == 0 ? 10 : 20; }
      ns++;
   }
   g_od = opus_decoder_create(48000, 2, &err); g_verbose = 1;
   if (run_steps(st, ns)) { printf("W switch replay => %s\nFAIL\n", g_why); return 1; }
   printf("PASS: every LSF vector handed to silk_NLSF2A is ordered with the codebook spacing, all filters stable\n");
   return 0;
}

/* ------------------------------------------------------------------ family 2: encoder / decoder chains */
/* mirror of the decoder super struct of silk/dec_API.c:44-53 (private to that file; only the leading members are read) */
typedef struct { silk_decoder_state channel_state[DECODER_NUM_CHANNELS]; stereo_dec_state sStereo; opus_int nChannelsAPI;
                 opus_int nChannelsInternal; opus_int prev_decode_only_middle; } silk_decoder;
typedef struct { int api_hz, ch, bw, ms, bitrate, vbr, cvbr, cx, fec, loss, sigkind, npk, bwswitch; uint64_t sseed; } gcfg_t;
static long g_pk, g_skip_dtx, g_skip_mode, g_cmp_gain, g_cmp_nlsf, g_cmp_lag, g_cmp_side;

static int run_gain(const gcfg_t *c, int verbose, char *why, size_t cap)
{
   int err, n, i, ch, fails = 0; vrng r; const int fsz = c->api_hz / 1000 * c->ms;
   OpusEncoder *enc = opus_encoder_create(c->api_hz, c->ch, OPUS_APPLICATION_VOIP, &err);
   OpusDecoder *dec = opus_decoder_create(c->api_hz, c->ch, &err);
   silk_encoder *senc; silk_decoder *sdec;
   opus_int16 *pcm = (opus_int16 *)malloc(sizeof(opus_int16) * fsz * 2), *out = (opus_int16 *)malloc(sizeof(opus_int16) * fsz * 2);
   unsigned char pkt[1500]; double ph = 0, lev = 0.5; long t = 0, seg = 0; int burst = 1;
   static const int bws[3] = { OPUS_BANDWIDTH_NARROWBAND, OPUS_BANDWIDTH_MEDIUMBAND, OPUS_BANDWIDTH_WIDEBAND };
   why[0] = 0; r.s = c->sseed;
   opus_encoder_ctl(enc, OPUS_SET_BITRATE(c->bitrate));
   opus_encoder_ctl(enc, OPUS_SET_VBR(c->vbr)); opus_encoder_ctl(enc, OPUS_SET_VBR_CONSTRAINT(c->cvbr));
   opus_encoder_ctl(enc, OPUS_SET_COMPLEXITY(c->cx));
   opus_encoder_ctl(enc, OPUS_SET_BANDWIDTH(bws[c->bw])); opus_encoder_ctl(enc, OPUS_SET_MAX_BANDWIDTH(bws[c->bw]));
   opus_encoder_ctl(enc, OPUS_SET_SIGNAL(OPUS_SIGNAL_VOICE));
   opus_encoder_ctl(enc, OPUS_SET_FORCE_MODE(MODE_SILK_ONLY));
   opus_encoder_ctl(enc, OPUS_SET_INBAND_FEC(c->fec)); opus_encoder_ctl(enc, OPUS_SET_PACKET_LOSS_PERC(c->loss));
   opus_encoder_ctl(enc, OPUS_SET_EXPERT_FRAME_DURATION(c->ms == 10 ? OPUS_FRAMESIZE_10_MS : c->ms == 20 ? OPUS_FRAMESIZE_20_MS :
                                                        c->ms == 40 ? OPUS_FRAMESIZE_40_MS : OPUS_FRAMESIZE_60_MS));
   senc = (silk_encoder *)((char *)enc + ((int *)enc)[1]);
   sdec = (silk_decoder *)((char *)dec + ((int *)dec)[1]);
   for (n = 0; n < c->npk; n++) {
      int len, rc;
      if (c->bwswitch && n == c->npk / 2) { int nb = (c->bw + 1 + (int)(c->sseed % 2)) % 3;
         opus_encoder_ctl(enc, OPUS_SET_MAX_BANDWIDTH(bws[nb > c->bw ? nb : c->bw])); opus_encoder_ctl(enc, OPUS_SET_BANDWIDTH(bws[nb])); }
      for (i = 0; i < fsz; i++, t++) {
         double s = 0, f0, nz; int h;
         if (seg-- <= 0) {     /* new level segment */
            switch (c->sigkind) {
            case 0: seg = c->api_hz * 35 / 1000; lev = ((t / (seg ? seg : 1)) % 3 == 0) ? 0.04 : (((t / (seg ? seg : 1)) % 3 == 1) ? 0.9 : 0.3); break;
            case 1: seg = c->api_hz * (long)vrange(&r, 10, 80) / 1000; lev = vchance(&r, 30) ? 0.02 + 0.05 * (vbelow(&r, 100) / 100.0) : 0.3 + 0.9 * (vbelow(&r, 100) / 100.0); break;
            case 2: seg = c->api_hz * (long)vrange(&r, 60, 400) / 1000; burst = !burst; lev = burst ? 0.4 + 0.8 * (vbelow(&r, 100) / 100.0) : (vchance(&r, 50) ? 0.0 : 0.01); break;
            default: seg = c->api_hz * (long)vrange(&r, 5, 30) / 1000; lev = pow(10.0, -(double)vbelow(&r, 40) / 20.0) * 1.2; break;
            }
         }
         f0 = 145 + 35 * sin(2 * M_PI * t / (double)c->api_hz * 0.7) + (c->sigkind == 3 ? 60 * sin(2 * M_PI * t / (double)c->api_hz * 3.1) : 0);
         ph += 2 * M_PI * f0 / c->api_hz;
         for (h = 1; h <= 12; h++) s += sin(h * ph) / h;
         nz = ((int)vbelow(&r, 65536) - 32768) / 32768.0;
         s = 9000 * lev * s + 2500 * lev * nz;
         if (s > 32767) s = 32767; if (s < -32768) s = -32768;
         if (c->ch == 1) pcm[i] = (opus_int16)s;
         else { pcm[2 * i] = (opus_int16)s; pcm[2 * i + 1] = (opus_int16)(0.6 * s + 900 * lev * (((int)vbelow(&r, 65536) - 32768) / 32768.0)); }
      }
      len = opus_encode(enc, pcm, fsz, pkt, sizeof pkt);
      if (len < 0) { snprintf(why, cap, "packet %d: opus_encode error %s", n, verr(len)); fails++; break; }
      g_pk++;
      if ((pkt[0] & 0x80) || ((pkt[0] >> 3) >= 12)) { g_skip_mode++; opus_decode(dec, pkt, len, out, fsz, 0); continue; }
      rc = opus_decode(dec, pkt, len, out, fsz, 0);
      if (rc != fsz) { snprintf(why, cap, "packet %d: opus_decode returned %d", n, rc); fails++; break; }
      {  /* a frame of <= 1 byte carries no SILK data (DTX, or the encoder dropped a frame that did not fit its budget): the
            decoder conceals it, nothing to compare for this packet */
         const unsigned char *fr[48]; opus_int16 sz[48]; unsigned char toc; int po, nf, q, empty = 0;
         nf = opus_packet_parse(pkt, len, &toc, fr, sz, &po);
         for (q = 0; q < nf; q++) if (sz[q] <= 1) empty = 1;
         if (nf < 1 || empty) { g_skip_dtx++; continue; }
      }
      for (ch = 0; ch < sdec->nChannelsInternal && ch < 2; ch++) {
         silk_decoder_state *d = &sdec->channel_state[ch];
         int e_gain = senc->state_Fxx[ch].sShape.LastGainIndex, order = d->LPC_order, bad = 0; char msg[700]; size_t l = 0;
         if (ch == 1) {   /* the side channel is comparable only when this packet's last frame coded it on both sides */
            if (sdec->prev_decode_only_middle || senc->prev_decode_only_middle || senc->nChannelsInternal != 2) continue;
            g_cmp_side++;
         }
         if (senc->state_Fxx[ch].sCmn.fs_kHz != d->fs_kHz) {
            l += snprintf(msg + l, sizeof msg - l, " internal rate enc %d kHz / dec %d kHz;", senc->state_Fxx[ch].sCmn.fs_kHz, d->fs_kHz); bad = 1;
         } else {
            g_cmp_gain++;
            if (e_gain != d->LastGainIndex) {
               l += snprintf(msg + l, sizeof msg - l, " encoder LastGainIndex=%d, decoder LastGainIndex=%d (last sub-frame gain: encoder believes %d, "
                             "decoder reconstructs %d, Q16);", e_gain, d->LastGainIndex,
                             (int)silk_log2lin(silk_min_32(silk_SMULWB(1907825, e_gain) + 2090, 3967)),
                             (int)silk_log2lin(silk_min_32(silk_SMULWB(1907825, d->LastGainIndex) + 2090, 3967))); bad = 1;
            }
            g_cmp_nlsf++;
            if (memcmp(senc->state_Fxx[ch].sCmn.prev_NLSFq_Q15, d->prevNLSF_Q15, order * sizeof(opus_int16))) {
               for (i = 0; i < order; i++) if (senc->state_Fxx[ch].sCmn.prev_NLSFq_Q15[i] != d->prevNLSF_Q15[i]) break;
               l += snprintf(msg + l, sizeof msg - l, " previous quantised NLSF differs at [%d]: encoder %d, decoder %d;", i,
                             senc->state_Fxx[ch].sCmn.prev_NLSFq_Q15[i], d->prevNLSF_Q15[i]); bad = 1;
            }
            if (d->prevSignalType == TYPE_VOICED && senc->state_Fxx[ch].sCmn.prevSignalType == TYPE_VOICED) {
               g_cmp_lag++;
               if (senc->state_Fxx[ch].sCmn.prevLag != d->lagPrev || senc->state_Fxx[ch].sCmn.sNSQ.lagPrev != d->lagPrev) {
                  l += snprintf(msg + l, sizeof msg - l, " previous lag: encoder prevLag=%d NSQ.lagPrev=%d, decoder lagPrev=%d;",
                                senc->state_Fxx[ch].sCmn.prevLag, senc->state_Fxx[ch].sCmn.sNSQ.lagPrev, d->lagPrev); bad = 1;
               }
            }
            if (senc->state_Fxx[ch].sCmn.prevSignalType != d->prevSignalType) {
               l += snprintf(msg + l, sizeof msg - l, " previous signal type: encoder %d, decoder %d;", senc->state_Fxx[ch].sCmn.prevSignalType, d->prevSignalType); bad = 1;
            }
         }
         if (bad) {
            if (!fails) snprintf(why, cap, "packet %d (%d bytes, TOC 0x%02x) channel %d:%s", n, len, pkt[0], ch, msg);
            if (verbose) printf("#  packet %d channel %d:%s\n", n, ch, msg);
            fails++;
         }
      }
      if (fails && !verbose) break;
   }
   opus_encoder_destroy(enc); opus_decoder_destroy(dec); free(pcm); free(out);
   return fails;
}

static void print_gcfg(const gcfg_t *c)
{
   printf("greplay %d %d %d %d %d %d %d %d %d %d %d %d %d %llu", c->api_hz, c->ch, c->bw, c->ms, c->bitrate, c->vbr, c->cvbr, c->cx, c->fec,
          c->loss, c->sigkind, c->npk, c->bwswitch, (unsigned long long)c->sseed);
   printf(" [%d Hz %s, SILK-only %s, %d ms, %d b/s %s, complexity %d, FEC %d/%d%%, signal %d, %d packets%s]", c->api_hz, c->ch == 2 ? "stereo" : "mono",
          c->bw == 0 ? "NB" : c->bw == 1 ? "MB" : "WB", c->ms, c->bitrate, !c->vbr ? "CBR" : c->cvbr ? "CVBR" : "VBR", c->cx, c->fec, c->loss,
          c->sigkind, c->npk, c->bwswitch ? ", bandwidth switch at half time" : "");
}

static int do_gain(uint64_t seed, long n)
{
   vrng r; long k, nw = 0, streams = 0; char why[900];
   static const int mss[4] = { 20, 20, 40, 60 }, hz[3] = { 16000, 48000, 16000 };
   r.s = seed * 0xD1B54A32D192ED03ULL + 77;
   for (k = 0; k < n; k++) {
      gcfg_t c; int m = (int)vbelow(&r, 10);
      memset(&c, 0, sizeof c);
      c.api_hz = hz[vbelow(&r, 3)]; c.ch = vchance(&r, 20) ? 2 : 1; c.bw = k % 3 == 0 ? 2 : (int)vbelow(&r, 3);
      c.ms = k % 7 == 6 ? 10 : mss[vbelow(&r, 4)];
      c.bitrate = 6000 + 500 * (int)vbelow(&r, 37); if (c.ch == 2) c.bitrate += 4000;
      c.vbr = m < 6 ? 0 : 1; c.cvbr = m < 9; c.cx = k % 2 == 0 ? 10 : (int)vbelow(&r, 11);
      c.fec = vchance(&r, 30); c.loss = c.fec ? vrange(&r, 5, 30) : 0; c.sigkind = (int)(k % 4);
      c.npk = (int)(1500 + vbelow(&r, 1500)) / c.ms; c.bwswitch = vchance(&r, 15); c.sseed = vnext(&r);
      streams++;
      if (run_gain(&c, 0, why, sizeof why) && nw < 6) { printf("W gain "); print_gcfg(&c); printf(" => %s\n", why); nw++; }
   }
   printf("S cases=%ld streams=%ld packets=%ld skipped_dtx=%ld skipped_not_silk=%ld cmp_gain=%ld cmp_nlsf=%ld cmp_lag=%ld cmp_side=%ld failing_reported=%ld\n",
          g_pk, streams, g_pk, g_skip_dtx, g_skip_mode, g_cmp_gain, g_cmp_nlsf, g_cmp_lag, g_cmp_side, nw);
   return 0;
}

int main(int argc, char **argv)
{
   vinstall_traps();
   if (argc >= 4 && !strcmp(argv[1], "switch")) return do_switch(strtoull(argv[2], 0, 10), atol(argv[3]), argc > 4 && !strcmp(argv[4], "full"));
   if (argc >= 4 && !strcmp(argv[1], "gain")) return do_gain(strtoull(argv[2], 0, 10), atol(argv[3]));
   if (argc >= 3 && !strcmp(argv[1], "replay")) return do_replay(argc - 2, argv + 2);
   if (argc >= 16 && !strcmp(argv[1], "greplay")) {
      gcfg_t c; char why[900]; int f;
      c.api_hz = atoi(argv[2]); c.ch = atoi(argv[3]); c.bw = atoi(argv[4]); c.ms = atoi(argv[5]); c.bitrate = atoi(argv[6]); c.vbr = atoi(argv[7]);
      c.cvbr = atoi(argv[8]); c.cx = atoi(argv[9]); c.fec = atoi(argv[10]); c.loss = atoi(argv[11]); c.sigkind = atoi(argv[12]); c.npk = atoi(argv[13]);
      c.bwswitch = atoi(argv[14]); c.sseed = strtoull(argv[15], 0, 10);
      f = run_gain(&c, 1, why, sizeof why);
      if (f) { printf("W gain replay => %d packet/channel comparisons differ; first: %s\nFAIL\n", f, why); return 1; }
      printf("PASS: encoder and decoder chains agree after every packet (%ld packets)\n", g_pk);
      return 0;
   }
   fprintf(stderr, "usage: c18_chain switch <seed> <n> [full] | gain <seed> <n> | replay <pkts…> | greplay <cfg…>\n");
   return 2;
}
