/* c20_vad.c — correspondence + witness-search harness for the SILK VAD (property C20, OpusModel.SilkVad).

   The TU #includes silk/VAD.c, so `silk_VAD_Init`, `silk_VAD_GetSA_Q8_c` and `silk_VAD_GetNoiseLevels` are the
   code of /repo's working tree compiled with the library's own flags; `silk_ana_filt_bank_1`, `silk_lin2log`,
   `silk_sigm_Q15` come from the freshly built libopus.a.

   Modes:  tie <seed> <nseq>      sequences of frames through the real function with carried (and structurally
                                  perturbed) state; per call `I dtx vad …` / `O …` with every state field
           search <seed> <nseq>   property predicates on the implementation: output ranges, divisor positivity,
                                  state bounds, and "digital silence becomes inactive within K frames" from states
                                  reached by loud / arbitrary histories (prints `W {json}` per violation)          */
#ifdef HAVE_CONFIG_H
#include "config.h"
#endif
#include "vcommon.h"
#include <math.h>
#include <stdarg.h>
#include "silk/VAD.c"
#include "tuning_parameters.h"

static silk_encoder_state *E;

static void print_state(const silk_VAD_state *v)
{
   printf("%d,%d,%d,%d,%d,%d", v->AnaState[0], v->AnaState[1], v->AnaState1[0], v->AnaState1[1], v->AnaState2[0], v->AnaState2[1]);
   printf(",%d,%d,%d,%d", v->XnrgSubfr[0], v->XnrgSubfr[1], v->XnrgSubfr[2], v->XnrgSubfr[3]);
   printf(",%d,%d,%d,%d", v->NrgRatioSmth_Q8[0], v->NrgRatioSmth_Q8[1], v->NrgRatioSmth_Q8[2], v->NrgRatioSmth_Q8[3]);
   printf(",%d", v->HPstate);
   printf(",%d,%d,%d,%d", v->NL[0], v->NL[1], v->NL[2], v->NL[3]);
   printf(",%d,%d,%d,%d", v->inv_NL[0], v->inv_NL[1], v->inv_NL[2], v->inv_NL[3]);
   printf(",%d,%d,%d,%d", v->NoiseLevelBias[0], v->NoiseLevelBias[1], v->NoiseLevelBias[2], v->NoiseLevelBias[3]);
   printf(",%d", v->counter);
}

/* ---------------------------------------------------------------- signals */
typedef struct { int kind; double ph, f, amp; vrng r; } gen;
static double gnoise(gen *g) { return ((double)(vnext(&g->r) >> 11) / 9007199254740992.0) * 2 - 1; }
static short gsample(gen *g, int fs, long n)
{
   double x = 0;
   switch (g->kind) {
   case 0: x = 0; break;                                             /* digital silence */
   case 1: x = g->amp * gnoise(g); break;                            /* white noise */
   case 2: g->ph += g->f / fs; x = g->amp * sin(2 * M_PI * g->ph); break;   /* sine */
   case 3: x = ((n / 3) & 1) ? g->amp : -g->amp; break;              /* square near fs/6 */
   case 4: x = (n & 1) ? 32767 : -32768; break;                      /* full-scale Nyquist */
   case 5: x = (vbelow(&g->r, 2)) ? 32767 : -32768; break;           /* full-scale random sign */
   case 6: { double t = (double)n / fs, env = 0.55 + 0.45 * sin(2 * M_PI * 3.7 * t); int h;   /* speech-like */
             double f0 = 130 + 40 * sin(2 * M_PI * 0.9 * t); g->ph += f0 / fs;
             for (h = 1; h <= 20 && h * f0 < 0.45 * fs; h++) x += sin(2 * M_PI * h * g->ph) / (1 + pow((h * f0 - 600) / 300, 2));
             x = g->amp * env * x + 0.002 * g->amp * gnoise(g); } break;
   case 7: x = (n % 97 == 0) ? g->amp : 0; break;                    /* impulses */
   case 8: x = g->amp; break;                                        /* DC */
   default: x = (double)(short)vnext(&g->r); break;                  /* any int16 */
   }
   if (x > 32767) x = 32767; if (x < -32768) x = -32768;
   return (short)lrint(x);
}
static void gen_pick(gen *g, vrng *r)
{
   static const double amps[] = {1, 3, 10, 40, 200, 1000, 5000, 20000, 32767};
   g->kind = vbelow(r, 10);
   g->amp = amps[vbelow(r, 9)];
   g->f = 50 + vbelow(r, 3900);
   g->ph = 0; g->r.s = vnext(r);
}

/* structural perturbation of the state inside the documented ranges */
static void perturb(silk_VAD_state *v, vrng *r)
{
   int b;
   switch (vbelow(r, 7)) {
   case 6: for (b = 0; b < 4; b++) { v->inv_NL[b] = 1 + (int)vbelow(r, 300); v->NL[b] = silk_min(silk_int32_MAX / v->inv_NL[b], 0x00FFFFFF); } break;   /* NL at its clamp */
   case 0: for (b = 0; b < 4; b++) { v->inv_NL[b] = 1 + (int)(vnext(r) % 2147483647u); v->NL[b] = silk_min(silk_int32_MAX / v->inv_NL[b], 0x00FFFFFF); } break;
   case 1: v->counter = vrange(r, 15, 1000); break;
   case 2: for (b = 0; b < 4; b++) v->NrgRatioSmth_Q8[b] = 128 + (int)(vnext(r) % 2147483000u); break;
   case 3: for (b = 0; b < 4; b++) v->XnrgSubfr[b] = (int)(vnext(r) % 671088641u); break;     /* <= 40 * 4096^2 */
   case 4: for (b = 0; b < 4; b++) { v->NL[b] = 1 + (int)(vnext(r) % 0x00FFFFFFu); v->inv_NL[b] = silk_int32_MAX / v->NL[b]; } break;
   default: v->HPstate = (short)vrange(r, -16384, 16383); break;
   }
}

static int frame_len(int fs_khz, int ms) { return fs_khz * ms; }

static long n_cases, n_viol;
static void witness(const char *clause, uint64_t sub, int frame, const char *fmt, ...)
{
   va_list ap;
   n_viol++;
   printf("W {\"clause\":\"%s\",\"input\":\"vad-seq %llu\",\"subseed\":\"%llu\",\"call\":%d,\"detail\":\"", clause, (unsigned long long)sub, (unsigned long long)sub, frame);
   va_start(ap, fmt); vprintf(fmt, ap); va_end(ap);
   printf("\"}\n");
}

static long dist_sa[4], dist_len[6], k_hist[16];
static int g_tie;

static void call_vad(const short *in, int fs_khz, int len, uint64_t sub, int frame)
{
   silk_VAD_state *v = &E->sVAD;
   int i, b;
   E->fs_kHz = fs_khz; E->frame_length = len;
   if (g_tie) {
      printf("I dtx vad %d %d ", fs_khz, len); print_state(v); printf(" ");
      for (i = 0; i < len; i++) printf("%s%d", i ? "," : "", in[i]);
      printf("\n"); fflush(stdout);
   }
   silk_VAD_GetSA_Q8_c(E, in);
   n_cases++;
   if (g_tie) {
      printf("O sa=%d tilt=%d q=%d,%d,%d,%d st=", E->speech_activity_Q8, E->input_tilt_Q15, E->input_quality_bands_Q15[0], E->input_quality_bands_Q15[1],
             E->input_quality_bands_Q15[2], E->input_quality_bands_Q15[3]);
      print_state(v); printf("\n");
   } else {
      /* (a) ranges and state bounds on the implementation */
      if (E->speech_activity_Q8 < 0 || E->speech_activity_Q8 > 255) witness("vad_ranges", sub, frame, "speech_activity_Q8=%d", E->speech_activity_Q8);
      if (E->input_tilt_Q15 < -32768 || E->input_tilt_Q15 > 32767) witness("vad_ranges", sub, frame, "input_tilt_Q15=%d", E->input_tilt_Q15);
      for (b = 0; b < 4; b++) {
         if (E->input_quality_bands_Q15[b] < 0 || E->input_quality_bands_Q15[b] > 32767) witness("vad_ranges", sub, frame, "input_quality_bands_Q15[%d]=%d", b, E->input_quality_bands_Q15[b]);
         if (v->NL[b] < 1 || v->NL[b] > 0x00FFFFFF) witness("vad_state", sub, frame, "NL[%d]=%d", b, v->NL[b]);
         if (v->inv_NL[b] < 1) witness("vad_state", sub, frame, "inv_NL[%d]=%d", b, v->inv_NL[b]);
         if (v->XnrgSubfr[b] < 0) witness("vad_state", sub, frame, "XnrgSubfr[%d]=%d", b, v->XnrgSubfr[b]);
         if (v->NrgRatioSmth_Q8[b] < 1) witness("vad_state", sub, frame, "NrgRatioSmth_Q8[%d]=%d", b, v->NrgRatioSmth_Q8[b]);
      }
      if (v->counter < 15 || v->counter > 1000) witness("vad_state", sub, frame, "counter=%d", v->counter);
   }
   dist_sa[E->speech_activity_Q8 < 13 ? 0 : E->speech_activity_Q8 < 64 ? 1 : E->speech_activity_Q8 < 200 ? 2 : 3]++;
}

#ifndef C20_VAD_SILENCE_K
#define C20_VAD_SILENCE_K 8
#endif

static void do_seq(uint64_t sub)
{
   vrng r; gen g; short in[512];
   int fs_khz, ms, len, nseg, seg, i, f, frame = 0;
   long n = 0;
   const int thr = (int)SILK_FIX_CONST(SPEECH_ACTIVITY_DTX_THRES, 8);
   r.s = sub;
   fs_khz = 8 + 4 * (int)vbelow(&r, 3); ms = vchance(&r, 50) ? 20 : 10; len = frame_len(fs_khz, ms);
   dist_len[(fs_khz - 8) / 4 * 2 + (ms == 20)]++;
   memset(E, 0, sizeof(*E));
   silk_VAD_Init(&E->sVAD);
   nseg = vrange(&r, 1, 5);
   for (seg = 0; seg < nseg; seg++) {
      int nf = vchance(&r, 70) ? vrange(&r, 1, 8) : vrange(&r, 8, 60);
      gen_pick(&g, &r);
      if (vchance(&r, 25)) perturb(&E->sVAD, &r);
      if (vchance(&r, 10)) { ms = 30 - ms; len = frame_len(fs_khz, ms); }   /* 10 <-> 20 ms with carried state */
      for (f = 0; f < nf; f++) {
         for (i = 0; i < len; i++) in[i] = gsample(&g, fs_khz * 1000, n++);
         call_vad(in, fs_khz, len, sub, frame++);
      }
   }
   /* (b) digital silence from the state reached: inactive within K frames and from then on */
   {
      int first_inactive = -1, k;
      memset(in, 0, sizeof(in));
      for (k = 0; k < C20_VAD_SILENCE_K + 6; k++) {
         call_vad(in, fs_khz, len, sub, frame++);
         if (E->speech_activity_Q8 < thr) { if (first_inactive < 0) first_inactive = k; }
         else if (!g_tie && first_inactive >= 0)
            witness("vad_silence_stays_inactive", sub, frame, "digital silence: frame %d active (sa=%d) after frame %d was inactive", k, E->speech_activity_Q8, first_inactive);
      }
      if (first_inactive < 0 || first_inactive > C20_VAD_SILENCE_K) {
         if (!g_tie) witness("vad_silence_inactive", sub, frame, "digital silence (fs=%d kHz, %d ms): not inactive within %d frames (first inactive frame: %d)", fs_khz, ms, C20_VAD_SILENCE_K, first_inactive);
      }
      k_hist[first_inactive < 0 ? 15 : first_inactive > 14 ? 14 : first_inactive]++;
   }
}

int main(int argc, char **argv)
{
   vinstall_traps();
   E = (silk_encoder_state *)calloc(1, sizeof(*E));
   if (argc >= 4 && (!strcmp(argv[1], "tie") || !strcmp(argv[1], "search"))) {
      uint64_t seed = strtoull(argv[2], NULL, 10); long n = atol(argv[3]), i;
      vrng top; top.s = seed; top.s = vnext(&top) ^ 0x766164ULL;
      g_tie = !strcmp(argv[1], "tie");
      for (i = 0; i < n; i++) {
         uint64_t sub = vnext(&top); long v0 = n_viol;
         do_seq(sub);
         if (!g_tie && n_viol > v0) printf("# violating vad sequence subseed=%llu\n", (unsigned long long)sub);
      }
   } else if (argc >= 3 && !strcmp(argv[1], "one")) {
      g_tie = argc >= 4 && !strcmp(argv[3], "tie");
      do_seq(strtoull(argv[2], NULL, 10));
   } else { fprintf(stderr, "usage: c20_vad tie|search <seed> <nseq> | one <subseed> [tie]\n"); return 64; }
   printf("# %s calls=%ld sa<13=%ld sa<64=%ld sa<200=%ld sa>=200=%ld cfg8k10=%ld cfg8k20=%ld cfg12k10=%ld cfg12k20=%ld cfg16k10=%ld cfg16k20=%ld violations=%ld\n",
          g_tie ? "vad-dist" : "stats", n_cases, dist_sa[0], dist_sa[1], dist_sa[2], dist_sa[3], dist_len[0], dist_len[1], dist_len[2], dist_len[3], dist_len[4], dist_len[5], n_viol);
   printf("# %s first-inactive-frame-on-silence histogram:", g_tie ? "vad-dist" : "stats-k");
   { int k; for (k = 0; k < 16; k++) printf(" %d:%ld", k, k_hist[k]); printf("\n"); }
   return 0;
}
