/* c05_encsize.c — correspondence harness for the encoder size / packet skeleton (C05, C02).

   This translation unit `#include`s src/opus_encoder.c after redirecting the inner calls the
   skeleton treats as oracles, so that every value the integer control flow consumes from the DSP
   is recorded, and the `OpusEncoder` struct is visible:

      silk_Encode, celt_encode_with_ec (per call site), ec_tell (per call site), ec_enc_done,
      run_analysis, tonality_get_info, opus_packet_pad, opus_repacketizer_cat,
      opus_repacketizer_out_range_impl, rand (FUZZING build)

   `opus_encode_native` itself is renamed and re-exported through a recording wrapper, so the
   library's multistream / projection encoders (which call it per stream) are recorded as well.
   Because this TU defines every external symbol of opus_encoder.c, the archive member of the
   same name is never pulled in by the linker.

   For every call one line pair is printed (after the call, or from the trap handler if the call
   dies):   I encskel native <pre-state> <args> <oracles>      O <ret, packet structure, post-state, call trace>

   Modes:  rand <seed> <sessions>      random configurations and ctl histories
           sweep <seed> <level>        max_data_bytes 1..4000 (boundary emphasis) x bit-rates x durations
           ms <seed> <sessions>        multistream / projection encoders (per-stream calls + split)
           bound <seed> <level>        long frames x high rates x consecutive out_data_bytes (multi-frame boundary scan)
           fill <seed> <level>         multi-frame VBR packets nearly filling max_data_bytes (sub-frames >= 253 bytes, +-8 sweep)
           mssweep <seed> <level>      multistream / projection, max_data_bytes 1..600 exhaustively at high rates
           redsw <seed> <sessions>     redundancy signalling under tight budgets (forced SILK<->CELT / bandwidth switches)
           cvbr <seed> <n> <seconds>   constrained-VBR long-run totals, with setting histories before the measured segment (S4 only)
           silkrate                    compute_silk_rate_for_hybrid on a dense grid
           gentoc                      gen_toc on every legal argument tuple
*/
#include "vcommon.h"
#ifdef HAVE_CONFIG_H
#include "config.h"
#endif
#include <stdarg.h>
#include <math.h>
#include "celt.h"
#include "entenc.h"
#include "modes.h"
#include "API.h"
#include "stack_alloc.h"
#include "float_cast.h"
#include "opus.h"
#include "arch.h"
#include "pitch.h"
#include "opus_private.h"
#include "os_support.h"
#include "cpu_support.h"
#include "analysis.h"
#include "mathops.h"
#include "tuning_parameters.h"
#include "float/structs_FLP.h"
#include "opus_multistream.h"
#include "opus_projection.h"

/* ------------------------------------------------------------------ recording */
#define MAXFR 8
typedef struct {
   int aval; float ap;            /* analysis_info for this (sub)frame */
   int act, silk_act, has_silk;
   int sbr, sret, nb, isr, swr, abw, wb;
   int tell[5];                   /* A B C D E */
   int strip;
   int c1, cm, c2;
   int used1, used2, nshrink;      /* enc.offs+enc.end_offs at the ec_enc_shrink calls of opus_encode_frame_native */
   int out_len;                   /* return value of this frame (from cat), -1 unknown */
} FrameRec;

static struct {
   int active;
   FrameRec fr[MAXFR]; int nfr_closed; FrameRec cur;
   int ran_analysis; int a_valid, a_bw, vr0, vr1, vr2;
   int rands[8]; int nrands;
   char trace[4096]; int tlen;
   int contract_bad;
} R;

static void fr_init(FrameRec *f)
{
   memset(f, 0, sizeof *f);
   f->act = -1; f->silk_act = -9; f->sret = 0; f->nb = -7777; f->isr = -7777; f->swr = 0; f->abw = 0; f->wb = 0;
   f->tell[0] = f->tell[1] = f->tell[2] = f->tell[3] = f->tell[4] = -7777;
   f->strip = -7777; f->c1 = f->cm = f->c2 = -7777; f->out_len = -1; f->sbr = 0;
   f->used1 = f->used2 = -7777; f->nshrink = 0;
}
static void tr(const char *fmt, ...)
{
   va_list ap; va_start(ap, fmt);
   if (R.tlen && R.tlen < (int)sizeof R.trace - 2) R.trace[R.tlen++] = '|';
   R.tlen += vsnprintf(R.trace + R.tlen, sizeof R.trace - R.tlen, fmt, ap);
   if (R.tlen > (int)sizeof R.trace - 1) R.tlen = sizeof R.trace - 1;
   va_end(ap);
}

static int vr_of(float prob) { return (int)floor(.5 + 100 * (1 - prob)); }   /* opus_encoder.c:1226 */

/* --- wrappers (declared here, defined after the include where the real names are restored) --- */
static opus_int verif_silk_Encode(void *encState, silk_EncControlStruct *encControl, const opus_res *samplesIn,
   opus_int nSamplesIn, ec_enc *psRangeEnc, opus_int32 *nBytesOut, const opus_int prefillFlag, opus_int activity);
static int verif_celt(int site, CELTEncoder *st, const opus_res *pcm, int frame_size, unsigned char *compressed,
   int nbCompressedBytes, ec_enc *enc);
static int verif_tell(int v, int site);
static void verif_ec_enc_done(ec_enc *enc);
static void verif_ec_enc_shrink(ec_enc *enc, opus_uint32 size);
static void verif_run_analysis(TonalityAnalysisState *analysis, const CELTMode *celt_mode, const void *analysis_pcm,
   int analysis_frame_size, int frame_size, int c1, int c2, int C, opus_int32 Fs, int lsb_depth, downmix_func downmix,
   AnalysisInfo *analysis_info);
static void verif_tonality_get_info(TonalityAnalysisState *tonal, AnalysisInfo *info_out, int len);
static int verif_pad(unsigned char *data, opus_int32 len, opus_int32 new_len);
static int verif_cat(OpusRepacketizer *rp, const unsigned char *data, opus_int32 len);
static opus_int32 verif_out(OpusRepacketizer *rp, int begin, int end, unsigned char *data, opus_int32 maxlen,
   int self_delimited, int pad, const opus_extension_data *extensions, int nb_extensions);
static int verif_rand(void);

enum { VERIF_CTR_BASE = __COUNTER__ };
#define silk_Encode verif_silk_Encode
#define celt_encode_with_ec(st, pcm, fs, c, nb, enc) verif_celt(__COUNTER__ - VERIF_CTR_BASE, st, pcm, fs, c, nb, enc)
#define ec_tell(e) verif_tell(ec_tell(e), __COUNTER__ - VERIF_CTR_BASE)
#define ec_enc_done verif_ec_enc_done
#define ec_enc_shrink verif_ec_enc_shrink
#define run_analysis verif_run_analysis
#define tonality_get_info verif_tonality_get_info
#define opus_packet_pad verif_pad
#define opus_repacketizer_cat verif_cat
#define opus_repacketizer_out_range_impl verif_out
#define opus_encode_native verif_real_opus_encode_native
#ifdef FUZZING
#define rand verif_rand
#endif

#include "src/opus_encoder.c"

enum { VERIF_CTR_END = __COUNTER__ };
/* call sites in source order (non-DRED build):
   1 tell A(:2218)  2 tell B(:2231)  3 tell B'(:2234)  4 tell C(:2255)  5 celt red1(:2295)  6 celt prefill(:2343)
   7 tell D(:2347)  8 celt main(:2349)  9 celt prefill2(:2386)  10 celt red2(:2388)  11 tell E(:2432) */
typedef char verif_site_count_check[(VERIF_CTR_END - VERIF_CTR_BASE == 12) ? 1 : -1];

#undef silk_Encode
#undef celt_encode_with_ec
#undef ec_tell
#undef ec_enc_done
#undef ec_enc_shrink
#undef run_analysis
#undef tonality_get_info
#undef opus_packet_pad
#undef opus_repacketizer_cat
#undef opus_repacketizer_out_range_impl
#undef opus_encode_native
#ifdef FUZZING
#undef rand
#endif

static opus_int verif_silk_Encode(void *encState, silk_EncControlStruct *c, const opus_res *samplesIn,
   opus_int nSamplesIn, ec_enc *psRangeEnc, opus_int32 *nBytesOut, const opus_int prefillFlag, opus_int activity)
{
   opus_int ret;
   int br = c->bitRate;
   tr("1:%d:%d:%d:%d", prefillFlag, c->bitRate, c->maxBits, c->useCBR);
   ret = silk_Encode(encState, c, samplesIn, nSamplesIn, psRangeEnc, nBytesOut, prefillFlag, activity);
   if (!prefillFlag) {
      FrameRec *f = &R.cur;
      f->has_silk = 1; f->silk_act = activity; f->sbr = br; f->sret = ret; f->nb = *nBytesOut;
      f->isr = c->internalSampleRate; f->swr = c->switchReady; f->abw = c->allowBandwidthSwitch;
      f->wb = c->inWBmodeWithoutVariableLP;
   }
   return ret;
}
static int verif_celt(int site, CELTEncoder *st, const opus_res *pcm, int frame_size, unsigned char *compressed,
   int nb, ec_enc *enc)
{
   int k = site == 5 ? 1 : site == 6 ? 2 : site == 8 ? 3 : site == 9 ? 4 : site == 10 ? 5 : 99;
   int ret;
   tr("2:%d:%d:%d", k, frame_size, nb);
   ret = celt_encode_with_ec(st, pcm, frame_size, compressed, nb, enc);
   if (k == 1) R.cur.c1 = ret; else if (k == 3) R.cur.cm = ret; else if (k == 5) R.cur.c2 = ret;
   return ret;
}
static int verif_tell(int v, int site)
{
   int k = site == 1 ? 0 : (site == 2 || site == 3) ? 1 : site == 4 ? 2 : site == 7 ? 3 : site == 11 ? 4 : -1;
   if (k >= 0) R.cur.tell[k] = v; else R.contract_bad |= 64;
   return v;
}
static void verif_ec_enc_done(ec_enc *enc)
{
   int ret = (ec_tell(enc) + 7) >> 3;
   ec_enc_done(enc);
   /* `while(ret>2&&data[ret]==0)ret--;` with data = enc->buf - 1 (opus_encoder.c:2450) */
   if ((opus_uint32)ret <= enc->storage)       /* otherwise the frame is "busted" (:2434) and the scan is not reached */
      while (ret > 2 && enc->buf[ret - 1] == 0) ret--;
   R.cur.strip = ret;
}
static void verif_ec_enc_shrink(ec_enc *enc, opus_uint32 size)
{
   /* first call of a frame: :2276 (non-SILK modes); second: :2385 (hybrid, SILK->CELT redundancy) */
   int used = (int)(enc->offs + enc->end_offs);
   if (R.cur.nshrink == 0) R.cur.used1 = used; else if (R.cur.nshrink == 1) R.cur.used2 = used; else R.contract_bad |= 128;
   R.cur.nshrink++;
   tr("6:%d:%d", (int)size, used);
   ec_enc_shrink(enc, size);
}
static void verif_run_analysis(TonalityAnalysisState *analysis, const CELTMode *celt_mode, const void *analysis_pcm,
   int analysis_frame_size, int frame_size, int c1, int c2, int C, opus_int32 Fs, int lsb_depth, downmix_func downmix,
   AnalysisInfo *info)
{
   run_analysis(analysis, celt_mode, analysis_pcm, analysis_frame_size, frame_size, c1, c2, C, Fs, lsb_depth, downmix, info);
   R.ran_analysis = 1; R.a_valid = info->valid; R.a_bw = info->bandwidth;
   if (info->valid) { R.vr0 = vr_of(info->music_prob); R.vr1 = vr_of(info->music_prob_max); R.vr2 = vr_of(info->music_prob_min); }
   R.cur.aval = info->valid; R.cur.ap = info->activity_probability;
}
static void verif_tonality_get_info(TonalityAnalysisState *tonal, AnalysisInfo *info_out, int len)
{
   tonality_get_info(tonal, info_out, len);
   R.cur.aval = info_out->valid; R.cur.ap = info_out->activity_probability;
}
static int verif_pad(unsigned char *data, opus_int32 len, opus_int32 new_len)
{
   int ret = opus_packet_pad(data, len, new_len);
   tr("3:%d:%d:%d", len, new_len, ret);
   return ret;
}
static int verif_cat(OpusRepacketizer *rp, const unsigned char *data, opus_int32 len)
{
   int ret = opus_repacketizer_cat(rp, data, len);
   tr("4:%d:%d", len, ret);
   R.cur.out_len = len;
   if (R.nfr_closed < MAXFR) R.fr[R.nfr_closed++] = R.cur;
   { int aval = R.cur.aval; float ap = R.cur.ap; fr_init(&R.cur); R.cur.aval = aval; R.cur.ap = ap; }
   return ret;
}
static opus_int32 verif_out(OpusRepacketizer *rp, int begin, int end, unsigned char *data, opus_int32 maxlen,
   int self_delimited, int pad, const opus_extension_data *extensions, int nb_extensions)
{
   opus_int32 ret = opus_repacketizer_out_range_impl(rp, begin, end, data, maxlen, self_delimited, pad, extensions, nb_extensions);
   tr("5:%d:%d:%d", maxlen, pad, ret);
   return ret;
}
static int verif_rand(void)
{
   int r = rand();
   if (R.nrands < 8) R.rands[R.nrands++] = r;
   return r;
}

/* ------------------------------------------------------------------ state snapshot and line emission */
static int g_fuzz =
#ifdef FUZZING
   1;
#else
   0;
#endif

static int snap(const OpusEncoder *st, char *b, int cap)
{
   return snprintf(b, cap, "%d,%d,%d,%d,%d,%d,%d,%d,%d,%d,%d,%d,%d,%d,%d,%d,%d,%d,"
      "%d,%d,%d,%d,%d,%d,%d,%d,%d,%d,%d,%d,%d,%d,%d,%d,%d,%d,%d,%d",
      (int)st->Fs, st->channels, st->application, st->use_vbr, (int)st->user_bitrate_bps, st->force_channels,
      st->signal_type, st->user_bandwidth, st->max_bandwidth, st->user_forced_mode, st->lfe, st->use_dtx,
      st->fec_config, st->variable_duration, st->silk_mode.complexity, st->silk_mode.packetLossPercentage,
      st->silk_mode.useInBandFEC, st->energy_masking != NULL,
      st->stream_channels, st->mode, st->prev_mode, st->prev_channels, st->prev_framesize, st->bandwidth,
      st->auto_bandwidth, st->silk_bw_switch, st->first, st->voice_ratio, st->detected_bandwidth,
      st->nb_no_activity_ms_Q1, st->nonfinal_frame, (int)st->bitrate_bps, st->silk_mode.toMono,
      st->silk_mode.LBRR_coded, st->silk_mode.allowBandwidthSwitch, st->silk_mode.inWBmodeWithoutVariableLP,
      st->silk_mode.opusCanSwitch, st->silk_mode.useDTX);
}

/* the case in flight (so that a trap can still print it) */
static struct {
   int live; char pre[1024]; int frame_size, out_bytes; int pre_force_channels; int is_silence;
   OpusEncoder *st; const opus_res *pcm; int lsb;
} G;
static long g_cases, g_shadow_mismatch, g_guard_bad;
static int g_quiet, g_last_ret;
static int g_ms_out[32], g_ms_n;   /* out_data_bytes of the per-stream calls of one multistream encode */

static void emit_I(void)
{
   OpusEncoder *st = G.st;
   int nfr, i, encfs;
   float sw = 0;
   int mv, mm;
   FrameRec frs[MAXFR + 1];
   nfr = R.nfr_closed;
   for (i = 0; i < nfr; i++) frs[i] = R.fr[i];
   if (nfr == 0 || R.cur.has_silk || R.cur.tell[3] != -7777 || R.cur.tell[4] != -7777 || R.cur.nshrink) frs[nfr++] = R.cur;
   encfs = G.frame_size > 0 ? G.frame_size / (R.nfr_closed > 0 ? R.nfr_closed : 1) : 0;
   /* stereo_width as compute_stereo_width returned it (opus_encoder.c:872), then :1420-1423 */
   if (st->channels == 2 && G.pre_force_channels != 1)
      sw = EXTRACT16(MIN32(Q15ONE, MULT16_16(20, st->width_mem.max_follower)));
   mv = (opus_int32)(MULT16_32_Q15(Q15ONE - sw, mode_thresholds[0][0]) + MULT16_32_Q15(sw, mode_thresholds[1][0]));
   mm = (opus_int32)(MULT16_32_Q15(Q15ONE - sw, mode_thresholds[1][1]) + MULT16_32_Q15(sw, mode_thresholds[1][1]));
   /* `activity` of each frame (opus_encoder.c:1813-1827) */
   for (i = 0; i < nfr; i++) {
      int act = VAD_NO_DECISION;
      if (G.is_silence) act = 0;
      else if (frs[i].aval) {
         act = frs[i].ap >= DTX_ACTIVITY_THRESHOLD;
         if (!act && encfs > 0 && G.pcm) {
            opus_val32 noise_energy = compute_frame_energy(G.pcm + (R.nfr_closed > 0 ? i : 0) * (st->channels * encfs),
                                                           encfs, st->channels, st->arch);
            act = st->peak_signal_energy < (PSEUDO_SNR_THRESHOLD * noise_energy);
         }
      }
      if (frs[i].has_silk && frs[i].silk_act != act) { g_shadow_mismatch++; act = frs[i].silk_act; }
      frs[i].act = act;
   }
   printf("I encskel native fuzz=%d st=%s frame=%d out=%d o.sil=%d o.aval=%d o.abw=%d o.vr0=%d o.vr1=%d o.vr2=%d o.mv=%d o.mm=%d o.rands=",
          g_fuzz, G.pre, G.frame_size, G.out_bytes, G.is_silence, R.ran_analysis ? R.a_valid : 0, R.a_bw, R.vr0, R.vr1, R.vr2, mv, mm);
   if (!R.nrands) printf("-");
   for (i = 0; i < R.nrands; i++) printf("%s%d", i ? "," : "", R.rands[i]);
   printf(" nf=%d", nfr);
   for (i = 0; i < nfr; i++) {
      FrameRec *f = &frs[i];
      printf(" f%d=%d,%d,%d,%d,%d,%d,%d,%d,%d,%d,%d,%d,%d,%d,%d,%d,%d,%d,%d,%d", i, f->aval, f->act, f->sbr, f->sret, f->nb, f->isr, f->swr,
             f->abw, f->wb, f->tell[0], f->tell[1], f->tell[2], f->tell[3], f->tell[4], f->strip, f->c1, f->cm, f->c2, f->used1, f->used2);
   }
   printf("\n");
}

static void emit_O(int ret, const unsigned char *data)
{
   char post[1024];
   snap(G.st, post, sizeof post);
   printf("O ret=%d ok=1 ", ret);
   if (ret >= 1) {
      unsigned char toc; opus_int16 size[48]; int poff = 0, cnt, i;
      cnt = opus_packet_parse_impl(data, ret, 0, &toc, NULL, size, &poff, NULL, NULL, NULL);
      if (cnt < 1) printf("cfg=%d lens=UNPARSEABLE:%s hdr=x", data[0] & 0xFC, verr(cnt));
      else {
         printf("cfg=%d lens=", toc & 0xFC);
         for (i = 0; i < cnt; i++) printf("%s%d", i ? "," : "", size[i]);
         printf(" hdr="); vhex(stdout, data, poff);
      }
   } else printf("cfg=0 lens=- hdr=x");
   printf(" st=%s calls=%s\n", post, R.tlen ? R.trace : "-");
}

static void my_abort_handler(int sig)
{
   (void)sig;
   if (G.live) { emit_I(); fputs("O ABORT\n", stdout); } else fputs("\nO ABORT\n", stdout);
   fflush(stdout); _exit(3);
}
#if defined(__SANITIZE_ADDRESS__)
static void my_death(void)
{
   if (G.live) { G.live = 0; emit_I(); fputs("O SANITIZER\n", stdout); } else fputs("\nO SANITIZER\n", stdout);
   fflush(stdout);
}
#endif

/* The recording re-export of opus_encode_native (opus_private.h prototype). */
opus_int32 opus_encode_native(OpusEncoder *st, const opus_res *pcm, int frame_size,
                unsigned char *data, opus_int32 out_data_bytes, int lsb_depth,
                const void *analysis_pcm, opus_int32 analysis_size, int c1, int c2,
                int analysis_channels, downmix_func downmix, int float_api)
{
   opus_int32 ret;
   memset(&R, 0, sizeof R); fr_init(&R.cur);
   if (g_ms_n < 32) g_ms_out[g_ms_n++] = out_data_bytes;
   snap(st, G.pre, sizeof G.pre);
   G.st = st; G.pcm = pcm; G.frame_size = frame_size; G.out_bytes = out_data_bytes; G.pre_force_channels = st->force_channels;
   G.is_silence = 0;
   if (frame_size > 0 && st->silk_mode.complexity >= 7 && st->Fs >= 16000)
      G.is_silence = is_digital_silence(pcm, frame_size, st->channels, IMIN(lsb_depth, st->lsb_depth));
   G.live = 1;
   ret = verif_real_opus_encode_native(st, pcm, frame_size, data, out_data_bytes, lsb_depth, analysis_pcm, analysis_size,
                                       c1, c2, analysis_channels, downmix, float_api);
   G.live = 0;
   if (!g_quiet) { emit_I(); emit_O(ret, data); }
   g_cases++; g_last_ret = ret;
   return ret;
}

/* Replicas of the three public entry points (opus_encoder.c:2523-2594) that go through the
   recording wrapper (the originals in this TU call the renamed function directly). */
static opus_int32 v_encode_float(OpusEncoder *st, const float *pcm, int afs, unsigned char *data, opus_int32 out)
{
   int frame_size = frame_size_select(afs, st->variable_duration, st->Fs);
   return opus_encode_native(st, pcm, frame_size, data, out, MAX_ENCODING_DEPTH, pcm, afs, 0, -2, st->channels, downmix_float, 1);
}
static opus_int32 v_encode16(OpusEncoder *st, const opus_int16 *pcm, int afs, unsigned char *data, opus_int32 out)
{
   int i, ret, frame_size = frame_size_select(afs, st->variable_duration, st->Fs);
   opus_res *in;
   if (frame_size <= 0) return OPUS_BAD_ARG;
   in = (opus_res *)malloc(sizeof(opus_res) * frame_size * st->channels);
   for (i = 0; i < frame_size * st->channels; i++) in[i] = INT16TORES(pcm[i]);
   ret = opus_encode_native(st, in, frame_size, data, out, 16, pcm, afs, 0, -2, st->channels, downmix_int, 1);
   free(in); return ret;
}
static opus_int32 v_encode24(OpusEncoder *st, const opus_int32 *pcm, int afs, unsigned char *data, opus_int32 out)
{
   int i, ret, frame_size = frame_size_select(afs, st->variable_duration, st->Fs);
   opus_res *in;
   if (frame_size <= 0) return OPUS_BAD_ARG;
   in = (opus_res *)malloc(sizeof(opus_res) * frame_size * st->channels);
   for (i = 0; i < frame_size * st->channels; i++) in[i] = INT24TORES(pcm[i]);
   ret = opus_encode_native(st, in, frame_size, data, out, MAX_ENCODING_DEPTH, pcm, afs, 0, -2, st->channels, downmix_int24, 1);
   free(in); return ret;
}

/* ------------------------------------------------------------------ generators */
static const int FSS[5] = {8000, 12000, 16000, 24000, 48000};
static const int APPS[3] = {OPUS_APPLICATION_VOIP, OPUS_APPLICATION_AUDIO, OPUS_APPLICATION_RESTRICTED_LOWDELAY};
static const int DUR400[9] = {1, 2, 4, 8, 16, 24, 32, 40, 48};   /* frame duration in units of 2.5 ms */

static float vunit(vrng *r) { return (float)(vnext(r) >> 40) / 16777216.0f; }

/* kind: 0 silence 1 sine 2 noise 3 full-scale square 4 quiet noise 5 speech-like bursts 6 non-finite 7 huge
         8 harmonic tone complex with a noise click every 50 ms (demanding for the CELT rate control) */
static long g_t8;
static void gen_pcm(vrng *r, int kind, float *x, int n, int ch, int fs, double *phase)
{
   int i, c;
   double f0 = 100 + 50 * (int)vbelow(r, 40);
   float amp = kind == 4 ? 0.001f : 0.05f + 0.9f * vunit(r);
   for (i = 0; i < n; i++) for (c = 0; c < ch; c++) {
      float v = 0;
      switch (kind) {
      case 0: v = 0; break;
      case 1: v = amp * (float)sin(*phase + 6.283185307 * f0 * i / fs + c); break;
      case 2: case 4: v = amp * (2 * vunit(r) - 1); break;
      case 3: v = ((i / 37) & 1) ? 1.0f : -1.0f; break;
      case 5: v = ((i / (fs / 50)) % 3 == 0 ? 0.0f : amp * (float)sin(6.283185307 * (f0 + 3 * (i % 97)) * i / fs) * (0.5f + 0.5f * vunit(r))); break;
      case 6: { uint32_t k = vbelow(r, 50); v = k == 0 ? NAN : k == 1 ? INFINITY : k == 2 ? -INFINITY : amp * (2 * vunit(r) - 1); } break;
      case 7: v = 1e9f * (2 * vunit(r) - 1); break;
      case 8: { int k; double tt = (double)(g_t8 + i) / fs, a = 0;
                for (k = 1; k <= 20; k++) if (k * 523.25 < 0.45 * fs) a += 0.0275 * sin(6.283185307 * k * 523.25 * tt + k);
                if (((g_t8 + i) % (fs / 20)) < fs / 1200) a += 0.76 * (2 * vunit(r) - 1);
                if (a > 0.98) a = 0.98; if (a < -0.98) a = -0.98;
                v = (float)(c ? -0.7 * a : a); } break;
      }
      x[i * ch + c] = v;
   }
   *phase += 6.283185307 * f0 * n / fs;
   if (kind == 8) g_t8 += n;
}

static int pick_bitrate(vrng *r)
{
   int k = vbelow(r, 12);
   if (k == 0) return OPUS_AUTO;
   if (k == 1) return OPUS_BITRATE_MAX;
   if (k == 2) { static const int b[] = {500, 501, 999, 1000, 2399, 2400, 2401, 4800, 5999, 6000, 6001, 8000, 9000, 12000, 15000, 16000, 24000, 32000, 64000, 128000, 256000, 510000, 512000}; return b[vbelow(r, sizeof b / sizeof b[0])]; }
   { double lo = log(500.0), hi = log(512000.0); return (int)exp(lo + (hi - lo) * vunit(r)); }
}

static int pick_out_bytes(vrng *r, int hint)
{
   int k = vbelow(r, 20);
   if (k < 4) return vrange(r, 1, 10);
   if (k < 7) { static const int b[] = {1, 2, 3, 4, 5, 6, 7, 8, 12, 13, 19, 25, 30, 38, 39, 250, 251, 252, 253, 254, 255, 256, 257, 258, 259, 260, 508, 509, 510, 511, 512, 1274, 1275, 1276, 1277, 1278, 1279, 1280, 1500, 2552, 2553, 3828, 3999, 4000}; return b[vbelow(r, sizeof b / sizeof b[0])]; }
   if (k < 11 && hint > 0) return IMAX(1, IMIN(4000, hint + vrange(r, -3, 3)));
   if (k < 15) return vrange(r, 1, 400);
   if (k < 19) return vrange(r, 1, 4000);
   return vrange(r, -1, 0);
}

static void rand_ctl(vrng *r, OpusEncoder *e, int n)
{
   while (n-- > 0) {
      switch (vbelow(r, 18)) {
      case 0: case 1: opus_encoder_ctl(e, OPUS_SET_BITRATE(pick_bitrate(r))); break;
      case 2: opus_encoder_ctl(e, OPUS_SET_VBR(vbelow(r, 2))); break;
      case 3: opus_encoder_ctl(e, OPUS_SET_VBR_CONSTRAINT(vbelow(r, 2))); break;
      case 4: opus_encoder_ctl(e, OPUS_SET_COMPLEXITY(vbelow(r, 11))); break;
      case 5: opus_encoder_ctl(e, OPUS_SET_BANDWIDTH(vchance(r, 40) ? OPUS_AUTO : 1101 + (int)vbelow(r, 5))); break;
      case 6: opus_encoder_ctl(e, OPUS_SET_MAX_BANDWIDTH(1101 + (int)vbelow(r, 5))); break;
      case 7: opus_encoder_ctl(e, OPUS_SET_FORCE_CHANNELS(vchance(r, 50) ? OPUS_AUTO : 1 + (int)vbelow(r, 2))); break;
      case 8: opus_encoder_ctl(e, OPUS_SET_SIGNAL(vchance(r, 40) ? OPUS_AUTO : 3001 + (int)vbelow(r, 2))); break;
      case 9: opus_encoder_ctl(e, OPUS_SET_INBAND_FEC(vbelow(r, 3))); break;
      case 10: opus_encoder_ctl(e, OPUS_SET_PACKET_LOSS_PERC(vchance(r, 70) ? (int)vbelow(r, 31) : (int)vbelow(r, 101))); break;
      case 11: opus_encoder_ctl(e, OPUS_SET_DTX(vbelow(r, 2))); break;
      case 12: opus_encoder_ctl(e, OPUS_SET_LSB_DEPTH(8 + (int)vbelow(r, 17))); break;
      case 13: opus_encoder_ctl(e, OPUS_SET_PREDICTION_DISABLED(vbelow(r, 2))); break;
      case 14: opus_encoder_ctl(e, OPUS_SET_PHASE_INVERSION_DISABLED(vbelow(r, 2))); break;
      case 15: opus_encoder_ctl(e, OPUS_SET_EXPERT_FRAME_DURATION(vchance(r, 50) ? OPUS_FRAMESIZE_ARG : 5001 + (int)vbelow(r, 9))); break;
      case 16: opus_encoder_ctl(e, OPUS_SET_FORCE_MODE(vchance(r, 50) ? OPUS_AUTO : 1000 + (int)vbelow(r, 3))); break;
      case 17: if (vchance(r, 15)) opus_encoder_ctl(e, OPUS_RESET_STATE); break;
      }
   }
}

static unsigned char *g_out; static int g_out_cap;
#define GUARD 64
static unsigned char *out_buf(int n)
{
#if defined(__SANITIZE_ADDRESS__)
   free(g_out); g_out = (unsigned char *)malloc(n > 0 ? n : 1); g_out_cap = n;   /* exact size: ASan sees any over-write */
#else
   int i; free(g_out); g_out = (unsigned char *)malloc((n > 0 ? n : 0) + GUARD); g_out_cap = n;
   for (i = 0; i < GUARD; i++) g_out[(n > 0 ? n : 0) + i] = (unsigned char)(0xA5 ^ i);
#endif
   return g_out;
}
static void check_guard(void)
{
#if !defined(__SANITIZE_ADDRESS__)
   int i, n = g_out_cap > 0 ? g_out_cap : 0;
   for (i = 0; i < GUARD; i++) if (g_out[n + i] != (unsigned char)(0xA5 ^ i)) { g_guard_bad++; printf("# GUARD-OVERWRITTEN at +%d (out_data_bytes=%d)\n", i, g_out_cap); break; }
#endif
}

static int expected_cbr_bytes(OpusEncoder *e, int afs)
{
   opus_int32 br; int fs = e->Fs;
   opus_encoder_ctl(e, OPUS_GET_BITRATE(&br));
   if (e->user_bitrate_bps == OPUS_BITRATE_MAX || afs <= 0) return 1276;
   return (int)(((double)br * afs / fs + 4) / 8);
}

static void one_encode(vrng *r, OpusEncoder *e, int ch, int fs, int afs, int out, int kind, double *phase)
{
   static float x[5760 * 2]; static opus_int16 x16[5760 * 2]; static opus_int32 x24[5760 * 2];
   int n = afs > 0 && afs <= 5760 ? afs : 0, i, api = vbelow(r, 6);
   unsigned char *o = out_buf(out);
   gen_pcm(r, kind, x, n, ch, fs, phase);
   if (api == 0 && kind < 6) { for (i = 0; i < n * ch; i++) x16[i] = (opus_int16)IMAX(-32768, IMIN(32767, (int)floor(.5 + 32768.0 * x[i]))); v_encode16(e, x16, afs, o, out); }
   else if (api == 1 && kind < 6) { for (i = 0; i < n * ch; i++) x24[i] = (opus_int32)IMAX(-8388608, IMIN(8388607, (int)floor(.5 + 8388608.0 * x[i]))); v_encode24(e, x24, afs, o, out); }
   else v_encode_float(e, x, afs, o, out);
   check_guard();
}

static void run_rand(uint64_t seed, long sessions)
{
   vrng r; long s; r.s = seed * 0x9E3779B97F4A7C15ULL + 77;
   for (s = 0; s < sessions; s++) {
      int fs = FSS[vbelow(&r, 5)], ch = 1 + vbelow(&r, 2), app = APPS[vbelow(&r, 3)], err, steps = vrange(&r, 3, 14), k;
      int kind = vbelow(&r, 9); double phase = 0;
      OpusEncoder *e = opus_encoder_create(fs, ch, app, &err);
      if (!e) continue;
      rand_ctl(&r, e, vrange(&r, 0, 6));
      for (k = 0; k < steps; k++) {
         int d = DUR400[vchance(&r, 45) ? 3 : vbelow(&r, 9)], afs = fs / 400 * d, out;
         if (vchance(&r, 3)) afs = vchance(&r, 50) ? fs / 400 * 3 : (int)vbelow(&r, fs / 400);     /* illegal sizes */
         if (vchance(&r, 30)) rand_ctl(&r, e, vrange(&r, 1, 3));
         if (vchance(&r, 12)) kind = vbelow(&r, 9);
         out = pick_out_bytes(&r, expected_cbr_bytes(e, afs));
         if (vchance(&r, 25)) out = 1276;
         one_encode(&r, e, ch, fs, afs, out, kind >= 8 ? 5 : kind, &phase);
      }
      opus_encoder_destroy(e);
   }
}

/* sweep: one encoder per (Fs, ch, app, duration, vbr) cell, many out_data_bytes x bit-rates */
static void run_sweep(uint64_t seed, int level)
{
   vrng r; int fi, ci, ai, di, vi, bi, oi;
   static const int brs[] = {OPUS_AUTO, OPUS_BITRATE_MAX, 500, 2400, 6000, 9000, 12000, 16000, 24000, 40000, 64000, 128000, 256000, 512000};
   static const int outsq[] = {1, 2, 3, 4, 5, 7, 10, 12, 19, 25, 30, 38, 60, 100, 160, 251, 252, 253, 254, 255, 256, 257, 400, 800, 1275, 1276, 1277, 1500, 2553, 4000};
   int nbr = level ? 14 : 8, nout = level ? 30 : 30;
   r.s = seed * 0xD1342543DE82EF95ULL + 5;
   for (fi = 0; fi < 5; fi++) for (ci = 1; ci <= 2; ci++) for (ai = 0; ai < 3; ai++) for (di = 0; di < 9; di++) for (vi = 0; vi < 3; vi++) {
      int fs = FSS[fi], err, afs = fs / 400 * DUR400[di]; double phase = 0;
      OpusEncoder *e;
      if (!level && ((fi * 7 + ci * 5 + ai * 3 + di + vi + (int)(seed % 4)) % 4) != 0) continue;   /* quick: a quarter of the cells */
      e = opus_encoder_create(fs, ci, APPS[ai], &err);
      if (!e) continue;
      opus_encoder_ctl(e, OPUS_SET_VBR(vi != 0)); opus_encoder_ctl(e, OPUS_SET_VBR_CONSTRAINT(vi == 2));
      if (vchance(&r, 30)) opus_encoder_ctl(e, OPUS_SET_COMPLEXITY(vbelow(&r, 11)));
      for (bi = 0; bi < nbr; bi++) {
         int br = brs[level ? bi : (bi + di + vi) % 14];
         opus_encoder_ctl(e, OPUS_SET_BITRATE(br));
         for (oi = 0; oi < nout; oi++) {
            int out = outsq[oi];
            if (!level && ((oi + bi + di) % 3)) continue;
            if (vchance(&r, 25)) out = IMAX(1, IMIN(4000, expected_cbr_bytes(e, afs) + vrange(&r, -2, 2)));
            if (vchance(&r, 10)) opus_encoder_ctl(e, OPUS_SET_VBR(vbelow(&r, 2)));
            one_encode(&r, e, ci, fs, afs, out, vbelow(&r, 6), &phase);
         }
      }
      opus_encoder_destroy(e);
   }
}

/* boundary scan of the multi-frame (repacketiser) path: long frames x high rates x consecutive out_data_bytes, so that every
   residue of max_len_sum modulo nb_frames and both sides of the 252-byte length-code boundary occur */
static void run_bound(uint64_t seed, int level)
{
   vrng r; int fi, ch, di, vi, bi, ba, k, mi;
   static const int brs[] = {OPUS_BITRATE_MAX, 512000, 200000, 96000};
   static const int bases[] = {255, 505, 760, 1015, 1270, 2540, 3980};
   static const int modes[] = {OPUS_AUTO, MODE_SILK_ONLY, MODE_CELT_ONLY};
   r.s = seed * 0x8CB92BA72F3D8DD7ULL + 17;
   for (fi = 0; fi < 5; fi++) for (ch = 1; ch <= 2; ch++) for (di = 4; di < 9; di++) for (vi = 0; vi < 2; vi++) for (mi = 0; mi < 3; mi++) {
      int fs = FSS[fi], err, afs = fs / 400 * DUR400[di]; double phase = 0;
      OpusEncoder *e;
      if (!level && ((fi + ch + di + vi + mi + (int)(seed % 3)) % 3) != 0) continue;
      e = opus_encoder_create(fs, ch, mi == 1 ? OPUS_APPLICATION_VOIP : OPUS_APPLICATION_AUDIO, &err);
      if (!e) continue;
      opus_encoder_ctl(e, OPUS_SET_VBR(vi)); opus_encoder_ctl(e, OPUS_SET_VBR_CONSTRAINT(0));
      opus_encoder_ctl(e, OPUS_SET_FORCE_MODE(modes[mi]));
      if (vchance(&r, 30)) opus_encoder_ctl(e, OPUS_SET_INBAND_FEC(1)), opus_encoder_ctl(e, OPUS_SET_PACKET_LOSS_PERC(20));
      for (bi = 0; bi < 4; bi++) {
         opus_encoder_ctl(e, OPUS_SET_BITRATE(brs[bi]));
         for (ba = 0; ba < 7; ba++) {
            if (!level && ((ba + bi + di) % 2)) continue;
            for (k = 0; k < 7; k++) one_encode(&r, e, ch, fs, afs, bases[ba] + k, vchance(&r, 70) ? 2 : 3, &phase);
         }
      }
      opus_encoder_destroy(e);
   }
}

/* ------------------------------------------------------------------ multistream / projection */
/* Tie of the per-stream budget split (opus_multistream_encoder.c:976-984): the `curr_max` each stream's opus_encode_native
   call received, against the model's msCurrMax at the byte offset where that stream starts in the returned packet. */
static void emit_mscurr(const unsigned char *pkt, int ret, int streams, int fs, int afs, int out, int vbr, int br, int nch, int fam, int coupled)
{
   int s, off = 0, lfe = (fam == 1 && nch >= 6) ? streams - 1 : -1, amb = fam == 2;   /* opus_multistream_surround_encoder_init :549-578 */
   if (ret < 1 || g_ms_n != streams) return;
   if (br > 0) br = IMIN(300000 * nch, IMAX(500 * nch, br));   /* opus_multistream_encoder_ctl(OPUS_SET_BITRATE) */
   for (s = 0; s < streams; s++) {
      printf("I encskel mscurr3 %d %d %d %d %d %d %d %d %d %d %d\nO v=%d\n", streams, coupled, lfe, amb, fs, afs, vbr, br, out, off, s, g_ms_out[s]);   /* incl. CBR with OPUS_AUTO: the clamp of :882 uses the model's rate_allocation */
      if (s < streams - 1) {
         unsigned char toc; opus_int16 size[48]; opus_int32 po = 0;
         int cnt = opus_packet_parse_impl(pkt + off, ret - off, 1, &toc, NULL, size, NULL, &po, NULL, NULL);
         if (cnt < 1) return;
         off += po;
      }
   }
}

static void run_ms(uint64_t seed, long sessions)
{
   vrng r; long s; r.s = seed * 0xA24BAED4963EE407ULL + 11;
   for (s = 0; s < sessions; s++) {
      static float x[5760 * 8];
      int fs = FSS[vbelow(&r, 5)], app = APPS[vbelow(&r, 3)], err = 0, streams = 0, coupled = 0, k, steps = vrange(&r, 2, 8);
      int fam = vbelow(&r, 4), ch; unsigned char mapping[255];
      OpusMSEncoder *ms = NULL; OpusProjectionEncoder *pj = NULL; double phase = 0;
      if (fam == 0) { ch = 1 + vbelow(&r, 2); ms = opus_multistream_surround_encoder_create(fs, ch, 0, &streams, &coupled, mapping, app, &err); }
      else if (fam == 1) { ch = 1 + vbelow(&r, 8); ms = opus_multistream_surround_encoder_create(fs, ch, 1, &streams, &coupled, mapping, app, &err); }
      else if (fam == 2) { static const int chs[] = {1, 4, 6, 9, 11}; ch = chs[vbelow(&r, 5)]; if (ch > 8) ch = 4;
                           ms = opus_multistream_surround_encoder_create(fs, ch, 2, &streams, &coupled, mapping, app, &err); }
      else { static const int chs[] = {4, 6, 9, 11}; ch = chs[vbelow(&r, 2)]; pj = opus_projection_ambisonics_encoder_create(fs, ch, 3, &streams, &coupled, app, &err); }
      if (!ms && !pj) continue;
      { int cur_br = OPUS_AUTO, cur_vbr = 1;
      for (k = 0; k < steps; k++) {
         int d = DUR400[vchance(&r, 50) ? 3 : vbelow(&r, 9)], afs = fs / 400 * d, out, kind = vbelow(&r, 6);
         unsigned char *o;
         if (vchance(&r, 40)) {
            int br = pick_bitrate(&r), vbr = vbelow(&r, 2);
            if (br > 0) br = IMIN(br * streams, 512000 * streams);
            cur_br = br; cur_vbr = vbr;
            if (ms) { opus_multistream_encoder_ctl(ms, OPUS_SET_BITRATE(br)); opus_multistream_encoder_ctl(ms, OPUS_SET_VBR(vbr)); opus_multistream_encoder_ctl(ms, OPUS_SET_COMPLEXITY(vbelow(&r, 11))); }
            else { opus_projection_encoder_ctl(pj, OPUS_SET_BITRATE(br)); opus_projection_encoder_ctl(pj, OPUS_SET_VBR(vbr)); }
         }
         out = vchance(&r, 40) ? vrange(&r, 1, 8 * streams) : vchance(&r, 50) ? vrange(&r, 1, 400 * streams) : vrange(&r, 1, 4000);
         o = out_buf(out);
         gen_pcm(&r, kind, x, afs, ch, fs, &phase);
         g_ms_n = 0;
         if (ms) err = opus_multistream_encode_float(ms, x, afs, o, out); else err = opus_projection_encode_float(pj, x, afs, o, out);
         emit_mscurr(o, err, streams, fs, afs, out, cur_vbr, cur_br, ch, fam, coupled);
         { int nb = err > 0 ? opus_packet_get_nb_samples(o, 1, fs) : 0;   /* first stream only; duration check is per stream below */
           printf("# MS fam=%d fs=%d ch=%d streams=%d coupled=%d afs=%d out=%d vbr=%d br=%d ret=%d\n", fam, fs, ch, streams, coupled, afs, out, cur_vbr, cur_br, err); (void)nb; }
         check_guard();
      } }
      if (ms) opus_multistream_encoder_destroy(ms);
      if (pj) opus_projection_encoder_destroy(pj);
   }
}

/* ------------------------------------------------------------------ constrained-VBR long-run average (S4 only) */
static void run_cvbr(uint64_t seed, int nconf, int seconds)
{
   vrng r; int c; r.s = seed * 0xC2B2AE3D27D4EB4FULL + 3;
   g_quiet = 1;
   for (c = 0; c < nconf; c++) {
      static float x[5760 * 2];
      static const int brs[] = {6000, 8000, 12000, 16000, 24000, 32000, 48000, 64000, 96000, 128000, 192000, 256000};
      int fs = FSS[vbelow(&r, 5)], ch = 1 + vbelow(&r, 2), app = APPS[vbelow(&r, 3)], err;
      int d = DUR400[vbelow(&r, 9)], afs = fs / 400 * d, br = brs[vbelow(&r, 12)] * ch, kind = 1 + vbelow(&r, 5);
      int nfr = seconds * 400 / d, k, pre = vbelow(&r, 4); long bytes = 0, fails = 0, hyb = 0; double phase = 0;
      int cx = vchance(&r, 50) ? 10 : (int)vbelow(&r, 11);
      OpusEncoder *e;
      if (vchance(&r, 35)) { kind = 8; if (vchance(&r, 70)) { d = 8; afs = fs / 50; nfr = seconds * 50; br = brs[7 + vbelow(&r, 3)] * ch; } }
      if (c % 5 == 0) {   /* always present: hybrid history, then CELT-only music at 64..128 kb/s per channel on the demanding signal */
         fs = vchance(&r, 50) ? 48000 : 24000; app = APPS[vbelow(&r, 2)]; kind = 8; pre = 1 + vbelow(&r, 2);
         d = vchance(&r, 70) ? 8 : 4; afs = fs / 400 * d; nfr = seconds * 400 / d; br = brs[7 + vbelow(&r, 3)] * ch;
      }
      e = opus_encoder_create(fs, ch, app, &err);
      if (!e) continue;
      opus_encoder_ctl(e, OPUS_SET_VBR(1)); opus_encoder_ctl(e, OPUS_SET_VBR_CONSTRAINT(1));
      opus_encoder_ctl(e, OPUS_SET_COMPLEXITY(cx));
      /* history before the measured segment: 0 none; 1 speech phase (VOICE, ~28 kb/s per channel: hybrid/SILK frames);
         2 forced hybrid / SILK frames; 3 random settings and a few frames */
      if (pre) {
         int np = vrange(&r, 5, 40), pk;
         if (pre == 1) { opus_encoder_ctl(e, OPUS_SET_SIGNAL(OPUS_SIGNAL_VOICE)); opus_encoder_ctl(e, OPUS_SET_BITRATE(ch == 1 ? 28000 : 40000)); }
         else if (pre == 2) { opus_encoder_ctl(e, OPUS_SET_FORCE_MODE(c % 5 == 0 || vchance(&r, 70) ? MODE_HYBRID : MODE_SILK_ONLY)); opus_encoder_ctl(e, OPUS_SET_BITRATE(24000 + (int)vbelow(&r, 40000))); }
         else rand_ctl(&r, e, vrange(&r, 1, 5));
         for (pk = 0; pk < np; pk++) {
            unsigned char *o = out_buf(1500); int ret, pfs = fs / 50;
            gen_pcm(&r, pre == 3 ? (int)vbelow(&r, 6) : 5, x, pfs, ch, fs, &phase);
            ret = v_encode_float(e, x, pfs, o, 1500);
            if (ret >= 1 && (o[0] >> 3) >= 12 && (o[0] >> 3) < 16) hyb++;
         }
         /* back to the measured configuration: every setting the prelude may have touched */
         opus_encoder_ctl(e, OPUS_SET_FORCE_MODE(OPUS_AUTO)); opus_encoder_ctl(e, OPUS_SET_SIGNAL(kind == 8 || vchance(&r, 50) ? OPUS_SIGNAL_MUSIC : OPUS_AUTO));
         opus_encoder_ctl(e, OPUS_SET_VBR(1)); opus_encoder_ctl(e, OPUS_SET_VBR_CONSTRAINT(1)); opus_encoder_ctl(e, OPUS_SET_COMPLEXITY(cx));
         opus_encoder_ctl(e, OPUS_SET_BANDWIDTH(OPUS_AUTO)); opus_encoder_ctl(e, OPUS_SET_MAX_BANDWIDTH(OPUS_BANDWIDTH_FULLBAND));
         opus_encoder_ctl(e, OPUS_SET_FORCE_CHANNELS(OPUS_AUTO)); opus_encoder_ctl(e, OPUS_SET_INBAND_FEC(0)); opus_encoder_ctl(e, OPUS_SET_PACKET_LOSS_PERC(0));
         opus_encoder_ctl(e, OPUS_SET_DTX(0)); opus_encoder_ctl(e, OPUS_SET_EXPERT_FRAME_DURATION(OPUS_FRAMESIZE_ARG));
         opus_encoder_ctl(e, OPUS_SET_LSB_DEPTH(24)); opus_encoder_ctl(e, OPUS_SET_PREDICTION_DISABLED(0));
      }
      opus_encoder_ctl(e, OPUS_SET_BITRATE(br));
      for (k = 0; k < nfr; k++) {
         unsigned char *o = out_buf(1500); int ret;
         gen_pcm(&r, kind, x, afs, ch, fs, &phase);
         ret = v_encode_float(e, x, afs, o, 1500);
         check_guard();
         if (ret < 1) fails++; else bytes += ret;
      }
      printf("V cvbr fs=%d ch=%d app=%d frame=%d br=%d kind=%d cx=%d frames=%d bytes=%ld fails=%ld pre=%d hyb=%ld\n", fs, ch, app, afs, br, kind, cx, nfr, bytes, fails, pre, hyb);
      opus_encoder_destroy(e);
   }
}

/* multi-frame packets that nearly fill the buffer: VBR, 3..6 sub-frames of >= 253 bytes and unequal size, max_data_bytes swept
   +-8 around the size a probe packet had (so that sum of sub-frames + worst-case header ~ max_data_bytes) */
static void run_fill(uint64_t seed, int level)
{
   vrng r; int fi, ch, di, ci, ti, mi;
   static const int tgt[] = {255, 262, 300, 420, 640};
   r.s = seed * 0xD6E8FEB86659FD93ULL + 29;
   for (fi = 2; fi < 5; fi++) for (ch = 1; ch <= 2; ch++) for (di = 5; di < 9; di++) for (ci = 0; ci < 2; ci++) for (mi = 0; mi < 2; mi++) for (ti = 0; ti < 5; ti++) {
      int fs = FSS[fi], err, afs = fs / 400 * DUR400[di], k, probe, nb = DUR400[di] / 8; double phase = 0;
      OpusEncoder *e;
      if (!level && ((fi + ch + di + ci + mi + ti + (int)(seed % 3)) % 3) != 0) continue;
      e = opus_encoder_create(fs, ch, mi ? OPUS_APPLICATION_AUDIO : OPUS_APPLICATION_RESTRICTED_LOWDELAY, &err);
      if (!e) continue;
      if (mi) opus_encoder_ctl(e, OPUS_SET_FORCE_MODE(vchance(&r, 50) ? MODE_CELT_ONLY : MODE_HYBRID));
      opus_encoder_ctl(e, OPUS_SET_VBR(1)); opus_encoder_ctl(e, OPUS_SET_VBR_CONSTRAINT(ci));
      opus_encoder_ctl(e, OPUS_SET_BITRATE(tgt[ti] * 400 + (int)vbelow(&r, 1200)));
      /* the demo's case: the largest buffer, per-frame targets right at the per-frame cap */
      for (k = 0; k < 4; k++) one_encode(&r, e, ch, fs, afs, nb * (tgt[ti] + 1) + (k & 1), 2, &phase);
      one_encode(&r, e, ch, fs, afs, 4000, 2, &phase);
      probe = g_last_ret;
      if (probe > 3 * 253)
         for (k = -8; k <= 8; k++) one_encode(&r, e, ch, fs, afs, IMAX(1, IMIN(4000, probe + k)), 2, &phase);
      opus_encoder_destroy(e);
   }
}

/* redundancy signalling under tight budgets (same histories as c02_lockstep `redsw`): SILK-only NB/MB/WB at low rates, forced
   SILK<->CELT switches and bandwidth changes, max_data_bytes +-16 around the previous packet's size */
static void run_redsw(uint64_t seed, long sessions)
{
   vrng r; long s; r.s = seed * 0xE7037ED1A0B428DBULL + 53;
   for (s = 0; s < sessions; s++) {
      int fs = FSS[vbelow(&r, 5)], ch = 1 + vbelow(&r, 2), err, k, steps = vrange(&r, 20, 60), last = 0, silk = 1;
      int bwmax = fs == 8000 ? 1101 : fs == 12000 ? 1102 : 1103, vbr = vbelow(&r, 2), kind = 1 + vbelow(&r, 5);
      double phase = 0;
      OpusEncoder *e = opus_encoder_create(fs, ch, vchance(&r, 70) ? OPUS_APPLICATION_VOIP : OPUS_APPLICATION_AUDIO, &err);
      if (!e) continue;
      opus_encoder_ctl(e, OPUS_SET_VBR(vbr)); opus_encoder_ctl(e, OPUS_SET_VBR_CONSTRAINT(vbelow(&r, 2)));
      opus_encoder_ctl(e, OPUS_SET_BITRATE(6000 + (int)vbelow(&r, 18000) * ch));
      opus_encoder_ctl(e, OPUS_SET_FORCE_MODE(MODE_SILK_ONLY));
      opus_encoder_ctl(e, OPUS_SET_BANDWIDTH(1101 + (int)vbelow(&r, bwmax - 1100)));
      opus_encoder_ctl(e, OPUS_SET_COMPLEXITY(vbelow(&r, 11)));
      for (k = 0; k < steps; k++) {
         int d = DUR400[3 + vbelow(&r, 4)], afs, out;
         if (silk == 0) d = DUR400[2 + vbelow(&r, 2)];
         afs = fs / 400 * d;
         if (vchance(&r, 22)) { silk = !silk; opus_encoder_ctl(e, OPUS_SET_FORCE_MODE(silk ? MODE_SILK_ONLY : MODE_CELT_ONLY)); }
         else if (vchance(&r, 12)) opus_encoder_ctl(e, OPUS_SET_BANDWIDTH(1101 + (int)vbelow(&r, bwmax - 1100)));
         else if (vchance(&r, 8)) opus_encoder_ctl(e, OPUS_SET_BITRATE(6000 + (int)vbelow(&r, 18000) * ch));
         else if (vchance(&r, 5)) { opus_encoder_ctl(e, OPUS_SET_FORCE_MODE(OPUS_AUTO)); silk = 1; }
         if (vchance(&r, 10)) kind = 1 + vbelow(&r, 5);
         out = 1500;
         if (last > 3 && vchance(&r, 75)) { out = last + (vchance(&r, 50) ? vrange(&r, -16, 16) : -vrange(&r, 0, 3 * ((last + 19) / 20))); if (out < 2) out = 2; }
         one_encode(&r, e, ch, fs, afs, out, kind, &phase);
         if (g_last_ret > 0 && out == 1500) last = g_last_ret;
      }
      opus_encoder_destroy(e);
   }
}

/* multistream / projection: max_data_bytes swept exhaustively over small values at high rates */
static void run_mssweep(uint64_t seed, int level)
{
   vrng r; int li, vi, fi, di, out;
   static const int lay[][2] = {{1, 4}, {1, 3}, {1, 6}, {2, 4}, {3, 4}, {1, 8}, {0, 2}};   /* family, channels */
   r.s = seed * 0x9FB21C651E98DF25ULL + 41;
   for (li = 0; li < 7; li++) for (vi = 0; vi < 2; vi++) for (fi = 0; fi < (level ? 2 : 1); fi++) for (di = 0; di < (level ? 2 : 1); di++) {
      static float x[5760 * 8];
      int fs = fi ? 16000 : 48000, afs = di ? fs / 100 : fs / 50, fam = lay[li][0], ch = lay[li][1], err = 0, streams = 0, coupled = 0, br;
      unsigned char mapping[255]; double phase = 0;
      OpusMSEncoder *ms = NULL; OpusProjectionEncoder *pj = NULL;
      if (fam == 3) pj = opus_projection_ambisonics_encoder_create(fs, ch, 3, &streams, &coupled, OPUS_APPLICATION_AUDIO, &err);
      else ms = opus_multistream_surround_encoder_create(fs, ch, fam, &streams, &coupled, mapping, OPUS_APPLICATION_AUDIO, &err);
      if (!ms && !pj) continue;
      br = vi == 0 && vchance(&r, 30) ? OPUS_BITRATE_MAX : vi == 0 && vchance(&r, 45) ? OPUS_AUTO : 150000 * streams;
      if (ms) { opus_multistream_encoder_ctl(ms, OPUS_SET_BITRATE(br)); opus_multistream_encoder_ctl(ms, OPUS_SET_VBR(vi)); opus_multistream_encoder_ctl(ms, OPUS_SET_COMPLEXITY(4)); }
      else { opus_projection_encoder_ctl(pj, OPUS_SET_BITRATE(br)); opus_projection_encoder_ctl(pj, OPUS_SET_VBR(vi)); opus_projection_encoder_ctl(pj, OPUS_SET_COMPLEXITY(4)); }
      for (out = 1; out <= 600; out++) {
         unsigned char *o = out_buf(out); int ret;
         gen_pcm(&r, 2, x, afs, ch, fs, &phase);
         g_quiet = 1; g_ms_n = 0;
         ret = ms ? opus_multistream_encode_float(ms, x, afs, o, out) : opus_projection_encode_float(pj, x, afs, o, out);
         g_quiet = 0;
         emit_mscurr(o, ret, streams, fs, afs, out, vi, br, ch, fam, coupled);
         printf("# MS fam=%d fs=%d ch=%d streams=%d coupled=%d afs=%d out=%d vbr=%d br=%d ret=%d\n", fam, fs, ch, streams, coupled, afs, out, vi, br, ret);
         check_guard();
      }
      if (ms) opus_multistream_encoder_destroy(ms);
      if (pj) opus_projection_encoder_destroy(pj);
   }
}

/* ------------------------------------------------------------------ pure helper ties */
static void run_silkrate(void)
{
   static const int pts[] = {0, 1, 11999, 12000, 12001, 15999, 16000, 16001, 19999, 20000, 20001, 23999, 24000, 24001, 31999, 32000, 32001, 63999, 64000, 64001, 100000, 500000};
   int bw, f20, vbr, fec, ch, i, rate;
   for (bw = 1101; bw <= 1105; bw++) for (f20 = 0; f20 < 2; f20++) for (vbr = 0; vbr < 2; vbr++) for (fec = 0; fec < 2; fec++) for (ch = 1; ch <= 2; ch++) {
      for (i = 0; i < (int)(sizeof pts / sizeof pts[0]); i++) {
         int k; for (k = 1; k <= ch; k++) { rate = pts[i] * k;
         printf("I encskel silkrate %d %d %d %d %d %d\nO v=%d\n", rate, bw, f20, vbr, fec, ch, compute_silk_rate_for_hybrid(rate, bw, f20, vbr, fec, ch)); }
      }
      for (rate = -2000; rate < 140000; rate += 37 + (bw - 1101) * 6 + f20 + 2 * vbr + 4 * fec)
         printf("I encskel silkrate %d %d %d %d %d %d\nO v=%d\n", rate, bw, f20, vbr, fec, ch, compute_silk_rate_for_hybrid(rate, bw, f20, vbr, fec, ch));
   }
}

static void run_gentoc(void)
{
   static const int rates[] = {400, 200, 100, 50, 25, 16, 12, 10, 8};
   int mode, ri, bw, ch;
   for (mode = 1000; mode <= 1002; mode++) for (ri = 0; ri < 9; ri++) for (bw = 1101; bw <= 1105; bw++) for (ch = 1; ch <= 2; ch++) {
      int fr = rates[ri];
      if (mode == 1000 && (bw > 1103 || fr > 100 || fr < 16)) continue;
      if (mode == 1001 && (bw < 1104 || fr > 100 || fr < 50)) continue;
      if (mode == 1002 && fr < 50) continue;
      printf("I encskel gentoc %d %d %d %d\nO v=%d\n", mode, fr, bw, ch, gen_toc(mode, fr, bw, ch));
   }
   { int fs, v, a; for (fs = 0; fs < 5; fs++) for (v = 4999; v <= 5010; v++) for (a = 0; a <= 6000; a += (a < 130 ? 1 : 7))
        printf("I encskel fss %d %d %d\nO v=%d\n", a, v, FSS[fs], (int)frame_size_select(a, v, FSS[fs])); }
}

int main(int argc, char **argv)
{
   setvbuf(stdout, NULL, _IOFBF, 1 << 16);
   vinstall_traps();
   signal(SIGABRT, my_abort_handler);
#if defined(__SANITIZE_ADDRESS__)
   __sanitizer_set_death_callback(my_death);
#endif
   if (argc >= 4 && !strcmp(argv[1], "rand")) run_rand(strtoull(argv[2], 0, 10), atol(argv[3]));
   else if (argc >= 4 && !strcmp(argv[1], "sweep")) run_sweep(strtoull(argv[2], 0, 10), atoi(argv[3]));
   else if (argc >= 4 && !strcmp(argv[1], "ms")) run_ms(strtoull(argv[2], 0, 10), atol(argv[3]));
   else if (argc >= 4 && !strcmp(argv[1], "bound")) run_bound(strtoull(argv[2], 0, 10), atoi(argv[3]));
   else if (argc >= 4 && !strcmp(argv[1], "fill")) run_fill(strtoull(argv[2], 0, 10), atoi(argv[3]));
   else if (argc >= 4 && !strcmp(argv[1], "mssweep")) run_mssweep(strtoull(argv[2], 0, 10), atoi(argv[3]));
   else if (argc >= 4 && !strcmp(argv[1], "redsw")) run_redsw(strtoull(argv[2], 0, 10), atol(argv[3]));
   else if (argc >= 5 && !strcmp(argv[1], "cvbr")) run_cvbr(strtoull(argv[2], 0, 10), atoi(argv[3]), atoi(argv[4]));
   else if (argc >= 2 && !strcmp(argv[1], "silkrate")) run_silkrate();
   else if (argc >= 2 && !strcmp(argv[1], "gentoc")) run_gentoc();
   else { fprintf(stderr, "usage: c05_encsize rand|sweep|ms <seed> <n> | silkrate | gentoc\n"); return 64; }
   printf("# cases=%ld shadow_activity_mismatch=%ld guard_overwritten=%ld\n", g_cases, g_shadow_mismatch, g_guard_bad);
   fflush(stdout);
   if (g_shadow_mismatch) { fprintf(stderr, "harness shadow computation of `activity` disagrees with the value passed to silk_Encode (%ld cases)\n", g_shadow_mismatch); return 5; }
   if (g_guard_bad) { fprintf(stderr, "guard bytes after data[max_data_bytes] were overwritten (%ld cases)\n", g_guard_bad); return 7; }
   return 0;
}
