/* c15_arch.c — correspondence harness for the arch-selection part of property C15.

   The TU #includes celt/x86/x86cpu.c from /repo's working tree, so `opus_cpu_feature_check`,
   `opus_select_arch_impl` (both static) and `opus_select_arch` are exactly the code of the library; only the CPUID
   instruction itself is replaced by a stub that returns the register values of the test case (the file is compiled
   with CPU_INFO_BY_C instead of CPU_INFO_BY_ASM and `__get_cpuid_count` is redirected).  Not linked against
   libopus.a (it would define opus_select_arch twice).

      enum <seed> <n>   all 2^6 combinations of the six CPUID bits the code reads x nIds in {0,1,6,7,8,13} x
                        OPUS_VERIF_ARCH_CAP in {unset,0..9,"x","",":"}, the other register bits random;
                        then <n> fully random register values

   I kernels selectarch <nIds> <ecx1> <edx1> <ebx7> <cap|->      O <arch> */
#include "vcommon.h"
#include <cpuid.h>

static unsigned int g_nids, g_ecx1, g_edx1, g_ebx7;
static int g_leaf7_reads, g_bad_leaf;
static int verif_get_cpuid_count(unsigned int leaf, unsigned int sub, unsigned int *a, unsigned int *b,
                                 unsigned int *c, unsigned int *d)
{
   (void)sub;
   *a = *b = *c = *d = 0;
   if (leaf == 0) { *a = g_nids; *b = 0x756e6547; *c = 0x6c65746e; *d = 0x49656e69; }
   else if (leaf == 1) { *a = 0x000906ea; *b = 0x00100800; *c = g_ecx1; *d = g_edx1; }
   else if (leaf == 7) { *b = g_ebx7; g_leaf7_reads++; if (g_nids < 7) g_bad_leaf = 1; }
   else g_bad_leaf = 1;
   return 1;
}
#undef CPU_INFO_BY_ASM
#ifndef CPU_INFO_BY_C
# define CPU_INFO_BY_C 1
#endif
#define __get_cpuid_count verif_get_cpuid_count
#include "celt/x86/x86cpu.c"
#undef __get_cpuid_count

static long g_cases = 0, g_hist[16];

static void one(unsigned nids, unsigned ecx1, unsigned edx1, unsigned ebx7, const char *cap)
{
   int arch;
   g_nids = nids; g_ecx1 = ecx1; g_edx1 = edx1; g_ebx7 = ebx7; g_bad_leaf = 0;
   if (cap) setenv("OPUS_VERIF_ARCH_CAP", cap, 1); else unsetenv("OPUS_VERIF_ARCH_CAP");
   /* the model takes the cap as a decimal digit; anything else the hook must ignore (= unset) */
   printf("I kernels selectarch %u %u %u %u %s\n", nids, ecx1, edx1, ebx7,
          (cap && cap[0] >= '0' && cap[0] <= '9') ? (char[2]){cap[0], 0} : "-");
   fflush(stdout);
   arch = opus_select_arch();
   if (g_bad_leaf) printf("O %d queried-a-cpuid-leaf-the-cpu-does-not-announce\n", arch);
   else printf("O %d\n", arch);
   if (arch >= 0 && arch < 16) g_hist[arch]++;
   g_cases++;
}

static void run_enum(uint64_t seed, long n)
{
   static const unsigned NIDS[] = {0, 1, 6, 7, 8, 13};
   static const char *CAPS[] = {NULL, "0", "1", "2", "3", "4", "5", "6", "7", "8", "9", "x", "", ":", "10", "4x", "-1", "/"};
   vrng r; unsigned m, i, c; long k;
   r.s = seed ^ 0xA5C15A5C15ULL; r.s = vnext(&r) + 4242;   /* mixed: consecutive seeds give unrelated streams */
   for (i = 0; i < sizeof NIDS / sizeof NIDS[0]; i++)
      for (m = 0; m < 64; m++)
         for (c = 0; c < sizeof CAPS / sizeof CAPS[0]; c++) {
            /* bits read by the code: EDX1.25 (SSE), EDX1.26 (SSE2), ECX1.19 (SSE4.1), ECX1.28 (AVX), ECX1.12 (FMA),
               EBX7.5 (AVX2); every other bit is noise */
            unsigned ecx = (unsigned)vnext(&r) & ~((1u << 19) | (1u << 28) | (1u << 12));
            unsigned edx = (unsigned)vnext(&r) & ~((1u << 25) | (1u << 26));
            unsigned ebx = (unsigned)vnext(&r) & ~(1u << 5);
            if (m & 1) edx |= 1u << 25;
            if (m & 2) edx |= 1u << 26;
            if (m & 4) ecx |= 1u << 19;
            if (m & 8) ecx |= 1u << 28;
            if (m & 16) ecx |= 1u << 12;
            if (m & 32) ebx |= 1u << 5;
            one(NIDS[i], ecx, edx, ebx, CAPS[c]);
         }
   for (k = 0; k < n; k++) {
      unsigned nids = vchance(&r, 50) ? vbelow(&r, 32) : (unsigned)vnext(&r);
      const char *cap = CAPS[vbelow(&r, sizeof CAPS / sizeof CAPS[0])];
      one(nids, (unsigned)vnext(&r), (unsigned)vnext(&r), (unsigned)vnext(&r), cap);
   }
   for (i = 0; i < 8; i++) if (g_hist[i]) printf("# arch=%u returned %ld times\n", i, g_hist[i]);
   printf("# selectarch cases=%ld\n", g_cases);
}

int main(int argc, char **argv)
{
   vinstall_traps();
   if (argc >= 4 && !strcmp(argv[1], "enum")) run_enum(strtoull(argv[2], 0, 10), atol(argv[3]));
   else { fprintf(stderr, "usage: c15_arch enum <seed> <n>\n"); return 64; }
   fflush(stdout);
   return 0;
}
