/* c09_loss.c — C09: packet loss.  Correspondence (skeleton replay over loss patterns and call
   shapes, SILK PLC gain scalars, opus_packet_has_lbrr) and witness search (twin decoders).

   Built on top of c01_decskel.c (same recording wrappers, same `decskel dec` line pairs): every
   decode / concealment / FEC call of the LOSSY decoder goes through do_call(), so the Lean
   skeleton replays it and the C01/C09 duration predicates are evaluated on it.

   Modes
     loss <seed> <k> <bursts> <thresholds> [quiet]
         for each of a fixed list of configurations (mode x frame duration x FEC) plus `bursts`
         random ones: encode a speech-like signal once, then for EVERY loss pattern over a window
         of k packets (pre-roll and post-roll received) run a fresh lossy decoder with a call
         shape drawn from {whole, split into 2.5-20 ms pieces, FEC from the next packet, FEC with
         a larger-than-packet frame_size}; then `bursts` long-burst sessions (1-10 s of loss).
     calib <seed> <k> <bursts>
         same run, prints the observed maxima of the S4 statistics instead of judging them
         (used once, by hand, to produce tools/c09_calibration.json).
     rebound <seed> <n> <rdecay,rdecay2,rhdecay,rhdecay2> [quiet]   /   rcalib <seed> <n>
         n sessions "burst - k received packets - sustained burst" on quiet-lead-in / loud stationary streams (run_rebound)
   <thresholds> = peak,decay,reconv,fecratio,decay2,fecframe,reconvw  (floats; from tools/props/C09_calib.json)

   S4 oracles (on the implementation, thresholds calibrated on the unchanged tree):
     duration   requested duration returned for every concealment / FEC call      (do_call)
     finite     every produced sample finite                                      (do_call)
     peak       concealed / FEC output peak <= peak * max(level before the loss, 0.02)
     decay      after 1 s (decay2: 2 s) of sustained loss the level of EVERY OUTPUT CHANNEL is <= decay * its pre-loss level
                (bursts include mono streams decoded by a stereo decoder and the reverse)
     fecframe   every frame rebuilt from LBRR data: rms error <= fecframe * (max(frame rms, concealment error) + 5e-3)
                (stereo streams whose width keeps changing are included)
     reconv     400 ms after packets resume, rms(lossy - lossfree) <= reconv * rms(lossfree) + 2e-3
     reconvw    soft burst / pause / loud onset streams, loss at the end of the soft burst: EVERY 5 ms window from 400 ms after the
                last loss to the end (>= 1 s later, across the onset): rms(lossy - lossfree) <= reconvw * max(rms(lossfree), 0.02) + 2e-3
     range      every received packet decodes with the encoder's final range, whatever was lost before (incl. streams
                that switch SILK -> CELT -> SILK inside the enumerated loss window)
     lbrr       opus_packet_has_lbrr == the LBRR flag silk_Decode decodes from the packet
     fecgain    over the run: sum err(FEC)^2 <= fecratio * sum err(PLC)^2, both measured against the loss-free
                twin on frames whose successor carries LBRR and on which concealment visibly fails  */
#define C01_NO_MAIN
#include "c01_decskel.c"

/* ------------------------------------------------------------------ speech-like source */
typedef struct { double ph, ph2, t, t0, nz; vrng r; int wide; } speech;   /* wide: cycle silence / L=R / L and R different (0.16 s each, from t0) */
static void speech_gen(speech *s, float *out, int N, int ch)
{
   int i, h, c;
   for (i = 0; i < N; i++) {
      double t = s->t, f0 = 150 + 60 * sin(2 * M_PI * 2.1 * t) + 22 * sin(2 * M_PI * 7.3 * t);
      double env = sin(2 * M_PI * 2.15 * t); double v = 0, f1, f2, uv;
      uv = env < -0.55 ? (-env - 0.55) * 2.0 : 0;                       /* unvoiced bursts between syllables */
      env = env > 0 ? sqrt(env) : 0; env *= 0.55 + 0.45 * sin(2 * M_PI * 0.37 * t + 1.0);
      f1 = 520 + 300 * sin(2 * M_PI * 1.7 * t); f2 = 1500 + 700 * sin(2 * M_PI * 1.3 * t + 2.0);
      s->ph += 2 * M_PI * f0 / 48000.0; if (s->ph > 2 * M_PI) s->ph -= 2 * M_PI;
      for (h = 1; h <= 24; h++) {
         double fh = h * f0, a = 1.0 / h;
         a *= 1.0 / (1.0 + (fh - f1) * (fh - f1) / (180.0 * 180.0)) + 0.6 / (1.0 + (fh - f2) * (fh - f2) / (260.0 * 260.0)) + 0.05;
         v += a * sin(h * s->ph);
      }
      s->nz = 0.7 * s->nz + 0.3 * (((int)vbelow(&s->r, 2001) - 1000) / 1000.0);
      v = 0.22 * env * v + (0.012 + 0.09 * uv) * s->nz;
      if (s->wide && ch == 2) {
         /* stereo image that keeps changing: the side channel (and with it the side VAD / LBRR flags) comes and goes */
         int cyc = (int)((t - s->t0) / 0.16) % 3; double f02 = 205 + 35 * sin(2 * M_PI * 1.3 * t), v2 = 0;
         s->ph2 += 2 * M_PI * f02 / 48000.0; if (s->ph2 > 2 * M_PI) s->ph2 -= 2 * M_PI;
         for (h = 1; h <= 16; h++) v2 += sin(h * s->ph2) / h * (1.0 / (1.0 + (h * f02 - 900) * (h * f02 - 900) / (300.0 * 300.0)) + 0.1);
         v2 = 0.2 * (0.6 + 0.4 * sin(2 * M_PI * 3.1 * t)) * v2;
         if (cyc == 0) { out[i * 2] = (float)(0.002 * s->nz); out[i * 2 + 1] = (float)(0.002 * s->nz); }
         else if (cyc == 1) { out[i * 2] = (float)v; out[i * 2 + 1] = (float)v; }
         else { out[i * 2] = (float)v; out[i * 2 + 1] = (float)v2; }
      } else
      for (c = 0; c < ch; c++) out[i * ch + c] = (float)(c ? 0.8 * v : v);
      s->t += 1.0 / 48000.0;
   }
}

/* soft burst -> pause -> loud onset (sig 2): a steady voiced sound at level a_soft that decays over the last 100 ms before
   T1, near-silence until T2, then the same kind of sound at level a_loud.  A loss at the end of the soft burst is followed
   by frames that are NOT louder than the concealment; the onset, long after the loss, must come out as in the loss-free
   decoder. */
static struct { double T1, T2, a_soft, a_loud, f0; double ph; double nz; vrng r; } ONS;
static void onset_gen(float *out, int N, int ch, long start48)
{
   int i, h, c;
   for (i = 0; i < N; i++) {
      double t = (start48 + i) / 48000.0, a, v = 0, f0 = ONS.f0 * (1.0 + 0.03 * sin(2 * M_PI * 3.1 * t));
      if (t < ONS.T1 - 0.1) a = ONS.a_soft;
      else if (t < ONS.T1) a = ONS.a_soft * (0.25 + 0.75 * (ONS.T1 - t) / 0.1);
      else if (t < ONS.T2) a = 0;
      else a = ONS.a_loud;
      ONS.ph += 2 * M_PI * f0 / 48000.0; if (ONS.ph > 2 * M_PI) ONS.ph -= 2 * M_PI;
      for (h = 1; h <= 18; h++) {
         double fh = h * f0, w = 1.0 / h * (1.0 / (1.0 + (fh - 600) * (fh - 600) / (200.0 * 200.0)) + 0.5 / (1.0 + (fh - 1700) * (fh - 1700) / (300.0 * 300.0)) + 0.05);
         v += w * sin(h * ONS.ph);
      }
      ONS.nz = 0.6 * ONS.nz + 0.4 * (((int)vbelow(&ONS.r, 2001) - 1000) / 1000.0);
      v = a * 0.8 * v + (2e-4 + 0.02 * a) * ONS.nz;
      for (c = 0; c < ch; c++) out[i * ch + c] = (float)(c ? 0.85 * v : v);
   }
}

/* ------------------------------------------------------------------ configurations */
typedef struct { int mode, bw, dur, bitrate, fec, ench, Fs, ch, shape, gain, sig, sw; } lcfg;
/* sig 1: stereo width cycle; sig 2: soft burst / pause / loud onset (ONS); sw 1: the encoder is switched SILK -> CELT -> SILK inside the loss window (redundant frames both ways) */
/* dur in 2.5 ms units */
static const lcfg BASE[] = {
   { MODE_SILK_ONLY, OPUS_BANDWIDTH_WIDEBAND,      8, 24000, 1, 1, 48000, 1, -1, 0 },
   { MODE_SILK_ONLY, OPUS_BANDWIDTH_NARROWBAND,   24, 16000, 1, 1, 16000, 2, -1, 0 },
   { MODE_SILK_ONLY, OPUS_BANDWIDTH_MEDIUMBAND,   16, 20000, 0, 2, 24000, 2, -1, 0 },
   { MODE_SILK_ONLY, OPUS_BANDWIDTH_WIDEBAND,      4, 28000, 1, 2,  8000, 1, -1, 0 },
   { MODE_HYBRID,    OPUS_BANDWIDTH_FULLBAND,      8, 40000, 1, 1, 48000, 2, -1, 0 },
   { MODE_HYBRID,    OPUS_BANDWIDTH_SUPERWIDEBAND, 4, 36000, 0, 2, 12000, 1, -1, 0 },
   { MODE_CELT_ONLY, OPUS_BANDWIDTH_FULLBAND,      8, 64000, 0, 2, 48000, 2, -1, 0 },
   { MODE_CELT_ONLY, OPUS_BANDWIDTH_WIDEBAND,      4, 48000, 0, 1, 16000, 1, -1, 0 },
   { MODE_CELT_ONLY, OPUS_BANDWIDTH_FULLBAND,      2, 96000, 0, 1, 24000, 2, -1, 0 },
   { MODE_CELT_ONLY, OPUS_BANDWIDTH_SUPERWIDEBAND, 1, 128000, 0, 2, 48000, 1, -1, 0 },
   { -1,             OPUS_AUTO,                    8, 20000, 1, 1, 48000, 1, -1, 0 },   /* automatic mode switching */
   { -1,             OPUS_AUTO,                   16, 32000, 1, 2, 16000, 2, -1, 300 },
   { MODE_SILK_ONLY, OPUS_BANDWIDTH_WIDEBAND,      8, 36000, 1, 2, 48000, 2,  2, 0, 1, 0 },   /* 12: stereo FEC, changing width */
   { MODE_HYBRID,    OPUS_BANDWIDTH_FULLBAND,      8, 48000, 1, 2, 24000, 2,  2, 0, 1, 0 },   /* 13: same, hybrid */
   { -1,             OPUS_AUTO,                    8, 14000, 0, 1, 48000, 1, -1, 0, 0, 1 },   /* 14: mode switch in the window */
   { -1,             OPUS_AUTO,                    8, 16000, 1, 1, 16000, 2, -1, 0, 0, 1 },   /* 15: same, FEC on, other decoder */
};
#define ANCHOR(i) ((i) == 0 || (i) == 4 || (i) == 6 || (i) == 10 || (i) == 12 || (i) == 14)
#define NBASE ((int)(sizeof BASE / sizeof BASE[0]))

#define MAXPK 1200
typedef struct {
   unsigned char *pkt[MAXPK]; int len[MAXPK]; opus_uint32 rng[MAXPK]; int lbrr[MAXPK]; int n;
   float *ref;                /* loss-free twin output, n*D*ch samples */
   int sw0;                   /* first packet encoded with the CELT settings (sw configurations) */
   int nmode[3], nsw;         /* packets per mode (SILK, hybrid, CELT); mode changes between consecutive packets */
   int D;                     /* packet duration in samples at cfg.Fs */
} stream_t;

static struct { double peak, decay, reconv, fecratio, decay2, fecframe, reconvw; } TH = { 1e9, 1e9, 1e9, 1e9, 1e9, 1e9, 1e9 };
static struct { double peak, decay, reconv, fecratio, decay2, fecframe, reconvw; long nreconvw, nonset, nstuck; long npeak, ndecay, ndecay2, nreconv, nfec, nfecframe, nrange, nlbrr, nshape[4], nsess, nmode[3], nsw, nm2s, nedge; } OBS;
static int g_calib;
static double g_efec, g_eplc;      /* over the whole run: FEC vs PLC error energy on frames where PLC fails */

static void judge(const char *kind, double val, double *obs, double th, const char *fmt, ...)
{
   va_list ap;
   if (val > *obs) *obs = val;
   if (g_calib || !(val > th)) return;
   G.n_w++;
   printf("W %s | ", kind);
   va_start(ap, fmt); vprintf(fmt, ap); va_end(ap);
   printf(" (observed %.4g > threshold %.4g) | -\n", val, th);
}

static double rms(const float *x, long n) { double s = 0; long i; if (n <= 0) return 0; for (i = 0; i < n; i++) s += (double)x[i] * x[i]; return sqrt(s / n); }
static double peakof(const float *x, long n) { double p = 0; long i; for (i = 0; i < n; i++) if (fabs(x[i]) > p) p = fabs(x[i]); return p; }
static double rmsdiff(const float *a, const float *b, long n) { double s = 0; long i; if (n <= 0) return 0; for (i = 0; i < n; i++) { double d = (double)a[i] - b[i]; s += d * d; } return sqrt(s / n); }

/* encode `n` packets of configuration c, decode them loss-free (the twin) */
static int make_stream(const lcfg *c, vrng *r, int n, stream_t *S)
{
   static float in[2 * 5760]; static unsigned char buf[1500];
   speech sp; int err, i; OpusEncoder *enc; OpusDecoder *twin; int q = G.quiet;
   memset(&sp, 0, sizeof sp); sp.r.s = vnext(r); sp.t = vbelow(r, 4000) / 1000.0; sp.t0 = sp.t - vbelow(r, 160) / 1000.0; sp.wide = c->sig == 1;
   enc = opus_encoder_create(48000, c->ench, (c->mode == MODE_CELT_ONLY || c->sw) ? OPUS_APPLICATION_AUDIO : OPUS_APPLICATION_VOIP, &err);
   if (!enc) return 0;
   opus_encoder_ctl(enc, OPUS_SET_BITRATE(c->bitrate));
   if (c->mode >= 0) opus_encoder_ctl(enc, OPUS_SET_FORCE_MODE(c->mode));
   if (c->bw != OPUS_AUTO) { opus_encoder_ctl(enc, OPUS_SET_BANDWIDTH(c->bw)); opus_encoder_ctl(enc, OPUS_SET_MAX_BANDWIDTH(c->bw)); }
   if (c->sig == 1) opus_encoder_ctl(enc, OPUS_SET_FORCE_CHANNELS(2));   /* keep the stream stereo while its width changes */
   opus_encoder_ctl(enc, OPUS_SET_INBAND_FEC(c->fec));
   opus_encoder_ctl(enc, OPUS_SET_PACKET_LOSS_PERC(c->fec ? 25 : 0));
   opus_encoder_ctl(enc, OPUS_SET_COMPLEXITY(5));
   S->n = 0; S->D = c->dur * (c->Fs / 400); S->nmode[0] = S->nmode[1] = S->nmode[2] = S->nsw = 0;
   S->ref = (float *)malloc(sizeof(float) * (size_t)n * S->D * c->ch);
   twin = opus_decoder_create(c->Fs, c->ch, &err);
   if (c->gain) opus_decoder_ctl(twin, OPUS_SET_GAIN(c->gain));
   G.quiet = 1;
   for (i = 0; i < n; i++) {
      int N = c->dur * 120, len; callres cr;
      if (c->sw) {
         /* packets sw0 .. sw0+2 with music / 160 kb/s / fullband settings: packet sw0 is still SILK or hybrid and carries the
            SILK->CELT redundant frame, sw0+1 .. sw0+2 are CELT, packet sw0+3 is SILK again with the CELT->SILK redundant frame */
         int hi = i >= S->sw0 && i < S->sw0 + 3;
         opus_encoder_ctl(enc, OPUS_SET_SIGNAL(hi ? OPUS_SIGNAL_MUSIC : OPUS_SIGNAL_VOICE));
         opus_encoder_ctl(enc, OPUS_SET_BITRATE(hi ? 160000 : c->bitrate));
         opus_encoder_ctl(enc, OPUS_SET_BANDWIDTH(hi ? OPUS_BANDWIDTH_FULLBAND : OPUS_BANDWIDTH_WIDEBAND));
      }
      if (c->sig == 2) onset_gen(in, N, c->ench, (long)i * N); else speech_gen(&sp, in, N, c->ench);
      len = opus_encode_float(enc, in, N, buf, sizeof buf);
      if (len <= 0) break;
      S->pkt[i] = (unsigned char *)malloc(len); memcpy(S->pkt[i], buf, len); S->len[i] = len;
      { int m = (buf[0] & 0x80) ? 2 : ((buf[0] & 0x60) == 0x60 ? 1 : 0); S->nmode[m]++;
        if (i > 0) { int pm = (S->pkt[i - 1][0] & 0x80) ? 2 : ((S->pkt[i - 1][0] & 0x60) == 0x60 ? 1 : 0); if (pm != m) S->nsw++; } }
      opus_encoder_ctl(enc, OPUS_GET_FINAL_RANGE(&S->rng[i]));
      cr = do_call(twin, FMTF, buf, len, 0, len, S->D, 0, S->ref + (size_t)i * S->D * c->ch);
      S->lbrr[i] = G.lbrr_seen;
      if (cr.ret != S->D) { witness("twin", "loss-free twin returned %d for a %d-sample packet", cr.ret, S->D); break; }
      S->n = i + 1;
   }
   G.quiet = q;
   opus_encoder_destroy(enc); opus_decoder_destroy(twin);
   return S->n == n;
}
static void free_stream(stream_t *S) { int i; for (i = 0; i < S->n; i++) free(S->pkt[i]); free(S->ref); S->n = 0; }

/* has_lbrr: tie line + agreement with what silk_Decode saw */
static void check_lbrr(const lcfg *c, const stream_t *S)
{
   int i;
   for (i = 0; i < S->n; i++) {
      unsigned char *p = vexact(S->pkt[i], S->len[i]); int hl;
      if (!G.quiet) { printf("I decskel lbrr "); vhex(stdout, p, S->len[i]); printf("\n"); fflush(stdout); }
      hl = opus_packet_has_lbrr(p, S->len[i]);
      if (!G.quiet) { if (hl < 0) printf("O %s\n", verr(hl)); else printf("O %d\n", hl); }
      OBS.nlbrr++;
      if (S->lbrr[i] >= 0 && hl != S->lbrr[i]) {
         G.n_w++; printf("W lbrr | opus_packet_has_lbrr=%d but silk_Decode decoded LBRR flag %d | decskel lbrr ", hl, S->lbrr[i]); vhex(stdout, p, S->len[i]); printf("\n");
      }
      if (S->lbrr[i] < 0 && hl != 0) { G.n_w++; printf("W lbrr | opus_packet_has_lbrr=%d on a CELT-only packet | decskel lbrr ", hl); vhex(stdout, p, S->len[i]); printf("\n"); }
      free(p);
   }
   (void)c;
}

/* conceal `D` samples with the given shape; out receives D*ch samples */
static int conceal(OpusDecoder *A, const lcfg *c, vrng *r, int D, int split, float *out, int fmt)
{
   int u = c->Fs / 400, done = 0;
   static unsigned char dummy[1];
   if (!split) { callres cr = do_call(A, fmt, dummy, 0, 1, 0, D, 0, out); return cr.ret == D; }
   while (done < D) {
      static const int pieces[4] = {1, 2, 4, 8}; int p = pieces[vbelow(r, 4)] * u; callres cr;
      if (p > D - done) p = u * (1 + vbelow(r, (D - done) / u));
      cr = do_call(A, fmt, dummy, vchance(r, 50) ? 0 : 1, vchance(r, 50), 0, p, 0, out + (size_t)done * c->ch);
      if (cr.ret != p) return 0;
      done += p;
   }
   return 1;
}

static OpusDecoder *clone_dec(OpusDecoder *A, int ch)
{
   int sz = opus_decoder_get_size(ch); OpusDecoder *C = (OpusDecoder *)malloc(sz); memcpy(C, A, sz); return C;
}

/* one lossy run over packets [0,n) with loss mask `lost[i]`; shape: 0 whole PLC, 1 split PLC, 2 FEC when possible, 3 FEC with larger frame_size */
static void lossy_run(const lcfg *c, const stream_t *S, const unsigned char *lost, int n, int shape, vrng *r, double *efec, double *eplc, int burst)
{
   int err, i, ch = c->ch, D = S->D; OpusDecoder *A = opus_decoder_create(c->Fs, ch, &err);
   float *out = (float *)calloc((size_t)n * D * ch, sizeof(float));
   int fmt = vchance(r, 70) ? FMTF : vchance(r, 50) ? FMT16 : FMT24;
   int last_loss = -1, first_loss = -1; double pre_level = 0, pre_rms = 0;
   if (c->sig == 2) fmt = FMTF;
   if (c->gain) opus_decoder_ctl(A, OPUS_SET_GAIN(c->gain));
   OBS.nsess++; OBS.nshape[shape]++;
   for (i = 0; i < n; i++) {
      float *o = out + (size_t)i * D * ch;
      if (!lost[i]) {
         callres cr = do_call(A, fmt, S->pkt[i], S->len[i], 0, S->len[i], D, 0, o);
         opus_uint32 rg = 0;
         if (cr.ret != D) { witness("recv", "received packet %d returned %s", i, ret_str(cr.ret)); break; }
         opus_decoder_ctl(A, OPUS_GET_FINAL_RANGE(&rg)); OBS.nrange++;
         if (rg != S->rng[i]) witness("range", "packet %d after %s: decoder final range %08x, encoder %08x", i, last_loss >= 0 ? "losses" : "no loss", (unsigned)rg, (unsigned)S->rng[i]);
         continue;
      }
      if (first_loss < 0 || (i > 0 && !lost[i - 1])) {
         /* level of what the listener heard just before this burst */
         int back = (int)(0.06 * c->Fs) / D + 1, j0 = i - back < 0 ? 0 : i - back;
         first_loss = i;
         pre_level = peakof(out + (size_t)j0 * D * ch, (long)(i - j0) * D * ch);
         pre_rms = rms(out + (size_t)j0 * D * ch, (long)(i - j0) * D * ch);
      }
      last_loss = i;
      {
         int next_ok = i + 1 < n && !lost[i + 1], ok = 1, did_fec = 0;
         if (shape >= 2 && next_ok && !(shape == 3 && i > 0 && lost[i - 1] && 0)) {
            /* FEC from the next packet; shape 3: if the previous packet was lost too and not yet filled, ask for both */
            OpusDecoder *C = (efec && S->lbrr[i + 1] == 1 && i > 0 && !lost[i - 1]) ? clone_dec(A, ch) : NULL;
            callres cr = do_call(A, fmt, S->pkt[i + 1], S->len[i + 1], 0, S->len[i + 1], D, 1, o);
            ok = cr.ret == D; did_fec = 1;
            if (C) {
               static float tmp[2 * 5760]; int q = G.quiet; callres cp;
               static unsigned char dummy[1];
               G.quiet = 1; cp = do_call(C, FMTF, dummy, 0, 1, 0, D, 0, tmp); G.quiet = q;
               if (cp.ret == D && ok && fmt == FMTF) {
                  const float *ref = S->ref + (size_t)i * D * ch; double a = rmsdiff(o, ref, (long)D * ch), b = rmsdiff(tmp, ref, (long)D * ch);
                  /* frames on which concealment visibly fails (error above half the signal level): there the
                     redundant copy must be much closer to the loss-free output */
                  if (b > 0.5 * rms(ref, (long)D * ch) && b > 2e-3) { *efec += a * a; *eplc += b * b; OBS.nfec++; }
                  /* per frame: a frame rebuilt from LBRR data may be coarse, but its error stays of the order of the signal
                     or of what concealment would have done — never a multiple of both */
                  {
                     double lv = rms(ref, (long)D * ch), den = (lv > b ? lv : b) + 0.02;
                     OBS.nfecframe++;
                     /* SILK stereo header of a single-frame packet: VADmid LBRRmid VADside LBRRside */
                     if ((S->pkt[i + 1][0] & 0x84) == 0x04 && (S->pkt[i + 1][0] & 3) == 0 && S->len[i + 1] > 1 && c->dur == 8) {
                        int hb = S->pkt[i + 1][1]; if (((hb >> 6) & 1) && ((hb >> 5) & 1) != ((hb >> 4) & 1)) OBS.nedge++;
                     }
                     judge("fecframe", a / den, &OBS.fecframe, TH.fecframe, "packet %d rebuilt from the LBRR data of packet %d: rms error %.5f, loss-free frame rms %.5f, concealment error %.5f", i, i + 1, a, lv, b);
                  }
               }
               free(C);
            }
         } else if (shape == 3 && i + 2 < n && lost[i + 1] && !lost[i + 2]) {
            /* two packets lost, the packet after them received: one FEC call with frame_size = 2*D */
            callres cr = do_call(A, fmt, S->pkt[i + 2], S->len[i + 2], 0, S->len[i + 2], 2 * D, 1, o);
            ok = cr.ret == 2 * D; did_fec = 1;
            if (ok) { i++; last_loss = i; }
         } else ok = conceal(A, c, r, D, shape == 1, o, fmt);
         if (!ok) { witness("conceal", "concealment / FEC of packet %d did not return the requested duration", i); break; }
         (void)did_fec;
         {
            int span = (last_loss - (i == last_loss ? i : i - 1) + 1); const float *oo = out + (size_t)(last_loss - span + 1) * D * ch;
            double pk = peakof(oo, (long)span * D * ch), ref = pre_level > 0.02 ? pre_level : 0.02;
            OBS.npeak++;
            judge("peak", pk / ref, &OBS.peak, TH.peak, "packet %d (loss burst from %d): concealed peak %.4f, level before the loss %.4f", i, first_loss, pk, pre_level);
         }
         if (burst) {
            /* sustained loss: level 1.0-1.1 s and 2.0-2.1 s into the burst, PER OUTPUT CHANNEL, against that channel's level
               in the 60 ms before the loss */
            double tl = (double)(i - first_loss) * D / c->Fs; int which = 0, cc;
            if (tl >= 1.0 && tl < 1.0 + (double)D / c->Fs + 1e-9) which = 1;
            else if (tl >= 2.0 && tl < 2.0 + (double)D / c->Fs + 1e-9) which = 2;
            if (which) for (cc = 0; cc < ch; cc++) {
               int k = (int)(0.1 * c->Fs) / D + 1, j0 = i - k + 1 < first_loss ? first_loss : i - k + 1;
               int back = (int)(0.06 * c->Fs) / D + 1, b0 = first_loss - back < 0 ? 0 : first_loss - back; long q2, nq; double e = 0, pe = 0, lv, pv;
               nq = (long)(i - j0 + 1) * D; for (q2 = 0; q2 < nq; q2++) { double x = out[((size_t)j0 * D + q2) * ch + cc]; e += x * x; }
               lv = sqrt(e / (nq > 0 ? nq : 1));
               nq = (long)(first_loss - b0) * D; for (q2 = 0; q2 < nq; q2++) { double x = out[((size_t)b0 * D + q2) * ch + cc]; pe += x * x; }
               pv = sqrt(pe / (nq > 0 ? nq : 1));
               if (pv <= 0.01) continue;
               if (which == 1) { OBS.ndecay++; judge("decay", lv / pv, &OBS.decay, TH.decay, "channel %d of %d (stream has %d), 1 s into a loss burst starting at packet %d: rms %.5f, pre-loss rms %.5f", cc, ch, c->ench, first_loss, lv, pv); }
               else { OBS.ndecay2++; judge("decay2", lv / pv, &OBS.decay2, TH.decay2, "channel %d of %d (stream has %d), 2 s into a loss burst starting at packet %d: rms %.5f, pre-loss rms %.5f", cc, ch, c->ench, first_loss, lv, pv); }
            }
         }
      }
   }
   if (i == n && last_loss >= 0) {
      /* re-convergence: last 100 ms of the run, provided >= 400 ms of packets were received since the last loss */
      double since = (double)(n - 1 - last_loss) * D / c->Fs;
      if (since >= 0.4 && fmt == FMTF) {
         int k = (int)(0.1 * c->Fs) / D + 1; const float *a = out + (size_t)(n - k) * D * ch, *b = S->ref + (size_t)(n - k) * D * ch;
         double d = rmsdiff(a, b, (long)k * D * ch), lv = rms(b, (long)k * D * ch);
         OBS.nreconv++;
         judge("reconv", (d - 2e-3 > 0 ? d - 2e-3 : 0) / (lv > 1e-3 ? lv : 1e-3), &OBS.reconv, TH.reconv, "100 ms ending %.2f s after the last loss: rms(lossy-lossfree) %.5f, rms(lossfree) %.5f", since, d, lv);
      }
   }
   if (i == n && last_loss >= 0 && c->sig == 2 && fmt == FMTF) {
      /* long horizon: EVERY 5 ms window from 400 ms after the last loss to the end of the stream (>= 1 s later, across the
         pause and the onset) is as in the loss-free decoder */
      long w = c->Fs / 200, s0 = (long)(last_loss + 1) * D + (long)(0.4 * c->Fs), total = (long)n * D, q; double worst = 0, wd = 0, wl = 0, wt = 0;
      for (q = s0; q + w <= total; q += w) {
         double d = rmsdiff(out + (size_t)q * ch, S->ref + (size_t)q * ch, w * ch), lv = rms(S->ref + (size_t)q * ch, w * ch);
         double v = (d - 2e-3 > 0 ? d - 2e-3 : 0) / (lv > 0.02 ? lv : 0.02);
         if (v > worst) { worst = v; wd = d; wl = lv; wt = (double)(q - (long)(last_loss + 1) * D) / c->Fs; }
      }
      if (total - s0 >= c->Fs) {
         OBS.nreconvw++;
         judge("reconvw", worst, &OBS.reconvw, TH.reconvw, "5 ms window %.3f s after the last loss (packet %d): rms(lossy-lossfree) %.5f, rms(lossfree) %.5f", wt, last_loss, wd, wl);
      }
   }
   free(out); opus_decoder_destroy(A);
}

static void run_config(const lcfg *c, vrng *r, int k, int all_patterns)
{
   stream_t S; double pre_s = 0.25, post_s = 0.55; int D = c->dur * (c->Fs / 400);
   int pre = (int)(pre_s * c->Fs) / D + 2, post = (int)(post_s * c->Fs) / D + 2, n = pre + k + post, npat, p, i;
   double efec = 0, eplc = 0; unsigned char lost[MAXPK];
   if (n > MAXPK) return;
   S.sw0 = pre + 1;
   if (!make_stream(c, r, n, &S)) { free_stream(&S); return; }
   OBS.nmode[0] += S.nmode[0]; OBS.nmode[1] += S.nmode[1]; OBS.nmode[2] += S.nmode[2]; OBS.nsw += S.nsw;
   check_lbrr(c, &S);
   npat = all_patterns ? (1 << k) : 24;
   for (p = all_patterns ? 1 : 0; p < npat; p++) {
      unsigned mask = all_patterns ? (unsigned)p : (unsigned)(vnext(r) & ((1u << k) - 1)) | 1u;
      int shape = c->shape >= 0 ? c->shape : (int)vbelow(r, 4);
      if (c->mode == MODE_CELT_ONLY && shape >= 2 && vchance(r, 70)) shape -= 2;   /* FEC on CELT degrades to PLC: keep some */
      memset(lost, 0, sizeof lost);
      for (i = 0; i < k; i++) lost[pre + i] = (mask >> i) & 1;
      G.trace_plc = !G.quiet && (p % 7 == 0);
      lossy_run(c, &S, lost, n, shape, r, &efec, &eplc, 0);
      G.trace_plc = 0;
   }
   g_efec += efec; g_eplc += eplc;
   free_stream(&S);
}

/* FEC scan: a 3 s stream; every packet in turn is treated as the only lost one and rebuilt (a) from the LBRR data of its
   successor, (b) by concealment, both from a copy of the decoder state, and compared with the loss-free output */
static void run_fecscan(const lcfg *c, vrng *r)
{
   stream_t S; int D = c->dur * (c->Fs / 400), n = (int)(3.0 * c->Fs) / D, err, p, ch = c->ch; OpusDecoder *A;
   static float ofec[2 * 5760], oplc[2 * 5760], cur[2 * 5760]; static unsigned char dummy[1]; double efec = 0, eplc = 0;
   if (n > MAXPK) n = MAXPK;
   S.sw0 = n + 10;
   if (!make_stream(c, r, n, &S)) { free_stream(&S); return; }
   A = opus_decoder_create(c->Fs, ch, &err);
   OBS.nsess++;
   for (p = 0; p + 1 < n; p++) {
      callres cr;
      if (S.lbrr[p + 1] == 1 && p > 0) {
         OpusDecoder *F = clone_dec(A, ch), *P = clone_dec(A, ch); callres cf, cp; int q = G.quiet;
         cf = do_call(F, FMTF, S.pkt[p + 1], S.len[p + 1], 0, S.len[p + 1], D, 1, ofec);
         G.quiet = 1; cp = do_call(P, FMTF, dummy, 0, 1, 0, D, 0, oplc); G.quiet = q;
         if (cf.ret == D && cp.ret == D) {
            const float *ref = S.ref + (size_t)p * D * ch; double a = rmsdiff(ofec, ref, (long)D * ch), b = rmsdiff(oplc, ref, (long)D * ch);
            double lv = rms(ref, (long)D * ch), den = (lv > b ? lv : b) + 0.02;
            if (b > 0.5 * lv && b > 2e-3) { efec += a * a; eplc += b * b; OBS.nfec++; }
            OBS.nfecframe++;
            if ((S.pkt[p + 1][0] & 0x84) == 0x04 && (S.pkt[p + 1][0] & 3) == 0 && S.len[p + 1] > 1 && c->dur == 8) {
               int hb = S.pkt[p + 1][1]; if (((hb >> 6) & 1) && ((hb >> 5) & 1) != ((hb >> 4) & 1)) OBS.nedge++;
            }
            judge("fecframe", a / den, &OBS.fecframe, TH.fecframe, "packet %d rebuilt from the LBRR data of packet %d: rms error %.5f, loss-free frame rms %.5f, concealment error %.5f", p, p + 1, a, lv, b);
         } else witness("conceal", "FEC / concealment of packet %d did not return the requested duration", p);
         free(F); free(P);
      }
      { int q = G.quiet; G.quiet = 1; cr = do_call(A, FMTF, S.pkt[p], S.len[p], 0, S.len[p], D, 0, cur); G.quiet = q; }
      if (cr.ret != D) break;
   }
   g_efec += efec; g_eplc += eplc;
   opus_decoder_destroy(A); free_stream(&S);
}

/* long bursts: the first ones walk through a fixed list (mono stream into a stereo decoder and the reverse, every mode), the
   rest are random */
static const struct { int base, ench, ch, Fs, dur; } BURST[] = {
   { 6, 1, 2, 48000, 8 }, { 7, 1, 2, 16000, 4 }, { 4, 1, 2, 48000, 8 }, { 0, 1, 2, 24000, 8 },
   { 6, 2, 1, 48000, 8 }, { 6, 2, 2, 48000, 4 }, { 8, 1, 2, 24000, 4 }, { 5, 2, 2, 12000, 4 },
};
#define NBURST ((int)(sizeof BURST / sizeof BURST[0]))
static void run_burst(vrng *r, int idx)
{
   lcfg c = BASE[vbelow(r, 12)]; stream_t S; int D, pre, blen, post, n, i; unsigned char lost[MAXPK]; double e1 = 0, e2 = 0;
   static const int RATES5[5] = {8000, 12000, 16000, 24000, 48000};
   c.Fs = RATES5[vbelow(r, 5)]; c.ch = 1 + vbelow(r, 2); c.shape = vbelow(r, 2); c.fec = 0;
   if (idx < NBURST) { c = BASE[BURST[idx].base]; c.ench = BURST[idx].ench; c.ch = BURST[idx].ch; c.Fs = BURST[idx].Fs; c.dur = BURST[idx].dur; c.shape = idx & 1; c.fec = 0; }
   if (c.ench == 1 && c.ch == 2) OBS.nm2s++;
   if (c.dur < 4) c.dur = 4;
   D = c.dur * (c.Fs / 400);
   pre = (int)(0.5 * c.Fs) / D + 1; blen = (int)(((idx < NBURST ? 2.2 : 1.15) + vbelow(r, idx < NBURST ? 2 : 9)) * c.Fs) / D + 1; post = (int)(0.55 * c.Fs) / D + 2; n = pre + blen + post;
   if (n > MAXPK) { blen = MAXPK - pre - post; n = MAXPK; }
   S.sw0 = n + 10;
   if (!make_stream(&c, r, n, &S)) { free_stream(&S); return; }
   memset(lost, 0, sizeof lost);
   for (i = 0; i < blen; i++) lost[pre + i] = 1;
   lossy_run(&c, &S, lost, n, c.shape, r, &e1, &e2, 1);
   free_stream(&S);
}

/* soft burst / pause / onset sessions: every loss pattern over a window of packets around the end of the soft burst */
static void run_onset(vrng *r, int idx)
{
   static const struct { int base, dur, Fs, ch, ench; } OC[] = {
      { 0, 8, 48000, 1, 1 }, { 1, 8, 16000, 2, 1 }, { 4, 8, 48000, 2, 1 }, { 2, 4, 24000, 1, 2 }, { 0, 16, 16000, 1, 1 }, { 5, 4, 12000, 1, 2 }, { 4, 8, 24000, 1, 2 },
   };
   int o = idx % 7; lcfg c = BASE[OC[o].base]; stream_t S; int D, n, k, p0, p, i; unsigned char lost[MAXPK]; double e1 = 0, e2 = 0;
   c.dur = OC[o].dur; c.Fs = OC[o].Fs; c.ch = OC[o].ch; c.ench = OC[o].ench; c.fec = 0; c.sig = 2; c.sw = 0; c.gain = 0;
   memset(&ONS, 0, sizeof ONS);
   ONS.r.s = vnext(r); ONS.T1 = 0.45 + vbelow(r, 150) / 1000.0; ONS.T2 = ONS.T1 + 0.3 + vbelow(r, 400) / 1000.0;
   ONS.a_soft = 0.03 + vbelow(r, 40) / 1000.0; ONS.a_loud = 0.35 + vbelow(r, 250) / 1000.0; ONS.f0 = 110 + vbelow(r, 120);
   D = c.dur * (c.Fs / 400);
   n = (int)((ONS.T2 + 1.05) * c.Fs) / D + 1;
   if (n > MAXPK) return;
   S.sw0 = n + 10;
   if (!make_stream(&c, r, n, &S)) { free_stream(&S); return; }
   OBS.nonset++;
   k = c.dur >= 8 ? 4 : 5;
   p0 = (int)((ONS.T1 - 0.10) * c.Fs) / D + (int)vbelow(r, 3);
   if (p0 < 3) p0 = 3;
   for (p = 1; p < (1 << k); p++) {
      memset(lost, 0, sizeof lost);
      for (i = 0; i < k; i++) lost[p0 + i] = (p >> i) & 1;
      lossy_run(&c, &S, lost, n, (int)vbelow(r, 2), r, &e1, &e2, 0);
   }
   free_stream(&S);
}

/* ------------------------------------------------------------------ rebound sessions (mode `rebound`)
   Loss-pattern family "burst - k received packets (k = 1..3) - sustained burst" on a stream with a QUIET lead-in followed by
   LOUD STATIONARY content (coloured noise): what the decoder learnt as background level during the quiet passage, plus what a
   long first burst lets it add on the first received packet (celt_decoder.c: backgroundLogE / max_background_increase on a
   decoded frame, floor of the noise concealment), decides how far the SECOND burst decays.  Packets are encoded and decoded on
   the fly (only received packets are shown to the decoder; the encoder runs through the lost stretches on the same signal).
   Statistic, per output channel: rms 1.0-1.1 s / 2.0-2.1 s into the second burst over the rms of the k packets received just
   before it (rdecay / rdecay2 for CELT-only streams, rhdecay / rhdecay2 for hybrid ones).  */
static struct { double rdecay, rdecay2, rhdecay, rhdecay2; } TH2 = { 1e9, 1e9, 1e9, 1e9 };
static struct { double rdecay, rdecay2, rhdecay, rhdecay2; long n, nh, sess; } OBS2;
typedef struct { int base, dur, Fs, ch, ench, k; double b1, gap_db, tloud; } rcfg;
static const rcfg RB[] = {
   /* base  dur Fs     ch ench k  burst1(s) gap(dB) loud lead (s) */
   { 6,     8, 48000, 1, 1,   1, 16.0,     34,     0.8 },     /* CELT FB 20 ms mono */
   { 6,     8, 48000, 2, 2,   3, 14.0,     30,     1.0 },     /* CELT FB 20 ms stereo */
   { 4,     8, 48000, 1, 1,   1, 16.0,     34,     0.8 },     /* hybrid FB 20 ms (contrast: CELT conceals only bands >= 17) */
   { 6,     4, 48000, 1, 1,   2, 12.0,     28,     0.7 },     /* CELT FB 10 ms */
   { 7,     8, 16000, 1, 1,   2, 15.0,     32,     0.9 },     /* CELT WB 20 ms into a 16 kHz decoder */
   { 5,     8, 24000, 2, 2,   1, 15.0,     32,     0.8 },     /* hybrid SWB 20 ms stereo */
};
#define NRB ((int)(sizeof RB / sizeof RB[0]))

static void run_rebound(vrng *r, int idx, const char *seedstr)
{
   rcfg rc = RB[idx % NRB]; lcfg c; int err, D, N, i, ch, nq, nl, nb1, nb2, total, shape, hyb, cc; OpusEncoder *enc; OpusDecoder *A;
   static float in[2 * 1920], o[2 * 1920]; static unsigned char buf[1500]; static unsigned char dummy[1];
   double a_loud, a_quiet, nzs[2] = {0, 0}; vrng nr; double pe[2] = {0, 0}, e1[2] = {0, 0}, e2[2] = {0, 0}; long npe = 0, n1 = 0, n2 = 0;
   char desc[320]; int w1a, w1b, w2a, w2b, b2start;
   if (idx >= NRB) {
      /* random variations: burst 3-20 s, k 1..3, gap 26-38 dB, loud lead-in 0.5-1.2 s */
      rc.k = 1 + (int)vbelow(r, 3); rc.b1 = 3.0 + vbelow(r, 171) / 10.0; rc.gap_db = 26 + vbelow(r, 13); rc.tloud = 0.5 + vbelow(r, 71) / 100.0;
   }
   c = BASE[rc.base]; c.dur = rc.dur; c.Fs = rc.Fs; c.ch = rc.ch; c.ench = rc.ench; c.fec = 0; c.gain = 0; c.sig = 0; c.sw = 0;
   hyb = c.mode == MODE_HYBRID; ch = c.ch; D = c.dur * (c.Fs / 400); N = c.dur * 120;
   a_loud = 0.2 + vbelow(r, 100) / 1000.0; a_quiet = a_loud * pow(10.0, -rc.gap_db / 20.0); nr.s = vnext(r);
   shape = (int)vbelow(r, 2);
   nq = (int)(1.0 * 48000) / N; nl = (int)(rc.tloud * 48000) / N + 1; nb1 = (int)(rc.b1 * 48000) / N; nb2 = (int)(2.12 * 48000) / N + 2;
   total = nq + nl + nb1 + rc.k + nb2; b2start = nq + nl + nb1 + rc.k;
   w1a = b2start + (int)(1.0 * 48000) / N; w1b = b2start + (int)(1.1 * 48000) / N; w2a = b2start + (int)(2.0 * 48000) / N; w2b = b2start + (int)(2.1 * 48000) / N;
   enc = opus_encoder_create(48000, c.ench, c.mode == MODE_CELT_ONLY ? OPUS_APPLICATION_AUDIO : OPUS_APPLICATION_VOIP, &err);
   A = opus_decoder_create(c.Fs, ch, &err);
   if (!enc || !A) return;
   opus_encoder_ctl(enc, OPUS_SET_BITRATE(c.bitrate * (c.ench == 2 && c.mode == MODE_CELT_ONLY ? 1 : 1)));
   opus_encoder_ctl(enc, OPUS_SET_FORCE_MODE(c.mode));
   opus_encoder_ctl(enc, OPUS_SET_BANDWIDTH(c.bw)); opus_encoder_ctl(enc, OPUS_SET_MAX_BANDWIDTH(c.bw));
   opus_encoder_ctl(enc, OPUS_SET_COMPLEXITY(5));
   sprintf(desc, "rebound seed=%s session=%d: %s %d ms, %d-channel stream into a %d Hz %d-channel decoder, %s; noise %.4f for %d packets then %.4f (%.0f dB louder); "
           "packets 0..%d received, %d..%d lost (%.1f s), %d..%d received, %d..%d lost", seedstr, idx, hyb ? "hybrid" : "CELT-only", c.dur * 5 / 2, c.ench, c.Fs, ch,
           shape ? "concealment split into 2.5-20 ms pieces" : "one concealment call per packet", a_quiet, nq, a_loud, rc.gap_db,
           nq + nl - 1, nq + nl, nq + nl + nb1 - 1, rc.b1, nq + nl + nb1, b2start - 1, b2start, total - 1);
   OBS2.sess++; OBS.nsess++;
   for (i = 0; i < total; i++) {
      int lost = (i >= nq + nl && i < nq + nl + nb1) || i >= b2start, j, len; double a = i < nq ? a_quiet : a_loud;
      for (j = 0; j < N; j++) for (cc = 0; cc < c.ench; cc++) {
         nzs[cc] = 0.5 * nzs[cc] + 0.5 * (((int)vbelow(&nr, 2001) - 1000) / 1000.0);
         in[j * c.ench + cc] = (float)(a * nzs[cc]);
      }
      len = opus_encode_float(enc, in, N, buf, sizeof buf);
      if (len <= 0) break;
      if (!lost) {
         callres cr = do_call(A, FMTF, buf, len, 0, len, D, 0, o); opus_uint32 rg = 0, eg = 0;
         if (cr.ret != D) { witness("recv", "received packet %d returned %s", i, ret_str(cr.ret)); break; }
         opus_decoder_ctl(A, OPUS_GET_FINAL_RANGE(&rg)); opus_encoder_ctl(enc, OPUS_GET_FINAL_RANGE(&eg)); OBS.nrange++;
         if (rg != eg) witness("range", "packet %d %s: decoder final range %08x, encoder %08x", i, i >= nq + nl ? "after a loss burst" : "no loss", (unsigned)rg, (unsigned)eg);
         if (i >= nq + nl + nb1) { for (j = 0; j < D; j++) for (cc = 0; cc < ch; cc++) pe[cc] += (double)o[j * ch + cc] * o[j * ch + cc]; npe += D; }
      } else {
         if (!conceal(A, &c, r, D, shape, o, FMTF)) { witness("conceal", "concealment of packet %d did not return the requested duration", i); break; }
         if (i >= w1a && i <= w1b) { for (j = 0; j < D; j++) for (cc = 0; cc < ch; cc++) e1[cc] += (double)o[j * ch + cc] * o[j * ch + cc]; n1 += D; }
         if (i >= w2a && i <= w2b) { for (j = 0; j < D; j++) for (cc = 0; cc < ch; cc++) e2[cc] += (double)o[j * ch + cc] * o[j * ch + cc]; n2 += D; }
      }
   }
   if (i == total && npe > 0 && n1 > 0 && n2 > 0) for (cc = 0; cc < ch; cc++) {
      double pv = sqrt(pe[cc] / npe), l1 = sqrt(e1[cc] / n1), l2 = sqrt(e2[cc] / n2), v[2], th[2], *ob[2]; const char *nm[2]; int q;
      if (pv <= 0.01) continue;
      v[0] = l1 / pv; v[1] = l2 / pv;
      if (hyb) { nm[0] = "rhdecay"; nm[1] = "rhdecay2"; th[0] = TH2.rhdecay; th[1] = TH2.rhdecay2; ob[0] = &OBS2.rhdecay; ob[1] = &OBS2.rhdecay2; OBS2.nh++; }
      else { nm[0] = "rdecay"; nm[1] = "rdecay2"; th[0] = TH2.rdecay; th[1] = TH2.rdecay2; ob[0] = &OBS2.rdecay; ob[1] = &OBS2.rdecay2; OBS2.n++; }
      for (q = 0; q < 2; q++) {
         if (v[q] > *ob[q]) *ob[q] = v[q];
         if (g_calib || !(v[q] > th[q])) continue;
         G.n_w++;
         printf("W %s | channel %d: %d s into the second loss burst the concealed output has rms %.5f, the %d packet(s) received just before it rms %.5f: after a quiet lead-in, "
                "a long burst and %d received packet(s) sustained loss does not fall well below the pre-loss level (observed %.4g > threshold %.4g) | %s\n",
                nm[q], cc, q + 1, q ? l2 : l1, rc.k, pv, rc.k, v[q], th[q], desc);
      }
      if (g_calib) printf("# rebound session %d %s k=%d b1=%.1f gap=%.0f ch%d: %.5f %.5f\n", idx, hyb ? "hybrid" : "celt", rc.k, rc.b1, rc.gap_db, cc, v[0], v[1]);
   }
   opus_encoder_destroy(enc); opus_decoder_destroy(A);
}

int main(int argc, char **argv)
{
   vrng r; int k, bursts, i;
   install();
   if (argc >= 5 && (!strcmp(argv[1], "loss") || !strcmp(argv[1], "calib"))) {
      g_calib = argv[1][0] == 'c';
      r.s = strtoull(argv[2], 0, 10) * 0xD1342543DE82EF95ULL + 0x632BE59BD9B4E019ULL; r.s ^= vnext(&r) >> 7;   /* not a shift of another seed's Weyl sequence */ k = atoi(argv[3]); bursts = atoi(argv[4]);
      if (k < 1) k = 1; if (k > 14) k = 14;
      if (!g_calib) {
         if (argc < 6 || sscanf(argv[5], "%lf,%lf,%lf,%lf,%lf,%lf,%lf", &TH.peak, &TH.decay, &TH.reconv, &TH.fecratio, &TH.decay2, &TH.fecframe, &TH.reconvw) < 6) { fprintf(stderr, "thresholds?\n"); return 64; }
         G.quiet = argc >= 7 && !strcmp(argv[6], "quiet");
      } else G.quiet = 1;
      for (i = 0; i < NBASE; i++) {
         lcfg c = BASE[i];
         /* full enumeration of the 2^k patterns on four anchor configurations, random patterns on the others */
         run_config(&c, &r, k, ANCHOR(i));
      }
      { lcfg c = BASE[12]; run_fecscan(&c, &r); c = BASE[13]; run_fecscan(&c, &r); c = BASE[0]; run_fecscan(&c, &r); c = BASE[11]; c.sig = 1; run_fecscan(&c, &r); }
      for (i = 0; i < bursts; i++) run_burst(&r, i);
      for (i = 0; i < 4 + bursts / 3; i++) run_onset(&r, i);
      if (g_eplc > 0 && OBS.nfec >= 30)
         judge("fecgain", g_efec / g_eplc, &OBS.fecratio, TH.fecratio, "sum err(FEC)^2 = %.3e, sum err(PLC)^2 = %.3e over %ld frames whose successor carries LBRR and on which concealment fails", g_efec, g_eplc, OBS.nfec);
      printf("# loss seed=%s k=%d bursts=%d sessions=%ld calls=%ld witnesses=%ld shapes=%ld/%ld/%ld/%ld range=%ld lbrr=%ld fecframes=%ld/%ld packets(silk/hybrid/celt)=%ld/%ld/%ld modeswitches=%ld mono2stereo_bursts=%ld side_flag_edges=%ld\n", argv[2], k, bursts,
             OBS.nsess, G.n_calls, G.n_w, OBS.nshape[0], OBS.nshape[1], OBS.nshape[2], OBS.nshape[3], OBS.nrange, OBS.nlbrr, OBS.nfec, OBS.nfecframe,
             OBS.nmode[0], OBS.nmode[1], OBS.nmode[2], OBS.nsw, OBS.nm2s, OBS.nedge);
      printf("# stats peak=%.4f(n=%ld) decay=%.5f(n=%ld) decay2=%.5f(n=%ld) reconv=%.4f(n=%ld) fecratio=%.4f fecframe=%.4f(n=%ld) reconvw=%.4f(n=%ld,onset_sessions=%ld)\n", OBS.peak, OBS.npeak, OBS.decay, OBS.ndecay,
             OBS.decay2, OBS.ndecay2, OBS.reconv, OBS.nreconv, OBS.fecratio, OBS.fecframe, OBS.nfecframe, OBS.reconvw, OBS.nreconvw, OBS.nonset);
      return 0;
   }
   if (argc >= 4 && (!strcmp(argv[1], "rebound") || !strcmp(argv[1], "rcalib"))) {
      /* rebound <seed> <n> <rdecay,rdecay2,rhdecay,rhdecay2> [quiet]  |  rcalib <seed> <n> */
      int n;
      g_calib = argv[1][1] == 'c';
      r.s = strtoull(argv[2], 0, 10) * 0xD1342543DE82EF95ULL + 0x9FB21C651E98DF25ULL; r.s ^= vnext(&r) >> 7; n = atoi(argv[3]);
      if (!g_calib) {
         if (argc < 5 || sscanf(argv[4], "%lf,%lf,%lf,%lf", &TH2.rdecay, &TH2.rdecay2, &TH2.rhdecay, &TH2.rhdecay2) != 4) { fprintf(stderr, "thresholds?\n"); return 64; }
         G.quiet = argc >= 6 && !strcmp(argv[5], "quiet");
      } else G.quiet = 1;
      for (i = 0; i < n; i++) run_rebound(&r, i, argv[2]);
      printf("# rebound seed=%s sessions=%ld calls=%ld witnesses=%ld range=%ld celt_channels=%ld hybrid_channels=%ld\n", argv[2], OBS2.sess, G.n_calls, G.n_w, OBS.nrange, OBS2.n, OBS2.nh);
      printf("# stats rdecay=%.5f rdecay2=%.5f(n=%ld) rhdecay=%.5f rhdecay2=%.5f(n=%ld)\n", OBS2.rdecay, OBS2.rdecay2, OBS2.n, OBS2.rhdecay, OBS2.rhdecay2, OBS2.nh);
      return 0;
   }
   fprintf(stderr, "usage: c09_loss loss <seed> <k> <bursts> <peak,decay,reconv,fecratio> [quiet] | calib <seed> <k> <bursts>\n");
   return 64;
}
