/* c13_entry.c — C13 tie of the ENTRY POINT -> CORE interface (encoder side; decoder side in c13_entry_dec.c).
   The TU includes src/opus_encoder.c itself, with every CALL of opus_encode_native(st, ...) redirected to a
   recorder and the DEFINITION (first parameter `OpusEncoder *st`) renamed out of the way, so the real
   opus_encode / opus_encode24 / opus_encode_float run unchanged up to the hand-over.  Printed per call: the
   argument tuple the core would receive (opus_res samples as bit patterns, frame_size, analysis size,
   IMIN(lsb_depth, st->lsb_depth), c1, c2, analysis channels, float_api, the down-mix callback applied sample by
   sample to the analysis buffer) — compared with OpusModel/Pcm.lean `encode16/encode24/encodeFloat`.
   Modes: enc <seed> <n> | dec <seed> <n> */
#include "vcommon.h"
#ifdef HAVE_CONFIG_H
#include "config.h"
#endif
#define C13_CAT_(a, b) a##b
#define C13_CAT(a, b) C13_CAT_(a, b)
/* call sites pass `st`; the definition and the prototype start with `OpusEncoder *st` */
#define opus_encode_native(a, ...) C13_CAT(c13_enc_sel_, a), __VA_ARGS__)
#define c13_enc_sel_st c13_capture_native(st
#define c13_enc_sel_OpusEncoder c13_real_native(OpusEncoder
#include "opus.h"
#include "arch.h"
#include "opus_private.h"
static opus_int32 c13_capture_native(OpusEncoder *st, const opus_res *pcm, int frame_size, unsigned char *data,
      opus_int32 out_data_bytes, int lsb_depth, const void *analysis_pcm, opus_int32 analysis_size, int c1, int c2,
      int analysis_channels, downmix_func downmix, int float_api);
#include "opus_encoder.c"

static struct { int called, frame_size, depth_eff, c1, c2, ach, float_api; opus_int32 analysis_size, out_bytes;
                unsigned char *data; const void *apcm; downmix_func dm; float *res; long nres; } cap;

static opus_int32 c13_capture_native(OpusEncoder *st, const opus_res *pcm, int frame_size, unsigned char *data,
      opus_int32 out_data_bytes, int lsb_depth, const void *analysis_pcm, opus_int32 analysis_size, int c1, int c2,
      int analysis_channels, downmix_func downmix, int float_api)
{
   cap.called = 1; cap.frame_size = frame_size; cap.depth_eff = IMIN(lsb_depth, st->lsb_depth);
   cap.c1 = c1; cap.c2 = c2; cap.ach = analysis_channels; cap.float_api = float_api; cap.analysis_size = analysis_size;
   cap.out_bytes = out_data_bytes; cap.data = data; cap.apcm = analysis_pcm; cap.dm = downmix;
   free(cap.res); cap.res = NULL; cap.nres = 0;
   if (frame_size <= 0) return OPUS_BAD_ARG;          /* what the real core answers first */
   cap.nres = (long)frame_size * st->channels;
   cap.res = (float *)malloc(sizeof(float) * cap.nres);   /* `in` lives on the entry point's stack: copy now */
   memcpy(cap.res, pcm, sizeof(float) * cap.nres);
   return 1;
}

static uint32_t f2u(float f) { uint32_t u; memcpy(&u, &f, 4); return u; }

static void report(int ret, int channels, unsigned char *buf, opus_int32 maxb)
{
   long i; int c;
   if (ret == OPUS_BAD_ARG && (!cap.called || cap.frame_size <= 0)) { printf("O BAD_ARG\n"); return; }
   if (!cap.called || ret != 1) { printf("O unexpected ret=%d called=%d\n", ret, cap.called); return; }
   printf("O ok fs=%d as=%d depth=%d c1=%d c2=%d ach=%d fapi=%d dm=%s%s res=", cap.frame_size, cap.analysis_size, cap.depth_eff,
          cap.c1, cap.c2, cap.ach, cap.float_api,
          cap.dm == downmix_int ? "int" : cap.dm == downmix_int24 ? "int24" : cap.dm == downmix_float ? "float" : "UNKNOWN",
          (cap.data == buf && cap.out_bytes == maxb) ? "" : " io=MISMATCH");
   vhex(stdout, (unsigned char *)cap.res, 4 * cap.nres);
   printf(" sig=x");
   for (i = 0; i < cap.analysis_size; i++) for (c = 0; c < channels; c++) {
      opus_val32 y = 0; uint32_t u; int k;
      cap.dm(cap.apcm, &y, 1, (int)i, c, -1, channels);    /* y = xxxTOSIG(sample (i, c)) */
      u = f2u(y);
      for (k = 0; k < 4; k++) printf("%02x", (u >> (8 * k)) & 255);
   }
   printf("\n");
}

static const int rates[] = {8000, 12000, 16000, 24000, 48000};
static const int fdur[] = {OPUS_FRAMESIZE_ARG, OPUS_FRAMESIZE_2_5_MS, OPUS_FRAMESIZE_5_MS, OPUS_FRAMESIZE_10_MS, OPUS_FRAMESIZE_20_MS, OPUS_FRAMESIZE_40_MS};
static const uint32_t fsp[] = {0, 0x80000000u, 0x3f800000u, 0xbf800000u, 0x3f7fffffu, 0x00000001u, 0x7f800000u, 0xff800000u, 0x7fc00000u, 0x47000000u, 0x37800000u};

static void run_enc(uint64_t seed, long n)
{
   vrng r; long k; r.s = seed ^ 0xE27A;
   for (k = 0; k < n; k++) {
      int Fs = rates[vbelow(&r, 3 + vbelow(&r, 3))], ch = vrange(&r, 1, 2), depth = vrange(&r, 8, 24), err, fmt = vbelow(&r, 3), i, ret;
      int vd = vchance(&r, 45) ? fdur[0] : fdur[vrange(&r, 1, 5)], afs, fss; long ns;
      OpusEncoder *e = opus_encoder_create(Fs, ch, OPUS_APPLICATION_AUDIO, &err);
      unsigned char *buf = (unsigned char *)malloc(1500);
      opus_encoder_ctl(e, OPUS_SET_LSB_DEPTH(depth)); opus_encoder_ctl(e, OPUS_SET_EXPERT_FRAME_DURATION(vd));
      switch (vchance(&r, 55) ? 0 : vrange(&r, 1, 3)) {
      case 0: afs = Fs / 400 * (1 << vbelow(&r, 4)); break;                           /* 2.5 .. 20 ms */
      case 1: afs = Fs / 400 * (1 << vbelow(&r, 3)) + Fs / 400 * (int)vbelow(&r, 3); break;   /* multiples of 2.5 ms, some invalid with ARG */
      case 2: afs = vrange(&r, 1, 400); break;                                         /* arbitrary */
      default: afs = Fs / 100 + (int)vbelow(&r, 60);
      }
      if (afs > 640) afs = 640;
      ns = (long)afs * ch;
      fss = frame_size_select(afs, vd, Fs);
      memset(&cap, 0, sizeof cap);
      if (fmt == 0) {
         opus_int16 *p = (opus_int16 *)malloc(2 * ns);
         for (i = 0; i < ns; i++) p[i] = (opus_int16)(vchance(&r, 10) ? (vchance(&r, 50) ? 32767 : -32768) : vchance(&r, 10) ? vrange(&r, -2, 2) : (int)(vnext(&r) & 0xffff));
         printf("I pcm enc16 %d %d %d ", depth, ch, fss); vhex(stdout, (unsigned char *)p, 2 * ns); printf("\n"); fflush(stdout);
         ret = opus_encode(e, p, afs, buf, 1500); report(ret, ch, buf, 1500); free(p);
      } else if (fmt == 1) {
         opus_int32 *p = (opus_int32 *)malloc(4 * ns);
         for (i = 0; i < ns; i++) { opus_int32 a = (opus_int32)vnext(&r); int b = vrange(&r, 1, 31);
            a = vchance(&r, 60) ? 256 * (opus_int32)(short)(a & 0xffff) : (opus_int32)((uint32_t)a >> (32 - b)) * (vchance(&r, 50) ? 1 : -1);
            if (vchance(&r, 5)) a = vchance(&r, 50) ? 0x7fffffff : (-0x7fffffff - 1);
            p[i] = a; }
         printf("I pcm enc24 %d %d %d ", depth, ch, fss); vhex(stdout, (unsigned char *)p, 4 * ns); printf("\n"); fflush(stdout);
         ret = opus_encode24(e, p, afs, buf, 1500); report(ret, ch, buf, 1500); free(p);
      } else {
         float *p = (float *)malloc(4 * ns);
         for (i = 0; i < ns; i++) { uint32_t u = vchance(&r, 15) ? fsp[vbelow(&r, sizeof fsp / sizeof fsp[0])] : vchance(&r, 50) ? (uint32_t)vnext(&r) : f2u((float)((int)(vnext(&r) & 0xffff) - 32768) / 32768.f);
            memcpy(&p[i], &u, 4); }
         printf("I pcm encf %d %d %d ", depth, ch, fss); vhex(stdout, (unsigned char *)p, 4 * ns); printf("\n"); fflush(stdout);
         ret = opus_encode_float(e, p, afs, buf, 1500); report(ret, ch, buf, 1500); free(p);
      }
      free(buf); opus_encoder_destroy(e);
   }
}

void c13_run_dec(uint64_t seed, long n);
void c13_run_ms(uint64_t seed, long n);

int main(int argc, char **argv)
{
   vinstall_traps();
   if (argc >= 4 && !strcmp(argv[1], "enc")) run_enc(strtoull(argv[2], 0, 10), atol(argv[3]));
   else if (argc >= 4 && !strcmp(argv[1], "dec")) c13_run_dec(strtoull(argv[2], 0, 10), atol(argv[3]));
   else if (argc >= 4 && !strcmp(argv[1], "ms")) c13_run_ms(strtoull(argv[2], 0, 10), atol(argv[3]));
   else { fprintf(stderr, "usage: c13_entry enc|dec|ms <seed> <n>\n"); return 64; }
   return 0;
}
