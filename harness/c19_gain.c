/* c19_gain.c — witness search for the C19 extension slice `gain`: twin REAL decoders, gain g vs gain 0, on the same
   packet HISTORIES (all coding modes, mode transitions with and without redundancy, loss, FEC, resets, gain changes,
   corrupted packets, int16 / int24 / float API).  This TU *is* src/opus_decoder.c (it is #included) so that
   struct OpusDecoder is visible and the complete decoder objects can be compared.

   Modes:  search <seed> <nstreams> [float_tol_ulps]   single-stream decoders (W / STAT lines)
           ms <seed> <nstreams> [float_tol_ulps]       multistream decoders: OPUS_SET_GAIN fan-out + the same relation

   After EVERY decoder call / ctl of a history:
     * return values equal, OPUS_GET_FINAL_RANGE / LAST_PACKET_DURATION / BANDWIDTH / PITCH equal;
     * the COMPLETE decoder objects (opus_decoder_get_size(channels) bytes: OpusDecoder + SILK + CELT state) are
       byte-equal once `decode_gain` is patched (and, for the pair that uses the integer API, `softclip_mem`, which
       legitimately depends on the amplitude);
     * float output with gain g == (float)(gain-0 output * G) per sample, G computed as src/opus_decoder.c:654-668 does
       (float build: MULT16_32_P16 is a plain multiplication, SATURATE is the identity, celt/arch.h:319,358), bit for
       bit (tolerance in ulps from tools/props/C19gain_calib.json, 0), equal bits when g == 0: i.e. the gain is
       applied exactly once per sample, also on transition (cross-fade) frames, PLC and FEC;
     * int16 output == saturate(round(32768 * softclip(scaled float))) on normal calls (own soft-clip memory, cleared
       by float/int24 calls and resets), without the soft clipper on PLC/FEC calls; int24 == round(2^23 * scaled float).
   Two pairs run in lockstep: d0/dg always use the float API (they provide the float signal), e0/eg use the API the
   step chooses.                                                                                                   */
#include "vcommon.h"
#ifdef HAVE_CONFIG_H
#include "config.h"
#endif
#include <math.h>
#include <stddef.h>
#include "opus_decoder.c"
#include "opus_multistream.h"

static uint32_t f2u(float f) { uint32_t u; memcpy(&u, &f, 4); return u; }
static double vunit(vrng *r) { return (double)(vnext(r) >> 11) / 9007199254740992.0; }
static double vsym(vrng *r) { return 2.0 * vunit(r) - 1.0; }

static long ulpdist(float a, float b)
{
   uint32_t ua = f2u(a), ub = f2u(b); int64_t ia, ib, d;
   if (ua == ub) return 0;
   if (a != a || b != b) return 0x7fffffffL;
   ia = (ua & 0x80000000u) ? -(int64_t)(ua & 0x7fffffffu) : (int64_t)ua;
   ib = (ub & 0x80000000u) ? -(int64_t)(ub & 0x7fffffffu) : (int64_t)ub;
   d = ia > ib ? ia - ib : ib - ia;
   if (d == 0) return 1;   /* +0 vs -0 */
   return d > 0x7fffffffL ? 0x7fffffffL : (long)d;
}

static float gain_factor(int g)   /* exactly the expression of src/opus_decoder.c:657 */
{
   opus_val32 gain = celt_exp2(MULT16_16_P15(QCONST16(6.48814081e-4f, 25), g));
   return gain;
}

static opus_int16 my_f2i16(float v)   /* scale, round half even, saturate — written without the library's macros */
{
   double s = (double)v * 32768.0, q;
   if (!(s > -32768.0)) return -32768;
   if (!(s < 32767.0)) return 32767;
   q = nearbyint(s);
   return (opus_int16)q;
}

static void gen_audio(vrng *r, float *pcm, int n, int ch, int kind, double *phase, float amp)
{
   int i, c;
   for (i = 0; i < n; i++) for (c = 0; c < ch; c++) {
      double v;
      if (kind == 0) v = amp * sin(phase[c]);
      else if (kind == 1) v = amp * (0.6 * sin(phase[c]) + 0.4 * vsym(r));
      else if (kind == 2) v = amp * vsym(r);
      else v = amp * 0.7 * (sin(phase[c]) > 0.3 ? sin(7.1 * phase[c]) : 0.02 * vsym(r));   /* bursts and near-silence */
      phase[c] += 0.02 + 0.05 * c + (kind == 1 ? 0.001 * vsym(r) : 0);
      pcm[i * ch + c] = (float)v;
   }
}

static const int rates[] = {8000, 12000, 16000, 24000, 48000};
static const int gains[] = {1, -1, 256, -256, 1536, -1536, 3050, 5120, -5120, 10240, -10240, 20000, 32767, -32768, 0};
#define NGAINS ((int)(sizeof(gains) / sizeof(gains[0])))
#define MAXW 8
static long n_wit, tol_ulps, max_ulp;
static uint64_t g_seed; static const char *g_modename;

/* compare two decoder objects; mask decode_gain always, softclip_mem when asked.  Returns -1 when equal, else the
   first differing byte offset. */
static long state_diff(const OpusDecoder *a, const OpusDecoder *b, int channels, int mask_softclip)
{
   static unsigned char ba[1 << 17], bb[1 << 17];
   long sz = opus_decoder_get_size(channels), i;
   if (sz <= 0 || sz > (long)sizeof ba) return -2;
   memcpy(ba, a, sz); memcpy(bb, b, sz);
   memcpy(bb + offsetof(struct OpusDecoder, decode_gain), ba + offsetof(struct OpusDecoder, decode_gain), sizeof(int));
   if (mask_softclip)
      memcpy(bb + offsetof(struct OpusDecoder, softclip_mem), ba + offsetof(struct OpusDecoder, softclip_mem), sizeof(((struct OpusDecoder *)0)->softclip_mem));
   if (memcmp(ba, bb, sz) == 0) return -1;
   for (i = 0; i < sz; i++) if (ba[i] != bb[i]) return i;
   return -1;
}

static const char *state_where(const OpusDecoder *a, long off, char *buf, size_t n)
{
   if (off >= a->celt_dec_offset) snprintf(buf, n, "byte %ld = CELT decoder state + %ld", off, off - a->celt_dec_offset);
   else if (off >= a->silk_dec_offset) snprintf(buf, n, "byte %ld = SILK decoder state + %ld", off, off - a->silk_dec_offset);
   else snprintf(buf, n, "byte %ld of struct OpusDecoder (stream_channels at %d, bandwidth %d, mode %d, prev_mode %d, frame_size %d, prev_redundancy %d, last_packet_duration %d, softclip_mem %d, rangeFinal %d)", off,
                 (int)offsetof(struct OpusDecoder, stream_channels), (int)offsetof(struct OpusDecoder, bandwidth), (int)offsetof(struct OpusDecoder, mode), (int)offsetof(struct OpusDecoder, prev_mode),
                 (int)offsetof(struct OpusDecoder, frame_size), (int)offsetof(struct OpusDecoder, prev_redundancy), (int)offsetof(struct OpusDecoder, last_packet_duration),
                 (int)offsetof(struct OpusDecoder, softclip_mem), (int)offsetof(struct OpusDecoder, rangeFinal));
   return buf;
}

#define WIT(kind, det, expfmt_obs_why...) do { if (n_wit++ < MAXW) { printf("W %s | %s | ", kind, det); printf(expfmt_obs_why); printf("\n"); } } while (0)

/* ------------------------------------------------------------------ single-stream histories */
typedef struct {
   OpusDecoder *d0, *dg, *e0, *eg;
   int dFs, dch, g; float G;
   float mem0[2], memg[2];       /* mirrors of e0's / eg's softclip_mem */
   char ctx[200];                /* stream description for W lines */
   long stream; int step;
} Twin;

enum { API_FLOAT = 0, API_I16 = 1, API_I24 = 2 };
static const char *apiname[] = {"opus_decode_float", "opus_decode", "opus_decode24"};

static long h_calls, h_samples, h_lost, h_fec, h_reset, h_gainchg, h_i16, h_i24, h_corrupt, h_neg, h_silk, h_hyb, h_celt, h_trans,
            h_sat, h_fecfull, h_oddplc, h_zero_g, h_skip24, h_apimis, h_statecmp, h_dur[9];

static void mkdet(Twin *t, char *det, size_t n, const char *op)
{
   snprintf(det, n, "c19_gain %s %llu: stream %ld step %d %s %s g=%d", g_modename, (unsigned long long)g_seed, t->stream, t->step, op, t->ctx, t->g);
}

static void check_ctls(Twin *t, const char *op)
{
   OpusDecoder *pa[2] = {t->d0, t->e0}, *pb[2] = {t->dg, t->eg}; int k; char det[600], wb[400];
   for (k = 0; k < 2; k++) {
      opus_uint32 ra = 0, rb = 0; opus_int32 la = 0, lb = 0, ba = 0, bb = 0, pa_ = 0, pb_ = 0; long off;
      opus_decoder_ctl(pa[k], OPUS_GET_FINAL_RANGE(&ra)); opus_decoder_ctl(pb[k], OPUS_GET_FINAL_RANGE(&rb));
      opus_decoder_ctl(pa[k], OPUS_GET_LAST_PACKET_DURATION(&la)); opus_decoder_ctl(pb[k], OPUS_GET_LAST_PACKET_DURATION(&lb));
      opus_decoder_ctl(pa[k], OPUS_GET_BANDWIDTH(&ba)); opus_decoder_ctl(pb[k], OPUS_GET_BANDWIDTH(&bb));
      opus_decoder_ctl(pa[k], OPUS_GET_PITCH(&pa_)); opus_decoder_ctl(pb[k], OPUS_GET_PITCH(&pb_));
      if (ra != rb || la != lb || ba != bb || pa_ != pb_) {
         mkdet(t, det, sizeof det, op);
         WIT("gain-ctl-observable", det, "equal final range / last packet duration / bandwidth / pitch on the gain-0 and the gain-g decoder (%s pair) | gain 0: range=%08x dur=%d bw=%d pitch=%d; gain g: range=%08x dur=%d bw=%d pitch=%d | the decoder gain must not change anything but the output amplitude",
             k ? "integer-API" : "float-API", ra, la, ba, pa_, rb, lb, bb, pb_);
      }
      { opus_int32 ga = 12345, gb = 12345; opus_decoder_ctl(pa[k], OPUS_GET_GAIN(&ga)); opus_decoder_ctl(pb[k], OPUS_GET_GAIN(&gb));
        if (ga != 0 || gb != t->g) { mkdet(t, det, sizeof det, op);
           WIT("gain-setting", det, "OPUS_GET_GAIN gives 0 on the gain-0 twin and %d on the gain-g twin | %d and %d (%s pair) | decode_gain is a setting: only OPUS_SET_GAIN changes it (not a decode call, not a reset)", t->g, ga, gb, k ? "integer-API" : "float-API"); } }
      off = state_diff(pa[k], pb[k], t->dch, k == 1); h_statecmp++;
      if (off != -1) {
         mkdet(t, det, sizeof det, op);
         WIT("gain-state", det, "the complete decoder objects (%d bytes) equal except decode_gain%s | first difference at %s (%s pair) | the decoder gain must not influence any decoder state",
             (int)opus_decoder_get_size(t->dch), k ? " and softclip_mem" : "", state_where(pa[k], off, wb, sizeof wb), k ? "integer-API" : "float-API");
      }
   }
}

/* one decoder call on all four decoders + every comparison */
static void do_call(Twin *t, const unsigned char *data, int len, int frame_size, int fec, int api, const char *opname)
{
   static float o0[5760 * 2], og[5760 * 2], f0[5760 * 2], fg[5760 * 2], tmp[5760 * 2];
   static opus_int16 s0[5760 * 2], sg[5760 * 2]; static opus_int32 q0[5760 * 2], qg[5760 * 2];
   unsigned char *pk = data ? vexact(data, len) : NULL;   /* exact-size heap block: ASan sees over-reads */
   int n0, ng, m0, mg, i, plc = (data == NULL || len == 0);
   char op[160], det[600];
   snprintf(op, sizeof op, "%s(%s len=%d frame_size=%d fec=%d)", opname, apiname[api], len, frame_size, fec);
   h_calls++;
   n0 = opus_decode_float(t->d0, pk, len, o0, frame_size, fec);
   ng = opus_decode_float(t->dg, pk, len, og, frame_size, fec);
   if (api == API_I16) { m0 = opus_decode(t->e0, pk, len, s0, frame_size, fec); mg = opus_decode(t->eg, pk, len, sg, frame_size, fec); h_i16++; }
   else if (api == API_I24) { m0 = opus_decode24(t->e0, pk, len, q0, frame_size, fec); mg = opus_decode24(t->eg, pk, len, qg, frame_size, fec); h_i24++; }
   else { m0 = opus_decode_float(t->e0, pk, len, f0, frame_size, fec); mg = opus_decode_float(t->eg, pk, len, fg, frame_size, fec); }
   free(pk);
   if (n0 < 0) h_neg++;
   if (n0 != ng || m0 != mg) {
      mkdet(t, det, sizeof det, op);
      WIT("gain-return", det, "equal return values with gain 0 and gain g | float pair: %d vs %d; %s pair: %d vs %d | the decoder gain must not change the return value / sample count", n0, ng, apiname[api], m0, mg);
   }
   check_ctls(t, op);
   if (g_modename[0] == 's' && t->g == 0) h_zero_g++;
   /* float relation: exactly one binary32 multiplication by G per sample */
   if (n0 > 0 && ng == n0) {
      h_samples += (long)n0 * t->dch;
      for (i = 0; i < n0 * t->dch; i++) {
         float want = t->g ? (float)(o0[i] * t->G) : o0[i]; long d = ulpdist(want, og[i]);
         if (d > max_ulp) max_ulp = d;
         if (d > tol_ulps) {
            float twice = (float)(want * t->G);
            mkdet(t, det, sizeof det, op);
            WIT("gain-scale", det, "sample %d of %d (channel %d, position %d): %.9g = %.9g * %.9g, one binary32 multiplication (bits %08x) | gain 0 gives %.9g, gain g gives %.9g (bits %08x, %ld ulp away)%s | the float output must be the gain-0 output times the gain factor, applied exactly once to every sample of the frame (also on transition, PLC and FEC frames)",
                i, n0 * t->dch, i % t->dch, i / t->dch, want, o0[i], t->G, f2u(want), o0[i], og[i], f2u(og[i]), d,
                f2u(twice) == f2u(og[i]) ? " = the factor applied TWICE" : f2u(o0[i]) == f2u(og[i]) ? " = gain NOT applied" : "");
            break;
         }
      }
   }
   /* second pair: the API under test against the float signal of the first pair */
   if (m0 > 0 && mg == m0) {
      if (m0 != n0) h_apimis++;
      else if (api == API_FLOAT) {
         if (memcmp(f0, o0, 4L * n0 * t->dch) || memcmp(fg, og, 4L * n0 * t->dch)) {
            mkdet(t, det, sizeof det, op);
            WIT("gain-pair", det, "both float-API pairs give identical output | they differ | internal: the two lockstep pairs diverged (same calls, same packets)");
         }
      } else if (api == API_I16) {
         int k;
         for (k = 0; k < 2; k++) {
            const float *src = k ? og : o0; const opus_int16 *got = k ? sg : s0; float *mem = k ? t->memg : t->mem0;
            memcpy(tmp, src, 4L * n0 * t->dch);
            if (!plc && !fec) opus_pcm_soft_clip(tmp, n0, t->dch, mem);   /* src/opus_decoder.c:824-825: only the normal path clips */
            for (i = 0; i < n0 * t->dch; i++) {
               opus_int16 want = my_f2i16(tmp[i]);
               if (k && (want == 32767 || want == -32768 || fabsf(src[i]) > 1.f)) h_sat++;
               if (want != got[i] || (src[i] > 0.01f && got[i] < 0) || (src[i] < -0.01f && got[i] > 0)) {
                  mkdet(t, det, sizeof det, op);
                  WIT("gain-int16", det, "sample %d: %d = saturate(round(32768 * %s)) of the float output %.9g | opus_decode on the gain-%s decoder gives %d | after the gain the 16-bit output must be the (soft-clipped on normal calls) float signal rounded and SATURATED, never wrapped",
                      i, want, (plc || fec) ? "float output" : "soft-clipped float output", src[i], k ? "g" : "0", got[i]);
                  break;
               }
            }
         }
      } else {
         int k;
         for (k = 0; k < 2; k++) {
            const float *src = k ? og : o0; const opus_int32 *got = k ? qg : q0;
            for (i = 0; i < n0 * t->dch; i++) {
               double v = 8388608.0 * (double)src[i]; opus_int32 want;
               if (!(fabs(v) < 2147483000.0)) { h_skip24++; continue; }   /* float2int of an unrepresentable value: not specified */
               want = (opus_int32)nearbyint(v);
               if (want != got[i]) {
                  mkdet(t, det, sizeof det, op);
                  WIT("gain-int24", det, "sample %d: %d = round(2^23 * %.9g) | opus_decode24 on the gain-%s decoder gives %d | the 24-bit output must be the (scaled) float output converted once", i, want, src[i], k ? "g" : "0", got[i]);
                  break;
               }
            }
         }
      }
   }
   /* mirror of softclip_mem: a successful normal call through an API without soft clipping clears it (opus_decoder.c:826-827) */
   if (!plc && !fec && m0 > 0 && api != API_I16) t->mem0[0] = t->mem0[1] = t->memg[0] = t->memg[1] = 0;
}

static int toc_mode(const unsigned char *p) { return (p[0] & 0x80) ? 2 : ((p[0] & 0x60) == 0x60 ? 1 : 0); }

static void set_gain(Twin *t, int g)
{
   char det[600];
   if (opus_decoder_ctl(t->dg, OPUS_SET_GAIN(g)) != OPUS_OK || opus_decoder_ctl(t->eg, OPUS_SET_GAIN(g)) != OPUS_OK) {
      t->g = g; mkdet(t, det, sizeof det, "OPUS_SET_GAIN");
      WIT("gain-ctl", det, "OPUS_OK | error | every gain in [-32768, 32767] must be accepted");
   }
   t->g = g; t->G = g ? gain_factor(g) : 1.f;
}

static int pick_gain(vrng *r) { return vchance(r, 65) ? gains[vbelow(r, NGAINS)] : vrange(r, -32768, 32767); }

static void force_mode(vrng *r, OpusEncoder *enc, int Fs, int mode)
{
   opus_encoder_ctl(enc, OPUS_SET_FORCE_MODE(mode));
   if (mode == MODE_HYBRID) { opus_encoder_ctl(enc, OPUS_SET_BANDWIDTH(vchance(r, 50) ? OPUS_BANDWIDTH_FULLBAND : OPUS_BANDWIDTH_SUPERWIDEBAND)); opus_encoder_ctl(enc, OPUS_SET_BITRATE(20000 + vbelow(r, 60000))); }
   else if (vchance(r, 60)) opus_encoder_ctl(enc, OPUS_SET_BANDWIDTH(OPUS_AUTO));
   (void)Fs;
}

static int pick_mode(vrng *r, int Fs)
{
   int k = vbelow(r, Fs >= 24000 ? 3 : 2);
   return k == 0 ? MODE_SILK_ONLY : k == 1 ? MODE_CELT_ONLY : MODE_HYBRID;
}

static void run_search(uint64_t seed, long streams)
{
   vrng r; long s; r.s = seed ^ 0x6A19C19ULL;
   static float in[5760 * 2]; static unsigned char pkt[2][8000];
   static const int durs48[] = {120, 240, 480, 960, 1920, 2880, 3840, 4800, 5760};
   for (s = 0; s < streams; s++) {
      Twin t; int err, i;
      int Fs = rates[vbelow(&r, 5)], ch = vrange(&r, 1, 2), strat = (int)(s % 4);
      int app = vchance(&r, 50) ? OPUS_APPLICATION_AUDIO : vchance(&r, 80) ? OPUS_APPLICATION_VOIP : OPUS_APPLICATION_RESTRICTED_LOWDELAY;
      int nsteps = 8 + vbelow(&r, 14), kind = vbelow(&r, 4), di = vbelow(&r, 9), prev_mode = -1, lost_prev = 0, last_dur = 0;
      float amp = vchance(&r, 30) ? 1.0f : (float)(0.05 + 0.6 * vunit(&r));
      double phase[2] = {0, 1};
      OpusEncoder *enc[2] = {NULL, NULL}; int cur = 0, hold = 0, maxfs, fecon;
      memset(&t, 0, sizeof t);
      if (strat >= 1 && Fs < 24000 && vchance(&r, 60)) Fs = vchance(&r, 50) ? 48000 : 24000;   /* hybrid needs SWB/FB */
      t.dFs = rates[vbelow(&r, 5)]; t.dch = vrange(&r, 1, 2); t.stream = s;
      if (vchance(&r, 40)) t.dFs = Fs;
      maxfs = t.dFs / 25 * 3;
      enc[0] = opus_encoder_create(Fs, ch, app, &err);
      if (strat >= 2) enc[1] = opus_encoder_create(Fs, ch, app == OPUS_APPLICATION_RESTRICTED_LOWDELAY ? OPUS_APPLICATION_AUDIO : app, &err);
      t.d0 = opus_decoder_create(t.dFs, t.dch, &err); t.dg = opus_decoder_create(t.dFs, t.dch, &err);
      t.e0 = opus_decoder_create(t.dFs, t.dch, &err); t.eg = opus_decoder_create(t.dFs, t.dch, &err);
      /* strategies: 0 automatic mode at varying bitrates; 1 ONE encoder whose forced mode is switched mid-stream (redundancy
         frames, celt_to_silk both ways); 2 packets alternate between two encoders forced to different modes (transitions
         WITHOUT redundancy: recursive opus_decode_frame + cross-fade); 3 both at once */
      for (i = 0; i < 2; i++) if (enc[i]) {
         opus_encoder_ctl(enc[i], OPUS_SET_BITRATE(6000 + vbelow(&r, vchance(&r, 70) ? 60000 : 250000)));
         if (vchance(&r, 25)) opus_encoder_ctl(enc[i], OPUS_SET_FORCE_CHANNELS(1));
         if (vchance(&r, 20)) opus_encoder_ctl(enc[i], OPUS_SET_VBR(0));
         if (vchance(&r, 20)) opus_encoder_ctl(enc[i], OPUS_SET_DTX(1));
         opus_encoder_ctl(enc[i], OPUS_SET_COMPLEXITY(vbelow(&r, 11)));
      }
      fecon = vchance(&r, 60);
      for (i = 0; i < 2; i++) if (enc[i] && fecon) { opus_encoder_ctl(enc[i], OPUS_SET_INBAND_FEC(1 + vbelow(&r, 2))); opus_encoder_ctl(enc[i], OPUS_SET_PACKET_LOSS_PERC(10 + vbelow(&r, 30))); }
      if (strat >= 1 && app != OPUS_APPLICATION_RESTRICTED_LOWDELAY) force_mode(&r, enc[0], Fs, pick_mode(&r, Fs));
      if (strat >= 2) { int m0 = pick_mode(&r, Fs), m1 = pick_mode(&r, Fs); if (m1 == m0) m1 = m0 == MODE_CELT_ONLY ? MODE_SILK_ONLY : MODE_CELT_ONLY;
         if (app != OPUS_APPLICATION_RESTRICTED_LOWDELAY) force_mode(&r, enc[0], Fs, m0); force_mode(&r, enc[1], Fs, m1); }
      snprintf(t.ctx, sizeof t.ctx, "Fs=%d ch=%d dFs=%d dch=%d app=%d strategy=%d fec=%d", Fs, ch, t.dFs, t.dch, app, strat, fecon);
      set_gain(&t, pick_gain(&r));
      for (t.step = 0; t.step < nsteps; t.step++) {
         int fs48, fsz, len, api, u = vbelow(&r, 100), mode;
         /* ---- ctl steps (they do not consume a packet) */
         if (t.step > 1 && u < 5) { opus_decoder_ctl(t.d0, OPUS_RESET_STATE); opus_decoder_ctl(t.dg, OPUS_RESET_STATE); opus_decoder_ctl(t.e0, OPUS_RESET_STATE); opus_decoder_ctl(t.eg, OPUS_RESET_STATE);
            t.mem0[0] = t.mem0[1] = t.memg[0] = t.memg[1] = 0; h_reset++; prev_mode = -1; check_ctls(&t, "OPUS_RESET_STATE"); continue; }
         if (t.step > 0 && u < 12) { set_gain(&t, pick_gain(&r)); h_gainchg++; check_ctls(&t, "OPUS_SET_GAIN"); continue; }
         /* ---- encoder side: next packet */
         if (vchance(&r, 25)) di = vbelow(&r, 9);
         if (vchance(&r, 15)) opus_encoder_ctl(enc[cur], OPUS_SET_BITRATE(6000 + vbelow(&r, 120000)));
         if ((strat == 1 || strat == 3) && vchance(&r, 30) && app != OPUS_APPLICATION_RESTRICTED_LOWDELAY) force_mode(&r, enc[0], Fs, pick_mode(&r, Fs));
         if (strat >= 2 && hold-- <= 0) { cur = !cur; hold = vbelow(&r, 3); }
         fs48 = durs48[di]; fsz = fs48 * (Fs / 1000) / 48; h_dur[di]++;
         gen_audio(&r, in, fsz, ch, kind, phase, amp);
         len = opus_encode_float(enc[cur], in, fsz, pkt[0], vchance(&r, 10) ? 200 + (int)vbelow(&r, 1000) : (int)sizeof pkt[0]);
         if (len <= 0) continue;
         mode = toc_mode(pkt[0]);
         api = vchance(&r, 60) ? API_FLOAT : vchance(&r, 75) ? API_I16 : API_I24;
         last_dur = fs48 * (t.dFs / 1000) / 48;
         /* ---- decoder side */
         u = vbelow(&r, 100);
         if (t.step > 0 && u < 14) {            /* the packet is lost: PLC for 2.5 ms multiples, incl. odd sizes and > 20 ms */
            int k, q = t.dFs / 400, v = vbelow(&r, 10);
            if (v < 5) k = last_dur / q; else if (v < 7) k = (vchance(&r, 50) ? 3 : 5) + 2 * vbelow(&r, 3); else k = 1 + vbelow(&r, 48);
            if (k < 1) k = 1;
            if (k * q != last_dur) h_oddplc++;
            do_call(&t, NULL, 0, k * q, 0, api, "lost-packet"); h_lost++; lost_prev = 1;
            if (vchance(&r, 30)) { do_call(&t, NULL, 0, (1 + vbelow(&r, 8)) * q, 0, vchance(&r, 50) ? API_I16 : API_FLOAT, "lost-packet-again"); h_lost++; }
            continue;
         }
         if (u < 21) {                          /* corrupted / truncated packet, the same bytes to every decoder */
            int v = vbelow(&r, 4), l2 = len, j;
            memcpy(pkt[1], pkt[0], len);
            if (v == 0) l2 = 1 + vbelow(&r, len); else if (v == 1) { for (j = 0; j < 1 + (int)vbelow(&r, 4); j++) pkt[1][vbelow(&r, len)] ^= 1 << vbelow(&r, 8); }
            else if (v == 2) pkt[1][0] = (unsigned char)vbelow(&r, 256); else { for (j = 1; j < len; j++) if (vchance(&r, 10)) pkt[1][j] = (unsigned char)vbelow(&r, 256); }
            h_corrupt++;
            do_call(&t, pkt[1], l2, maxfs, 0, api, "corrupted-packet");
            prev_mode = -1;
            continue;
         }
         if (lost_prev && vchance(&r, 70)) {    /* FEC decode of this packet for the lost one, then the packet itself */
            int q = t.dFs / 400, v = vbelow(&r, 10), fsz_fec = last_dur;
            if (v >= 6 && v < 8) fsz_fec = last_dur + q * (1 + vbelow(&r, 8)); else if (v >= 8) fsz_fec = q * (1 + vbelow(&r, 48));
            if (fsz_fec > maxfs) fsz_fec = maxfs;
            if (fsz_fec == last_dur) h_fecfull++;
            do_call(&t, pkt[0], len, fsz_fec, 1, vchance(&r, 70) ? API_FLOAT : API_I16, "fec-decode"); h_fec++;
         }
         lost_prev = 0;
         if (mode == 0) h_silk++; else if (mode == 1) h_hyb++; else h_celt++;
         if (prev_mode >= 0 && prev_mode != mode) h_trans++;
         prev_mode = mode;
         do_call(&t, pkt[0], len, vchance(&r, 80) ? maxfs : last_dur, 0, api, mode == 0 ? "decode-SILK" : mode == 1 ? "decode-HYBRID" : "decode-CELT");
      }
      for (i = 0; i < 2; i++) if (enc[i]) opus_encoder_destroy(enc[i]);
      opus_decoder_destroy(t.d0); opus_decoder_destroy(t.dg); opus_decoder_destroy(t.e0); opus_decoder_destroy(t.eg);
   }
   printf("STAT cases=%ld streams=%ld samples=%ld state_compares=%ld silk=%ld hybrid=%ld celt=%ld transitions=%ld lost=%ld odd_plc_sizes=%ld fec=%ld fec_exact_size=%ld resets=%ld gain_changes=%ld gain0_calls=%ld int16_calls=%ld int24_calls=%ld corrupted=%ld negative_returns=%ld saturating_samples=%ld int24_unrepresentable=%ld api_count_mismatch=%ld dur_ms=%ld,%ld,%ld,%ld,%ld,%ld,%ld,%ld,%ld max_ulp=%ld tol_ulps=%ld witnesses=%ld\n",
          h_calls, streams, h_samples, h_statecmp, h_silk, h_hyb, h_celt, h_trans, h_lost, h_oddplc, h_fec, h_fecfull, h_reset, h_gainchg, h_zero_g, h_i16, h_i24, h_corrupt, h_neg, h_sat, h_skip24, h_apimis,
          h_dur[0], h_dur[1], h_dur[2], h_dur[3], h_dur[4], h_dur[5], h_dur[6], h_dur[7], h_dur[8], max_ulp, tol_ulps, n_wit);
}

/* ------------------------------------------------------------------ multistream: fan-out of OPUS_SET_GAIN + the same relation */
static void run_ms(uint64_t seed, long streams)
{
   vrng r; long s; r.s = seed ^ 0x3519C19ULL;
   long calls = 0, samples = 0, lost = 0, fec = 0, resets = 0, gchg = 0, fan = 0, muted = 0, statecmp = 0, coupled_tot = 0, mono_tot = 0, neg = 0;
   static float in[2880 * 8], oa[5760 * 8], ob[5760 * 8]; static unsigned char pkt[16000];
   static const int durs48[] = {120, 240, 480, 960, 1920, 2880};
   for (s = 0; s < streams; s++) {
      int S = vrange(&r, 2, 4), C = vbelow(&r, S + 1), nin = S + C, ech = nin, dch, Fs = rates[vbelow(&r, 5)], dFs = vchance(&r, 50) ? Fs : rates[vbelow(&r, 5)];
      unsigned char emap[8], dmap[8]; int i, j, err, g, step, nsteps = 6 + vbelow(&r, 8), kind = vbelow(&r, 4), di = vbelow(&r, 6), lost_prev = 0, last = 0;
      float G, amp = (float)(0.05 + 0.7 * vunit(&r)); double phase[8];
      OpusMSEncoder *enc; OpusMSDecoder *A, *B; char ctx[300], det[700], wb[400];
      for (i = 0; i < 8; i++) phase[i] = i;
      for (i = 0; i < nin; i++) emap[i] = (unsigned char)i;
      for (i = nin - 1; i > 0; i--) { j = vbelow(&r, i + 1); unsigned char x = emap[i]; emap[i] = emap[j]; emap[j] = x; }
      if (ech < 8 && vchance(&r, 30)) emap[ech++] = 255;
      if (vchance(&r, 50)) { dch = ech; memcpy(dmap, emap, ech); }
      else { dch = vrange(&r, 1, 6); for (i = 0; i < dch; i++) dmap[i] = vchance(&r, 15) ? 255 : (unsigned char)vbelow(&r, nin); }
      enc = opus_multistream_encoder_create(Fs, ech, S, C, emap, vchance(&r, 50) ? OPUS_APPLICATION_AUDIO : OPUS_APPLICATION_VOIP, &err);
      if (!enc) { printf("W ms-setup | c19_gain ms %llu: stream %ld S=%d C=%d ech=%d | encoder created | error %d | internal: harness layout rejected\n", (unsigned long long)seed, s, S, C, ech, err); n_wit++; continue; }
      A = opus_multistream_decoder_create(dFs, dch, S, C, dmap, &err); B = opus_multistream_decoder_create(dFs, dch, S, C, dmap, &err);
      opus_multistream_encoder_ctl(enc, OPUS_SET_BITRATE(S * (8000 + (int)vbelow(&r, 60000))));
      if (vchance(&r, 50)) { opus_multistream_encoder_ctl(enc, OPUS_SET_INBAND_FEC(1)); opus_multistream_encoder_ctl(enc, OPUS_SET_PACKET_LOSS_PERC(20)); }
      coupled_tot += C; mono_tot += S - C;
      { char m[64] = ""; for (i = 0; i < dch; i++) snprintf(m + strlen(m), sizeof m - strlen(m), "%s%d", i ? "," : "", dmap[i]);
        snprintf(ctx, sizeof ctx, "Fs=%d dFs=%d streams=%d coupled=%d enc_channels=%d dec_channels=%d dec_mapping=%s", Fs, dFs, S, C, ech, dch, m); }
      g = pick_gain(&r); G = 1.f;
      for (step = -1; step < nsteps; step++) {
         int u = vbelow(&r, 100), ra, rb, len = 0, fsz, frame_size, dofec = 0, k; opus_uint32 fa = 0, fb = 0; const char *op;
         if (step == -1 || (step > 0 && u < 10)) {   /* set / change the gain on B: must reach EVERY stream decoder */
            if (step >= 0) { g = pick_gain(&r); gchg++; }
            err = opus_multistream_decoder_ctl(B, OPUS_SET_GAIN(g)); G = g ? gain_factor(g) : 1.f; op = "OPUS_SET_GAIN";
            snprintf(det, sizeof det, "c19_gain ms %llu: stream %ld step %d OPUS_SET_GAIN(%d) via opus_multistream_decoder_ctl %s", (unsigned long long)seed, s, step, g, ctx);
            if (err != OPUS_OK) WIT("ms-gain-ctl", det, "OPUS_OK | %d | every gain in [-32768, 32767] must be accepted", err);
            for (k = 0; k < S; k++) { OpusDecoder *sd = NULL; opus_int32 gg = 12345; fan++;
               opus_multistream_decoder_ctl(B, OPUS_MULTISTREAM_GET_DECODER_STATE(k, &sd)); if (sd) opus_decoder_ctl(sd, OPUS_GET_GAIN(&gg));
               if (!sd || gg != g) WIT("ms-gain-fanout", det, "OPUS_GET_GAIN on stream decoder %d of %d gives %d | %d | OPUS_SET_GAIN on a multistream decoder must reach every stream decoder", k, S, g, sd ? gg : -1);
               sd = NULL; gg = 12345; opus_multistream_decoder_ctl(A, OPUS_MULTISTREAM_GET_DECODER_STATE(k, &sd)); if (sd) opus_decoder_ctl(sd, OPUS_GET_GAIN(&gg));
               if (!sd || gg != 0) WIT("ms-gain-fanout", det, "the untouched twin keeps gain 0 on stream decoder %d | %d | a gain set on one decoder object must not leak", k, sd ? gg : -1); }
            if (step == -1) continue;
         } else if (step > 1 && u < 14) {
            opus_multistream_decoder_ctl(A, OPUS_RESET_STATE); opus_multistream_decoder_ctl(B, OPUS_RESET_STATE); resets++; op = "OPUS_RESET_STATE";
            snprintf(det, sizeof det, "c19_gain ms %llu: stream %ld step %d OPUS_RESET_STATE %s g=%d", (unsigned long long)seed, s, step, ctx, g);
            for (k = 0; k < S; k++) { OpusDecoder *sd = NULL; opus_int32 gg = 12345; opus_multistream_decoder_ctl(B, OPUS_MULTISTREAM_GET_DECODER_STATE(k, &sd)); if (sd) opus_decoder_ctl(sd, OPUS_GET_GAIN(&gg));
               if (gg != g) WIT("ms-gain-reset", det, "the gain %d survives OPUS_RESET_STATE on stream decoder %d | %d | decode_gain is a setting, not state", g, k, gg); }
         } else {
            if (vchance(&r, 25)) di = vbelow(&r, 6);
            fsz = durs48[di] * (Fs / 1000) / 48;
            gen_audio(&r, in, fsz, ech, kind, phase, amp);
            len = opus_multistream_encode_float(enc, in, fsz, pkt, sizeof pkt);
            if (len <= 0) continue;
            frame_size = dFs / 25 * 3; last = durs48[di] * (dFs / 1000) / 48;
            u = vbelow(&r, 100);
            if (step > 0 && u < 15) { int q = dFs / 400; len = 0; frame_size = vchance(&r, 60) ? last : q * (1 + vbelow(&r, 48)); lost++; lost_prev = 1; op = "lost-packet"; }
            else if (lost_prev && vchance(&r, 60)) { dofec = 1; frame_size = last; fec++; op = "fec-decode"; lost_prev = 0; }
            else { lost_prev = 0; op = "decode"; }
            {
               unsigned char *pk = len ? vexact(pkt, len) : NULL;
               for (k = 0; k < 1 + dofec; k++) {   /* after a FEC decode the packet itself is decoded too */
                  int fecflag = dofec && k == 0, fs2 = (dofec && k == 1) ? dFs / 25 * 3 : frame_size;
                  ra = opus_multistream_decode_float(A, pk, len, oa, fs2, fecflag); rb = opus_multistream_decode_float(B, pk, len, ob, fs2, fecflag);
                  calls++; if (ra < 0) neg++;
                  snprintf(det, sizeof det, "c19_gain ms %llu: stream %ld step %d %s(len=%d frame_size=%d fec=%d) %s g=%d", (unsigned long long)seed, s, step, op, len, fs2, fecflag, ctx, g);
                  opus_multistream_decoder_ctl(A, OPUS_GET_FINAL_RANGE(&fa)); opus_multistream_decoder_ctl(B, OPUS_GET_FINAL_RANGE(&fb));
                  if (ra != rb) WIT("ms-gain-return", det, "equal return values | %d vs %d | the decoder gain must not change the return value", ra, rb);
                  if (fa != fb) WIT("ms-gain-range", det, "equal final ranges | %08x vs %08x | the decoder gain must not change the final range", fa, fb);
                  if (ra > 0 && ra == rb) {
                     samples += (long)ra * dch;
                     for (i = 0; i < ra * dch; i++) {
                        float want = g ? (float)(oa[i] * G) : oa[i]; long d = ulpdist(want, ob[i]);
                        if (dmap[i % dch] == 255) { muted++; if (f2u(oa[i]) != 0 || f2u(ob[i]) != 0) { WIT("ms-gain-muted", det, "muted channel %d (mapping 255) is +0 on both | %.9g / %.9g | a muted channel is silent whatever the gain", i % dch, oa[i], ob[i]); break; } continue; }
                        if (d > max_ulp) max_ulp = d;
                        if (d > tol_ulps) { WIT("ms-gain-scale", det, "sample %d (channel %d <- internal channel %d, position %d): %.9g = %.9g * %.9g (bits %08x) | gain 0 gives %.9g, gain g gives %.9g (bits %08x, %ld ulp)%s | every output channel comes from exactly one stream decoder, each applies the gain exactly once",
                                                i, i % dch, dmap[i % dch], i / dch, want, oa[i], G, f2u(want), oa[i], ob[i], f2u(ob[i]), d, f2u(oa[i]) == f2u(ob[i]) ? " = gain NOT applied" : ""); break; }
                     }
                  }
                  {
                     int k2; for (k2 = 0; k2 < S; k2++) { OpusDecoder *sa = NULL, *sb = NULL; long off;
                        opus_multistream_decoder_ctl(A, OPUS_MULTISTREAM_GET_DECODER_STATE(k2, &sa)); opus_multistream_decoder_ctl(B, OPUS_MULTISTREAM_GET_DECODER_STATE(k2, &sb));
                        if (!sa || !sb) continue;
                        off = state_diff(sa, sb, k2 < C ? 2 : 1, 0); statecmp++;
                        if (off != -1) WIT("ms-gain-state", det, "stream decoder %d: complete objects equal except decode_gain | first difference at %s | the decoder gain must not influence any decoder state", k2, state_where(sa, off, wb, sizeof wb)); }
                  }
               }
               free(pk);
            }
            continue;
         }
         /* after a ctl: states still equal */
         for (k = 0; k < S; k++) { OpusDecoder *sa = NULL, *sb = NULL; long off;
            opus_multistream_decoder_ctl(A, OPUS_MULTISTREAM_GET_DECODER_STATE(k, &sa)); opus_multistream_decoder_ctl(B, OPUS_MULTISTREAM_GET_DECODER_STATE(k, &sb));
            if (!sa || !sb) continue;
            off = state_diff(sa, sb, k < C ? 2 : 1, 0); statecmp++;
            if (off != -1) WIT("ms-gain-state", det, "stream decoder %d after %s: complete objects equal except decode_gain | first difference at %s | a ctl must treat both twins alike", k, op, state_where(sa, off, wb, sizeof wb)); }
      }
      opus_multistream_encoder_destroy(enc); opus_multistream_decoder_destroy(A); opus_multistream_decoder_destroy(B);
   }
   printf("STAT cases=%ld streams=%ld samples=%ld muted_samples=%ld state_compares=%ld fanout_checks=%ld coupled_streams=%ld mono_streams=%ld lost=%ld fec=%ld resets=%ld gain_changes=%ld negative_returns=%ld max_ulp=%ld tol_ulps=%ld witnesses=%ld\n",
          calls, streams, samples, muted, statecmp, fan, coupled_tot, mono_tot, lost, fec, resets, gchg, neg, max_ulp, tol_ulps, n_wit);
}

int main(int argc, char **argv)
{
   vinstall_traps();
   if (argc >= 4 && (!strcmp(argv[1], "search") || !strcmp(argv[1], "ms"))) {
      g_seed = strtoull(argv[2], 0, 10); g_modename = argv[1];
      if (argc >= 5) tol_ulps = atol(argv[4]);
      if (argv[1][0] == 's') run_search(g_seed, atol(argv[3])); else run_ms(g_seed, atol(argv[3]));
      return 0;
   }
   fprintf(stderr, "usage: c19_gain search <seed> <nstreams> [float_tol_ulps] | ms <seed> <nstreams> [float_tol_ulps]\n");
   return 64;
}
