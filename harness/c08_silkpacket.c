/* c08_silkpacket.c — correspondence harness for the payload level of the composition C08 ∘ C03.
   The REAL silk_Encode runs on synthetic audio (mono / stereo, NB/MB/WB, 10/20/40/60 ms payloads, LBRR on).
   Link-time wrappers (-Wl,--wrap=…) around silk_encode_indices, silk_encode_pulses, silk_stereo_encode_pred,
   silk_stereo_encode_mid_only and ec_enc_patch_initial_bits record what the signal-processing part decided to
   write: every frame's indices and pulses (LBRR and regular), predictor indices, mid-only flags and the patched
   flag word.  The record is printed in SEMANTIC form (by channel / frame, not in call order); the Lean model
   (OpusModel.SilkSymsEnc.packetOps, which transcribes the order of enc_API.c) must reproduce from it the exact
   bytes and final coder state the real encoder produced.
   Line protocol (lean/Driver/SuiteRangeCoder.lean, op `spacket`):
     rangecoder spacket <size> <fs_kHz> <nCh> <nfpp> <nb_subfr> <flags> <records>
        records  `;`-separated:  L<n>.<i>=<ix>:<pulses>  LBRR frame i of channel n     F<n>.<i>=<ix>:<pulses>  regular frame
                                 Q<i>=<a/b/c/d/e/f>      predictor with LBRR frame i   P<i>=…                  predictor of frame i
                                 N<i>=<v>                mid-only flag with LBRR frame i   M<i>=<v>            mid-only flag of frame i
        (<ix>, <pulses> as in `sframe`)
     answer: <ok|err> D <st after ec_enc_done> B <hex: size bytes> R <ok|diff…>
        R  model-free round trip: the real silk_Decode (normal decoding) runs on the finished bytes; wrappers around
           silk_decode_indices / silk_decode_pulses record every frame it reads; `ok` iff that sequence (channel, frame,
           LBRR flag, every index, every pulse) is the sequence the encoder-side wrappers recorded
   Second op (mode `oframe`): the REAL opus_encode, forced to SILK-only mode (VBR),
   with the same recording wrappers; the Lean model OpusModel.OpusFrameEnc.silkOnlyFrame — SILK payload, ret = (ec_tell+7)>>3,
   ec_enc_done, trailing-zero strip — must reproduce the packet's payload bytes and OPUS_GET_FINAL_RANGE:
     rangecoder oframe <max_data_bytes> <fill> <bandwidth> <nCh> <ms10> <flags> <records>
        the caller's output buffer is pre-filled: byte j behind the TOC byte = (fill + 37*j) % 256
     answer: P <hex payload (packet without TOC)> F <final range> R <ok|diff:…>
        R  model-free: the real opus_decode runs on the packet; `ok` iff it succeeds and its OPUS_GET_FINAL_RANGE is the encoder's
   When the encoder appended a 5 ms CELT redundancy frame (SILK bandwidth switch: silk_bw_switch, celt_to_silk = 1) — seen by a
   wrapper around celt_encode_with_ec, which records where the frame was written and the CELT encoder's final range —
   the line is `oframer` with three more fields <celt_to_silk> <hex R> <redundant_rng>; the model is silkRedFrame (main part
   cut at (ec_tell+7)>>3 and not stripped, R behind it, rangeFinal = enc.rng ^ redundant_rng).
   Modes: rand <seed> <n streams> | oframe <seed> <n streams> */
#ifdef HAVE_CONFIG_H
#include "config.h"
#endif
#include "vcommon.h"
#include <math.h>
#include <stdarg.h>
#include "opus.h"
#include "opus_private.h"
#include "silk/main.h"
#include "silk/API.h"
#include "silk/control.h"
#ifdef FIXED_POINT
#include "silk/fixed/main_FIX.h"
#else
#include "silk/float/main_FLP.h"
#endif
#include "celt/entenc.h"
#include "celt/celt.h"

#define MAXREC (1 << 18)
static char rec[MAXREC]; static size_t recn; static int rec_on, rec_overflow;
static int pend_pred[6], have_pred, pend_mid, have_mid;
static int last_n, last_i, last_lbrr, last_valid; static SideInfoIndices last_ix; static int last_nb, last_order;
static unsigned flags_word; static int flags_bits, n_patch;
static long n_rt_diff, n_packets, n_mismatch_cfg, n_lbrr_frames, n_midonly, n_stereo, n_frames, n_multi_iter, n_err;
static int calls_this_frame[2][3];
/* model-free round trip: canonical per-frame strings in call order, encoder side and decoder side */
#define MAXFR 24
static char efr[MAXFR][4096], dfr[MAXFR][4096]; static int nefr, ndfr, dec_on; static void *dec_state;
static int d_n, d_i, d_lbrr, d_valid;

static void frame_str(char *dst, size_t cap, int n, int i, int lbrr, const SideInfoIndices *x, int nb, int order, const opus_int8 *p8, const opus_int16 *p16, int len)
{
   size_t k = 0; int j, voiced = x->signalType == 2;
   k += (size_t)snprintf(dst + k, cap - k, "%d.%d.%d=%d,%d,", n, i, lbrr, x->signalType, x->quantOffsetType);
   for (j = 0; j < nb; j++) k += (size_t)snprintf(dst + k, cap - k, "%s%d", j ? "/" : "", x->GainsIndices[j]);
   k += (size_t)snprintf(dst + k, cap - k, ",%d,", x->NLSFIndices[0]);
   for (j = 0; j < order; j++) k += (size_t)snprintf(dst + k, cap - k, "%s%d", j ? "/" : "", x->NLSFIndices[j + 1]);
   k += (size_t)snprintf(dst + k, cap - k, ",%d,%d,%d,%d,", x->NLSFInterpCoef_Q2, voiced ? x->lagIndex : 0, voiced ? x->contourIndex : 0, voiced ? x->PERIndex : 0);
   for (j = 0; j < (voiced ? nb : 0); j++) k += (size_t)snprintf(dst + k, cap - k, "%s%d", j ? "/" : "", x->LTPIndex[j]);
   k += (size_t)snprintf(dst + k, cap - k, ",%d,%d:", voiced ? x->LTP_scaleIndex : 0, x->Seed);
   for (j = 0; j < len && k + 8 < cap; j++) k += (size_t)snprintf(dst + k, cap - k, "%s%d", j ? "," : "", p8 ? (int)p8[j] : (int)p16[j]);
}

void __real_silk_decode_indices(silk_decoder_state *, ec_dec *, opus_int, opus_int, opus_int);
void __wrap_silk_decode_indices(silk_decoder_state *ps, ec_dec *dec, opus_int FrameIndex, opus_int decode_LBRR, opus_int condCoding)
{
   __real_silk_decode_indices(ps, dec, FrameIndex, decode_LBRR, condCoding);
   if (dec_on) { d_n = (int)(ps - (silk_decoder_state *)dec_state); d_i = FrameIndex; d_lbrr = decode_LBRR != 0; d_valid = 1; }
}
void __real_silk_decode_pulses(ec_dec *, opus_int16 *, const opus_int, const opus_int, const opus_int);
void __wrap_silk_decode_pulses(ec_dec *dec, opus_int16 pulses[], const opus_int signalType, const opus_int quantOffsetType, const opus_int frame_length)
{
   __real_silk_decode_pulses(dec, pulses, signalType, quantOffsetType, frame_length);
   if (dec_on && d_valid && ndfr < MAXFR) {
      silk_decoder_state *ps = (silk_decoder_state *)dec_state + d_n;
      frame_str(dfr[ndfr++], sizeof dfr[0], d_n, d_i, d_lbrr, &ps->indices, ps->nb_subfr, ps->LPC_order, NULL, pulses, frame_length);
      d_valid = 0;
   }
}

static void radd(const char *fmt, ...)
{
   va_list ap; int k;
   if (!rec_on) return;
   va_start(ap, fmt); k = vsnprintf(rec + recn, MAXREC - recn, fmt, ap); va_end(ap);
   if (k < 0 || (size_t)k >= MAXREC - recn) { rec_overflow = 1; return; }
   recn += (size_t)k;
}
static void rlist8(const opus_int8 *p, int n) { int i; if (!n) radd("-"); for (i = 0; i < n; i++) radd("%s%d", i ? "/" : "", (int)p[i]); }

void __real_silk_encode_indices(silk_encoder_state *, ec_enc *, opus_int, opus_int, opus_int);
void __wrap_silk_encode_indices(silk_encoder_state *ps, ec_enc *enc, opus_int FrameIndex, opus_int encode_LBRR, opus_int condCoding)
{
   if (rec_on) {
      const SideInfoIndices *x = encode_LBRR ? &ps->indices_LBRR[FrameIndex] : &ps->indices;
      last_n = ps->channelNb; last_i = encode_LBRR ? FrameIndex : ps->nFramesEncoded; last_lbrr = encode_LBRR; last_valid = 1;
      last_ix = *x; last_nb = ps->nb_subfr; last_order = ps->predictLPCOrder;
      if (!encode_LBRR && last_n < 2 && last_i < 3) calls_this_frame[last_n][last_i]++;
      if (last_n == 0) {   /* a pending predictor / mid-only flag belongs to this (mid) frame */
         if (have_pred) { radd("%c%d=%d/%d/%d/%d/%d/%d;", encode_LBRR ? 'Q' : 'P', last_i, pend_pred[0], pend_pred[1], pend_pred[2], pend_pred[3], pend_pred[4], pend_pred[5]); have_pred = 0; }
         if (have_mid) { radd("%c%d=%d;", encode_LBRR ? 'N' : 'M', last_i, pend_mid); have_mid = 0; }
      }
   }
   __real_silk_encode_indices(ps, enc, FrameIndex, encode_LBRR, condCoding);
}

void __real_silk_encode_pulses(ec_enc *, const opus_int, const opus_int, opus_int8 *, const opus_int);
void __wrap_silk_encode_pulses(ec_enc *enc, const opus_int signalType, const opus_int quantOffsetType, opus_int8 pulses[], const opus_int frame_length)
{
   if (rec_on && last_valid) {
      const SideInfoIndices *x = &last_ix; int voiced = x->signalType == 2, i;
      radd("%c%d.%d=%d,%d,", last_lbrr ? 'L' : 'F', last_n, last_i, x->signalType, x->quantOffsetType);
      rlist8(x->GainsIndices, last_nb); radd(",%d,", x->NLSFIndices[0]); rlist8(x->NLSFIndices + 1, last_order);
      radd(",%d,%d,%d,%d,", x->NLSFInterpCoef_Q2, voiced ? x->lagIndex : 0, voiced ? x->contourIndex : 0, voiced ? x->PERIndex : 0);
      rlist8(x->LTPIndex, voiced ? last_nb : 0);
      radd(",%d,%d:", voiced ? x->LTP_scaleIndex : 0, x->Seed);
      for (i = 0; i < frame_length; i++) radd("%s%d", i ? "," : "", (int)pulses[i]);
      radd(";");
      if (nefr < MAXFR) frame_str(efr[nefr++], sizeof efr[0], last_n, last_i, last_lbrr != 0, x, last_nb, last_order, pulses, NULL, frame_length);
      last_valid = 0;
      if (last_lbrr) n_lbrr_frames++; else n_frames++;
   }
   __real_silk_encode_pulses(enc, signalType, quantOffsetType, pulses, frame_length);
}

void __real_silk_stereo_encode_pred(ec_enc *, opus_int8 ix[2][3]);
void __wrap_silk_stereo_encode_pred(ec_enc *enc, opus_int8 ix[2][3])
{
   if (rec_on) { int n, k; for (n = 0; n < 2; n++) for (k = 0; k < 3; k++) pend_pred[3 * n + k] = ix[n][k]; have_pred = 1; }
   __real_silk_stereo_encode_pred(enc, ix);
}
void __real_silk_stereo_encode_mid_only(ec_enc *, opus_int8);
void __wrap_silk_stereo_encode_mid_only(ec_enc *enc, opus_int8 flag)
{
   if (rec_on) { pend_mid = flag; have_mid = 1; if (flag) n_midonly++; }
   __real_silk_stereo_encode_mid_only(enc, flag);
}
void __real_ec_enc_patch_initial_bits(ec_enc *, unsigned, unsigned);
void __wrap_ec_enc_patch_initial_bits(ec_enc *enc, unsigned val, unsigned nbits)
{
   if (rec_on) { flags_word = val; flags_bits = (int)nbits; n_patch++; }
   __real_ec_enc_patch_initial_bits(enc, val, nbits);
}

/* redundancy frames: calls of celt_encode_with_ec from a SILK-only opus_encode */
static int n_celt, n_celt_red; static unsigned char *red_ptr, *out_lo, *out_hi; static int red_len; static opus_uint32 red_rng;
int __real_celt_encode_with_ec(CELTEncoder *, const opus_res *, int, unsigned char *, int, ec_enc *);
int __wrap_celt_encode_with_ec(CELTEncoder *st, const opus_res *pcm, int frame_size, unsigned char *compressed, int nbCompressedBytes, ec_enc *enc)
{
   int r = __real_celt_encode_with_ec(st, pcm, frame_size, compressed, nbCompressedBytes, enc);
   if (rec_on) {
      n_celt++;
      if (enc != NULL) n_celt_red = 99;                     /* a CELT part on the main coder: not a SILK-only frame */
      else if (compressed >= out_lo && compressed < out_hi) {   /* not the 2.5 ms prefill into a local dummy buffer */
         n_celt_red++; red_ptr = compressed; red_len = nbCompressedBytes; red_rng = 0;
         opus_custom_encoder_ctl(st, OPUS_GET_FINAL_RANGE(&red_rng));
      }
   }
   return r;
}

static void st_print(ec_ctx *c)
{
   printf("%u,%u,%u,%u,%u,%d,%d,%d,%u,%d,%d,%u", c->rng, c->val, c->offs, c->end_offs, (unsigned)c->end_window,
      c->nend_bits, c->nbits_total, c->rem, c->ext, c->error, ec_tell(c), ec_tell_frac(c));
}

/* synthetic audio: segments of silence, noise, harmonic ("voiced") and chirp material; stereo: identical, scaled, or independent channels */
typedef struct { int kind, stereo_kind; double f0, amp, ph, ph2; } seg_t;
static void fill_audio(vrng *r, seg_t *sg, int *left, float *out, int n, int nch, int fs)
{
   int i;
   for (i = 0; i < n; i++) {
      double l, rr;
      if (*left <= 0) {
         sg->kind = (int)vbelow(r, 100); sg->stereo_kind = (int)vbelow(r, 100); sg->f0 = 80 + vbelow(r, 300); sg->amp = 0.02 + 0.3 * vbelow(r, 100) / 100.0;
         *left = fs / 50 * vrange(r, 1, 40);
      }
      (*left)--;
      sg->ph += 2 * M_PI * sg->f0 / fs; sg->ph2 += 2 * M_PI * (sg->f0 * 2.7 + 35) / fs;
      if (sg->kind < 15) l = 0;
      else if (sg->kind < 35) l = sg->amp * ((double)vbelow(r, 2001) / 1000.0 - 1.0);
      else if (sg->kind < 80) l = sg->amp * (0.6 * sin(sg->ph) + 0.3 * sin(2 * sg->ph) + 0.2 * sin(3 * sg->ph) + 0.1 * sin(5 * sg->ph)) + 0.003 * ((double)vbelow(r, 2001) / 1000.0 - 1.0);
      else l = sg->amp * sin(sg->ph2 + 3 * sin(sg->ph * 0.01));
      if (sg->stereo_kind < 40) rr = l;
      else if (sg->stereo_kind < 60) rr = 0.3 * l + 0.001 * ((double)vbelow(r, 2001) / 1000.0 - 1.0);
      else if (sg->stereo_kind < 80) rr = sg->amp * sin(sg->ph2);
      else rr = -l;
      if (nch == 1) out[i] = (float)l; else { out[2 * i] = (float)l; out[2 * i + 1] = (float)rr; }
   }
}

static void run_stream(vrng *r)
{
   static const int FS[] = {8, 12, 16}, MS[] = {10, 20, 20, 20, 40, 40, 60};
   int fs = FS[vbelow(r, 3)], nch = vchance(r, 55) ? 2 : 1, ms = MS[vbelow(r, 7)], npk = vrange(r, 3, 14), p, i;
   int api = 16000, nsamp = api / 1000 * ms, left = 0; seg_t sg; long size = 1275;
   silk_encoder *psEnc; silk_EncControlStruct ctl; opus_int encSize = 0; static float pcmf[2 * 960]; static opus_res pcm[2 * 960];
   unsigned char *buf = (unsigned char *)malloc((size_t)size);
   void *decSt; silk_DecControlStruct dctl; opus_int decSize = 0; static opus_res outpcm[2 * 960];
   memset(&sg, 0, sizeof sg);
   silk_Get_Decoder_Size(&decSize); decSt = calloc(1, (size_t)decSize); silk_InitDecoder(decSt);
   memset(&dctl, 0, sizeof dctl); dctl.nChannelsAPI = nch; dctl.nChannelsInternal = nch; dctl.API_sampleRate = api;
   dctl.internalSampleRate = fs * 1000; dctl.payloadSize_ms = ms;
   silk_Get_Encoder_Size(&encSize);
   psEnc = (silk_encoder *)calloc(1, (size_t)encSize);
   memset(&ctl, 0, sizeof ctl);
   if (silk_InitEncoder(psEnc, 0, &ctl)) { printf("# init failed\n"); free(psEnc); free(buf); return; }
   ctl.nChannelsAPI = nch; ctl.nChannelsInternal = nch; ctl.API_sampleRate = api;
   ctl.maxInternalSampleRate = fs * 1000; ctl.minInternalSampleRate = fs * 1000; ctl.desiredInternalSampleRate = fs * 1000;
   ctl.payloadSize_ms = ms; ctl.bitRate = (nch == 2 ? 2 : 1) * vrange(r, 6, 40) * 1000; ctl.complexity = vrange(r, 0, 10);
   ctl.packetLossPercentage = vchance(r, 70) ? vrange(r, 5, 30) : 0; ctl.useInBandFEC = ctl.packetLossPercentage > 0; ctl.LBRR_coded = ctl.useInBandFEC;
   ctl.useDTX = 0; ctl.useCBR = 0; ctl.maxBits = (int)size * 8; ctl.toMono = 0; ctl.opusCanSwitch = 0; ctl.reducedDependency = 0;
   for (p = 0; p < npk; p++) {
      ec_enc enc; opus_int32 nBytes = (opus_int32)size; int ret, nfpp, nb, k, bad = 0;
      fill_audio(r, &sg, &left, pcmf, nsamp, nch, api);
      for (i = 0; i < nsamp * nch; i++) {
#ifdef FIXED_POINT
         pcm[i] = (opus_res)INT16TORES((opus_int16)(pcmf[i] * 32767.0f));
#else
         pcm[i] = pcmf[i];
#endif
      }
      if (vchance(r, 10)) ctl.bitRate = (nch == 2 ? 2 : 1) * vrange(r, 6, 40) * 1000;
      memset(buf, 0, (size_t)size); memset(&enc, 0, sizeof enc);
      ec_enc_init(&enc, buf, (opus_uint32)size);
      recn = 0; rec[0] = 0; rec_on = 1; rec_overflow = 0; have_pred = have_mid = 0; last_valid = 0; n_patch = 0; flags_word = 0; flags_bits = 0;
      memset(calls_this_frame, 0, sizeof calls_this_frame); nefr = 0;
      ret = silk_Encode(psEnc, &ctl, pcm, nsamp, &enc, &nBytes, 0, 1);
      rec_on = 0;
      if (ret != 0) { printf("# silk_Encode returned %d\n", ret); break; }
      nfpp = ms <= 20 ? 1 : ms / 20; nb = ms == 10 ? 2 : 4; k = (nfpp + 1) * nch;
      for (i = 0; i < 3; i++) if (calls_this_frame[0][i] > 1 || calls_this_frame[1][i] > 1) bad = 1;
      if (bad) { n_multi_iter++; continue; }     /* the rate-control loop re-coded a frame: the record is not the stream */
      if (n_patch != 1 || flags_bits != k || rec_overflow || psEnc->state_Fxx[0].sCmn.fs_kHz != fs || psEnc->state_Fxx[0].sCmn.nb_subfr != nb
          || psEnc->state_Fxx[0].sCmn.nFramesPerPacket != nfpp) { n_mismatch_cfg++; continue; }
      if (recn && rec[recn - 1] == ';') rec[--recn] = 0;
      printf("I rangecoder spacket %ld %d %d %d %d %u %s\n", size, fs, nch, nfpp, nb, flags_word, recn ? rec : "-");
      ec_enc_done(&enc);
      printf("O %s D ", enc.error ? "err" : "ok"); st_print(&enc); printf(" B "); vhex(stdout, buf, size);
      if (!enc.error) {   /* model-free round trip through the real decoder */
         ec_dec dec; int c, diff = -1; opus_int32 nout; unsigned char *copy = vexact(buf, size);
         ec_dec_init(&dec, copy, (opus_uint32)size);
         ndfr = 0; d_valid = 0; dec_state = decSt; dec_on = 1;
         for (c = 0; c < nfpp; c++) {
#ifdef ENABLE_DEEP_PLC
            if (silk_Decode(decSt, &dctl, 0, c == 0, &dec, outpcm, &nout, NULL, 0)) { diff = 1000 + c; break; }
#else
            if (silk_Decode(decSt, &dctl, 0, c == 0, &dec, outpcm, &nout, 0)) { diff = 1000 + c; break; }
#endif
         }
         dec_on = 0;
         if (diff < 0 && ndfr != nefr) diff = 2000 + ndfr;
         for (c = 0; diff < 0 && c < nefr; c++) if (strcmp(efr[c], dfr[c])) diff = c;
         if (diff < 0 && (dec.rng != enc.rng || ec_tell(&dec) != ec_tell(&enc))) diff = 3000;
         if (diff < 0) printf(" R ok"); else { printf(" R diff@%d", diff); if (diff < nefr && diff < ndfr) printf(" enc[%s] dec[%s]", efr[diff], dfr[diff]); n_rt_diff++; }
         free(copy);
      } else printf(" R ok");
      printf("\n");
      n_packets++; if (nch == 2) n_stereo++; if (enc.error) n_err++;
      fflush(stdout);
   }
   free(psEnc); free(buf); free(decSt);
}

static long o_packets, o_skipped, o_stereo, o_stripped, o_red, o_rt_diff;
static void run_ostream(vrng *r)
{
   static const int BW[] = {OPUS_BANDWIDTH_NARROWBAND, OPUS_BANDWIDTH_MEDIUMBAND, OPUS_BANDWIDTH_WIDEBAND}, MS[] = {10, 20, 20, 40, 60};
   int bwi = (int)vbelow(r, 3), nch = vchance(r, 50) ? 2 : 1, ms = MS[vbelow(r, 5)], npk = vrange(r, 3, 12), p, i, err = 0;
   int fs = 16000, nsamp = fs / 1000 * ms, left = 0; seg_t sg; static float pcmf[2 * 960]; static opus_int16 pcm16[2 * 960];
   OpusEncoder *enc = opus_encoder_create(fs, nch, OPUS_APPLICATION_VOIP, &err);
   OpusDecoder *dec = opus_decoder_create(fs, nch, &err); static opus_int16 pcmout[2 * 960];
   memset(&sg, 0, sizeof sg);
   if (!enc || !dec || err) { printf("# opus_encoder_create / opus_decoder_create failed\n"); return; }
   opus_encoder_ctl(enc, OPUS_SET_FORCE_MODE(MODE_SILK_ONLY));
   opus_encoder_ctl(enc, OPUS_SET_BANDWIDTH(BW[bwi]));
   opus_encoder_ctl(enc, OPUS_SET_VBR(1)); opus_encoder_ctl(enc, OPUS_SET_DTX(0));
   opus_encoder_ctl(enc, OPUS_SET_BITRATE(nch * vrange(r, 6, 40) * 1000));
   opus_encoder_ctl(enc, OPUS_SET_COMPLEXITY(vrange(r, 0, 10)));
   if (nch == 2) opus_encoder_ctl(enc, OPUS_SET_FORCE_CHANNELS(vchance(r, 70) ? 2 : OPUS_AUTO));
   if (vchance(r, 60)) { opus_encoder_ctl(enc, OPUS_SET_INBAND_FEC(1)); opus_encoder_ctl(enc, OPUS_SET_PACKET_LOSS_PERC(vrange(r, 5, 30))); }
   for (p = 0; p < npk; p++) {
      static unsigned char out[1500]; int maxb = vchance(r, 30) ? vrange(r, 150, 400) : 1276, len, bad = 0, config, nfpp, nb, k, toc;
      unsigned fill = vbelow(r, 256); opus_uint32 rng = 0, drng = 0; int dret; static const int MS10[] = {100, 200, 400, 600};
      if (p > 0 && vchance(r, 20)) opus_encoder_ctl(enc, OPUS_SET_BANDWIDTH(BW[vbelow(r, 3)]));   /* bandwidth switches bring redundancy frames */
      fill_audio(r, &sg, &left, pcmf, nsamp, nch, fs);
      for (i = 0; i < nsamp * nch; i++) { float v = pcmf[i] * 32767.0f; pcm16[i] = (opus_int16)(v > 32767 ? 32767 : v < -32768 ? -32768 : v); }
      out[0] = 0; for (i = 1; i < (int)sizeof out; i++) out[i] = (unsigned char)((fill + 37u * (unsigned)(i - 1)) % 256u);
      recn = 0; rec[0] = 0; rec_on = 1; rec_overflow = 0; have_pred = have_mid = 0; last_valid = 0; n_patch = 0; flags_word = 0; flags_bits = 0;
      memset(calls_this_frame, 0, sizeof calls_this_frame); nefr = 0;
      n_celt = n_celt_red = 0; red_ptr = NULL; red_len = 0; red_rng = 0; out_lo = out; out_hi = out + sizeof out;
      len = opus_encode(enc, pcm16, nsamp, out, maxb);
      rec_on = 0;
      if (len < 0) { printf("# opus_encode returned %d\n", len); break; }
      opus_encoder_ctl(enc, OPUS_GET_FINAL_RANGE(&rng));
      { unsigned char *copy = vexact(out, len); dret = opus_decode(dec, copy, len, pcmout, 960, 0); free(copy); }
      opus_decoder_ctl(dec, OPUS_GET_FINAL_RANGE(&drng));
      toc = out[0]; config = toc >> 3;
      for (i = 0; i < 3; i++) if (calls_this_frame[0][i] > 1 || calls_this_frame[1][i] > 1) bad = 1;
      if (len < 2 || config >= 12 || (toc & 3) != 0 || bad || n_patch != 1 || rec_overflow) { o_skipped++; continue; }
      nfpp = (config & 3) <= 1 ? 1 : (config & 3); nb = (config & 3) == 0 ? 2 : 4; k = (nfpp + 1) * (((toc >> 2) & 1) + 1);
      if (flags_bits != k) { o_skipped++; continue; }
      if (recn && rec[recn - 1] == ';') rec[--recn] = 0;
      (void)nb;
      if (n_celt_red > 1 || (n_celt_red == 1 && (red_len < 2 || red_ptr + red_len != out + len))) { o_skipped++; continue; }
      printf("I rangecoder %s %d %u %d %d %d %u %s", n_celt_red ? "oframer" : "oframe", maxb, fill, 1101 + (config >> 2), ((toc >> 2) & 1) + 1, MS10[config & 3], flags_word, recn ? rec : "-");
      if (n_celt_red) { printf(" %d ", n_celt == 1); vhex(stdout, red_ptr, red_len); printf(" %u", (unsigned)red_rng); o_red++; }
      printf("\nO P "); vhex(stdout, out + 1, len - 1); printf(" F %u", (unsigned)rng);
      if (dret == nsamp && drng == rng) printf(" R ok\n"); else { printf(" R diff:opus_decode=%d,final_range=%u\n", dret, (unsigned)drng); o_rt_diff++; }
      o_packets++; if ((toc >> 2) & 1) o_stereo++;
      fflush(stdout);
   }
   opus_encoder_destroy(enc); opus_decoder_destroy(dec);
}

int main(int argc, char **argv)
{
   vinstall_traps();
   if (argc >= 4 && !strcmp(argv[1], "rand")) {
      vrng m; long i, n = atol(argv[3]); m.s = strtoull(argv[2], 0, 10) * 0x9E3779B97F4A7C15ULL + 0xC085A11CULL; m.s = vnext(&m);
      for (i = 0; i < n; i++) { vrng r; r.s = vnext(&m); run_stream(&r); }
      printf("# spacket streams=%ld packets=%ld stereo=%ld regular-frames=%ld lbrr-frames=%ld mid-only-flags-set=%ld err=%ld round-trip-diffs=%ld skipped: re-coded %ld config %ld\n",
         n, n_packets, n_stereo, n_frames, n_lbrr_frames, n_midonly, n_err, n_rt_diff, n_multi_iter, n_mismatch_cfg);
   } else if (argc >= 4 && !strcmp(argv[1], "oframe")) {
      vrng m; long i, n = atol(argv[3]); m.s = strtoull(argv[2], 0, 10) * 0x9E3779B97F4A7C15ULL + 0xC08F4A3EULL; m.s = vnext(&m);
      for (i = 0; i < n; i++) { vrng r; r.s = vnext(&m); run_ostream(&r); }
      printf("# oframe streams=%ld packets=%ld stereo=%ld with-redundancy=%ld decoder-final-range-diffs=%ld skipped=%ld\n", n, o_packets, o_stereo, o_red, o_rt_diff, o_skipped);
   } else { fprintf(stderr, "usage: c08_silkpacket rand|oframe <seed> <n>\n"); return 64; }
   return 0;
}
