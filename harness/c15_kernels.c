/* c15_kernels.c — correspondence + witness-search harness for property C15 (optimised, run-time dispatched
   kernels match the portable C code).  Linked against the library built from /repo's current working tree.

   Correspondence modes (print `I kernels <op> <variants> <args>` then `O v=<result> …`):
      float <seed> <n> <level>  exact-domain differential of the float reduction kernels: inputs are integer-valued
                                floats so small that every partial sum is exact in binary32 (binary64 for
                                silk_inner_product_FLP), hence the real kernels must return, bit for bit, what
                                the Lean model computes over the integers.  Every *variant* of a kernel is run on
                                the same data: `c` the portable function, `sse`/`avx2` the SIMD function by symbol,
                                `a0..a4` the codec's own call macro with that arch value (so the dispatch table /
                                compile-time presumption is part of what is compared).  Level 0: lengths 0..72
                                enumerated + <n> random cases with lengths up to 1100; level 1: lengths 0..1100
                                enumerated.  Each variant is re-run at other buffer alignments (data always ends at
                                the end of an exact-size heap block, so ASan sees over-reads); a result that
                                changes with the alignment is printed as `v=<bits>@ax,ay` and so shows as a mismatch.
      vq <seed> <n> <wide>      silk_VQ_WMat_EC: c, sse4_1 and the dispatch table at every arch on structured inputs
                                (real LTP codebooks + correlation matrices, random codebooks, extremes; wide=1
                                adds full-range 32-bit data that relies on two's-complement wrap in the C code —
                                used in the non-sanitizer build only)
      dispatch                  every RTCD table that exists in this configuration, every index 0..OPUS_ARCHMASK
   Witness search (no model; property predicate evaluated on the implementation; prints `V in | expected | observed`):
      search <seed> <n>         arbitrary finite floats: |SIMD - C| <= 2*gamma_n*sum|x_i*y_i| (the a-priori bound for
                                any two summation orders, gamma_n = n*u/(1-n*u)); op_pvq_search_c/_sse2: pulse count,
                                signs, returned energy, and search quality (calibrated, tools/c15_calibration.json
                                passed as argv[4] = max allowed relative deficit in ppm)
      one <kind> <subseed> [ppm] re-run a single search case
      stdin                     re-run recorded `kernels …` input lines (replay)
   All randomness derives from the seed argument. */
#define NON_STATIC_COMB_FILTER_CONST_C   /* makes celt.c emit comb_filter_const_c even when SSE is presumed */
#include "vcommon.h"
#include "celt/celt.c"
#include "pitch.h"
#include "vq.h"
#include "main.h"
#include "SigProc_FLP.h"
#include "tables.h"
#include <math.h>

/* ------------------------------------------------------------------ helpers */
static uint32_t fbits(float f) { uint32_t u; memcpy(&u, &f, 4); return u; }
static uint64_t dbits(double f) { uint64_t u; memcpy(&u, &f, 8); return u; }

static void plisti(const int *p, int n) { int i; if (!n) printf("-"); for (i = 0; i < n; i++) printf("%s%d", i ? "," : "", p[i]); }

/* a float array of n elements whose LAST element is the last element of an exact-size heap block and whose first
   element sits `off` floats after a 32-byte boundary */
typedef struct { void *blk; float *p; } fblk;
static fblk fmake(const int *v, int n, int off)
{
   fblk b; int i;
   size_t bytes = (size_t)(off + n) * sizeof(float);
   if (posix_memalign(&b.blk, 32, bytes ? bytes : 1)) abort();
   b.p = (float *)b.blk + off;
   for (i = 0; i < off; i++) ((float *)b.blk)[i] = 12345.f;    /* visible if an under-read is summed in */
   for (i = 0; i < n; i++) b.p[i] = (float)v[i];
   return b;
}
static void ffree(fblk b) { free(b.blk); }

static int isqrt_floor(double x) { int r = (int)floor(sqrt(x)); while ((double)r * r > x) r--; while ((double)(r + 1) * (r + 1) <= x) r++; return r; }

/* magnitude bound so that n products sum to less than `cap` in absolute value */
static int mag_for(int n, double cap, int maxmag)
{
   int m = isqrt_floor(cap / (n > 0 ? n : 1));
   if (m > maxmag) m = maxmag;
   if (m < 1) m = 1;
   return m;
}
static void fill_ints(vrng *r, int *v, int n, int mag)
{
   int i, style = vbelow(r, 8);
   for (i = 0; i < n; i++) {
      switch (style) {
      case 0: v[i] = mag; break;                                  /* all at the bound: the sum reaches the cap */
      case 1: v[i] = (i & 1) ? -mag : mag; break;
      case 2: v[i] = i + 1 <= mag ? i + 1 : (i % mag) + 1; break;  /* position-coded: a dropped or duplicated
                                                                      element changes the sum */
      case 3: v[i] = vchance(r, 10) ? vrange(r, -mag, mag) : 0; break;   /* sparse */
      default: v[i] = vrange(r, -mag, mag); break;
      }
   }
}

#define NVAR 8
typedef struct { const char *name; int arch; int kind; } variant;   /* kind 0 = c, 1 = simd symbol, 2 = macro@arch */

static int g_align_reruns = 3;
static long g_cases = 0;

/* ------------------------------------------------------------------ inner / dual */
static float run_inner(const variant *v, const float *x, const float *y, int n)
{
   if (v->kind == 0) return celt_inner_prod_c(x, y, n);
   if (v->kind == 1) return celt_inner_prod_sse(x, y, n);
   return celt_inner_prod(x, y, n, v->arch);
}
static const variant V_INNER[] = { {"c", 0, 0}, {"sse", 0, 1}, {"a0", 0, 2}, {"a1", 1, 2}, {"a2", 2, 2}, {"a3", 3, 2}, {"a4", 4, 2} };
#define N_INNER 7

static void emit_inner(vrng *r, const int *xi, const int *yi, int n)
{
   int k, a;
   printf("I kernels inner c,sse,a0,a1,a2,a3,a4 "); plisti(xi, n); printf(" "); plisti(yi, n); printf("\n"); fflush(stdout);
   printf("O");
   for (k = 0; k < N_INNER; k++) {
      int ax = vbelow(r, 8), ay = vbelow(r, 8), bad = 0, bx = 0, by = 0;
      fblk X = fmake(xi, n, ax), Y = fmake(yi, n, ay);
      float res = run_inner(&V_INNER[k], X.p, Y.p, n), res2 = res;
      ffree(X); ffree(Y);
      for (a = 0; a < g_align_reruns && !bad; a++) {
         bx = vbelow(r, 8); by = vbelow(r, 8);
         X = fmake(xi, n, bx); Y = fmake(yi, n, by);
         res2 = run_inner(&V_INNER[k], X.p, Y.p, n);
         ffree(X); ffree(Y);
         if (fbits(res2) != fbits(res)) bad = 1;
      }
      if (bad) printf(" %s=f%08x@%d,%d", V_INNER[k].name, fbits(res2), bx, by);
      else printf(" %s=f%08x", V_INNER[k].name, fbits(res));
   }
   printf("\n"); g_cases++;
}
static void do_inner(vrng *r, int n)
{
   int *xi = (int *)malloc((n + 1) * sizeof(int)), *yi = (int *)malloc((n + 1) * sizeof(int));
   int mag = mag_for(n, 16777215.0, 4000);
   fill_ints(r, xi, n, mag); fill_ints(r, yi, n, mag);
   emit_inner(r, xi, yi, n);
   free(xi); free(yi);
}

static void run_dual(const variant *v, const float *x, const float *y1, const float *y2, int n, float *o1, float *o2)
{
   if (v->kind == 0) dual_inner_prod_c(x, y1, y2, n, o1, o2);
   else if (v->kind == 1) dual_inner_prod_sse(x, y1, y2, n, o1, o2);
   else dual_inner_prod(x, y1, y2, n, o1, o2, v->arch);
}
static void emit_dual(vrng *r, const int *xi, const int *y1, const int *y2, int n)
{
   int k, a;
   printf("I kernels dual c,sse,a0,a1,a2,a3,a4 "); plisti(xi, n); printf(" "); plisti(y1, n); printf(" "); plisti(y2, n); printf("\n"); fflush(stdout);
   printf("O");
   for (k = 0; k < N_INNER; k++) {
      float o1 = 7.f, o2 = 9.f, p1 = 0, p2 = 0; int bad = 0, bx = 0, by = 0;
      for (a = 0; a <= g_align_reruns && !bad; a++) {
         fblk X, Y1, Y2;
         bx = vbelow(r, 8); by = vbelow(r, 8);
         X = fmake(xi, n, bx); Y1 = fmake(y1, n, by); Y2 = fmake(y2, n, vbelow(r, 8));
         run_dual(&V_INNER[k], X.p, Y1.p, Y2.p, n, &p1, &p2);
         ffree(X); ffree(Y1); ffree(Y2);
         if (a == 0) { o1 = p1; o2 = p2; }
         else if (fbits(p1) != fbits(o1) || fbits(p2) != fbits(o2)) bad = 1;
      }
      if (bad) printf(" %s=f%08x,f%08x@%d,%d", V_INNER[k].name, fbits(p1), fbits(p2), bx, by);
      else printf(" %s=f%08x,f%08x", V_INNER[k].name, fbits(o1), fbits(o2));
   }
   printf("\n"); g_cases++;
}
static void do_dual(vrng *r, int n)
{
   int *xi = (int *)malloc((n + 1) * sizeof(int)), *y1 = (int *)malloc((n + 1) * sizeof(int)), *y2 = (int *)malloc((n + 1) * sizeof(int));
   int mag = mag_for(n, 16777215.0, 4000);
   fill_ints(r, xi, n, mag); fill_ints(r, y1, n, mag); fill_ints(r, y2, n, mag);
   emit_dual(r, xi, y1, y2, n);
   free(xi); free(y1); free(y2);
}

/* ------------------------------------------------------------------ xcorr_kernel */
static void run_xk(const variant *v, const float *x, const float *y, float sum[4], int len)
{
   if (v->kind == 0) xcorr_kernel_c(x, y, sum, len);
   else if (v->kind == 1) xcorr_kernel_sse(x, y, sum, len);
   else xcorr_kernel(x, y, sum, len, v->arch);
}
static void emit_xcorr4(vrng *r, const int *xi, const int *yi, const int *s, int len)
{
   int k, a, j;
   int with_c = len >= 3;          /* xcorr_kernel_c: celt_assert(len>=3) */
   printf("I kernels xcorr4 %ssse,a0,a1,a2,a3,a4 %d ", with_c ? "c," : "", len);
   plisti(xi, len); printf(" "); plisti(yi, len + 3); printf(" "); plisti(s, 4); printf("\n"); fflush(stdout);
   printf("O");
   for (k = with_c ? 0 : 1; k < N_INNER; k++) {
      float o[4] = {0, 0, 0, 0}, p[4]; int bad = 0, bx = 0, by = 0;
      for (a = 0; a <= g_align_reruns && !bad; a++) {
         fblk X, Y;
         bx = vbelow(r, 8); by = vbelow(r, 8);
         X = fmake(xi, len, bx); Y = fmake(yi, len + 3, by);
         for (j = 0; j < 4; j++) p[j] = (float)s[j];
         run_xk(&V_INNER[k], X.p, Y.p, p, len);
         ffree(X); ffree(Y);
         if (a == 0) memcpy(o, p, sizeof o);
         else if (memcmp(o, p, sizeof o)) bad = 1;
      }
      printf(" %s=f%08x,f%08x,f%08x,f%08x", V_INNER[k].name, fbits(bad ? p[0] : o[0]), fbits(bad ? p[1] : o[1]),
             fbits(bad ? p[2] : o[2]), fbits(bad ? p[3] : o[3]));
      if (bad) printf("@%d,%d", bx, by);
   }
   printf("\n"); g_cases++;
}
static void do_xcorr4(vrng *r, int len)
{
   int *xi = (int *)malloc((len + 1) * sizeof(int)), *yi = (int *)malloc((len + 4) * sizeof(int));
   int s[4], j;
   int mag = mag_for(len, 16777215.0 - 1000.0, 4000);
   fill_ints(r, xi, len, mag); fill_ints(r, yi, len + 3, mag);
   for (j = 0; j < 4; j++) s[j] = vchance(r, 50) ? 0 : vrange(r, -1000, 1000);
   emit_xcorr4(r, xi, yi, s, len);
   free(xi); free(yi);
}

/* ------------------------------------------------------------------ celt_pitch_xcorr */
static const variant V_PX[] = { {"c", 0, 0}, {"avx2", 0, 1}, {"a0", 0, 2}, {"a1", 1, 2}, {"a2", 2, 2}, {"a3", 3, 2}, {"a4", 4, 2} };
#define N_PX 7
static void run_px(const variant *v, const float *x, const float *y, float *xc, int len, int mp)
{
   if (v->kind == 0) celt_pitch_xcorr_c(x, y, xc, len, mp, 0);
   else if (v->kind == 1) celt_pitch_xcorr_avx2(x, y, xc, len, mp, 4);
   else celt_pitch_xcorr(x, y, xc, len, mp, v->arch);
}
static void emit_pitchxcorr(vrng *r, const int *xi, const int *yi, int len, int mp)
{
   int ny = len + mp - 1, k, a, j;
   printf("I kernels pitchxcorr c,avx2,a0,a1,a2,a3,a4 %d %d ", len, mp); plisti(xi, len); printf(" "); plisti(yi, ny); printf("\n"); fflush(stdout);
   printf("O");
   for (k = 0; k < N_PX; k++) {
      float *o = (float *)malloc(mp * sizeof(float)), *p = (float *)malloc(mp * sizeof(float));
      int bad = 0, bx = 0, by = 0;
      for (a = 0; a <= g_align_reruns && !bad; a++) {
         fblk X, Y;
         /* celt_pitch_xcorr_c asserts 4-byte alignment of x only; floats always are */
         bx = vbelow(r, 8); by = vbelow(r, 8);
         X = fmake(xi, len, bx); Y = fmake(yi, ny, by);
         for (j = 0; j < mp; j++) p[j] = -777.f;
         run_px(&V_PX[k], X.p, Y.p, p, len, mp);
         ffree(X); ffree(Y);
         if (a == 0) memcpy(o, p, mp * sizeof(float));
         else if (memcmp(o, p, mp * sizeof(float))) bad = 1;
      }
      printf(" %s=", V_PX[k].name);
      for (j = 0; j < mp; j++) printf("%sf%08x", j ? "," : "", fbits(bad ? p[j] : o[j]));
      if (bad) printf("@%d,%d", bx, by);
      free(o); free(p);
   }
   printf("\n"); g_cases++;
}
static void do_pitchxcorr(vrng *r, int len, int mp)
{
   int ny = len + mp - 1;
   int *xi = (int *)malloc((len + 1) * sizeof(int)), *yi = (int *)malloc((ny + 1) * sizeof(int));
   int mag = mag_for(len, 16777215.0, 4000);
   fill_ints(r, xi, len, mag); fill_ints(r, yi, ny, mag);
   emit_pitchxcorr(r, xi, yi, len, mp);
   free(xi); free(yi);
}

/* ------------------------------------------------------------------ comb_filter_const */
static void run_comb(const variant *v, float *y, float *x, int T, int N, float g10, float g11, float g12)
{
   if (v->kind == 0) comb_filter_const_c(y, x, T, N, g10, g11, g12);
   else if (v->kind == 1) comb_filter_const_sse(y, x, T, N, g10, g11, g12);
   else comb_filter_const(y, x, T, N, g10, g11, g12, v->arch);
}
static void emit_comb(vrng *r, const int *xi, const int *g, int T, int N, int inplace)
{
   int nx = T + 2 + N, nout = N / 4 * 4, k, a, j;
   printf("I kernels %s c,sse,a0,a1,a2,a3,a4 %d %d %d %d %d ", inplace ? "combip" : "comb", T, N, g[0], g[1], g[2]);
   plisti(xi, nx); printf("\n"); fflush(stdout);
   printf("O");
   for (k = 0; k < N_INNER; k++) {
      float *o = (float *)malloc((nout + 1) * sizeof(float)), *p = (float *)malloc((nout + 1) * sizeof(float));
      int bad = 0, bx = 0, by = 0;
      for (a = 0; a <= g_align_reruns && !bad; a++) {
         fblk X, Y; float *yp;
         bx = vbelow(r, 8); by = vbelow(r, 8);
         X = fmake(xi, nx, bx);
         if (inplace) { Y.blk = NULL; yp = X.p + T + 2; }
         else {
            int *tmp = (int *)calloc(N + 1, sizeof(int));
            Y = fmake(tmp, N, by); free(tmp); yp = Y.p;
            for (j = 0; j < N; j++) yp[j] = -777.f;
         }
         run_comb(&V_INNER[k], yp, X.p + T + 2, T, N, (float)g[0], (float)g[1], (float)g[2]);
         memcpy(p, yp, nout * sizeof(float));
         ffree(X); if (!inplace) ffree(Y);
         if (a == 0) memcpy(o, p, nout * sizeof(float));
         else if (memcmp(o, p, nout * sizeof(float))) bad = 1;
      }
      printf(" %s=", V_INNER[k].name);
      for (j = 0; j < nout; j++) printf("%sf%08x", j ? "," : "", fbits(bad ? p[j] : o[j]));
      if (bad) printf("@%d,%d", bx, by);
      free(o); free(p);
   }
   printf("\n"); g_cases++;
}
static void do_comb(vrng *r, int T, int N, int inplace)
{
   int nx, nout = N / 4 * 4;
   int *xi;
   int g[3], j;
   /* exactness: out of place |y| <= |x|(1+|g10|+2|g11|+2|g12|) <= 4000*301 < 2^24.  In place the output feeds
      back once per period T, so the bound compounds: with |g| <= 1 the growth per period is at most 6 (at most 8
      periods: 2*6^8 < 2^24); for more periods only the centre tap is kept (growth 2 per period, at most 22
      periods: 2^22), and T is raised when even that would not do. */
   int gm = 60, xm = 4000;
   if (inplace) {
      int periods = N / T + 1;
      if (periods > 22) { T = N / 21 + 1; periods = N / T + 1; }
      gm = 1; xm = periods > 8 ? 1 : 2;
      for (j = 0; j < 3; j++) g[j] = vrange(r, -gm, gm);
      if (periods > 8) g[1] = g[2] = 0;
   } else {
      for (j = 0; j < 3; j++) g[j] = vrange(r, -gm, gm);
   }
   nx = T + 2 + N;
   xi = (int *)malloc((nx + 1) * sizeof(int));
   fill_ints(r, xi, nx, xm);
   emit_comb(r, xi, g, T, N, inplace);
   free(xi);
}

/* ------------------------------------------------------------------ silk_inner_product_FLP */
static double run_flp(const variant *v, const float *x, const float *y, int n)
{
   if (v->kind == 0) return silk_inner_product_FLP_c(x, y, n);
   if (v->kind == 1) return silk_inner_product_FLP_avx2(x, y, n);
   return silk_inner_product_FLP(x, y, n, v->arch);
}
static void emit_flp(vrng *r, const int *xi, const int *yi, int n)
{
   int k, a;
   printf("I kernels flp c,avx2,a0,a1,a2,a3,a4 "); plisti(xi, n); printf(" "); plisti(yi, n); printf("\n"); fflush(stdout);
   printf("O");
   for (k = 0; k < N_PX; k++) {
      double o = 0, p = 0; int bad = 0, bx = 0, by = 0;
      for (a = 0; a <= g_align_reruns && !bad; a++) {
         fblk X, Y;
         bx = vbelow(r, 8); by = vbelow(r, 8);
         X = fmake(xi, n, bx); Y = fmake(yi, n, by);
         p = run_flp(&V_PX[k], X.p, Y.p, n);
         ffree(X); ffree(Y);
         if (a == 0) o = p; else if (dbits(o) != dbits(p)) bad = 1;
      }
      if (bad) printf(" %s=d%016llx@%d,%d", V_PX[k].name, (unsigned long long)dbits(p), bx, by);
      else printf(" %s=d%016llx", V_PX[k].name, (unsigned long long)dbits(o));
   }
   printf("\n"); g_cases++;
}
static void do_flp(vrng *r, int n)
{
   int *xi = (int *)malloc((n + 1) * sizeof(int)), *yi = (int *)malloc((n + 1) * sizeof(int));
   /* products are exact in binary64 (24+24 bits); the sum must stay below 2^53 */
   int mag = mag_for(n, 9007199254740991.0, 16777215);
   if (vchance(r, 50)) mag = mag_for(n, 16777215.0, 4000);
   fill_ints(r, xi, n, mag); fill_ints(r, yi, n, mag);
   emit_flp(r, xi, yi, n);
   free(xi); free(yi);
}

/* lengths the codec uses for these kernels, plus lane-boundary neighbours */
static const int SPECIAL_LEN[] = { 80, 96, 120, 127, 128, 129, 160, 192, 240, 255, 256, 257, 320, 332, 384, 480, 511, 512,
                                   513, 640, 720, 960, 1023, 1024, 1025, 1100 };
static int pick_len(vrng *r)
{
   int c = vbelow(r, 10);
   if (c < 5) return vrange(r, 0, 40);
   if (c < 8) return vrange(r, 41, 300);
   if (c < 9) return SPECIAL_LEN[vbelow(r, sizeof(SPECIAL_LEN) / sizeof(int))];
   return vrange(r, 301, 1100);
}

static void run_float(uint64_t seed, long n, int level)
{
   vrng r; long i; int len, maxlen = level ? 1100 : 72;
   r.s = seed ^ 0xF10A7C15ULL; r.s = vnext(&r) + 15;   /* mixed: consecutive seeds give unrelated streams */
   /* enumerated lengths: every length, every kernel */
   for (len = 0; len <= maxlen; len++) {
      do_inner(&r, len); do_dual(&r, len); do_xcorr4(&r, len); do_flp(&r, len);
      if (len >= 1) {
         /* max_pitch sweeps the 8-blocks, the 4-blocks and the scalar tail of both pitch-xcorr versions */
         int mp = 1 + (len * 7) % 37;
         do_pitchxcorr(&r, len, mp);
         if (len <= 40) do_pitchxcorr(&r, 1 + (len * 5) % 23, len);     /* every max_pitch 1..40 */
      }
      if (len % 4 == 0 || len < 24) {
         do_comb(&r, vrange(&r, 15, 64), len, 0);
         do_comb(&r, vrange(&r, 15, 64), len, 1);
         do_comb(&r, 15, len, 1);             /* in place at COMBFILTER_MINPERIOD, the smallest period the codec passes */
         if (len % 8 == 0) do_comb(&r, 1024, len, 1);   /* … and at COMBFILTER_MAXPERIOD */
      }
   }
   for (i = 0; i < n; i++) {
      int k = vbelow(&r, 8);
      len = pick_len(&r);
      switch (k) {
      case 0: do_inner(&r, len); break;
      case 1: do_dual(&r, len); break;
      case 2: do_xcorr4(&r, len); break;
      case 3: do_flp(&r, len); break;
      case 4: case 5: {
         int l2 = len > 600 ? 600 : (len < 1 ? 1 : len);
         int mp = vchance(&r, 70) ? vrange(&r, 1, 40) : vrange(&r, 41, 200);
         do_pitchxcorr(&r, l2, mp); break;
      }
      default: {
         int N = (len > 960 ? 960 : len); int T = vchance(&r, 15) ? 15 : (vchance(&r, 80) ? vrange(&r, 15, 200) : vrange(&r, 201, 1024));
         if (vchance(&r, 85)) N = N / 4 * 4;
         if (k == 6) { if (vchance(&r, 10)) T = vrange(&r, 2, 14); do_comb(&r, T, N, 0); }
         else do_comb(&r, T, N, 1);
      }
      }
   }
   printf("# float cases=%ld level=%d maxlen=%d alignment-reruns-per-variant=%d\n", g_cases, level, maxlen, g_align_reruns);
}

/* ------------------------------------------------------------------ silk_VQ_WMat_EC */
static const variant V_VQ[] = { {"c", 0, 0}, {"sse4_1", 0, 1}, {"a0", 0, 2}, {"a1", 1, 2}, {"a2", 2, 2}, {"a3", 3, 2}, {"a4", 4, 2} };
#define N_VQ 7
static void plist32(const opus_int32 *p, int n) { int i; if (!n) printf("-"); for (i = 0; i < n; i++) printf("%s%d", i ? "," : "", (int)p[i]); }

static void emit_vq(const opus_int32 *XX, const opus_int32 *xX, const opus_int8 *cb, const opus_uint8 *cbg, const opus_uint8 *cl,
                    int subfr, int maxg, int L)
{
   int i, k;
   printf("I kernels vqwmat c,sse4_1,a0,a1,a2,a3,a4 "); plist32(XX, 25); printf(" "); plist32(xX, 5); printf(" ");
   if (!L) printf("-"); for (i = 0; i < 5 * L; i++) printf("%s%d", i ? "," : "", (int)cb[i]);
   printf(" "); if (!L) printf("-"); for (i = 0; i < L; i++) printf("%s%d", i ? "," : "", (int)cbg[i]);
   printf(" "); if (!L) printf("-"); for (i = 0; i < L; i++) printf("%s%d", i ? "," : "", (int)cl[i]);
   printf(" %d %d %d\n", subfr, maxg, L); fflush(stdout);
   printf("O");
   for (k = 0; k < N_VQ; k++) {
      opus_int8 ind = 99; opus_int32 res = -1, rate = -1; opus_int gain = -12345;
      opus_int32 *pXX = (opus_int32 *)vexact((unsigned char *)XX, 25 * sizeof(opus_int32)), *pxX = (opus_int32 *)vexact((unsigned char *)xX, 5 * sizeof(opus_int32));
      if (V_VQ[k].kind == 0) silk_VQ_WMat_EC_c(&ind, &res, &rate, &gain, pXX, pxX, cb, cbg, cl, subfr, maxg, L);
      else if (V_VQ[k].kind == 1) silk_VQ_WMat_EC_sse4_1(&ind, &res, &rate, &gain, pXX, pxX, cb, cbg, cl, subfr, maxg, L);
      else silk_VQ_WMat_EC(&ind, &res, &rate, &gain, pXX, pxX, cb, cbg, cl, subfr, maxg, L, V_VQ[k].arch);
      free(pXX); free(pxX);
      if (gain == -12345) printf(" %s=%d:%d:%d:-", V_VQ[k].name, (int)ind, (int)res, (int)rate);
      else printf(" %s=%d:%d:%d:%d", V_VQ[k].name, (int)ind, (int)res, (int)rate, (int)gain);
   }
   printf("\n"); g_cases++;
}

static void do_vq(vrng *r, int wide)
{
   opus_int32 XX[25], xX[5];
   int L, i, j, style = vbelow(r, 10);
   opus_int8 *cb; opus_uint8 *cbg, *cl;
   int subfr, maxg;
   if (style < 5) {               /* a real LTP codebook */
      int c = vbelow(r, NB_LTP_CBKS);
      L = silk_LTP_vq_sizes[c];
      cb = (opus_int8 *)vexact((const unsigned char *)silk_LTP_vq_ptrs_Q7[c], 5 * L);
      cbg = vexact(silk_LTP_vq_gain_ptrs_Q7[c], L);
      cl = vexact(silk_LTP_gain_BITS_Q5_ptrs[c], L);
   } else {
      L = style < 8 ? vrange(r, 0, 40) : vrange(r, 1, 4);
      cb = (opus_int8 *)malloc(5 * L + 1); cbg = (opus_uint8 *)malloc(L + 1); cl = (opus_uint8 *)malloc(L + 1);
      for (i = 0; i < 5 * L; i++) cb[i] = (opus_int8)(vchance(r, 15) ? (vchance(r, 50) ? -128 : 127) : vrange(r, -128, 127));
      for (i = 0; i < L; i++) { cbg[i] = (opus_uint8)vbelow(r, 256); cl[i] = (opus_uint8)vbelow(r, 256); }
      { unsigned char *t;
        t = vexact((unsigned char *)cb, 5 * L); free(cb); cb = (opus_int8 *)t;
        t = vexact(cbg, L); free(cbg); cbg = t;
        t = vexact(cl, L); free(cl); cl = t; }
   }
   {
      int ms = vbelow(r, 6);
      if (ms < 3) {                 /* correlation-like: X = sum of outer products, scaled so that XX[0] ~ 2^17 */
         double v[3][5], m[25] = {0}, c[5] = {0}, sc; int t;
         for (t = 0; t < 3; t++) for (i = 0; i < 5; i++) v[t][i] = (double)vrange(r, -1000, 1000) / 1000.0;
         for (t = 0; t < 3; t++) for (i = 0; i < 5; i++) { for (j = 0; j < 5; j++) m[5 * i + j] += v[t][i] * v[t][j]; c[i] += v[t][i] * v[0][2]; }
         sc = (ms == 0 ? 131072.0 : (double)(1 << vrange(r, 8, 18))) / (m[0] + m[6] + m[12] + 1e-3);
         for (i = 0; i < 25; i++) { double q = m[i] * sc; XX[i] = (opus_int32)(q > 524288.0 ? 524288.0 : (q < -524288.0 ? -524288.0 : q)); }
         for (i = 0; i < 5; i++) { double q = c[i] * sc; xX[i] = (opus_int32)(q > 524288.0 ? 524288.0 : (q < -524288.0 ? -524288.0 : q)); }
      } else {
         int bits = wide && ms == 5 ? 31 : vrange(r, 4, 19);
         opus_int32 lim = bits >= 31 ? 2147483647 : (1 << bits);
         for (i = 0; i < 25; i++) XX[i] = bits >= 31 ? (opus_int32)vnext(r) : vrange(r, -lim, lim);
         for (i = 0; i < 5; i++) xX[i] = bits >= 31 ? (opus_int32)vnext(r) : vrange(r, -lim, lim);
         if (bits >= 31) for (i = 0; i < 5; i++) if ((xX[i] & 0x01FFFFFF) == 0x01000000) xX[i]++;  /* -(x<<7) would be -INT_MIN */
         if (vchance(r, 30)) { XX[vbelow(r, 25)] = vchance(r, 50) ? lim : -lim; }
      }
   }
   subfr = vchance(r, 70) ? (vchance(r, 50) ? 40 : 80) + 0 : vrange(r, 1, 320);
   if (vchance(r, 25)) subfr = 5 * vrange(r, 8, 16);      /* 40..80: 8..16 kHz sub-frames */
   maxg = vchance(r, 80) ? vrange(r, 0, 300) : vrange(r, -1000, 70000);
   emit_vq(XX, xX, cb, cbg, cl, subfr, maxg, L);
   free(cb); free(cbg); free(cl);
}
static void run_vq(uint64_t seed, long n, int wide)
{
   vrng r; long i;
   r.s = seed ^ 0x7EC15ULL; r.s = vnext(&r) + 1515;
   for (i = 0; i < n; i++) do_vq(&r, wide);
   printf("# vq cases=%ld wide=%d\n", g_cases, wide);
}

/* ------------------------------------------------------------------ dispatch tables */
typedef void (*fn)(void);
#define CAND(f) if (p == (fn)(f)) return #f;
static const char *name_of(fn p)
{
   if (p == (fn)0) return "null";
   CAND(celt_pitch_xcorr_c) CAND(celt_pitch_xcorr_avx2)
   CAND(xcorr_kernel_sse) CAND(celt_inner_prod_sse) CAND(dual_inner_prod_sse) CAND(comb_filter_const_sse)
   CAND(op_pvq_search_c) CAND(op_pvq_search_sse2)
   CAND(silk_inner_product_FLP_c) CAND(silk_inner_product_FLP_avx2)
   CAND(silk_VAD_GetSA_Q8_c) CAND(silk_VAD_GetSA_Q8_sse4_1)
   CAND(silk_NSQ_c) CAND(silk_NSQ_sse4_1)
   CAND(silk_NSQ_del_dec_c) CAND(silk_NSQ_del_dec_sse4_1) CAND(silk_NSQ_del_dec_avx2)
   CAND(silk_VQ_WMat_EC_c) CAND(silk_VQ_WMat_EC_sse4_1)
   return "unknown";
}
static void table(const char *name, const fn *t, unsigned long bytes)
{
   unsigned long n = bytes / sizeof(fn), i;
   for (i = 0; i < n; i++) {
      printf("I kernels dispatch %s %d %lu\n", name, OPUS_ARCHMASK, i);
      printf("O %s\n", name_of(t[i])); g_cases++;
   }
   if (n != OPUS_ARCHMASK + 1) { printf("I kernels dispatch %s %d %d\nO table-has-%lu-entries\n", name, OPUS_ARCHMASK, OPUS_ARCHMASK, n); g_cases++; }
}
#define TABLE(T) table(#T, (const fn *)(const void *)T, sizeof(T))
static void run_dispatch(void)
{
#if defined(OPUS_HAVE_RTCD)
# if !defined(FIXED_POINT) && defined(OPUS_X86_MAY_HAVE_AVX2) && !defined(OPUS_X86_PRESUME_AVX2)
   TABLE(PITCH_XCORR_IMPL);
# endif
# if !defined(OPUS_X86_PRESUME_AVX2)
   TABLE(SILK_VAD_GETSA_Q8_IMPL);
   TABLE(SILK_NSQ_IMPL);
   TABLE(SILK_VQ_WMAT_EC_IMPL);
   TABLE(SILK_NSQ_DEL_DEC_IMPL);
#  if !defined(FIXED_POINT)
   TABLE(SILK_INNER_PRODUCT_FLP_IMPL);
#  endif
# endif
#endif
   printf("# dispatch cases=%ld\n", g_cases);
}

/* ------------------------------------------------------------------ witness search (no model) */
static long s_cases = 0, s_viol = 0;
static long s_dist[16];
static const char *S_KIND[] = { "inner", "dual", "xcorr4", "pitchxcorr", "comb", "flp", "pvq" };
static double g_pvq_ppm = 0;       /* allowed relative deficit of the SSE2 search score, parts per million */
static double s_pvq_worst = 0;     /* largest observed deficit (reported for calibration) */
static long s_pvq_same = 0, s_pvq_n = 0;

static float rfloat(vrng *r, int emin, int emax)
{
   /* random sign, exponent uniform in [emin, emax], 24-bit random significand; 3 % exact zeros */
   double m; int e;
   if (vchance(r, 3)) return vchance(r, 50) ? 0.f : -0.f;
   m = 1.0 + (double)(vnext(r) >> 41) / 8388608.0;
   e = vrange(r, emin, emax);
   return (float)(vchance(r, 50) ? -ldexp(m, e) : ldexp(m, e));
}
static void fill_f(vrng *r, float *p, int n)
{
   int style = vbelow(r, 5), i, c = vrange(r, -20, 20);
   for (i = 0; i < n; i++) {
      if (style == 0) p[i] = rfloat(r, -40, 40);             /* wild dynamic range */
      else if (style == 1) p[i] = rfloat(r, c - 1, c + 1);    /* same scale: heavy cancellation */
      else if (style == 2) p[i] = (float)(sin(0.05 * i * (1 + c * 0.01)) * 0.7 + 0.01 * rfloat(r, -3, 0));
      else p[i] = rfloat(r, -16, 0);                          /* audio-like */
   }
}
static void viol(const char *kind, uint64_t sub, const char *exp_, const char *obs)
{
   s_viol++;
   if (s_viol <= 20) printf("V c15_kernels one %s %llu | %s | %s\n", kind, (unsigned long long)sub, exp_, obs);
}
static double gamma_n(int n, double u) { return (n * u) / (1.0 - n * u); }

static void search_one(int kind, uint64_t sub)
{
   vrng r; char eb[256], ob[256];
   const double u32 = ldexp(1.0, -24), u64 = ldexp(1.0, -53);
   r.s = sub;
   s_cases++; s_dist[kind]++;
   if (kind <= 3 || kind == 5) {
      int n = pick_len(&r), mp = kind == 3 ? (vchance(&r, 70) ? vrange(&r, 1, 40) : vrange(&r, 41, 300)) : 1, i, j;
      int ny, ax = vbelow(&r, 8), ay = vbelow(&r, 8);
      fblk X, Y, Y2; int *zx, *zy;
      if (kind == 2 && n < 3) n = 3;
      if (kind == 3 && n < 1) n = 1;
      if (kind == 3 && n > 700) n = 700;
      ny = kind == 2 ? n + 3 : (kind == 3 ? n + mp - 1 : n);
      zx = (int *)calloc(n + 1, sizeof(int)); zy = (int *)calloc(ny + 1, sizeof(int));
      X = fmake(zx, n, ax); Y = fmake(zy, ny, ay); Y2 = fmake(zy, ny, vbelow(&r, 8));
      free(zx); free(zy);
      fill_f(&r, X.p, n); fill_f(&r, Y.p, ny); fill_f(&r, Y2.p, ny);
      if (kind == 0 || kind == 1) {
         float c1, c2, s1, s2; long double a1 = 0, a2 = 0; double b1, b2;
         for (i = 0; i < n; i++) { a1 += fabsl((long double)X.p[i] * Y.p[i]); a2 += fabsl((long double)X.p[i] * Y2.p[i]); }
         if (kind == 0) { c1 = celt_inner_prod_c(X.p, Y.p, n); s1 = celt_inner_prod_sse(X.p, Y.p, n); c2 = s2 = 0; }
         else { dual_inner_prod_c(X.p, Y.p, Y2.p, n, &c1, &c2); dual_inner_prod_sse(X.p, Y.p, Y2.p, n, &s1, &s2); }
         b1 = 2 * gamma_n(n + 2, u32) * (double)a1; b2 = 2 * gamma_n(n + 2, u32) * (double)a2;
         if (!(fabs((double)c1 - s1) <= b1) || !(fabs((double)c2 - s2) <= b2)) {
            snprintf(eb, sizeof eb, "|sse - c| <= %.9g (n=%d, reassociation bound)", b1, n);
            snprintf(ob, sizeof ob, "c=%.9g sse=%.9g c2=%.9g sse2=%.9g", c1, s1, c2, s2);
            viol(S_KIND[kind], sub, eb, ob);
         }
      } else if (kind == 2) {
         float c[4], s[4];
         for (j = 0; j < 4; j++) c[j] = s[j] = rfloat(&r, -10, 10);
         xcorr_kernel_c(X.p, Y.p, c, n); xcorr_kernel_sse(X.p, Y.p, s, n);
         for (j = 0; j < 4; j++) {
            long double a = fabsl((long double)s[j]) + fabsl((long double)c[j]); double b;
            for (i = 0; i < n; i++) a += fabsl((long double)X.p[i] * Y.p[i + j]);
            b = 2 * gamma_n(n + 3, u32) * (double)a;
            if (!(fabs((double)c[j] - s[j]) <= b)) {
               snprintf(eb, sizeof eb, "|sse - c| <= %.9g (lag %d, len=%d)", b, j, n);
               snprintf(ob, sizeof ob, "c=%.9g sse=%.9g", c[j], s[j]);
               viol(S_KIND[kind], sub, eb, ob); break;
            }
         }
      } else if (kind == 3) {
         float *c = (float *)malloc(mp * sizeof(float)), *s = (float *)malloc(mp * sizeof(float));
         celt_pitch_xcorr_c(X.p, Y.p, c, n, mp, 0); celt_pitch_xcorr_avx2(X.p, Y.p, s, n, mp, 4);
         for (j = 0; j < mp; j++) {
            long double a = 0; double b;
            for (i = 0; i < n; i++) a += fabsl((long double)X.p[i] * Y.p[i + j]);
            b = 2 * gamma_n(n + 2, u32) * (double)a;
            if (!(fabs((double)c[j] - s[j]) <= b)) {
               snprintf(eb, sizeof eb, "|avx2 - c| <= %.9g (lag %d of %d, len=%d)", b, j, mp, n);
               snprintf(ob, sizeof ob, "c=%.9g avx2=%.9g", c[j], s[j]);
               viol(S_KIND[kind], sub, eb, ob); break;
            }
         }
         free(c); free(s);
      } else {
         double c = silk_inner_product_FLP_c(X.p, Y.p, n), s = silk_inner_product_FLP_avx2(X.p, Y.p, n), b;
         long double a = 0;
         for (i = 0; i < n; i++) a += fabsl((long double)X.p[i] * Y.p[i]);
         b = 2 * gamma_n(n + 2, u64) * (double)a;
         if (!(fabs(c - s) <= b)) {
            snprintf(eb, sizeof eb, "|avx2 - c| <= %.17g (n=%d)", b, n);
            snprintf(ob, sizeof ob, "c=%.17g avx2=%.17g", c, s);
            viol(S_KIND[kind], sub, eb, ob);
         }
      }
      ffree(X); ffree(Y); ffree(Y2);
   } else if (kind == 4) {
      int N = pick_len(&r) / 4 * 4, T = vchance(&r, 80) ? vrange(&r, 15, 200) : vrange(&r, 2, 1024), i;
      int nx; fblk X, YC, YS; int *z; float g10, g11, g12;
      if (N > 960) N = 960;
      nx = T + 2 + N;
      z = (int *)calloc(nx + 1, sizeof(int));
      X = fmake(z, nx, vbelow(&r, 8)); YC = fmake(z, N, vbelow(&r, 8)); YS = fmake(z, N, vbelow(&r, 8)); free(z);
      fill_f(&r, X.p, nx);
      g10 = rfloat(&r, -6, 0); g11 = rfloat(&r, -6, 0); g12 = rfloat(&r, -6, 0);
      comb_filter_const_c(YC.p, X.p + T + 2, T, N, g10, g11, g12);
      comb_filter_const_sse(YS.p, X.p + T + 2, T, N, g10, g11, g12);
      for (i = 0; i < N; i++) {
         const float *x = X.p + T + 2 + i;
         double a = fabs(x[0]) + fabs((double)g10 * x[-T]) + fabs((double)g11) * (fabs(x[-T + 1]) + fabs(x[-T - 1]))
                  + fabs((double)g12) * (fabs(x[-T + 2]) + fabs(x[-T - 2]));
         double b = 2 * gamma_n(6, u32) * a;
         if (!(fabs((double)YC.p[i] - YS.p[i]) <= b)) {
            snprintf(eb, sizeof eb, "|sse - c| <= %.9g at sample %d (T=%d N=%d)", b, i, T, N);
            snprintf(ob, sizeof ob, "c=%.9g sse=%.9g", YC.p[i], YS.p[i]);
            viol(S_KIND[kind], sub, eb, ob); break;
         }
      }
      ffree(X); ffree(YC); ffree(YS);
   } else {
      /* op_pvq_search: a unit-norm band of N samples, K pulses (the codec's ranges: N 2..176, K 1..128 with
         the PVQ codebook fitting 32 bits; here K <= 64) */
      int N = vchance(&r, 70) ? vrange(&r, 2, 32) : vrange(&r, 33, 176);
      int K = vchance(&r, 70) ? vrange(&r, 1, 12) : vrange(&r, 13, 64);
      float *X0 = (float *)malloc((N + 4) * sizeof(float)), *Xc = (float *)malloc((N + 4) * sizeof(float)), *Xs = (float *)malloc((N + 4) * sizeof(float));
      int *ic = (int *)malloc((N + 4) * sizeof(int)), *is = (int *)malloc((N + 4) * sizeof(int));
      int style = vbelow(&r, 6), i; double nrm = 0; float yc, ys;
      const char *bad = NULL; const char *who = "";
      for (i = 0; i < N; i++) {
         double v;
         if (style == 0) v = (double)vrange(&r, -1000, 1000);
         else if (style == 1) v = vchance(&r, 20) ? (double)vrange(&r, -1000, 1000) : 0.0;          /* sparse */
         else if (style == 2) v = (vchance(&r, 50) ? 1.0 : -1.0) * (1000.0 + vrange(&r, -2, 2));      /* near ties */
         else if (style == 3) v = (i == 0 ? 1000.0 : (double)vrange(&r, -30, 30));                    /* one dominant */
         else v = 1000.0 * exp(-0.2 * i) * (vchance(&r, 50) ? 1 : -1) + vrange(&r, -5, 5);
         X0[i] = (float)v; nrm += v * v;
      }
      if (nrm == 0) { X0[0] = 1.f; nrm = 1; }
      if (style == 5 && vchance(&r, 30)) { for (i = 0; i < N; i++) X0[i] = 0.f; nrm = 1; }            /* silence */
      for (i = 0; i < N; i++) X0[i] = (float)(X0[i] / sqrt(nrm));
      memcpy(Xc, X0, N * sizeof(float)); memcpy(Xs, X0, N * sizeof(float));
      for (i = 0; i < N + 4; i++) ic[i] = is[i] = 0;
      yc = op_pvq_search_c(Xc, ic, K, N, 0);
      ys = op_pvq_search_sse2(Xs, is, K, N, 0);
      {
         int t; const int *iy; float yy;
         for (t = 0; t < 2 && !bad; t++) {
            long sum = 0; double e = 0;
            iy = t ? is : ic; yy = t ? ys : yc; who = t ? "op_pvq_search_sse2" : "op_pvq_search_c";
            for (i = 0; i < N; i++) {
               sum += abs(iy[i]); e += (double)iy[i] * iy[i];
               if ((iy[i] > 0 && X0[i] < 0) || (iy[i] < 0 && X0[i] > 0)) bad = "a pulse has the opposite sign of its coefficient";
            }
            if (!bad && sum != K) bad = "sum |iy| != K";
            if (!bad && (double)yy != e) bad = "returned yy != sum iy^2";
         }
         if (!bad) {
            /* quality: cosine between X and the pulse vector; the SSE2 search may pick another pulse position at a
               near tie (it uses rsqrt), so its score may be lower by a tiny calibrated margin only */
            double cc = 0, cs = 0, ec = 0, es = 0, qc, qs, deficit; int same = 1;
            for (i = 0; i < N; i++) { cc += (double)X0[i] * ic[i]; cs += (double)X0[i] * is[i]; ec += (double)ic[i] * ic[i]; es += (double)is[i] * is[i]; if (ic[i] != is[i]) same = 0; }
            qc = cc / sqrt(ec); qs = cs / sqrt(es);
            s_pvq_n++; s_pvq_same += same;
            deficit = qc > 0 ? (qc - qs) / qc : 0;
            if (deficit > s_pvq_worst) s_pvq_worst = deficit;
            if (g_pvq_ppm > 0 && deficit * 1e6 > g_pvq_ppm) {
               snprintf(eb, sizeof eb, "score(sse2) >= score(c)*(1 - %.0f ppm) (N=%d K=%d)", g_pvq_ppm, N, K);
               snprintf(ob, sizeof ob, "score c=%.9g sse2=%.9g deficit=%.0f ppm", qc, qs, deficit * 1e6);
               viol("pvq", sub, eb, ob);
            }
         } else {
            snprintf(eb, sizeof eb, "sum|iy|=K, signs follow X, yy=sum iy^2 (N=%d K=%d)", N, K);
            snprintf(ob, sizeof ob, "%s: %s", who, bad);
            viol("pvq", sub, eb, ob);
         }
      }
      free(X0); free(Xc); free(Xs); free(ic); free(is);
   }
}

static void run_search(uint64_t seed, long n)
{
   vrng r; long i; int k;
   r.s = seed ^ 0x5EA7C15ULL; r.s = vnext(&r) + 150015;
   for (i = 0; i < n; i++) {
      uint64_t sub = vnext(&r);
      search_one((int)(i % 7), sub);
   }
   for (k = 0; k < 7; k++) printf("# dist search/%s %ld\n", S_KIND[k], s_dist[k]);
   printf("# pvq identical-pulse-vectors %ld of %ld; worst score deficit of sse2 vs c: %.1f ppm\n", s_pvq_same, s_pvq_n, s_pvq_worst * 1e6);
   printf("# search cases=%ld violations=%ld\n", s_cases, s_viol);
}


/* ------------------------------------------------------------------ replay of recorded lines */
static int parse_ints(const char *s, int **out)
{
   int n = 0, cap = 16; int *v = (int *)malloc(cap * sizeof(int));
   *out = v;
   if (!strcmp(s, "-")) return 0;
   while (*s) {
      char *e; long x = strtol(s, &e, 10);
      if (e == s) { return -1; }
      if (n == cap) { cap *= 2; v = (int *)realloc(v, cap * sizeof(int)); *out = v; }
      v[n++] = (int)x; s = e;
      if (*s == ',') s++;
   }
   return n;
}
static void run_stdin(void)
{
   static char line[1 << 22]; vrng r; r.s = 12345;
   while (fgets(line, sizeof line, stdin)) {
      char *tok[16]; int nt = 0; char *p = strtok(line, " \r\n");
      int *a = NULL, *b = NULL, *c = NULL, *d = NULL, *e = NULL; int na, nb, nc, nd, ne;
      while (p && nt < 16) { tok[nt++] = p; p = strtok(NULL, " \r\n"); }
      if (nt >= 1 && !strcmp(tok[0], "I")) { memmove(tok, tok + 1, (nt - 1) * sizeof(char *)); nt--; }
      if (nt < 2 || strcmp(tok[0], "kernels")) { printf("I %s\nO bad-line\n", nt ? tok[0] : ""); continue; }
      if (!strcmp(tok[1], "inner") && nt == 5) {
         na = parse_ints(tok[3], &a); nb = parse_ints(tok[4], &b);
         if (na >= 0 && na == nb) emit_inner(&r, a, b, na); else printf("O bad-line\n");
      } else if (!strcmp(tok[1], "dual") && nt == 6) {
         na = parse_ints(tok[3], &a); nb = parse_ints(tok[4], &b); nc = parse_ints(tok[5], &c);
         if (na >= 0 && na == nb && na == nc) emit_dual(&r, a, b, c, na); else printf("O bad-line\n");
      } else if (!strcmp(tok[1], "xcorr4") && nt == 7) {
         int len = atoi(tok[3]); na = parse_ints(tok[4], &a); nb = parse_ints(tok[5], &b); nc = parse_ints(tok[6], &c);
         if (na == len && nb == len + 3 && nc == 4) emit_xcorr4(&r, a, b, c, len); else printf("O bad-line\n");
      } else if (!strcmp(tok[1], "pitchxcorr") && nt == 7) {
         int len = atoi(tok[3]), mp = atoi(tok[4]); na = parse_ints(tok[5], &a); nb = parse_ints(tok[6], &b);
         if (na == len && mp > 0 && nb == len + mp - 1) emit_pitchxcorr(&r, a, b, len, mp); else printf("O bad-line\n");
      } else if ((!strcmp(tok[1], "comb") || !strcmp(tok[1], "combip")) && nt == 9) {
         int T = atoi(tok[3]), N = atoi(tok[4]), g[3]; g[0] = atoi(tok[5]); g[1] = atoi(tok[6]); g[2] = atoi(tok[7]);
         na = parse_ints(tok[8], &a);
         if (na == T + 2 + N && T >= 2) emit_comb(&r, a, g, T, N, !strcmp(tok[1], "combip")); else printf("O bad-line\n");
      } else if (!strcmp(tok[1], "flp") && nt == 5) {
         na = parse_ints(tok[3], &a); nb = parse_ints(tok[4], &b);
         if (na >= 0 && na == nb) emit_flp(&r, a, b, na); else printf("O bad-line\n");
      } else if (!strcmp(tok[1], "vqwmat") && nt == 11) {
         int L = atoi(tok[10]), i;
         na = parse_ints(tok[3], &a); nb = parse_ints(tok[4], &b); nc = parse_ints(tok[5], &c); nd = parse_ints(tok[6], &d); ne = parse_ints(tok[7], &e);
         if (na == 25 && nb == 5 && nc == 5 * L && nd == L && ne == L) {
            opus_int8 *cb = (opus_int8 *)malloc(5 * L + 1); opus_uint8 *cbg = (opus_uint8 *)malloc(L + 1), *cl = (opus_uint8 *)malloc(L + 1);
            unsigned char *t;
            for (i = 0; i < 5 * L; i++) cb[i] = (opus_int8)c[i];
            for (i = 0; i < L; i++) { cbg[i] = (opus_uint8)d[i]; cl[i] = (opus_uint8)e[i]; }
            t = vexact((unsigned char *)cb, 5 * L); free(cb); cb = (opus_int8 *)t;
            t = vexact(cbg, L); free(cbg); cbg = t; t = vexact(cl, L); free(cl); cl = t;
            emit_vq((opus_int32 *)a, (opus_int32 *)b, cb, cbg, cl, atoi(tok[8]), atoi(tok[9]), L);
            free(cb); free(cbg); free(cl);
         } else printf("O bad-line\n");
      } else if (!strcmp(tok[1], "dispatch")) {
         printf("I kernels dispatch (re-run `c15_kernels dispatch`)\nO skipped\n");
      } else printf("O bad-line\n");
      free(a); free(b); free(c); free(d); free(e);
      fflush(stdout);
   }
}

int main(int argc, char **argv)
{
   vinstall_traps();
   if (argc >= 5 && !strcmp(argv[1], "float")) run_float(strtoull(argv[2], 0, 10), atol(argv[3]), atoi(argv[4]));
   else if (argc >= 5 && !strcmp(argv[1], "vq")) run_vq(strtoull(argv[2], 0, 10), atol(argv[3]), atoi(argv[4]));
   else if (argc >= 2 && !strcmp(argv[1], "dispatch")) run_dispatch();
   else if (argc >= 4 && !strcmp(argv[1], "search")) { if (argc >= 5) g_pvq_ppm = atof(argv[4]); run_search(strtoull(argv[2], 0, 10), atol(argv[3])); }
   else if (argc >= 2 && !strcmp(argv[1], "stdin")) run_stdin();
   else if (argc >= 4 && !strcmp(argv[1], "one")) {
      int k, kind = -1;
      for (k = 0; k < 7; k++) if (!strcmp(argv[2], S_KIND[k])) kind = k;
      if (kind < 0) return 64;
      if (argc >= 5) g_pvq_ppm = atof(argv[4]);
      search_one(kind, strtoull(argv[3], 0, 10));
      printf("# search cases=%ld violations=%ld\n", s_cases, s_viol);
   }
   else { fprintf(stderr, "usage: c15_kernels float <seed> <n> <level> | vq <seed> <n> <wide> | dispatch | search <seed> <n> [ppm] | one <kind> <subseed> [ppm]\n"); return 64; }
   fflush(stdout);
   return 0;
}
