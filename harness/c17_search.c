/* c17_search.c — C17 witness search: the property predicates evaluated on the implementation alone
   (no model involved), through the REAL range coder of the library.
     pvq    : cwrsi/icwrs index round trip (exhaustive for small V, stratified otherwise) for every (N,K) of
              the static mode's pulse cache; encode_pulses -> bytes -> decode_pulses through ec_enc/ec_dec;
              the PVQ table against the U recurrence (64-bit sums, so a 32-bit overflow is seen)
     cache  : rows non-decreasing, bits = ceil-ish 8*log2 V(N,K) - 1 within the documented over-estimate
     icdf   : every ICDF table strictly decreasing / ends in 0 / first entry < 2^ftb; every symbol
              survives ec_enc_icdf -> bytes -> ec_dec_icdf
     laplace: ec_laplace_encode -> bytes -> ec_laplace_decode for every parameter pair of e_prob_model
              (and the _p0 variants)
   Usage:  c17_search <level> <seed>      prints `W suite|input|expected|observed|why`, `X sample`, `S cases=… `  */
#ifdef HAVE_CONFIG_H
#include "config.h"
#endif
#include "vcommon.h"
#include <math.h>
#include "celt/cwrs.c"           /* static icwrs/cwrsi + table; encode_pulses/decode_pulses of this TU use the library's ec_* */
#include "celt/quant_bands.c"    /* static e_prob_model, small_energy_icdf */
#include "celt/celt.h"
#include "celt/modes.h"
#include "celt/rate.h"
#include "celt/laplace.h"
#include "silk/tables.h"
#include "silk/structs.h"
#include "opus_custom.h"

#define MAXN 256
static long s_cases, s_wit, s_distinct;
static const CELTMode *mode;

static void witness(const char *suite, const char *input, const char *expected, const char *observed, const char *why)
{
   if (s_wit++ < 12) printf("W %s|%s|%s|%s|%s\n", suite, input, expected, observed, why);
}
/* the case in flight: a crash (wild table read, hardening assert) inside the code under test becomes a witness */
static char cur_suite[16] = "cwrs", cur_case[2400] = "(start-up)";
static void crash_handler(int sig)
{
   printf("W %s|%s|returns normally|%s|the implementation crashed on this input\n", cur_suite, cur_case,
          sig == SIGABRT ? "abort() (celt_assert / hardening)" : sig == SIGSEGV ? "SIGSEGV (wild memory access)" : "fatal signal");
   printf("S cases=%ld witnesses=%ld distinct=%ld\n", s_cases, s_wit + 1, s_distinct);
   fflush(stdout); _exit(0);
}
static int spr_y(char *o, int cap, const int *y, int n)
{
   int j, p = 0;
   for (j = 0; j < n && p < cap - 16; j++) p += snprintf(o + p, cap - p, "%s%d", j ? "," : "", y[j]);
   return p;
}

/* ------------------------------------------------------------------ PVQ */
static int check_index(int n, int k, opus_uint32 i)
{
   int y[MAXN], j; long sa = 0, sq = 0; opus_val32 yy; opus_uint32 back;
   char in[96], ob[2400], ys[2200];
   snprintf(cur_case, sizeof(cur_case), "dec %d %d %lu", n, k, (unsigned long)i);
   yy = cwrsi(n, k, i, y);
   for (j = 0; j < n; j++) { sa += abs(y[j]); sq += (long)y[j] * y[j]; }
   back = icwrs(n, y);
   s_cases++;
   if (sa == k && (long)yy == sq && back == i) return 0;
   spr_y(ys, sizeof(ys), y, n);
   snprintf(in, sizeof(in), "dec %d %d %lu", n, k, (unsigned long)i);
   snprintf(ob, sizeof(ob), "y=%s pulses=%ld yy=%ld(sum sq %ld) icwrs(y)=%lu", ys, sa, (long)yy, sq, (unsigned long)back);
   witness("cwrs", in, "a vector with exactly K pulses, yy = sum of squares, icwrs(y) = i", ob,
           "index -> vector -> index is not the identity (PVQ table / enumeration inconsistent)");
   return 1;
}

static void rand_y(vrng *r, int *y, int n, int k)
{
   int j, style = vbelow(r, 4), span = style == 0 ? n : (style == 1 ? 1 + (int)vbelow(r, n) : (style == 2 ? 2 : 1 + (int)vbelow(r, 4)));
   int base = vbelow(r, n), sg[MAXN];
   for (j = 0; j < n; j++) { y[j] = 0; sg[j] = vbelow(r, 2) ? 1 : -1; }
   if (span > n) span = n;
   for (j = 0; j < k; j++) { int p = (base + (int)vbelow(r, span)) % n; y[p] += sg[p]; }
}

/* several vectors through the real range coder */
static int check_coder(vrng *r, int n, int k)
{
   enum { NV = 6 };
   static unsigned char buf[4096];
   int ys[NV][MAXN], y2[MAXN], v, j; ec_enc enc; ec_dec dec;
   ec_enc_init(&enc, buf, sizeof(buf));
   for (v = 0; v < NV; v++) {
      int p;
      rand_y(r, ys[v], n, k);
      p = snprintf(cur_case, sizeof(cur_case), "enc %d ", k); spr_y(cur_case + p, (int)sizeof(cur_case) - p, ys[v], n);
      encode_pulses(ys[v], n, k, &enc);
   }
   ec_enc_done(&enc);
   if (ec_get_error(&enc)) return 0;
   ec_dec_init(&dec, buf, sizeof(buf));
   for (v = 0; v < NV; v++) {
      long sq = 0; opus_val32 yy;
      { int p = snprintf(cur_case, sizeof(cur_case), "decode_pulses after enc %d ", k); spr_y(cur_case + p, (int)sizeof(cur_case) - p, ys[v], n); }
      yy = decode_pulses(y2, n, k, &dec);
      for (j = 0; j < n; j++) sq += (long)ys[v][j] * ys[v][j];
      s_cases++;
      if (memcmp(ys[v], y2, n * sizeof(int)) != 0 || (long)yy != sq) {
         char in[2400], ob[2400], a[2200];
         spr_y(a, sizeof(a), ys[v], n); snprintf(in, sizeof(in), "enc %d %s", k, a);
         spr_y(a, sizeof(a), y2, n); snprintf(ob, sizeof(ob), "decode_pulses gives y=%s yy=%ld", a, (long)yy);
         witness("cwrs", in, "decode_pulses(encode_pulses(y)) = y through ec_enc/ec_dec", ob,
                 "pulse vector does not survive the encode/decode round trip on the real range coder");
         return 1;
      }
   }
   return 0;
}

/* last column stored in row r of CELT_PVQ_U_DATA */
static int row_last(int r)
{
   int rows = (int)(sizeof(CELT_PVQ_U_ROW) / sizeof(CELT_PVQ_U_ROW[0]));
   long end = r + 1 < rows ? (CELT_PVQ_U_ROW[r + 1] - CELT_PVQ_U_DATA) + (r + 1) : (long)(sizeof(CELT_PVQ_U_DATA) / sizeof(CELT_PVQ_U_DATA[0]));
   return (int)(end - (CELT_PVQ_U_ROW[r] - CELT_PVQ_U_DATA)) - 1;
}
static int in_tab(int a, int b) { int r = a < b ? a : b, c = a < b ? b : a; return r >= 0 && r < 15 && c <= row_last(r); }

static void check_table(void)
{
   int rows = (int)(sizeof(CELT_PVQ_U_ROW) / sizeof(CELT_PVQ_U_ROW[0])), r, c;
   for (r = 0; r < rows; r++) for (c = r; c <= row_last(r); c++) {
      uint64_t want; char in[64], ex[64], ob[64];
      if (r == 0) want = c == 0 ? 1 : 0;
      else {
         if (!in_tab(r - 1, c) || !in_tab(r, c - 1) || !in_tab(r - 1, c - 1)) continue;
         want = (uint64_t)CELT_PVQ_U(r - 1, c) + CELT_PVQ_U(r, c - 1) + CELT_PVQ_U(r - 1, c - 1);
      }
      s_cases++;
      if (want != CELT_PVQ_U_ROW[r][c]) {
         snprintf(in, sizeof(in), "U %d %d", r, c);
         snprintf(ex, sizeof(ex), "%llu", (unsigned long long)want);
         snprintf(ob, sizeof(ob), "%lu", (unsigned long)CELT_PVQ_U_ROW[r][c]);
         witness("cwrs", in, ex, ob, want >> 32 ? "U(N,K) does not fit 32 bits" : "table word violates U(N,K)=U(N-1,K)+U(N,K-1)+U(N-1,K-1)");
      }
   }
}

static void run_pvq(int level, vrng *r)
{
   opus_uint32 limit = level ? (1u << 24) : (1u << 20);
   int i, j, q, n, seen[MAXN], nb = mode->nbEBands, t;
   memset(seen, 0, sizeof(seen));
   for (i = 0; i <= mode->maxLM + 1; i++) for (j = 0; j < nb; j++) {
      const unsigned char *cache;
      n = ((mode->eBands[j + 1] - mode->eBands[j]) << i) >> 1;
      if (n < 2 || seen[n]) continue;
      seen[n] = 1;
      cache = mode->cache.bits + mode->cache.index[i * nb + j];
      for (q = 1; q <= cache[0]; q++) {
         int k = get_pulses(q), bad = 0;
         uint64_t v64 = (uint64_t)CELT_PVQ_U(n, k) + CELT_PVQ_U(n, k + 1);
         opus_uint32 v = CELT_PVQ_V(n, k), x;
         s_distinct++;
         if (v64 >> 32) {
            char in[64], ob[64]; snprintf(in, sizeof(in), "V %d %d", n, k); snprintf(ob, sizeof(ob), "%llu", (unsigned long long)v64);
            witness("cwrs", in, "< 2^32", ob, "V(N,K) of a cache entry overflows opus_uint32"); continue;
         }
         if (v <= limit) { for (x = 0; x < v && !bad; x++) bad = check_index(n, k, x); }
         else {
            for (t = 0; t < 20000 && !bad; t++) bad = check_index(n, k, (opus_uint32)(vnext(r) % v));
            for (x = 0; x < 512 && !bad; x++) { bad = check_index(n, k, x); if (!bad) bad = check_index(n, k, v - 1 - x); }
         }
         for (t = 0; t < 40 && !bad; t++) bad = check_coder(r, n, k);
      }
   }
   check_table();
}

/* ------------------------------------------------------------------ cache */
static void run_cache(void)
{
   int i, j, q, nb = mode->nbEBands;
   for (i = 0; i <= mode->maxLM + 1; i++) for (j = 0; j < nb; j++) {
      const unsigned char *cache; int n = ((mode->eBands[j + 1] - mode->eBands[j]) << i) >> 1;
      if (mode->cache.index[i * nb + j] < 0) continue;
      cache = mode->cache.bits + mode->cache.index[i * nb + j];
      for (q = 1; q <= cache[0]; q++) {
         int k = get_pulses(q);
         long double lv = log2l((long double)CELT_PVQ_U(n, k) + (long double)CELT_PVQ_U(n, k + 1));
         long double bits = (cache[q] + 1) / 8.0L;
         char in[64], ex[96], ob[64];
         s_cases++;
         snprintf(in, sizeof(in), "cache band=%d LM=%d q=%d (N=%d K=%d)", j, i - 1, q, n, k);
         if (q > 1 && cache[q] < cache[q - 1]) {
            snprintf(ob, sizeof(ob), "%d after %d", cache[q], cache[q - 1]);
            witness("cwrs", in, "row non-decreasing in the pulse count", ob, "bits-to-pulses cache row is not monotone");
         }
         if (bits < lv - 1e-9L || bits > lv + 0.25L) {
            snprintf(ex, sizeof(ex), "log2 V = %.4Lf <= (bits+1)/8 <= log2 V + 0.25", lv);
            snprintf(ob, sizeof(ob), "(bits+1)/8 = %.4Lf", bits);
            witness("cwrs", in, ex, ob, "cache entry inconsistent with V(N,K)");
         }
      }
   }
}

/* ------------------------------------------------------------------ ICDF */
static void check_icdf(const char *name, int idx, const unsigned char *t, int len, unsigned ftb)
{
   static unsigned char buf[256];
   char in[128], ob[128]; int s, ok = 1;
   snprintf(in, sizeof(in), "icdf %s[%d] len=%d ftb=%u", name, idx, len, ftb);
   strcpy(cur_suite, "icdf"); snprintf(cur_case, sizeof(cur_case), "%s", in);
   s_distinct++;
   if (len < 1 || t[0] >= (1u << ftb)) ok = 0;
   for (s = 1; s < len && ok; s++) if (t[s] >= t[s - 1]) ok = 0;
   if (ok && t[len - 1] != 0) ok = 0;
   s_cases++;
   if (!ok) {
      int p = 0; for (s = 0; s < len && p < 100; s++) p += snprintf(ob + p, sizeof(ob) - p, "%s%d", s ? "," : "", t[s]);
      witness("icdf", in, "strictly decreasing, last entry 0, first entry < 2^ftb", ob, "not a valid inverse-CDF table");
   }
   /* every symbol, twice in a row (so that the second one is decoded from a renormalised state) */
   for (s = 0; s < len; s++) {
      ec_enc enc; ec_dec dec; int a, b;
      if (s > 0 && t[s - 1] <= t[s]) {   /* zero-probability symbol: ec_enc_icdf would assert/corrupt; report instead */
         snprintf(ob, sizeof(ob), "symbol %d has icdf[%d]=%d <= icdf[%d]=%d", s, s - 1, t[s - 1], s, t[s]);
         witness("icdf", in, "every symbol has a non-empty interval", ob, "symbol cannot be coded");
         continue;
      }
      if (s == 0 && t[0] >= (1u << ftb)) continue;
      ec_enc_init(&enc, buf, sizeof(buf));
      ec_enc_icdf(&enc, s, t, ftb); ec_enc_icdf(&enc, s, t, ftb);
      ec_enc_done(&enc);
      ec_dec_init(&dec, buf, sizeof(buf));
      a = ec_dec_icdf(&dec, t, ftb); b = ec_dec_icdf(&dec, t, ftb);
      s_cases++;
      if (a != s || b != s) {
         snprintf(ob, sizeof(ob), "symbol %d decodes as %d,%d", s, a, b);
         witness("icdf", in, "ec_dec_icdf(ec_enc_icdf(s)) = s", ob, "symbol does not survive the range coder round trip");
      }
   }
}
#define ICDF1(a, ftb) check_icdf(#a, 0, a, (int)sizeof(a), ftb)

static void run_icdf(void)
{
   int i, p;
   ICDF1(trim_icdf, 7); ICDF1(spread_icdf, 5); ICDF1(tapset_icdf, 2); ICDF1(small_energy_icdf, 2);
   for (i = 0; i < 3; i++) check_icdf("silk_gain_iCDF", i, silk_gain_iCDF[i], sizeof(silk_gain_iCDF[0]), 8);
   ICDF1(silk_delta_gain_iCDF, 8); ICDF1(silk_pitch_lag_iCDF, 8); ICDF1(silk_pitch_delta_iCDF, 8);
   ICDF1(silk_pitch_contour_iCDF, 8); ICDF1(silk_pitch_contour_NB_iCDF, 8);
   ICDF1(silk_pitch_contour_10_ms_iCDF, 8); ICDF1(silk_pitch_contour_10_ms_NB_iCDF, 8);
   for (i = 0; i < N_RATE_LEVELS; i++) check_icdf("silk_pulses_per_block_iCDF", i, silk_pulses_per_block_iCDF[i], sizeof(silk_pulses_per_block_iCDF[0]), 8);
   for (i = 0; i < 2; i++) check_icdf("silk_rate_levels_iCDF", i, silk_rate_levels_iCDF[i], sizeof(silk_rate_levels_iCDF[0]), 8);
   for (p = 1; p <= SILK_MAX_PULSES; p++) {
      check_icdf("silk_shell_code_table0@p", p, &silk_shell_code_table0[silk_shell_code_table_offsets[p]], p + 1, 8);
      check_icdf("silk_shell_code_table1@p", p, &silk_shell_code_table1[silk_shell_code_table_offsets[p]], p + 1, 8);
      check_icdf("silk_shell_code_table2@p", p, &silk_shell_code_table2[silk_shell_code_table_offsets[p]], p + 1, 8);
      check_icdf("silk_shell_code_table3@p", p, &silk_shell_code_table3[silk_shell_code_table_offsets[p]], p + 1, 8);
   }
   for (i = 0; i < (int)sizeof(silk_sign_iCDF); i++) { unsigned char two[2]; two[0] = silk_sign_iCDF[i]; two[1] = 0; check_icdf("silk_sign_iCDF", i, two, 2, 8); }
   ICDF1(silk_stereo_pred_joint_iCDF, 8); ICDF1(silk_stereo_only_code_mid_iCDF, 8);
   check_icdf("silk_LBRR_flags_iCDF_ptr", 0, silk_LBRR_flags_iCDF_ptr[0], 3, 8);
   check_icdf("silk_LBRR_flags_iCDF_ptr", 1, silk_LBRR_flags_iCDF_ptr[1], 7, 8);
   ICDF1(silk_lsb_iCDF, 8); ICDF1(silk_LTPscale_iCDF, 8); ICDF1(silk_type_offset_VAD_iCDF, 8); ICDF1(silk_type_offset_no_VAD_iCDF, 8);
   ICDF1(silk_NLSF_interpolation_factor_iCDF, 8);
   ICDF1(silk_uniform3_iCDF, 8); ICDF1(silk_uniform4_iCDF, 8); ICDF1(silk_uniform5_iCDF, 8); ICDF1(silk_uniform6_iCDF, 8); ICDF1(silk_uniform8_iCDF, 8);
   ICDF1(silk_NLSF_EXT_iCDF, 8); ICDF1(silk_LTP_per_index_iCDF, 8);
   for (i = 0; i < NB_LTP_CBKS; i++) check_icdf("silk_LTP_gain_iCDF_ptrs", i, silk_LTP_gain_iCDF_ptrs[i], silk_LTP_vq_sizes[i], 8);
   {
      const silk_NLSF_CB_struct *cbs[2]; int c;
      cbs[0] = &silk_NLSF_CB_NB_MB; cbs[1] = &silk_NLSF_CB_WB;
      for (c = 0; c < 2; c++) {
         for (i = 0; i < 2; i++) check_icdf(c ? "silk_NLSF_CB_WB.CB1_iCDF" : "silk_NLSF_CB_NB_MB.CB1_iCDF", i, cbs[c]->CB1_iCDF + i * cbs[c]->nVectors, cbs[c]->nVectors, 8);
         for (i = 0; i < 8; i++) check_icdf(c ? "silk_NLSF_CB_WB.ec_iCDF" : "silk_NLSF_CB_NB_MB.ec_iCDF", i, cbs[c]->ec_iCDF + i * (2 * NLSF_QUANT_MAX_AMPLITUDE + 1), 2 * NLSF_QUANT_MAX_AMPLITUDE + 1, 8);
      }
   }
}

/* ------------------------------------------------------------------ Laplace through the real coder */
static void run_laplace(int level, vrng *r)
{
   static unsigned char buf[8192];
   int lm, intra, b, t, rounds = level ? 60 : 8;
   strcpy(cur_suite, "laplace");
   for (lm = 0; lm < 4; lm++) for (intra = 0; intra < 2; intra++) for (t = 0; t < rounds; t++) {
      int vals[21], got, bad = 0; ec_enc enc; ec_dec dec;
      ec_enc_init(&enc, buf, sizeof(buf));
      for (b = 0; b < 21; b++) {
         int mag = vchance(r, 70) ? (int)vbelow(r, 4) : (vchance(r, 80) ? (int)vbelow(r, 40) : (int)vbelow(r, 20000));
         vals[b] = vchance(r, 50) ? mag : -mag;
         snprintf(cur_case, sizeof(cur_case), "enc fs=%d decay=%d value=%d", e_prob_model[lm][intra][2 * b] << 7, e_prob_model[lm][intra][2 * b + 1] << 6, vals[b]);
         ec_laplace_encode(&enc, &vals[b], e_prob_model[lm][intra][2 * b] << 7, e_prob_model[lm][intra][2 * b + 1] << 6);
      }
      ec_enc_done(&enc);
      ec_dec_init(&dec, buf, sizeof(buf));
      for (b = 0; b < 21 && !bad; b++) {
         snprintf(cur_case, sizeof(cur_case), "decode after enc LM=%d intra=%d band=%d value=%d", lm, intra, b, vals[b]);
         got = ec_laplace_decode(&dec, e_prob_model[lm][intra][2 * b] << 7, e_prob_model[lm][intra][2 * b + 1] << 6);
         s_cases++;
         if (got != vals[b]) {
            char in[128], ex[64], ob[64];
            snprintf(in, sizeof(in), "laplace LM=%d intra=%d band=%d fs=%d decay=%d", lm, intra, b, e_prob_model[lm][intra][2 * b] << 7, e_prob_model[lm][intra][2 * b + 1] << 6);
            snprintf(ex, sizeof(ex), "%d (value after the encoder's clamping)", vals[b]); snprintf(ob, sizeof(ob), "%d", got);
            witness("laplace", in, ex, ob, "ec_laplace_decode does not invert ec_laplace_encode on the real range coder");
            bad = 1;
         }
      }
   }
   /* _p0 variants */
   for (t = 0; t < (level ? 20000 : 2000); t++) {
      int vals[16], n = 16, i, bad = 0; ec_enc enc; ec_dec dec;
      unsigned p0 = 1 + vbelow(r, 32766), decay = vbelow(r, 32768);
      ec_enc_init(&enc, buf, sizeof(buf));
      for (i = 0; i < n; i++) { vals[i] = vchance(r, 70) ? vrange(r, -9, 9) : vrange(r, -300, 300); ec_laplace_encode_p0(&enc, vals[i], (opus_uint16)p0, (opus_uint16)decay); }
      ec_enc_done(&enc);
      if (ec_get_error(&enc)) continue;
      ec_dec_init(&dec, buf, sizeof(buf));
      for (i = 0; i < n && !bad; i++) {
         int got = ec_laplace_decode_p0(&dec, (opus_uint16)p0, (opus_uint16)decay);
         s_cases++;
         if (got != vals[i]) {
            char in[128], ex[32], ob[32];
            snprintf(in, sizeof(in), "laplace_p0 p0=%u decay=%u value#%d", p0, decay, i);
            snprintf(ex, sizeof(ex), "%d", vals[i]); snprintf(ob, sizeof(ob), "%d", got);
            witness("laplace", in, ex, ob, "ec_laplace_decode_p0 does not invert ec_laplace_encode_p0");
            bad = 1;
         }
      }
   }
}

int main(int argc, char **argv)
{
   int level, err = 0; vrng r;
   if (argc < 3) { fprintf(stderr, "usage: c17_search <level> <seed>\n"); return 64; }
   level = atoi(argv[1]); r.s = strtoull(argv[2], NULL, 10) * 0x9E3779B97F4A7C15ULL + 17;
   mode = opus_custom_mode_create(48000, 960, &err);
   if (!mode) return 2;
   signal(SIGSEGV, crash_handler); signal(SIGABRT, crash_handler); signal(SIGBUS, crash_handler); signal(SIGFPE, crash_handler);
   run_pvq(level, &r);
   strcpy(cur_suite, "cwrs"); snprintf(cur_case, sizeof(cur_case), "cache rows");
   run_cache();
   run_icdf();
   run_laplace(level, &r);
   printf("X %ld (N,K) pairs and ICDF tables examined\n", s_distinct);
   printf("S cases=%ld witnesses=%ld distinct=%ld\n", s_cases, s_wit, s_distinct);
   return 0;
}
