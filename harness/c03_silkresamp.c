/* c03_silkresamp.c — correspondence + search harness for the SILK resampler (property C03, slice SilkResamp):
   silk_resampler_init / silk_resampler of the library against lean/OpusModel/SilkResamp.lean (suite `silkresamp`).
   Modes:  init                 every (Fs_in, Fs_out, forEnc) of a rate grid (accepted and rejected pairs; a rejected
                                pair runs in a forked child because celt_assert aborts in a hardened build), then the
                                same grid on a copy of silk/resampler.c compiled with celt_assert as a no-op (ret = -1)
           rand <seed> <n>      n call histories on accepted pairs: 1..5 consecutive calls, structured signals
           grid <seed>          every accepted pair x the block lengths the callers use (1 / 10 / 20 ms, ...)
           search <seed> <n>    no model: property predicates on the implementation (sample count written, chunk
                                invariance at whole-millisecond cuts, state fields constant); prints `W ...` per failure
   Every case prints `I silkresamp <op> ...` before the code runs and `O ...` after it. */
#include "vcommon.h"
#include <sys/types.h>
#include <sys/wait.h>
#include "SigProc_FIX.h"
#include "resampler_private.h"
#include "resampler_rom.h"

#if defined(ENABLE_HARDENING) || defined(ENABLE_ASSERTIONS)
#define HARD 1
#else
#define HARD 0
#endif

/* A second copy of silk/resampler.c compiled with celt_assert as a no-op (what a build without ENABLE_HARDENING /
   ENABLE_ASSERTIONS does): reaches the `return -1` paths of silk_resampler_init without aborting. */
#include "arch.h"
#undef celt_assert
#define celt_assert(cond) ((void)0)
#define silk_resampler_init vna_silk_resampler_init
#define silk_resampler vna_silk_resampler
opus_int vna_silk_resampler_init(silk_resampler_state_struct *S, opus_int32 Fs_Hz_in, opus_int32 Fs_Hz_out, opus_int forEnc);
opus_int vna_silk_resampler(silk_resampler_state_struct *S, opus_int16 out[], const opus_int16 in[], opus_int32 inLen);
#include "resampler.c"
#undef silk_resampler_init
#undef silk_resampler

static const int RATES5[5] = {8000, 12000, 16000, 24000, 48000};
static const int RATES3[3] = {8000, 12000, 16000};

static int coef_id(const silk_resampler_state_struct *S)
{
   if (S->Coefs == NULL) return 0;
   if (S->Coefs == silk_Resampler_3_4_COEFS) return 1;
   if (S->Coefs == silk_Resampler_2_3_COEFS) return 2;
   if (S->Coefs == silk_Resampler_1_2_COEFS) return 3;
   if (S->Coefs == silk_Resampler_1_3_COEFS) return 4;
   if (S->Coefs == silk_Resampler_1_4_COEFS) return 5;
   if (S->Coefs == silk_Resampler_1_6_COEFS) return 6;
   return 99;
}

static const char *kernel_name(const silk_resampler_state_struct *S)
{
   static char b[32];
   switch (S->resampler_function) {
   case 0: return "copy";
   case 1: return "up2hq";
   case 2: return "iirfir";
   case 3: sprintf(b, "downfir%d", S->FIR_Order); return b;
   default: return "unknown";
   }
}

static void pr_cfg(const silk_resampler_state_struct *S)
{
   printf("fn=%d batch=%d inv=%d order=%d fracs=%d fsin=%d fsout=%d delay=%d coef=%d", S->resampler_function,
          S->batchSize, S->invRatio_Q16, S->FIR_Order, S->FIR_Fracs, S->Fs_in_kHz, S->Fs_out_kHz, S->inputDelay, coef_id(S));
}

static void pr_dyn(const silk_resampler_state_struct *S)
{
   int i, n;
   printf("iir=");
   for (i = 0; i < SILK_RESAMPLER_MAX_IIR_ORDER; i++) printf("%s%d", i ? "," : "", S->sIIR[i]);
   printf(" fir=");
   n = (int)(sizeof(S->sFIR.i32) / sizeof(S->sFIR.i32[0]));
   if (S->resampler_function == 2) {
      /* i16 view; the bytes of the union it does not cover are appended when they are not all zero */
      int n16 = (int)(sizeof(S->sFIR.i16) / sizeof(S->sFIR.i16[0]));
      const unsigned char *p = (const unsigned char *)&S->sFIR;
      size_t k; int dirty = 0;
      for (i = 0; i < n16; i++) printf("%s%d", i ? "," : "", S->sFIR.i16[i]);
      for (k = sizeof(S->sFIR.i16); k < sizeof(S->sFIR); k++) dirty |= p[k];
      if (dirty) printf(",DIRTY");
   } else
      for (i = 0; i < n; i++) printf("%s%d", i ? "," : "", S->sFIR.i32[i]);
   printf(" dbuf=");
   for (i = 0; i < (int)(sizeof(S->delayBuf) / sizeof(S->delayBuf[0])); i++) printf("%s%d", i ? "," : "", S->delayBuf[i]);
}

/* ---------- init ---------- */
static int rate_ok(int fi, int fo, int enc)
{
   int i, a = 0, b = 0;
   if (enc) { for (i = 0; i < 5; i++) a |= fi == RATES5[i]; for (i = 0; i < 3; i++) b |= fo == RATES3[i]; }
   else { for (i = 0; i < 3; i++) a |= fi == RATES3[i]; for (i = 0; i < 5; i++) b |= fo == RATES5[i]; }
   return a && b;
}

static void do_init(int fi, int fo, int enc)
{
   silk_resampler_state_struct S;
   int ret;
   printf("I silkresamp init %d %d %d %d\n", fi, fo, enc, HARD);
   fflush(stdout);
   memset(&S, 0x5a, sizeof(S));
   if (!rate_ok(fi, fo, enc)) {
      /* may abort: run in a child, which prints the answer itself */
      pid_t pid = fork();
      if (pid == 0) {
         signal(SIGABRT, SIG_DFL);
         ret = silk_resampler_init(&S, fi, fo, enc);
         printf("O %s ret=%d ", ret == 0 ? kernel_name(&S) : "rejected", ret); pr_cfg(&S); printf(" "); pr_dyn(&S); printf("\n");
         fflush(stdout);
         _exit(0);
      } else {
         int st = 0;
         waitpid(pid, &st, 0);
         if (WIFSIGNALED(st) && WTERMSIG(st) == SIGABRT) printf("O ABORT\n");
         else if (!(WIFEXITED(st) && WEXITSTATUS(st) == 0)) printf("O CRASH status=%d\n", st);
      }
      return;
   }
   ret = silk_resampler_init(&S, fi, fo, enc);
   printf("O %s ret=%d ", ret == 0 ? kernel_name(&S) : "rejected", ret); pr_cfg(&S); printf(" "); pr_dyn(&S); printf("\n");
}

/* the same call on the assertion-free copy: return value and state of every pair, accepted or not */
static void do_init_noassert(int fi, int fo, int enc)
{
   silk_resampler_state_struct S;
   int ret;
   printf("I silkresamp init %d %d %d 0\n", fi, fo, enc);
   fflush(stdout);
   memset(&S, 0x5a, sizeof(S));
   ret = vna_silk_resampler_init(&S, fi, fo, enc);
   printf("O %s ret=%d ", ret == 0 ? kernel_name(&S) : "rejected", ret); pr_cfg(&S); printf(" "); pr_dyn(&S); printf("\n");
}

static void mode_init(void)
{
   static const int grid[] = {-8000, 0, 1, 4000, 7999, 8000, 8001, 11025, 12000, 16000, 22050, 24000, 32000, 44100, 48000,
                              48001, 96000, 192000, 2147483647};
   int n = (int)(sizeof(grid) / sizeof(grid[0])), i, j, e;
   for (e = 0; e < 2; e++) for (i = 0; i < n; i++) for (j = 0; j < n; j++) do_init(grid[i], grid[j], e);
   for (e = 0; e < 2; e++) for (i = 0; i < n; i++) for (j = 0; j < n; j++) do_init_noassert(grid[i], grid[j], e);
}

/* ---------- call histories ---------- */

/* number of samples the code is expected to write (independent of the model; used to size the exact output block) */
static long expect_out(const silk_resampler_state_struct *S, long inLen)
{
   long rem = inLen - S->Fs_in_kHz, N = S->Fs_out_kHz, n;
   if (S->resampler_function == 0) return S->Fs_out_kHz + rem;
   if (S->resampler_function == 1) return 2 * inLen;
   for (;;) {
      n = rem < S->batchSize ? rem : S->batchSize;
      N += (n * S->Fs_out_kHz + S->Fs_in_kHz - 1) / S->Fs_in_kHz;
      rem -= n;
      if (S->resampler_function == 3 ? rem > 1 : rem > 0) continue;
      break;
   }
   return N;
}

#define SENT_A ((opus_int16)0x5A5A)
#define SENT_B ((opus_int16)0xA5A7)
#define GUARD 64

/* one call on *S: runs it twice from the same state (two sentinel fills, the second into an exact-size block), returns
   the number of samples written, the output in *outp (malloc'd), updates *S; flags: bit0 = the two runs differ,
   bit1 = wrote more than expected (guard hit in the first run) */
static long call_once(silk_resampler_state_struct *S, const opus_int16 *in, long inLen, opus_int16 **outp, int *flags)
{
   silk_resampler_state_struct S1 = *S;
   long N = expect_out(S, inLen), cap = 6 * inLen + GUARD + N, i, wa, wb;
   opus_int16 *a = (opus_int16 *)malloc(cap * sizeof(opus_int16));
   opus_int16 *b = (opus_int16 *)malloc((N > 0 ? N : 1) * sizeof(opus_int16));
   opus_int16 *inx = (opus_int16 *)vexact((const unsigned char *)in, inLen * (long)sizeof(opus_int16));
   *flags = 0;
   for (i = 0; i < cap; i++) a[i] = SENT_A;
   for (i = 0; i < N; i++) b[i] = SENT_B;
   silk_resampler(&S1, a, inx, (opus_int32)inLen);
   for (wa = cap; wa > 0 && a[wa - 1] == SENT_A; wa--) ;
   if (wa > N) *flags |= 2;
   silk_resampler(S, b, inx, (opus_int32)inLen);
   for (wb = N; wb > 0 && b[wb - 1] == SENT_B; wb--) ;
   if (memcmp(&S1, S, sizeof(S1)) != 0) *flags |= 1;
   for (i = 0; i < (wa < wb ? wa : wb) && i < N; i++) if (a[i] != b[i]) *flags |= 1;
   free(a); free(inx);
   *outp = b;
   return wa > wb ? wa : wb;
}

static void do_hist(int fi, int fo, int enc, int ncalls, const long *lens, const opus_int16 *x, long total)
{
   silk_resampler_state_struct S;
   long off = 0, i; int c, ret;
   printf("I silkresamp hist %d %d %d ", fi, fo, enc);
   for (c = 0; c < ncalls; c++) printf("%s%ld", c ? "," : "", lens[c]);
   printf(" ");
   if (total == 0) printf("-");
   for (i = 0; i < total; i++) printf("%s%d", i ? "," : "", x[i]);
   printf("\n");
   fflush(stdout);
   ret = silk_resampler_init(&S, fi, fo, enc);
   if (ret != 0) { printf("O rejected ret=%d\n", ret); return; }
   printf("O %s ", kernel_name(&S)); pr_cfg(&S);
   for (c = 0; c < ncalls; c++) {
      opus_int16 *out; int fl; long N = expect_out(&S, lens[c]);
      long w = call_once(&S, x + off, lens[c], &out, &fl);
      /* the written count is reported as seen; samples are printed up to the expected count */
      printf(" | n=%ld out=", w);
      if (N == 0) printf("-");
      for (i = 0; i < N; i++) printf("%s%d", i ? "," : "", out[i]);
      if (fl & 1) printf(",NONDETERMINISTIC");
      if (fl & 2) printf(",OVERRUN");
      printf(" "); pr_dyn(&S);
      free(out);
      off += lens[c];
   }
   printf("\n");
}

/* ---------- signal generators ---------- */
static const char *SIGNAME[] = {"random", "fullscale+", "fullscale-", "alternate", "impulses", "walk", "zero", "small", "square", "mixed"};
#define NSIG 10
static void gen_signal(vrng *r, int kind, opus_int16 *x, long n)
{
   long i; int acc = 0, per;
   switch (kind) {
   case 0: for (i = 0; i < n; i++) x[i] = (opus_int16)(vnext(r) & 0xffff); break;
   case 1: for (i = 0; i < n; i++) x[i] = 32767; break;
   case 2: for (i = 0; i < n; i++) x[i] = -32768; break;
   case 3: for (i = 0; i < n; i++) x[i] = (i & 1) ? -32768 : 32767; break;
   case 4: for (i = 0; i < n; i++) x[i] = vchance(r, 3) ? (vchance(r, 50) ? 32767 : -32768) : 0; break;
   case 5: for (i = 0; i < n; i++) { acc += vrange(r, -3000, 3000); if (acc > 32767) acc = 32767; if (acc < -32768) acc = -32768; x[i] = (opus_int16)acc; } break;
   case 6: for (i = 0; i < n; i++) x[i] = 0; break;
   case 7: for (i = 0; i < n; i++) x[i] = (opus_int16)vrange(r, -2, 2); break;
   case 8: per = vrange(r, 2, 40); for (i = 0; i < n; i++) x[i] = ((i / per) & 1) ? -32768 : 32767; break;
   default:
      for (i = 0; i < n; i++) {
         int k = vbelow(r, 8);
         x[i] = k == 0 ? 32767 : k == 1 ? -32768 : k == 2 ? 0 : (opus_int16)(vnext(r) & 0xffff);
      }
   }
}

static void pick_pair(vrng *r, int *fi, int *fo, int *enc)
{
   *enc = vbelow(r, 2);
   if (*enc) { *fi = RATES5[vbelow(r, 5)]; *fo = RATES3[vbelow(r, 3)]; }
   else { *fi = RATES3[vbelow(r, 3)]; *fo = RATES5[vbelow(r, 5)]; }
}

/* a block length in samples at Fs_in (kHz = k): the lengths the callers use most of the time, edge lengths otherwise */
static long pick_len(vrng *r, int k)
{
   int c = vbelow(r, 100);
   if (c < 25) return 10 * k;
   if (c < 45) return 20 * k;
   if (c < 55) return k;                                  /* the 1 ms minimum */
   if (c < 70) return k * vrange(r, 1, 21);               /* whole milliseconds */
   if (c < 78) return 10 * k + 1;                         /* one sample left over after a full batch */
   if (c < 84) return 11 * k + vrange(r, 0, 2);           /* batch + 1 ms (+ a little) */
   if (c < 90) return k + vrange(r, 0, 3);
   return k + vbelow(r, 21 * k);
}

static void mode_rand(uint64_t seed, long n)
{
   vrng r; long it;
   static opus_int16 x[6 * 48 * 42];
   long hist[NSIG] = {0};
   r.s = seed * 0x9E3779B97F4A7C15ULL + 0x1234;
   for (it = 0; it < n; it++) {
      int fi, fo, enc, ncalls, c, kind; long lens[6], total = 0;
      pick_pair(&r, &fi, &fo, &enc);
      ncalls = vrange(&r, 1, 5);
      for (c = 0; c < ncalls; c++) { lens[c] = pick_len(&r, fi / 1000); total += lens[c]; }
      kind = vbelow(&r, NSIG); hist[kind]++;
      gen_signal(&r, kind, x, total);
      do_hist(fi, fo, enc, ncalls, lens, x, total);
   }
   printf("# signals:");
   { int k; for (k = 0; k < NSIG; k++) printf(" %s=%ld", SIGNAME[k], hist[k]); }
   printf("\n");
}

/* inLen = Fs_in_kHz - 1: the celt_assert of resampler.c:185 — only in a build where it aborts (otherwise the call
   would read outside in[]); runs in a forked child, the parent reports what happened */
static void do_short(int fi, int fo, int enc)
{
#if HARD
   silk_resampler_state_struct S;
   long n = fi / 1000 - 1, i;
   pid_t pid;
   printf("I silkresamp hist %d %d %d %ld ", fi, fo, enc, n);
   for (i = 0; i < n; i++) printf("%s%d", i ? "," : "", (int)(100 * i));
   printf("\n");
   fflush(stdout);
   silk_resampler_init(&S, fi, fo, enc);
   pid = fork();
   if (pid == 0) {
      opus_int16 in[48], out[600];
      signal(SIGABRT, SIG_DFL);
      fclose(stderr);
      for (i = 0; i < n; i++) in[i] = (opus_int16)(100 * i);
      silk_resampler(&S, out, in, (opus_int32)n);
      _exit(0);
   } else {
      int st = 0;
      waitpid(pid, &st, 0);
      printf("O %s ", kernel_name(&S)); pr_cfg(&S);
      if (WIFSIGNALED(st) && WTERMSIG(st) == SIGABRT) printf(" | ABORT\n");
      else printf(" | NO-ABORT status=%d\n", st);
   }
#else
   (void)fi; (void)fo; (void)enc;
#endif
}

static void mode_grid(uint64_t seed)
{
   vrng r; int e, i, j, v;
   static opus_int16 x[6 * 48 * 42];
   r.s = seed * 0x9E3779B97F4A7C15ULL + 0x777;
   for (e = 0; e < 2; e++)
      for (i = 0; i < (e ? 5 : 3); i++)
         for (j = 0; j < (e ? 3 : 5); j++) {
            int fi = e ? RATES5[i] : RATES3[i], fo = e ? RATES3[j] : RATES5[j], k = fi / 1000;
            do_short(fi, fo, e);
            for (v = 0; v < 4; v++) {
               long lens[4], total = 0; int c, nc = 3;
               if (v == 0) { lens[0] = 20 * k; lens[1] = 20 * k; lens[2] = 10 * k; }
               else if (v == 1) { lens[0] = 10 * k; lens[1] = k; lens[2] = 20 * k; }
               else if (v == 2) { lens[0] = k; lens[1] = k; lens[2] = 10 * k + 1; }
               else { lens[0] = 2 * k; lens[1] = 5 * k; lens[2] = 11 * k; lens[3] = 10 * k; nc = 4; }
               for (c = 0; c < nc; c++) total += lens[c];
               gen_signal(&r, v == 0 ? 0 : v == 1 ? 3 : v == 2 ? 9 : 5, x, total);
               do_hist(fi, fo, e, nc, lens, x, total);
            }
         }
}

/* ---------- search: predicates on the implementation alone ---------- */
static void pr_case(int fi, int fo, int enc, int ncalls, const long *lens, const opus_int16 *x, long total)
{
   long i; int c;
   printf("silkresamp hist %d %d %d ", fi, fo, enc);
   for (c = 0; c < ncalls; c++) printf("%s%ld", c ? "," : "", lens[c]);
   printf(" ");
   for (i = 0; i < total; i++) printf("%s%d", i ? "," : "", x[i]);
}

static void mode_search(uint64_t seed, long n)
{
   vrng r; long it, cases = 0, nw = 0;
   static opus_int16 x[6 * 48 * 42];
   long kinds[4] = {0};
   r.s = seed * 0x9E3779B97F4A7C15ULL + 0xBEEF;
   for (it = 0; it < n; it++) {
      int fi, fo, enc, kind, k, fl, ms1, ms2;
      silk_resampler_state_struct S0, S, T;
      long lens[2], total, w, w1, w2, N, i;
      opus_int16 *o, *o1, *o2;
      pick_pair(&r, &fi, &fo, &enc);
      k = fi / 1000;
      /* warm-up call so that the state is not the initial one */
      silk_resampler_init(&S0, fi, fo, enc);
      { long wl = pick_len(&r, k); opus_int16 *ow; gen_signal(&r, vbelow(&r, NSIG), x, wl); call_once(&S0, x, wl, &ow, &fl); free(ow); }
      /* (1) count written == the closed formula, for any length >= 1 ms; int16 range is by type */
      lens[0] = pick_len(&r, k); total = lens[0];
      kind = vbelow(&r, NSIG);
      gen_signal(&r, kind, x, total);
      S = S0;
      N = expect_out(&S, total);
      w = call_once(&S, x, total, &o, &fl);
      cases++; kinds[0]++;
      if (w != N || fl) {
         printf("W count "); pr_case(fi, fo, enc, 1, lens, x, total); printf(" => written=%ld expected=%ld flags=%d\n", w, N, fl); nw++;
      }
      /* (2) configuration fields are not changed by a call */
      if (S.resampler_function != S0.resampler_function || S.batchSize != S0.batchSize || S.invRatio_Q16 != S0.invRatio_Q16 ||
          S.FIR_Order != S0.FIR_Order || S.FIR_Fracs != S0.FIR_Fracs || S.Fs_in_kHz != S0.Fs_in_kHz ||
          S.Fs_out_kHz != S0.Fs_out_kHz || S.inputDelay != S0.inputDelay || S.Coefs != S0.Coefs) {
         printf("W config "); pr_case(fi, fo, enc, 1, lens, x, total); printf(" => configuration changed by the call\n"); nw++;
      }
      cases++; kinds[1]++;
      free(o);
      /* (3) whole-millisecond length => exactly inLen * Fs_out / Fs_in samples */
      ms1 = vrange(&r, 1, 20); ms2 = vrange(&r, 1, 20);
      total = (long)(ms1 + ms2) * k;
      gen_signal(&r, kind, x, total);
      S = S0; lens[0] = total;
      w = call_once(&S, x, total, &o, &fl);
      cases++; kinds[2]++;
      if (w != total * (fo / 1000) / k) {
         printf("W mscount "); pr_case(fi, fo, enc, 1, lens, x, total); printf(" => written=%ld expected=%ld\n", w, total * (fo / 1000) / k); nw++;
      }
      /* (4) chunk invariance at a whole-millisecond cut: one call on a ++ b == a call on a then a call on b */
      T = S0;
      w1 = call_once(&T, x, (long)ms1 * k, &o1, &fl);
      w2 = call_once(&T, x + (long)ms1 * k, (long)ms2 * k, &o2, &fl);
      cases++; kinds[3]++;
      {
         /* the live state: everything but delayBuf[ inputDelay .. ), which the next call overwrites before reading it */
         int bad = (w1 + w2 != w) || memcmp(T.sIIR, S.sIIR, sizeof(S.sIIR)) != 0 || memcmp(&T.sFIR, &S.sFIR, sizeof(S.sFIR)) != 0 ||
                   memcmp(T.delayBuf, S.delayBuf, S.inputDelay * sizeof(opus_int16)) != 0;
         for (i = 0; !bad && i < w1; i++) bad = o[i] != o1[i];
         for (i = 0; !bad && i < w2; i++) bad = o[w1 + i] != o2[i];
         if (bad) {
            lens[0] = (long)ms1 * k; lens[1] = (long)ms2 * k;
            printf("W chunk "); pr_case(fi, fo, enc, 2, lens, x, total); printf(" => one call on the concatenation differs (after a warm-up call)\n"); nw++;
         }
      }
      free(o); free(o1); free(o2);
   }
   printf("S cases=%ld count=%ld config=%ld mscount=%ld chunk=%ld witnesses=%ld\n", cases, kinds[0], kinds[1], kinds[2], kinds[3], nw);
}

int main(int argc, char **argv)
{
   vinstall_traps();
   if (argc >= 2 && !strcmp(argv[1], "init")) mode_init();
   else if (argc >= 4 && !strcmp(argv[1], "rand")) mode_rand(strtoull(argv[2], 0, 10), atol(argv[3]));
   else if (argc >= 3 && !strcmp(argv[1], "grid")) mode_grid(strtoull(argv[2], 0, 10));
   else if (argc >= 4 && !strcmp(argv[1], "search")) mode_search(strtoull(argv[2], 0, 10), atol(argv[3]));
   else { fprintf(stderr, "usage: c03_silkresamp init | rand <seed> <n> | grid <seed> | search <seed> <n>\n"); return 64; }
   return 0;
}
