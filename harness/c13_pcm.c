/* c13_pcm.c — correspondence + witness-search harness for C13 (16-bit / 24-bit / float PCM are
   interchangeable views of the same codec).
   Tie modes (I/O lines for `opusmodel check`, suite `pcm`):
      conv <level>          exhaustive int16 through INT16TORES / INT16TOSIG, 256*x through INT24TORES / INT24TOSIG,
                            (float)x/32768 through FLOAT2RES / FLOAT2SIG; level 1 adds every int16 a second way
      in24 <seed> <n>       boundary + random int32 through INT24TORES / INT24TOSIG
      out <seed> <n>        special + random float bit patterns through RES2INT16 / RES2INT24 / RES2FLOAT
      f2i16 <seed> <n>      arrays through celt_float2int16 at the arch level selected (OPUS_VERIF_ARCH_CAP)
   Search modes (property predicates on the implementation alone; `W suite | input | expected | observed | why`, `STAT`):
      enc <seed> <n>        three encoders, same settings, lsb_depth <= 16, fed int16 / 256*int16 / int16/32768
      dec <seed> <n>        three decoders fed the same packets: 24-bit = rint(float*2^23), 16-bit = soft clip, scale, round, saturate
      ms <seed> <n>         the same two relations through the multistream API
      proj <seed> <n>       projection decoder: 16-bit output vs float output, saturation                                   */
#include "vcommon.h"
#include <math.h>
#include "opus.h"
#include "opus_multistream.h"
#include "opus_projection.h"
#include "arch.h"
#include "float_cast.h"
#include "mathops.h"
#include "cpu_support.h"
#include "mapping_matrix.h"
#include "celt.h"
#include "analysis.h"

/* Link-time wrapper (-Wl,--wrap=run_analysis): records the lsb_depth the shared analysis is handed, so that the enc
   search can compare it across the three entry points ("the three formats hand the shared core identical
   arguments": OpusProps.C13.encode_formats_agree is about the model; this observes the code). */
static int g_ra_calls, g_ra_depth;
void __real_run_analysis(TonalityAnalysisState *analysis, const CELTMode *celt_mode, const void *analysis_pcm,
                 int analysis_frame_size, int frame_size, int c1, int c2, int C, opus_int32 Fs,
                 int lsb_depth, downmix_func downmix, AnalysisInfo *analysis_info);
void __wrap_run_analysis(TonalityAnalysisState *analysis, const CELTMode *celt_mode, const void *analysis_pcm,
                 int analysis_frame_size, int frame_size, int c1, int c2, int C, opus_int32 Fs,
                 int lsb_depth, downmix_func downmix, AnalysisInfo *analysis_info)
{
   g_ra_calls++; g_ra_depth = lsb_depth;
   __real_run_analysis(analysis, celt_mode, analysis_pcm, analysis_frame_size, frame_size, c1, c2, C, Fs, lsb_depth, downmix, analysis_info);
}

static uint32_t f2u(float f) { uint32_t u; memcpy(&u, &f, 4); return u; }
static float u2f(uint32_t u) { float f; memcpy(&f, &u, 4); return f; }
static double vunit(vrng *r) { return (double)(vnext(r) >> 11) / 9007199254740992.0; }
static double vsym(vrng *r) { return 2.0 * vunit(r) - 1.0; }

/* ---- the macros, wrapped exactly as the entry points use them (operand and result types included) */
static float w_int16tores(opus_int16 a) { opus_res r = INT16TORES(a); return r; }
static float w_int24tores(opus_int32 a) { opus_res r = INT24TORES(a); return r; }
static float w_float2res(float a) { opus_res r = FLOAT2RES(a); return r; }
static float w_int16tosig(opus_int16 a) { opus_val32 r = INT16TOSIG(a); return r; }
static float w_int24tosig(opus_int32 a) { opus_val32 r = INT24TOSIG(a); return r; }
static float w_float2sig(float a) { opus_val32 r = FLOAT2SIG(a); return r; }
static opus_int16 w_res2int16(float a) { return RES2INT16(a); }
static opus_int32 w_res2int24(float a) { return RES2INT24(a); }
static float w_res2float(float a) { return RES2FLOAT(a); }

static const char *sign_cls(long long k) { return k < 0 ? "neg" : k == 0 ? "zero" : "pos"; }

static void tie_in16(int x)
{
   printf("I pcm in16 %d\n", x);
   printf("O %s res=%u sig=%u\n", sign_cls(x), f2u(w_int16tores((opus_int16)x)), f2u(w_int16tosig((opus_int16)x)));
}
static void tie_in24(opus_int32 a)
{
   printf("I pcm in24 %d\n", a);
   printf("O %s res=%u sig=%u\n", sign_cls(a), f2u(w_int24tores(a)), f2u(w_int24tosig(a)));
}
static void tie_inf(uint32_t b)
{
   float f = u2f(b);
   int e = (b >> 23) & 255;
   printf("I pcm inf %u\n", b);
   printf("O %s res=%u sig=%u\n", e == 255 ? ((b & 0x7fffff) ? "nan" : "inf") : "finite", f2u(w_float2res(f)), f2u(w_float2sig(f)));
}
static void tie_out(uint32_t b)
{
   float f = u2f(b);
   int e = (b >> 23) & 255;
   opus_int16 i16; opus_int32 i24; const char *cls;
   printf("I pcm out %u\n", b);
   fflush(stdout);
   i16 = w_res2int16(f); i24 = w_res2int24(f);
   cls = e == 255 ? ((b & 0x7fffff) ? "nan" : "inf") : i24 == (-2147483647 - 1) ? "indefinite24" : (i16 == -32768 || i16 == 32767) ? "sat16" : i16 == 0 ? "tiny" : "mid";
   if (e == 255 && (b & 0x7fffff)) printf("O nan i16=any i24=%d f=%u\n", i24, f2u(w_res2float(f)));   /* NaN: see SuitePcm.lean */
   else printf("O %s i16=%d i24=%d f=%u\n", cls, i16, i24, f2u(w_res2float(f)));
}

static void run_conv(int level)
{
   int x;
   for (x = -32768; x <= 32767; x++) {
      tie_in16(x);
      tie_in24(256 * x);
      tie_inf(f2u((float)x / 32768.f));
      if (level) { tie_inf(f2u((float)x * (1.f / 32768.f))); tie_in24(x); }
   }
}

static const opus_int32 i24edges[] = {0, 1, -1, 255, 256, 257, -255, -256, 8388607, 8388608, -8388607, -8388608, -8388609, 8388609,
   16777215, 16777216, 16777217, 16777218, 16777219, -16777215, -16777216, -16777217, -16777219, 33554431, 33554433, 33554434, 33554435,
   0x7fffffff, 0x7fffffbf, 0x7fffffc0, 0x7fffff80, 0x7fffff7f, -0x7fffffff, -0x7fffffff - 1, 0x40000000, 0x40000040, 0x400000c0, 0x01000001, 0x01000003, 0x03000003};

static void run_in24(uint64_t seed, long n)
{
   vrng r; long k; unsigned i; r.s = seed ^ 0x1324;
   for (i = 0; i < sizeof(i24edges) / sizeof(i24edges[0]); i++) tie_in24(i24edges[i]);
   for (k = 0; k < n; k++) {
      int bits = vrange(&r, 1, 31);
      opus_int32 a = (opus_int32)(vnext(&r) & ((1u << bits) - 1u));
      if (vchance(&r, 30)) a |= 1 << (bits - 1);
      if (vchance(&r, 20)) a = (a & ~0xff) | (vchance(&r, 50) ? 0x80 : 0x7f + vbelow(&r, 3));   /* near rounding ties of the 24-bit mantissa */
      if (vchance(&r, 50)) a = -a;
      tie_in24(a);
   }
}

static const uint32_t fedges[] = {
   0x00000000, 0x80000000, 0x00000001, 0x80000001, 0x007fffff, 0x00800000, 0x807fffff, 0x80800000,   /* zeros, subnormals, least normal */
   0x3f800000, 0xbf800000, 0x3f7fffff, 0xbf7fffff, 0x3f800001, 0xbf800001, 0x3f7ffffe, 0x3f7fff00,     /* ±1, ±(1±ulp) */
   0x3f7ffe00, 0x3f7ffeff, 0x3f7ffe01, 0x3f7ffdff, 0x3f7fff00, 0x3f7fff01, 0xbf7fff00, 0xbf7fff01, 0xbf7fffff,   /* around 32767/32768 and 32767.5/32768 */
   0x37800000, 0x37000000, 0x37400000, 0x36ffffff, 0x37000001, 0xb7000000, 0xb7000001, 0x37c00000, 0x38200000,   /* 1, .5, .75, 1.5, 2.5 LSB16: ties */
   0x33800000, 0x33000000, 0x33000001, 0x32ffffff, 0x33c00000, 0x34200000, 0xb3000000, 0xb3000001, 0xb3c00000,   /* 1, .5, 1.5, 2.5 LSB24: ties */
   0x40000000, 0xc0000000, 0x437fffff, 0x43800000, 0x43800001, 0xc3800000, 0xc3800001, 0xc37fffff, 0x4b000000, 0x4b800000,   /* 2, 256 = 2^31/2^23 boundary */
   0x7f7fffff, 0xff7fffff, 0x7f800000, 0xff800000, 0x7fc00000, 0xffc00000, 0x7f800001, 0xffbfffff, 0x7fa00000, 0x70000000, 0xf0000000,
   0x4e800000, 0x4f000000, 0xcf000000, 0x5f000000, 0x73800000, 0x74000000, 0x77800000};

static uint32_t rand_float_bits(vrng *r)
{
   int k = vbelow(r, 10);
   uint32_t u = (uint32_t)vnext(r);
   if (k < 3) return u;                                                     /* any pattern */
   if (k < 6) return (u & 0x807fffff) | ((uint32_t)vrange(r, 100, 130) << 23);   /* audio range, 2^-27 .. 2^3 */
   if (k < 7) return (u & 0x807fffff) | ((uint32_t)vrange(r, 0, 2) << 23);       /* subnormal / tiny */
   if (k < 8) return (u & 0x807fffff) | ((uint32_t)vrange(r, 130, 160) << 23);   /* beyond int32 after scaling */
   if (k < 9) { /* exact half-integers of the 16-bit / 24-bit grid: rounding ties */
      int sc = vchance(r, 50) ? 16 : 24; double v = (vrange(r, -40000, 40000) + 0.5) / (sc == 16 ? 32768.0 : 8388608.0);
      if (sc == 24 && vchance(r, 50)) v = (vrange(r, -9000000, 9000000) + 0.5) / 8388608.0;
      return f2u((float)v); }
   return f2u((float)(vrange(r, -33000, 33000) / 32768.0) + (vchance(r, 50) ? 0.f : (float)(vsym(r) * 3e-5)));
}

static void run_out(uint64_t seed, long n)
{
   vrng r; long k; unsigned i; r.s = seed ^ 0x13007;
   for (i = 0; i < sizeof(fedges) / sizeof(fedges[0]); i++) tie_out(fedges[i]);
   for (i = 0; i < sizeof(fedges) / sizeof(fedges[0]); i++) tie_inf(fedges[i]);
   for (k = 0; k < n; k++) { uint32_t b = rand_float_bits(&r); tie_out(b); if ((k & 3) == 0) tie_inf(rand_float_bits(&r)); }
}

static void run_f2i16(uint64_t seed, long n)
{
   vrng r; long k; int i; r.s = seed ^ 0xF2116;
   int arch = opus_select_arch();
   printf("# celt_float2int16 at arch level %d\n", arch);
   for (k = 0; k < n; k++) {
      int cnt = vchance(&r, 80) ? vrange(&r, 0, 40) : vrange(&r, 41, 700);
      float *in = (float *)malloc(4 * (cnt ? cnt : 1)); short *out = (short *)malloc(2 * (cnt ? cnt : 1));
      for (i = 0; i < cnt; i++) in[i] = u2f(vchance(&r, 10) ? fedges[vbelow(&r, sizeof(fedges) / sizeof(fedges[0]))] : rand_float_bits(&r));
      printf("I pcm f2i16 "); vhex(stdout, (unsigned char *)in, 4L * cnt); printf("\n"); fflush(stdout);
      celt_float2int16(in, out, cnt, arch);
      printf("O n=%d ", cnt);
      for (i = 0; i < cnt; i++) { if (in[i] != in[i]) printf("%snan", i ? "," : ""); else printf("%s%d", i ? "," : "", out[i]); }
      printf("\n");
      free(in); free(out);
   }
}

/* one output sample of the projection 16-bit path: a 1 x K matrix, the output cleared, then one call of
   mapping_matrix_multiply_channel_out_short per decoded stream channel (as opus_projection_copy_channel_out_short does) */
static void tie_proj(const opus_int16 *m, const float *v, int K)
{
   int k; opus_int32 sz = mapping_matrix_get_size(1, K); MappingMatrix *mat = (MappingMatrix *)malloc(sz > 0 ? sz : 1);
   opus_int16 *out = (opus_int16 *)malloc(2); long long exact = 0;
   mapping_matrix_init(mat, 1, K, 0, m, 2 * K);
   printf("I pcm proj ");
   for (k = 0; k < K; k++) printf("%s%d", k ? "," : "", m[k]);
   printf(" "); vhex(stdout, (const unsigned char *)v, 4L * K); printf("\n"); fflush(stdout);
   *out = 0;
   for (k = 0; k < K; k++) {
      float *s = (float *)vexact((const unsigned char *)&v[k], 4);
      mapping_matrix_multiply_channel_out_short(mat, s, k, 1, out, 1, 1);
      exact += ((opus_int32)m[k] * w_res2int16(v[k]) + 16384) >> 15;
      free(s);
   }
   printf("O %s i16=%d\n", exact == *out ? "plain" : "saturated", *out);
   /* the float path on the same row and samples (finite samples only; the model's fmul/fadd do not cover inf/NaN) */
   { int fin = 1; float *fo = (float *)malloc(4); uint32_t u;
     for (k = 0; k < K; k++) if (!(fabsf(v[k]) < 1e30f)) fin = 0;
     if (fin) {
        printf("I pcm projf ");
        for (k = 0; k < K; k++) printf("%s%d", k ? "," : "", m[k]);
        printf(" "); vhex(stdout, (const unsigned char *)v, 4L * K); printf("\n"); fflush(stdout);
        *fo = 0;
        for (k = 0; k < K; k++) { float *s = (float *)vexact((const unsigned char *)&v[k], 4); mapping_matrix_multiply_channel_out_float(mat, s, k, 1, fo, 1, 1); free(s); }
        u = f2u(*fo);
        printf("O %s f=%u\n", (u & 0x7fffffffu) == 0 ? "zero" : ((u >> 23) & 255) == 255 ? "nonfinite" : "finite", u);
     }
     free(fo); }
   free(mat); free(out);
}

static void run_projtie(uint64_t seed, long n)
{
   vrng r; long c; r.s = seed ^ 0x9207;
   for (c = 0; c < n; c++) {
      int K = vchance(&r, 70) ? vrange(&r, 1, 6) : vrange(&r, 7, 18), k, mode = vbelow(&r, 5);
      opus_int16 m[18]; float v[18];
      for (k = 0; k < K; k++) {
         m[k] = (opus_int16)(mode == 0 ? vrange(&r, -32768, 32767) : mode == 1 ? (vchance(&r, 50) ? 32767 : -32768) : vrange(&r, -20000, 20000));
         if (mode == 3 && k < K / 2) m[k] = (opus_int16)vrange(&r, 20000, 32767);      /* push the running sum over the limit first ... */
         if (mode == 3 && k >= K / 2) m[k] = (opus_int16)vrange(&r, -32768, -20000);    /* ... then pull it back: clamp-per-step differs from clamp-at-end */
         v[k] = mode == 4 ? u2f(rand_float_bits(&r)) : (float)((mode == 3 ? 0.6 + 0.6 * vunit(&r) : 1.3 * vsym(&r)));
         if (vchance(&r, 3)) v[k] = u2f(fedges[vbelow(&r, sizeof(fedges) / sizeof(fedges[0]))]);
         if (v[k] != v[k]) v[k] = 0.f;   /* NaN samples are outside the property */
      }
      tie_proj(m, v, K);
   }
}

/* ================================================================== witness search */
static long n_wit;
static long case0;   /* first case index of a search run (argv[4]); a witness names its case, so `<mode> <seed> 1 <case>` replays it alone */
static void witness(const char *suite, const char *input, const char *expected, const char *observed, const char *why)
{
   n_wit++;
   if (n_wit <= 6) printf("W %s | %s | %s | %s | %s\n", suite, input, expected, observed, why);
}

/* independent reference conversions (double arithmetic, C library rounding in the default to-nearest-even mode) */
static opus_int16 my_f2i16(float v)
{
   double s = (double)v * 32768.0;
   if (!(s > -32768.0)) return -32768;
   if (!(s < 32767.0)) return 32767;
   return (opus_int16)nearbyint(s);
}
static int my_f2i24(float v, opus_int32 *out)   /* returns 0 when the scaled value does not fit an int32 */
{
   double s = nearbyint((double)v * 8388608.0);
   if (!(s >= -2147483648.0 && s <= 2147483647.0)) return 0;
   *out = (opus_int32)s; return 1;
}

static const int rates[] = {8000, 12000, 16000, 24000, 48000};
static const int durs48[] = {120, 240, 480, 960, 1920, 2880};

/* int16 test signal: tone / noise / bursts / full-scale edges / silence */
static void gen_int16(vrng *r, opus_int16 *pcm, int n, int ch, int kind, double *ph, int amp)
{
   int i, c;
   for (i = 0; i < n; i++) for (c = 0; c < ch; c++) {
      double v;
      switch (kind) {
      case 0: v = amp * sin(ph[c]); break;
      case 1: v = amp * (0.5 * sin(ph[c]) + 0.5 * vsym(r)); break;
      case 2: v = amp * vsym(r); break;
      case 3: v = ((i / 37) & 3) ? 0.02 * amp * vsym(r) : amp * sin(ph[c] * 3); break;
      case 4: v = vchance(r, 50) ? 32767 : -32768; if (vchance(r, 30)) v = vrange(r, -3, 3); break;
      case 6: v = floor(amp * sin(ph[c]) + 0.5 * amp * sin(ph[c] * 2.27) + .5) + vrange(r, -1, 1); break;   /* quiet tones; the only HF content is +-1 LSB of dither */
      default: v = 0;
      }
      ph[c] += (kind == 6 ? 0.0576 : 0.03) + 0.011 * c;
      if (v > 32767) v = 32767; if (v < -32768) v = -32768;
      pcm[i * ch + c] = (opus_int16)lrint(v);
   }
}
static void gen_float(vrng *r, float *pcm, int n, int ch, int kind, double *ph, double amp)
{
   int i, c;
   for (i = 0; i < n; i++) for (c = 0; c < ch; c++) {
      double v;
      switch (kind) {
      case 0: v = amp * sin(ph[c]); break;
      case 1: v = amp * (0.5 * sin(ph[c]) + 0.5 * vsym(r)); break;
      case 2: v = amp * vsym(r); break;
      case 3: v = ((i / 37) & 3) ? 0.02 * amp * vsym(r) : amp * sin(ph[c] * 3); break;
      default: v = 0;
      }
      ph[c] += 0.03 + 0.011 * c;
      pcm[i * ch + c] = (float)v;
   }
}

static int hexcmp(char *dst, int cap, const unsigned char *p, int n)
{
   int i, k = 0;
   for (i = 0; i < n && k + 3 < cap && i < 24; i++) k += snprintf(dst + k, cap - k, "%02x", p[i]);
   if (n > 24 && k + 4 < cap) k += snprintf(dst + k, cap - k, "..");
   return k;
}

static void set_common_ctls(vrng *r, int *br, int *cx, int *vbr, int *cvbr, int *depth, int *fec, int *dtx, int *sig)
{
   *br = vchance(r, 10) ? OPUS_BITRATE_MAX : 6000 + (int)vbelow(r, 250000);
   *cx = vrange(r, 0, 10); *vbr = vbelow(r, 2); *cvbr = vbelow(r, 2);
   *depth = vrange(r, 8, 16); *fec = vchance(r, 20); *dtx = vchance(r, 15);
   *sig = vchance(r, 60) ? OPUS_AUTO : (vchance(r, 50) ? OPUS_SIGNAL_VOICE : OPUS_SIGNAL_MUSIC);
}

/* ---- enc: the three entry points produce identical packets */
static void run_enc(uint64_t seed, long cases)
{
   long c, frames = 0, distinct_cfg = 0, bytes = 0, expert_cfg = 0, lookahead_frames = 0;
   unsigned char k16[4000], k24[4000], kf[4000];
   for (c = case0; c < case0 + cases; c++) {
      vrng r; int Fs, ch, app, br, cx, vbr, cvbr, depth, fec, dtx, sig, err, f, nframes, kind, amp, fsz, i, di, expert, look = 0, bufsz;
      OpusEncoder *e16, *e24, *ef; OpusEncoder *es[3]; double ph[2] = {0, 0.7};
      opus_int16 *s16; opus_int32 *p24; float *pf;
      char inp[460], exp[200], obs[200];
      static const int apps[] = {OPUS_APPLICATION_VOIP, OPUS_APPLICATION_AUDIO, OPUS_APPLICATION_RESTRICTED_LOWDELAY};
      static const int fdur[] = {OPUS_FRAMESIZE_2_5_MS, OPUS_FRAMESIZE_5_MS, OPUS_FRAMESIZE_10_MS, OPUS_FRAMESIZE_20_MS, OPUS_FRAMESIZE_40_MS, OPUS_FRAMESIZE_60_MS};
      r.s = seed * 1000003ULL + c;
      Fs = rates[vbelow(&r, 5)]; ch = vrange(&r, 1, 2); app = apps[vbelow(&r, 3)];
      set_common_ctls(&r, &br, &cx, &vbr, &cvbr, &depth, &fec, &dtx, &sig);
      /* expert frame duration: the encoder codes a fixed duration that is SHORTER than the buffer handed in, the rest of the
         buffer is look-ahead for the signal analysis (analysis_frame_size != frame_size in opus_encode_native); the caller
         advances by the coded duration.  Biased to configurations where the analysis runs (complexity >= 7, Fs >= 16 kHz). */
      expert = vchance(&r, 40);
      if (expert) {
         if (vchance(&r, 80)) cx = vrange(&r, 7, 10);
         if (vchance(&r, 80)) Fs = rates[vrange(&r, 2, 4)];
         if (vchance(&r, 70) && app == OPUS_APPLICATION_RESTRICTED_LOWDELAY) app = vchance(&r, 50) ? OPUS_APPLICATION_AUDIO : OPUS_APPLICATION_VOIP;
      }
      di = vbelow(&r, 6);
      if (expert && vchance(&r, 60)) di = vrange(&r, 2, 3);                      /* 10 / 20 ms */
      fsz = durs48[di] * (Fs / 1000) / 48;
      if (expert) look = vchance(&r, 70) ? fsz * vrange(&r, 1, 2) : (vchance(&r, 50) ? vrange(&r, 1, fsz) : 0);
      bufsz = fsz + look;
      kind = vbelow(&r, 6); amp = vchance(&r, 30) ? 32767 : vrange(&r, 50, 30000); nframes = vrange(&r, 5, 12);
      if (vchance(&r, 12)) {   /* LSB-noise profile: the analysis' noise floor / bandwidth detector depends on lsb_depth */
         kind = 6; amp = vrange(&r, 100, 1500); nframes = vrange(&r, 25, 60); Fs = vchance(&r, 80) ? 48000 : 24000; cx = vrange(&r, 7, 10);
         depth = vchance(&r, 70) ? 16 : vrange(&r, 12, 16); sig = OPUS_AUTO; dtx = 0; fec = 0;
         if (app == OPUS_APPLICATION_RESTRICTED_LOWDELAY) app = OPUS_APPLICATION_AUDIO;
         br = vchance(&r, 50) ? 32000 * ch : vrange(&r, 16000, 96000); vbr = 1;
         if (!expert) { di = 3; } fsz = durs48[di] * (Fs / 1000) / 48; if (expert) look = fsz; bufsz = fsz + look;
      }
      e16 = opus_encoder_create(Fs, ch, app, &err); e24 = opus_encoder_create(Fs, ch, app, &err); ef = opus_encoder_create(Fs, ch, app, &err);
      es[0] = e16; es[1] = e24; es[2] = ef;
      for (i = 0; i < 3; i++) {
         opus_encoder_ctl(es[i], OPUS_SET_BITRATE(br)); opus_encoder_ctl(es[i], OPUS_SET_COMPLEXITY(cx));
         opus_encoder_ctl(es[i], OPUS_SET_VBR(vbr)); opus_encoder_ctl(es[i], OPUS_SET_VBR_CONSTRAINT(cvbr));
         opus_encoder_ctl(es[i], OPUS_SET_LSB_DEPTH(depth)); opus_encoder_ctl(es[i], OPUS_SET_INBAND_FEC(fec));
         opus_encoder_ctl(es[i], OPUS_SET_PACKET_LOSS_PERC(fec ? 15 : 0)); opus_encoder_ctl(es[i], OPUS_SET_DTX(dtx));
         opus_encoder_ctl(es[i], OPUS_SET_SIGNAL(sig));
         if (expert) opus_encoder_ctl(es[i], OPUS_SET_EXPERT_FRAME_DURATION(fdur[di]));
      }
      distinct_cfg++; expert_cfg += expert;
      snprintf(inp, sizeof inp, "c13_pcm enc %llu: case %ld Fs=%d ch=%d app=%d bitrate=%d complexity=%d vbr=%d cvbr=%d lsb_depth=%d fec=%d dtx=%d signal=%d frame=%d expert_frame_duration=%d buffer=%d kind=%d amp=%d",
               (unsigned long long)seed, c, Fs, ch, app, br, cx, vbr, cvbr, depth, fec, dtx, sig, fsz, expert ? fdur[di] : OPUS_FRAMESIZE_ARG, bufsz, kind, amp);
      /* the whole stream up front (the look-ahead of call f is the audio of calls f+1, f+2) */
      s16 = (opus_int16 *)malloc(sizeof(opus_int16) * ((size_t)nframes * fsz + look + 1) * ch);
      p24 = (opus_int32 *)malloc(sizeof(opus_int32) * (size_t)(bufsz + 1) * ch); pf = (float *)malloc(sizeof(float) * (size_t)(bufsz + 1) * ch);
      for (f = 0; f < nframes; f++) {
         if (f == nframes / 2 && vchance(&r, 30)) kind = 5;   /* switch to digital silence mid-stream */
         gen_int16(&r, s16 + (size_t)f * fsz * ch, fsz, ch, kind, ph, amp);
      }
      if (look) gen_int16(&r, s16 + (size_t)nframes * fsz * ch, look, ch, kind, ph, amp);
      for (f = 0; f < nframes; f++) {
         int l16, l24, lf; opus_uint32 r16, r24, rf; const opus_int16 *p16 = s16 + (size_t)f * fsz * ch;
         for (i = 0; i < bufsz * ch; i++) { p24[i] = 256 * (opus_int32)p16[i]; pf[i] = (float)p16[i] / 32768.f; }
         int ra[3][2];
         g_ra_calls = 0; g_ra_depth = -1; l16 = opus_encode(e16, p16, bufsz, k16, sizeof k16); ra[0][0] = g_ra_calls; ra[0][1] = g_ra_depth;
         g_ra_calls = 0; g_ra_depth = -1; l24 = opus_encode24(e24, p24, bufsz, k24, sizeof k24); ra[1][0] = g_ra_calls; ra[1][1] = g_ra_depth;
         g_ra_calls = 0; g_ra_depth = -1; lf = opus_encode_float(ef, pf, bufsz, kf, sizeof kf); ra[2][0] = g_ra_calls; ra[2][1] = g_ra_depth;
         if (ra[0][0] != ra[1][0] || ra[0][0] != ra[2][0] || ra[0][1] != ra[1][1] || ra[0][1] != ra[2][1]) {
            snprintf(obs, sizeof obs, "frame %d: run_analysis calls %d/%d/%d with lsb_depth %d/%d/%d (opus_encode / opus_encode24 / opus_encode_float)",
                     f, ra[0][0], ra[1][0], ra[2][0], ra[0][1], ra[1][1], ra[2][1]);
            snprintf(exp, sizeof exp, "the signal analysis is handed the same lsb_depth (min(entry depth, OPUS_SET_LSB_DEPTH)) by all three entry points");
            witness("enc-formats-analysis-depth", inp, exp, obs, "with lsb_depth<=16 the three entry points must hand the shared core identical arguments; here the analysis sees different sample depths for the same audio");
            break;
         }
         opus_encoder_ctl(e16, OPUS_GET_FINAL_RANGE(&r16)); opus_encoder_ctl(e24, OPUS_GET_FINAL_RANGE(&r24)); opus_encoder_ctl(ef, OPUS_GET_FINAL_RANGE(&rf));
         frames++; if (look) lookahead_frames++;
         if (l16 > 0) bytes += l16;
         if (l16 != l24 || l16 != lf || (l16 > 0 && (memcmp(k16, k24, l16) || memcmp(k16, kf, l16))) || r16 != r24 || r16 != rf) {
            int k = snprintf(obs, sizeof obs, "frame %d: len16=%d len24=%d lenf=%d rng=%08x/%08x/%08x p16=", f, l16, l24, lf, r16, r24, rf);
            if (l16 > 0) k += hexcmp(obs + k, sizeof obs - k, k16, l16);
            snprintf(exp, sizeof exp, "byte-identical packets and final ranges from opus_encode / opus_encode24 / opus_encode_float");
            witness("enc-formats", inp, exp, obs, "the same audio as int16, int16*256 and int16/32768 with lsb_depth<=16 must give identical packets");
            break;
         }
      }
      free(s16); free(p24); free(pf);
      opus_encoder_destroy(e16); opus_encoder_destroy(e24); opus_encoder_destroy(ef);
   }
   printf("STAT cases=%ld configs=%ld expert_duration_configs=%ld frames_with_lookahead=%ld packet_bytes=%ld witnesses=%ld\n", frames, distinct_cfg, expert_cfg, lookahead_frames, bytes, n_wit);
}

/* ---- dec: the three decoder entry points on the same packet stream */
static void run_dec(uint64_t seed, long cases)
{
   long c, frames = 0, samples = 0, clipped = 0, lost = 0, sat = 0, n_resets = 0, n_resets_carrying = 0;
   static float pf[2880 * 2], of[5760 * 2], tmp[5760 * 2]; static opus_int16 o16[5760 * 2]; static opus_int32 o24[5760 * 2];
   unsigned char pkt[4000];
   for (c = case0; c < case0 + cases; c++) {
      vrng r; int Fs, ch, dFs, dch, app, br, cx, vbr, cvbr, depth, fec, dtx, sig, err, f, nframes, kind, fsz, i, lossy, resetting;
      double amp; OpusEncoder *enc; OpusDecoder *d16, *d24, *df; double ph[2] = {0, 0.7}; float mem[2] = {0, 0};
      char inp[400], exp[200], obs[240];
      r.s = seed * 1000003ULL + c + 0x0DEC;
      Fs = rates[vbelow(&r, 5)]; ch = vrange(&r, 1, 2); dFs = rates[vbelow(&r, 5)]; dch = vrange(&r, 1, 2);
      app = vchance(&r, 50) ? OPUS_APPLICATION_AUDIO : OPUS_APPLICATION_VOIP;
      set_common_ctls(&r, &br, &cx, &vbr, &cvbr, &depth, &fec, &dtx, &sig);
      fsz = durs48[vbelow(&r, 6)] * (Fs / 1000) / 48;
      kind = vbelow(&r, 5); amp = vchance(&r, 35) ? 1.0 + 0.6 * vunit(&r) : 0.02 + 0.9 * vunit(&r); nframes = vrange(&r, 5, 12);
      lossy = vchance(&r, 35);
      /* resetting streams: OPUS_RESET_STATE on the three decoders at random frame boundaries (the reference soft-clip memory is
         cleared at the same points: a reset decoder is a fresh decoder); biased to loud low-frequency content so that the soft
         clipper is carrying a coefficient across the boundary when the reset comes */
      resetting = vchance(&r, 45);
      if (resetting && vchance(&r, 75)) { amp = 1.1 + 0.7 * vunit(&r); if (vchance(&r, 70)) kind = vchance(&r, 70) ? 0 : 1; if (vchance(&r, 60)) lossy = 0; }
      enc = opus_encoder_create(Fs, ch, app, &err);
      opus_encoder_ctl(enc, OPUS_SET_BITRATE(br)); opus_encoder_ctl(enc, OPUS_SET_COMPLEXITY(cx)); opus_encoder_ctl(enc, OPUS_SET_VBR(vbr));
      opus_encoder_ctl(enc, OPUS_SET_INBAND_FEC(fec)); opus_encoder_ctl(enc, OPUS_SET_PACKET_LOSS_PERC(fec ? 20 : 0)); opus_encoder_ctl(enc, OPUS_SET_DTX(dtx));
      d16 = opus_decoder_create(dFs, dch, &err); d24 = opus_decoder_create(dFs, dch, &err); df = opus_decoder_create(dFs, dch, &err);
      snprintf(inp, sizeof inp, "c13_pcm dec %llu: case %ld Fs=%d ch=%d decoder %d Hz %d ch app=%d bitrate=%d complexity=%d vbr=%d fec=%d dtx=%d frame=%d kind=%d amp=%.3f lossy=%d resets=%d",
               (unsigned long long)seed, c, Fs, ch, dFs, dch, app, br, cx, vbr, fec, dtx, fsz, kind, amp, lossy, resetting);
      for (f = 0; f < nframes; f++) {
         int len, n16, n24, nf, lose = lossy && f > 1 && vchance(&r, 20), usefec = 0, maxfs = dFs / 25 * 3, plcfs = durs48[vbelow(&r, 6)] * (dFs / 1000) / 48;
         opus_uint32 r16, r24, rf;
         if (resetting && f > 0 && vchance(&r, 35)) {
            n_resets++; if (mem[0] != 0.f || mem[1] != 0.f) n_resets_carrying++;
            opus_decoder_ctl(d16, OPUS_RESET_STATE); opus_decoder_ctl(d24, OPUS_RESET_STATE); opus_decoder_ctl(df, OPUS_RESET_STATE);
            mem[0] = mem[1] = 0;
         }
         gen_float(&r, pf, fsz, ch, kind, ph, amp);
         len = opus_encode_float(enc, pf, fsz, pkt, sizeof pkt);
         if (len < 0) break;
         if (lose) { lost++; n16 = opus_decode(d16, NULL, 0, o16, plcfs, 0); n24 = opus_decode24(d24, NULL, 0, o24, plcfs, 0); nf = opus_decode_float(df, NULL, 0, of, plcfs, 0); }
         else { usefec = lossy && f > 2 && vchance(&r, 10);
                if (usefec) maxfs = fsz * dFs / Fs;
                n16 = opus_decode(d16, pkt, len, o16, maxfs, usefec); n24 = opus_decode24(d24, pkt, len, o24, maxfs, usefec); nf = opus_decode_float(df, pkt, len, of, maxfs, usefec); }
         opus_decoder_ctl(d16, OPUS_GET_FINAL_RANGE(&r16)); opus_decoder_ctl(d24, OPUS_GET_FINAL_RANGE(&r24)); opus_decoder_ctl(df, OPUS_GET_FINAL_RANGE(&rf));
         frames++;
         if (n16 != nf || n24 != nf || r16 != rf || r24 != rf) {
            snprintf(obs, sizeof obs, "frame %d (lost=%d fec=%d): counts int16=%d int24=%d float=%d, final range %08x/%08x/%08x", f, lose, usefec, n16, n24, nf, r16, r24, rf);
            witness("dec-count", inp, "equal sample counts and final ranges from opus_decode / opus_decode24 / opus_decode_float", obs, "the three decoder entry points must report the same sample count and final range");
            break;
         }
         if (nf <= 0) continue;
         samples += (long)nf * dch;
         for (i = 0; i < nf * dch; i++) {
            opus_int32 want;
            if (!my_f2i24(of[i], &want)) continue;
            if (want != o24[i]) { snprintf(obs, sizeof obs, "frame %d sample %d: float=%.9g (bits %08x) int24=%d", f, i, of[i], f2u(of[i]), o24[i]); snprintf(exp, sizeof exp, "%d = rint(float*2^23)", want);
               witness("dec24", inp, exp, obs, "24-bit output must be the float output scaled by 2^23 and rounded to nearest (ties to even)"); break; }
         }
         memcpy(tmp, of, 4L * nf * dch);
         if (!lose && !usefec) {
            /* normal decode call: float output through the library's soft clipper (own memory), then scale / round / saturate */
            opus_pcm_soft_clip(tmp, nf, dch, mem);
            for (i = 0; i < nf * dch; i++) if (f2u(tmp[i]) != f2u(of[i])) { clipped++; break; }
         }
         /* PLC (NULL packet) and FEC calls bypass the soft clipper in opus_decode_native (observation, see NOT_COVERED):
            there the promised relation is int16 = saturate(round(32768*float)), never a wrap */
         for (i = 0; i < nf * dch; i++) {
            opus_int16 want = my_f2i16(tmp[i]);
            if (want == 32767 || want == -32768) sat++;
            if (want != o16[i]) {
               snprintf(obs, sizeof obs, "frame %d sample %d (lost=%d fec=%d): float=%.9g%s int16=%d", f, i, lose, usefec, of[i], (lose || usefec) ? "" : " (after soft clip)", o16[i]);
               snprintf(exp, sizeof exp, "%d", want);
               witness((lose || usefec) ? "dec16-plc-saturate" : "dec16", inp, exp, obs,
                       (lose || usefec) ? "on PLC/FEC calls the 16-bit output must be saturate(round(32768*float)), never wrapped"
                                        : "16-bit output must be the float output passed through opus_pcm_soft_clip, scaled by 2^15, rounded to nearest even and saturated");
               break;
            }
         }
      }
      opus_encoder_destroy(enc); opus_decoder_destroy(d16); opus_decoder_destroy(d24); opus_decoder_destroy(df);
   }
   printf("STAT cases=%ld streams=%ld samples=%ld frames_soft_clipped=%ld lost_frames=%ld saturated_samples=%ld resets=%ld resets_with_softclip_state=%ld witnesses=%ld\n", frames, cases, samples, clipped, lost, sat, n_resets, n_resets_carrying, n_wit);
}

/* ---- ms: the same relations stream by stream through the multistream API */
static void run_ms(uint64_t seed, long cases)
{
   long c, frames = 0, samples = 0, clipped = 0, bytes = 0, n_custom = 0;
   static opus_int16 p16[960 * 8]; static opus_int32 p24[960 * 8]; static float pf[960 * 8];
   static float of[5760 * 8], ch1[5760]; static opus_int16 o16[5760 * 8]; static opus_int32 o24[5760 * 8];
   unsigned char k16[12000], k24[12000], kf[12000];
   for (c = case0; c < case0 + cases; c++) {
      vrng r; int Fs, ch, fam, streams, coupled, err, f, nframes, kind, amp, fsz, i, k, br, cx, vbr, cvbr, depth, fec, dtx, sig, custom;
      unsigned char mapping[8]; OpusMSEncoder *es[3]; OpusMSDecoder *d16, *d24, *df; double ph[8]; float mem[8];
      char inp[560], exp[200], obs[240];
      r.s = seed * 1000003ULL + c + 0x3157;
      Fs = rates[vbelow(&r, 5)];
      fam = vchance(&r, 70) ? 1 : (vchance(&r, 50) ? 0 : 255);
      ch = fam == 0 ? vrange(&r, 1, 2) : vrange(&r, 1, 8);
      set_common_ctls(&r, &br, &cx, &vbr, &cvbr, &depth, &fec, &dtx, &sig);
      if (br != OPUS_BITRATE_MAX) br = br / 3 * ch + 8000;
      fsz = durs48[vbelow(&r, 4)] * (Fs / 1000) / 48;
      kind = vbelow(&r, 6); amp = vchance(&r, 40) ? 32767 : vrange(&r, 50, 30000); nframes = vrange(&r, 4, 8);
      /* explicit layouts: any assignment of input channels to stream channels — permutations (a coupled stream whose RIGHT
         channel is input channel 0), duplicates, unused inputs (255) — with the analysis running; every input channel
         carries different content (own phase / own noise), so a down-mix that drops or swaps a channel changes the analysis */
      custom = vchance(&r, 50);
      if (custom) {
         int K, k, tries = 0; unsigned char perm[8];
         if (vchance(&r, 80)) { cx = vrange(&r, 7, 10); sig = OPUS_AUTO; }
         if (vchance(&r, 80)) Fs = rates[vrange(&r, 2, 4)];
         fsz = durs48[vbelow(&r, 4)] * (Fs / 1000) / 48;
         do { streams = vrange(&r, 1, 3); coupled = vrange(&r, 0, streams); K = streams + coupled; ch = K + (int)vbelow(&r, 3); } while ((ch > 8 || ch < 1) && ++tries < 50);
         if (ch > 8) ch = 8;
         for (i = 0; i < ch; i++) perm[i] = (unsigned char)i;
         for (i = ch - 1; i > 0; i--) { int j = vbelow(&r, i + 1); unsigned char t = perm[i]; perm[i] = perm[j]; perm[j] = t; }
         for (i = 0; i < ch; i++) mapping[i] = vchance(&r, 40) ? 255 : (unsigned char)vbelow(&r, K);   /* spare inputs: unused or duplicates */
         for (k = 0; k < K && k < ch; k++) mapping[perm[k]] = (unsigned char)k;                             /* every stream channel is fed */
         fam = -1;
         if (br != OPUS_BITRATE_MAX) br = 16000 * K + (int)vbelow(&r, 64000 * K);
         { int msapp = vchance(&r, 50) ? OPUS_APPLICATION_AUDIO : OPUS_APPLICATION_VOIP;
           for (i = 0; i < 3; i++) es[i] = opus_multistream_encoder_create(Fs, ch, streams, coupled, mapping, msapp, &err); }
      } else
      for (i = 0; i < 3; i++) es[i] = opus_multistream_surround_encoder_create(Fs, ch, fam, &streams, &coupled, mapping, OPUS_APPLICATION_AUDIO, &err);
      if (!es[0] || !es[1] || !es[2]) { for (i = 0; i < 3; i++) if (es[i]) opus_multistream_encoder_destroy(es[i]); continue; }
      for (i = 0; i < 3; i++) {
         opus_multistream_encoder_ctl(es[i], OPUS_SET_BITRATE(br)); opus_multistream_encoder_ctl(es[i], OPUS_SET_COMPLEXITY(cx));
         opus_multistream_encoder_ctl(es[i], OPUS_SET_VBR(vbr)); opus_multistream_encoder_ctl(es[i], OPUS_SET_VBR_CONSTRAINT(cvbr));
         opus_multistream_encoder_ctl(es[i], OPUS_SET_LSB_DEPTH(depth));
      }
      d16 = opus_multistream_decoder_create(Fs, ch, streams, coupled, mapping, &err);
      d24 = opus_multistream_decoder_create(Fs, ch, streams, coupled, mapping, &err);
      df = opus_multistream_decoder_create(Fs, ch, streams, coupled, mapping, &err);
      for (i = 0; i < 8; i++) { ph[i] = 0.4 * i; mem[i] = 0; }
      snprintf(inp, sizeof inp, "c13_pcm ms %llu: case %ld Fs=%d channels=%d family=%d streams=%d coupled=%d bitrate=%d complexity=%d vbr=%d cvbr=%d lsb_depth=%d frame=%d kind=%d amp=%d mapping=%d,%d,%d,%d,%d,%d,%d,%d",
               (unsigned long long)seed, c, Fs, ch, fam, streams, coupled, br, cx, vbr, cvbr, depth, fsz, kind, amp,
               mapping[0], ch > 1 ? mapping[1] : -1, ch > 2 ? mapping[2] : -1, ch > 3 ? mapping[3] : -1, ch > 4 ? mapping[4] : -1, ch > 5 ? mapping[5] : -1, ch > 6 ? mapping[6] : -1, ch > 7 ? mapping[7] : -1);
      n_custom += custom;
      for (f = 0; f < nframes; f++) {
         int l16, l24, lf, n16, n24, nf; opus_uint32 r16, r24, rf, q16, q24, qf;
         if (f > 0 && (c & 1) && vchance(&r, 30)) {   /* mid-stream reset of the three decoders; a reset decoder has a cleared soft-clip memory */
            opus_multistream_decoder_ctl(d16, OPUS_RESET_STATE); opus_multistream_decoder_ctl(d24, OPUS_RESET_STATE); opus_multistream_decoder_ctl(df, OPUS_RESET_STATE);
            for (i = 0; i < 8; i++) mem[i] = 0;
         }
         gen_int16(&r, p16, fsz, ch, kind, ph, amp);
         for (i = 0; i < fsz * ch; i++) { p24[i] = 256 * (opus_int32)p16[i]; pf[i] = (float)p16[i] / 32768.f; }
         l16 = opus_multistream_encode(es[0], p16, fsz, k16, sizeof k16);
         l24 = opus_multistream_encode24(es[1], p24, fsz, k24, sizeof k24);
         lf = opus_multistream_encode_float(es[2], pf, fsz, kf, sizeof kf);
         opus_multistream_encoder_ctl(es[0], OPUS_GET_FINAL_RANGE(&r16)); opus_multistream_encoder_ctl(es[1], OPUS_GET_FINAL_RANGE(&r24)); opus_multistream_encoder_ctl(es[2], OPUS_GET_FINAL_RANGE(&rf));
         frames++;
         if (l16 != l24 || l16 != lf || (l16 > 0 && (memcmp(k16, k24, l16) || memcmp(k16, kf, l16))) || r16 != r24 || r16 != rf) {
            snprintf(obs, sizeof obs, "frame %d: len16=%d len24=%d lenf=%d rng=%08x/%08x/%08x", f, l16, l24, lf, r16, r24, rf);
            witness("ms-enc-formats", inp, "byte-identical multistream packets from the three entry points", obs, "the same audio as int16, int16*256 and int16/32768 with lsb_depth<=16 must give identical packets");
            break;
         }
         if (l16 <= 0) break;
         bytes += l16;
         n16 = opus_multistream_decode(d16, k16, l16, o16, 5760, 0);
         n24 = opus_multistream_decode24(d24, k16, l16, o24, 5760, 0);
         nf = opus_multistream_decode_float(df, k16, l16, of, 5760, 0);
         opus_multistream_decoder_ctl(d16, OPUS_GET_FINAL_RANGE(&q16)); opus_multistream_decoder_ctl(d24, OPUS_GET_FINAL_RANGE(&q24)); opus_multistream_decoder_ctl(df, OPUS_GET_FINAL_RANGE(&qf));
         if (n16 != nf || n24 != nf || q16 != qf || q24 != qf || qf != r16) {
            snprintf(obs, sizeof obs, "frame %d: counts int16=%d int24=%d float=%d, decoder final range %08x/%08x/%08x, encoder %08x", f, n16, n24, nf, q16, q24, qf, r16);
            witness("ms-dec-count", inp, "equal sample counts and final ranges", obs, "the three multistream decoder entry points must report the same sample count and final range");
            break;
         }
         if (nf <= 0) continue;
         samples += (long)nf * ch;
         for (k = 0; k < ch; k++) {
            int bad = -1;
            /* every output channel is a copy of one decoded stream channel (or silence); the stream's soft clipper acts on
               that channel independently of its partner, so the relation is checked per output channel with that channel's memory */
            for (i = 0; i < nf; i++) ch1[i] = of[i * ch + k];
            opus_pcm_soft_clip(ch1, nf, 1, &mem[k]);
            for (i = 0; i < nf; i++) {
               opus_int32 w24; opus_int16 w16 = my_f2i16(ch1[i]);
               if (f2u(ch1[i]) != f2u(of[i * ch + k])) clipped++;
               if (my_f2i24(of[i * ch + k], &w24) && w24 != o24[i * ch + k]) { bad = i; snprintf(obs, sizeof obs, "frame %d channel %d sample %d: float=%.9g int24=%d", f, k, i, of[i * ch + k], o24[i * ch + k]); snprintf(exp, sizeof exp, "%d = rint(float*2^23)", w24);
                  witness("ms-dec24", inp, exp, obs, "24-bit multistream output must be the float output scaled by 2^23 and rounded to nearest"); break; }
               if (w16 != o16[i * ch + k]) { bad = i; snprintf(obs, sizeof obs, "frame %d channel %d sample %d: float=%.9g soft-clipped=%.9g int16=%d", f, k, i, of[i * ch + k], ch1[i], o16[i * ch + k]); snprintf(exp, sizeof exp, "%d", w16);
                  witness("ms-dec16", inp, exp, obs, "16-bit multistream output must be the stream's float output through the soft clipper, scaled, rounded, saturated"); break; }
            }
            if (bad >= 0) break;
         }
      }
      for (i = 0; i < 3; i++) opus_multistream_encoder_destroy(es[i]);
      opus_multistream_decoder_destroy(d16); opus_multistream_decoder_destroy(d24); opus_multistream_decoder_destroy(df);
   }
   printf("STAT cases=%ld configs=%ld samples=%ld samples_soft_clipped=%ld packet_bytes=%ld explicit_layouts=%ld witnesses=%ld\n", frames, cases, samples, clipped, bytes, n_custom, n_wit);
}

/* ---- proj: projection decoder, 16-bit output against the float output */
static opus_int32 clamp16(opus_int32 v) { return v < -32768 ? -32768 : v > 32767 ? 32767 : v; }

static void run_proj(uint64_t seed, long cases)
{
   long c, frames = 0, samples = 0, tracked = 0, saturating = 0;
   double worst = 0;
   static float pf[960 * 18], of[2880 * 18], sf[2880 * 18], s1[2880]; static opus_int16 o16[2880 * 18], s16[2880 * 18];
   static unsigned char modified[2880];
   unsigned char pkt[16000];
   static const int chans[] = {4, 4, 4, 6, 9, 11, 16, 18};
   for (c = case0; c < case0 + cases; c++) {
      vrng r; int Fs, ch, streams, coupled, K, err, f, nframes, kind, fsz, i, k, row, randmat; double amp;
      opus_int32 msize; unsigned char *mat; opus_int16 m[18 * 18]; unsigned char ident[255];
      OpusProjectionEncoder *enc; OpusProjectionDecoder *d16, *df; OpusMSDecoder *ds; double ph[18]; float mem[18];
      char inp[400], exp[200], obs[260];
      r.s = seed * 1000003ULL + c + 0x9801;
      Fs = vchance(&r, 70) ? 48000 : rates[vbelow(&r, 5)];
      ch = chans[vbelow(&r, sizeof(chans) / sizeof(chans[0]))];
      fsz = durs48[vbelow(&r, 4)] * (Fs / 1000) / 48;
      kind = vbelow(&r, 4); nframes = vrange(&r, 3, 6);
      amp = vchance(&r, 50) ? 0.02 + 0.25 * vunit(&r) : (vchance(&r, 50) ? 0.3 + 0.7 * vunit(&r) : 1.0 + 2.0 * vunit(&r));
      randmat = vchance(&r, 25);
      enc = opus_projection_ambisonics_encoder_create(Fs, ch, 3, &streams, &coupled, OPUS_APPLICATION_AUDIO, &err);
      if (!enc) continue;
      K = streams + coupled;
      opus_projection_encoder_ctl(enc, OPUS_SET_BITRATE(32000 * K + (int)vbelow(&r, 64000 * K)));
      opus_projection_encoder_ctl(enc, OPUS_PROJECTION_GET_DEMIXING_MATRIX_SIZE(&msize));
      mat = (unsigned char *)malloc(msize);
      opus_projection_encoder_ctl(enc, OPUS_PROJECTION_GET_DEMIXING_MATRIX(mat, msize));
      if (randmat) for (i = 0; i < msize; i++) if (vchance(&r, 40)) mat[i] = (unsigned char)vnext(&r);   /* the API accepts any caller-supplied demixing matrix */
      for (i = 0; i < K * ch; i++) { int s = mat[2 * i + 1] << 8 | mat[2 * i]; m[i] = (opus_int16)(((s & 0xFFFF) ^ 0x8000) - 0x8000); }   /* column-major: m[col*ch + row] */
      d16 = opus_projection_decoder_create(Fs, ch, streams, coupled, mat, msize, &err);
      df = opus_projection_decoder_create(Fs, ch, streams, coupled, mat, msize, &err);
      for (i = 0; i < K; i++) ident[i] = (unsigned char)i;
      ds = opus_multistream_decoder_create(Fs, K, streams, coupled, ident, &err);   /* exposes the decoded stream channels */
      for (i = 0; i < 18; i++) { ph[i] = 0.37 * i; mem[i] = 0; }
      snprintf(inp, sizeof inp, "c13_pcm proj %llu: case %ld Fs=%d channels=%d streams=%d coupled=%d frame=%d kind=%d amp=%.3f matrix=%s",
               (unsigned long long)seed, c, Fs, ch, streams, coupled, fsz, kind, amp, randmat ? "perturbed" : "encoder's demixing matrix");
      for (f = 0; f < nframes && d16 && df && ds; f++) {
         int len, n16, nf, ns, stop = 0;
         gen_float(&r, pf, fsz, ch, kind, ph, amp);
         len = opus_projection_encode_float(enc, pf, fsz, pkt, sizeof pkt);
         if (len <= 0) break;
         n16 = opus_projection_decode(d16, pkt, len, o16, 2880, 0);
         nf = opus_projection_decode_float(df, pkt, len, of, 2880, 0);
         ns = opus_multistream_decode_float(ds, pkt, len, sf, 2880, 0);
         frames++;
         if (n16 != nf || ns != nf) { snprintf(obs, sizeof obs, "frame %d: counts int16=%d float=%d streams=%d", f, n16, nf, ns); witness("proj-count", inp, "equal sample counts", obs, "projection decode entry points must report the same sample count"); break; }
         if (nf <= 0) continue;
         samples += (long)nf * ch;
         /* what the 16-bit path feeds the matrix: each decoded stream channel, soft-clipped (stream memory), scaled, rounded, saturated */
         memset(modified, 0, nf);
         for (k = 0; k < K; k++) {
            for (i = 0; i < nf; i++) s1[i] = sf[i * K + k];
            opus_pcm_soft_clip(s1, nf, 1, &mem[k]);
            for (i = 0; i < nf; i++) {
               s16[i * K + k] = my_f2i16(s1[i]);
               if (f2u(s1[i]) != f2u(sf[i * K + k]) || !(fabsf(s1[i]) * 32768.f < 32767.f)) modified[i] = 1;
            }
         }
         for (i = 0; i < nf && !stop; i++) for (row = 0; row < ch; row++) {
            long long total = 0; opus_int32 prog = 0; int partial_out = 0; double fl = (double)of[i * ch + row] * 32768.0;
            for (k = 0; k < K; k++) {
               opus_int32 term = ((opus_int32)m[k * ch + row] * s16[i * K + k] + 16384) >> 15;
               total += term; prog = clamp16(prog + term);
               if (total < -32768 || total > 32767) partial_out = 1;
            }
            if (partial_out) saturating++;
            /* never wraps: the output is the saturated sum (saturating once at the end or on every accumulation step) */
            if (o16[i * ch + row] != clamp16((opus_int32)(total < -100000 ? -100000 : total > 100000 ? 100000 : total)) && o16[i * ch + row] != prog) {
               snprintf(obs, sizeof obs, "frame %d sample %d channel %d: int16=%d, float=%.9g (x32768 = %.2f), exact sum of the rounded matrix products = %lld", f, i, row, o16[i * ch + row], of[i * ch + row], fl, total);
               snprintf(exp, sizeof exp, "%d (saturated sum)", clamp16((opus_int32)(total < -100000 ? -100000 : total > 100000 ? 100000 : total)));
               witness(partial_out ? "proj16-wrap" : "proj16", inp, exp, obs, partial_out ? "projection 16-bit output must saturate at the 16-bit limits, never wrap" : "projection 16-bit output must be the sum of the rounded matrix products of the 16-bit stream samples");
               stop = 1; break;
            }
            /* tracks the float output to within the rounding of the matrix products (when nothing was clipped on the way) */
            if (!modified[i] && !partial_out && fl > -32768.0 && fl < 32767.0) {
               double d = fabs(o16[i * ch + row] - fl), tol = K + 0.5;
               tracked++;
               if (d > worst) worst = d;
               if (d > tol) {
                  snprintf(obs, sizeof obs, "frame %d sample %d channel %d: int16=%d but float*32768=%.3f (difference %.3f)", f, i, row, o16[i * ch + row], fl, d);
                  snprintf(exp, sizeof exp, "|int16 - 32768*float| <= %d.5 (one rounding of the input and one of the product per matrix column)", K);
                  witness("proj16-track", inp, exp, obs, "projection 16-bit output must track the float output to within the rounding of the matrix products");
                  stop = 1; break;
               }
            }
         }
         if (stop) break;
      }
      free(mat);
      opus_projection_encoder_destroy(enc);
      if (d16) opus_projection_decoder_destroy(d16); if (df) opus_projection_decoder_destroy(df); if (ds) opus_multistream_decoder_destroy(ds);
   }
   printf("STAT cases=%ld configs=%ld samples=%ld samples_tracked=%ld samples_saturating=%ld worst_tracking_error_lsb=%.3f witnesses=%ld\n", frames, cases, samples, tracked, saturating, worst, n_wit);
}

/* stdin: re-run recorded tie lines (`pcm in16 x`, `pcm in24 a`, `pcm inf bits`, `pcm out bits`, `pcm f2i16 x<hex>`) */
static void run_stdin(void)
{
   static char line[1 << 16]; static unsigned char buf[1 << 15];
   int arch = opus_select_arch();
   while (fgets(line, sizeof line, stdin)) {
      char op[32], arg[1 << 15]; long n; int i;
      { char cells[512], hx[256]; if (sscanf(line, "pcm proj %511s %255s", cells, hx) == 2) {
           opus_int16 m[18]; float v[18]; int K = 0; char *t = strtok(cells, ",");
           while (t && K < 18) { m[K++] = (opus_int16)atoi(t); t = strtok(NULL, ","); }
           if (vunhex(hx, (unsigned char *)v, sizeof v) == 4L * K && K > 0) tie_proj(m, v, K);
           continue; } }
      if (sscanf(line, "pcm %31s %32767s", op, arg) != 2) continue;
      if (!strcmp(op, "in16")) tie_in16(atoi(arg));
      else if (!strcmp(op, "in24")) tie_in24((opus_int32)strtol(arg, 0, 10));
      else if (!strcmp(op, "inf")) tie_inf((uint32_t)strtoul(arg, 0, 10));
      else if (!strcmp(op, "out")) tie_out((uint32_t)strtoul(arg, 0, 10));
      else if (!strcmp(op, "f2i16") && (n = vunhex(arg, buf, sizeof buf)) >= 0 && n % 4 == 0) {
         int cnt = (int)(n / 4); float *in = (float *)malloc(n ? n : 1); short *out = (short *)malloc(2 * (cnt ? cnt : 1));
         memcpy(in, buf, n);
         printf("I pcm f2i16 %s\n", arg); fflush(stdout);
         celt_float2int16(in, out, cnt, arch);
         printf("O n=%d ", cnt);
         for (i = 0; i < cnt; i++) { if (in[i] != in[i]) printf("%snan", i ? "," : ""); else printf("%s%d", i ? "," : "", out[i]); }
         printf("\n"); free(in); free(out);
      }
   }
}

int main(int argc, char **argv)
{
   vinstall_traps();
   if (argc >= 5) case0 = atol(argv[4]);
   if (argc >= 2 && !strcmp(argv[1], "stdin")) { run_stdin(); return 0; }
   if (argc >= 3 && !strcmp(argv[1], "conv")) run_conv(atoi(argv[2]));
   else if (argc >= 4 && !strcmp(argv[1], "in24")) run_in24(strtoull(argv[2], 0, 10), atol(argv[3]));
   else if (argc >= 4 && !strcmp(argv[1], "out")) run_out(strtoull(argv[2], 0, 10), atol(argv[3]));
   else if (argc >= 4 && !strcmp(argv[1], "f2i16")) run_f2i16(strtoull(argv[2], 0, 10), atol(argv[3]));
   else if (argc >= 4 && !strcmp(argv[1], "projtie")) run_projtie(strtoull(argv[2], 0, 10), atol(argv[3]));
   else if (argc >= 4 && !strcmp(argv[1], "enc")) run_enc(strtoull(argv[2], 0, 10), atol(argv[3]));
   else if (argc >= 4 && !strcmp(argv[1], "dec")) run_dec(strtoull(argv[2], 0, 10), atol(argv[3]));
   else if (argc >= 4 && !strcmp(argv[1], "ms")) run_ms(strtoull(argv[2], 0, 10), atol(argv[3]));
   else if (argc >= 4 && !strcmp(argv[1], "proj")) run_proj(strtoull(argv[2], 0, 10), atol(argv[3]));
   else { fprintf(stderr, "usage: c13_pcm conv <level> | stdin | in24|out|f2i16 <seed> <n> | enc|dec|ms|proj <seed> <n> [first-case]\n"); return 64; }
   return 0;
}
