/* c17_laplace.c — correspondence harness + interval-level witness search for celt/laplace.c (C17).
   The real laplace.c is #included; the range-coder entry points it calls are replaced by capturing
   stubs, so ec_laplace_encode/decode(_p0) run unchanged against a range coder that records the
   (fl, fh) pair / returns a chosen fm.
   Modes:  tie <level> <seed>      correspondence stream for `opusmodel check` (suite `laplace`)
           search <level> <seed>   property predicates on the implementation alone (tiling, decode∘encode,
                                   legal-domain sweep); prints `W …` witness lines and a final `S …` line
           stdin                   answer `laplace …` lines read from stdin                          */
#ifdef HAVE_CONFIG_H
#include "config.h"
#endif
#include "vcommon.h"
#include "celt/entenc.h"
#include "celt/entdec.h"

static unsigned cap_fl, cap_fh, cap_bits, cap_ft, feed_fm;
static int cap_calls;
static void verif_encode_bin(ec_enc *e, unsigned fl, unsigned fh, unsigned bits) { (void)e; cap_fl = fl; cap_fh = fh; cap_bits = bits; cap_calls++; }
static unsigned verif_decode_bin(ec_dec *d, unsigned bits) { (void)d; cap_bits = bits; return feed_fm; }
static void verif_dec_update(ec_dec *d, unsigned fl, unsigned fh, unsigned ft) { (void)d; cap_fl = fl; cap_fh = fh; cap_ft = ft; cap_calls++; }
/* _p0 variants: record / replay 16-bit ICDF symbols */
#define MAXSYM 8192
static int sym_s[MAXSYM], nsym, sym_pos;
static unsigned short sym_icdf[2][8]; static int sym_icdf_len[2], sym_ftb;
static void note_icdf(const opus_uint16 *icdf, int which) {
   int n = which ? 8 : 3;                               /* sign_icdf[3], icdf[8] in laplace.c */
   sym_icdf_len[which] = n; memcpy(sym_icdf[which], icdf, n * sizeof(opus_uint16));
}
static void verif_enc_icdf16(ec_enc *e, int s, const opus_uint16 *icdf, unsigned ftb) {
   (void)e; sym_ftb = ftb; note_icdf(icdf, nsym ? 1 : 0); if (nsym < MAXSYM) sym_s[nsym++] = s;
}
static int verif_dec_icdf16(ec_dec *d, const opus_uint16 *icdf, unsigned ftb) {
   (void)d; sym_ftb = ftb; note_icdf(icdf, sym_pos ? 1 : 0);
   return sym_pos < nsym ? sym_s[sym_pos++] : (sym_pos++, 0);
}
#define ec_encode_bin verif_encode_bin
#define ec_decode_bin verif_decode_bin
#define ec_dec_update verif_dec_update
#define ec_enc_icdf16 verif_enc_icdf16
#define ec_dec_icdf16 verif_dec_icdf16
#include "celt/laplace.c"
#undef ec_encode_bin
#undef ec_decode_bin
#undef ec_dec_update
#undef ec_enc_icdf16
#undef ec_dec_icdf16
/* e_prob_model is static in quant_bands.c */
#include "celt/quant_bands.c"

static uint64_t mix(uint64_t h, int64_t v) { return (h ^ (uint64_t)v) * 0x100000001b3ULL; }

static void op_enc(unsigned fs, int decay, int v)
{
   int val = v;
   printf("I laplace enc %u %d %d\n", fs, decay, v); fflush(stdout);
   ec_laplace_encode(NULL, &val, fs, decay);
   printf("O fl=%u fh=%u value=%d\n", cap_fl, cap_fh, val);
}
static void op_dec(unsigned fs, int decay, unsigned fm)
{
   int val;
   printf("I laplace dec %u %d %u\n", fs, decay, fm); fflush(stdout);
   feed_fm = fm;
   val = ec_laplace_decode(NULL, fs, decay);
   printf("O val=%d fl=%u fh=%u\n", val, cap_fl, cap_fh);
}
static void op_decall(unsigned fs, int decay)
{
   uint64_t h = 0xcbf29ce484222325ULL; unsigned fm, last = 0; long syms = 0;
   printf("I laplace decall %u %d\n", fs, decay); fflush(stdout);
   for (fm = 0; fm < 32768; fm++) {
      int val; feed_fm = fm;
      val = ec_laplace_decode(NULL, fs, decay);
      h = mix(mix(mix(h, val), cap_fl), cap_fh);
      if (fm == 0 || cap_fl != last) syms++;
      last = cap_fl;
   }
   printf("O h=%016llx syms=%ld\n", (unsigned long long)h, syms);
}
static void op_encall(unsigned fs, int decay, int lo, int hi)
{
   uint64_t h = 0xcbf29ce484222325ULL; int v;
   printf("I laplace encall %u %d %d %d\n", fs, decay, lo, hi); fflush(stdout);
   for (v = lo; v <= hi; v++) {
      int val = v;
      ec_laplace_encode(NULL, &val, fs, decay);
      h = mix(mix(mix(h, cap_fl), cap_fh), val);
   }
   printf("O h=%016llx\n", (unsigned long long)h);
}
static void pr_icdf(int which) { int i; for (i = 0; i < sym_icdf_len[which]; i++) printf("%s%u", i ? "," : "", (unsigned)sym_icdf[which][i]); }
static void op_p0enc(unsigned p0, unsigned decay, int v)
{
   int i;
   printf("I laplace p0enc %u %u %d\n", p0, decay, v); fflush(stdout);
   nsym = 0;
   ec_laplace_encode_p0(NULL, v, (opus_uint16)p0, (opus_uint16)decay);
   printf("O sign="); pr_icdf(0); printf(" s=%d mag=", sym_s[0]);
   if (nsym > 1) pr_icdf(1); else printf("-");
   printf(" syms=");
   if (nsym > 1) for (i = 1; i < nsym; i++) printf("%s%d", i > 1 ? "," : "", sym_s[i]); else printf("-");
   printf("\n");
}
static void op_p0dec(unsigned p0, unsigned decay, const int *syms, int n)
{
   int i, v;
   printf("I laplace p0dec %u %u %d ", p0, decay, syms[0]);
   if (n > 1) for (i = 1; i < n; i++) printf("%s%d", i > 1 ? "," : "", syms[i]); else printf("-");
   printf("\n"); fflush(stdout);
   memcpy(sym_s, syms, n * sizeof(int)); nsym = n; sym_pos = 0;
   v = ec_laplace_decode_p0(NULL, (opus_uint16)p0, (opus_uint16)decay);
   printf("O value=%d used=%d sign=", v, sym_pos - 1); pr_icdf(0); printf(" mag=");
   if (sym_pos > 1) pr_icdf(1); else printf("-");
   printf("\n");
}

/* ---- parameter pairs of the energy model */
static int pair_fs[512], pair_decay[512], npairs;
static void collect_pairs(void)
{
   int lm, intra, b, i;
   for (lm = 0; lm < 4; lm++) for (intra = 0; intra < 2; intra++) for (b = 0; b < 21; b++) {
      int fs = e_prob_model[lm][intra][2 * b] << 7, decay = e_prob_model[lm][intra][2 * b + 1] << 6;
      for (i = 0; i < npairs; i++) if (pair_fs[i] == fs && pair_decay[i] == decay) break;
      if (i == npairs) { pair_fs[npairs] = fs; pair_decay[npairs] = decay; npairs++; }
   }
}

static void run_tie(int level, uint64_t seed)
{
   vrng r; int i, t;
   r.s = seed;
   collect_pairs();
   for (i = 0; i < npairs; i++) {
      unsigned fs = pair_fs[i]; int decay = pair_decay[i];
      op_decall(fs, decay);
      op_encall(fs, decay, -17000, 17000);
      for (t = -40; t <= 40; t++) op_enc(fs, decay, t);
      op_enc(fs, decay, 32767); op_enc(fs, decay, -32768); op_enc(fs, decay, 16384); op_enc(fs, decay, -16384);
      for (t = 0; t < 6; t++) op_enc(fs, decay, vrange(&r, -17000, 17000));
      op_dec(fs, decay, 0); op_dec(fs, decay, fs - 1); op_dec(fs, decay, fs); op_dec(fs, decay, 32767); op_dec(fs, decay, 32766);
      for (t = 0; t < 12; t++) op_dec(fs, decay, vbelow(&r, 32768));
   }
   /* other legal parameters: fs in (0, 32768-32], decay in (0, 11456] */
   for (t = 0; t < (level ? 3000 : 300); t++) {
      unsigned fs = t < 40 ? (unsigned)(t < 20 ? 1 + t : 32736 - (t - 20)) : 1 + vbelow(&r, 32736);
      int decay = (t % 7 == 0) ? 11456 - (int)vbelow(&r, 8) : ((t % 7 == 1) ? 1 + (int)vbelow(&r, 8) : 1 + (int)vbelow(&r, 11456));
      int u;
      op_decall(fs, decay);
      op_encall(fs, decay, -17000, 17000);
      for (u = 0; u < 4; u++) op_enc(fs, decay, vrange(&r, -60, 60));
      for (u = 0; u < 4; u++) op_dec(fs, decay, vbelow(&r, 32768));
   }
   /* _p0 variants */
   for (t = 0; t < (level ? 20000 : 3000); t++) {
      /* decay < 32768: for larger values `icdf[i-1] * (opus_int32)decay` can exceed INT_MAX (signed overflow) */
      unsigned p0 = vchance(&r, 80) ? 1 + vbelow(&r, 32766) : vbelow(&r, 65536);
      unsigned decay = vbelow(&r, 32768);
      int v = vchance(&r, 70) ? vrange(&r, -30, 30) : vrange(&r, -2000, 2000);
      op_p0enc(p0, decay, v);
      {
         int syms[64], n = 0, s = vbelow(&r, 3), k;
         syms[n++] = s;
         if (s) { k = vbelow(&r, 6); while (k--) syms[n++] = 7; syms[n++] = vbelow(&r, 7); }
         op_p0dec(p0, decay, syms, n);
      }
   }
}

/* ---------------- witness search on the implementation alone ---------------- */
static long s_cases, s_wit;
static char cur_case[256];
static void witness(const char *input, const char *expected, const char *observed, const char *why)
{
   if (s_wit++ < 20) printf("W laplace|%s|%s|%s|%s\n", input, expected, observed, why);
}
static void search_abort(int sig)
{
   (void)sig;
   printf("W laplace|%s|no assertion failure|celt_assert aborted inside laplace.c|hardening assertion fired for a legal parameter pair\n", cur_case);
   printf("S cases=%ld witnesses=%ld\n", s_cases, s_wit + 1);
   fflush(stdout); _exit(0);
}

/* the symbols in coding order 0,-1,+1,-2,+2,... must occupy adjacent intervals that end exactly at 32768;
   every fm must decode to a value whose encoder interval is the decoder's interval and contains fm */
static void check_pair(unsigned fs, int decay, int full)
{
   char in[128], ex[128], ob[128];
   unsigned expect = 0; int m, done = 0, bad = 0;
   unsigned fm, step = full ? 1 : 37;
   snprintf(cur_case, sizeof(cur_case), "tiling fs=%u decay=%d", fs, decay);
   for (m = 0; !done && m < 40000; m++) {
      int sgn;
      for (sgn = (m == 0 ? 1 : -1); sgn <= 1 && !done; sgn += 2) {
         int v = sgn * m, val = v;
         ec_laplace_encode(NULL, &val, fs, decay);
         s_cases++;
         if (val != v) {           /* clamped: the previous symbol must have been the last one */
            if (expect != 32768) {
               snprintf(in, sizeof(in), "enc fs=%u decay=%d value=%d", fs, decay, v);
               snprintf(ex, sizeof(ex), "symbol intervals reach 32768 before clamping starts");
               snprintf(ob, sizeof(ob), "value clamped to %d while intervals cover only [0,%u)", val, expect);
               witness(in, ex, ob, "gap: part of the probability range belongs to no symbol"); bad = 1;
            }
            done = 1; break;
         }
         if (cap_fl != expect || cap_fh <= cap_fl || cap_fh > 32768) {
            snprintf(in, sizeof(in), "enc fs=%u decay=%d value=%d", fs, decay, v);
            snprintf(ex, sizeof(ex), "fl=%u and fl<fh<=32768", expect);
            snprintf(ob, sizeof(ob), "fl=%u fh=%u", cap_fl, cap_fh);
            witness(in, ex, ob, cap_fl < expect ? "overlap with the previous symbol's interval" : "gap or empty/overlong interval");
            bad = 1; done = 1; break;
         }
         expect = cap_fh;
         if (expect == 32768) {
            /* everything is used up; the next symbol in order must clamp */
         }
      }
   }
   if (bad) return;
   for (fm = 0; fm < 32768; fm += step) {
      int val, v2; unsigned dfl, dfh;
      snprintf(cur_case, sizeof(cur_case), "dec fs=%u decay=%d fm=%u", fs, decay, fm);
      feed_fm = fm;
      val = ec_laplace_decode(NULL, fs, decay);
      dfl = cap_fl; dfh = cap_fh; v2 = val;
      ec_laplace_encode(NULL, &v2, fs, decay);
      s_cases++;
      if (!(dfl <= fm && fm < dfh) || v2 != val || cap_fl != dfl || cap_fh != dfh) {
         snprintf(in, sizeof(in), "dec fs=%u decay=%d fm=%u", fs, decay, fm);
         snprintf(ex, sizeof(ex), "decoded value re-encodes to the decoder's interval containing fm");
         snprintf(ob, sizeof(ob), "decode->%d [%u,%u) encode(%d)->%d [%u,%u)", val, dfl, dfh, val, v2, cap_fl, cap_fh);
         witness(in, ex, ob, "decoder and encoder disagree on the symbol interval");
         return;
      }
   }
}

/* legal-domain sweep: the two extreme values must get valid intervals and the last one must end at 32768 */
static void sweep(int dstep, int fstep, uint64_t seed)
{
   vrng r; int decay; char in[128], ob[128];
   r.s = seed;
   for (decay = 1; decay <= 11456; decay += dstep) {
      unsigned fs;
      for (fs = 1 + vbelow(&r, fstep); fs <= 32736; fs += fstep) {
         int vp = 30000, vn = -30000; unsigned hp, hn;
         snprintf(cur_case, sizeof(cur_case), "enc fs=%u decay=%d value=+-30000", fs, decay);
         ec_laplace_encode(NULL, &vp, fs, decay); hp = cap_fh;
         if (cap_fh <= cap_fl || cap_fh > 32768) hp = 0;
         ec_laplace_encode(NULL, &vn, fs, decay); hn = cap_fh;
         if (cap_fh <= cap_fl || cap_fh > 32768) hn = 0;
         s_cases += 2;
         if (hp == 0 || hn == 0 || (hp != 32768 && hn != 32768) || vp <= 0 || vn >= 0) {
            snprintf(in, sizeof(in), "enc fs=%u decay=%d value=+-30000", fs, decay);
            snprintf(ob, sizeof(ob), "+30000 -> value %d fh=%u, -30000 -> value %d fh=%u", vp, hp, vn, hn);
            witness(in, "non-empty intervals, the last symbol ends at 32768", ob, "tail of the distribution does not tile the range");
         }
      }
   }
}

static void run_search(int level, uint64_t seed)
{
   int i; vrng r;
   r.s = seed ^ 0x5eedULL;
   signal(SIGABRT, search_abort);
   collect_pairs();
   for (i = 0; i < npairs; i++) check_pair(pair_fs[i], pair_decay[i], 1);
   for (i = 0; i < (level ? 4000 : 400); i++)
      check_pair(1 + vbelow(&r, 32736), 1 + (int)vbelow(&r, 11456), i % 16 == 0);
   if (level) sweep(1, 1, seed); else sweep(16, 5, seed);
   printf("X pairs=%d of the energy model, all 32768 fm each\n", npairs);
   printf("S cases=%ld witnesses=%ld\n", s_cases, s_wit);
}

static void run_stdin(void)
{
   static char line[1 << 16];
   while (fgets(line, sizeof(line), stdin)) {
      char op[32]; long a, b, c, d; int off = 0;
      if (sscanf(line, "laplace %31s%n", op, &off) != 1) continue;
      if (!strcmp(op, "enc") && sscanf(line + off, "%ld %ld %ld", &a, &b, &c) == 3) op_enc((unsigned)a, (int)b, (int)c);
      else if (!strcmp(op, "dec") && sscanf(line + off, "%ld %ld %ld", &a, &b, &c) == 3) op_dec((unsigned)a, (int)b, (unsigned)c);
      else if (!strcmp(op, "decall") && sscanf(line + off, "%ld %ld", &a, &b) == 2) op_decall((unsigned)a, (int)b);
      else if (!strcmp(op, "encall") && sscanf(line + off, "%ld %ld %ld %ld", &a, &b, &c, &d) == 4) op_encall((unsigned)a, (int)b, (int)c, (int)d);
      else if (!strcmp(op, "p0enc") && sscanf(line + off, "%ld %ld %ld", &a, &b, &c) == 3) op_p0enc((unsigned)a, (unsigned)b, (int)c);
   }
}

int main(int argc, char **argv)
{
   vinstall_traps();
   if (argc >= 4 && !strcmp(argv[1], "tie")) run_tie(atoi(argv[2]), strtoull(argv[3], NULL, 10));
   else if (argc >= 4 && !strcmp(argv[1], "search")) run_search(atoi(argv[2]), strtoull(argv[3], NULL, 10));
   else if (argc >= 2 && !strcmp(argv[1], "stdin")) run_stdin();
   else { fprintf(stderr, "usage: c17_laplace tie <level> <seed> | search <level> <seed> | stdin\n"); return 64; }
   return 0;
}
