/* c17_sites.c — the ICDF tables and ftb values the codec REALLY passes to ec_enc_icdf/ec_dec_icdf (C17).
   Linked with  -Wl,--wrap=ec_enc_icdf,--wrap=ec_dec_icdf (and the five symbols of the `alloc` mode): every call from the library's SILK and CELT
   objects goes through the recorders below (then on to the real function).  The public encoder/decoder are run
   over a spread of configurations on synthetic voiced/unvoiced/transient audio; every distinct (table pointer,
   ftb) pair that occurs is then examined:
     tie    <seed> <nframes>   one `I laplace icdf <ftb> <entries>` / `O known=1 ok=1` line per distinct table,
                               to be compared with the catalogue of OpusModel/Icdf.lean (suite `laplace`, op `icdf`)
     alloc  <seed> <nframes>   one `I cwrs alloc …` / `O …` pair per REAL call of clt_compute_allocation made by the
                               encoder and the decoder (also wrapped), for comparison with OpusModel/CeltAlloc.lean
     search <seed> <nframes>   property on the implementation alone: the table as used at that call site
                               (with the call site's ftb) is strictly decreasing, ends in 0, starts below 2^ftb,
                               and no symbol beyond the terminating 0 was ever coded; prints W / X / S lines   */
#ifdef HAVE_CONFIG_H
#include "config.h"
#endif
#include "vcommon.h"
#include <math.h>
#include "opus.h"
#include "celt/entenc.h"
#include "celt/entdec.h"

#define MAXSITES 2048
#define MAXLEN 64
/* keyed by CONTENT (entries up to the first 0) and ftb, captured at call time: silk_encode_signs/silk_decode_signs
   build their two-entry table on the stack */
typedef struct { unsigned char t[MAXLEN]; int len; unsigned ftb; int maxsym; long enc, dec; char first[96]; } site;
static site sites[MAXSITES];
static int nsites;
static char cur_cfg[96] = "(none)";

/* entries up to and including the first 0 (at most MAXLEN); -1 when no 0 is found */
static int tab_len(const unsigned char *t) { int i; for (i = 0; i < MAXLEN; i++) if (t[i] == 0) return i + 1; return -1; }

static void note(const unsigned char *t, unsigned ftb, int s, int is_enc)
{
   static int last;
   int i, len = tab_len(t), n = len < 0 ? 16 : len;
   i = last;
   if (!(i < nsites && sites[i].ftb == ftb && sites[i].len == len && !memcmp(sites[i].t, t, n)))
      for (i = 0; i < nsites; i++) if (sites[i].ftb == ftb && sites[i].len == len && !memcmp(sites[i].t, t, n)) break;
   if (i == nsites) {
      if (nsites == MAXSITES) return;
      memset(sites[i].t, 0, MAXLEN); memcpy(sites[i].t, t, n);
      sites[i].len = len; sites[i].ftb = ftb; sites[i].maxsym = s; sites[i].enc = sites[i].dec = 0;
      snprintf(sites[i].first, sizeof(sites[i].first), "%s", cur_cfg);
      nsites++;
   }
   last = i;
   if (s > sites[i].maxsym) sites[i].maxsym = s;
   if (is_enc) sites[i].enc++; else sites[i].dec++;
}

void __real_ec_enc_icdf(ec_enc *e, int s, const unsigned char *icdf, unsigned ftb);
int __real_ec_dec_icdf(ec_dec *d, const unsigned char *icdf, unsigned ftb);
void __wrap_ec_enc_icdf(ec_enc *e, int s, const unsigned char *icdf, unsigned ftb)
{
   note(icdf, ftb, s, 1);
   __real_ec_enc_icdf(e, s, icdf, ftb);
}
int __wrap_ec_dec_icdf(ec_dec *d, const unsigned char *icdf, unsigned ftb)
{
   int s = __real_ec_dec_icdf(d, icdf, ftb);
   note(icdf, ftb, s, 0);
   return s;
}

/* ---- the bit allocation as the codec really calls it (mode `alloc`): clt_compute_allocation and the four range
   coder entry points it uses are wrapped; inputs, outputs and the coder calls made inside are printed as a
   `cwrs alloc` protocol line (decoder side: the decoded values become the oracle). */
#include "celt/modes.h"
#include "celt/rate.h"
#include "celt/celt.h"
static int alloc_mode, in_alloc, a_nops; static long alloc_lines, alloc_skipped;
static struct { int kind; unsigned v, ft; } a_ops[64];
static void a_rec(int kind, unsigned v, unsigned ft) { if (in_alloc && a_nops < 64) { a_ops[a_nops].kind = kind; a_ops[a_nops].v = v; a_ops[a_nops].ft = ft; a_nops++; } }
void __real_ec_enc_bit_logp(ec_enc *e, int val, unsigned logp);
int __real_ec_dec_bit_logp(ec_dec *d, unsigned logp);
void __real_ec_enc_uint(ec_enc *e, opus_uint32 fl, opus_uint32 ft);
opus_uint32 __real_ec_dec_uint(ec_dec *d, opus_uint32 ft);
void __wrap_ec_enc_bit_logp(ec_enc *e, int val, unsigned logp) { a_rec(0, val != 0, 2); __real_ec_enc_bit_logp(e, val, logp); }
int __wrap_ec_dec_bit_logp(ec_dec *d, unsigned logp) { int v = __real_ec_dec_bit_logp(d, logp); a_rec(0, (unsigned)v, 2); return v; }
void __wrap_ec_enc_uint(ec_enc *e, opus_uint32 fl, opus_uint32 ft) { a_rec(1, fl, ft); __real_ec_enc_uint(e, fl, ft); }
opus_uint32 __wrap_ec_dec_uint(ec_dec *d, opus_uint32 ft) { opus_uint32 v = __real_ec_dec_uint(d, ft); a_rec(1, v, ft); return v; }
int __real_clt_compute_allocation(const CELTMode *m, int start, int end, const int *offsets, const int *cap, int alloc_trim, int *intensity, int *dual_stereo,
      opus_int32 total, opus_int32 *balance, int *pulses, int *ebits, int *fine_priority, int C, int LM, ec_ctx *ec, int encode, int prev, int signalBandwidth);
int __wrap_clt_compute_allocation(const CELTMode *m, int start, int end, const int *offsets, const int *cap, int alloc_trim, int *intensity, int *dual_stereo,
      opus_int32 total, opus_int32 *balance, int *pulses, int *ebits, int *fine_priority, int C, int LM, ec_ctx *ec, int encode, int prev, int signalBandwidth)
{
   int cb, j, in_int = *intensity, in_dual = *dual_stereo, ok = alloc_mode && m->nbEBands == 21, mycap[21];
   if (ok) { init_caps(m, mycap, LM, C); for (j = 0; j < 21; j++) if (mycap[j] != cap[j]) ok = 0; if (!ok) alloc_skipped++; }
   in_alloc = 1; a_nops = 0;
   cb = __real_clt_compute_allocation(m, start, end, offsets, cap, alloc_trim, intensity, dual_stereo, total, balance, pulses, ebits, fine_priority,
                                      C, LM, ec, encode, prev, signalBandwidth);
   in_alloc = 0;
   if (ok) {
      printf("I cwrs alloc %s %d %d %d %d %d %d %d %d %d %d ", encode ? "enc" : "dec", start, end, C, LM, (int)total, alloc_trim,
             encode ? in_int : 0, encode ? in_dual : 0, prev, signalBandwidth);
      for (j = 0; j < 21; j++) printf("%s%d", j ? "," : "", j >= start && j < end ? offsets[j] : 0);
      printf(" ");
      if (encode || a_nops == 0) printf("-"); else for (j = 0; j < a_nops; j++) printf("%s%u", j ? "," : "", a_ops[j].v);
      printf("\nO cb=%d bal=%d int=%d dual=%d p=", cb, (int)*balance, *intensity, *dual_stereo);
      for (j = start; j < end; j++) printf("%s%d", j > start ? "," : "", pulses[j]);
      printf(" e="); for (j = start; j < end; j++) printf("%s%d", j > start ? "," : "", ebits[j]);
      printf(" f="); for (j = start; j < end; j++) printf("%s%d", j > start ? "," : "", fine_priority[j]);
      printf(" ops=");
      if (a_nops == 0) printf("-");
      for (j = 0; j < a_nops; j++) { if (j) printf(","); if (a_ops[j].kind) printf("u%u/%u", a_ops[j].v, a_ops[j].ft); else printf("b%u", a_ops[j].v); }
      printf("\n");
      alloc_lines++;
   }
   return cb;
}

/* synthetic audio: voiced (harmonics of a gliding pitch, amplitude modulated), unvoiced noise, clicks, silence */
static void synth(vrng *r, opus_int16 *pcm, int n, int ch, int Fs, int kind, double *ph, double *f0)
{
   int i, c, h;
   for (i = 0; i < n; i++) {
      double v = 0;
      if (kind == 0) {
         *f0 += (vbelow(r, 2001) - 1000.0) * 1e-5;
         if (*f0 < 80) *f0 = 80; if (*f0 > 320) *f0 = 320;
         *ph += 2 * M_PI * *f0 / Fs;
         for (h = 1; h <= 12 && h * *f0 < Fs / 2.2; h++) v += sin(h * *ph) / h;
         v *= 6000 * (0.6 + 0.4 * sin(*ph / 37));
         v += (double)vbelow(r, 401) - 200;
      } else if (kind == 1) v = (double)vbelow(r, 16001) - 8000;
      else if (kind == 2) v = (i % 293 == 0) ? 28000 : (double)vbelow(r, 41) - 20;
      else v = 0;
      for (c = 0; c < ch; c++) {
         double w = c ? v * 0.7 + ((double)vbelow(r, 2001) - 1000) * (kind == 3 ? 0 : 1) : v;
         if (w > 32767) w = 32767; if (w < -32768) w = -32768;
         pcm[i * ch + c] = (opus_int16)w;
      }
   }
}

static void run_codec(uint64_t seed, int nframes)
{
   static const int rates[] = {8000, 12000, 16000, 24000, 48000};
   static const int apps[] = {OPUS_APPLICATION_VOIP, OPUS_APPLICATION_AUDIO, OPUS_APPLICATION_RESTRICTED_LOWDELAY};
   static const int bws[] = {OPUS_BANDWIDTH_NARROWBAND, OPUS_BANDWIDTH_MEDIUMBAND, OPUS_BANDWIDTH_WIDEBAND,
                             OPUS_BANDWIDTH_SUPERWIDEBAND, OPUS_BANDWIDTH_FULLBAND};
   static const int durs_ms2[] = {5, 10, 20, 40, 80, 120};   /* in units of 0.5 ms: 2.5 .. 60 ms */
   static opus_int16 pcm[2 * 2880 * 2], out[2 * 5760];
   static unsigned char pkt[4000];
   vrng r; int cfg;
   r.s = seed * 0x9E3779B97F4A7C15ULL + 99;
   for (cfg = 0; cfg < 120; cfg++) {
      int Fs = rates[cfg % 5], ch = 1 + (cfg / 5) % 2, app = apps[(cfg / 10) % 3], err = 0, f;
      int bw = bws[vbelow(&r, 5)], dur = durs_ms2[vbelow(&r, 6)], n = Fs * dur / 2000;
      int br = (int)(6000 + vbelow(&r, 4) * 9000 + vbelow(&r, 90000) * (cfg % 3 == 0)) * ch;
      double ph = 0, f0 = 120 + vbelow(&r, 100);
      OpusEncoder *enc; OpusDecoder *dec;
      if (app == OPUS_APPLICATION_RESTRICTED_LOWDELAY && dur > 40) dur = 40, n = Fs * dur / 2000;
      enc = opus_encoder_create(Fs, ch, app, &err);
      if (!enc) continue;
      dec = opus_decoder_create(Fs, ch, &err);
      opus_encoder_ctl(enc, OPUS_SET_BITRATE(br));
      opus_encoder_ctl(enc, OPUS_SET_MAX_BANDWIDTH(bw));
      opus_encoder_ctl(enc, OPUS_SET_COMPLEXITY((int)vbelow(&r, 11)));
      opus_encoder_ctl(enc, OPUS_SET_VBR((int)vbelow(&r, 2)));
      opus_encoder_ctl(enc, OPUS_SET_INBAND_FEC((int)vbelow(&r, 2)));
      opus_encoder_ctl(enc, OPUS_SET_PACKET_LOSS_PERC((int)vbelow(&r, 30)));
      opus_encoder_ctl(enc, OPUS_SET_DTX((int)vbelow(&r, 2)));
      if (vchance(&r, 30)) opus_encoder_ctl(enc, OPUS_SET_FORCE_CHANNELS(1 + (int)vbelow(&r, ch)));
      snprintf(cur_cfg, sizeof(cur_cfg), "Fs=%d ch=%d app=%d bitrate=%d maxbw=%d frame=%d", Fs, ch, app, br, bw, n);
      for (f = 0; f < nframes; f++) {
         int kind = (f / 6 + cfg) % 5 == 4 ? 3 : (int)((f / 6 + cfg) % 5) % 3, len;
         synth(&r, pcm, n, ch, Fs, kind, &ph, &f0);
         len = opus_encode(enc, pcm, n, pkt, sizeof(pkt));
         if (len <= 0) continue;
         if (vchance(&r, 10)) opus_decode(dec, NULL, 0, out, n, 0);                 /* a lost packet */
         else if (vchance(&r, 10)) { opus_decode(dec, pkt, len, out, n, 1); opus_decode(dec, pkt, len, out, 5760, 0); }
         else opus_decode(dec, pkt, len, out, 5760, 0);
      }
      opus_encoder_destroy(enc); opus_decoder_destroy(dec);
   }
}

static int pr_tab(char *o, int cap, const unsigned char *t, int n)
{
   int i, p = 0;
   for (i = 0; i < n && p < cap - 8; i++) p += snprintf(o + p, cap - p, "%s%u", i ? "," : "", t[i]);
   return p;
}

int main(int argc, char **argv)
{
   int i, tie, nframes; long wit = 0, cases = 0; uint64_t seed;
   if (argc < 4) { fprintf(stderr, "usage: c17_sites tie|search|alloc <seed> <nframes>\n"); return 64; }
   tie = !strcmp(argv[1], "tie"); seed = strtoull(argv[2], NULL, 10); nframes = atoi(argv[3]);
   alloc_mode = !strcmp(argv[1], "alloc");
   run_codec(seed, nframes);
   if (alloc_mode) { printf("# %ld real clt_compute_allocation calls (encoder and decoder), %ld skipped (cap differs from init_caps)\n", alloc_lines, alloc_skipped); return 0; }
   for (i = 0; i < nsites; i++) {
      const unsigned char *t = sites[i].t; unsigned ftb = sites[i].ftb;
      int len = sites[i].len, shown = len > 0 ? len : 16, ok = 1, s; char tb[600], in[800], ob[200];
      pr_tab(tb, sizeof(tb), t, shown);
      if (tie) {
         if (len < 0) continue;           /* left to the search */
         printf("I laplace icdf %u %s\nO known=1 ok=1\n", ftb, tb);
         continue;
      }
      cases++;
      if (len < 0 || ftb > 15 || t[0] >= (1u << ftb)) ok = 0;
      for (s = 1; s < len && ok; s++) if (t[s] >= t[s - 1]) ok = 0;
      if (ok && sites[i].maxsym >= len) ok = 0;
      if (!ok && wit++ < 8) {
         snprintf(in, sizeof(in), "table {%s%s} used with ftb=%u by %s (first seen: %s; %ld enc / %ld dec calls, largest symbol %d)",
                  tb, len < 0 ? ",..." : "", ftb, sites[i].enc ? (sites[i].dec ? "encoder and decoder" : "encoder") : "decoder",
                  sites[i].first, sites[i].enc, sites[i].dec, sites[i].maxsym);
         snprintf(ob, sizeof(ob), "first entry %u vs 2^ftb=%u, terminating 0 %s", t[0], 1u << (ftb > 15 ? 15 : ftb), len < 0 ? "missing" : "present");
         printf("W icdf|%s|strictly decreasing, ends in 0, first entry < 2^ftb, symbols inside the table|%s|an ICDF table as passed at a real call site is not an exact code for that ftb\n", in, ob);
      }
   }
   if (!tie) {
      printf("X %d distinct (table, ftb) pairs seen at ec_enc_icdf/ec_dec_icdf call sites while coding %d configurations\n", nsites, 120);
      printf("S cases=%ld witnesses=%ld distinct=%d\n", cases, wit, nsites);
   }
   return 0;
}
