/* c17_caps.c — runs the REAL compute_pulse_cache (celt/rate.c:74-242, compiled only with CUSTOM_MODES) on a copy
   of the static 48 kHz mode and compares what it computes with the shipped cache (static_modes_float.h:
   cache_index50 / cache_bits50 / cache_caps50).  This TU defines CUSTOM_MODES for itself and #includes cwrs.c
   (log2_frac, get_required_bits and the larger PVQ table) and rate.c; nothing of it is taken from the library
   except opus_custom_mode_create (which returns the static mode) and the allocator.
   Together with the theorems cache_eq_recomputed / cache_caps_recomputed (Lean model = shipped tables) this ties the
   Lean re-implementation to the C function.
   Usage: c17_caps          prints `W …` for every differing word, then `X …`, `S cases=… witnesses=…`            */
#ifdef HAVE_CONFIG_H
#include "config.h"
#endif
#define CUSTOM_MODES 1
#include "vcommon.h"
#include "celt/cwrs.c"
#include "celt/rate.c"
#include "opus_custom.h"

int main(void)
{
   int err = 0, i, n; long cases = 0, wit = 0;
   const CELTMode *sm = opus_custom_mode_create(48000, 960, &err);
   CELTMode m;
   if (!sm) return 2;
   m = *sm;
   m.cache.index = NULL; m.cache.bits = NULL; m.cache.caps = NULL; m.cache.size = 0;
   compute_pulse_cache(&m, m.maxLM);
   n = m.nbEBands * (m.maxLM + 2);
   for (i = 0; i < n; i++, cases++) if (m.cache.index[i] != sm->cache.index[i] && wit++ < 6)
      printf("W cwrs|cache.index[%d] (LM=%d band=%d)|compute_pulse_cache gives %d|shipped %d|the shipped pulse cache is not what compute_pulse_cache computes\n",
             i, i / m.nbEBands - 1, i % m.nbEBands, m.cache.index[i], sm->cache.index[i]);
   if (m.cache.size != sm->cache.size && wit++ < 6)
      printf("W cwrs|cache.size|compute_pulse_cache gives %d|shipped %d|the shipped pulse cache is not what compute_pulse_cache computes\n", m.cache.size, sm->cache.size);
   n = m.cache.size < sm->cache.size ? m.cache.size : sm->cache.size;
   for (i = 0; i < n; i++, cases++) if (m.cache.bits[i] != sm->cache.bits[i] && wit++ < 6)
      printf("W cwrs|cache.bits[%d]|compute_pulse_cache gives %d|shipped %d|the shipped pulse cache is not what compute_pulse_cache computes\n",
             i, m.cache.bits[i], sm->cache.bits[i]);
   n = m.nbEBands * (m.maxLM + 1) * 2;
   for (i = 0; i < n; i++, cases++) if (m.cache.caps[i] != sm->cache.caps[i] && wit++ < 6)
      printf("W cwrs|cache.caps[%d] (LM=%d C=%d band=%d)|compute_pulse_cache gives %d|shipped %d|the shipped caps table is not what compute_pulse_cache computes\n",
             i, i / (2 * m.nbEBands), (i / m.nbEBands) % 2 + 1, i % m.nbEBands, m.cache.caps[i], sm->cache.caps[i]);
   printf("X compute_pulse_cache (CUSTOM_MODES code) re-run on the static mode: %ld words compared\n", cases);
   printf("S cases=%ld witnesses=%ld distinct=3\n", cases, wit);
   return 0;
}
