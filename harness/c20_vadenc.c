/* c20_vadenc.c — the SILK VAD inside the real encoder (property C20, OpusModel.SilkVad).

   Linked with  -Wl,--wrap=silk_VAD_GetSA_Q8_c -Wl,--wrap=silk_VAD_GetSA_Q8_sse4_1 : every reference of the
   library (the run-time dispatch table of silk/x86/x86_silk_map.c included) goes through the wrappers below,
   which record the VAD state and the input frame, call the real kernel and print one `I dtx vad …` / `O …`
   pair per call — whichever kernel the library dispatches to under OPUS_VERIF_ARCH_CAP.

   Mode: enc <seed> <nruns>                                                                                  */
#ifdef HAVE_CONFIG_H
#include "config.h"
#endif
#include "vcommon.h"
#include <math.h>
#include "opus.h"
#include "main.h"

opus_int __real_silk_VAD_GetSA_Q8_c(silk_encoder_state *psEncC, const opus_int16 pIn[]);
opus_int __real_silk_VAD_GetSA_Q8_sse4_1(silk_encoder_state *psEncC, const opus_int16 pIn[]);

static long n_c, n_sse, n_len[6];

static void print_state(const silk_VAD_state *v)
{
   printf("%d,%d,%d,%d,%d,%d", v->AnaState[0], v->AnaState[1], v->AnaState1[0], v->AnaState1[1], v->AnaState2[0], v->AnaState2[1]);
   printf(",%d,%d,%d,%d", v->XnrgSubfr[0], v->XnrgSubfr[1], v->XnrgSubfr[2], v->XnrgSubfr[3]);
   printf(",%d,%d,%d,%d", v->NrgRatioSmth_Q8[0], v->NrgRatioSmth_Q8[1], v->NrgRatioSmth_Q8[2], v->NrgRatioSmth_Q8[3]);
   printf(",%d", v->HPstate);
   printf(",%d,%d,%d,%d", v->NL[0], v->NL[1], v->NL[2], v->NL[3]);
   printf(",%d,%d,%d,%d", v->inv_NL[0], v->inv_NL[1], v->inv_NL[2], v->inv_NL[3]);
   printf(",%d,%d,%d,%d", v->NoiseLevelBias[0], v->NoiseLevelBias[1], v->NoiseLevelBias[2], v->NoiseLevelBias[3]);
   printf(",%d", v->counter);
}

static opus_int traced(silk_encoder_state *psEncC, const opus_int16 pIn[], int sse)
{
   opus_int r; int i;
   printf("I dtx vad %d %d ", psEncC->fs_kHz, psEncC->frame_length); print_state(&psEncC->sVAD); printf(" ");
   for (i = 0; i < psEncC->frame_length; i++) printf("%s%d", i ? "," : "", pIn[i]);
   printf("\n");
   r = sse ? __real_silk_VAD_GetSA_Q8_sse4_1(psEncC, pIn) : __real_silk_VAD_GetSA_Q8_c(psEncC, pIn);
   printf("O sa=%d tilt=%d q=%d,%d,%d,%d st=", psEncC->speech_activity_Q8, psEncC->input_tilt_Q15, psEncC->input_quality_bands_Q15[0],
          psEncC->input_quality_bands_Q15[1], psEncC->input_quality_bands_Q15[2], psEncC->input_quality_bands_Q15[3]);
   print_state(&psEncC->sVAD); printf("\n");
   if (sse) n_sse++; else n_c++;
   { int k = (psEncC->fs_kHz - 8) / 4 * 2 + (psEncC->frame_length == 20 * psEncC->fs_kHz); if (k >= 0 && k < 6) n_len[k]++; }
   return r;
}
opus_int __wrap_silk_VAD_GetSA_Q8_c(silk_encoder_state *psEncC, const opus_int16 pIn[]) { return traced(psEncC, pIn, 0); }
opus_int __wrap_silk_VAD_GetSA_Q8_sse4_1(silk_encoder_state *psEncC, const opus_int16 pIn[]) { return traced(psEncC, pIn, 1); }

static double noise(vrng *r) { return ((double)(vnext(r) >> 11) / 9007199254740992.0) * 2 - 1; }

static void do_run(uint64_t sub)
{
   static const int FSS[5] = {8000, 12000, 16000, 24000, 48000};
   static const int QS[4] = {4, 8, 16, 24};
   vrng r; int fs, ch, q, fsz, err, i, ncalls, kind = 0; long n = 0; double ph = 0;
   OpusEncoder *e; float *pcm; unsigned char pkt[1500];
   r.s = sub;
   fs = FSS[vbelow(&r, 5)]; ch = 1 + vbelow(&r, 2); q = QS[vbelow(&r, 4)]; fsz = q * fs / 400;
   e = opus_encoder_create(fs, ch, vchance(&r, 70) ? OPUS_APPLICATION_VOIP : OPUS_APPLICATION_AUDIO, &err);
   if (!e) return;
   opus_encoder_ctl(e, OPUS_SET_COMPLEXITY(vrange(&r, 0, 10)));
   opus_encoder_ctl(e, OPUS_SET_BITRATE(vrange(&r, 6000, 40000)));
   opus_encoder_ctl(e, OPUS_SET_SIGNAL(OPUS_SIGNAL_VOICE));
   opus_encoder_ctl(e, OPUS_SET_DTX(vbelow(&r, 2)));
   opus_encoder_ctl(e, OPUS_SET_MAX_BANDWIDTH(OPUS_BANDWIDTH_NARROWBAND + (int)vbelow(&r, 5)));
   pcm = (float *)calloc((size_t)fsz * ch, sizeof(float));
   ncalls = vrange(&r, 8, 40);
   for (i = 0; i < ncalls; i++) {
      int k, c;
      if (i % 8 == 0) kind = vbelow(&r, 5);
      for (k = 0; k < fsz; k++, n++) {
         double t = (double)n / fs, x;
         switch (kind) {
         case 0: x = 0; break;
         case 1: x = 0.0003 * noise(&r); break;
         case 2: ph += (130 + 40 * sin(2 * M_PI * 0.9 * t)) / fs; x = 0.25 * (0.55 + 0.45 * sin(2 * M_PI * 3.7 * t)) * (sin(2 * M_PI * ph) + 0.5 * sin(4 * M_PI * ph) + 0.3 * sin(10 * M_PI * ph)); break;
         case 3: x = 0.9 * noise(&r); break;
         default: x = (n & 1) ? 1.0 : -1.0; break;
         }
         for (c = 0; c < ch; c++) pcm[k * ch + c] = (float)(c ? 0.7 * x : x);
      }
      opus_encode_float(e, pcm, fsz, pkt, sizeof(pkt));
   }
   free(pcm); opus_encoder_destroy(e);
}

int main(int argc, char **argv)
{
   vinstall_traps();
   if (argc >= 4 && !strcmp(argv[1], "enc")) {
      uint64_t seed = strtoull(argv[2], NULL, 10); long nr = atol(argv[3]), i;
      vrng top; top.s = seed; top.s = vnext(&top) ^ 0x76656e63ULL;
      for (i = 0; i < nr; i++) do_run(vnext(&top));
   } else { fprintf(stderr, "usage: c20_vadenc enc <seed> <nruns>\n"); return 64; }
   printf("# vad-dist calls=%ld kernel_c=%ld kernel_sse4_1=%ld cfg8k10=%ld cfg8k20=%ld cfg12k10=%ld cfg12k20=%ld cfg16k10=%ld cfg16k20=%ld\n",
          n_c + n_sse, n_c, n_sse, n_len[0], n_len[1], n_len[2], n_len[3], n_len[4], n_len[5]);
   return 0;
}
