/* c07_repack.c — correspondence + property harness for src/repacketizer.c (C07).
   Modes:  rand <seed> <n>     random op sequences on one repacketizer (init/cat/out/out_range/out_range_impl),
                               each emitted twice: with large buffers, then with maxlen around the exact size;
                               pad / unpad / multistream pad / unpad / pad_impl cases
           enum <level>        enumerated small sequences: every code x CBR/VBR x padding kind, all [begin,end)
           prop <seed> <n>     property predicates evaluated on the implementation only (`W` witness lines, `P` summary)
           propenum <level>    the same predicates on the enumerated sequences of `enum`
           stdin               answer `repack …` lines read from stdin
           judge               evaluate the property predicates on the `repack …` lines read from stdin
   One `I` line carries a whole op sequence (ops separated by spaces, fields by '/'):
      i | n | c/x<packet> | o/<maxlen> | r/<begin>/<end>/<maxlen> | R/<begin>/<end>/<maxlen>/<sd>/<pad>/<exts>        */
#include "vcommon.h"
#include "opus.h"
#include "opus_private.h"

#define GUARD 32
#define GB 0xA5
#define BIG 70000

/* ------------------------------------------------------------------ packets */
static const int szclass[] = {0, 0, 1, 1, 2, 3, 10, 100, 250, 251, 252, 253, 254, 255, 256, 257, 508, 509, 1020, 1274, 1275, 1275};
static long put_size(unsigned char *o, int s) { if (s < 252) { o[0] = s; return 1; } o[0] = 252 + (s & 3); o[1] = (s - o[0]) >> 2; return 2; }

typedef struct { int id, frame, len; unsigned char data[64]; } sx;   /* small extension for R ops */

static int gen_small_exts(vrng *r, opus_extension_data *e, sx *store, int nbf, int max)
{
   int n = vrange(r, 1, max), i, k;
   for (i = 0; i < n; i++) {
      int id = vchance(r, 50) ? vrange(r, 3, 31) : vrange(r, 32, 127);
      store[i].id = id; store[i].frame = vbelow(r, nbf);
      store[i].len = id < 32 ? (int)vbelow(r, 2) : (vchance(r, 70) ? (int)vbelow(r, 6) : (int)vbelow(r, 60));
      for (k = 0; k < store[i].len; k++) store[i].data[k] = (unsigned char)vnext(r);
      e[i].id = store[i].id; e[i].frame = store[i].frame; e[i].len = store[i].len; e[i].data = store[i].data;
   }
   if (vchance(r, 40) && nbf > 1) {   /* repeat-eligible: same ids in every frame */
      int f; n = 0;
      for (f = 0; f < nbf && n + 2 <= max; f++) for (k = 0; k < 2 && n < max; k++) {
         store[n].id = k ? 40 : 7; store[n].frame = f; store[n].len = k ? (int)vbelow(r, 5) : 1;
         { int q; for (q = 0; q < store[n].len; q++) store[n].data[q] = (unsigned char)vnext(r); }
         e[n].id = store[n].id; e[n].frame = f; e[n].len = store[n].len; e[n].data = store[n].data; n++; }
   }
   return n;
}

/* Serialise a packet.  cfg = TOC>>2 (config and stereo bits); padkind: 0 none, 1 zeros, 2 random bytes, 3 valid extension
   list, 4 token soup (often a malformed extension list), 5 no padding flag but code 3. */
static long gen_packet(vrng *r, int sd, int cfg, int maxframes, unsigned char *o)
{
   int code = vbelow(r, 4), count, vbr = 0, i, sizes[64];
   long n = 0, padtotal = 0; int padkind = 0;
   unsigned char padbuf[3000];
   if (maxframes < 2 && (code == 1 || code == 2)) code = vchance(r, 50) ? 0 : 3;
   o[n++] = cfg * 4 + code;
   if (code == 0) count = 1; else if (code < 3) count = 2;
   else { count = vchance(r, 80) ? vrange(r, 1, 5) : vrange(r, 1, 48); if (count > maxframes) count = maxframes; if (count < 1) count = 1; vbr = vbelow(r, 2); }
   {
      int base = vchance(r, 60) ? (int)vbelow(r, 12) : szclass[vbelow(r, sizeof(szclass) / sizeof(int))];
      int small = vchance(r, 75);
      for (i = 0; i < count; i++)
         sizes[i] = (code == 1 || (code == 3 && !vbr)) ? base
                  : (small ? (int)vbelow(r, 12) : szclass[vbelow(r, sizeof(szclass) / sizeof(int))]);
      if (count > 6 && !small && vbr) for (i = 0; i < count; i++) if (vchance(r, 70)) sizes[i] = vbelow(r, 5);
      if (vbr && vchance(r, 15)) for (i = 0; i < count; i++) sizes[i] = base;     /* VBR coding of equal sizes */
   }
   if (code == 3) {
      padkind = vchance(r, 40) ? 0 : vrange(r, 1, 5);
      if (padkind == 1) { padtotal = vchance(r, 60) ? vbelow(r, 8) : vbelow(r, 600); memset(padbuf, 0, padtotal); }
      else if (padkind == 2) { padtotal = vchance(r, 60) ? vbelow(r, 8) : vbelow(r, 300); for (i = 0; i < padtotal; i++) padbuf[i] = (unsigned char)vnext(r); }
      else if (padkind == 3) { opus_extension_data e[12]; sx st[12]; int ne = gen_small_exts(r, e, st, count, 12);
         int g = opus_packet_extensions_generate(padbuf, 2000, e, ne, count, 0); padtotal = g > 0 ? g : 0;
         if (vchance(r, 20)) { int k = vbelow(r, 4); memmove(padbuf + k, padbuf, padtotal); memset(padbuf, 1, k); padtotal += k; } }
      else if (padkind == 4) { padtotal = vbelow(r, 10); for (i = 0; i < padtotal; i++) { int t = vbelow(r, 10); padbuf[i] = t < 2 ? 2 : t < 3 ? 3 : t < 5 ? 4 + vbelow(r, 2) : t < 6 ? 1 : t < 8 ? vrange(r, 6, 70) : (unsigned char)vnext(r); } }
      o[n++] = (count & 63) | ((padkind && padkind != 5) ? 64 : 0) | (vbr ? 128 : 0);
      if (padkind && padkind != 5) {
         long rest = padtotal;
         while (rest >= 255) { o[n++] = 255; rest -= 254; }
         if (rest == 254 && vchance(r, 50)) { o[n++] = 255; o[n++] = 0; } else o[n++] = (unsigned char)rest;
      }
   }
   if (code == 2 || (code == 3 && vbr)) for (i = 0; i < count - 1; i++) n += put_size(o + n, sizes[i]);
   if (sd && count > 0) n += put_size(o + n, sizes[count - 1]);
   for (i = 0; i < count; i++) { int k; for (k = 0; k < sizes[i]; k++) o[n++] = (unsigned char)vnext(r); }
   if (padkind && padkind != 5) { memcpy(o + n, padbuf, padtotal); n += padtotal; }
   return n;
}

static long mutate(vrng *r, unsigned char *buf, long n)
{
   int mut = vbelow(r, 6);
   if (mut == 0 && n > 0) n = vbelow(r, (uint32_t)n + 1);
   else if (mut == 1) { int k = vrange(r, 1, 3); while (k--) buf[n++] = (unsigned char)vnext(r); }
   else if (mut == 2 && n > 0) buf[vbelow(r, n < 5 ? (uint32_t)n : 5)] = (unsigned char)vnext(r);
   else if (mut == 3 && n > 0) buf[vbelow(r, (uint32_t)n)] ^= 1 << vbelow(r, 8);
   else if (mut == 4) { n = vbelow(r, 6); { long k; for (k = 0; k < n; k++) buf[k] = (unsigned char)vnext(r); } }
   else if (n > 1) buf[1] = (unsigned char)vnext(r);
   return n;
}

/* ------------------------------------------------------------------ op sequences */
typedef struct {
   char t;                      /* i n c o r R */
   unsigned char *pk; long plen; /* c */
   int b, e; long maxlen; int sd, pad;
   int ne; opus_extension_data ex[12]; sx st[12];
   long ret;                    /* result of the last execution */
} op;

static void pr_exts(const opus_extension_data *e, int n)
{
   int i; if (n == 0) { putchar('-'); return; }
   for (i = 0; i < n; i++) { if (i) putchar(','); printf("%d:%d:%d:", e[i].id, e[i].frame, e[i].len); vhex(stdout, e[i].data, e[i].len > 0 ? e[i].len : 0); }
}

static void pr_op(const op *o)
{
   switch (o->t) {
   case 'i': case 'n': putchar(o->t); break;
   case 'c': printf("c/"); vhex(stdout, o->pk, o->plen); break;
   case 'o': printf("o/%ld", o->maxlen); break;
   case 'r': printf("r/%d/%d/%ld", o->b, o->e, o->maxlen); break;
   case 'R': printf("R/%d/%d/%ld/%d/%d/", o->b, o->e, o->maxlen, o->sd, o->pad); pr_exts(o->ex, o->ne); break;
   }
}

static long st_cat_ok, st_cat_rej, st_out[8], st_out_err[4], st_seq, st_padcase;
static void note_out(const unsigned char *b, long ret)
{
   if (ret == OPUS_BAD_ARG) st_out_err[0]++; else if (ret == OPUS_BUFFER_TOO_SMALL) st_out_err[1]++; else if (ret < 0) st_out_err[2]++;
   else if (ret > 0) { int c = b[0] & 3; if (c < 3) st_out[c]++; else { st_out[(b[1] & 0x80) ? 4 : 3]++; if (b[1] & 0x40) st_out[5]++; } }
}
static void run_seq(op *ops, int nops)
{
   st_seq++;
   OpusRepacketizer rp; int k; unsigned char *copies[64];
   printf("I repack seq"); for (k = 0; k < nops; k++) { putchar(' '); pr_op(&ops[k]); } printf("\n"); fflush(stdout);
   memset(&rp, 0, sizeof rp);
   opus_repacketizer_init(&rp);
   printf("O ops=%d", nops);
   for (k = 0; k < nops; k++) {
      op *o = &ops[k]; copies[k] = NULL;
      putchar(' ');
      if (o->t == 'i') { opus_repacketizer_init(&rp); putchar('-'); }
      else if (o->t == 'n') printf("%d", opus_repacketizer_get_nb_frames(&rp));
      else if (o->t == 'c') { int ret; copies[k] = vexact(o->pk, o->plen); ret = opus_repacketizer_cat(&rp, copies[k], (opus_int32)o->plen); o->ret = ret; if (ret == OPUS_OK) st_cat_ok++; else st_cat_rej++; printf("%s", verr(ret)); }
      else {
         long ml = o->maxlen > 0 ? o->maxlen : 0, j; unsigned char *buf = (unsigned char *)malloc(ml + GUARD); opus_int32 ret; int bad = 0;
         memset(buf, GB, ml + GUARD);
         if (o->t == 'o') ret = opus_repacketizer_out(&rp, buf, (opus_int32)o->maxlen);
         else if (o->t == 'r') ret = opus_repacketizer_out_range(&rp, o->b, o->e, buf, (opus_int32)o->maxlen);
         else ret = opus_repacketizer_out_range_impl(&rp, o->b, o->e, buf, (opus_int32)o->maxlen, o->sd, o->pad, o->ex, o->ne);
         o->ret = ret; note_out(buf, ret);
         for (j = 0; j < GUARD; j++) if (buf[ml + j] != GB) bad = 1;
         if (bad) printf("GUARD_OVERWRITTEN");
         else if (ret < 0) printf("%s", verr(ret));
         else { printf("%d:", ret); vhex(stdout, buf, ret); }
         free(buf);
      }
   }
   printf("\n");
   for (k = 0; k < nops; k++) free(copies[k]);
}

static void do_pad(const unsigned char *pk, long len, long newlen)
{
   long cap = newlen > len ? newlen : len; unsigned char *buf = (unsigned char *)malloc(cap > 0 ? cap : 1); int ret;
   printf("I repack pad "); vhex(stdout, pk, len); printf(" %ld\n", newlen); fflush(stdout);
   memset(buf, GB, cap > 0 ? cap : 1); memcpy(buf, pk, len);
   ret = opus_packet_pad(buf, (opus_int32)len, (opus_int32)newlen);
   if (ret != OPUS_OK) printf("O %s\n", verr(ret)); else { printf("O OK "); vhex(stdout, buf, newlen); printf("\n"); }
   free(buf);
}
static void do_unpad(const unsigned char *pk, long len)
{
   unsigned char *buf = vexact(pk, len); int ret;
   printf("I repack unpad "); vhex(stdout, pk, len); printf("\n"); fflush(stdout);
   ret = opus_packet_unpad(buf, (opus_int32)len);
   if (ret < 0) printf("O %s\n", verr(ret)); else { printf("O OK %d ", ret); vhex(stdout, buf, ret); printf("\n"); }
   free(buf);
}
/* in place, whole buffer printed: ties the single-array model (OpusModel/RepackInPlace.lean), stale bytes included */
static void do_unpadip(const unsigned char *pk, long len)
{
   unsigned char *buf = vexact(pk, len); int ret;
   printf("I repack unpadip "); vhex(stdout, pk, len); printf("\n"); fflush(stdout);
   ret = opus_packet_unpad(buf, (opus_int32)len);
   if (ret < 0) printf("O %s\n", verr(ret)); else { printf("O OK %d ", ret); vhex(stdout, buf, len); printf("\n"); }
   free(buf);
}
static void do_msunpadip(const unsigned char *pk, long len, int ns)
{
   unsigned char *buf = vexact(pk, len); int ret;
   printf("I repack msunpadip "); vhex(stdout, pk, len); printf(" %d\n", ns); fflush(stdout);
   ret = opus_multistream_packet_unpad(buf, (opus_int32)len, ns);
   if (ret < 0) printf("O %s\n", verr(ret)); else { printf("O OK %d ", ret); vhex(stdout, buf, len); printf("\n"); }
   free(buf);
}
static void do_mspad(const unsigned char *pk, long len, long newlen, int ns)
{
   long cap = newlen > len ? newlen : len; unsigned char *buf = (unsigned char *)malloc(cap > 0 ? cap : 1); int ret;
   printf("I repack mspad "); vhex(stdout, pk, len); printf(" %ld %d\n", newlen, ns); fflush(stdout);
   memset(buf, GB, cap > 0 ? cap : 1); memcpy(buf, pk, len);
   ret = opus_multistream_packet_pad(buf, (opus_int32)len, (opus_int32)newlen, ns);
   if (ret != OPUS_OK) printf("O %s\n", verr(ret)); else { printf("O OK "); vhex(stdout, buf, newlen); printf("\n"); }
   free(buf);
}
static void do_msunpad(const unsigned char *pk, long len, int ns)
{
   unsigned char *buf = vexact(pk, len); int ret;
   printf("I repack msunpad "); vhex(stdout, pk, len); printf(" %d\n", ns); fflush(stdout);
   ret = opus_multistream_packet_unpad(buf, (opus_int32)len, ns);
   if (ret < 0) printf("O %s\n", verr(ret)); else { printf("O OK %d ", ret); vhex(stdout, buf, ret); printf("\n"); }
   free(buf);
}
static void do_padimpl(const unsigned char *pk, long len, long newlen, int pad, const opus_extension_data *e, int ne)
{
   long cap = newlen > len ? newlen : len, j; unsigned char *buf = (unsigned char *)malloc((cap > 0 ? cap : 1) + GUARD); int ret, bad = 0;
   printf("I repack padimpl "); vhex(stdout, pk, len); printf(" %ld %d ", newlen, pad); pr_exts(e, ne); printf("\n"); fflush(stdout);
   memset(buf, GB, (cap > 0 ? cap : 1) + GUARD); memcpy(buf, pk, len);
   ret = opus_packet_pad_impl(buf, (opus_int32)len, (opus_int32)newlen, pad, e, ne);
   for (j = 0; j < GUARD; j++) if (buf[(cap > 0 ? cap : 1) + j] != GB) bad = 1;
   if (bad) printf("O GUARD_OVERWRITTEN\n");
   else if (ret < 0) printf("O %s\n", verr(ret)); else { printf("O OK %d ", ret); vhex(stdout, buf, ret == 0 ? len : ret); printf("\n"); }
   free(buf);
}

static const int cfg_fast[] = {16 * 2, 20 * 2 + 1, 24 * 2, 28 * 2, 17 * 2, 21 * 2};   /* CELT 2.5 / 5 ms: many frames fit */

static int pick_cfg(vrng *r) { return vchance(r, 45) ? cfg_fast[vbelow(r, 6)] : (int)vbelow(r, 64); }

static void seq_case(vrng *r)
{
   static unsigned char store[16][8000]; op ops[40]; int nops = 0, cfg = pick_cfg(r), k, np = 0, frames = 0, tight;
   unsigned char tocb = (unsigned char)(cfg * 4); int maxfr = 960 / opus_packet_get_samples_per_frame(&tocb, 8000);
   int want = vrange(r, 1, 10);
   memset(ops, 0, sizeof ops);
   if (vchance(r, 20)) ops[nops++].t = 'i';
   while (nops < want + 3 && nops < 36) {
      int t = vbelow(r, 100); op *o = &ops[nops];
      if (t < 50 && np < 16) {
         int c2 = vchance(r, 88) ? cfg : (vchance(r, 50) ? (cfg ^ (1 << vbelow(r, 6))) : pick_cfg(r));
         int room = maxfr - frames; long n;
         n = gen_packet(r, 0, c2, vchance(r, 85) ? (room > 0 ? room : 1) : 48, store[np]);
         if (vchance(r, 12)) n = mutate(r, store[np], n);
         o->t = 'c'; o->pk = store[np]; o->plen = n; np++; nops++;
         { const unsigned char *f[48]; opus_int16 s[48]; unsigned char tc; int c = opus_packet_parse(o->pk, (opus_int32)n, &tc, f, s, NULL); if (c > 0 && c2 == cfg && frames + c <= maxfr) frames += c; }
      } else if (t < 65) { o->t = 'o'; o->maxlen = BIG; nops++; }
      else if (t < 82) { int hi = frames > 0 ? frames : 1; o->t = 'r'; o->b = vchance(r, 92) ? (int)vbelow(r, hi) : vrange(r, -1, hi + 1);
         o->e = vchance(r, 92) ? vrange(r, o->b + 1, hi) : vrange(r, -1, hi + 2); o->maxlen = BIG; nops++; }
      else if (t < 92) { int hi = frames > 0 ? frames : 1; o->t = 'R'; o->b = vbelow(r, hi); o->e = vrange(r, o->b + 1, hi); o->maxlen = BIG;
         o->sd = vbelow(r, 2); o->pad = vchance(r, 30); o->ne = vchance(r, 50) ? 0 : gen_small_exts(r, o->ex, o->st, o->e - o->b, 6);
         if (o->pad) o->maxlen = 0;   /* decided in the tight pass */
         nops++; }
      else if (t < 96) { o->t = 'n'; nops++; }
      else { o->t = 'i'; frames = 0; nops++; }
   }
   run_seq(ops, nops);
   /* second pass: maxlen around the exact size learnt in the first pass */
   tight = 0;
   for (k = 0; k < nops; k++) if (ops[k].t == 'o' || ops[k].t == 'r' || ops[k].t == 'R') {
      long ex = ops[k].ret; int d = vbelow(r, 10);
      if (ops[k].t == 'R' && ops[k].pad) { ops[k].maxlen = vchance(r, 50) ? vrange(r, 0, 40) : vrange(r, 0, 1600); tight = 1; continue; }
      if (ex <= 0) { if (vchance(r, 30)) { ops[k].maxlen = vrange(r, -2, 3); tight = 1; } continue; }
      ops[k].maxlen = d < 3 ? ex : d < 5 ? ex - 1 : d < 6 ? ex - 2 : d < 7 ? ex + 1 : d < 8 ? ex + 2 : d < 9 ? (long)vbelow(r, (uint32_t)ex + 1) : 1277L * (ops[k].t == 'o' ? 48 : 48);
      tight = 1;
   }
   if (tight) {
      run_seq(ops, nops);
      /* padded R ops: a third pass with maxlen near the unpadded size */
      { int again = 0; for (k = 0; k < nops; k++) if (ops[k].t == 'R' && ops[k].pad && vchance(r, 60)) { ops[k].pad = 0; ops[k].maxlen = BIG; again = 1; }
        if (again && vchance(r, 30)) run_seq(ops, nops); }
   }
}

static long gen_ms(vrng *r, unsigned char *o, int ns, int valid)
{
   long n = 0; int s;
   for (s = 0; s < ns; s++) { n += gen_packet(r, s != ns - 1, pick_cfg(r), 48, o + n); if (n > 30000) break; }
   if (!valid) n = mutate(r, o, n);
   return n;
}

static void padcase(vrng *r)
{
   static unsigned char pk[140000]; int t = vbelow(r, 10); long n, nl;
   if (t < 4) {
      n = gen_packet(r, 0, pick_cfg(r), 48, pk); if (vchance(r, 12)) n = mutate(r, pk, n);
      { int k = vbelow(r, 12); nl = k == 0 ? n : k == 1 ? n - 1 : k == 2 ? n + 1 : k == 3 ? n + 2 : k == 4 ? n + 3 : k < 8 ? n + vrange(r, 1, 20) : k < 10 ? n + vrange(r, 250, 260) : n + vrange(r, 0, 1500); }
      if (vchance(r, 3)) nl = vrange(r, -1, 1);
      do_pad(pk, n, nl);
      if (vchance(r, 15)) { opus_extension_data e[12]; sx st[12]; const unsigned char *f[48]; opus_int16 s[48]; unsigned char tc;
         int c = opus_packet_parse(pk, (opus_int32)n, &tc, f, s, NULL); int ne = gen_small_exts(r, e, st, c > 0 ? c : 1, 8);
         do_padimpl(pk, n, vchance(r, 70) ? n + vrange(r, 1, 400) : n + vrange(r, 1, 12), vbelow(r, 2), e, ne); }
   } else if (t < 7) {
      n = gen_packet(r, 0, pick_cfg(r), 48, pk); if (vchance(r, 12)) n = mutate(r, pk, n);
      do_unpad(pk, n); do_unpadip(pk, n);
   } else if (t < 9) {
      int ns = vrange(r, 1, 8), ns2; n = gen_ms(r, pk, ns, !vchance(r, 12)); ns2 = vchance(r, 90) ? ns : vrange(r, 0, 9);
      do_msunpad(pk, n, ns2); if (ns2 >= 0 && n > 0) do_msunpadip(pk, n, ns2);
   } else {
      int ns = vrange(r, 1, 8), ns2; n = gen_ms(r, pk, ns, !vchance(r, 12)); ns2 = vchance(r, 90) ? ns : vrange(r, 0, 9);
      { int k = vbelow(r, 8); nl = k == 0 ? n : k == 1 ? n - 1 : k == 2 ? n + 1 : k == 3 ? n + 2 : k < 6 ? n + vrange(r, 1, 20) : n + vrange(r, 250, 700); }
      do_mspad(pk, n, nl, ns2);
   }
}

static void run_rand(uint64_t seed, long cases)
{
   vrng r; long c; r.s = seed;
   for (c = 0; c < cases; c++) { if (vchance(&r, 55)) seq_case(&r); else { st_padcase++; padcase(&r); } }
   printf("# rand: op-sequences=%ld pad/unpad-cases=%ld cat ok=%ld rejected=%ld; out code0=%ld code1=%ld code2=%ld code3cbr=%ld code3vbr=%ld (with padding flag=%ld) BAD_ARG=%ld BUFFER_TOO_SMALL=%ld other-error=%ld\n",
      st_seq, st_padcase, st_cat_ok, st_cat_rej, st_out[0], st_out[1], st_out[2], st_out[3], st_out[4], st_out[5], st_out_err[0], st_out_err[1], st_out_err[2]);
}

/* Enumerated: one or two packets of every code x CBR/VBR x padding kind, all ranges, maxlen exact / exact-1. */
static void (*enum_emit)(op *, int) = run_seq;
static void run_enum(int level)
{
   static unsigned char p1[4000], p2[4000]; int code1, code2, vbr1, pad1, cnt, two, b, e, d;
   static const int szs[] = {0, 1, 5, 252};
   int nsz = level ? 4 : 3, si;
   vrng r; r.s = 99;
   for (code1 = 0; code1 < 4; code1++) for (vbr1 = 0; vbr1 < 2; vbr1++) for (pad1 = 0; pad1 < 4; pad1++) for (cnt = 1; cnt <= (level ? 4 : 3); cnt++)
   for (si = 0; si < nsz; si++) for (two = 0; two < 2; two++) for (code2 = 0; code2 < (two ? 4 : 1); code2++) {
      long n1 = 0, n2 = 0; int count1, i, tot; op ops[8]; int sz = szs[si];
      if (code1 != 3 && (vbr1 || pad1 || cnt > 1)) continue;
      count1 = code1 == 0 ? 1 : code1 < 3 ? 2 : cnt;
      p1[n1++] = 16 * 8 + code1;
      if (code1 == 3) { p1[n1++] = count1 | (pad1 ? 64 : 0) | (vbr1 ? 128 : 0);
         if (pad1 == 1) p1[n1++] = 2; else if (pad1 == 2) p1[n1++] = 3; else if (pad1 == 3) p1[n1++] = 2; }
      if (code1 == 2) n1 += put_size(p1 + n1, sz);
      if (code1 == 3 && vbr1) for (i = 0; i < count1 - 1; i++) n1 += put_size(p1 + n1, sz + (i & 1));
      for (i = 0; i < count1; i++) { int k, s = (code1 == 2 && i == 1) ? sz + 1 : (code1 == 3 && vbr1 && i < count1 - 1) ? sz + (i & 1) : sz; for (k = 0; k < s; k++) p1[n1++] = (unsigned char)(0x10 * (i + 1) + k); }
      if (code1 == 3 && pad1 == 1) { p1[n1++] = 0; p1[n1++] = 0; }
      else if (code1 == 3 && pad1 == 2) { p1[n1++] = 0x0b; p1[n1++] = 0x5a; p1[n1++] = 0x08; if (count1 > 1) { p1[n1 - 3] = 0x02; p1[n1 - 2] = 0x0b; p1[n1 - 1] = 0x5a; } }
      else if (code1 == 3 && pad1 == 3) { p1[n1++] = 0x43; p1[n1++] = 0xff; }
      if (two) { n2 = 0; p2[n2++] = 16 * 8 + code2; if (code2 == 3) p2[n2++] = 2; if (code2 == 2) n2 += put_size(p2 + n2, sz);
         { int c2 = code2 == 0 ? 1 : 2, k; for (i = 0; i < c2; i++) for (k = 0; k < sz + (code2 == 2 && i == 1); k++) p2[n2++] = (unsigned char)(0xA0 + i); } }
      tot = count1 + (two ? (code2 == 0 ? 1 : 2) : 0);
      for (b = 0; b < tot; b++) for (e = b + 1; e <= tot; e++) {
         int no = 0; memset(ops, 0, sizeof ops);
         ops[no].t = 'c'; ops[no].pk = p1; ops[no].plen = n1; no++;
         if (two) { ops[no].t = 'c'; ops[no].pk = p2; ops[no].plen = n2; no++; }
         ops[no].t = 'r'; ops[no].b = b; ops[no].e = e; ops[no].maxlen = BIG; no++;
         enum_emit(ops, no);
         if (ops[no - 1].ret > 0) for (d = -1; d <= (level ? 1 : 0); d++) { long ex = ops[no - 1].ret;
            ops[no - 1].maxlen = ex + d; enum_emit(ops, no); ops[no - 1].ret = ex; }
      }
      (void)r;
   }
}

/* ------------------------------------------------------------------ property mode */
/* The property predicates of C07 evaluated on the implementation only (no model involved).  `judge_*` take a concrete
   op sequence / packet, so the same code serves the random search (`prop`), the enumerated search (`propenum`) and the
   re-examination of a line on which model and implementation disagreed (`judge`, lines on stdin). */
static long nwit = 0;
static void wit_seq(const char *kind, op *ops, int nops, const char *exp, const char *obs)
{
   int k; if (nwit++ > 20) return;
   printf("W %s | repack seq", kind); for (k = 0; k < nops; k++) { putchar(' '); pr_op(&ops[k]); }
   printf(" | %s | %s\n", exp, obs);
}
static void wit_pk(const char *kind, const char *opname, const unsigned char *pk, long n, const char *args, const char *exp, const char *obs)
{
   if (nwit++ > 20) return;
   printf("W %s | repack %s ", kind, opname); vhex(stdout, pk, n); printf("%s | %s | %s\n", args, exp, obs);
}

/* does the padding of this packet carry an extension? */
static int has_ext(const unsigned char *pk, long n)
{
   const unsigned char *f[48], *pad; opus_int16 s[48]; opus_int32 pl; unsigned char tc;
   int c = opus_packet_parse_impl(pk, (opus_int32)n, 0, &tc, f, s, NULL, NULL, &pad, &pl);
   if (c < 1) return 0;
   return opus_packet_extensions_count(pad, pl, c) > 0;
}

static int same_frames(const unsigned char *a, long na, const unsigned char *b, long nb, int sd)
{
   const unsigned char *fa[48], *fb[48]; opus_int16 sa[48], sb[48]; unsigned char ta, tb; int ca, cb, i;
   ca = opus_packet_parse_impl(a, (opus_int32)na, sd, &ta, fa, sa, NULL, NULL, NULL, NULL);
   cb = opus_packet_parse_impl(b, (opus_int32)nb, sd, &tb, fb, sb, NULL, NULL, NULL, NULL);
   if (ca < 1 || ca != cb || (ta & 0xFC) != (tb & 0xFC)) return 0;
   for (i = 0; i < ca; i++) if (sa[i] != sb[i] || memcmp(fa[i], fb[i], sa[i])) return 0;
   return 1;
}

/* does buf[0..len) parse (framing sd) to exactly these frames with these configuration bits, consuming len bytes? */
static int frames_match(const unsigned char *buf, long len, int sd, const unsigned char **sf, const int *sl, int count, unsigned char toc, char *obs)
{
   const unsigned char *f[48]; opus_int16 s[48]; unsigned char tc; opus_int32 po = 0; int c, i;
   c = opus_packet_parse_impl(buf, (opus_int32)len, sd, &tc, f, s, NULL, &po, NULL, NULL);
   if (c != count) { sprintf(obs, "output parses to %d frames, %d selected", c, count); return 0; }
   if ((tc & 0xFC) != (toc & 0xFC)) { sprintf(obs, "output TOC %02x, stored %02x", tc, toc); return 0; }
   if (po != len) { sprintf(obs, "parser consumes %d of %ld output bytes", po, len); return 0; }
   for (i = 0; i < c; i++) if (s[i] != sl[i] || memcmp(f[i], sf[i], s[i])) { sprintf(obs, "frame %d differs (size %d vs %d)", i, s[i], sl[i]); return 0; }
   return 1;
}

/* Extension carriage (out_roundtrip_ext), evaluated on the implementation: the extensions read from the output's padding
   must be, frame by frame and in order, the caller's extensions followed by those read from the stored packets that
   overlap [b,e), renumbered frame+i-b and kept iff in [0,e-b) (a stored padding that does not parse contributes none). */
typedef struct { int start, count; const unsigned char *pad; opus_int32 padlen; } spk;
#define MAXX 600
static int exts_match(const unsigned char *buf, long len, int sd, int b, int e, const spk *pk, int npk,
                      const opus_extension_data *ex, int ne, char *obs)
{
   static opus_extension_data want[MAXX], got[MAXX], tmp[MAXX];
   const unsigned char *f[48], *pd = NULL; opus_int16 s[48]; unsigned char tc; opus_int32 pl = 0, po = 0, ng; int c, i, k, nw = 0, fr;
   for (i = 0; i < ne && nw < MAXX; i++) want[nw++] = ex[i];
   for (k = 0; k < npk; k++) {
      opus_int32 n; int ret;
      if (pk[k].start >= e || pk[k].start + pk[k].count <= b) continue;
      n = opus_packet_extensions_count(pk[k].pad, pk[k].padlen, pk[k].count);
      if (n <= 0) continue; if (n > MAXX) return 1;   /* too many to check here */
      ret = opus_packet_extensions_parse(pk[k].pad, pk[k].padlen, tmp, &n, pk[k].count);
      if (ret < 0) continue;
      for (i = 0; i < n; i++) { int fr2 = tmp[i].frame + pk[k].start; if (fr2 < b || fr2 >= e) continue; if (nw >= MAXX) return 1;
         want[nw] = tmp[i]; want[nw].frame = fr2 - b; nw++; }
   }
   c = opus_packet_parse_impl(buf, (opus_int32)len, sd, &tc, f, s, NULL, &po, &pd, &pl);
   if (c < 1) { sprintf(obs, "output does not parse"); return 0; }
   ng = opus_packet_extensions_count(pd, pl, c);
   if (ng < 0 || ng > MAXX) { sprintf(obs, "extension count of the output padding = %d", ng); return ng > MAXX; }
   if (ng != nw) { sprintf(obs, "output carries %d extensions, %d expected", ng, nw); return 0; }
   if (ng == 0) return 1;
   if (opus_packet_extensions_parse(pd, pl, got, &ng, c) < 0) { sprintf(obs, "output padding does not parse as extensions"); return 0; }
   for (fr = 0; fr < c; fr++) {
      int a = 0, g = 0;
      for (;;) {
         while (a < nw && want[a].frame != fr) a++;
         while (g < ng && got[g].frame != fr) g++;
         if (a >= nw && g >= ng) break;
         if (a >= nw || g >= ng) { sprintf(obs, "frame %d: different number of extensions", fr); return 0; }
         if (want[a].id != got[g].id || want[a].len != got[g].len || (want[a].len > 0 && memcmp(want[a].data, got[g].data, want[a].len)))
            { sprintf(obs, "frame %d: extension id %d len %d expected, id %d len %d found (or payload differs)", fr, want[a].id, want[a].len, got[g].id, got[g].len); return 0; }
         a++; g++;
      }
   }
   return 1;
}

static opus_int32 call_out(OpusRepacketizer *rp, const op *o, int b, int e, unsigned char *buf, long ml, int pad)
{
   if (o->t == 'o') return opus_repacketizer_out(rp, buf, (opus_int32)ml);
   if (o->t == 'r') return opus_repacketizer_out_range(rp, b, e, buf, (opus_int32)ml);
   return opus_repacketizer_out_range_impl(rp, b, e, buf, (opus_int32)ml, o->sd, pad, o->ex, o->ne);
}

static int jlines = 0;   /* print the case in flight (`J` line) before running it */
static void jline_pk(const char *opname, const unsigned char *pk, long n, const char *args)
{
   if (!jlines) return;
   printf("J repack %s ", opname); vhex(stdout, pk, n > 0 ? n : 0); printf("%s\n", args); fflush(stdout);
}

/* returns 1 when a witness was reported */
static int judge_seq(op *ops, int nops, long *classes)
{
   static unsigned char out[BIG + GUARD], out2[BIG + GUARD];
   OpusRepacketizer rp; unsigned char *copies[40]; int k, j, anyext = 0, wit = 0; char obs[300];
   const unsigned char *sf[48]; int sl[48], snb = 0; unsigned char stoc = 0; spk pks[48]; int npk = 0;
   if (nops > 40) nops = 40;
   if (jlines) { printf("J repack seq"); for (k = 0; k < nops; k++) { putchar(' '); pr_op(&ops[k]); } printf("\n"); fflush(stdout); }
   memset(copies, 0, sizeof copies); memset(&rp, 0, sizeof rp);
   opus_repacketizer_init(&rp);
   for (k = 0; k < nops && !wit; k++) {
      op *o = &ops[k]; int upto = k + 1;
      if (o->t == 'i') { opus_repacketizer_init(&rp); snb = 0; anyext = 0; npk = 0; }
      else if (o->t == 'n') {
         int nb = opus_repacketizer_get_nb_frames(&rp);
         if (nb != snb) { sprintf(obs, "nb_frames=%d, %d frames accepted", nb, snb); wit_seq("nb-frames", ops, upto, "nb_frames counts the accepted frames", obs); wit = 1; }
      } else if (o->t == 'c') {
         const unsigned char *f[48]; opus_int16 s[48]; unsigned char tc = 0; int c, ret, expect, i; opus_int32 before, after;
         copies[k] = vexact(o->pk, o->plen);
         c = o->plen >= 1 ? opus_packet_parse(copies[k], (opus_int32)o->plen, &tc, f, s, NULL) : -1;
         expect = c >= 1 && (snb == 0 || (tc & 0xFC) == (stoc & 0xFC))
                  && (snb + c) * opus_packet_get_samples_per_frame(snb == 0 ? copies[k] : &stoc, 8000) <= 960;
         before = snb > 0 ? opus_repacketizer_out(&rp, out, BIG) : 0;
         ret = opus_repacketizer_cat(&rp, copies[k], (opus_int32)o->plen);
         if ((ret == OPUS_OK) != expect) { sprintf(obs, "cat=%s, parse=%d, frames held=%d", verr(ret), c, snb); wit_seq("cat-accepts-iff", ops, upto, "accepted exactly when valid, configuration-compatible and <= 120 ms", obs); wit = 1; }
         else if (ret != OPUS_OK) {
            if (ret != OPUS_INVALID_PACKET) { sprintf(obs, "cat=%s", verr(ret)); wit_seq("cat-error-kind", ops, upto, "a rejected cat returns INVALID_PACKET", obs); wit = 1; }
            else if (opus_repacketizer_get_nb_frames(&rp) != snb) { wit_seq("cat-reject-unchanged", ops, upto, "rejected cat leaves nb_frames unchanged", "changed"); wit = 1; }
            else { after = snb > 0 ? opus_repacketizer_out(&rp, out2, BIG) : 0;
               if (before != after || (before > 0 && memcmp(out, out2, before))) { wit_seq("cat-reject-unchanged", ops, upto, "rejected cat leaves contents unchanged", "out differs"); wit = 1; } }
         } else {
            if (snb == 0) stoc = tc;
            if (npk < 48) { const unsigned char *f2[48]; opus_int16 s2[48]; unsigned char t2; pks[npk].start = snb; pks[npk].count = c;
               opus_packet_parse_impl(copies[k], (opus_int32)o->plen, 0, &t2, f2, s2, NULL, NULL, &pks[npk].pad, &pks[npk].padlen); npk++; }
            for (i = 0; i < c && snb < 48; i++) { sf[snb] = f[i]; sl[snb] = s[i]; snb++; }
            if (opus_repacketizer_get_nb_frames(&rp) != snb) { sprintf(obs, "nb_frames=%d, expected %d", opus_repacketizer_get_nb_frames(&rp), snb); wit_seq("nb-frames", ops, upto, "accepted cat adds the packet's frames", obs); wit = 1; }
            if (has_ext(copies[k], o->plen)) anyext = 1;
         }
      } else {
         int b = o->t == 'o' ? 0 : o->b, e = o->t == 'o' ? snb : o->e, sd = o->t == 'R' ? o->sd : 0, pad = o->t == 'R' ? o->pad : 0, ne = o->t == 'R' ? o->ne : 0;
         long ml = o->maxlen > BIG ? BIG : o->maxlen, mlz = ml > 0 ? ml : 0; opus_int32 big, r2;
         int valid = b >= 0 && b < e && e <= snb, extcase = anyext || ne > 0;
         if (!valid) {
            memset(out2, GB, mlz + GUARD);
            r2 = call_out(&rp, o, b, e, out2, ml, pad);
            if (r2 != OPUS_BAD_ARG) { sprintf(obs, "ret=%d", r2); wit_seq("out-bad-arg", ops, upto, "invalid range gives BAD_ARG", obs); wit = 1; }
            for (j = 0; j < (int)mlz + GUARD && !wit; j++) if (out2[j] != GB) { wit_seq("out-guard", ops, upto, "nothing is written on BAD_ARG", "buffer modified"); wit = 1; }
            if (classes) classes[6]++;
            continue;
         }
         /* reference call: large buffer, no padding */
         memset(out, GB, BIG + GUARD);
         big = call_out(&rp, o, b, e, out, BIG, 0);
         if (big <= 0) {
            if (ne == 0) { sprintf(obs, "ret=%s", verr(big)); wit_seq("out-succeeds", ops, upto, "out/out_range succeeds for a valid range and a large buffer", obs); wit = 1; }
            continue;   /* passed-in extensions may be invalid for this range: refusing them is legitimate */
         }
         if (!frames_match(out, big, sd, sf + b, sl + b, e - b, stoc, obs)) { wit_seq("out-roundtrip", ops, upto, "output parses back to the selected frames, byte for byte, same configuration bits", obs); wit = 1; continue; }
         if (!exts_match(out, big, sd, b, e, pks, npk, o->t == 'R' ? o->ex : NULL, ne, obs)) { wit_seq("out-extensions", ops, upto, "the output carries, per frame and in order, the caller's extensions and those of the selected frames (renumbered), with identical payloads", obs); wit = 1; continue; }
         if (!extcase && !sd && big > 1277 * (e - b)) { sprintf(obs, "ret=%d > 1277*%d", big, e - b); wit_seq("out-size", ops, upto, "1277 bytes per selected frame suffice", obs); wit = 1; continue; }
         /* the requested call */
         memset(out2, GB, mlz + GUARD);
         r2 = call_out(&rp, o, b, e, out2, ml, pad); o->ret = r2;
         for (j = 0; j < GUARD; j++) if (out2[mlz + j] != GB) { wit_seq("out-guard", ops, upto, "no write beyond maxlen", "guard overwritten"); wit = 1; break; }
         if (wit) continue;
         if (r2 > ml) { sprintf(obs, "ret=%d > maxlen=%ld", r2, ml); wit_seq("out-size", ops, upto, "output never exceeds maxlen", obs); wit = 1; continue; }
         if (r2 > 0 && !frames_match(out2, r2, sd, sf + b, sl + b, e - b, stoc, obs)) { wit_seq("out-roundtrip", ops, upto, "output parses back to the selected frames, byte for byte, same configuration bits", obs); wit = 1; continue; }
         if (r2 > 0 && !exts_match(out2, r2, sd, b, e, pks, npk, o->t == 'R' ? o->ex : NULL, ne, obs)) { wit_seq("out-extensions", ops, upto, "the output carries, per frame and in order, the caller's extensions and those of the selected frames (renumbered), with identical payloads", obs); wit = 1; continue; }
         if (r2 > 0 && pad && r2 != ml) { sprintf(obs, "ret=%d maxlen=%ld", r2, ml); wit_seq("out-pad-size", ops, upto, "with pad the output has exactly maxlen bytes", obs); wit = 1; continue; }
         if (!extcase) {
            if (ml < big) { if (r2 != OPUS_BUFFER_TOO_SMALL) { sprintf(obs, "ret=%d with maxlen=%ld, minimal size %d", r2, ml, big); wit_seq("out-size", ops, upto, "maxlen below the minimal size is refused with BUFFER_TOO_SMALL", obs); wit = 1; continue; } }
            else if (!pad) { if (r2 != big || memcmp(out, out2, big)) { sprintf(obs, "ret=%d with maxlen=%ld, minimal size %d", r2, ml, big); wit_seq("out-size", ops, upto, "maxlen >= minimal size suffices and gives the same packet", obs); wit = 1; continue; } }
            else if (r2 != ml) { sprintf(obs, "ret=%d with maxlen=%ld pad=1, minimal size %d", r2, ml, big); wit_seq("out-pad-size", ops, upto, "padding to maxlen >= minimal size succeeds with exactly maxlen bytes", obs); wit = 1; continue; }
         } else if (r2 < 0 && ne == 0 && !pad && r2 != OPUS_BUFFER_TOO_SMALL) { sprintf(obs, "ret=%s", verr(r2)); wit_seq("out-error-kind", ops, upto, "a valid range is refused only with BUFFER_TOO_SMALL", obs); wit = 1; continue; }
         else if (ml >= big && !pad && ne == 0 && r2 != big) { sprintf(obs, "ret=%d with maxlen=%ld, large-buffer size %d", r2, ml, big); wit_seq("out-size", ops, upto, "the size does not depend on a sufficient maxlen", obs); wit = 1; continue; }
         if (classes) classes[((e - b) == 1 ? 0 : (e - b) == 2 ? 1 : 2) + (extcase ? 3 : 0)]++;
      }
   }
   for (k = 0; k < 40; k++) free(copies[k]);
   return wit;
}

static void prop_seq(vrng *r, long *classes)
{
   static unsigned char store[16][8000]; op ops[40]; int nops = 0, cfg = pick_cfg(r), np = 0, frames = 0;
   unsigned char tocb = (unsigned char)(cfg * 4); int maxfr = 960 / opus_packet_get_samples_per_frame(&tocb, 8000);
   int want = vrange(r, 1, 10);
   memset(ops, 0, sizeof ops);
   while (nops < want + 2 && nops < 36) {
      int t = vbelow(r, 100); op *o = &ops[nops];
      if (t < 50 && np < 16) {
         int c2 = vchance(r, 88) ? cfg : (vchance(r, 50) ? (cfg ^ (1 << vbelow(r, 6))) : pick_cfg(r));
         int room = maxfr - frames; long n;
         n = gen_packet(r, 0, c2, vchance(r, 85) ? (room > 0 ? room : 1) : 48, store[np]);
         if (vchance(r, 12)) n = mutate(r, store[np], n);
         o->t = 'c'; o->pk = store[np]; o->plen = n; np++; nops++;
         { const unsigned char *f[48]; opus_int16 s[48]; unsigned char tc; int c = opus_packet_parse(o->pk, (opus_int32)n, &tc, f, s, NULL); if (c > 0 && c2 == cfg && frames + c <= maxfr) frames += c; }
      } else if (t < 88) {
         int hi = frames > 0 ? frames : 1, kind = vbelow(r, 10), d = vbelow(r, 12);
         o->t = kind < 3 ? 'o' : kind < 7 ? 'r' : 'R';
         o->b = vchance(r, 94) ? (int)vbelow(r, hi) : vrange(r, -1, hi + 1);
         o->e = vchance(r, 94) ? vrange(r, o->b + 1, hi) : vrange(r, -1, hi + 2);
         if (o->t == 'R') { o->sd = vbelow(r, 2); o->pad = vchance(r, 40); o->ne = vchance(r, 75) ? 0 : gen_small_exts(r, o->ex, o->st, o->e > o->b ? o->e - o->b : 1, 6); }
         /* maxlen relative to the exact size is unknown here: use absolute classes; judge_seq derives the expectation */
         o->maxlen = d < 3 ? BIG : d < 5 ? vrange(r, 0, 12) : d < 8 ? vrange(r, 0, 60) : d < 10 ? vrange(r, 200, 1400) : d < 11 ? vrange(r, -2, 3) : 1277L * 48;
         nops++;
      } else if (t < 94) { o->t = 'n'; nops++; }
      else { o->t = 'i'; frames = 0; nops++; }
   }
   if (judge_seq(ops, nops, classes)) return;
   /* second pass: every out-type op with maxlen at the exact size, one less, and (padded) a little more */
   { int k, any = 0; OpusRepacketizer rp; static unsigned char buf[BIG]; opus_repacketizer_init(&rp);
     for (k = 0; k < nops; k++) {
        op *o = &ops[k];
        if (o->t == 'i') opus_repacketizer_init(&rp);
        else if (o->t == 'c') opus_repacketizer_cat(&rp, o->pk, (opus_int32)o->plen);
        else if (o->t != 'n') { opus_int32 ex = call_out(&rp, o, o->t == 'o' ? 0 : o->b, o->t == 'o' ? opus_repacketizer_get_nb_frames(&rp) : o->e, buf, BIG, 0);
           if (ex > 0) { int d = vbelow(r, 6); o->maxlen = d < 2 ? ex : d < 4 ? ex - 1 : d < 5 ? ex + 1 : ex + vrange(r, 2, 300); any = 1; } }
     }
     if (any) judge_seq(ops, nops, classes); }
}

static int decode_eq(const unsigned char *a, long na, const unsigned char *b, long nb)
{
   static short pa[5760 * 2], pb[5760 * 2]; int err, ra, rb; opus_uint32 fa, fb;
   OpusDecoder *da = opus_decoder_create(48000, 2, &err), *db = opus_decoder_create(48000, 2, &err);
   ra = opus_decode(da, a, (opus_int32)na, pa, 5760, 0); rb = opus_decode(db, b, (opus_int32)nb, pb, 5760, 0);
   opus_decoder_ctl(da, OPUS_GET_FINAL_RANGE(&fa)); opus_decoder_ctl(db, OPUS_GET_FINAL_RANGE(&fb));
   opus_decoder_destroy(da); opus_decoder_destroy(db);
   if (ra != rb) return 0;
   if (ra > 0 && (memcmp(pa, pb, sizeof(short) * 2 * ra) || fa != fb)) return 0;
   return 1;
}

static unsigned char ja[72000 + GUARD], jb[72000 + GUARD], jc[72000 + GUARD];

/* opus_packet_pad(pk, n, nl) and the unpad clauses for the same packet; returns 1 when a witness was reported */
static int judge_pad(const unsigned char *pk, long n, long nl, int decode, long *classes)
{
   const unsigned char *f[48]; opus_int16 s[48]; unsigned char tc = 0; int cnt, ret, i, r2, ext; char obs[200], args[64];
   long cap = nl > n ? nl : n; if (cap < 0) cap = 0; if (cap > 70000 || n > 70000) return 0;
   sprintf(args, " %ld", nl); jline_pk("pad", pk, n, args);
   cnt = n >= 1 ? opus_packet_parse(pk, (opus_int32)n, &tc, f, s, NULL) : -1;
   ext = cnt >= 1 && has_ext(pk, n);
   memset(ja, GB, cap + GUARD); memcpy(ja, pk, n > 0 ? n : 0);
   ret = opus_packet_pad(ja, (opus_int32)n, (opus_int32)nl);
   sprintf(args, " %ld", nl);
   for (i = 0; i < GUARD; i++) if (ja[cap + i] != GB) { wit_pk("pad-guard", "pad", pk, n, args, "no write beyond the buffer", "guard overwritten"); return 1; }
   if (n < 1 || nl < n) { if (ret != OPUS_BAD_ARG) { sprintf(obs, "pad=%s", verr(ret)); wit_pk("pad-bad-arg", "pad", pk, n, args, "len < 1 or new_len < len gives BAD_ARG", obs); return 1; } return 0; }
   if (cnt < 1) {
      if (nl != n && ret != OPUS_INVALID_PACKET) { sprintf(obs, "pad=%s", verr(ret)); wit_pk("pad-invalid", "pad", pk, n, args, "an invalid packet is refused with INVALID_PACKET", obs); return 1; }
      return 0;
   }
   if (ret != OPUS_OK) {
      if (ext && ret == OPUS_BUFFER_TOO_SMALL) return 0;   /* re-encoded extensions may need more room: outside the proved case */
      sprintf(obs, "pad=%s", verr(ret)); wit_pk("pad-ok", "pad", pk, n, args, "padding a valid packet to new_len >= len succeeds", obs); return 1;
   }
   if (!same_frames(pk, n, ja, nl, 0)) { wit_pk("pad-frames", "pad", pk, n, args, "padded packet has exactly new_len bytes with the same frames and configuration", "differs"); return 1; }
   if (decode && !decode_eq(pk, n, ja, nl)) { wit_pk("pad-decode", "pad", pk, n, args, "same decoded audio and final range", "differs"); return 1; }
   /* unpad: never longer, same frames, idempotent, canonical */
   memcpy(jb, pk, n); ret = opus_packet_unpad(jb, (opus_int32)n);
   if (ret <= 0 || ret > n) { sprintf(obs, "unpad=%d len=%ld", ret, n); wit_pk("unpad-len", "unpad", pk, n, "", "0 < unpad(x) <= len", obs); return 1; }
   if (!same_frames(pk, n, jb, ret, 0)) { wit_pk("unpad-frames", "unpad", pk, n, "", "unpadded packet has the same frames", "differs"); return 1; }
   { const unsigned char *pd; opus_int32 pl = 0; opus_packet_parse_impl(jb, ret, 0, &tc, f, s, NULL, NULL, &pd, &pl);
     if (pl != 0) { sprintf(obs, "%d padding bytes left", pl); wit_pk("unpad-canonical", "unpad", pk, n, "", "no padding is left", obs); return 1; } }
   memcpy(jc, jb, ret); r2 = opus_packet_unpad(jc, ret);
   if (r2 != ret || memcmp(jb, jc, ret)) { sprintf(obs, "second unpad=%d first=%d", r2, ret); wit_pk("unpad-idempotent", "unpad", pk, n, "", "unpad(unpad x) = unpad x", obs); return 1; }
   r2 = opus_packet_unpad(ja, (opus_int32)nl);
   if (r2 != ret || memcmp(ja, jb, ret)) { sprintf(obs, "unpad(pad x)=%d unpad x=%d", r2, ret); wit_pk("unpad-canonical", "pad", pk, n, args, "unpad(pad x) = unpad x (canonical form)", obs); return 1; }
   if (classes) classes[8 + (tc & 3)]++;
   return 0;
}

static int judge_unpad(const unsigned char *pk, long n, long *classes)
{
   const unsigned char *f[48]; opus_int16 s[48]; unsigned char tc; int cnt, ret; char obs[200];
   if (n > 70000) return 0;
   jline_pk("unpad", pk, n, "");
   cnt = n >= 1 ? opus_packet_parse(pk, (opus_int32)n, &tc, f, s, NULL) : -1;
   if (cnt >= 1) return judge_pad(pk, n, n, 0, classes);
   memcpy(jb, pk, n > 0 ? n : 0); ret = opus_packet_unpad(jb, (opus_int32)n);
   if (n < 1 ? ret != OPUS_BAD_ARG : ret != OPUS_INVALID_PACKET) { sprintf(obs, "unpad=%s", verr(ret)); wit_pk("unpad-invalid", "unpad", pk, n, "", "len < 1 gives BAD_ARG, an invalid packet INVALID_PACKET", obs); return 1; }
   if (n > 0 && memcmp(jb, pk, n)) { wit_pk("unpad-invalid", "unpad", pk, n, "", "a refused packet is left untouched", "modified"); return 1; }
   return 0;
}

/* multistream: per stream the same frames; unpad canonical / idempotent / not longer */
static int judge_ms(const unsigned char *pk, long n, long nl, int ns, int dopad, long *classes)
{
   const unsigned char *f[48]; opus_int16 s[48]; unsigned char tc; int s2, ok = 1, ret, r2; long off = 0, offp = 0; char obs[200], args[64];
   int valid = n >= 1 && ns >= 1;
   if (n > 70000 || nl > 70000) return 0;
   if (dopad) sprintf(args, " %ld %d", nl, ns); else sprintf(args, " %d", ns);
   jline_pk(dopad ? "mspad" : "msunpad", pk, n, args);
   for (s2 = 0; valid && s2 < ns; s2++) { opus_int32 po = 0; int sd = s2 != ns - 1;
      if (n - off < 1 || opus_packet_parse_impl(pk + off, (opus_int32)(n - off), sd, &tc, f, s, NULL, &po, NULL, NULL) < 1) valid = 0; else off += po; }
   if (!valid) {            /* not n-1 self-delimited + one standard valid packet: refused, and pad leaves the buffer alone */
      if (n < 1 || ns < 1) return 0;
      if (dopad) sprintf(args, " %ld %d", nl, ns); else sprintf(args, " %d", ns);
      if (dopad) {
         if (nl <= n) return 0;
         memset(ja, GB, nl + GUARD); memcpy(ja, pk, n);
         ret = opus_multistream_packet_pad(ja, (opus_int32)n, (opus_int32)nl, ns);
         if (ret != OPUS_INVALID_PACKET && ret != OPUS_BAD_ARG) { sprintf(obs, "mspad=%s", verr(ret)); wit_pk("mspad-invalid", "mspad", pk, n, args, "bytes that are not a multistream packet are refused (INVALID_PACKET, or BAD_ARG when no last stream is left)", obs); return 1; }
         if (memcmp(ja, pk, n)) { wit_pk("mspad-invalid", "mspad", pk, n, args, "a refused multistream pad leaves the buffer untouched", "modified"); return 1; }
         for (s2 = 0; s2 < GUARD; s2++) if (ja[nl + s2] != GB || (s2 < nl - n && ja[n + s2] != GB)) { wit_pk("mspad-guard", "mspad", pk, n, args, "a refused multistream pad writes nothing", "bytes after len modified"); return 1; }
      } else {
         memcpy(jb, pk, n); ret = opus_multistream_packet_unpad(jb, (opus_int32)n, ns);
         if (ret != OPUS_INVALID_PACKET) { sprintf(obs, "msunpad=%s", verr(ret)); wit_pk("msunpad-invalid", "msunpad", pk, n, args, "bytes that are not a multistream packet are refused with INVALID_PACKET", obs); return 1; }
      }
      if (classes) classes[14]++;
      return 0;
   }
   if (dopad) {
      int anyext = 0; off = 0;
      sprintf(args, " %ld %d", nl, ns);
      memset(ja, GB, (nl > n ? nl : n) + GUARD); memcpy(ja, pk, n);
      ret = opus_multistream_packet_pad(ja, (opus_int32)n, (opus_int32)nl, ns);
      if (nl < n) { if (ret != OPUS_BAD_ARG) { sprintf(obs, "mspad=%s", verr(ret)); wit_pk("mspad-bad-arg", "mspad", pk, n, args, "new_len < len gives BAD_ARG", obs); return 1; } return 0; }
      { long o2 = 0; for (s2 = 0; s2 < ns; s2++) { opus_int32 po = 0; const unsigned char *pd; opus_int32 pl; int c = opus_packet_parse_impl(pk + o2, (opus_int32)(n - o2), s2 != ns - 1, &tc, f, s, NULL, &po, &pd, &pl);
          if (c > 0 && opus_packet_extensions_count(pd, pl, c) > 0) anyext = 1; o2 += po; } }
      if (ret != OPUS_OK) { if (anyext && ret == OPUS_BUFFER_TOO_SMALL) return 0; sprintf(obs, "mspad=%s", verr(ret)); wit_pk("mspad-ok", "mspad", pk, n, args, "multistream pad of a valid packet succeeds", obs); return 1; }
      for (s2 = 0; s2 < GUARD; s2++) if (ja[nl + s2] != GB) { wit_pk("mspad-guard", "mspad", pk, n, args, "no write beyond new_len", "guard overwritten"); return 1; }
      for (s2 = 0; s2 < ns; s2++) { opus_int32 po = 0, pp = 0; int sd = s2 != ns - 1;
         if (opus_packet_parse_impl(pk + off, (opus_int32)(n - off), sd, &tc, f, s, NULL, &po, NULL, NULL) < 1) { ok = 0; break; }
         if (opus_packet_parse_impl(ja + offp, (opus_int32)(nl - offp), sd, &tc, f, s, NULL, &pp, NULL, NULL) < 1) { ok = 0; break; }
         if (!same_frames(pk + off, sd ? po : n - off, ja + offp, sd ? pp : nl - offp, sd)) { ok = 0; break; }
         off += po; offp += pp; }
      if (!ok || offp != nl) { wit_pk("mspad-frames", "mspad", pk, n, args, "every stream keeps its frames and the packet has exactly new_len bytes", "differs"); return 1; }
   }
   memcpy(jb, pk, n); ret = opus_multistream_packet_unpad(jb, (opus_int32)n, ns);
   sprintf(args, " %d", ns);
   if (ret <= 0 || ret > n) { sprintf(obs, "msunpad=%d len=%ld", ret, n); wit_pk("msunpad-len", "msunpad", pk, n, args, "0 < msunpad(x) <= len", obs); return 1; }
   off = 0; offp = 0; ok = 1;
   for (s2 = 0; s2 < ns; s2++) { opus_int32 po = 0, pp = 0; int sd = s2 != ns - 1;
      if (opus_packet_parse_impl(pk + off, (opus_int32)(n - off), sd, &tc, f, s, NULL, &po, NULL, NULL) < 1) { ok = 0; break; }
      if (opus_packet_parse_impl(jb + offp, (opus_int32)(ret - offp), sd, &tc, f, s, NULL, &pp, NULL, NULL) < 1) { ok = 0; break; }
      if (!same_frames(pk + off, sd ? po : n - off, jb + offp, sd ? pp : ret - offp, sd)) { ok = 0; break; }
      off += po; offp += pp; }
   if (!ok || offp != ret) { wit_pk("msunpad-frames", "msunpad", pk, n, args, "every stream keeps its frames", "differs"); return 1; }
   memcpy(jc, jb, ret); r2 = opus_multistream_packet_unpad(jc, ret, ns);
   if (r2 != ret || memcmp(jb, jc, ret)) { sprintf(obs, "second=%d first=%d", r2, ret); wit_pk("msunpad-idempotent", "msunpad", pk, n, args, "msunpad idempotent", obs); return 1; }
   if (dopad && nl >= n) { r2 = opus_multistream_packet_unpad(ja, (opus_int32)nl, ns);
      if (r2 != ret || memcmp(ja, jb, ret)) { sprintf(obs, "msunpad(mspad x)=%d msunpad x=%d", r2, ret); wit_pk("msunpad-canonical", "msunpad", pk, n, args, "msunpad(mspad x) = msunpad x", obs); return 1; } }
   if (classes) classes[12 + (ns > 1)]++;
   return 0;
}

static void prop_pad(vrng *r, long *classes)
{
   static unsigned char pk[140000]; long n, nl; int t = vbelow(r, 10);
   if (t < 6) {
      int k = vbelow(r, 12);
      n = gen_packet(r, 0, pick_cfg(r), 48, pk); if (vchance(r, 8)) n = mutate(r, pk, n);
      nl = k == 0 ? n : k == 1 ? n - 1 : k == 2 ? n + 1 : k == 3 ? n + 2 : k == 4 ? n + 3 : k < 8 ? n + vrange(r, 1, 20) : k < 10 ? n + vrange(r, 250, 520) : n + vrange(r, 0, 1500);
      judge_pad(pk, n, nl, vchance(r, 25), classes);
   } else if (t < 7) {
      n = gen_packet(r, 0, pick_cfg(r), 48, pk); if (vchance(r, 30)) n = mutate(r, pk, n);
      judge_unpad(pk, n, classes);
   } else {
      int ns = vrange(r, 1, 8);
      n = gen_ms(r, pk, ns, !vchance(r, 20));
      nl = n + (vchance(r, 10) ? -1 : vchance(r, 50) ? vrange(r, 1, 12) : vrange(r, 250, 600));
      if (vchance(r, 70)) judge_ms(pk, n, nl, ns, 1, classes); else judge_ms(pk, n, n, vchance(r, 85) ? ns : vrange(r, 1, 9), 0, classes);
   }
}

static void run_prop(uint64_t seed, long cases)
{
   vrng r; long c, classes[16] = {0}, dist = 0; int i;
   r.s = seed;
   for (c = 0; c < cases; c++) { if (vchance(&r, 55)) prop_seq(&r, classes); else prop_pad(&r, classes); }
   for (i = 0; i < 16; i++) if (classes[i]) dist++;
   printf("P cases=%ld distinct=%ld witnesses=%ld classes(out 1/2/3+ frames, same with extensions, bad-arg, -, pad by input code 0..3, ms 1/n streams, ms rejected)=", cases, dist, nwit);
   for (i = 0; i < 16; i++) printf("%s%ld", i ? "," : "", classes[i]);
   printf("\n");
}
static long enum_cases, enum_classes[16];
static void enum_judge(op *ops, int no) { enum_cases++; judge_seq(ops, no, enum_classes); }

/* ------------------------------------------------------------------ stdin */
static int parse_exts(char *s, opus_extension_data *e, sx *st, int max)
{
   int n = 0; char *tok, *save = NULL;
   if (!strcmp(s, "-")) return 0;
   for (tok = strtok_r(s, ",", &save); tok && n < max; tok = strtok_r(NULL, ",", &save)) {
      int id, fr, len; char *h = strrchr(tok, ':'); long k;
      if (!h || sscanf(tok, "%d:%d:%d:", &id, &fr, &len) != 3) return -1;
      k = vunhex(h + 1, st[n].data, sizeof st[n].data); if (k < 0) return -1;
      st[n].id = id; st[n].frame = fr; st[n].len = len;
      e[n].id = id; e[n].frame = fr; e[n].len = len; e[n].data = st[n].data; n++;
   }
   return n;
}

int main(int argc, char **argv)
{
   vinstall_traps();
   if (argc >= 2 && (!strcmp(argv[1], "prop") || !strcmp(argv[1], "propenum") || !strcmp(argv[1], "judge"))) jlines = 1;
   if (argc >= 4 && !strcmp(argv[1], "rand")) run_rand(strtoull(argv[2], 0, 10), atol(argv[3]));
   else if (argc >= 3 && !strcmp(argv[1], "enum")) run_enum(atoi(argv[2]));
   else if (argc >= 4 && !strcmp(argv[1], "prop")) run_prop(strtoull(argv[2], 0, 10), atol(argv[3]));
   else if (argc >= 3 && !strcmp(argv[1], "propenum")) { int i; long dist = 0; enum_emit = enum_judge; run_enum(atoi(argv[2]));
      for (i = 0; i < 16; i++) if (enum_classes[i]) dist++;
      printf("P cases=%ld distinct=%ld witnesses=%ld (enumerated one-/two-packet sequences, all ranges, maxlen exact/-1/+1)\n", enum_cases, dist, nwit); }
   else if (argc >= 2 && (!strcmp(argv[1], "stdin") || !strcmp(argv[1], "judge"))) {
      int judge = !strcmp(argv[1], "judge");
      static char line[1 << 22]; static unsigned char buf[1 << 20]; static unsigned char pstore[40][8000];
      while (fgets(line, sizeof line, stdin)) {
         char opn[32]; char *s = line;
         if (!strncmp(s, "I ", 2)) s += 2;
         s[strcspn(s, "\r\n")] = 0;
         if (sscanf(s, "repack %31s", opn) != 1) continue;
         if (!strcmp(opn, "seq")) {
            op ops[40]; int no = 0; char *tok, *save = NULL; char *p = strstr(s, "seq"); p += 3;
            memset(ops, 0, sizeof ops);
            for (tok = strtok_r(p, " ", &save); tok && no < 40; tok = strtok_r(NULL, " ", &save)) {
               op *o = &ops[no];
               if (!strcmp(tok, "i") || !strcmp(tok, "n")) o->t = tok[0];
               else if (tok[0] == 'c') { o->t = 'c'; o->pk = pstore[no]; o->plen = vunhex(tok + 2, pstore[no], 8000); }
               else if (tok[0] == 'o') { o->t = 'o'; o->maxlen = atol(tok + 2); }
               else if (tok[0] == 'r') { o->t = 'r'; sscanf(tok, "r/%d/%d/%ld", &o->b, &o->e, &o->maxlen); }
               else if (tok[0] == 'R') { char *x; int k; o->t = 'R'; sscanf(tok, "R/%d/%d/%ld/%d/%d/", &o->b, &o->e, &o->maxlen, &o->sd, &o->pad);
                  x = tok; for (k = 0; k < 6; k++) { x = strchr(x, '/'); if (!x) break; x++; } o->ne = x ? parse_exts(x, o->ex, o->st, 12) : 0; if (o->ne < 0) o->ne = 0; }
               else continue;
               no++;
            }
            if (judge) judge_seq(ops, no, NULL); else run_seq(ops, no);
         } else {
            char *h = strchr(s, 'x'); long n, a = 0; int b = 0; char *sp;
            if (!h) continue;
            n = vunhex(h, buf, sizeof buf); sp = strchr(h, ' ');
            if (!strcmp(opn, "pad")) { if (sp) a = atol(sp + 1); if (judge) judge_pad(buf, n, a, 1, NULL); else do_pad(buf, n, a); }
            else if (!strcmp(opn, "unpad")) { if (judge) judge_unpad(buf, n, NULL); else do_unpad(buf, n); }
            else if (!strcmp(opn, "unpadip")) { if (judge) judge_unpad(buf, n, NULL); else do_unpadip(buf, n); }
            else if (!strcmp(opn, "msunpadip")) { if (sp) b = atoi(sp + 1); if (judge) judge_ms(buf, n, n, b, 0, NULL); else do_msunpadip(buf, n, b); }
            else if (!strcmp(opn, "mspad")) { if (sp) sscanf(sp + 1, "%ld %d", &a, &b); if (judge) judge_ms(buf, n, a, b, 1, NULL); else do_mspad(buf, n, a, b); }
            else if (!strcmp(opn, "msunpad")) { if (sp) b = atoi(sp + 1); if (judge) judge_ms(buf, n, n, b, 0, NULL); else do_msunpad(buf, n, b); }
            else if (judge) continue;
            else if (!strcmp(opn, "padimpl")) { opus_extension_data e[12]; sx st[12]; int pd = 0, ne = 0; char *x;
               if (sp) { sscanf(sp + 1, "%ld %d", &a, &pd); x = strchr(sp + 1, ' '); if (x) x = strchr(x + 1, ' '); if (x) ne = parse_exts(x + 1, e, st, 12); if (ne < 0) ne = 0; }
               do_padimpl(buf, n, a, pd, e, ne); }
         }
      }
   } else { fprintf(stderr, "usage: c07_repack rand|prop <seed> <n> | enum|propenum <level> | stdin | judge\n"); return 64; }
   return 0;
}
