/* c05_ranges.c — C05 slice `Ranges`: "no 32-bit overflow" in the integer budget arithmetic of the encoder.

   This TU #includes src/opus_encoder.c (so the static helpers are callable and the code under test is compiled with
   the sanitizer flags of the `san` variant).

   Modes:
     trace <seed> <n>   differential evaluation of the traces of OpusModel/EncSkelRanges.lean: for each traced function
                        the SAME C expressions (transcribed below in evaluation order, file:line cited) are evaluated
                        twice — exactly (int64) and as the C code does (every operation wrapped to int32) — on boundary
                        grids and `n` random in-domain inputs per function.  Printed: `t=` the exact values, `w=1` iff
                        the int32 evaluation agrees everywhere.  Where the function itself is reachable
                        (user_bitrate_to_bitrate, compute_equiv_rate, compute_redundancy_bytes, frame_size_select) it
                        is called and its return value must equal the last entry (else `O REALDIFF …`).
     enc <seed> <level> [huge]
                        search (no model): the real encoder under UBSan/ASan through boundary configurations
                        (every Fs x duration x {AUTO, MAX, 500, 300000*ch, out-of-range requests} x VBR/CVBR/CBR x forced
                        modes x out_data_bytes from {1,2,3,…,1276,1277,4000,65536,10^6}; multistream with up to 255
                        channels).  One line `C <config>` is printed before each call, `R <ret>` after; a trap ends the
                        process with `O SANITIZER` after the `C` line of the configuration in flight.
                        A block of forced SILK-only / max-bandwidth WB 20..120 ms frames at the highest rates covers
                        bitrate_bps*frame_size (:1867).
                        `huge`: instead out_data_bytes = 10^8 and 2^31-1 (honestly allocated buffers). */
#include "vcommon.h"
#include "opus_encoder.c"
#include "opus_multistream.h"
#ifndef MS_FRAME_TMP
#define MS_FRAME_TMP (6*1275+12)   /* opus_multistream_encoder.c */
#endif

/* ------------------------------------------------------------------ dual evaluation */
typedef struct { long long a; opus_int32 b; } D;
static D tr[64]; static int ntr;
static opus_int32 w32(long long x) { return (opus_int32)(unsigned int)(unsigned long long)x; }
static D K(long long c) { D r; r.a = c; r.b = w32(c); return r; }
static D REC(D x) { if (ntr < 64) tr[ntr++] = x; return x; }
static D ADD(D x, D y) { D r; r.a = x.a + y.a; r.b = w32((long long)x.b + y.b); return r; }
static D SUB(D x, D y) { D r; r.a = x.a - y.a; r.b = w32((long long)x.b - y.b); return r; }
static D MUL(D x, D y) { D r; r.a = x.a * y.a; r.b = w32((long long)x.b * y.b); return r; }
/* C division (truncating); a zero divisor gives 0 on both sides, as in the Lean model (never on the domain) */
static D DIV(D x, D y) { D r; r.a = y.a ? x.a / y.a : 0; r.b = y.b ? w32((long long)x.b / y.b) : 0; return r; }
static D MIN_(D x, D y) { D r; r.a = x.a < y.a ? x.a : y.a; r.b = x.b < y.b ? x.b : y.b; return r; }
static D MAX_(D x, D y) { D r; r.a = x.a > y.a ? x.a : y.a; r.b = x.b > y.b ? x.b : y.b; return r; }
static void emit(void)
{
   int i, ok = 1;
   printf("O t=");
   for (i = 0; i < ntr; i++) { printf("%s%lld", i ? "," : "", tr[i].a); if (tr[i].a != (long long)tr[i].b) ok = 0; }
   printf(" w=%d\n", ok);
}
static void realdiff(const char *fn, long long real)
{
   printf("O REALDIFF %s real=%lld trace_last=%lld\n", fn, real, tr[ntr - 1].a);
}

/* ------------------------------------------------------------------ the traced expressions */
/* Each function records (REC) exactly the entries of the Lean trace of the same name, in the same order. */
/* opus_encoder.c:686-695 */
static void t_ub(int fs, int ch, int ub, int fsz, int m)
{
   OpusEncoder st; D f, a, b, c, d; long long real;
   printf("I encskel ranges ub %d %d %d %d %d\n", fs, ch, ub, fsz, m); ntr = 0;
   f = K(fsz ? fsz : fs / 400);
   a = REC(MUL(K(60), K(fs))); a = REC(DIV(a, f));                 /* 60*st->Fs/frame_size */
   b = REC(MUL(K(fs), K(ch)));                                     /* st->Fs*st->channels */
   d = REC(ADD(a, b));
   c = REC(MUL(K(m), K(8))); c = REC(MUL(c, K(fs))); c = REC(DIV(c, f));   /* max_data_bytes*8*st->Fs/frame_size */
   memset(&st, 0, sizeof(st)); st.Fs = fs; st.channels = ch; st.user_bitrate_bps = ub;
   fflush(stdout);
   real = user_bitrate_to_bitrate(&st, fsz, m);
   REC(ub == OPUS_AUTO ? d : ub == OPUS_BITRATE_MAX ? c : K(ub));
   if (real != tr[ntr - 1].a) realdiff("ub", real); else emit();
}
/* opus_encoder.c:1253-1261 */
static void t_cbr(int fs, int fsz, int b, int m)
{
   D fr12, x, h, q, c, y;
   printf("I encskel ranges cbr %d %d %d %d\n", fs, fsz, b, m); ntr = 0;
   REC(DIV(K(fs), K(fsz)));                                        /* frame_rate = st->Fs/frame_size */
   fr12 = REC(MUL(K(12), K(fs))); fr12 = REC(DIV(fr12, K(fsz)));   /* frame_rate12 = 12*st->Fs/frame_size */
   x = REC(MUL(K(12), K(b))); x = REC(DIV(x, K(8)));               /* 12*st->bitrate_bps/8 */
   h = REC(DIV(fr12, K(2)));
   q = REC(ADD(x, h)); q = REC(DIV(q, fr12));
   c = REC(MIN_(q, K(m)));                                         /* cbr_bytes */
   REC(MAX_(K(1), c));                                             /* max_data_bytes = IMAX(1, cbr_bytes) */
   y = REC(MUL(c, fr12)); y = REC(MUL(y, K(8))); REC(DIV(y, K(12)));   /* cbr_bytes*(opus_int32)frame_rate12*8/12 */
   emit();
}
/* opus_encoder.c:1267-1268, :1338 */
static void t_gate(int fs, int fsz, int br, int cbr, int m)
{
   D fr, x;
   printf("I encskel ranges gate %d %d %d %d %d\n", fs, fsz, br, cbr, m); ntr = 0;
   fr = REC(DIV(K(fs), K(fsz)));
   x = REC(MUL(K(3), fr)); REC(MUL(x, K(8)));                      /* 3*frame_rate*8 */
   x = REC(MUL(K(m), fr));                                         /* max_data_bytes*frame_rate */
   REC(MUL(MUL(fr, K(m)), K(8)));                                  /* frame_rate*max_data_bytes*8 (first product = previous entry) */
   emit();
}
/* opus_encoder.c:962-993 — all three mode branches (superset), then the value returned */
static void t_er(int br, int ch, int fr, int vbr, int mode, int cx, int loss)
{
   D bb, d, p, e1, x, e2, k, e3, y, e4, s, t, c9, l, u, last; long long real;
   printf("I encskel ranges er %d %d %d %d %d %d %d\n", br, ch, fr, vbr, mode, cx, loss); ntr = 0;
   bb = REC(MUL(K(40), K(ch))); bb = REC(ADD(bb, K(20))); d = REC(SUB(K(fr), K(50)));
   p = REC(MUL(bb, d));                                            /* (40*channels+20)*(frame_rate - 50) */
   e1 = REC(fr > 50 ? SUB(K(br), p) : K(br));
   x = REC(DIV(e1, K(12)));                                        /* equiv/12 */
   e2 = REC(!vbr ? SUB(e1, x) : e1);
   k = REC(ADD(K(90), K(cx))); y = REC(MUL(e2, k)); e3 = REC(DIV(y, K(100)));   /* equiv*(90+complexity)/100 */
   y = REC(MUL(e3, K(4)));                                         /* equiv*4/5 */
   e4 = REC(cx < 2 ? DIV(y, K(5)) : e3);
   s = REC(MUL(e4, K(loss))); t = REC(MUL(K(6), K(loss))); t = REC(ADD(t, K(10))); s = REC(DIV(s, t));   /* equiv*loss/(6*loss+10) */
   c9 = REC(MUL(e3, K(9))); c9 = REC(DIV(c9, K(10)));              /* equiv*9/10 */
   l = REC(MUL(e3, K(loss))); u = REC(MUL(K(12), K(loss))); u = REC(ADD(u, K(20))); l = REC(DIV(l, u));  /* equiv*loss/(12*loss+20) */
   if (mode == MODE_SILK_ONLY || mode == MODE_HYBRID) last = SUB(e4, s);
   else if (mode == MODE_CELT_ONLY) last = cx < 5 ? c9 : e3;
   else last = SUB(e3, l);
   REC(last);
   fflush(stdout);
   real = compute_equiv_rate(br, ch, fr, vbr, mode, cx, loss);
   if (real != tr[ntr - 1].a) realdiff("er", real); else emit();
}
/* opus_encoder.c:1081-1107 */
static void t_rb(int m, int br, int fr, int ch)
{
   D bb, d, p, rr, rb, m8, b2, av, a2, q, k, cap, t, r; long long real;
   printf("I encskel ranges rb %d %d %d %d\n", m, br, fr, ch); ntr = 0;
   bb = REC(MUL(K(40), K(ch))); bb = REC(ADD(bb, K(20)));          /* base_bits */
   d = REC(SUB(K(200), K(fr))); p = REC(MUL(bb, d));
   rr = REC(ADD(K(br), p));                                        /* bitrate_bps + base_bits*(200 - frame_rate) */
   rr = REC(MUL(K(3), rr)); rr = REC(DIV(rr, K(2)));
   rb = REC(DIV(rr, K(1600)));
   m8 = REC(MUL(K(m), K(8))); b2 = REC(MUL(K(2), bb)); av = REC(SUB(m8, b2));   /* max_data_bytes*8 - 2*base_bits */
   a2 = REC(MUL(av, K(240))); q = REC(DIV(K(48000), K(fr))); k = REC(ADD(K(240), q));
   cap = REC(DIV(a2, k)); cap = REC(ADD(cap, bb)); cap = REC(DIV(cap, K(8)));
   r = MIN_(rb, cap);
   t = REC(MUL(K(8), K(ch))); t = REC(ADD(K(4), t));
   r = r.a > t.a ? MIN_(K(257), r) : K(0);
   REC(r);
   fflush(stdout);
   real = compute_redundancy_bytes(m, br, fr, ch);
   if (real != tr[ntr - 1].a) realdiff("rb", real); else emit();
}
/* opus_encoder.c:1867, :1952 */
static void t_bt(int fs, int fsz, int br, int m, int red)
{
   D a, p, f8, q, mn, bt, fr, x;
   printf("I encskel ranges bt %d %d %d %d %d\n", fs, fsz, br, m, red); ntr = 0;
   a = REC(SUB(K(m), K(red)));
   p = REC(MUL(K(br), K(fsz))); f8 = REC(MUL(K(fs), K(8))); q = REC(DIV(p, f8));   /* st->bitrate_bps * frame_size / (st->Fs * 8) */
   mn = REC(MIN_(a, q)); bt = REC(SUB(mn, K(1)));
   fr = REC(DIV(K(fs), K(fsz)));
   x = REC(MUL(K(8), bt)); REC(MUL(x, fr));                        /* 8 * bytes_target * frame_rate */
   emit();
}

/* opus_encoder.c:1616-1681 */
static void t_ml(int fs, int mode, int vbr, int ub, int fsz, int out, int cbr)
{
   D e, nb, x, hdr, rl, y;
   printf("I encskel ranges ml %d %d %d %d %d %d %d\n", fs, mode, vbr, ub, fsz, out, cbr); ntr = 0;
   REC(DIV(K(fs), K(50))); x = REC(MUL(K(3), K(fs))); REC(DIV(x, K(50)));        /* frame_size > st->Fs/50, > 3*st->Fs/50 */
   x = REC(MUL(K(2), K(fs))); REC(DIV(x, K(25))); REC(DIV(MUL(K(3), K(fs)), K(25))); REC(DIV(K(fs), K(25)));
   if (mode == MODE_SILK_ONLY) e = K(fsz == 2 * fs / 25 ? fs / 25 : fsz == 3 * fs / 25 ? 3 * fs / 50 : fs / 50);
   else e = K(fs / 50);
   REC(e);
   nb = REC(DIV(K(fsz), e));                                       /* nb_frames = frame_size/enc_frame_size */
   x = REC(SUB(nb, K(1))); x = REC(MUL(x, K(2))); hdr = REC(ADD(K(2), x));       /* 2+(nb_frames-1)*2 */
   if (nb.a == 2) hdr = K(3);
   rl = REC((vbr || ub == OPUS_BITRATE_MAX) ? K(out) : MIN_(K(cbr), K(out)));
   y = REC(ADD(nb, rl)); REC(SUB(y, hdr));                         /* nb_frames + repacketize_len - max_header_bytes */
   emit();
}
/* opus_encoder.c:1709-1716 */
static void t_cm(int fs, int br, int efs, int nb, int mls, int tot)
{
   D b3, d, q, a, c, r;
   printf("I encskel ranges cm %d %d %d %d %d %d\n", fs, br, efs, nb, mls, tot); ntr = 0;
   b3 = REC(MUL(K(3), K(br)));
   d = REC(MUL(K(24), K(fs))); d = REC(DIV(d, K(efs)));
   q = REC(DIV(b3, d));                                            /* 3*st->bitrate_bps/(3*8*st->Fs/enc_frame_size) */
   a = REC(DIV(K(mls), K(nb)));                                    /* max_len_sum/nb_frames */
   c = REC(MIN_(q, a));
   r = REC(SUB(K(mls), K(tot)));
   c = REC(MIN_(r, c));
   REC(MIN_(c, K(1276)));
   emit();
}
/* opus_encoder.c:768-791 */
static void t_fss(int fsz, int vd, int fs)
{
   D ns, d, x; long long real, r;
   printf("I encskel ranges fss %d %d %d\n", fsz, vd, fs); ntr = 0;
   fflush(stdout);
   real = frame_size_select(fsz, vd, fs);
   REC(DIV(K(fs), K(400)));
   if (fsz < fs / 400) { r = -1; goto done; }
   if (vd == OPUS_FRAMESIZE_ARG) ns = K(fsz);
   else if (vd >= OPUS_FRAMESIZE_2_5_MS && vd <= OPUS_FRAMESIZE_120_MS) {
      d = REC(SUB(K(vd), K(OPUS_FRAMESIZE_2_5_MS)));
      if (vd <= OPUS_FRAMESIZE_40_MS) ns = REC(MUL(K(fs / 400), K(1LL << d.a)));   /* (Fs/400)<<(vd-2_5_MS) */
      else { x = REC(SUB(d, K(2))); x = REC(MUL(x, K(fs))); ns = REC(DIV(x, K(50))); }
   } else { r = -1; goto done; }
   if (ns.a > fsz) { r = -1; goto done; }
   x = REC(MUL(K(6), K(fs))); REC(DIV(x, K(50)));
   if (ns.a > 6 * fs / 50) { r = -1; goto done; }
   REC(MUL(K(400), ns)); REC(MUL(K(200), ns)); REC(MUL(K(100), ns)); REC(MUL(K(50), ns)); REC(MUL(K(25), ns));
   REC(MUL(K(3), K(fs))); REC(MUL(K(4), K(fs))); REC(MUL(K(5), K(fs)));
   r = (400 * ns.a != fs && 200 * ns.a != fs && 100 * ns.a != fs && 50 * ns.a != fs && 25 * ns.a != fs && 50 * ns.a != 3LL * fs
        && 50 * ns.a != 4LL * fs && 50 * ns.a != 5LL * fs && 50 * ns.a != 6LL * fs) ? -1 : ns.a;
done:
   REC(K(r));
   if (real != r) realdiff("fss", real); else emit();
}
/* opus_multistream_encoder.c:856-859, :878-888, :976-986 */
static void t_ms(int vbr, int br, int rs, int nb, int fs, int fsz, int m, int tot, int s)
{
   D sp, fr, r3, b3, d, q1, q2, mm, cm, x, y, f8;
   printf("I encskel ranges ms %d %d %d %d %d %d %d %d %d\n", vbr, br, rs, nb, fs, fsz, m, tot, s); ntr = 0;
   sp = REC(MUL(K(nb), K(2))); sp = REC(SUB(sp, K(1)));            /* smallest_packet = nb_streams*2-1 */
   fr = REC(DIV(K(fs), K(fsz)));
   if (fr.a == 10) sp = ADD(sp, K(nb));
   REC(sp);
   r3 = REC(MUL(K(3), K(rs))); b3 = REC(MUL(K(3), K(br)));
   d = REC(MUL(K(24), K(fs))); d = REC(DIV(d, K(fsz)));            /* 3*8*Fs/frame_size */
   q1 = REC(DIV(r3, d)); q2 = REC(DIV(b3, d));
   mm = K(m);
   if (!vbr) { if (br == OPUS_AUTO) mm = MIN_(mm, q1); else if (br != OPUS_BITRATE_MAX) mm = MIN_(mm, MAX_(sp, q2)); }
   REC(mm);
   cm = REC(SUB(mm, K(tot)));
   x = REC(SUB(K(nb), K(s))); x = REC(SUB(x, K(1))); y = REC(MUL(K(2), x)); y = REC(SUB(y, K(1)));   /* 2*(nb_streams-s-1)-1 */
   cm = REC(SUB(cm, MAX_(K(0), y)));
   if (fr.a == 10) cm = SUB(cm, x);
   cm = MIN_(cm, K(MS_FRAME_TMP));
   if (s != nb - 1) cm = SUB(cm, K(cm.a > 253 ? 2 : 1));
   f8 = REC(MUL(K(8), K(fs))); f8 = REC(DIV(f8, K(fsz)));
   REC(MUL(cm, f8));                                               /* curr_max*(8*Fs/frame_size) */
   REC(cm);
   emit();
}

/* ------------------------------------------------------------------ generators */
static const int FS[5] = {8000, 12000, 16000, 24000, 48000};
static int dur(int fs, int k) { static const int n[9] = {1, 2, 4, 8, 16, 24, 32, 40, 48}; return fs / 400 * n[k]; }
static int pick(vrng *r, const int *a, int n) { return a[vbelow(r, n)]; }
static int rbits(vrng *r, int lo, int hi)
{  /* boundary-biased */
   switch (vbelow(r, 6)) { case 0: return lo; case 1: return hi; case 2: return lo + (int)vbelow(r, 3) <= hi ? lo + (int)vbelow(r, 3) : lo;
      case 3: return hi - (int)vbelow(r, 3) >= lo ? hi - (int)vbelow(r, 3) : hi; default: return lo + (int)(vnext(r) % ((unsigned long long)hi - lo + 1)); }
}
static int user_rate(vrng *r, int ch)
{
   switch (vbelow(r, 5)) { case 0: return OPUS_AUTO; case 1: return OPUS_BITRATE_MAX; default: return rbits(r, 500, 300000 * ch); }
}
static int some_bitrate(vrng *r, int fs, int fsz, int ch, int m)
{  /* a bit-rate st->bitrate_bps can hold after :1249-1261 */
   int ub = user_rate(r, ch);
   if (ub == OPUS_AUTO) return 60 * fs / fsz + fs * ch;
   if (ub == OPUS_BITRATE_MAX) return m * 8 * fs / fsz;
   return ub;
}
static void run_trace(unsigned long long seed, long n)
{
   vrng r; long i; int a, b, c;
   static const int MODES[4] = {0, MODE_SILK_ONLY, MODE_HYBRID, MODE_CELT_ONLY};
   static const int OUTS[12] = {1, 2, 3, 4, 255, 1275, 1276, 1277, 4000, 65536, 100000000, 2147483641};
   r.s = seed * 0x9E3779B97F4A7C15ULL + 5;
   /* grids: every Fs x duration at the extreme settings */
   for (a = 0; a < 5; a++) for (b = 0; b < 9; b++) {
      int fs = FS[a], fsz = dur(fs, b);
      for (c = 1; c <= 2; c++) {
         t_ub(fs, c, OPUS_AUTO, fsz, 1276); t_ub(fs, c, OPUS_BITRATE_MAX, fsz, 1276); t_ub(fs, c, OPUS_BITRATE_MAX, fsz, 1);
         t_ub(fs, c, 300000 * c, fsz, 1276); t_ub(fs, c, 500, fsz, 1);
         t_er(4083200, c, fs / fsz, 0, MODES[b % 4], 10, 100); t_er(0, c, fs / fsz, 0, MODES[(b + 1) % 4], 0, 100);
         t_rb(1276, 4083200, fs / fsz, c); t_rb(1, 0, fs / fsz, c);
      }
      t_cbr(fs, fsz, 4083200, 1276); t_cbr(fs, fsz, 0, 1); t_cbr(fs, fsz, 500, 1276); t_cbr(fs, fsz, 600000, 1276);
      t_gate(fs, fsz, 4083200, 1276, 1276); t_gate(fs, fsz, 0, 0, 1);
      if (fsz > fs / 50) for (c = 0; c < 12; c++) {
         t_ml(fs, MODE_SILK_ONLY, 1, 64000, fsz, OUTS[c], -1); t_ml(fs, MODE_CELT_ONLY, 0, OPUS_BITRATE_MAX, fsz, OUTS[c], 1276);
         t_ml(fs, MODE_HYBRID, 0, 64000, fsz, OUTS[c], 1276);
      }
      for (c = 5000; c <= 5010; c++) { t_fss(fsz, c, fs); t_fss(2147483647, c, fs); t_fss(fsz - 1, c, fs); t_fss(6 * fs / 50 + 1, c, fs); }
      t_ms(0, OPUS_AUTO, 715827882, 255, fs, fsz, 2147483647, 0, 0); t_ms(0, 76500000, 76500000, 255, fs, fsz, 2147483647, 0, 254);
      t_ms(1, OPUS_BITRATE_MAX, 500, 1, fs, fsz, 1, 0, 0); t_ms(0, 500, 500, 255, fs, fsz, 100000, 0, 0);
      t_cm(fs, 4083200, fs / 50, 6, 2147483647, 0); t_cm(fs, 0, 3 * fs / 50, 2, 2, 2); t_cm(fs, 600000, fs / 25, 2, 4001, 1276);
      if (fsz <= 3 * fs / 50) { t_bt(fs, fsz, 600000, 1276, 0); t_bt(fs, fsz, 1276 * 8 * (fs / fsz), 1276, 257); t_bt(fs, fsz, 500, 1, 0); }
   }
   for (i = 0; i < n; i++) {
      int fs = pick(&r, FS, 5), k = vbelow(&r, 9), fsz = dur(fs, k), ch = 1 + vbelow(&r, 2), m = rbits(&r, 1, 1276);
      int br = some_bitrate(&r, fs, fsz, ch, m), mode = pick(&r, MODES, 4);
      t_ub(fs, ch, user_rate(&r, ch), vchance(&r, 5) ? 0 : fsz, m);
      t_cbr(fs, fsz, vchance(&r, 20) ? rbits(&r, 0, 4083200) : br, m);
      t_gate(fs, fsz, br, rbits(&r, 0, m), m);
      t_er(vchance(&r, 30) ? rbits(&r, 0, 4083200) : br, ch, fs / fsz, vbelow(&r, 2), mode, rbits(&r, 0, 10), rbits(&r, 0, 100));
      t_rb(m, vchance(&r, 30) ? rbits(&r, 0, 4083200) : br, fs / fsz, ch);
      if (k >= 4) t_ml(fs, mode ? mode : MODE_CELT_ONLY, vbelow(&r, 2), user_rate(&r, ch), fsz,
                       vchance(&r, 50) ? rbits(&r, 1, 4000) : rbits(&r, 1, 2147483641), rbits(&r, 0, 1276));
      { int nb = 2 + vbelow(&r, 5), efs = fs / 50 * (1 + vbelow(&r, 3)), mls = vchance(&r, 70) ? rbits(&r, 0, 9000) : rbits(&r, 0, 2147483647);
        t_cm(fs, br, efs, nb, mls, rbits(&r, 0, mls)); }
      t_fss(vchance(&r, 50) ? fsz : rbits(&r, 0, 2147483647), vchance(&r, 10) ? (int)vnext(&r) : 5000 + (int)vbelow(&r, 10), fs);
      { int nb = rbits(&r, 1, 255), mm = vchance(&r, 50) ? rbits(&r, 1, 9000) : rbits(&r, 1, 2147483647);
        int ub = vchance(&r, 30) ? OPUS_AUTO : vchance(&r, 30) ? OPUS_BITRATE_MAX : rbits(&r, 500, 76500000);
        int vb = vbelow(&r, 2), rs = rbits(&r, 500, 715827882);
        long long d = 24LL * fs / fsz, sp = 2 * nb - 1 + (fs / fsz == 10 ? nb : 0), cl = mm, q;   /* tot_size <= the clamped budget */
        if (!vb && ub == OPUS_AUTO) { q = 3LL * rs / d; if (q < cl) cl = q; }
        else if (!vb && ub != OPUS_BITRATE_MAX) { q = 3LL * ub / d; if (q < sp) q = sp; if (q < cl) cl = q; }
        t_ms(vb, ub, rs, nb, fs, fsz, mm, rbits(&r, 0, (int)cl), rbits(&r, 0, nb - 1)); }
      { int e = dur(fs, vbelow(&r, 6)); int b2 = some_bitrate(&r, fs, vchance(&r, 50) ? e : fsz >= e ? fsz : e, ch, m);
        t_bt(fs, e, b2, m, rbits(&r, 0, m < 257 ? m : 257)); }
   }
}

/* ------------------------------------------------------------------ search: the real encoder under UBSan */
static short pcmbuf[5760 * 2];
static long ncfg;
static int g_maxbw;   /* OPUS_SET_MAX_BANDWIDTH for the next configuration (0 = leave) */
static void fill_pcm(vrng *r, int kind)
{
   int i;
   for (i = 0; i < 5760 * 2; i++)
      pcmbuf[i] = kind == 0 ? 0 : kind == 1 ? (short)((i * 7919) % 20000 - 10000) : (short)(vnext(r) & 0xffff);
}
static void enc_case(vrng *r, int fs, int ch, int app, int k, int ub, int vbr, int cvbr, int fmode, long out, int cx, int loss, int fec)
{
   int err, i, fsz = dur(fs, k), ret;
   unsigned char *buf;
   OpusEncoder *e = opus_encoder_create(fs, ch, app, &err);
   if (!e) { printf("C create-failed fs=%d ch=%d app=%d\n", fs, ch, app); return; }
   opus_encoder_ctl(e, OPUS_SET_BITRATE(ub)); opus_encoder_ctl(e, OPUS_SET_VBR(vbr)); opus_encoder_ctl(e, OPUS_SET_VBR_CONSTRAINT(cvbr));
   if (fmode) opus_encoder_ctl(e, OPUS_SET_FORCE_MODE(fmode));
   if (g_maxbw) opus_encoder_ctl(e, OPUS_SET_MAX_BANDWIDTH(g_maxbw));
   opus_encoder_ctl(e, OPUS_SET_COMPLEXITY(cx)); opus_encoder_ctl(e, OPUS_SET_PACKET_LOSS_PERC(loss)); opus_encoder_ctl(e, OPUS_SET_INBAND_FEC(fec));
   buf = (unsigned char *)malloc(out > 0 ? out : 1);
   if (!buf) { printf("C malloc-failed out=%ld\n", out); opus_encoder_destroy(e); return; }
   for (i = 0; i < 3; i++) {
      fill_pcm(r, (int)((ncfg + i) % 3));
      printf("C enc fs=%d ch=%d app=%d frame=%d ub=%d vbr=%d cvbr=%d fmode=%d cx=%d loss=%d fec=%d maxbw=%d call=%d out=%ld\n",
             fs, ch, app, fsz, ub, vbr, cvbr, fmode, cx, loss, fec, g_maxbw, i, out);
      fflush(stdout);
      ret = opus_encode(e, pcmbuf, fsz, buf, (opus_int32)out);
      printf("R %d\n", ret);
      if (i == 1) { opus_int32 g; opus_encoder_ctl(e, OPUS_GET_BITRATE(&g)); }
   }
   ncfg++;
   free(buf); opus_encoder_destroy(e);
}
static void ms_case(vrng *r, int fs, int nch, int family, int k, int ub, int vbr, long out)
{
   int err, streams, coupled, i, fsz = dur(fs, k), ret;
   unsigned char mapping[256], *buf; short *pcm;
   OpusMSEncoder *e;
   if (family < 0) { /* explicit mapping: nch inputs onto one coupled stream + mono streams */
      streams = nch > 2 ? (nch < 128 ? nch - 1 : 127) : 1; coupled = nch >= 2 ? 1 : 0;
      for (i = 0; i < nch; i++) mapping[i] = (unsigned char)(i % (streams + coupled));
      e = opus_multistream_encoder_create(fs, nch, streams, coupled, mapping, OPUS_APPLICATION_AUDIO, &err);
   } else e = opus_multistream_surround_encoder_create(fs, nch, family, &streams, &coupled, mapping, OPUS_APPLICATION_AUDIO, &err);
   if (!e) return;
   opus_multistream_encoder_ctl(e, OPUS_SET_BITRATE(ub)); opus_multistream_encoder_ctl(e, OPUS_SET_VBR(vbr));
   pcm = (short *)calloc((size_t)fsz * nch, sizeof(short));
   for (i = 0; i < fsz * nch; i++) pcm[i] = (short)(vnext(r) & 0x3fff);
   buf = (unsigned char *)malloc(out > 0 ? out : 1);
   if (buf) for (i = 0; i < 2; i++) {
      printf("C ms fs=%d nch=%d family=%d streams=%d coupled=%d frame=%d ub=%d vbr=%d call=%d out=%ld\n", fs, nch, family, streams, coupled, fsz, ub, vbr, i, out);
      fflush(stdout);
      ret = opus_multistream_encode(e, pcm, fsz, buf, (opus_int32)out);
      printf("R %d\n", ret);
   }
   ncfg++;
   free(buf); free(pcm); opus_multistream_encoder_destroy(e);
}
static void run_enc(unsigned long long seed, int level, int huge)
{
   vrng r; int a, k, c, u, v, o;
   static const int APPS[3] = {OPUS_APPLICATION_VOIP, OPUS_APPLICATION_AUDIO, OPUS_APPLICATION_RESTRICTED_LOWDELAY};
   static const int FM[4] = {0, MODE_SILK_ONLY, MODE_HYBRID, MODE_CELT_ONLY};
   static const long OUTS[10] = {1, 2, 3, 4, 100, 1275, 1276, 1277, 4000, 1000000};
   static const long HUGE_OUTS[2] = {100000000L, 2147483647L};
   r.s = seed * 0x9E3779B97F4A7C15ULL + 11;
   if (huge) {
      for (a = 0; a < 5; a += 2) for (k = 4; k < 9; k += 2) for (o = 0; o < 2; o++)
         enc_case(&r, FS[a], 2, OPUS_APPLICATION_AUDIO, k, 64000, 1, 0, 0, HUGE_OUTS[o], 5, 0, 0);
      printf("# configs=%ld\n", ncfg);
      return;
   }
   for (a = 0; a < 5; a++) for (k = 0; k < 9; k++) for (c = 1; c <= 2; c++) for (u = 0; u < 5; u++) for (v = 0; v < 3; v++) {
      int ub = u == 0 ? OPUS_AUTO : u == 1 ? OPUS_BITRATE_MAX : u == 2 ? 500 : u == 3 ? 300000 * c : 2147483647;
      int reps = level ? 4 : 1, q;
      for (q = 0; q < reps; q++) {
         long out = (u == 1 || vbelow(&r, 3) == 0) ? OUTS[5 + vbelow(&r, 5)] : OUTS[vbelow(&r, 10)];
         int fm = FM[vbelow(&r, 4)], cx = vchance(&r, 50) ? (int)vbelow(&r, 11) : (vchance(&r, 50) ? 0 : 10);
         int loss = vchance(&r, 50) ? 0 : (vchance(&r, 50) ? 100 : (int)vbelow(&r, 101));
         enc_case(&r, FS[a], c, APPS[vbelow(&r, 3)], k, ub, v != 2, v == 1, fm, out, cx, loss, vbelow(&r, 2));
      }
   }
   /* long SILK-only frames at the highest rates the ctl lets through (bitrate_bps*frame_size, opus_encoder.c:1867) */
   g_maxbw = OPUS_BANDWIDTH_WIDEBAND;
   for (a = 0; a < 5; a++) for (k = 3; k < 9; k++) for (c = 1; c <= 2; c++) for (u = 0; u < 3; u++) for (v = 0; v < 2; v++)
      enc_case(&r, FS[a], c, OPUS_APPLICATION_VOIP, k, u == 0 ? 300000 * c : u == 1 ? 2147483647 : OPUS_BITRATE_MAX, !v, 0, MODE_SILK_ONLY,
               u == 2 ? 1276 : 4000, 10, v ? 100 : 0, v);
   g_maxbw = 0;
   /* multistream: many channels, extreme rates */
   for (a = 0; a < 5; a += (level ? 1 : 2)) for (k = 0; k < 9; k += (level ? 1 : 3)) for (u = 0; u < 4; u++) {
      static const int NCH[6] = {1, 2, 6, 8, 64, 255};
      int nch = NCH[vbelow(&r, 6)];
      int ub = u == 0 ? OPUS_AUTO : u == 1 ? OPUS_BITRATE_MAX : u == 2 ? 500 : 2147483647;
      ms_case(&r, FS[a], nch, -1, k, ub, vbelow(&r, 2), OUTS[4 + vbelow(&r, 6)]);
      ms_case(&r, FS[a], 1 + vbelow(&r, 8), 1, k, ub, vbelow(&r, 2), OUTS[4 + vbelow(&r, 6)]);
      if (u == 0) ms_case(&r, FS[a], 16, 2, k, 2147483647, 0, 1000000);
   }
   printf("# configs=%ld\n", ncfg);
}

int main(int argc, char **argv)
{
   if (argc < 4) { fprintf(stderr, "usage: c05_ranges trace <seed> <n> | enc <seed> <level> [huge]\n"); return 64; }
   setvbuf(stdout, NULL, _IOFBF, 1 << 16);
   vinstall_traps();
   if (!strcmp(argv[1], "trace")) run_trace(strtoull(argv[2], 0, 10), atol(argv[3]));
   else if (!strcmp(argv[1], "enc")) run_enc(strtoull(argv[2], 0, 10), atoi(argv[3]), argc > 4 && !strcmp(argv[4], "huge"));
   else return 64;
   return 0;
}
