/* c17_alloc.c — correspondence harness + implementation-only search for the CELT bit allocation
   (celt/rate.c clt_compute_allocation / interp_bits2pulses, celt/celt.c init_caps) (C17).
   The real rate.c is #included; the four range-coder entry points it calls are replaced by stubs that record the
   encoder's calls / replay a prepared list of raw values on the decoder side (bit: r%2, uint: r%ft), so both
   sides of the mirrored `if (encode) … else …` branches run unchanged.
   Modes:  tie <level> <seed>      `I cwrs alloc …` / `O …` lines for `opusmodel check`
           search <level> <seed>   properties on the implementation alone: budget, ranges, decoder(encoder's bits) =
                                   encoder; prints W / X / S lines
           stdin                   answer `cwrs alloc …` lines                                                   */
#ifdef HAVE_CONFIG_H
#include "config.h"
#endif
#include "vcommon.h"
#include "celt/entenc.h"
#include "celt/entdec.h"

#define MAXOPS 64
typedef struct { int kind; unsigned v, ft; } vop;      /* kind 0: bit, 1: uint */
static vop ops[MAXOPS]; static int nops;
static unsigned oracle[MAXOPS]; static int opos, noracle;
static void rec(int kind, unsigned v, unsigned ft) { if (nops < MAXOPS) { ops[nops].kind = kind; ops[nops].v = v; ops[nops].ft = ft; } nops++; }
static void verif_enc_bit_logp(ec_enc *e, int val, unsigned logp) { (void)e; (void)logp; rec(0, val != 0, 2); }
static int verif_dec_bit_logp(ec_dec *d, unsigned logp) { unsigned r = opos < noracle ? oracle[opos] : 0; (void)d; (void)logp; opos++; rec(0, r % 2, 2); return (int)(r % 2); }
static void verif_enc_uint(ec_enc *e, opus_uint32 fl, opus_uint32 ft) { (void)e; rec(1, fl, ft); }
static opus_uint32 verif_dec_uint(ec_dec *d, opus_uint32 ft) { unsigned r = opos < noracle ? oracle[opos] : 0; (void)d; opos++; rec(1, r % ft, ft); return r % ft; }
#define ec_enc_bit_logp verif_enc_bit_logp
#define ec_dec_bit_logp verif_dec_bit_logp
#define ec_enc_uint verif_enc_uint
#define ec_dec_uint verif_dec_uint
#include "celt/rate.c"
#undef ec_enc_bit_logp
#undef ec_dec_bit_logp
#undef ec_enc_uint
#undef ec_dec_uint
#include "celt/celt.h"
#include "opus_custom.h"

#define NB 21
static const CELTMode *mode;

typedef struct {
   int encode, start, end, C, LM, total, trim, intensity, dual, prev, sigbw;
   int offsets[NB];
   unsigned orc[MAXOPS]; int norc;
} acase;
typedef struct { int cb, balance, intensity, dual; int pulses[NB], ebits[NB], prio[NB]; int nops; vop ops[MAXOPS]; } ares;

static void run_case(const acase *a, ares *r)
{
   int *cap = (int *)malloc(NB * sizeof(int)), *offs = (int *)malloc(NB * sizeof(int));
   int *pulses = (int *)malloc(NB * sizeof(int)), *ebits = (int *)malloc(NB * sizeof(int)), *prio = (int *)malloc(NB * sizeof(int));
   opus_int32 balance = 0; int intensity = a->intensity, dual = a->dual, j;
   ec_ctx dummy;
   memset(&dummy, 0, sizeof(dummy));
   init_caps(mode, cap, a->LM, a->C);
   memcpy(offs, a->offsets, NB * sizeof(int));
   for (j = 0; j < NB; j++) pulses[j] = ebits[j] = prio[j] = -777;
   nops = 0; opos = 0; noracle = a->norc; memcpy(oracle, a->orc, sizeof(oracle));
   r->cb = clt_compute_allocation(mode, a->start, a->end, offs, cap, a->trim, &intensity, &dual, a->total, &balance,
                                  pulses, ebits, prio, a->C, a->LM, &dummy, a->encode, a->prev, a->sigbw);
   r->balance = balance; r->intensity = intensity; r->dual = dual;
   memcpy(r->pulses, pulses, sizeof(r->pulses)); memcpy(r->ebits, ebits, sizeof(r->ebits)); memcpy(r->prio, prio, sizeof(r->prio));
   r->nops = nops < MAXOPS ? nops : MAXOPS; memcpy(r->ops, ops, sizeof(r->ops));
   free(cap); free(offs); free(pulses); free(ebits); free(prio);
}

static void pr_case(const acase *a)
{
   int j;
   printf("I cwrs alloc %s %d %d %d %d %d %d %d %d %d %d ", a->encode ? "enc" : "dec", a->start, a->end, a->C, a->LM, a->total,
          a->trim, a->intensity, a->dual, a->prev, a->sigbw);
   for (j = 0; j < NB; j++) printf("%s%d", j ? "," : "", a->offsets[j]);
   printf(" ");
   if (a->norc == 0) printf("-"); else for (j = 0; j < a->norc; j++) printf("%s%u", j ? "," : "", a->orc[j]);
   printf("\n"); fflush(stdout);
}
static void pr_res(const acase *a, const ares *r)
{
   int j;
   printf("O cb=%d bal=%d int=%d dual=%d p=", r->cb, r->balance, r->intensity, r->dual);
   for (j = a->start; j < a->end; j++) printf("%s%d", j > a->start ? "," : "", r->pulses[j]);
   printf(" e="); for (j = a->start; j < a->end; j++) printf("%s%d", j > a->start ? "," : "", r->ebits[j]);
   printf(" f="); for (j = a->start; j < a->end; j++) printf("%s%d", j > a->start ? "," : "", r->prio[j]);
   printf(" ops=");
   if (r->nops == 0) printf("-");
   for (j = 0; j < r->nops; j++) { if (j) printf(","); if (r->ops[j].kind) printf("u%u/%u", r->ops[j].v, r->ops[j].ft); else printf("b%u", r->ops[j].v); }
   printf("\n");
}

/* ---------- generator */
static const int ranges[][2] = {{0,21},{0,20},{0,19},{0,17},{0,15},{0,13},{17,21},{17,20},{17,19},{0,1},{0,2},{20,21},{17,18}};
static void gen(vrng *r, acase *a, int t)
{
   int cap[NB], j, k;
   memset(a, 0, sizeof(*a));
   a->encode = (int)vbelow(r, 2);
   a->LM = (int)vbelow(r, 4); a->C = 1 + (int)vbelow(r, 2);
   if (vchance(r, 80)) { k = (int)vbelow(r, 13); a->start = ranges[k][0]; a->end = ranges[k][1]; }
   else { a->start = (int)vbelow(r, 21); a->end = a->start + 1 + (int)vbelow(r, 21 - a->start); }
   switch (vbelow(r, 8)) {
      case 0: a->total = (int)vbelow(r, 64); break;
      case 1: a->total = (int)vbelow(r, 600); break;
      case 2: a->total = (int)vbelow(r, 81601); break;
      case 3: a->total = 81600 - (int)vbelow(r, 200); break;
      case 4: a->total = -(int)vbelow(r, 20); break;
      default: a->total = (int)vbelow(r, 12000) << (a->LM > 1 ? 1 : 0); break;
   }
   if (t % 97 == 0) a->total = t % 2 ? 0 : 8;
   a->trim = (int)vbelow(r, 11);
   a->intensity = a->start + (int)vbelow(r, a->end - a->start + 1);
   a->dual = (int)vbelow(r, 2);
   a->prev = (int)vbelow(r, 22);
   a->sigbw = vchance(r, 60) ? a->end - 1 : (int)vbelow(r, 22);
   init_caps(mode, cap, a->LM, a->C);
   if (vchance(r, 55)) {
      int dens = 5 + (int)vbelow(r, 60);
      for (j = a->start; j < a->end; j++) if (vchance(r, dens)) {
         int N = (mode->eBands[j + 1] - mode->eBands[j]) << a->LM;
         int width = a->C * N, quanta = width << 3 < (6 << 3 > width ? 6 << 3 : width) ? width << 3 : (6 << 3 > width ? 6 << 3 : width);
         int boost = quanta * (1 + (int)vbelow(r, 6));
         if (vchance(r, 25)) boost = cap[j] - (int)vbelow(r, 3) + 1;
         if (vchance(r, 10)) boost = cap[j] + quanta;
         a->offsets[j] = boost < 0 ? 0 : boost;
      }
   }
   a->norc = a->encode ? 0 : 40;
   {
      int bias = (int)vbelow(r, 4);    /* 0: fair bits, 1: mostly 0 (skip many bands), 2: mostly 1, 3: all 0 */
      for (j = 0; j < a->norc; j++) {
         unsigned v = (unsigned)(vnext(r) >> 33);
         if (bias == 1 && vchance(r, 85)) v &= ~1u;
         if (bias == 2 && vchance(r, 85)) v |= 1u;
         if (bias == 3 && j < 30) v &= ~1u;
         a->orc[j] = v;
      }
   }
}

static void run_tie(int level, uint64_t seed)
{
   vrng r; int t, n = level ? 400000 : 40000; acase a; ares res;
   r.s = seed * 0x9E3779B97F4A7C15ULL + 4242;
   for (t = 0; t < n; t++) { gen(&r, &a, t); pr_case(&a); run_case(&a, &res); pr_res(&a, &res); }
}

/* ---------- implementation-only search */
static long s_cases, s_wit; static char cur[1200];
static void case_str(const acase *a, char *o, int cap)
{
   int j, p = snprintf(o, cap, "alloc %s start=%d end=%d C=%d LM=%d total=%d trim=%d intensity=%d dual=%d prev=%d sigbw=%d offsets=", a->encode ? "enc" : "dec",
                       a->start, a->end, a->C, a->LM, a->total, a->trim, a->intensity, a->dual, a->prev, a->sigbw);
   for (j = 0; j < NB && p < cap - 12; j++) p += snprintf(o + p, cap - p, "%s%d", j ? "," : "", a->offsets[j]);
   if (!a->encode) { p += snprintf(o + p, cap - p, " oracle="); for (j = 0; j < a->norc && p < cap - 12; j++) p += snprintf(o + p, cap - p, "%s%u", j ? "," : "", a->orc[j]); }
}
static void witness(const acase *a, const char *expected, const char *observed, const char *why)
{
   char in[1200]; case_str(a, in, sizeof(in));
   if (s_wit++ < 10) printf("W alloc|%s|%s|%s|%s\n", in, expected, observed, why);
}
static void crash_handler(int sig)
{
   printf("W alloc|%s|returns normally|%s|the implementation crashed on this input\n", cur, sig == SIGABRT ? "abort() (celt_assert)" : "fatal signal");
   printf("S cases=%ld witnesses=%ld distinct=0\n", s_cases, s_wit + 1); fflush(stdout); _exit(0);
}

static void check_case(const acase *a)
{
   ares r, d; int cap[NB], j, sig = 0; long sum = 0; char ob[300];
   case_str(a, cur, sizeof(cur));
   run_case(a, &r);
   s_cases++;
   init_caps(mode, cap, a->LM, a->C);
   /* signalling cost in 1/8 bits: every bit_logp(…,1) call costs exactly one bit; the intensity uint is charged at
      the reserved LOG2_FRAC_TABLE[codedBands-start] (what the allocator itself accounts for) */
   for (j = 0; j < r.nops; j++) sig += r.ops[j].kind ? LOG2_FRAC_TABLE[r.ops[j].ft - 1] : 8;
   for (j = a->start; j < a->end; j++) {
      sum += r.pulses[j] + ((long)r.ebits[j] * a->C << BITRES);
      if (r.pulses[j] < 0 || r.ebits[j] < 0 || r.ebits[j] > MAX_FINE_BITS || (r.prio[j] != 0 && r.prio[j] != 1)) {
         snprintf(ob, sizeof(ob), "band %d: pulses=%d ebits=%d fine_priority=%d", j, r.pulses[j], r.ebits[j], r.prio[j]);
         witness(a, "pulses >= 0, 0 <= ebits <= MAX_FINE_BITS, fine_priority in {0,1}", ob, "per-band output out of range"); return;
      }
      if (j < r.cb && r.pulses[j] + ((long)r.ebits[j] * a->C << BITRES) > (cap[j] > (a->C << BITRES) ? cap[j] : (a->C << BITRES)) + 0) {
         /* bits[j] after the cap clamp is at most cap[j] (N>1) or C<<BITRES (N=1); extra fine bits come out of `excess` */
         long lim = (cap[j] > (a->C << BITRES) ? cap[j] : (a->C << BITRES)) + ((long)MAX_FINE_BITS * a->C << BITRES);
         if (r.pulses[j] + ((long)r.ebits[j] * a->C << BITRES) > lim) {
            snprintf(ob, sizeof(ob), "band %d: pulses=%d ebits=%d cap=%d", j, r.pulses[j], r.ebits[j], cap[j]);
            witness(a, "pulses + C*ebits<<BITRES <= cap + C*MAX_FINE_BITS<<BITRES", ob, "band allocation far above its cap"); return;
         }
      }
   }
   sum += r.balance;
   if (sum + sig != (a->total > 0 ? a->total : 0)) {
      /* OpusProps.C17.alloc_total_ranges_budget proves equality: every 1/8 bit is either allocated or spent on signalling */
      snprintf(ob, sizeof(ob), "sum(pulses + C*ebits<<3) + balance = %ld, signalling = %d, total = %d", sum, sig, a->total);
      witness(a, "allocation + signalling = max(total,0)", ob, sum + sig > (a->total > 0 ? a->total : 0) ?
              "the allocation promises more bits than the frame has" : "bits of the frame are neither allocated nor spent on signalling"); return;
   }
   if (!(r.cb > a->start && r.cb <= a->end) || r.intensity < 0 || r.intensity > r.cb || (r.dual != 0 && r.dual != 1)) {
      snprintf(ob, sizeof(ob), "codedBands=%d intensity=%d dual_stereo=%d", r.cb, r.intensity, r.dual);
      witness(a, "start < codedBands <= end, 0 <= intensity <= codedBands, dual_stereo in {0,1}", ob, "stereo/skip parameters out of range"); return;
   }
   if (a->encode) {
      /* the decoder fed with exactly the encoder's symbols must reproduce every output */
      acase b = *a; b.encode = 0; b.intensity = 0; b.dual = 0; b.prev = 0; b.sigbw = 0; b.norc = r.nops;
      for (j = 0; j < r.nops; j++) b.orc[j] = r.ops[j].v;
      run_case(&b, &d);
      s_cases++;
      if (d.cb != r.cb || d.balance != r.balance || d.intensity != r.intensity || d.dual != r.dual || d.nops != r.nops ||
          memcmp(d.pulses + a->start, r.pulses + a->start, (a->end - a->start) * sizeof(int)) ||
          memcmp(d.ebits + a->start, r.ebits + a->start, (a->end - a->start) * sizeof(int)) ||
          memcmp(d.prio + a->start, r.prio + a->start, (a->end - a->start) * sizeof(int)) || memcmp(d.ops, r.ops, r.nops * sizeof(vop))) {
         snprintf(ob, sizeof(ob), "encoder: codedBands=%d balance=%d intensity=%d dual=%d; decoder: codedBands=%d balance=%d intensity=%d dual=%d",
                  r.cb, r.balance, r.intensity, r.dual, d.cb, d.balance, d.intensity, d.dual);
         witness(a, "decoder allocation = encoder allocation", ob, "encoder and decoder compute different allocations from the same bits");
      }
   }
}

static void run_search(int level, uint64_t seed)
{
   vrng r; int t, n = level ? 3000000 : 300000; acase a;
   r.s = seed * 0x9E3779B97F4A7C15ULL + 777;
   signal(SIGSEGV, crash_handler); signal(SIGABRT, crash_handler); signal(SIGFPE, crash_handler);
   for (t = 0; t < n; t++) {
      gen(&r, &a, t);
      /* keep the encoder's inputs inside what celt_encoder.c passes: dual stereo is 0/1, start <= intensity <= end */
      check_case(&a);
   }
   printf("X %d random allocations (all LM, C, hybrid and CELT-only band ranges, totals -20 .. 81600, dynalloc boosts up to cap+quanta)\n", n);
   printf("S cases=%ld witnesses=%ld distinct=%d\n", s_cases, s_wit, 13 * 4 * 2);
}

static void run_stdin(void)
{
   static char line[1 << 14];
   while (fgets(line, sizeof(line), stdin)) {
      acase a; ares r; char side[8], offs[4096], orc[4096]; char *p; int j;
      memset(&a, 0, sizeof(a));
      if (sscanf(line, "cwrs alloc %7s %d %d %d %d %d %d %d %d %d %d %4095s %4095s", side, &a.start, &a.end, &a.C, &a.LM, &a.total, &a.trim,
                 &a.intensity, &a.dual, &a.prev, &a.sigbw, offs, orc) != 13) continue;
      a.encode = !strcmp(side, "enc");
      for (p = offs, j = 0; j < NB && *p; j++) { a.offsets[j] = (int)strtol(p, &p, 10); if (*p == ',') p++; }
      if (strcmp(orc, "-")) for (p = orc; a.norc < MAXOPS && *p; a.norc++) { a.orc[a.norc] = (unsigned)strtoul(p, &p, 10); if (*p == ',') p++; }
      pr_case(&a); run_case(&a, &r); pr_res(&a, &r);
   }
}

int main(int argc, char **argv)
{
   int err = 0;
   vinstall_traps();
   mode = opus_custom_mode_create(48000, 960, &err);
   if (!mode || mode->nbEBands != NB) return 2;
   if (argc >= 4 && !strcmp(argv[1], "tie")) run_tie(atoi(argv[2]), strtoull(argv[3], NULL, 10));
   else if (argc >= 4 && !strcmp(argv[1], "search")) run_search(atoi(argv[2]), strtoull(argv[3], NULL, 10));
   else if (argc >= 2 && !strcmp(argv[1], "stdin")) run_stdin();
   else { fprintf(stderr, "usage: c17_alloc tie <level> <seed> | search <level> <seed> | stdin\n"); return 64; }
   return 0;
}
