/* c17_hdrenc.c — the CELT frame header as the REAL encoder writes it (C17, OpusModel/CeltSymsEnc.lean).
   Linked with --wrap for celt_encode_with_ec, quant_coarse_energy, clt_compute_allocation, ec_laplace_encode and the
   range-encoder entry points: every coder call made between the entry of celt_encode_with_ec and the return of
   clt_compute_allocation is recorded (for quant_coarse_energy only the pass that ends up in the stream), together
   with the coder context at entry and after the allocation.  The public encoder is run over many configurations
   (CELT-only, hybrid, SILK-only with CELT redundancy frames; mono/stereo; all frame sizes; CBR / VBR / constrained
   VBR; tiny to large budgets; silence).  For every frame one line pair is printed:
     I cwrs hdrenc <start> <end> <C> <LM> <vbr> <size> <ctx 11 fields> <pre-shrinks> <decision stream>
     O ops=<calls> fin=<rng>,<val>,<nbits_total>,<offs>,<storage> st=1
   The decision stream is read off the recorded calls (value of each symbol; qi for the coarse energy; the final VBR
   size; intensity, dual_stereo, lastCodedBands, signalBandwidth as passed to clt_compute_allocation).
   Usage: c17_hdrenc tie <seed> <nframes> | coarse <seed> <ncases> (quant_coarse_energy called directly)                                                                        */
#ifdef HAVE_CONFIG_H
#include "config.h"
#endif
#include "vcommon.h"
#include <math.h>
#include "opus.h"
#include "celt/celt.h"
#include "celt/modes.h"
#include "celt/entenc.h"
#include "celt/laplace.h"
#include "celt/quant_bands.h"
#include "celt/rate.h"
#include "opus_custom.h"

enum { K_BIT, K_UINT, K_BITS, K_ICDF, K_BIN, K_SHRINK, K_ENC };
typedef struct {
   int kind; unsigned a, b, c;           /* bit: v,logp  uint: v,ft  bits: v,n  icdf: s,ftb  bin: fl,fh,bits  shrink: size */
   unsigned char tbl[32]; int tlen;
   long long dec; int has_dec;           /* decision value this call stands for */
   int ph;                               /* 0: header, 1: inside clt_compute_allocation, 2: behind it */
   unsigned rng0, val0; int nb0; unsigned offs0;   /* coder state before the call */
   unsigned rng1, val1; int nb1; unsigned offs1;   /* … and after */
   unsigned eo0, ew0; int ne0; unsigned eo1, ew1; int ne1;   /* raw-bit end of the buffer: end_offs, end_window, nend_bits */
   unsigned long long h0, h1;            /* carry state and the bytes written so far (behind the allocation only) */
   int keep;
} rop;
#define MAXR 16384
static rop R[MAXR]; static int nR;
static int in_frame, phase;              /* phase 0: header, 1: inside clt_compute_allocation, 2: after */
static int in_coarse, in_laplace, lap_idx;
static ec_enc *cur_enc;
static long frames_out, frames_skipped, onebit_div, frames_unchained;
static int frame_ok;

/* what the packet holds so far: the carry buffer and every byte already written at either end.  Two trial encodings
   of theta_rdo can reach the same rng/val/offs with different bytes behind them. */
static unsigned long long content_hash(const ec_enc *e)
{
   unsigned long long h = 1469598103934665603ULL; opus_uint32 i;
   h = (h ^ (unsigned)e->rem) * 1099511628211ULL; h = (h ^ e->ext) * 1099511628211ULL;
   for (i = 0; i < e->offs; i++) h = (h ^ e->buf[i]) * 1099511628211ULL;
   for (i = 0; i < e->end_offs; i++) h = (h ^ e->buf[e->storage - 1 - i]) * 1099511628211ULL;
   return h;
}
static rop *rec(ec_enc *e, int kind, unsigned a, unsigned b, unsigned c)
{
   rop *r;
   if (!in_frame || phase == 3 || nR >= MAXR) return NULL;
   r = &R[nR++]; memset(r, 0, sizeof(*r));
   r->kind = kind; r->a = a; r->b = b; r->c = c; r->ph = phase;
   r->rng0 = e->rng; r->val0 = e->val; r->nb0 = e->nbits_total; r->offs0 = e->offs;
   r->eo0 = e->end_offs; r->ew0 = (unsigned)e->end_window; r->ne0 = e->nend_bits;
   if (phase == 2) r->h0 = content_hash(e);
   return r;
}
static void after(rop *r, ec_enc *e)
{
   if (r) { r->rng1 = e->rng; r->val1 = e->val; r->nb1 = e->nbits_total; r->offs1 = e->offs;
            r->eo1 = e->end_offs; r->ew1 = (unsigned)e->end_window; r->ne1 = e->nend_bits;
            if (r->ph == 2) r->h1 = content_hash(e); }
}

void __real_ec_enc_bit_logp(ec_enc *e, int val, unsigned logp);
void __real_ec_enc_uint(ec_enc *e, opus_uint32 fl, opus_uint32 ft);
void __real_ec_enc_bits(ec_enc *e, opus_uint32 fl, unsigned bits);
void __real_ec_enc_icdf(ec_enc *e, int s, const unsigned char *icdf, unsigned ftb);
void __real_ec_encode_bin(ec_enc *e, unsigned fl, unsigned fh, unsigned bits);
void __real_ec_enc_shrink(ec_enc *e, opus_uint32 size);
void __real_ec_laplace_encode(ec_enc *enc, int *value, unsigned fs, int decay);

void __wrap_ec_enc_bit_logp(ec_enc *e, int val, unsigned logp)
{
   rop *r = rec(e, K_BIT, val != 0, logp, 0);
   if (r) { r->has_dec = 1; r->dec = (in_coarse && logp == 1) ? -(val != 0) : (val != 0); }
   __real_ec_enc_bit_logp(e, val, logp); after(r, e);
}
void __wrap_ec_enc_uint(ec_enc *e, opus_uint32 fl, opus_uint32 ft)
{
   /* ec_enc_uint calls ec_encode / ec_enc_bits inside entenc.o (same object: not wrapped) */
   rop *r = rec(e, K_UINT, fl, ft, 0);
   if (r) { r->has_dec = 1; r->dec = fl; }
   __real_ec_enc_uint(e, fl, ft); after(r, e);
}
void __wrap_ec_enc_bits(ec_enc *e, opus_uint32 fl, unsigned bits)
{
   rop *r = rec(e, K_BITS, fl, bits, 0);
   if (r) { r->has_dec = 1; r->dec = fl; }
   __real_ec_enc_bits(e, fl, bits); after(r, e);
}
void __wrap_ec_enc_icdf(ec_enc *e, int s, const unsigned char *icdf, unsigned ftb)
{
   rop *r = rec(e, K_ICDF, (unsigned)s, ftb, 0);
   if (r) {
      int i; for (i = 0; i < 31; i++) { r->tbl[i] = icdf[i]; if (icdf[i] == 0) break; } r->tlen = i + 1;
      r->has_dec = 1;
      r->dec = in_coarse ? (s == 1 ? -1 : (s == 2 ? 1 : 0)) : s;      /* small_energy_icdf symbol -> qi */
   }
   __real_ec_enc_icdf(e, s, icdf, ftb); after(r, e);
}
void __wrap_ec_encode_bin(ec_enc *e, unsigned fl, unsigned fh, unsigned bits)
{
   rop *r = rec(e, K_BIN, fl, fh, bits);
   if (r && in_laplace) lap_idx = nR - 1;
   __real_ec_encode_bin(e, fl, fh, bits); after(r, e);
}
void __real_ec_encode(ec_enc *e, unsigned fl, unsigned fh, unsigned ft);
void __wrap_ec_encode(ec_enc *e, unsigned fl, unsigned fh, unsigned ft)
{
   /* only compute_theta (bands.c) reaches this from outside entenc.o: the step and the triangular PDF */
   rop *r = rec(e, K_ENC, fl, fh, ft);
   if (r) {
      /* the quantised itheta the interval stands for */
      r->has_dec = 1;
      if (ft % 4 == 3) {                                   /* step: ft = 3*(x0+1) + x0 */
         unsigned x0 = (ft - 3) / 4;
         r->dec = fl < (x0 + 1) * 3 ? fl / 3 : x0 + 1 + (fl - (x0 + 1) * 3);
      } else {                                             /* triangular: ft = (h+1)^2 */
         unsigned h = 0, fs = fh - fl; while ((h + 1) * (h + 1) < ft) h++;
         if (fs >= 1 && fl == (fs - 1) * fs / 2 && fs - 1 <= h) r->dec = fs - 1; else r->dec = 2 * h + 1 - fs;
      }
   }
   __real_ec_encode(e, fl, fh, ft); after(r, e);
}
static ec_enc done_state; static int done_seen; static unsigned long long done_hash, f_hash;
void __real_ec_enc_done(ec_enc *e);
void __wrap_ec_enc_done(ec_enc *e)
{
   if (in_frame && phase == 2) { done_state = *e; done_hash = content_hash(e); done_seen = 1; phase = 3; }
   __real_ec_enc_done(e);
}
void __wrap_ec_enc_shrink(ec_enc *e, opus_uint32 size)
{
   rop *r = rec(e, K_SHRINK, size, 0, 0);
   __real_ec_enc_shrink(e, size); after(r, e);
}
void __wrap_ec_laplace_encode(ec_enc *enc, int *value, unsigned fs, int decay)
{
   in_laplace = 1; lap_idx = -1;
   __real_ec_laplace_encode(enc, value, fs, decay);
   in_laplace = 0;
   if (lap_idx >= 0) { R[lap_idx].has_dec = 1; R[lap_idx].dec = *value; }    /* qi after the Laplace clamp */
}

/* ---- quant_coarse_energy: keep only the pass that ends up in the stream */
static int q_start, q_end, q_C, q_LM, q_seen; static unsigned q_budget;
void __real_quant_coarse_energy(const CELTMode *m, int start, int end, int effEnd, const celt_glog *eBands, celt_glog *oldEBands,
      opus_uint32 budget, celt_glog *error, ec_enc *enc, int C, int LM, int nbAvailableBytes, int force_intra,
      opus_val32 *delayedIntra, int two_pass, int loss_rate, int lfe);
void __wrap_quant_coarse_energy(const CELTMode *m, int start, int end, int effEnd, const celt_glog *eBands, celt_glog *oldEBands,
      opus_uint32 budget, celt_glog *error, ec_enc *enc, int C, int LM, int nbAvailableBytes, int force_intra,
      opus_val32 *delayedIntra, int two_pass, int loss_rate, int lfe)
{
   int a = nR, k, split = -1;
   unsigned rng0 = enc->rng, val0 = enc->val, offs0 = enc->offs; int nb0 = enc->nbits_total;
   q_start = start; q_end = end; q_C = C; q_LM = LM; q_budget = budget; q_seen = 1;
   in_coarse = 1;
   __real_quant_coarse_energy(m, start, end, effEnd, eBands, oldEBands, budget, error, enc, C, LM, nbAvailableBytes, force_intra,
                              delayedIntra, two_pass, loss_rate, lfe);
   in_coarse = 0;
   if (!in_frame || phase != 0) return;
   for (k = a + 1; k < nR; k++)
      if (R[k].rng0 == rng0 && R[k].val0 == val0 && R[k].nb0 == nb0 && R[k].offs0 == offs0) { split = k; break; }
   if (split > 0) {
      /* two passes: [a, split) and [split, nR); the survivor is the one the coder state now continues */
      int first = R[split - 1].rng1 == enc->rng && R[split - 1].val1 == enc->val && R[split - 1].nb1 == enc->nbits_total &&
                  R[split - 1].offs1 == enc->offs;
      int second = R[nR - 1].rng1 == enc->rng && R[nR - 1].val1 == enc->val && R[nR - 1].nb1 == enc->nbits_total &&
                   R[nR - 1].offs1 == enc->offs;
      if (second || !first) { memmove(&R[a], &R[split], (nR - split) * sizeof(rop)); nR -= split - a; }
      else nR = split;
   }
}

/* ---- clt_compute_allocation */
static int a_int, a_dual, a_prev, a_sbw, a_seen;
static unsigned f_rng, f_val, f_offs, f_storage, f_eo, f_ew; static int f_nb, f_ne;
int __real_clt_compute_allocation(const CELTMode *m, int start, int end, const int *offsets, const int *cap, int alloc_trim, int *intensity, int *dual_stereo,
      opus_int32 total, opus_int32 *balance, int *pulses, int *ebits, int *fine_priority, int C, int LM, ec_ctx *ec, int encode, int prev, int signalBandwidth);
int __wrap_clt_compute_allocation(const CELTMode *m, int start, int end, const int *offsets, const int *cap, int alloc_trim, int *intensity, int *dual_stereo,
      opus_int32 total, opus_int32 *balance, int *pulses, int *ebits, int *fine_priority, int C, int LM, ec_ctx *ec, int encode, int prev, int signalBandwidth)
{
   int cb;
   if (in_frame && encode && phase == 0) { a_int = *intensity; a_dual = *dual_stereo; a_prev = prev; a_sbw = signalBandwidth; a_seen = 1; phase = 1; cur_enc = ec; }
   cb = __real_clt_compute_allocation(m, start, end, offsets, cap, alloc_trim, intensity, dual_stereo, total, balance, pulses, ebits,
                                      fine_priority, C, LM, ec, encode, prev, signalBandwidth);
   if (in_frame && encode && phase == 1) { phase = 2; f_rng = ec->rng; f_val = ec->val; f_nb = ec->nbits_total; f_offs = ec->offs; f_storage = ec->storage;
      f_eo = ec->end_offs; f_ew = (unsigned)ec->end_window; f_ne = ec->nend_bits; f_hash = content_hash(ec); }
   return cb;
}

/* ---- celt_encode_with_ec */
static void pr_op(const rop *r)
{
   int i;
   switch (r->kind) {
   case K_BIT: printf("b%u/%u", r->a, r->b); break;
   case K_UINT: printf("u%u/%u", r->a, r->b); break;
   case K_BITS: printf("r%u/%u", r->a, r->b); break;
   case K_ICDF: printf("i%u/%u/", r->a, r->b); for (i = 0; i < r->tlen; i++) printf("%s%u", i ? "." : "", r->tbl[i]); break;
   case K_BIN: printf("e%u/%u/%u", r->a, r->b, r->c); break;
   case K_SHRINK: printf("s%u", r->a); break;
   case K_ENC: printf("c%u/%u/%u", r->a, r->b, r->c); break;
   }
}
int __real_celt_encode_with_ec(CELTEncoder *st, const opus_res *pcm, int frame_size, unsigned char *compressed, int nbCompressedBytes, ec_enc *enc);
int __wrap_celt_encode_with_ec(CELTEncoder *st, const opus_res *pcm, int frame_size, unsigned char *compressed, int nbCompressedBytes, ec_enc *enc)
{
   ec_enc e0; int ret, i, first_sym, npre = 0, vbr = 0, silence, size, skipped_sil_shrink = 0, ndec = 0, nH, pass;
   unsigned fr, fv, fo, fs; int fn;
   if (enc == NULL || pcm == NULL) return __real_celt_encode_with_ec(st, pcm, frame_size, compressed, nbCompressedBytes, enc);
   e0 = *enc;
   in_frame = 1; phase = 0; nR = 0; q_seen = a_seen = 0; cur_enc = enc; done_seen = 0;
   ret = __real_celt_encode_with_ec(st, pcm, frame_size, compressed, nbCompressedBytes, enc);
   in_frame = 0;
   if (!q_seen || !a_seen || phase < 2 || nR >= MAXR || nR == 0) { frames_skipped++; return ret; }
   for (nH = 0; nH < nR && R[nH].ph < 2; nH++) ;          /* header and allocation calls */
   /* pre-shrinks: before the first symbol */
   for (first_sym = 0; first_sym < nH && R[first_sym].kind == K_SHRINK; first_sym++) ;
   npre = first_sym;
   size = npre ? (int)R[npre - 1].a : (nbCompressedBytes < 1275 ? nbCompressedBytes : 1275);
   for (i = first_sym; i < nH; i++) if (R[i].kind == K_SHRINK) vbr = 1;
   silence = first_sym < nH && R[first_sym].kind == K_BIT && R[first_sym].b == 15 && R[first_sym].a == 1;
   /* final state: after the last recorded call */
   fr = f_rng; fv = f_val; fn = f_nb; fo = f_offs; fs = f_storage;
   /* behind the allocation: keep the calls that are in the stream.  theta_rdo (bands.c) codes a band twice and restores
      the coder in between / afterwards; walking back from the state ec_enc_done is entered with, a call is kept iff
      its after-state is the before-state of the next kept one. */
   frame_ok = 0;
   if (done_seen && phase == 3) {
      unsigned t_rng = done_state.rng, t_val = done_state.val, t_offs = done_state.offs, t_eo = done_state.end_offs,
               t_ew = (unsigned)done_state.end_window;
      int t_nb = done_state.nbits_total, t_ne = done_state.nend_bits;
      unsigned long long t_h = done_hash;
      for (i = nR - 1; i >= nH; i--) {
         rop *r = &R[i];
         r->keep = r->rng1 == t_rng && r->val1 == t_val && r->nb1 == t_nb && r->offs1 == t_offs && r->eo1 == t_eo &&
                   r->ew1 == t_ew && r->ne1 == t_ne && r->h1 == t_h;
         if (r->keep) { t_rng = r->rng0; t_val = r->val0; t_nb = r->nb0; t_offs = r->offs0; t_eo = r->eo0; t_ew = r->ew0; t_ne = r->ne0; t_h = r->h0; }
      }
      frame_ok = t_rng == f_rng && t_val == f_val && t_nb == f_nb && t_offs == f_offs && t_eo == f_eo && t_ew == f_ew && t_ne == f_ne && t_h == f_hash;
      if (!frame_ok) frames_unchained++;
      if (getenv("C17_DBG")) {                       /* every recorded call behind the allocation, '*' = kept */
         printf("# all:");
         for (i = nH; i < nR; i++) { printf(" %s", R[i].keep ? "*" : ""); pr_op(&R[i]); }
         printf("\n");
      }
   }
   for (pass = 0; pass < 2; pass++) {
      /* pass 0: the header alone (hdrenc); pass 1: the whole frame (frameenc) */
      if (pass == 1 && !frame_ok) break;
      ndec = 0; skipped_sil_shrink = 0;
      printf("I cwrs %s %d %d %d %d %d %d %u,%u,%u,%d,%d,%u,%u,%u,%u,%d,%d ", pass ? "frameenc" : "hdrenc", q_start, q_end, q_C, q_LM, vbr, size,
             e0.storage, e0.end_offs, (unsigned)e0.end_window, e0.nend_bits, e0.nbits_total, e0.offs, e0.rng, e0.val, e0.ext, e0.rem, e0.error);
      if (!npre) printf("-"); else for (i = 0; i < npre; i++) printf("%s%u", i ? "," : "", R[i].a);
      printf(" ");
      for (i = first_sym; i < nH; i++) {
         if (R[i].ph != 0) continue;                     /* the allocation's own calls are not decisions of the header */
         if (R[i].kind == K_SHRINK) {
            if (silence && !skipped_sil_shrink) { skipped_sil_shrink = 1; continue; }     /* computed, not a decision */
            printf("%s%u", ndec++ ? "," : "", R[i].a);
         } else if (R[i].has_dec) printf("%s%lld", ndec++ ? "," : "", R[i].dec);
      }
      printf("%s%d,%d,%d,%d", ndec ? "," : "", a_int, a_dual, a_prev, a_sbw);
      if (pass) for (i = nH; i < nR; i++) if (R[i].keep) printf(",%lld", R[i].dec);
      printf("\n"); fflush(stdout);
      printf("O ops=");
      if (first_sym == nH && !(pass && nR > nH)) printf("-");
      { int np = 0;
        for (i = first_sym; i < nH; i++) { if (np++) printf(","); pr_op(&R[i]); }
        if (pass) for (i = nH; i < nR; i++) if (R[i].keep) { if (np++) printf(","); pr_op(&R[i]); } }
      /* st=1: enc->storage equals nbCompressedBytes when the first symbol is written (hypothesis of celt_header_roundtrip);
         the model computes it from the entry context and the pre-shrinks */
      if (!pass) printf(" fin=%u,%u,%d,%u,%u st=1\n", fr, fv, fn, fo, fs);
      else printf(" fin=%u,%u,%d,%u,%u,%u,%u,%d\n", done_state.rng, done_state.val, done_state.nbits_total, done_state.offs,
                  done_state.storage, done_state.end_offs, (unsigned)done_state.end_window, done_state.nend_bits);
   }
   frames_out++;
   return ret;
}

/* ---------------------------------------------------------------- driving the public encoder */
static void synth(vrng *r, opus_int16 *pcm, int n, int ch, int Fs, int kind, double *ph, double *f0)
{
   int i, c, h;
   for (i = 0; i < n; i++) {
      double v = 0;
      if (kind == 0) {
         *f0 += (vbelow(r, 2001) - 1000.0) * 1e-5;
         if (*f0 < 80) *f0 = 80; if (*f0 > 320) *f0 = 320;
         *ph += 2 * M_PI * *f0 / Fs;
         for (h = 1; h <= 12 && h * *f0 < Fs / 2.2; h++) v += sin(h * *ph) / h;
         v *= 6000 * (0.6 + 0.4 * sin(*ph / 37));
         v += (double)vbelow(r, 401) - 200;
      } else if (kind == 1) v = (double)vbelow(r, 16001) - 8000;
      else if (kind == 2) v = (i % 293 == 0) ? 28000 : (double)vbelow(r, 41) - 20;
      else v = 0;
      for (c = 0; c < ch; c++) {
         double w = c ? v * 0.7 + ((double)vbelow(r, 2001) - 1000) * (kind == 3 ? 0 : 1) : v;
         if (w > 32767) w = 32767; if (w < -32768) w = -32768;
         pcm[i * ch + c] = (opus_int16)w;
      }
   }
}

/* ---------------------------------------------------------------- quant_coarse_energy called directly
   Random band energies, every budget situation (plenty … none), intra / inter, LFE.  The qi the C code derives from
   the floats BEFORE its budget clamps is recomputed here from the outputs (oldEBands[] gives the coded qi, hence
   `prev`, hence f = x - prev and qi0 = floor(.5+f) with the decay_bound rule), so the model is fed the pre-clamp
   decisions and has to reproduce the clamps. */
static void run_coarse(uint64_t seed, int ncases)
{
   static const float beta_coef_[4] = {30147/32768.f, 22282/32768.f, 12124/32768.f, 6554/32768.f};
   const float beta_intra_ = 4915/32768.f;
   int err = 0, t;
   const CELTMode *mode = opus_custom_mode_create(48000, 960, &err);
   vrng r; r.s = seed * 0x9E3779B97F4A7C15ULL + 31337;
   for (t = 0; t < ncases; t++) {
      static unsigned char buf[1300];
      float eB[42], oldE[42], errv[42], x[42];
      int C = 1 + (int)vbelow(&r, 2), LM = (int)vbelow(&r, 4), lfe = vchance(&r, 10), intra_req = (int)vbelow(&r, 2);
      int start = vchance(&r, 25) ? 17 : 0, end = start ? 19 + 2 * (int)vbelow(&r, 2) : (int)(13 + vbelow(&r, 9)), i, c, k;
      int size = 2 + (int)vbelow(&r, vchance(&r, 60) ? 12 : 160), pre, nbAvail, intra, ndec = 0;
      ec_enc enc, e0; opus_val32 delayed = 0; float max_decay, prev[2] = {0, 0}, beta;
      long long qi0[42]; int qc[42], onebit[42]; int nq = 0, first;
      if (end > 21) end = 21;
      ec_enc_init(&enc, buf, size);
      /* use up part of the budget so that every fall-back branch is met at every band position */
      pre = vchance(&r, 70) ? (int)vbelow(&r, size * 8) : 0;
      while (ec_tell(&enc) + 16 < pre) __real_ec_enc_bits(&enc, vbelow(&r, 65536), 16);
      while (ec_tell(&enc) < pre && ec_tell(&enc) + 1 <= size * 8 - 1) __real_ec_enc_bit_logp(&enc, (int)vbelow(&r, 2), 1);
      nbAvail = size;
      for (i = 0; i < 42; i++) { oldE[i] = 0; errv[i] = 0; eB[i] = x[i] = (float)((int)vbelow(&r, 31) - 15) + (float)vbelow(&r, 8) * 0.125f - 0.4375f; }
      if (vchance(&r, 30)) for (i = 0; i < 42; i++) eB[i] = x[i] = (float)((int)vbelow(&r, 7) - 3);
      e0 = enc;
      in_frame = 1; phase = 0; nR = 0;
      quant_coarse_energy(mode, start, end, end, eB, oldE, (opus_uint32)size * 8, errv, &enc, C, LM, nbAvail, intra_req, &delayed, 0, 0, lfe);
      in_frame = 0;
      /* what the C code saw */
      intra = (ec_tell(&e0) + 3 <= size * 8) ? intra_req : 0;
      beta = intra ? beta_intra_ : beta_coef_[LM];
      max_decay = 16.f; if (end - start > 10) { float m = .125f * nbAvail; if (m < max_decay) max_decay = m; } if (lfe) max_decay = 3.f;
      for (i = start; i < end; i++) for (c = 0; c < C; c++) {
         float xx = x[i + c * 21], f = xx - 0.f - prev[c], q, decay_bound = 0.f - max_decay;     /* oldEBands = 0: MAXG(-28,0) = 0 */
         int qi = (int)floor(.5f + f);
         if (qi < 0 && xx < decay_bound) { qi += (int)(decay_bound - xx); if (qi > 0) qi = 0; }
         qi0[nq++] = qi;
         q = oldE[i + c * 21] - (0.f + prev[c]);           /* tmp = coef*oldE + prev + q, coef*oldE = 0 */
         qc[nq - 1] = (int)floor(.5f + q);                 /* the qi the encoder kept */
         prev[c] = prev[c] + q - beta * q;
      }
      printf("I cwrs coarse %d %d %d %d %d %d %u,%u,%u,%d,%d,%u,%u,%u,%u,%d,%d ", start, end, C, LM, lfe, size,
             e0.storage, e0.end_offs, (unsigned)e0.end_window, e0.nend_bits, e0.nbits_total, e0.offs, e0.rng, e0.val, e0.ext, e0.rem, e0.error);
      /* decision stream: intra (if coded), then qi0 for every (band, channel) that codes a symbol — the model pops
         exactly then, so the positions without a symbol are dropped here by matching the recorded calls */
      first = nR > 0 && R[0].kind == K_BIT && R[0].b == 3;
      if (first) printf("%s%d", ndec++ ? "," : "", (int)R[0].a);
      {
         /* a (band, channel) codes a symbol iff budget - tell >= 1 at that point; replay the tells from the recorded calls */
         int ri = first ? 1 : 0, tellv;
         k = 0;
         for (i = start; i < end; i++) for (c = 0; c < C; c++, k++) {
            onebit[k] = 0;
            if (ri < nR) { onebit[k] = R[ri].kind == K_BIT && R[ri].b == 1; printf("%s%lld", ndec++ ? "," : "", qi0[k]); ri++; }
         }
         (void)tellv;
      }
      if (!ndec) printf("-");
      printf("\nO ops=");
      if (nR == 0) printf("-");
      for (i = 0; i < nR; i++) { if (i) printf(","); pr_op(&R[i]); }
      printf(" fin=%u,%u,%d,%u,%u q=", enc.rng, enc.val, enc.nbits_total, enc.offs, enc.storage);
      /* In the one-bit fall-back the unchanged code keeps qi = IMIN(0, qi) although the decoder can only get 0 or -1
         (theorem coarse_state_agrees_except_one_bit_start); the list is printed with that branch's value clamped to
         -1, so that the tie holds for the code as it is and for a code that clamps there (qi = IMAX(-1, IMIN(0, qi))). */
      for (i = 0; i < nq; i++) { int v = qc[i]; if (onebit[i] && v < -1) { v = -1; onebit_div++; } printf("%s%d", i ? "," : "", v); }
      printf("\n");
   }
   printf("# %ld one-bit fall-back entries in which the encoder kept qi < -1 (the decoder reconstructs -1)\n", onebit_div);
}

int main(int argc, char **argv)
{
   static const int rates[] = {8000, 12000, 16000, 24000, 48000};
   static const int apps[] = {OPUS_APPLICATION_RESTRICTED_LOWDELAY, OPUS_APPLICATION_AUDIO, OPUS_APPLICATION_VOIP};
   static const int bws[] = {OPUS_BANDWIDTH_NARROWBAND, OPUS_BANDWIDTH_MEDIUMBAND, OPUS_BANDWIDTH_WIDEBAND,
                             OPUS_BANDWIDTH_SUPERWIDEBAND, OPUS_BANDWIDTH_FULLBAND};
   static const int durs_ms2[] = {5, 10, 20, 40};              /* 2.5 .. 20 ms */
   static opus_int16 pcm[2 * 960 * 2];
   static unsigned char pkt[1500];
   vrng r; int cfg, nframes, ncfg;
   if (argc >= 4 && !strcmp(argv[1], "coarse")) { run_coarse(strtoull(argv[2], NULL, 10), atoi(argv[3])); return 0; }
   if (argc < 4 || strcmp(argv[1], "tie")) { fprintf(stderr, "usage: c17_hdrenc tie <seed> <nframes> | coarse <seed> <ncases>\n"); return 64; }
   r.s = strtoull(argv[2], NULL, 10) * 0x9E3779B97F4A7C15ULL + 4711; nframes = atoi(argv[3]); ncfg = 160;
   for (cfg = 0; cfg < ncfg; cfg++) {
      int Fs = rates[vbelow(&r, 5)], ch = 1 + (cfg % 2), app = apps[(cfg / 2) % 3], err = 0, f;
      int dur = durs_ms2[vbelow(&r, 4)], n = Fs * dur / 2000, mode = (int)vbelow(&r, 3);     /* 0: CBR, 1: VBR, 2: CVBR */
      int br, maxbytes;
      double ph = 0, f0 = 120 + vbelow(&r, 100);
      OpusEncoder *enc = opus_encoder_create(Fs, ch, app, &err);
      if (!enc) continue;
      switch (vbelow(&r, 5)) {
         case 0: br = 500 + (int)vbelow(&r, 6000); break;                  /* tiny budgets */
         case 1: br = 6000 + (int)vbelow(&r, 20000); break;
         case 2: br = 24000 + (int)vbelow(&r, 60000); break;
         case 3: br = 96000 + (int)vbelow(&r, 400000); break;
         default: br = 12000 * ch + (int)vbelow(&r, 30000); break;
      }
      opus_encoder_ctl(enc, OPUS_SET_BITRATE(br));
      opus_encoder_ctl(enc, OPUS_SET_VBR(mode != 0));
      opus_encoder_ctl(enc, OPUS_SET_VBR_CONSTRAINT(mode == 2));
      opus_encoder_ctl(enc, OPUS_SET_MAX_BANDWIDTH(bws[vbelow(&r, 5)]));
      opus_encoder_ctl(enc, OPUS_SET_COMPLEXITY((int)vbelow(&r, 11)));
      opus_encoder_ctl(enc, OPUS_SET_INBAND_FEC((int)vbelow(&r, 2)));
      opus_encoder_ctl(enc, OPUS_SET_PACKET_LOSS_PERC((int)vbelow(&r, 25)));
      opus_encoder_ctl(enc, OPUS_SET_DTX((int)vbelow(&r, 2)));
      if (vchance(&r, 25)) opus_encoder_ctl(enc, OPUS_SET_FORCE_CHANNELS(1 + (int)vbelow(&r, ch)));
      maxbytes = vchance(&r, 30) ? 3 + (int)vbelow(&r, 40) : 1275;
      for (f = 0; f < nframes; f++) {
         int kind = (f / 5 + cfg) % 5 == 4 ? 3 : (int)((f / 5 + cfg) % 5) % 3;
         synth(&r, pcm, n, ch, Fs, kind, &ph, &f0);
         opus_encode(enc, pcm, n, pkt, maxbytes);
      }
      opus_encoder_destroy(enc);
   }
   printf("# %ld CELT encoder frames (celt_encode_with_ec calls incl. redundancy frames), %ld skipped, %ld with an unresolved call chain\n", frames_out, frames_skipped, frames_unchained);
   return 0;
}
