/* c05_cvbr.c — tie of the constrained-VBR reservoir recursion (celt/celt_encoder.c:1785-1808, :2317-2372) to the
   model OpusModel/EncSkel/Cvbr.lean.  This TU #includes celt/celt_encoder.c so that `CELTEncoder.vbr_reservoir` is
   visible; nothing is wrapped.  For every CELT-only constrained-VBR frame it prints
       I encskel cvbrrel <vbr_rate> <reservoir before> <nbCompressedBytes budget> <return value>
       O v=<reservoir after> ok=1
   and the model answers with `max 0 (res + 64*ret - vbr_rate)` and whether `ret` respects `max_allowed`
   (the relation `cvbrStep_spec` proves of the model).  Mode: run <seed> <configs>.  */
#include "vcommon.h"
#ifdef HAVE_CONFIG_H
#include "config.h"
#endif
#include <math.h>
#include "celt/celt_encoder.c"

static float vunit(vrng *r) { return (float)(vnext(r) >> 40) / 16777216.0f; }

int main(int argc, char **argv)
{
   vrng r; long c, nconf; uint64_t seed;
   if (argc < 4 || strcmp(argv[1], "run")) { fprintf(stderr, "usage: c05_cvbr run <seed> <configs>\n"); return 64; }
   setvbuf(stdout, NULL, _IOFBF, 1 << 16);
   vinstall_traps();
   seed = strtoull(argv[2], 0, 10); nconf = atol(argv[3]);
   r.s = seed * 0xBF58476D1CE4E5B9ULL + 7;
   for (c = 0; c < nconf; c++) {
      static float x[960 * 2]; static unsigned char out[1500];
      int ch = 1 + vbelow(&r, 2), lm = vbelow(&r, 4), frame = 120 << lm, k, nfr = 40 + vbelow(&r, 200);
      int br = (int)(6000 + vbelow(&r, 250000)) * ch, kind = vbelow(&r, 5);
      CELTEncoder *st = (CELTEncoder *)malloc(celt_encoder_get_size(ch));
      if (celt_encoder_init(st, 48000, ch, opus_select_arch()) != OPUS_OK) { free(st); continue; }
      celt_encoder_ctl(st, CELT_SET_SIGNALLING(0));
      celt_encoder_ctl(st, OPUS_SET_VBR(1)); celt_encoder_ctl(st, OPUS_SET_VBR_CONSTRAINT(1));
      celt_encoder_ctl(st, OPUS_SET_BITRATE(br)); celt_encoder_ctl(st, OPUS_SET_COMPLEXITY(vbelow(&r, 11)));
      for (k = 0; k < nfr; k++) {
         int i, budget = vchance(&r, 70) ? 1275 : vrange(&r, 2, 1275), ret; opus_int32 res0, vbr_rate, den;
         float amp = 0.02f + 0.9f * vunit(&r);
         if (vchance(&r, 4)) { br = (int)(6000 + vbelow(&r, 250000)) * ch; celt_encoder_ctl(st, OPUS_SET_BITRATE(br)); }   /* rate changes */
         if (vchance(&r, 3)) kind = vbelow(&r, 5);
         for (i = 0; i < frame * ch; i++)
            x[i] = kind == 0 ? 0.f : kind == 1 ? amp * (float)sin(0.05 * (i / ch + k * frame)) : kind == 2 ? amp * (2 * vunit(&r) - 1)
                 : kind == 3 ? (((i / ch) % 240) < 6 ? amp : 0.f) : 0.3f * amp * (float)sin(0.31 * (i / ch)) + 0.1f * (2 * vunit(&r) - 1);
         res0 = st->vbr_reservoir;
         den = st->mode->Fs >> BITRES;
         vbr_rate = (st->bitrate * frame + (den >> 1)) / den;                       /* celt_encoder.c:1752-1753 */
         printf("I encskel cvbrrel %d %d %d ", (int)vbr_rate, (int)res0, IMIN(budget, 1275));
         ret = celt_encode_with_ec(st, x, frame, out, budget, NULL);
         printf("%d\nO v=%d ok=1\n", ret, (int)st->vbr_reservoir);
      }
      free(st);
   }
   printf("# cvbr configs=%ld\n", nconf);
   return 0;
}
