/* c08_hybrid.c — property C08, slice Hybrid: HYBRID Opus frames with and without the 5 ms redundancy frame,
   produced by the REAL opus_encode and read by the REAL opus_decode.

   The encoder (48 kHz, mono / stereo, 10 / 20 ms, SWB / FB, VBR / constrained VBR / CBR, budgets from tight to 1276)
   is driven through forced mode switches HYBRID <-> CELT-only (redundancy with celt_to_silk = 0 in the last hybrid
   frame before CELT-only, celt_to_silk = 1 in the first hybrid frame after it), SILK-only(WB) <-> HYBRID and
   SWB <-> FB bandwidth switches.  Link-time wrappers (-Wl,--wrap=…) observe, without touching the library,
     decoder side: celt_decode_with_ec_dred(…, &dec, …)  = the CELT part on the shared coder (opus_decoder.c:581)
                   celt_decode_with_ec(…, data+len, redundancy_bytes, …, NULL, …) = the redundancy frame (:566 / :615);
                   the order of the two is celt_to_silk, the length is redundancy_bytes
     encoder side: celt_encode_with_ec(…, enc != NULL) = CELT part, (…, data+nb_compr_bytes, redundancy_bytes, NULL) = redundancy
                   frame (opus_encoder.c:2306-2320 / 2399-2413), same reading.
   One line per hybrid code-0 packet:
     I rangecoder hred <bandwidth> <nCh> <ms10> <spf48> <hex frame = packet without TOC>
     O <redundancy> <celt_to_silk> <redundancy_bytes> F <decoder final range> E ok
   `E ok` is the model-free check (encoder final range = decoder final range, encoder-side and decoder-side
   (redundancy, celt_to_silk, redundancy_bytes) equal, opus_decode returned the frame size); otherwise `E diff:…`.
   Mode `mal`: the same packets with a few bytes changed / truncated (the decoder model must still predict the
   real decoder's parse and final range; no encoder comparison: `E ok` is printed unconditionally).
   Modes: rand <seed> <n streams> | mal <seed> <n streams> */
#ifdef HAVE_CONFIG_H
#include "config.h"
#endif
#include "vcommon.h"
#include <math.h>
#include "opus.h"
#include "opus_private.h"
#include "celt/entenc.h"
#include "celt/entdec.h"
#include "celt/celt.h"

static int on;
/* decoder side */
static const unsigned char *d_lo, *d_hi; static int d_main, d_red, d_rb, d_c2s;
int __real_celt_decode_with_ec(CELTDecoder *, const unsigned char *, int, opus_res *, int, ec_dec *, int);
int __wrap_celt_decode_with_ec(CELTDecoder *st, const unsigned char *data, int len, opus_res *pcm, int frame_size, ec_dec *dec, int accum)
{
   if (on && dec == NULL && data != NULL && data >= d_lo && data < d_hi) { d_red++; d_rb = len; d_c2s = d_main == 0; }
   return __real_celt_decode_with_ec(st, data, len, pcm, frame_size, dec, accum);
}
#ifdef ENABLE_DEEP_PLC
int __real_celt_decode_with_ec_dred(CELTDecoder *, const unsigned char *, int, opus_res *, int, ec_dec *, int, LPCNetPLCState *);
int __wrap_celt_decode_with_ec_dred(CELTDecoder *st, const unsigned char *data, int len, opus_res *pcm, int frame_size, ec_dec *dec, int accum, LPCNetPLCState *l)
{
   if (on && dec != NULL) d_main++;
   return __real_celt_decode_with_ec_dred(st, data, len, pcm, frame_size, dec, accum, l);
}
#else
int __real_celt_decode_with_ec_dred(CELTDecoder *, const unsigned char *, int, opus_res *, int, ec_dec *, int);
int __wrap_celt_decode_with_ec_dred(CELTDecoder *st, const unsigned char *data, int len, opus_res *pcm, int frame_size, ec_dec *dec, int accum)
{
   if (on && dec != NULL) d_main++;
   return __real_celt_decode_with_ec_dred(st, data, len, pcm, frame_size, dec, accum);
}
#endif
/* encoder side */
static unsigned char *e_lo, *e_hi; static int e_main, e_red, e_rb, e_c2s;
int __real_celt_encode_with_ec(CELTEncoder *, const opus_res *, int, unsigned char *, int, ec_enc *);
int __wrap_celt_encode_with_ec(CELTEncoder *st, const opus_res *pcm, int frame_size, unsigned char *compressed, int nbCompressedBytes, ec_enc *enc)
{
   if (on) {
      if (enc != NULL) e_main++;
      else if (compressed >= e_lo && compressed < e_hi) { e_red++; e_rb = nbCompressedBytes; e_c2s = e_main == 0; }
   }
   return __real_celt_encode_with_ec(st, pcm, frame_size, compressed, nbCompressedBytes, enc);
}

typedef struct { int kind; double f0, amp, ph, ph2; } seg_t;
static void fill_audio(vrng *r, seg_t *sg, int *left, opus_int16 *out, int n, int nch, int fs)
{
   int i;
   for (i = 0; i < n; i++) {
      double l, rr, v;
      if (*left <= 0) { sg->kind = (int)vbelow(r, 100); sg->f0 = 80 + vbelow(r, 900); sg->amp = 0.02 + 0.4 * vbelow(r, 100) / 100.0; *left = fs / 50 * vrange(r, 1, 30); }
      (*left)--;
      sg->ph += 2 * M_PI * sg->f0 / fs; sg->ph2 += 2 * M_PI * (sg->f0 * 7.3 + 1500) / fs;
      if (sg->kind < 8) l = 0;
      else if (sg->kind < 35) l = sg->amp * ((double)vbelow(r, 2001) / 1000.0 - 1.0);
      else if (sg->kind < 75) l = sg->amp * (0.6 * sin(sg->ph) + 0.3 * sin(2 * sg->ph) + 0.2 * sin(3 * sg->ph) + 0.15 * sin(sg->ph2)) + 0.01 * ((double)vbelow(r, 2001) / 1000.0 - 1.0);
      else l = sg->amp * sin(sg->ph2 + 3 * sin(sg->ph * 0.01));
      rr = (sg->kind & 1) ? 0.4 * l + 0.05 * sg->amp * sin(sg->ph2) : -l;
      v = l * 32767.0; if (v > 32767) v = 32767; if (v < -32768) v = -32768;
      if (nch == 1) out[i] = (opus_int16)v;
      else { out[2 * i] = (opus_int16)v; v = rr * 32767.0; if (v > 32767) v = 32767; if (v < -32768) v = -32768; out[2 * i + 1] = (opus_int16)v; }
   }
}

static long n_pk, n_hyb, n_red, n_c2s[2], n_cbr_red, n_vbr_red, n_stereo, n_diff, n_skipped, n_mal;
static void run_stream(vrng *r, int mal)
{
   static const int MODES[] = {MODE_HYBRID, MODE_CELT_ONLY, MODE_HYBRID, MODE_SILK_ONLY};
   int nch = vchance(r, 40) ? 2 : 1, ms = vchance(r, 45) ? 10 : 20, npk = vrange(r, 6, 16), p, err = 0;
   int fs = 48000, nsamp = fs / 1000 * ms, left = 0, vbr = (int)vbelow(r, 3), mode = MODE_HYBRID; seg_t sg;
   static opus_int16 pcm[2 * 960], pcmout[2 * 960];
   OpusEncoder *enc = opus_encoder_create(fs, nch, vchance(r, 50) ? OPUS_APPLICATION_VOIP : OPUS_APPLICATION_AUDIO, &err);
   OpusDecoder *dec = opus_decoder_create(fs, nch, &err);
   int kbps = nch * vrange(r, 12, 64);
   memset(&sg, 0, sizeof sg);
   if (!enc || !dec || err) { printf("# opus_encoder_create / opus_decoder_create failed\n"); return; }
   if (vchance(r, 25)) mode = MODE_CELT_ONLY;
   opus_encoder_ctl(enc, OPUS_SET_FORCE_MODE(mode));
   opus_encoder_ctl(enc, OPUS_SET_BANDWIDTH(vchance(r, 50) ? OPUS_BANDWIDTH_SUPERWIDEBAND : OPUS_BANDWIDTH_FULLBAND));
   opus_encoder_ctl(enc, OPUS_SET_VBR(vbr != 0)); opus_encoder_ctl(enc, OPUS_SET_VBR_CONSTRAINT(vbr == 2));
   opus_encoder_ctl(enc, OPUS_SET_DTX(0));
   opus_encoder_ctl(enc, OPUS_SET_BITRATE(kbps * 1000));
   opus_encoder_ctl(enc, OPUS_SET_COMPLEXITY(vrange(r, 0, 10)));
   if (nch == 2) opus_encoder_ctl(enc, OPUS_SET_FORCE_CHANNELS(vchance(r, 70) ? 2 : OPUS_AUTO));
   if (vchance(r, 25)) { opus_encoder_ctl(enc, OPUS_SET_INBAND_FEC(1)); opus_encoder_ctl(enc, OPUS_SET_PACKET_LOSS_PERC(vrange(r, 5, 25))); }
   for (p = 0; p < npk; p++) {
      static unsigned char out[1500]; int maxb = vchance(r, 35) ? vrange(r, 30, 220) : 1276, len, toc, config, dret, i, bw, hyb;
      opus_uint32 rng = 0, drng = 0; unsigned char *copy; int dlen;
      if (p > 0 && vchance(r, 40)) {      /* mode switch: hybrid <-> CELT-only mostly, sometimes through SILK-only */
         int m = MODES[vbelow(r, 4)]; if (m == mode) m = mode == MODE_HYBRID ? MODE_CELT_ONLY : MODE_HYBRID;
         mode = m; opus_encoder_ctl(enc, OPUS_SET_FORCE_MODE(mode));
      }
      if (p > 0 && vchance(r, 15)) opus_encoder_ctl(enc, OPUS_SET_BANDWIDTH(vchance(r, 50) ? OPUS_BANDWIDTH_SUPERWIDEBAND : OPUS_BANDWIDTH_FULLBAND));
      if (p > 0 && vchance(r, 10)) opus_encoder_ctl(enc, OPUS_SET_BITRATE(nch * vrange(r, 12, 64) * 1000));
      fill_audio(r, &sg, &left, pcm, nsamp, nch, fs);
      memset(out, 0xA5, sizeof out);
      e_lo = out; e_hi = out + sizeof out; e_main = e_red = e_rb = e_c2s = 0; on = 1;
      len = opus_encode(enc, pcm, nsamp, out, maxb);
      on = 0;
      if (len < 0) { printf("# opus_encode returned %d\n", len); break; }
      opus_encoder_ctl(enc, OPUS_GET_FINAL_RANGE(&rng));
      n_pk++;
      dlen = len;
      copy = vexact(out, len);
      toc = out[0]; config = toc >> 3;
      if (mal && len > 3 && config >= 12 && config <= 15 && (toc & 3) == 0) {
         int k = (int)vbelow(r, 4);
         if (k == 0) copy[1 + vbelow(r, (uint32_t)(len - 1))] ^= (unsigned char)(1u << vbelow(r, 8));
         else if (k == 1) { dlen = vrange(r, 2, len); }
         else if (k == 2) { int q; for (q = 0; q < 3; q++) copy[1 + vbelow(r, (uint32_t)(len - 1))] = (unsigned char)vbelow(r, 256); }
         else copy[len - 1 - vbelow(r, (uint32_t)(len > 8 ? 8 : len - 1))] ^= 0xFF;
         if (dlen != len) { unsigned char *c2 = vexact(copy, dlen); free(copy); copy = c2; }
      }
      hyb = config >= 12 && config <= 15 && (toc & 3) == 0 && dlen >= 3;
      bw = config >= 14 ? 1105 : 1104;
      if (hyb && !mal) {   /* the case is announced before the decoder runs (a trap becomes this case's answer) */
         printf("I rangecoder hred %d %d %d %d ", bw, ((toc >> 2) & 1) + 1, (config & 1) ? 200 : 100, (config & 1) ? 960 : 480);
         vhex(stdout, copy + 1, dlen - 1); printf("\n"); fflush(stdout);
      }
      d_lo = copy; d_hi = copy + dlen; d_main = d_red = d_rb = d_c2s = 0; on = 1;
      dret = opus_decode(dec, copy, dlen, pcmout, 960, 0);
      on = 0;
      opus_decoder_ctl(dec, OPUS_GET_FINAL_RANGE(&drng));
      if (!hyb) { free(copy); if (config >= 12 && config <= 15) n_skipped++; continue; }
      if (mal) {
         if (dret < 0) { free(copy); n_skipped++; continue; }   /* the real decoder rejected the malformed packet */
         printf("I rangecoder hred %d %d %d %d ", bw, ((toc >> 2) & 1) + 1, (config & 1) ? 200 : 100, (config & 1) ? 960 : 480);
         vhex(stdout, copy + 1, dlen - 1); printf("\n");
      }
      printf("O %d %d %d F %u", d_red ? 1 : 0, d_red ? d_c2s : 0, d_red ? d_rb : 0, (unsigned)drng);
      if (mal) { printf(" E ok\n"); n_mal++; }
      else if (dret == nsamp && drng == rng && d_red <= 1 && e_red == d_red && e_rb == d_rb && e_c2s == d_c2s) printf(" E ok\n");
      else { printf(" E diff:opus_decode=%d,enc_range=%u,enc_red=%d/%d/%d\n", dret, (unsigned)rng, e_red, e_c2s, e_rb); n_diff++; }
      n_hyb++; if ((toc >> 2) & 1) n_stereo++;
      if (d_red) { n_red++; n_c2s[d_c2s & 1]++; if (vbr) n_vbr_red++; else n_cbr_red++; }
      (void)i;
      free(copy);
      fflush(stdout);
   }
   opus_encoder_destroy(enc); opus_decoder_destroy(dec);
}

int main(int argc, char **argv)
{
   vinstall_traps();
   if (argc >= 4 && (!strcmp(argv[1], "rand") || !strcmp(argv[1], "mal"))) {
      int mal = !strcmp(argv[1], "mal");
      vrng m; long i, n = atol(argv[3]); m.s = strtoull(argv[2], 0, 10) * 0x9E3779B97F4A7C15ULL + (mal ? 0xC08B1D3AULL : 0xC08B1D39ULL); m.s = vnext(&m);
      for (i = 0; i < n; i++) { vrng r; r.s = vnext(&m); run_stream(&r, mal); }
      printf("# hred%s streams=%ld packets=%ld hybrid=%ld stereo=%ld with-redundancy=%ld celt_to_silk0=%ld celt_to_silk1=%ld red-cbr=%ld red-vbr=%ld enc-dec-diffs=%ld skipped=%ld\n",
         mal ? "-malformed" : "", n, n_pk, n_hyb, n_stereo, n_red, n_c2s[0], n_c2s[1], n_cbr_red, n_vbr_red, n_diff, n_skipped);
   } else { fprintf(stderr, "usage: c08_hybrid rand|mal <seed> <n>\n"); return 64; }
   return 0;
}
