/* c20_onset.c — witness-search harness for the "activity resuming ends the DTX run at once" clause of C20
   (extension module tools/props/C20onset.py).  Public API only (opus.h).

   One history = one real encoder (+ decoder) fed with >= 1 s of loud tone+noise (-10 dBFS peak), then >= 600 ms of
   exact digital silence (all-zero samples), so that a DTX run is under way.  The encoder and decoder states are then
   snapshotted (memcpy of opus_encoder_get_size bytes; the states are position independent) and, from the same
   snapshot, one ONSET frame is encoded per (position, channel mask): zeros up to sample `pos`, the loud signal from
   `pos` to the end of the frame in the left / right / both channels; the frame after it is fully loud.

   Modes:
     grid <seed> <first> <stride> [verbose]   histories first, first+stride, ... of the deterministic grid
     one <fs> <ch> <chmode> <bitrate> <cx> <frame_x2ms5> <app> <act_fr> <sil_fr> <sigseed> <posk> <mask>   replay
   Output, one line per onset case:
     R <configuration line (the arguments of `one`)> | len=<onset packet bytes> indtx=<OPUS_GET_IN_DTX after it>
       prevlen=<packet before> ndtx=<DTX packets in the gap> pos=<sample> loud_us=<loud signal inside the frame, us>
       frame_us=<frame duration> rms=<decoder output rms of the onset frame, int16 units> rms2=<of onset+next frame>
       nlen=<next packet bytes> dec=<samples returned>
   chmode: 0 = as created (bitrate decides stream_channels), 1 = OPUS_SET_FORCE_CHANNELS(1), 2 = FORCE_CHANNELS(2). */
#include "vcommon.h"
#include <math.h>
#include "opus.h"

#define MAXFR (2880 * 2)

typedef struct {
   int fs, ch, chmode, bitrate, cx, fr25, app, act_fr, sil_fr;
   unsigned sigseed;
} hcfg;

static unsigned nz_state;
static int noise16(void) { nz_state = nz_state * 1664525u + 1013904223u; return (int)(nz_state >> 16) - 32768; }

/* loud signal, peak about -10 dBFS (10362): three harmonics with a slow envelope + white noise; never exactly 0 */
static void fill_loud(opus_int16 *pcm, int ch, int fs, long t0, int from, int to, int mask)
{
   int i;
   for (i = from; i < to; i++) {
      double t = (double)(t0 + i) / fs;
      double env = 0.75 + 0.25 * sin(2 * M_PI * 5.0 * t);
      double v = 4600.0 * env * (sin(2 * M_PI * 180.0 * t + 0.7) + 0.5 * sin(2 * M_PI * 360.0 * t + 0.2)
                                 + 0.3 * sin(2 * M_PI * 1260.0 * t + 1.1)) + 0.05 * noise16();
      int s = (int)floor(v + 0.5);
      if (s == 0) s = 1;
      if (s > 10362) s = 10362;
      if (s < -10362) s = -10362;
      if (ch == 1) pcm[i] = (opus_int16)s;
      else {
         if (mask & 1) pcm[2 * i] = (opus_int16)s;
         if (mask & 2) pcm[2 * i + 1] = (opus_int16)(mask == 3 ? (s * 13) / 16 + (s > 0 ? 1 : -1) : s);
      }
   }
}

static double rms16(const opus_int16 *x, int n)
{
   double e = 0; int i;
   for (i = 0; i < n; i++) e += (double)x[i] * x[i];
   return n > 0 ? sqrt(e / n) : 0;
}

static const int posnum[5] = {0, 1, 2, 3, -1};   /* quarters of the frame; -1 = the last sample */

static long n_cases, n_hist, n_in_run, n_tiny, n_err;

/* runs one history; if posk/mask >= 0 only that onset case is evaluated */
static int run_history(const hcfg *c, int only_posk, int only_mask, int verbose)
{
   int err, f, frame = c->fs / 400 * c->fr25;
   int esz = opus_encoder_get_size(c->ch), dsz = opus_decoder_get_size(c->ch);
   OpusEncoder *enc = opus_encoder_create(c->fs, c->ch, c->app, &err);
   OpusDecoder *dec = opus_decoder_create(c->fs, c->ch, &err);
   OpusEncoder *enc2 = (OpusEncoder *)malloc(esz);
   OpusDecoder *dec2 = (OpusDecoder *)malloc(dsz);
   opus_int16 pcm[MAXFR], out[MAXFR], out2[MAXFR];
   unsigned char pkt[1500];
   long t0 = 0;
   int prevlen = -1, ndtx = 0, posk, mask;
   unsigned nz_snap;
   if (!enc || !dec || !enc2 || !dec2) { printf("# create failed\n"); return 2; }
   opus_encoder_ctl(enc, OPUS_SET_BITRATE(c->bitrate));
   opus_encoder_ctl(enc, OPUS_SET_COMPLEXITY(c->cx));
   opus_encoder_ctl(enc, OPUS_SET_DTX(1));
   if (c->chmode == 1) opus_encoder_ctl(enc, OPUS_SET_FORCE_CHANNELS(1));
   if (c->chmode == 2) opus_encoder_ctl(enc, OPUS_SET_FORCE_CHANNELS(2));
   nz_state = c->sigseed;
   for (f = 0; f < c->act_fr + c->sil_fr; f++) {
      int len, n;
      memset(pcm, 0, sizeof(pcm));
      if (f < c->act_fr) fill_loud(pcm, c->ch, c->fs, t0, 0, frame, 3);
      t0 += frame;
      len = opus_encode(enc, pcm, frame, pkt, sizeof(pkt));
      if (len < 0) { printf("# encode error %s in history\n", verr(len)); n_err++; return 2; }
      n = opus_decode(dec, pkt, len, out, frame, 0);
      if (n != frame) { printf("# decode returned %d in history\n", n); n_err++; return 2; }
      if (f >= c->act_fr && len <= 2) ndtx++;
      if (verbose) printf("#   frame %3d %s len=%d\n", f, f < c->act_fr ? "loud   " : "silence", len);
      prevlen = len;
   }
   n_hist++;
   nz_snap = nz_state;
   for (posk = 0; posk < 5; posk++) for (mask = 1; mask <= 3; mask++) {
      int pos, len, len2, n, n2, indtx = -1;
      double r1, r2;
      if (c->ch == 1 && mask != 3) continue;
      if (only_posk >= 0 && (posk != only_posk || mask != only_mask)) continue;
      memcpy(enc2, enc, esz);
      memcpy(dec2, dec, dsz);
      nz_state = nz_snap + 977u * (unsigned)(posk * 4 + mask);
      pos = posnum[posk] < 0 ? frame - 1 : frame * posnum[posk] / 4;
      memset(pcm, 0, sizeof(pcm));
      fill_loud(pcm, c->ch, c->fs, t0, pos, frame, mask);
      len = opus_encode(enc2, pcm, frame, pkt, sizeof(pkt));
      if (len < 0) { printf("# encode error %s at onset\n", verr(len)); n_err++; continue; }
      opus_encoder_ctl(enc2, OPUS_GET_IN_DTX(&indtx));
      n = opus_decode(dec2, pkt, len, out, frame, 0);
      memset(pcm, 0, sizeof(pcm));
      fill_loud(pcm, c->ch, c->fs, t0 + frame, 0, frame, mask);
      len2 = opus_encode(enc2, pcm, frame, pkt, sizeof(pkt));
      n2 = len2 >= 0 ? opus_decode(dec2, pkt, len2, out2, frame, 0) : -1;
      r1 = n == frame ? rms16(out, frame * c->ch) : -1;
      r2 = (n == frame && n2 == frame) ? sqrt((r1 * r1 + pow(rms16(out2, frame * c->ch), 2)) / 2) : -1;
      n_cases++;
      if (prevlen <= 2) n_in_run++;
      if (len <= 2) n_tiny++;
      printf("R %d %d %d %d %d %d %d %d %d %u %d %d | len=%d indtx=%d prevlen=%d ndtx=%d pos=%d loud_us=%ld frame_us=%d "
             "rms=%.2f rms2=%.2f nlen=%d dec=%d\n",
             c->fs, c->ch, c->chmode, c->bitrate, c->cx, c->fr25, c->app, c->act_fr, c->sil_fr, c->sigseed, posk, mask,
             len, indtx, prevlen, ndtx, pos, (long)((double)(frame - pos) * 1e6 / c->fs + 0.5), c->fr25 * 2500,
             r1, r2, len2, n);
   }
   opus_encoder_destroy(enc); opus_decoder_destroy(dec); free(enc2); free(dec2);
   return 0;
}

static const int FS[5] = {8000, 12000, 16000, 24000, 48000};
static const int FR25[6] = {1, 2, 4, 8, 16, 24};
static const int APP[3] = {OPUS_APPLICATION_VOIP, OPUS_APPLICATION_AUDIO, OPUS_APPLICATION_RESTRICTED_LOWDELAY};

/* channel configurations: 0 mono/mono, 1 stereo coded as stereo, 2 stereo at <= 16 kb/s (coded as mono),
   3 stereo with FORCE_CHANNELS(1) */
#define NCHCFG 4
#define NGRID (5 * NCHCFG * 11 * 6)

static void grid_cfg(long idx, unsigned seed, hcfg *c)
{
   vrng r; int chcfg, frame_ms10;
   r.s = 0xC20ULL * 1000003ULL + (uint64_t)seed * 7919ULL + (uint64_t)idx;
   c->fr25 = FR25[idx % 6]; idx /= 6;
   c->cx = (int)(idx % 11); idx /= 11;
   chcfg = (int)(idx % NCHCFG); idx /= NCHCFG;
   c->fs = FS[idx % 5];
   c->ch = chcfg == 0 ? 1 : 2;
   c->chmode = chcfg == 3 ? 1 : (chcfg == 1 ? 2 : 0);
   if (chcfg == 2) c->bitrate = vrange(&r, c->fr25 == 1 ? 10000 : 8000, 16000);   /* 2.5 ms: stay above the low-budget floor 9600 */
   else if (chcfg == 1) c->bitrate = vrange(&r, 48000, 96000);
   else c->bitrate = vrange(&r, 12000, 64000);
   c->app = APP[vbelow(&r, 100) < 60 ? 0 : (vbelow(&r, 100) < 75 ? 1 : 2)];
   frame_ms10 = c->fr25 * 25;
   c->act_fr = (10000 + vrange(&r, 0, 3000) + frame_ms10 - 1) / frame_ms10;
   c->sil_fr = (6000 + vrange(&r, 0, 2500) + frame_ms10 - 1) / frame_ms10;
   c->sigseed = (unsigned)vnext(&r);
}

int main(int argc, char **argv)
{
   hcfg c;
   if (argc >= 5 && !strcmp(argv[1], "grid")) {
      unsigned seed = (unsigned)strtoul(argv[2], 0, 10);
      long first = atol(argv[3]), stride = atol(argv[4]), i;
      int verbose = argc > 5 ? atoi(argv[5]) : 0;
      if (stride < 1) stride = 1;
      for (i = first; i < NGRID; i += stride) { grid_cfg(i, seed, &c); run_history(&c, -1, -1, verbose); }
      printf("# stats histories=%ld cases=%ld in_dtx_run=%ld tiny_onset=%ld errors=%ld\n", n_hist, n_cases, n_in_run, n_tiny, n_err);
      return 0;
   }
   if (argc >= 14 && !strcmp(argv[1], "one")) {
      c.fs = atoi(argv[2]); c.ch = atoi(argv[3]); c.chmode = atoi(argv[4]); c.bitrate = atoi(argv[5]); c.cx = atoi(argv[6]);
      c.fr25 = atoi(argv[7]); c.app = atoi(argv[8]); c.act_fr = atoi(argv[9]); c.sil_fr = atoi(argv[10]);
      c.sigseed = (unsigned)strtoul(argv[11], 0, 10);
      if ((c.fs != 8000 && c.fs != 12000 && c.fs != 16000 && c.fs != 24000 && c.fs != 48000) || c.ch < 1 || c.ch > 2 ||
          c.fr25 < 1 || c.fr25 > 24) { printf("# bad configuration\n"); return 2; }
      run_history(&c, atoi(argv[12]), atoi(argv[13]), argc > 14 ? atoi(argv[14]) : 1);
      printf("# stats histories=%ld cases=%ld in_dtx_run=%ld tiny_onset=%ld errors=%ld\n", n_hist, n_cases, n_in_run, n_tiny, n_err);
      return 0;
   }
   fprintf(stderr, "usage: c20_onset grid <seed> <first> <stride> [verbose] | one <12 configuration fields> [verbose]\n");
   return 2;
}
