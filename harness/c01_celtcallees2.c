/* c01_celtcallees2.c — C01, slice CeltCallees2: real access extents of clt_mdct_backward_c (+ opus_fft_impl, kf_bfly*),
   denormalise_bands and pitch_search (+ find_best_pitch, celt_pitch_xcorr_c, xcorr_kernel_c, celt_inner_prod_c).

   Per case two runs:
    (1) the LIBRARY's routine (whatever SIMD variant the run-time dispatch selects) on heap blocks that hold exactly
        the elements the bridge's extent contract (Opus.CeltIdx.Call.accs) promises — in the sanitizer build any
        access outside them ends the case with `O SANITIZER`;
    (2) the INSTRUMENTED copy of the repo's C reference code (c01_celtcallees2_inst.c) on blocks with wide guard
        zones: smallest / largest element index actually touched per array (arguments, mode tables, ALLOCed arrays)
        is printed and must equal the extents of the Lean index model (driver op `decskel ext2 …`) exactly.
   Modes:  run <seed> <level>     level 0 quick, 1 thorough
           search <seed> <level>  no model: `W …` lines for every extent outside the contract / the table sizes
   Lines:  I decskel ext2 mdct <shift> <stride> <ov>            O in=<lo>..<hi> out=… win=… trig=… bitrev=… tw=… factors=…
           I decskel ext2 fft <shift>                           O <radix>:fout=<lo>..<hi>,tw=<lo>..<hi>|- …   (one item per kf_bfly call, execution order)
           I decskel ext2 denorm <start> <end> <M> <ds> <sil>   O X=… freq=… bandE=… eBands=…
           I decskel ext2 psearch <len> <max_pitch> 0 1 0       O xlp=… y=… xlp4=… ylp4=… xcorr=… alloc=<n x_lp4>,<n y_lp4>,<n xcorr>
   (pitch_search's extents do not depend on the find_best_pitch results, so the model is asked with 0 1 0.) */
#include "vcommon.h"
#include "arch.h"
#include "modes.h"
#include "mdct.h"
#include "kiss_fft.h"
#include "bands.h"
#include "pitch.h"
#include "quant_bands.h"
#include "celt.h"
#include "cpu_support.h"
/* celt_decoder.c:62-72 (file-local there) */
#define DECODE_BUFFER_SIZE 2048
#define PLC_PITCH_LAG_MAX 720
#define PLC_PITCH_LAG_MIN 100

void vinst_mdct(const mdct_lookup *l, kiss_fft_scalar *in, kiss_fft_scalar *out, const celt_coef *window, int overlap, int shift, int stride);
void vinst_denorm(const CELTMode *m, const celt_norm *X, celt_sig *freq, const celt_glog *bandLogE, int start, int end, int M, int downsample, int silence);
void vinst_psearch(const opus_val16 *x_lp, opus_val16 *y, int len, int max_pitch, int *pitch);

/* ------------------------------------------------------------------ recorder */
#define GUARD 65536
typedef struct { const char *name; char *base; long n, esz, guard; long lo, hi; char *blk; } vreg;
static vreg regs[32]; static int nregs = 0; static int recording = 0;
static vreg *vreg_add(const char *name, const void *base, long n, long esz, long guard)
{
   vreg *g = &regs[nregs++];
   g->name = name; g->base = (char *)base; g->n = n; g->esz = esz; g->guard = guard; g->lo = 1L << 40; g->hi = -(1L << 40); g->blk = NULL;
   return g;
}
static float *vreg_heap(const char *name, long n, vrng *r, int zero)
{
   long bytes = (n > 0 ? n : 0) * 4, i; char *blk = (char *)malloc(bytes + 2 * GUARD); float *p = (float *)(blk + GUARD);
   vreg *g = vreg_add(name, p, n, 4, GUARD);
   memset(blk, 0, bytes + 2 * GUARD);
   for (i = 0; i < n; i++) p[i] = zero ? 0.f : (float)((int)vbelow(r, 2001) - 1000) / 1000.f;
   g->blk = blk; return p;
}
void *vrec_alloc(const char *name, long n, long esz)
{
   long bytes = (n > 0 ? n : 0) * esz; char *blk = (char *)malloc(bytes + 2 * GUARD); vreg *g;
   memset(blk, 0, bytes + 2 * GUARD);
   g = vreg_add(name, blk + GUARD, n, esz, GUARD); g->blk = blk;
   return blk + GUARD;
}
static void vreset(void) { int i; for (i = 0; i < nregs; i++) free(regs[i].blk); nregs = 0; }
static void vbucket(vreg *g, long e0, long e1);
static void vtouch(const void *addr, long size, int wr)
{
   int i, pass; const char *a = (const char *)addr; (void)wr;
   if (!recording) return;
   /* pass 0: inside a registered array; pass 1: inside the guard zone of one (an out-of-range index, recorded with its value) */
   for (pass = 0; pass < 2; pass++) for (i = 0; i < nregs; i++) {
      vreg *g = &regs[i]; long gd = pass ? g->guard : 0;
      if (a + size > g->base - gd && a < g->base + g->n * g->esz + gd) {
         long d0 = (long)(a - g->base), d1 = d0 + size - 1, e0, e1;
         e0 = d0 >= 0 ? d0 / g->esz : -((-d0 + g->esz - 1) / g->esz);
         e1 = d1 >= 0 ? d1 / g->esz : -((-d1 + g->esz - 1) / g->esz);
         if (e0 < g->lo) g->lo = e0;
         if (e1 > g->hi) g->hi = e1;
         vbucket(g, e0, e1);
         return;
      }
   }
}
/* heap copy of a table, with guard zones (so that an index past the table is seen with its value, not attributed to a neighbour) */
static void *vreg_copy(const char *name, const void *src, long n, long esz)
{
   long bytes = n * esz; char *blk = (char *)malloc(bytes + 2 * GUARD); vreg *g;
   memset(blk, 0, bytes + 2 * GUARD); memcpy(blk + GUARD, src, bytes);
   g = vreg_add(name, blk + GUARD, n, esz, GUARD); g->blk = blk;
   return blk + GUARD;
}
/* per-call buckets: the compiler-inserted function entry / exit hooks give the call depth; calls at depth BDEPTH (the
   butterflies: vinst_mdct > clt_mdct_backward_c > opus_fft_impl > kf_bfly*) get one bucket each, in execution order */
#define BDEPTH 4
#define NBUCKET 16
static int g_depth = 0, g_nb = 0, g_cur = 0; static long g_b[NBUCKET][2][2]; static int g_fbase = 0;
void __tsan_init(void) {}
void __tsan_func_entry(void *pc)
{
   (void)pc; if (!recording) return;
   if (++g_depth == BDEPTH) { g_cur = ++g_nb < NBUCKET ? g_nb : NBUCKET - 1; }
}
void __tsan_func_exit(void)
{
   if (!recording) return;
   if (g_depth-- == BDEPTH) g_cur = 0;
}
static void vbucket(vreg *g, long e0, long e1)
{
   int w; long lo = e0, hi = e1;
   if (!g_cur) return;
   if (!strcmp(g->name, "out")) { w = 0; lo = (e0 - g_fbase) >> 1; hi = (e1 - g_fbase) >> 1; }      /* complex element of fout = out + overlap/2 */
   else if (!strcmp(g->name, "tw")) w = 1;
   else return;
   if (lo < g_b[g_cur][w][0]) g_b[g_cur][w][0] = lo;
   if (hi > g_b[g_cur][w][1]) g_b[g_cur][w][1] = hi;
}
static void vbucket_reset(int fbase)
{
   int i, w; g_depth = 0; g_nb = 0; g_cur = 0; g_fbase = fbase;
   for (i = 0; i < NBUCKET; i++) for (w = 0; w < 2; w++) { g_b[i][w][0] = 1L << 40; g_b[i][w][1] = -(1L << 40); }
}
void __tsan_vptr_update(void **a, void *b) { (void)a; (void)b; }
void __tsan_vptr_read(void **a) { (void)a; }
#define VCB(n) void __tsan_read##n(void *a) { vtouch(a, n, 0); } void __tsan_write##n(void *a) { vtouch(a, n, 1); } \
               void __tsan_unaligned_read##n(void *a) { vtouch(a, n, 0); } void __tsan_unaligned_write##n(void *a) { vtouch(a, n, 1); }
VCB(1) VCB(2) VCB(4) VCB(8) VCB(16)
void __tsan_read_range(void *a, long n) { if (n > 0) vtouch(a, n, 0); }
void __tsan_write_range(void *a, long n) { if (n > 0) vtouch(a, n, 1); }
void *vrec_memset(void *d, int c, size_t n) { if ((long)n > 0) vtouch(d, (long)n, 1); else if ((long)n < 0) vtouch((char *)d + (long)n, 1, 1); return (long)n > 0 ? memset(d, c, n) : d; }

static vreg *vfind(const char *name) { int i; for (i = 0; i < nregs; i++) if (!strcmp(regs[i].name, name)) return &regs[i]; return NULL; }
static int g_search = 0; static long g_cases = 0, g_wit = 0;
static char g_line[256];
/* print `name=lo..hi`; in search mode check against the promised [0, cap) instead */
static void vout(const char *label, const char *name, long cap, int first)
{
   vreg *g = vfind(name);
   if (g_search) {
      if (g && g->n < cap) cap = g->n;            /* an ALLOCed array smaller than the size the contract assumes */
      if (g && g->lo <= g->hi && (g->lo < 0 || g->hi >= cap)) {
         printf("W %s | %s touched %ld..%ld, promised 0..%ld\n", g_line, label, g->lo, g->hi, cap - 1); g_wit++;
      }
      return;
   }
   if (!g || g->lo > g->hi) printf("%s%s=-", first ? "O " : " ", label);
   else printf("%s%s=%ld..%ld", first ? "O " : " ", label, g->lo, g->hi);
}

static float *exact(long n, vrng *r, int zero)
{
   float *b = (float *)malloc(sizeof(float) * (size_t)(n > 0 ? n : 1)); long i;
   for (i = 0; i < n; i++) b[i] = zero ? 0.f : (float)((int)vbelow(r, 2001) - 1000) / 1000.f;
   return b;
}

static const CELTMode *g_mode; static int g_arch;

static void case_mdct(int shift, int stride, int ov, vrng *r, int want_fft)
{
   const mdct_lookup *l = &g_mode->mdct; int n2 = (l->n >> shift) >> 1, i; long trigN = 0, n = l->n;
   const kiss_fft_state *st = l->kfft[shift];
   for (i = 0; i <= l->maxshift; i++) { trigN += n >> 1; n >>= 1; }
   sprintf(g_line, "decskel ext2 mdct %d %d %d", shift, stride, ov);
   printf("I %s\n", g_line);
   fflush(stdout);
   {  /* (1) library routine on exact contract-size blocks */
      float *in = exact((long)stride * (n2 - 1) + 1, r, 0), *out = exact(ov / 2 + n2, r, 0);
      clt_mdct_backward(l, in, out, g_mode->window, ov, shift, stride, g_arch);
      free(in); free(out);
   }
   {  /* (2) instrumented reference code */
      float *in = vreg_heap("in", (long)stride * (n2 - 1) + 1, r, 0), *out = vreg_heap("out", ov / 2 + n2, r, 0);
      mdct_lookup lk = *l; kiss_fft_state stc = *st; const celt_coef *win;
      /* the mode's tables as heap copies behind guard zones; `factors` lives inside the state struct (no guard possible) */
      win = (const celt_coef *)vreg_copy("win", g_mode->window, g_mode->overlap, sizeof(celt_coef));
      lk.trig = (const kiss_twiddle_scalar *)vreg_copy("trig", l->trig, trigN, sizeof(kiss_twiddle_scalar));
      stc.bitrev = (const opus_int16 *)vreg_copy("bitrev", st->bitrev, st->nfft, sizeof(opus_int16));
      stc.twiddles = (const kiss_twiddle_cpx *)vreg_copy("tw", st->twiddles, 480, sizeof(kiss_twiddle_cpx));
      lk.kfft[shift] = &stc;
      vreg_add("factors", stc.factors, 2 * MAXFACTORS, sizeof(opus_int16), 0);
      vbucket_reset(ov / 2);
      recording = 1; vinst_mdct(&lk, in, out, win, ov, shift, stride); recording = 0;
      vout("in", "in", (long)stride * (n2 - 1) + 1, 1); vout("out", "out", ov / 2 + n2, 0); vout("win", "win", ov, 0); vout("trig", "trig", trigN, 0);
      vout("bitrev", "bitrev", st->nfft, 0); vout("tw", "tw", 480, 0); vout("factors", "factors", 2 * MAXFACTORS, 0);
      if (!g_search) printf("\n");
      if (want_fft) {
         /* the same run, per butterfly call (execution order: stage L-1 down to 0), radix from st->factors */
         int L = 0, k; while (L < MAXFACTORS && st->factors[2 * L + 1] != 1) L++;
         L++;
         sprintf(g_line, "decskel ext2 fft %d", shift);
         printf("I %s\n", g_line);
         for (k = 1; k <= g_nb && k < NBUCKET; k++) {
            int p = L - k >= 0 ? st->factors[2 * (L - k)] : 0; char tw[48];
            if (g_b[k][1][0] > g_b[k][1][1]) strcpy(tw, "-"); else sprintf(tw, "%ld..%ld", g_b[k][1][0], g_b[k][1][1]);
            if (g_search) {
               if (g_b[k][0][0] < 0 || g_b[k][0][1] >= st->nfft || (g_b[k][1][0] <= g_b[k][1][1] && (g_b[k][1][0] < 0 || g_b[k][1][1] >= 480))) {
                  printf("W %s | butterfly call %d (radix %d) touched fout %ld..%ld tw %s, promised fout 0..%d tw 0..479\n", g_line, k, p, g_b[k][0][0], g_b[k][0][1], tw, st->nfft - 1); g_wit++;
               }
            } else printf("%s%d:fout=%ld..%ld,tw=%s", k == 1 ? "O " : " ", p, g_b[k][0][0], g_b[k][0][1], tw);
         }
         if (!g_search) printf("\n");
         g_cases++;
      }
      vreset();
   }
   g_cases++;
}

static void case_denorm(int start, int end, int M, int ds, int silence, vrng *r)
{
   int N = M * g_mode->shortMdctSize, nb = g_mode->nbEBands;
   sprintf(g_line, "decskel ext2 denorm %d %d %d %d %d", start, end, M, ds, silence);
   printf("I %s\n", g_line);
   fflush(stdout);
   {  float *X = exact(N, r, 0), *freq = exact(N, r, 0), *bandE = exact(nb, r, 0);
      denormalise_bands(g_mode, X, freq, bandE, start, end, M, ds, silence);
      free(X); free(freq); free(bandE); }
   {  float *X = vreg_heap("X", N, r, 0), *freq = vreg_heap("freq", N, r, 0), *bandE = vreg_heap("bandE", nb, r, 0);
      CELTMode mc = *g_mode;
      mc.eBands = (const opus_int16 *)vreg_copy("eBands", g_mode->eBands, nb + 1, sizeof(opus_int16));
      /* eMeans[i] is a constant global: the compiler does not instrument loads from it; its index is bandLogE's */
      recording = 1; vinst_denorm(&mc, X, freq, bandE, start, end, M, ds, silence); recording = 0;
      vout("X", "X", N, 1); vout("freq", "freq", N, 0); vout("bandE", "bandE", nb, 0); vout("eBands", "eBands", nb + 1, 0);
      if (!g_search) printf("\n");
      vreset(); }
   g_cases++;
}

static void case_psearch(int len, int maxp, int zero, vrng *r)
{
   int pitch = 0;
   sprintf(g_line, "decskel ext2 psearch %d %d 0 1 0", len, maxp);
   printf("I %s\n", g_line);
   fflush(stdout);
   {  float *xlp = exact(len / 2, r, zero), *y = exact(len / 2 + maxp / 2, r, zero);
      pitch_search(xlp, y, len, maxp, &pitch, g_arch);
      if (pitch < 0 || pitch >= maxp) { printf("W %s | pitch_search returned %d outside [0, max_pitch)\n", g_line, pitch); g_wit++; }
      free(xlp); free(y); }
   {  float *xlp = vreg_heap("xlp", len / 2, r, zero), *y = vreg_heap("y", len / 2 + maxp / 2, r, zero);
      recording = 1; vinst_psearch(xlp, y, len, maxp, &pitch); recording = 0;
      vout("xlp", "xlp", len / 2, 1); vout("y", "y", len / 2 + maxp / 2, 0); vout("xlp4", "x_lp4", len >> 2, 0);
      vout("ylp4", "y_lp4", (len + maxp) >> 2, 0); vout("xcorr", "xcorr", maxp >> 1, 0);
      if (!g_search) printf(" alloc=%ld,%ld,%ld\n", vfind("x_lp4") ? vfind("x_lp4")->n : -1, vfind("y_lp4") ? vfind("y_lp4")->n : -1, vfind("xcorr") ? vfind("xcorr")->n : -1);
      vreset(); }
   g_cases++;
}

int main(int argc, char **argv)
{
   vrng r; int level, shift, k, start, end, sil, i;
   static const int STR[4] = {1, 2, 4, 8}, DS[6] = {1, 2, 3, 4, 6, 100000};
   vinstall_traps();
   if (argc < 4 || (strcmp(argv[1], "run") && strcmp(argv[1], "search"))) { fprintf(stderr, "usage: c01_celtcallees2 run|search <seed> <level>\n"); return 64; }
   g_search = !strcmp(argv[1], "search");
   r.s = strtoull(argv[2], 0, 10) * 0xA24BAED4963EE407ULL + 0x9FB21C651E98DF25ULL; r.s ^= vnext(&r) >> 9;
   level = atoi(argv[3]);
   g_mode = opus_custom_mode_create(48000, 960, NULL); g_arch = opus_select_arch();
   /* mdct: every shift x every stride the decoder can pass (1, or M = 2^LM for short blocks) — and the other strides too */
   for (shift = 0; shift <= 3; shift++) for (k = 0; k < 4; k++) case_mdct(shift, STR[k], g_mode->overlap, &r, k == 0 || k == 3);
   for (i = 0; i < (level ? 200 : 4); i++) case_mdct(vrange(&r, 0, 3), vrange(&r, 0, 9), 2 * vrange(&r, 0, 60), &r, i & 1);   /* other even overlaps <= 120, odd strides, stride 0 */
   /* denormalise_bands: start x end x M x downsample x silence (quick: start in {0, 1, 17, 20, 21}; thorough: all) */
   for (start = 0; start <= 21; start++) {
      if (!level && !(start == 0 || start == 1 || start == 17 || start == 20 || start == 21)) continue;
      for (end = start; end <= 21; end++) for (k = 0; k < 4; k++) for (i = 0; i < 6; i++) for (sil = 0; sil < 2; sil++) {
         if (!level && (i == 2 || i == 3) && end != 21) continue;
         case_denorm(start, end, 1 << k, DS[i], sil, &r);
      }
   }
   /* pitch_search: the decoder's call, the encoder's, small and random sizes (max_pitch >= 4: celt_assert(max_pitch>0) of the
      coarse celt_pitch_xcorr; len >= 12: xcorr_kernel's celt_assert(len>=3)) */
   case_psearch(DECODE_BUFFER_SIZE - PLC_PITCH_LAG_MAX, PLC_PITCH_LAG_MAX - PLC_PITCH_LAG_MIN, 0, &r);
   case_psearch(DECODE_BUFFER_SIZE - PLC_PITCH_LAG_MAX, PLC_PITCH_LAG_MAX - PLC_PITCH_LAG_MIN, 1, &r);
   case_psearch(960, 979, 0, &r); case_psearch(12, 4, 0, &r); case_psearch(15, 7, 0, &r); case_psearch(13, 5, 1, &r);
   for (i = 0; i < (level ? 600 : 24); i++) case_psearch(vrange(&r, 12, i % 3 ? 200 : 1400), vrange(&r, 4, i % 3 ? 100 : 700), vchance(&r, 15), &r);
   printf("# celtcallees2 seed=%s level=%d cases=%ld witnesses=%ld\n", argv[2], level, g_cases, g_wit);
   return 0;
}
