/* c17_cwrs.c — correspondence harness for celt/cwrs.c and the cache look-ups of celt/rate.h (C17).
   The real cwrs.c is #included (static icwrs/cwrsi and the PVQ table are reachable); only the two
   range-coder entry points it calls are replaced by capturing stubs, so encode_pulses/decode_pulses
   run unchanged.
   Modes:  tie <level> <shard> <nshards> <seed>     level 0: exhaustive for V <= 2^20, 1: V <= 2^22
           stdin                                    answer `cwrs …` lines read from stdin            */
#ifdef HAVE_CONFIG_H
#include "config.h"
#endif
#include "vcommon.h"
#include "celt/entenc.h"
#include "celt/entdec.h"

static opus_uint32 cap_fl, cap_ft, feed_i;
static int cap_calls;
static void verif_enc_uint(ec_enc *e, opus_uint32 fl, opus_uint32 ft) { (void)e; cap_fl = fl; cap_ft = ft; cap_calls++; }
static opus_uint32 verif_dec_uint(ec_dec *d, opus_uint32 ft) { (void)d; cap_ft = ft; cap_calls++; return feed_i; }
#define ec_enc_uint verif_enc_uint
#define ec_dec_uint verif_dec_uint
#include "celt/cwrs.c"
#undef ec_enc_uint
#undef ec_dec_uint
#include "celt/modes.h"
#include "celt/rate.h"
#include "opus_custom.h"

#define MAXN 256
static const CELTMode *mode;

static uint64_t mix(uint64_t h, int64_t v) { return (h ^ (uint64_t)v) * 0x100000001b3ULL; }

static void pr_y(const int *y, int n) { int j; for (j = 0; j < n; j++) printf("%s%d", j ? "," : "", y[j]); }

static void op_V(int n, int k)
{
   printf("I cwrs V %d %d\n", n, k);
   printf("O v=%lu\n", (unsigned long)CELT_PVQ_V(n, k));
}
static void op_enc(const int *y, int n, int k)
{
   printf("I cwrs enc %d ", k); pr_y(y, n); printf("\n"); fflush(stdout);
   cap_calls = 0;
   encode_pulses(y, n, k, NULL);
   printf("O i=%lu ft=%lu\n", (unsigned long)cap_fl, (unsigned long)cap_ft);
}
static void op_dec(int n, int k, opus_uint32 i)
{
   int y[MAXN]; opus_val32 yy;
   printf("I cwrs dec %d %d %lu\n", n, k, (unsigned long)i); fflush(stdout);
   feed_i = i;
   yy = decode_pulses(y, n, k, NULL);
   printf("O y="); pr_y(y, n); printf(" yy=%ld ft=%lu\n", (long)yy, (unsigned long)cap_ft);
}
static void op_range(int n, int k, opus_uint32 i0, opus_uint32 cnt)
{
   int y[MAXN]; uint64_t h = 0xcbf29ce484222325ULL; opus_uint32 c; int j;
   printf("I cwrs range %d %d %lu %lu\n", n, k, (unsigned long)i0, (unsigned long)cnt); fflush(stdout);
   for (c = 0; c < cnt; c++) {
      opus_val32 yy = cwrsi(n, k, i0 + c, y);
      for (j = 0; j < n; j++) h = mix(h, y[j]);
      h = mix(h, (int64_t)yy);
      h = mix(h, (int64_t)icwrs(n, y));
   }
   printf("O h=%016llx\n", (unsigned long long)h);
}
static void op_b2p(int band, int lm1, int bits)
{
   printf("I cwrs b2p %d %d %d\n", band, lm1, bits);
   printf("O q=%d\n", bits2pulses(mode, band, lm1 - 1, bits));
}
static void op_p2b(int band, int lm1, int pulses)
{
   printf("I cwrs p2b %d %d %d\n", band, lm1, pulses);
   printf("O b=%d\n", pulses2bits(mode, band, lm1 - 1, pulses));
}

/* a random vector of dimension n with exactly k pulses */
static void rand_y(vrng *r, int *y, int n, int k)
{
   int j, style = vbelow(r, 4), span = style == 0 ? n : (style == 1 ? 1 + (int)vbelow(r, n) : (style == 2 ? 2 : 1 + (int)vbelow(r, 4)));
   int base = vbelow(r, n);
   int sg[MAXN];
   for (j = 0; j < n; j++) { y[j] = 0; sg[j] = vbelow(r, 2) ? 1 : -1; }
   if (span > n) span = n;
   for (j = 0; j < k; j++) { int p = (base + (int)vbelow(r, span)) % n; y[p] += sg[p]; }
}

static long unit, shard, nshards;
static int mine(void) { return (unit++ % nshards) == shard; }

static void do_pair(vrng *r, int n, int k, opus_uint32 limit, int in_cache)
{
   opus_uint32 v = CELT_PVQ_V(n, k);
   int y[MAXN], t;
   if (mine()) op_V(n, k);
   if (v <= limit) {
      opus_uint32 i0;
      for (i0 = 0; i0 < v; i0 += 4096) if (mine()) op_range(n, k, i0, v - i0 < 4096 ? v - i0 : 4096);
   } else {
      /* stratified: 64 strata with a random block of 64 each, the two ends, and the sign/zero boundaries */
      int s;
      opus_uint32 un = CELT_PVQ_U(n, k), un1 = CELT_PVQ_U(n, k + 1);
      for (s = 0; s < 64; s++) {
         opus_uint32 lo = (opus_uint32)((uint64_t)v * s / 64), hi = (opus_uint32)((uint64_t)v * (s + 1) / 64);
         opus_uint32 i0 = lo + vbelow(r, hi - lo > 64 ? hi - lo - 64 : 1);
         if (mine()) op_range(n, k, i0, 64);
      }
      if (mine()) op_range(n, k, 0, 256);
      if (mine()) op_range(n, k, v - 256, 256);
      if (un >= 128 && mine()) op_range(n, k, un - 128, 256);
      if (un >= 128 && un1 >= 128 && mine()) op_range(n, k, un1 - 128, 256);
   }
   if (mine()) {
      op_dec(n, k, 0); op_dec(n, k, v - 1); op_dec(n, k, vbelow(r, v));
      op_dec(n, k, CELT_PVQ_U(n, k)); op_dec(n, k, CELT_PVQ_U(n, k + 1));
   }
   for (t = 0; t < (in_cache ? 6 : 2); t++) if (mine()) { rand_y(r, y, n, k); op_enc(y, n, k); }
   if (mine()) { memset(y, 0, sizeof(y)); y[0] = k; op_enc(y, n, k); y[0] = 0; y[n - 1] = -k; op_enc(y, n, k); }
}

static void run_tie(int level, uint64_t seed)
{
   opus_uint32 limit = level ? (1u << 22) : (1u << 20);
   vrng r; int i, j, q, n, seen[MAXN];
   int nb = mode->nbEBands;
   r.s = seed;
   memset(seen, 0, sizeof(seen));
   /* every (N,K) the static mode can request: cache rows for LM+1 = 0..maxLM+1, K = get_pulses(1..cache[0]) */
   for (i = 0; i <= mode->maxLM + 1; i++) for (j = 0; j < nb; j++) {
      const unsigned char *cache;
      n = ((mode->eBands[j + 1] - mode->eBands[j]) << i) >> 1;
      if (n < 1 || seen[n]) continue;
      seen[n] = 1;
      cache = mode->cache.bits + mode->cache.index[i * nb + j];
      for (q = 1; q <= cache[0]; q++) {
         if (n >= 2) do_pair(&r, n, get_pulses(q), limit, 1);
         else if (mine()) op_V(n, get_pulses(q));
      }
   }
   /* a few sizes the table supports but the static mode does not use */
   for (n = 2; n <= 14; n++) if (!seen[n]) for (q = 1; q <= 8; q++) do_pair(&r, n, q, limit, 0);
   /* cache look-ups */
   for (i = 0; i <= mode->maxLM + 1; i++) for (j = 0; j < nb; j++) {
      int b;
      if (mode->cache.index[i * nb + j] < 0) continue;
      if (!mine()) continue;
      for (b = -2; b <= 300; b++) op_b2p(j, i, b);
      for (b = 0; b <= mode->cache.bits[mode->cache.index[i * nb + j]]; b++) op_p2b(j, i, b);
   }
}

static void run_stdin(void)
{
   static char line[1 << 16];
   while (fgets(line, sizeof(line), stdin)) {
      char op[32]; long a, b, c, d; int off = 0;
      if (sscanf(line, "cwrs %31s%n", op, &off) != 1) continue;
      if (!strcmp(op, "V") && sscanf(line + off, "%ld %ld", &a, &b) == 2) op_V((int)a, (int)b);
      else if (!strcmp(op, "dec") && sscanf(line + off, "%ld %ld %ld", &a, &b, &c) == 3) op_dec((int)a, (int)b, (opus_uint32)c);
      else if (!strcmp(op, "range") && sscanf(line + off, "%ld %ld %ld %ld", &a, &b, &c, &d) == 4) op_range((int)a, (int)b, (opus_uint32)c, (opus_uint32)d);
      else if (!strcmp(op, "b2p") && sscanf(line + off, "%ld %ld %ld", &a, &b, &c) == 3) op_b2p((int)a, (int)b, (int)c);
      else if (!strcmp(op, "p2b") && sscanf(line + off, "%ld %ld %ld", &a, &b, &c) == 3) op_p2b((int)a, (int)b, (int)c);
      else if (!strcmp(op, "enc")) {
         int y[MAXN], n = 0, k, used = 0; char *p;
         if (sscanf(line + off, "%d %n", &k, &used) != 1) continue;
         p = line + off + used;
         while (*p && *p != '\n' && n < MAXN) { y[n++] = (int)strtol(p, &p, 10); if (*p == ',') p++; }
         op_enc(y, n, k);
      }
   }
}

int main(int argc, char **argv)
{
   int err = 0;
   vinstall_traps();
   mode = opus_custom_mode_create(48000, 960, &err);
   if (!mode) return 2;
   if (argc >= 6 && !strcmp(argv[1], "tie")) {
      shard = atol(argv[3]); nshards = atol(argv[4]);
      run_tie(atoi(argv[2]), strtoull(argv[5], NULL, 10));
   } else if (argc >= 2 && !strcmp(argv[1], "stdin")) run_stdin();
   else { fprintf(stderr, "usage: c17_cwrs tie <level> <shard> <nshards> <seed> | stdin\n"); return 64; }
   return 0;
}
