/* c03_silkcore.c — property C03, slice SilkCore: exact tie of the Lean model of the SILK frame synthesis
   (lean/OpusModel/SilkCore*.lean) with the library's silk_decode_parameters / silk_decode_core and the good-frame path of
   silk_decode_frame.

   The harness compiles the repo's own silk/decode_frame.c with the four callees silk_decode_pulses, silk_decode_parameters,
   silk_decode_core and silk_PLC renamed to recording hooks (the hooks call the LIBRARY's functions; nothing in /repo is
   edited, and the harness' silk_decode_frame replaces the archive member of the same name at link time).  Every good frame
   that the real decoder decodes — from packets of the real encoder (SILK-only, NB/MB/WB = 8/12/16 kHz internal rate, 10 / 20 /
   40 / 60 ms, mono / stereo, DTX, FEC, lost packets, bandwidth switches = decoder resets) or from packets of random bytes —
   becomes one case:
      I silkcore frame <state before silk_decode_parameters> <indices> <pulses>
      O P <silk_decoder_control + state members after silk_decode_parameters> C <xq, state after silk_decode_core>
        F <outBuf after the buffer update of decode_frame.c:104-107, lagPrev at return>
   Mode `rand`: random in-range index sets and random states, silk_decode_parameters + silk_decode_core called directly
   (op `core`, no F part).
   usage: c03_silkcore stream <seed> <ncases> | rand <seed> <ncases> | search <seed> <ncases> */
#define silk_decode_parameters hook_decode_parameters
#define silk_decode_core hook_decode_core
#define silk_decode_pulses hook_decode_pulses
#define silk_PLC hook_PLC
#define silk_decode_frame verif_decode_frame_body
#include "vcommon.h"
#include "opus.h"
#include "opus_private.h"
#include "main.h"
#include "decode_frame.c"
#undef silk_decode_parameters
#undef silk_decode_core
#undef silk_decode_pulses
#undef silk_PLC
#undef silk_decode_frame
void silk_decode_parameters(silk_decoder_state *psDec, silk_decoder_control *psDecCtrl, opus_int condCoding);
void silk_decode_core(silk_decoder_state *psDec, silk_decoder_control *psDecCtrl, opus_int16 xq[],
                      const opus_int16 pulses[MAX_FRAME_LENGTH], int arch);
void silk_decode_pulses(ec_dec *psRangeDec, opus_int16 pulses[], const opus_int signalType, const opus_int quantOffsetType,
                        const opus_int frame_length);
void silk_PLC(silk_decoder_state *psDec, silk_decoder_control *psDecCtrl, opus_int16 frame[], opus_int lost, int arch);

#define NOUT ((int)(sizeof(((silk_decoder_state *)0)->outBuf) / sizeof(opus_int16)))

static long g_limit, g_cases;
static int g_active;               /* a case is in flight (I line printed) */
static const opus_int16 *g_pulses;
static opus_int16 *g_xq;
static const char *g_op = "frame";
/* statistics */
static long h_fs[3], h_nb[2], h_type[3], h_loss, h_reset, h_trans, h_interp, h_cond, h_gainchg, h_sat, h_bigpulse, h_rewh2;

static void plist16(const char *k, const opus_int16 *p, int n) { int i; printf("%s", k); for (i = 0; i < n; i++) printf("%s%d", i ? "," : "", (int)p[i]); if (!n) printf("-"); }
static void plist32(const char *k, const opus_int32 *p, int n) { int i; printf("%s", k); for (i = 0; i < n; i++) printf("%s%d", i ? "," : "", (int)p[i]); if (!n) printf("-"); }
static void plist8(const char *k, const opus_int8 *p, int n) { int i; printf("%s", k); for (i = 0; i < n; i++) printf("%s%d", i ? "," : "", (int)p[i]); if (!n) printf("-"); }
static void plisti(const char *k, const opus_int *p, int n) { int i; printf("%s", k); for (i = 0; i < n; i++) printf("%s%d", i ? "," : "", (int)p[i]); if (!n) printf("-"); }

static void print_input(const silk_decoder_state *d, int condCoding, const opus_int16 *pulses)
{
   int i, big = 0;
   printf("I silkcore %s %d %d %d %d %d %d %d %d ", g_op, d->fs_kHz, d->nb_subfr, d->lossCnt, d->prevSignalType, d->lagPrev,
          (int)d->LastGainIndex, d->first_frame_after_reset, (int)d->prev_gain_Q16);
   plist32("", d->sLPC_Q14_buf, MAX_LPC_ORDER);
   plist16(" ", d->prevNLSF_Q15, MAX_LPC_ORDER);
   plist16(" ", d->outBuf, NOUT);
   printf(" %d %d %d", condCoding, (int)d->indices.signalType, (int)d->indices.quantOffsetType);
   plist8(" ", d->indices.GainsIndices, d->nb_subfr);
   plist8(" ", d->indices.NLSFIndices, d->LPC_order + 1);
   printf(" %d %d %d %d", (int)d->indices.NLSFInterpCoef_Q2, (int)d->indices.lagIndex, (int)d->indices.contourIndex, (int)d->indices.PERIndex);
   plist8(" ", d->indices.LTPIndex, d->nb_subfr);
   printf(" %d %d", (int)d->indices.LTP_scaleIndex, (int)d->indices.Seed);
   plist16(" ", pulses, d->frame_length);
   printf("\n");
   fflush(stdout);
   h_fs[(d->fs_kHz - 8) / 4]++; h_nb[d->nb_subfr == 4]++; h_type[d->indices.signalType]++;
   h_loss += d->lossCnt != 0; h_reset += d->first_frame_after_reset == 1; h_cond += condCoding == CODE_CONDITIONALLY;
   h_trans += d->lossCnt && d->prevSignalType == TYPE_VOICED && d->indices.signalType != TYPE_VOICED;
   h_interp += d->indices.NLSFInterpCoef_Q2 < 4 && d->first_frame_after_reset != 1;
   h_rewh2 += d->indices.NLSFInterpCoef_Q2 < 4 && d->first_frame_after_reset != 1 && d->indices.signalType == TYPE_VOICED && d->nb_subfr == 4;
   for (i = 0; i < d->frame_length; i++) if (pulses[i] > 30 || pulses[i] < -30) big = 1;
   h_bigpulse += big;
}
static void print_params(const silk_decoder_state *d, const silk_decoder_control *c)
{
   printf("O P ");
   plist32("g=", c->Gains_Q16, d->nb_subfr);
   plist16(" a0=", c->PredCoef_Q12[0], d->LPC_order);
   plist16(" a1=", c->PredCoef_Q12[1], d->LPC_order);
   plist16(" ltp=", c->LTPCoef_Q14, LTP_ORDER * d->nb_subfr);
   plisti(" pl=", c->pitchL, d->nb_subfr);
   printf(" sc=%d lgi=%d", (int)c->LTP_scale_Q14, (int)d->LastGainIndex);
   plist16(" nlsf=", d->prevNLSF_Q15, MAX_LPC_ORDER);
   printf(" ic=%d per=%d", (int)d->indices.NLSFInterpCoef_Q2, (int)d->indices.PERIndex);
   if (c->Gains_Q16[0] != d->prev_gain_Q16) h_gainchg++;
}
static void print_core(const silk_decoder_state *d, const silk_decoder_control *c, const opus_int16 *xq)
{
   int i, sat = 0;
   plist16(" C xq=", xq, d->frame_length);
   plist32(" slpc=", d->sLPC_Q14_buf, MAX_LPC_ORDER);
   plist16(" ob=", d->outBuf, NOUT);
   plist32(" exc=", d->exc_Q14, d->frame_length);
   printf(" pg=%d", (int)d->prev_gain_Q16);
   plist16(" ltp=", c->LTPCoef_Q14, LTP_ORDER * d->nb_subfr);
   plisti(" pl=", c->pitchL, d->nb_subfr);
   for (i = 0; i < d->frame_length; i++) if (xq[i] == 32767 || xq[i] == -32768) sat = 1;
   h_sat += sat;
}

void hook_decode_pulses(ec_dec *psRangeDec, opus_int16 pulses[], const opus_int signalType, const opus_int quantOffsetType,
                        const opus_int frame_length)
{
   g_pulses = pulses;
   silk_decode_pulses(psRangeDec, pulses, signalType, quantOffsetType, frame_length);
}
void hook_decode_parameters(silk_decoder_state *psDec, silk_decoder_control *psDecCtrl, opus_int condCoding)
{
   g_active = g_cases < g_limit;
   if (g_active) print_input(psDec, condCoding, g_pulses);
   silk_decode_parameters(psDec, psDecCtrl, condCoding);
   if (g_active) print_params(psDec, psDecCtrl);
}
void hook_decode_core(silk_decoder_state *psDec, silk_decoder_control *psDecCtrl, opus_int16 xq[],
                      const opus_int16 pulses[MAX_FRAME_LENGTH], int arch)
{
   silk_decode_core(psDec, psDecCtrl, xq, pulses, arch);
   g_xq = xq;
   if (g_active) print_core(psDec, psDecCtrl, xq);
}
static silk_decoder_state *g_pending; static silk_decoder_control *g_pending_ctrl;
void hook_PLC(silk_decoder_state *psDec, silk_decoder_control *psDecCtrl, opus_int16 frame[], opus_int lost, int arch)
{
   if (!lost && g_active) { plist16(" F ob=", psDec->outBuf, NOUT); g_pending = psDec; g_pending_ctrl = psDecCtrl; }
   silk_PLC(psDec, psDecCtrl, frame, lost, arch);
}
/* lagPrev is written by the last statement of silk_decode_frame (decode_frame.c:162): the case is closed after the frame
   function's body has returned */
static void close_case(void)
{
   if (g_active && g_pending) { printf(" lp=%d\n", g_pending->lagPrev); fflush(stdout); g_cases++; }
   g_active = 0; g_pending = 0;
}

/* the function the library's silk_Decode calls: the repo's body (compiled above), then the case is closed */
opus_int silk_decode_frame(silk_decoder_state *psDec, ec_dec *psRangeDec, opus_int16 pOut[], opus_int32 *pN, opus_int lostFlag,
                           opus_int condCoding, int arch)
{
   opus_int ret = verif_decode_frame_body(psDec, psRangeDec, pOut, pN, lostFlag, condCoding, arch);
   close_case();
   return ret;
}

/* ------------------------------------------------------------------ stream mode */
static void synth_signal(vrng *r, opus_int16 *x, int n, int ch, int fs)
{
   /* segments of: pulse-train "voiced" speech with gliding pitch through a resonator, noise, silence, full-scale bursts */
   int i = 0; double y1 = 0, y2 = 0;
   while (i < n) {
      int kind = (int)vbelow(r, 10), len = vrange(r, fs / 20, fs / 2), j;
      double f0 = vrange(r, 70, 420), glide = (vrange(r, -100, 100)) / (double)fs / 4.0, amp = vrange(r, 200, 30000), ph = 0;
      double fr = vrange(r, 300, 3000), bw = 0.90 + vbelow(r, 90) / 1000.0;
      double c1 = 2 * bw * cos(2 * 3.14159265358979 * fr / fs), c2 = -bw * bw;
      for (j = 0; j < len && i < n; j++, i++) {
         double e = 0, v; int c;
         if (kind < 5) { ph += f0 / fs; f0 += glide; if (f0 < 60) f0 = 60; if (f0 > 450) f0 = 450; if (ph >= 1) { ph -= 1; e = amp; } e += ((int)vbelow(r, 201) - 100) * amp / 4000.0; }
         else if (kind < 7) e = ((int)vbelow(r, 2001) - 1000) * amp / 3000.0;
         else if (kind < 8) e = 0;
         else if (kind < 9) e = ((int)vbelow(r, 2001) - 1000) * 40.0;     /* loud */
         else e = (j & 64) ? 32000 : -32000;                               /* square wave at full scale */
         v = e + c1 * y1 + c2 * y2; y2 = y1; y1 = v;
         if (kind == 7 || kind == 9) v = e;
         if (v > 32767) v = 32767; if (v < -32768) v = -32768;
         for (c = 0; c < ch; c++) x[i * ch + c] = (opus_int16)(c ? v * 0.6 + ((int)vbelow(r, 65) - 32) : v);
      }
   }
}

static void run_stream(vrng *r, long idx)
{
   static const int BW[3] = {OPUS_BANDWIDTH_NARROWBAND, OPUS_BANDWIDTH_MEDIUMBAND, OPUS_BANDWIDTH_WIDEBAND};
   static const int MS[4] = {10, 20, 40, 60};
   int fs = 16000, ch = vchance(r, 30) ? 2 : 1, err, ms = MS[vbelow(r, 4)], fsz, npk = vrange(r, 12, 40), p, garbage = (idx % 7) == 6;
   int lossp = vchance(r, 60) ? vrange(r, 5, 35) : 0, bw = (int)((idx + vbelow(r, 2)) % 3);
   OpusEncoder *enc = opus_encoder_create(fs, ch, vchance(r, 70) ? OPUS_APPLICATION_VOIP : OPUS_APPLICATION_AUDIO, &err);
   OpusDecoder *dec = opus_decoder_create(fs, ch, &err);
   opus_int16 *in, *out; unsigned char (*pk)[1500]; int *plen;
   if (idx % 5 == 0) ms = 10; else if (idx % 5 == 1) ms = 20;
   fsz = fs / 1000 * ms;
   in = (opus_int16 *)malloc(sizeof(opus_int16) * fsz * ch * npk); out = (opus_int16 *)malloc(sizeof(opus_int16) * 5760 * ch);
   pk = malloc(1500 * npk); plen = (int *)malloc(sizeof(int) * npk);
   synth_signal(r, in, fsz * npk, ch, fs);
   opus_encoder_ctl(enc, OPUS_SET_FORCE_MODE(MODE_SILK_ONLY));
   opus_encoder_ctl(enc, OPUS_SET_BANDWIDTH(BW[bw]));
   opus_encoder_ctl(enc, OPUS_SET_BITRATE(vrange(r, 6000, 45000) * ch));
   opus_encoder_ctl(enc, OPUS_SET_COMPLEXITY(vrange(r, 0, 10)));
   opus_encoder_ctl(enc, OPUS_SET_INBAND_FEC(vchance(r, 40)));
   opus_encoder_ctl(enc, OPUS_SET_PACKET_LOSS_PERC(vrange(r, 0, 30)));
   opus_encoder_ctl(enc, OPUS_SET_DTX(vchance(r, 30)));
   opus_encoder_ctl(enc, OPUS_SET_VBR(vchance(r, 70)));
   for (p = 0; p < npk; p++) {
      if (p && vchance(r, 8)) { bw = (int)vbelow(r, 3); opus_encoder_ctl(enc, OPUS_SET_BANDWIDTH(BW[bw])); }
      plen[p] = opus_encode(enc, in + (long)p * fsz * ch, fsz, pk[p], 1500);
      if (plen[p] < 0) plen[p] = 0;
      if (garbage && plen[p] > 1) { int k; for (k = 1; k < plen[p]; k++) pk[p][k] = (unsigned char)vnext(r); }
   }
   for (p = 0; p < npk && g_cases < g_limit; p++) {
      int lost = p > 0 && vchance(r, lossp);
      if (lost) {
         if (p + 1 < npk && plen[p + 1] > 0 && vchance(r, 50)) {
            unsigned char *q = vexact(pk[p + 1], plen[p + 1]);
            opus_decode(dec, q, plen[p + 1], out, fsz, 1); free(q);
         } else opus_decode(dec, NULL, 0, out, fsz, 0);
      } else if (plen[p] > 0) {
         unsigned char *q = vexact(pk[p], plen[p]);
         opus_decode(dec, q, plen[p], out, 5760, 0); free(q);      /* up to 3 SILK frames per channel = up to 6 cases */
      }
   }
   free(in); free(out); free(pk); free(plen);
   opus_encoder_destroy(enc); opus_decoder_destroy(dec);
}

/* ------------------------------------------------------------------ rand mode */
#include "tables.h"
#include "pitch_est_defines.h"
static silk_decoder_state d; static silk_decoder_control c; static opus_int16 pulses[MAX_FRAME_LENGTH + 16], xq[MAX_FRAME_LENGTH + 16];
static int gen_rand(vrng *r)
{
   int fs = 8 + 4 * (int)vbelow(r, 3), nb = vchance(r, 35) ? 2 : 4, i, cond, amp, persz, ncont;
   memset(&d, 0, sizeof d); memset(&c, 0, sizeof c);
   silk_init_decoder(&d);
   d.nb_subfr = nb;
   silk_decoder_set_fs(&d, fs, 16000);
   /* state */
   d.first_frame_after_reset = vchance(r, 15);
   d.lossCnt = vchance(r, 35) ? vrange(r, 1, 5) : 0;
   d.prevSignalType = (int)vbelow(r, 3);
   d.lagPrev = vrange(r, 2 * fs, 18 * fs);
   d.LastGainIndex = (opus_int8)vbelow(r, 64);
   { opus_int8 gi = (opus_int8)vbelow(r, 64), prev = (opus_int8)vbelow(r, 64); opus_int32 g[1];
     silk_gains_dequant(g, &gi, &prev, 0, 1); d.prev_gain_Q16 = vchance(r, 10) ? 65536 : g[0]; }
   amp = vchance(r, 50) ? 1 << vrange(r, 4, 15) : 32768;
   for (i = 0; i < NOUT; i++) d.outBuf[i] = (opus_int16)(vchance(r, 3) ? (vchance(r, 50) ? 32767 : -32768) : (int)vbelow(r, 2 * amp) - amp);
   { int sh = vrange(r, 8, 31); for (i = 0; i < MAX_LPC_ORDER; i++) d.sLPC_Q14_buf[i] = (opus_int32)((int64_t)(vnext(r) >> 1) >> (63 - sh)) * (vchance(r, 50) ? 1 : -1); }
   { int acc = 0; for (i = 0; i < d.LPC_order; i++) { acc += vrange(r, 100, 60000 / d.LPC_order); d.prevNLSF_Q15[i] = (opus_int16)(acc > 32767 ? 32767 : acc); } }
   /* indices, all in the ranges the symbol decoder can deliver */
   cond = vchance(r, 40) ? CODE_CONDITIONALLY : (vchance(r, 50) ? CODE_INDEPENDENTLY : CODE_INDEPENDENTLY_NO_LTP_SCALING);
   d.indices.signalType = (opus_int8)vbelow(r, 3); if (vchance(r, 40)) d.indices.signalType = TYPE_VOICED;
   d.indices.quantOffsetType = (opus_int8)vbelow(r, 2);
   for (i = 0; i < nb; i++) d.indices.GainsIndices[i] = (opus_int8)((i == 0 && cond != CODE_CONDITIONALLY) ? vbelow(r, 64) : vbelow(r, 41));
   d.indices.NLSFIndices[0] = (opus_int8)vbelow(r, d.psNLSF_CB->nVectors);
   for (i = 0; i < d.LPC_order; i++) d.indices.NLSFIndices[i + 1] = (opus_int8)(vchance(r, 80) ? vrange(r, -4, 4) : vrange(r, -10, 10));
   d.indices.NLSFInterpCoef_Q2 = (opus_int8)(nb == 4 ? vbelow(r, 5) : 4);
   d.indices.lagIndex = (opus_int16)(vchance(r, 15) ? (vchance(r, 50) ? 0 : 16 * fs - 1) : vbelow(r, 16 * fs));
   if (fs == 8) ncont = nb == 4 ? PE_NB_CBKS_STAGE2_EXT : PE_NB_CBKS_STAGE2_10MS; else ncont = nb == 4 ? PE_NB_CBKS_STAGE3_MAX : PE_NB_CBKS_STAGE3_10MS;
   d.indices.contourIndex = (opus_int8)vbelow(r, ncont);
   d.indices.PERIndex = (opus_int8)vbelow(r, 3); persz = silk_LTP_vq_sizes[d.indices.PERIndex];
   for (i = 0; i < nb; i++) d.indices.LTPIndex[i] = (opus_int8)vbelow(r, persz);
   d.indices.LTP_scaleIndex = (opus_int8)vbelow(r, 3);
   d.indices.Seed = (opus_int8)vbelow(r, 4);
   { int kind = (int)vbelow(r, 4);
     for (i = 0; i < d.frame_length; i++) {
        int v = 0;
        if (kind == 0) v = vchance(r, 30) ? vrange(r, -2, 2) : 0;
        else if (kind == 1) v = vrange(r, -8, 8);
        else if (kind == 2) v = vchance(r, 10) ? vrange(r, -400, 400) : vrange(r, -3, 3);
        else v = vchance(r, 2) ? vrange(r, -17000, 17000) : vrange(r, -20, 20);
        pulses[i] = (opus_int16)v;
     } }
   return cond;
}
static void run_rand(vrng *r)
{
   int cond = gen_rand(r);
   g_op = "core";
   print_input(&d, cond, pulses);
   silk_decode_parameters(&d, &c, cond);
   print_params(&d, &c);
   silk_decode_core(&d, &c, xq, pulses, d.arch);
   print_core(&d, &c, xq);
   printf("\n"); fflush(stdout);
   g_cases++;
}


/* ------------------------------------------------------------------ search mode (implementation only) */
static volatile unsigned char g_sink;
static void dirty_stack(vrng *r) { unsigned char junk[24000]; int i; for (i = 0; i < (int)sizeof junk; i++) junk[i] = (unsigned char)vnext(r); g_sink = junk[vbelow(r, sizeof junk)]; }
static long run_search(vrng *r, long n)
{
   long k, bad = 0;
   for (k = 0; k < n; k++) {
      static silk_decoder_state d1, d2; static silk_decoder_control c1, c2; static opus_int16 x1[MAX_FRAME_LENGTH + 16], x2[MAX_FRAME_LENGTH + 16];
      int cond = gen_rand(r), i, L = d.frame_length; const char *why = 0;
      d1 = d; d2 = d;
      /* second run: everything the frame must NOT depend on is different: stale excitation, stale control block, stale xq, stack */
      for (i = 0; i < MAX_FRAME_LENGTH; i++) d2.exc_Q14[i] = (opus_int32)vnext(r);
      for (i = 0; i < (int)sizeof c2; i++) ((unsigned char *)&c2)[i] = (unsigned char)vnext(r);
      memset(&c1, 0, sizeof c1);
      for (i = 0; i < MAX_FRAME_LENGTH + 16; i++) { x1[i] = 0x5a5a; x2[i] = (opus_int16)(i < L ? vnext(r) : 0x5a5a); }
      /* outBuf above what the configuration uses is dead storage */
      for (i = d.ltp_mem_length + 2 * d.subfr_length; i < NOUT; i++) d2.outBuf[i] = (opus_int16)vnext(r);
      silk_decode_parameters(&d1, &c1, cond); silk_decode_core(&d1, &c1, x1, pulses, d1.arch);
      dirty_stack(r);
      silk_decode_parameters(&d2, &c2, cond); silk_decode_core(&d2, &c2, x2, pulses, d2.arch);
      if (memcmp(x1, x2, sizeof x1)) why = "xq differs (or is written beyond frame_length)";
      else if (memcmp(d1.sLPC_Q14_buf, d2.sLPC_Q14_buf, sizeof d1.sLPC_Q14_buf)) why = "sLPC_Q14_buf differs";
      else if (memcmp(d1.exc_Q14, d2.exc_Q14, sizeof(opus_int32) * L)) why = "exc_Q14 differs";
      else if (memcmp(d1.outBuf, d2.outBuf, sizeof(opus_int16) * (d.ltp_mem_length + 2 * d.subfr_length))) why = "outBuf differs";
      else if (d1.prev_gain_Q16 != d2.prev_gain_Q16 || d1.LastGainIndex != d2.LastGainIndex) why = "prev_gain_Q16 / LastGainIndex differ";
      else if (memcmp(d1.prevNLSF_Q15, d2.prevNLSF_Q15, sizeof d1.prevNLSF_Q15)) why = "prevNLSF_Q15 differs";
      else if (memcmp(c1.Gains_Q16, c2.Gains_Q16, sizeof(opus_int32) * d.nb_subfr) || memcmp(c1.pitchL, c2.pitchL, sizeof(opus_int) * d.nb_subfr)
               || memcmp(c1.PredCoef_Q12[0], c2.PredCoef_Q12[0], 2 * d.LPC_order) || memcmp(c1.PredCoef_Q12[1], c2.PredCoef_Q12[1], 2 * d.LPC_order)
               || memcmp(c1.LTPCoef_Q14, c2.LTPCoef_Q14, 2 * LTP_ORDER * d.nb_subfr) || c1.LTP_scale_Q14 != c2.LTP_scale_Q14) why = "decoder control differs";
      else if (memcmp(d1.exc_Q14 + L, d.exc_Q14 + L, sizeof(opus_int32) * (MAX_FRAME_LENGTH - L))) why = "exc_Q14 written beyond frame_length";
      if (why && bad < 5) {
         bad++;
         g_op = "core"; printf("W determinism => %s\n", why); print_input(&d, cond, pulses);
      }
      g_cases++;
   }
   return bad;
}

int main(int argc, char **argv)
{
   vrng r; long idx = 0;
   if (argc < 4) { fprintf(stderr, "usage: c03_silkcore stream|rand <seed> <ncases>\n"); return 64; }
   vinstall_traps();
   r.s = strtoull(argv[2], 0, 10) * 0x9E3779B97F4A7C15ULL + (argv[1][0] == 's' ? 0x51C0DEULL : 0x7A2DULL); vnext(&r);
   g_limit = atol(argv[3]);
   if (!strcmp(argv[1], "stream")) { while (g_cases < g_limit && idx < 100000) run_stream(&r, idx++); }
   else if (!strcmp(argv[1], "rand")) { while (g_cases < g_limit) run_rand(&r); }
   else if (!strcmp(argv[1], "search")) { long bad = run_search(&r, g_limit); printf("S search cases=%ld violations=%ld\n", g_cases, bad); return 0; }
   else return 64;
   printf("# %s cases=%ld streams=%ld fs8/12/16=%ld/%ld/%ld nb2/4=%ld/%ld inactive/unvoiced/voiced=%ld/%ld/%ld after_loss=%ld "
          "first_after_reset=%ld voiced_plc_to_unvoiced=%ld nlsf_interp=%ld rewhiten_k2=%ld cond=%ld gain_change=%ld xq_saturated=%ld big_pulses=%ld\n",
          argv[1], g_cases, idx, h_fs[0], h_fs[1], h_fs[2], h_nb[0], h_nb[1], h_type[0], h_type[1], h_type[2], h_loss, h_reset, h_trans,
          h_interp, h_rewh2, h_cond, h_gainchg, h_sat, h_bigpulse);
   return 0;
}
