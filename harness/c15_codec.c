/* c15_codec.c — witness search for property C15 under whole-codec load (no Lean model involved).

   (1) Interposed dispatch tables.  This TU #includes silk/x86/x86_silk_map.c and celt/x86/x86_celt_map.c from /repo's
       working tree with the table names renamed to REAL_*, and then defines the tables under their true names with
       wrapper functions.  The library's own map objects are therefore not linked; every dispatched call of the codec
       goes  codec -> wrapper[arch] -> REAL_table[arch].  Each wrapper knows the arch index it sits at, and, while
       comparison is switched on, first runs the portable function and every SIMD function of that table on copies
       of the live arguments/state and compares all outputs:
         silk_NSQ, silk_NSQ_del_dec            whole silk_nsq_state + SideInfoIndices + pulses, byte for byte
         silk_VAD_GetSA_Q8                     return value + the whole silk_encoder_state, byte for byte
         silk_VQ_WMat_EC                       ind, res_nrg, rate_dist, gain
         silk_inner_product_FLP, celt_pitch_xcorr   |SIMD - C| <= 2*gamma_n*sum|x*y| (a-priori reassociation bound)
       and then repeats the comparison on *perturbed* copies (structured random states around the live one: other
       shaping order / number of delayed-decision states / warping, signal type, lags, gains from the quantiser's
       range, LTP vectors from the real codebooks, noise on the input, state chained from the previous perturbed run).
   (2) Arch cap.  The same PCM is encoded with OPUS_VERIF_ARCH_CAP unset,0,1,2,3,4.  Checked: the wrappers were entered
       at exactly the index min(cap, host level); packets and final ranges are identical between any two levels at
       which every *float* kernel table holds the same function (then only bit-exact integer kernels differ); every
       decoder level decodes every encoder level's packets to the encoder's final range; decoded PCM is identical
       between float-equivalent decoder levels.

      wrap <seed> <nconfigs> <nperturb> <compare-caps>     compare-caps: 1 = compare kernels in the uncapped run only,
                                                           2 = also in the cap-0 run
      cfg <subseed> <nperturb> <compare-caps>               re-run one configuration
   Prints `V <replay command> | <expected> | <observed>` per violation, `# dist …` statistics and a final
   `# search cases=<n> violations=<m>` line. */
#include "vcommon.h"
#include <math.h>

#define SILK_VAD_GETSA_Q8_IMPL REAL_SILK_VAD_GETSA_Q8_IMPL
#define SILK_NSQ_IMPL REAL_SILK_NSQ_IMPL
#define SILK_VQ_WMAT_EC_IMPL REAL_SILK_VQ_WMAT_EC_IMPL
#define SILK_NSQ_DEL_DEC_IMPL REAL_SILK_NSQ_DEL_DEC_IMPL
#define SILK_INNER_PRODUCT_FLP_IMPL REAL_SILK_INNER_PRODUCT_FLP_IMPL
#define PITCH_XCORR_IMPL REAL_PITCH_XCORR_IMPL
#include "silk/x86/x86_silk_map.c"
#include "celt/x86/x86_celt_map.c"
#undef SILK_VAD_GETSA_Q8_IMPL
#undef SILK_NSQ_IMPL
#undef SILK_VQ_WMAT_EC_IMPL
#undef SILK_NSQ_DEL_DEC_IMPL
#undef SILK_INNER_PRODUCT_FLP_IMPL
#undef PITCH_XCORR_IMPL
#include "tables.h"
#include "opus.h"
#include "opus_private.h"

#if defined(FIXED_POINT) || !defined(OPUS_HAVE_RTCD) || defined(OPUS_X86_PRESUME_AVX2) || !defined(OPUS_X86_MAY_HAVE_AVX2) || !defined(OPUS_X86_MAY_HAVE_SSE4_1)
# error "c15_codec.c is written for the float x86 RTCD configuration with SSE4.1 and AVX2 run-time dispatched"
#endif

/* ------------------------------------------------------------------ bookkeeping */
static int g_compare = 0, g_nperturb = 2, g_compare_caps = 1, g_print_cfg = 0;
static int g_host_arch = 0;
static uint64_t g_cfg_seed = 0;
static int g_cap_now = -1, g_frame_now = 0;
static long g_viol = 0, g_cases = 0;
static long g_calls[6][8];         /* kernel x level */
static long g_cmp[6], g_cmp_pert[6];
static unsigned g_levels_seen = 0;
static vrng g_pr;                  /* perturbation stream (seeded per configuration) */
static const char *KNAME[6] = { "silk_NSQ", "silk_NSQ_del_dec", "silk_VAD_GetSA_Q8", "silk_VQ_WMat_EC", "silk_inner_product_FLP", "celt_pitch_xcorr" };
static long g_nsq_paths[8], g_excluded_sat = 0, g_obs_order10 = 0, g_probe_order10 = 0;        /* 0 voiced 1 unvoiced 2 fast10_16 3 states3/4 4 warped */

static int g_extreme;
static const char *g_class = "";      /* defect-class tag appended to the replay command (read by known_findings matching) */
static void viol(const char *exp_, const char *obs)
{
   g_viol++;
   if (g_viol <= 12)
      printf("V c15_codec %s %llu %d %d%s%s%s | %s | %s (cap=%d frame=%d)\n", g_extreme ? "cfgx" : "cfg", (unsigned long long)g_cfg_seed,
             g_nperturb, g_compare_caps, g_extreme ? " x" : "", g_class[0] ? " class=" : "", g_class, exp_, obs, g_cap_now, g_frame_now);
   g_class = "";
}
static void note_level(int k, int level) { g_calls[k][level & 7]++; g_levels_seen |= 1u << (level & 7); }

/* ------------------------------------------------------------------ NSQ / NSQ_del_dec */
#define NSQ_DECL const silk_encoder_state *psEncC, silk_nsq_state *NSQ, SideInfoIndices *psIndices, const opus_int16 x16[], \
   opus_int8 pulses[], const opus_int16 *PredCoef_Q12, const opus_int16 LTPCoef_Q14[LTP_ORDER * MAX_NB_SUBFR], \
   const opus_int16 AR_Q13[MAX_NB_SUBFR * MAX_SHAPE_LPC_ORDER], const opus_int HarmShapeGain_Q14[MAX_NB_SUBFR], \
   const opus_int Tilt_Q14[MAX_NB_SUBFR], const opus_int32 LF_shp_Q14[MAX_NB_SUBFR], const opus_int32 Gains_Q16[MAX_NB_SUBFR], \
   const opus_int pitchL[MAX_NB_SUBFR], const opus_int Lambda_Q10, const opus_int LTP_scale_Q14
#define NSQ_PASS psEncC, NSQ, psIndices, x16, pulses, PredCoef_Q12, LTPCoef_Q14, AR_Q13, HarmShapeGain_Q14, Tilt_Q14, LF_shp_Q14, \
   Gains_Q16, pitchL, Lambda_Q10, LTP_scale_Q14
typedef void (*nsq_fn)(NSQ_DECL);

typedef struct {
   silk_encoder_state enc;
   silk_nsq_state nsq;
   SideInfoIndices ind;
   opus_int16 x16[MAX_FRAME_LENGTH];
   opus_int16 pred[2 * MAX_LPC_ORDER];
   opus_int16 ltp[LTP_ORDER * MAX_NB_SUBFR];
   opus_int16 ar[MAX_NB_SUBFR * MAX_SHAPE_LPC_ORDER];
   opus_int harm[MAX_NB_SUBFR], tilt[MAX_NB_SUBFR];
   opus_int32 lf[MAX_NB_SUBFR], gains[MAX_NB_SUBFR];
   opus_int pitch[MAX_NB_SUBFR];
   opus_int lambda, ltp_scale;
} nsq_case;

static silk_nsq_state g_shadow[2];
static int g_shadow_fs[2] = {0, 0};

static const char *nsq_diff(const nsq_case *c, const silk_nsq_state *a, const SideInfoIndices *ia, const opus_int8 *pa,
                            const silk_nsq_state *b, const SideInfoIndices *ib, const opus_int8 *pb)
{
   int n = c->enc.nb_subfr * c->enc.subfr_length;
   if (memcmp(pa, pb, n)) return "pulses differ";
   if (memcmp(ia, ib, sizeof *ia)) return "SideInfoIndices differ";
   if (memcmp(a->xq, b->xq, sizeof a->xq)) return "NSQ.xq differs";
   if (memcmp(a->sLTP_shp_Q14, b->sLTP_shp_Q14, sizeof a->sLTP_shp_Q14)) return "NSQ.sLTP_shp_Q14 differs";
   if (memcmp(a->sLPC_Q14, b->sLPC_Q14, sizeof a->sLPC_Q14)) return "NSQ.sLPC_Q14 differs";
   if (memcmp(a->sAR2_Q14, b->sAR2_Q14, sizeof a->sAR2_Q14)) return "NSQ.sAR2_Q14 differs";
   if (memcmp(a, b, sizeof *a)) return "NSQ scalar state differs (sLF_AR_shp/sDiff_shp/lagPrev/indices/rand_seed/prev_gain/rewhite_flag)";
   return NULL;
}

static void nsq_run(nsq_fn f, const nsq_case *c, silk_nsq_state *nsq, SideInfoIndices *ind, opus_int8 *pulses)
{
   *nsq = c->nsq; *ind = c->ind;
   memset(pulses, 0x55, MAX_FRAME_LENGTH);
   f(&c->enc, nsq, ind, c->x16, pulses, c->pred, c->ltp, c->ar, c->harm, c->tilt, c->lf, c->gains, c->pitch, c->lambda, c->ltp_scale);
}

/* compare the portable function with every SIMD function the real table holds */
static void nsq_compare_case(int deldec, const nsq_case *c, const char *what, silk_nsq_state *out_c, int perturbed, int probe10)
{
   const nsq_fn *tab = deldec ? (const nsq_fn *)REAL_SILK_NSQ_DEL_DEC_IMPL : (const nsq_fn *)REAL_SILK_NSQ_IMPL;
   nsq_fn cfun = deldec ? silk_NSQ_del_dec_c : silk_NSQ_c, done[8];
   static silk_nsq_state a, b; SideInfoIndices ia, ib;
   opus_int8 pa[MAX_FRAME_LENGTH], pb[MAX_FRAME_LENGTH];
   int lvl, nd = 0, j;
   nsq_run(cfun, c, &a, &ia, pa);
   if (out_c) *out_c = a;
   if (perturbed && !probe10) {
      int q, sat = 0, nn = c->enc.nb_subfr * c->enc.subfr_length;
      for (q = 0; q < nn; q++) if (pa[q] >= 30 || pa[q] <= -30) sat = 1;
      for (q = 0; q < 2 * MAX_FRAME_LENGTH; q++) if (a.xq[q] == 32767 || a.xq[q] == -32768) sat = 1;
      g_excluded_sat += sat;
   }
   for (lvl = 0; lvl <= g_host_arch && lvl <= 4; lvl++) {
      int seen = tab[lvl] == cfun || tab[lvl] == NULL;
      const char *d;
      for (j = 0; j < nd; j++) if (done[j] == tab[lvl]) seen = 1;
      if (seen) continue;
      done[nd++] = tab[lvl];
      nsq_run(tab[lvl], c, &b, &ib, pb);
      g_cases++;
      d = nsq_diff(c, &a, &ia, pa, &b, &ib, pb);
      if (d && probe10) { g_obs_order10++; d = NULL; }
      if (d && !perturbed && deldec && tab[lvl] == (nsq_fn)silk_NSQ_del_dec_avx2) {
         /* live state: tag the one defect class that is understood (see above): the portable result is in the wrap domain */
         int q, sat = 0, nn = c->enc.nb_subfr * c->enc.subfr_length;
         for (q = 0; q < nn; q++) if (pa[q] >= 30 || pa[q] <= -30) sat = 1;
         for (q = 0; q < 2 * MAX_FRAME_LENGTH; q++) if (a.xq[q] == 32767 || a.xq[q] == -32768) sat = 1;
         if (sat) g_class = "nsq-del-dec-avx2-wrap-domain";
      }
      if (d) {
         char eb[200], ob[360];
         snprintf(eb, sizeof eb, "%s: SIMD function at table index %d bit-identical to the portable function (%s)", KNAME[deldec], lvl, what);
         snprintf(ob, sizeof ob, "%s; fs=%d nb_subfr=%d signalType=%d shapingOrder=%d predictOrder=%d nStates=%d warping=%d interp=%d lambda=%d",
                  d, c->enc.fs_kHz, c->enc.nb_subfr, c->ind.signalType, c->enc.shapingLPCOrder, c->enc.predictLPCOrder,
                  c->enc.nStatesDelayedDecision, c->enc.warping_Q16, c->ind.NLSFInterpCoef_Q2, c->lambda);
         viol(eb, ob);
      }
   }
   g_nsq_paths[c->ind.signalType == TYPE_VOICED ? 0 : 1]++;
   if (c->enc.shapingLPCOrder == 10 && c->enc.predictLPCOrder == 16) g_nsq_paths[2]++;
   if (c->enc.nStatesDelayedDecision >= 3) g_nsq_paths[3]++;
   if (c->enc.warping_Q16 > 0) g_nsq_paths[4]++;
}

static opus_int32 rand_gain(vrng *r)
{
   /* the dequantiser's range [81920, 1686110208], log-uniform */
   double lg = log(81920.0) + (log(1686110208.0) - log(81920.0)) * (double)vbelow(r, 100001) / 100000.0;
   double g = exp(lg);
   if (g < 81920.0) g = 81920.0; if (g > 1686110208.0) g = 1686110208.0;
   return (opus_int32)g;
}

/* Perturbations stay inside what the encoder can hand to the quantiser (outside it the kernels read uninitialised scratch,
   which the portable and the SIMD code need not do alike).  States in which the quantiser saturates / wraps 32 bits ARE
   compared: since /repo 50e8da86 and b1d58384 the SIMD kernels wrap exactly like the C code there.
     - shaping order one of 12,14,16,20,24 (control_codec.c:316-387; order 10, for which silk_NSQ_sse4_1 has a special
       path, cannot be selected and is probed separately as an observation, not as a violation); prediction order
       16 -> 10 only; warping 0 or fs_kHz*983 (control_codec.c:365);
     - pitch lags of one frame within a few samples of each other (pitch contour), in [2*fs, 18*fs];
     - gains form a chain from NSQ.prev_gain_Q16: per sub-frame at most 4 quantiser steps down (factor >= 0.54,
       gain_quant.c MIN_DELTA_GAIN_QUANT), any amount up, inside the dequantiser's range; the input of each sub-frame is
       rescaled by the same factor as its gain, so the ratio input/step size stays that of the live frame;
     - LTP vectors from the real codebooks, LTP scale from the real table. */
static void nsq_perturb(int deldec, nsq_case *c, vrng *r)
{
   int k, j, fs = c->enc.fs_kHz, nb = c->enc.nb_subfr, sl = c->enc.subfr_length, n = nb * sl;
   static const int ORD[] = {12, 14, 16, 20, 24, 12, 16, 24, 14, 20};   /* the orders silk_setup_complexity can select */
   int old_shape = c->enc.shapingLPCOrder;
   opus_int32 live_gain[MAX_NB_SUBFR];
   /* encoder configuration */
   if (vchance(r, 70)) {
      c->enc.shapingLPCOrder = ORD[vbelow(r, 10)];
      for (k = 0; k < nb; k++) for (j = old_shape; j < c->enc.shapingLPCOrder; j++)
         c->ar[k * MAX_SHAPE_LPC_ORDER + j] = (opus_int16)vrange(r, -300, 300);
   }
   if (c->enc.predictLPCOrder == 16 && vchance(r, 15)) c->enc.predictLPCOrder = 10;
   if (deldec) {
      if (vchance(r, 75)) c->enc.nStatesDelayedDecision = vrange(r, 1, MAX_DEL_DEC_STATES);
      if (vchance(r, 50)) c->enc.warping_Q16 = vchance(r, 40) ? 0 : fs * 983;
   }
   /* side information */
   if (vchance(r, 60)) c->ind.signalType = (opus_int8)vrange(r, 0, 2);
   if (vchance(r, 50)) c->ind.quantOffsetType = (opus_int8)vrange(r, 0, 1);
   if (vchance(r, 50)) c->ind.NLSFInterpCoef_Q2 = (opus_int8)vrange(r, 0, 4);
   if (vchance(r, 50)) c->ind.Seed = (opus_int8)vrange(r, 0, 3);
   {
      int ok = 1, l;
      for (k = 0; k < nb; k++) if (c->pitch[k] < 2 * fs || c->pitch[k] > 18 * fs) ok = 0;
      if (!ok || vchance(r, 60)) {
         l = vchance(r, 15) ? (vchance(r, 50) ? 2 * fs : 18 * fs) : vrange(r, 2 * fs, 18 * fs);
         for (k = 0; k < nb; k++) { int v = l + vrange(r, -8, 8); c->pitch[k] = v < 2 * fs ? 2 * fs : (v > 18 * fs ? 18 * fs : v); }
      }
   }
   c->ltp_scale = c->ind.signalType == TYPE_VOICED ? silk_LTPScales_table_Q14[vbelow(r, 3)] : 0;
   if (vchance(r, 70)) for (k = 0; k < nb; k++) {
      int cbk = vbelow(r, NB_LTP_CBKS), v = vbelow(r, silk_LTP_vq_sizes[cbk]);
      for (j = 0; j < LTP_ORDER; j++) c->ltp[k * LTP_ORDER + j] = (opus_int16)(silk_LTP_vq_ptrs_Q7[cbk][v * LTP_ORDER + j] * 128);
   }
   /* state: live, or chained from the previous perturbed run at this sampling rate */
   if (g_shadow_fs[deldec] == fs && vchance(r, 50)) c->nsq = g_shadow[deldec];
   if (c->nsq.lagPrev < 1 || c->nsq.lagPrev > 18 * fs) c->nsq.lagPrev = 100 < 18 * fs ? 100 : 18 * fs;
   if (c->nsq.prev_gain_Q16 == 0) c->nsq.prev_gain_Q16 = 65536;
   /* gains: a chain from the state's previous gain */
   {
      double prev = (double)c->nsq.prev_gain_Q16;
      for (k = 0; k < nb; k++) {
         double f, g; int m = vbelow(r, 10);
         live_gain[k] = c->gains[k] > 0 ? c->gains[k] : 1;
         if (m < 3) f = 1.0;
         else if (m < 6) f = 0.55 + 0.45 * (double)vbelow(r, 1001) / 1000.0;
         else if (m < 9) f = 1.0 + (double)vbelow(r, 1001) / 1000.0;
         else f = (double)(1 << vrange(r, 1, 6));
         g = prev * f;
         if (g < 81920.0) g = 81920.0; if (g > 1686110208.0) g = 1686110208.0;
         c->gains[k] = (opus_int32)g; prev = g;
      }
   }
   /* noise-shaping parameters */
   for (k = 0; k < nb; k++) {
      if (vchance(r, 50)) c->harm[k] = vchance(r, 30) ? 0 : vrange(r, 0, 16383);
      if (vchance(r, 50)) c->tilt[k] = vrange(r, -16384, vchance(r, 80) ? 0 : 4096);
      if (vchance(r, 30)) { /* bandwidth-expand the shaping filter */
         double ch = 0.5 + 0.5 * (double)vbelow(r, 1000) / 1000.0, p = ch;
         for (j = 0; j < c->enc.shapingLPCOrder; j++) { c->ar[k * MAX_SHAPE_LPC_ORDER + j] = (opus_int16)(c->ar[k * MAX_SHAPE_LPC_ORDER + j] * p); p *= ch; }
      }
   }
   if (vchance(r, 60)) c->lambda = vchance(r, 80) ? vrange(r, 300, 2500) : vrange(r, 0, 4095);
   /* input: every sub-frame follows its gain; then a little noise / a whitened version of the same level */
   {
      int style = vbelow(r, 4), peak = 2;
      for (j = 0; j < n; j++) { int v = c->x16[j] < 0 ? -c->x16[j] : c->x16[j]; if (v > peak) peak = v; }
      for (j = 0; j < n; j++) {
         double ratio = (double)c->gains[j / sl] / (double)live_gain[j / sl];
         double v = c->x16[j];
         if (style == 1) v += vrange(r, -(peak / 10 + 2), peak / 10 + 2);
         else if (style == 2) v = vrange(r, -peak, peak);
         else if (style == 3) v = (j % 37 < 18) ? peak : -peak;
         v *= ratio;
         c->x16[j] = (opus_int16)(v > 32767 ? 32767 : (v < -32768 ? -32768 : v));
      }
   }
}

static void nsq_wrap(int deldec, int level, NSQ_DECL)
{
   note_level(deldec, level);
   if (g_compare) {
      static nsq_case c0, c;
      int nb = psEncC->nb_subfr, p, j, k;
      memset(&c0, 0, sizeof c0);
      c0.enc = *psEncC; c0.nsq = *NSQ; c0.ind = *psIndices;
      memcpy(c0.x16, x16, psEncC->frame_length * sizeof(opus_int16));
      for (k = 0; k < 2; k++) for (j = 0; j < psEncC->predictLPCOrder; j++) c0.pred[k * MAX_LPC_ORDER + j] = PredCoef_Q12[k * MAX_LPC_ORDER + j];
      memcpy(c0.ltp, LTPCoef_Q14, nb * LTP_ORDER * sizeof(opus_int16));
      for (k = 0; k < nb; k++) for (j = 0; j < psEncC->shapingLPCOrder; j++) c0.ar[k * MAX_SHAPE_LPC_ORDER + j] = AR_Q13[k * MAX_SHAPE_LPC_ORDER + j];
      for (k = 0; k < nb; k++) { c0.harm[k] = HarmShapeGain_Q14[k]; c0.tilt[k] = Tilt_Q14[k]; c0.lf[k] = LF_shp_Q14[k]; c0.gains[k] = Gains_Q16[k]; c0.pitch[k] = pitchL[k]; }
      c0.lambda = Lambda_Q10; c0.ltp_scale = LTP_scale_Q14;
      g_cmp[deldec]++;
      nsq_compare_case(deldec, &c0, "live encoder state", NULL, 0, 0);
      for (p = 0; p < g_nperturb; p++) {
         char what[64];
         c = c0;
         nsq_perturb(deldec, &c, &g_pr);
         snprintf(what, sizeof what, "perturbed state #%d of this call", p);
         g_cmp_pert[deldec]++;
         nsq_compare_case(deldec, &c, what, &g_shadow[deldec], 1, 0);
         g_shadow_fs[deldec] = c.enc.fs_kHz;
         if (!deldec && c.enc.predictLPCOrder == 16 && p == 0) {
            /* observation probe: the shaping-order-10 path of silk_NSQ_sse4_1 (unreachable from the encoder) */
            c.enc.shapingLPCOrder = 10; g_probe_order10++;
            nsq_compare_case(deldec, &c, "order-10 probe", NULL, 1, 1);
         }
      }
   }
   (deldec ? REAL_SILK_NSQ_DEL_DEC_IMPL : REAL_SILK_NSQ_IMPL)[level](NSQ_PASS);
}
#define W_NSQ(a) static void nsq_w##a(NSQ_DECL) { nsq_wrap(0, a, NSQ_PASS); } static void dd_w##a(NSQ_DECL) { nsq_wrap(1, a, NSQ_PASS); }
W_NSQ(0) W_NSQ(1) W_NSQ(2) W_NSQ(3) W_NSQ(4) W_NSQ(5) W_NSQ(6) W_NSQ(7)
void (*const SILK_NSQ_IMPL[OPUS_ARCHMASK + 1])(NSQ_DECL) = { nsq_w0, nsq_w1, nsq_w2, nsq_w3, nsq_w4, nsq_w5, nsq_w6, nsq_w7 };
void (*const SILK_NSQ_DEL_DEC_IMPL[OPUS_ARCHMASK + 1])(NSQ_DECL) = { dd_w0, dd_w1, dd_w2, dd_w3, dd_w4, dd_w5, dd_w6, dd_w7 };

/* ------------------------------------------------------------------ VAD */
typedef opus_int (*vad_fn)(silk_encoder_state *, const opus_int16 *);
static void vad_compare(const silk_encoder_state *enc, const opus_int16 *pIn, const char *what)
{
   static silk_encoder_state a, b;
   int ra, rb, lvl; vad_fn done = NULL;
   a = *enc; ra = silk_VAD_GetSA_Q8_c(&a, pIn);
   for (lvl = 0; lvl <= g_host_arch && lvl <= 4; lvl++) {
      vad_fn f = REAL_SILK_VAD_GETSA_Q8_IMPL[lvl];
      if (f == silk_VAD_GetSA_Q8_c || f == NULL || f == done) continue;
      done = f;
      b = *enc; rb = f(&b, pIn);
      g_cases++;
      if (ra != rb || memcmp(&a, &b, sizeof a)) {
         char eb[200], ob[300];
         snprintf(eb, sizeof eb, "silk_VAD_GetSA_Q8: SIMD function at table index %d bit-identical to the portable function (%s)", lvl, what);
         snprintf(ob, sizeof ob, "ret c=%d simd=%d speech_activity_Q8 c=%d simd=%d input_tilt_Q15 c=%d simd=%d quality0 c=%d simd=%d sVAD %s; fs=%d frame_length=%d",
                  ra, rb, a.speech_activity_Q8, b.speech_activity_Q8, a.input_tilt_Q15, b.input_tilt_Q15,
                  a.input_quality_bands_Q15[0], b.input_quality_bands_Q15[0], memcmp(&a.sVAD, &b.sVAD, sizeof a.sVAD) ? "differs" : "equal",
                  enc->fs_kHz, enc->frame_length);
         viol(eb, ob);
      }
   }
}
static silk_VAD_state g_vad_shadow; static int g_vad_shadow_ok = 0;
static opus_int vad_wrap(int level, silk_encoder_state *psEncC, const opus_int16 pIn[])
{
   note_level(2, level);
   if (g_compare) {
      int p, j;
      g_cmp[2]++;
      vad_compare(psEncC, pIn, "live encoder state");
      for (p = 0; p < g_nperturb; p++) {
         static silk_encoder_state e; static opus_int16 in[MAX_FRAME_LENGTH + 8];
         int style = vbelow(&g_pr, 7), n = psEncC->frame_length;
         char what[64];
         e = *psEncC;
         for (j = 0; j < n; j++) {
            int v = pIn[j];
            if (style == 0) v += vrange(&g_pr, -200, 200);
            else if (style == 1) v *= 8;
            else if (style == 2) v /= 16;
            else if (style == 3) v = vrange(&g_pr, -32768, 32767);
            else if (style == 4) v = (j & 1) ? 32767 : -32768;
            else if (style == 5) v = 0;
            else v = (int)(20000.0 * sin(0.02 * j * (1 + (int)vbelow(&g_pr, 3))));
            in[j] = (opus_int16)(v > 32767 ? 32767 : (v < -32768 ? -32768 : v));
         }
         if (g_vad_shadow_ok && vchance(&g_pr, 50)) e.sVAD = g_vad_shadow;
         snprintf(what, sizeof what, "perturbed input/state #%d of this call", p);
         g_cmp_pert[2]++;
         vad_compare(&e, in, what);
         silk_VAD_GetSA_Q8_c(&e, in); g_vad_shadow = e.sVAD; g_vad_shadow_ok = 1;
      }
   }
   return REAL_SILK_VAD_GETSA_Q8_IMPL[level](psEncC, pIn);
}
#define W_VAD(a) static opus_int vad_w##a(silk_encoder_state *e, const opus_int16 p[]) { return vad_wrap(a, e, p); }
W_VAD(0) W_VAD(1) W_VAD(2) W_VAD(3) W_VAD(4) W_VAD(5) W_VAD(6) W_VAD(7)
opus_int (*const SILK_VAD_GETSA_Q8_IMPL[OPUS_ARCHMASK + 1])(silk_encoder_state *psEncC, const opus_int16 pIn[]) =
   { vad_w0, vad_w1, vad_w2, vad_w3, vad_w4, vad_w5, vad_w6, vad_w7 };

/* ------------------------------------------------------------------ VQ_WMat_EC */
#define VQ_DECL opus_int8 *ind, opus_int32 *res_nrg_Q15, opus_int32 *rate_dist_Q8, opus_int *gain_Q7, const opus_int32 *XX_Q17, \
   const opus_int32 *xX_Q17, const opus_int8 *cb_Q7, const opus_uint8 *cb_gain_Q7, const opus_uint8 *cl_Q5, const opus_int subfr_len, \
   const opus_int32 max_gain_Q7, const opus_int L
#define VQ_PASS ind, res_nrg_Q15, rate_dist_Q8, gain_Q7, XX_Q17, xX_Q17, cb_Q7, cb_gain_Q7, cl_Q5, subfr_len, max_gain_Q7, L
typedef void (*vq_fn)(VQ_DECL);
static void vq_compare(const opus_int32 *XX, const opus_int32 *xX, const opus_int8 *cb, const opus_uint8 *cbg, const opus_uint8 *cl,
                       int subfr, opus_int32 maxg, int L, const char *what)
{
   opus_int8 ia = 77, ib = 77; opus_int32 ra = -7, rb = -7, da = -7, db = -7; opus_int ga = -7, gb = -7; int lvl; vq_fn done = NULL;
   silk_VQ_WMat_EC_c(&ia, &ra, &da, &ga, XX, xX, cb, cbg, cl, subfr, maxg, L);
   for (lvl = 0; lvl <= g_host_arch && lvl <= 4; lvl++) {
      vq_fn f = REAL_SILK_VQ_WMAT_EC_IMPL[lvl];
      if (f == silk_VQ_WMat_EC_c || f == NULL || f == done) continue;
      done = f; ib = 77; rb = db = -7; gb = -7;
      f(&ib, &rb, &db, &gb, XX, xX, cb, cbg, cl, subfr, maxg, L);
      g_cases++;
      if (ia != ib || ra != rb || da != db || ga != gb) {
         char eb[200], ob[200];
         snprintf(eb, sizeof eb, "silk_VQ_WMat_EC: SIMD function at table index %d bit-identical to the portable function (%s)", lvl, what);
         snprintf(ob, sizeof ob, "c: ind=%d res=%d rate=%d gain=%d simd: ind=%d res=%d rate=%d gain=%d (L=%d subfr=%d maxgain=%d XX0=%d)",
                  ia, ra, da, ga, ib, rb, db, gb, L, subfr, maxg, XX[0]);
         viol(eb, ob);
      }
   }
}
static void vq_wrap(int level, VQ_DECL)
{
   note_level(3, level);
   if (g_compare) {
      int p, j;
      g_cmp[3]++;
      vq_compare(XX_Q17, xX_Q17, cb_Q7, cb_gain_Q7, cl_Q5, subfr_len, max_gain_Q7, L, "live arguments");
      for (p = 0; p < g_nperturb; p++) {
         opus_int32 XX[25], xX[5]; double s = ldexp(1.0, vrange(&g_pr, -3, 1)), t = ldexp(1.0, vrange(&g_pr, -3, 1));
         for (j = 0; j < 25; j++) { double q = XX_Q17[j] * s + vrange(&g_pr, -4, 4); XX[j] = (opus_int32)(q > 500000. ? 500000. : (q < -500000. ? -500000. : q)); }
         for (j = 0; j < 5; j++) { double q = xX_Q17[j] * t + vrange(&g_pr, -4, 4); xX[j] = (opus_int32)(q > 500000. ? 500000. : (q < -500000. ? -500000. : q)); }
         g_cmp_pert[3]++;
         vq_compare(XX, xX, cb_Q7, cb_gain_Q7, cl_Q5, subfr_len, vchance(&g_pr, 50) ? max_gain_Q7 : vrange(&g_pr, 0, 200), L, "perturbed correlations");
      }
   }
   REAL_SILK_VQ_WMAT_EC_IMPL[level](VQ_PASS);
}
#define W_VQ(a) static void vq_w##a(VQ_DECL) { vq_wrap(a, VQ_PASS); }
W_VQ(0) W_VQ(1) W_VQ(2) W_VQ(3) W_VQ(4) W_VQ(5) W_VQ(6) W_VQ(7)
void (*const SILK_VQ_WMAT_EC_IMPL[OPUS_ARCHMASK + 1])(VQ_DECL) = { vq_w0, vq_w1, vq_w2, vq_w3, vq_w4, vq_w5, vq_w6, vq_w7 };

/* ------------------------------------------------------------------ float kernels with a table */
static double gamma_n(int n, double u) { return (n * u) / (1.0 - n * u); }
static double g_flp_worst = 0, g_px_worst = 0;     /* largest observed |simd-c| / bound */

static double flp_wrap(int level, const silk_float *d1, const silk_float *d2, opus_int n)
{
   note_level(4, level);
   if (g_compare && g_host_arch >= 4 && REAL_SILK_INNER_PRODUCT_FLP_IMPL[4] != silk_inner_product_FLP_c) {
      double c = silk_inner_product_FLP_c(d1, d2, n), s = REAL_SILK_INNER_PRODUCT_FLP_IMPL[4](d1, d2, n), b;
      long double a = 0; int i;
      for (i = 0; i < n; i++) a += fabsl((long double)d1[i] * d2[i]);
      b = 2 * gamma_n(n + 2, ldexp(1.0, -53)) * (double)a;
      g_cmp[4]++; g_cases++;
      if (b > 0 && fabs(c - s) / b > g_flp_worst) g_flp_worst = fabs(c - s) / b;
      if (!(fabs(c - s) <= b)) {
         char eb[200], ob[200];
         snprintf(eb, sizeof eb, "silk_inner_product_FLP: |avx2 - c| <= %.17g (n=%d, a-priori reassociation bound)", b, n);
         snprintf(ob, sizeof ob, "c=%.17g avx2=%.17g", c, s);
         viol(eb, ob);
      }
   }
   return REAL_SILK_INNER_PRODUCT_FLP_IMPL[level](d1, d2, n);
}
#define W_FLP(a) static double flp_w##a(const silk_float *x, const silk_float *y, opus_int n) { return flp_wrap(a, x, y, n); }
W_FLP(0) W_FLP(1) W_FLP(2) W_FLP(3) W_FLP(4) W_FLP(5) W_FLP(6) W_FLP(7)
double (*const SILK_INNER_PRODUCT_FLP_IMPL[OPUS_ARCHMASK + 1])(const silk_float *data1, const silk_float *data2, opus_int dataSize) =
   { flp_w0, flp_w1, flp_w2, flp_w3, flp_w4, flp_w5, flp_w6, flp_w7 };

static void px_wrap(int level, const float *x, const float *y, float *xcorr, int len, int max_pitch, int arch)
{
   note_level(5, level);
   if (g_compare && g_host_arch >= 4 && REAL_PITCH_XCORR_IMPL[4] != celt_pitch_xcorr_c && max_pitch > 0 && max_pitch <= 2048) {
      static float c[2048], s[2048]; int i, j;
      celt_pitch_xcorr_c(x, y, c, len, max_pitch, arch);
      REAL_PITCH_XCORR_IMPL[4](x, y, s, len, max_pitch, arch);
      g_cmp[5]++; g_cases++;
      for (j = 0; j < max_pitch; j++) {
         long double a = 0; double b;
         for (i = 0; i < len; i++) a += fabsl((long double)x[i] * y[i + j]);
         b = 2 * gamma_n(len + 2, ldexp(1.0, -24)) * (double)a;
         if (b > 0 && fabs((double)c[j] - s[j]) / b > g_px_worst) g_px_worst = fabs((double)c[j] - s[j]) / b;
         if (!(fabs((double)c[j] - s[j]) <= b)) {
            char eb[200], ob[200];
            snprintf(eb, sizeof eb, "celt_pitch_xcorr: |avx2 - c| <= %.9g at lag %d of %d (len=%d, a-priori reassociation bound)", b, j, max_pitch, len);
            snprintf(ob, sizeof ob, "c=%.9g avx2=%.9g", c[j], s[j]);
            viol(eb, ob); break;
         }
      }
   }
   REAL_PITCH_XCORR_IMPL[level](x, y, xcorr, len, max_pitch, arch);
}
#define W_PX(a) static void px_w##a(const float *x, const float *y, float *xc, int len, int mp, int arch) { px_wrap(a, x, y, xc, len, mp, arch); }
W_PX(0) W_PX(1) W_PX(2) W_PX(3) W_PX(4) W_PX(5) W_PX(6) W_PX(7)
void (*const PITCH_XCORR_IMPL[OPUS_ARCHMASK + 1])(const float *_x, const float *_y, float *xcorr, int len, int max_pitch, int arch) =
   { px_w0, px_w1, px_w2, px_w3, px_w4, px_w5, px_w6, px_w7 };

/* levels a, b are float-equivalent when every float kernel table holds the same function at both */
static int float_equiv(int a, int b)
{
   return REAL_PITCH_XCORR_IMPL[a] == REAL_PITCH_XCORR_IMPL[b] && REAL_SILK_INNER_PRODUCT_FLP_IMPL[a] == REAL_SILK_INNER_PRODUCT_FLP_IMPL[b];
}

/* ------------------------------------------------------------------ signals and configurations */
#define MAXFR 64
#define MAXPKT 1500
typedef struct {
   int Fs, ch, app, bitrate, complexity, frame, nframes, mode, bw, vbr, fec, loss, signal, sigkind, dtx, lsb;
} cfg_t;

static void gen_pcm(vrng *r, const cfg_t *c, opus_int16 *pcm, int n)
{
   int i, k, ch = c->ch; double Fs = c->Fs;
   double f0 = 90 + vbelow(r, 200), glide = ((double)vbelow(r, 200) - 100) / 100.0 * 40.0;
   double amp = c->sigkind >= 4 ? 32000 : 2000 + vbelow(r, 12000);
   double ph[12] = {0}; double lp = 0;
   for (i = 0; i < n; i++) {
      double t = i / Fs, v = 0, env;
      switch (c->sigkind) {
      case 0: /* speech-like: harmonics of a gliding f0 with a formant-ish roll-off, syllable envelope with pauses, breath noise */
         env = sin(2 * M_PI * 3.1 * t); env = env > -0.2 ? (env + 0.2) / 1.2 : 0;
         for (k = 0; k < 12; k++) {
            double f = (f0 + glide * t) * (k + 1);
            if (f > Fs * 0.45) break;
            ph[k] += 2 * M_PI * f / Fs;
            v += sin(ph[k]) / (1.0 + 0.35 * k) * (k == 2 || k == 7 ? 1.8 : 1.0);
         }
         v = env * (0.5 * v) + 0.02 * ((double)vbelow(r, 2001) - 1000) / 1000.0;
         break;
      case 1: /* music-like: a chord + decaying plucks + noise floor */
         v = 0.3 * sin(2 * M_PI * 220 * t) + 0.25 * sin(2 * M_PI * 277.2 * t) + 0.2 * sin(2 * M_PI * 329.6 * t)
           + 0.3 * sin(2 * M_PI * (880 + 40 * sin(2 * M_PI * 5 * t)) * t) * exp(-6 * fmod(t, 0.25))
           + 0.01 * ((double)vbelow(r, 2001) - 1000) / 1000.0;
         break;
      case 2: /* coloured noise bursts */
         lp = 0.9 * lp + 0.1 * ((double)vbelow(r, 2001) - 1000) / 1000.0;
         v = (fmod(t, 0.4) < 0.25) ? 3 * lp : 0.02 * lp;
         break;
      case 3: /* silence, then onset */
         v = t < 0.3 ? 0 : 0.6 * sin(2 * M_PI * (150 + 300 * t) * t);
         break;
      case 5: /* alternating full scale */
         v = (i & 1) ? 1.03 : -1.03;
         break;
      case 6: /* full-scale impulse train at a pitch-like period */
         v = (i % (int)(Fs / (100 + f0))) == 0 ? 1.03 : ((i % 7) == 0 ? -1.03 : 0.0);
         break;
      case 7: /* clipped loud harmonic signal with sudden level changes */
         v = 4.0 * sin(2 * M_PI * (f0 + glide * t) * t) * ((fmod(t, 0.2) < 0.1) ? 1.0 : 0.001);
         break;
      default: /* full-scale square / clipping material */
         v = (fmod(t * (200 + f0), 1.0) < 0.5) ? 1.0 : -1.0;
         break;
      }
      for (k = 0; k < ch; k++) {
         double w = v * amp * (k ? 0.7 : 1.0) + (k ? 300 * sin(2 * M_PI * 440 * t) : 0);
         pcm[i * ch + k] = (opus_int16)(w > 32767 ? 32767 : (w < -32768 ? -32768 : w));
      }
   }
}

static int g_extreme = 0;      /* 1: only configurations that drive the SILK quantisers hard (see `wrapx`) */
static void gen_cfg(vrng *r, cfg_t *c)
{
   static const int FS[] = {8000, 12000, 16000, 24000, 48000};
   static const int APP[] = {OPUS_APPLICATION_VOIP, OPUS_APPLICATION_AUDIO, OPUS_APPLICATION_RESTRICTED_LOWDELAY};
   int ms10;
   c->Fs = FS[vbelow(r, 5)];
   c->ch = vchance(r, 30) ? 2 : 1;
   c->app = APP[vchance(r, 55) ? 0 : (vchance(r, 75) ? 1 : 2)];
   c->mode = c->app == OPUS_APPLICATION_RESTRICTED_LOWDELAY ? 0 : (vchance(r, 45) ? MODE_SILK_ONLY : (vchance(r, 40) ? MODE_HYBRID : (vchance(r, 50) ? MODE_CELT_ONLY : 0)));
   c->complexity = vchance(r, 25) ? 10 : vrange(r, 0, 10);
   /* frame in units of 2.5 ms: 1,2,4,8,16,24 */
   { static const int F[] = {4, 8, 8, 8, 16, 24, 2, 1}; ms10 = F[vbelow(r, c->mode == MODE_CELT_ONLY || c->mode == 0 ? 8 : 6)]; }
   if ((c->mode == MODE_SILK_ONLY || c->mode == MODE_HYBRID) && ms10 < 4) ms10 = 8;
   c->frame = c->Fs / 400 * ms10;
   c->nframes = 480 / ms10; if (c->nframes > MAXFR) c->nframes = MAXFR; if (c->nframes < 12) c->nframes = 12;
   c->bitrate = vchance(r, 20) ? OPUS_AUTO : ((c->mode == MODE_SILK_ONLY ? vrange(r, 6000, 40000) : vrange(r, 8000, 128000)) * c->ch);
   c->bw = vchance(r, 50) ? OPUS_AUTO : OPUS_BANDWIDTH_NARROWBAND + (int)vbelow(r, 5);
   if (c->mode == MODE_HYBRID && c->bw != OPUS_AUTO && c->bw < OPUS_BANDWIDTH_SUPERWIDEBAND) c->bw = OPUS_BANDWIDTH_SUPERWIDEBAND + (int)vbelow(r, 2);
   if (c->mode == MODE_SILK_ONLY && c->bw != OPUS_AUTO && c->bw > OPUS_BANDWIDTH_WIDEBAND) c->bw = OPUS_BANDWIDTH_WIDEBAND;
   c->vbr = vbelow(r, 3);
   c->fec = vchance(r, 30); c->loss = c->fec ? vrange(r, 5, 30) : (vchance(r, 20) ? vrange(r, 1, 20) : 0);
   c->signal = vchance(r, 40) ? OPUS_SIGNAL_VOICE : (vchance(r, 50) ? OPUS_SIGNAL_MUSIC : OPUS_AUTO);
   c->sigkind = vchance(r, 45) ? 0 : vrange(r, 1, 4);
   c->dtx = vchance(r, 10);
   c->lsb = vchance(r, 80) ? 16 : vrange(r, 8, 24);
   if (g_extreme) {
      /* SILK at 8/12/16 kHz, delayed-decision quantiser with 3-4 states (complexity >= 6), loud material */
      c->Fs = FS[vbelow(r, 3)]; c->app = OPUS_APPLICATION_VOIP; c->mode = MODE_SILK_ONLY;
      c->complexity = vrange(r, 6, 10);
      c->frame = c->Fs / 400 * 8; c->nframes = 60;
      c->bitrate = vchance(r, 30) ? OPUS_AUTO : vrange(r, 6000, 120000) * c->ch;
      c->bw = OPUS_AUTO; c->sigkind = vchance(r, 70) ? 4 : vrange(r, 5, 7); c->dtx = 0;
   }
}

static OpusEncoder *make_enc(const cfg_t *c)
{
   int err; OpusEncoder *e = opus_encoder_create(c->Fs, c->ch, c->app, &err);
   if (!e) return NULL;
   opus_encoder_ctl(e, OPUS_SET_BITRATE(c->bitrate));
   opus_encoder_ctl(e, OPUS_SET_COMPLEXITY(c->complexity));
   if (c->mode) opus_encoder_ctl(e, OPUS_SET_FORCE_MODE(c->mode));
   opus_encoder_ctl(e, OPUS_SET_BANDWIDTH(c->bw));
   opus_encoder_ctl(e, OPUS_SET_VBR(c->vbr != 0)); opus_encoder_ctl(e, OPUS_SET_VBR_CONSTRAINT(c->vbr == 2));
   opus_encoder_ctl(e, OPUS_SET_INBAND_FEC(c->fec)); opus_encoder_ctl(e, OPUS_SET_PACKET_LOSS_PERC(c->loss));
   opus_encoder_ctl(e, OPUS_SET_SIGNAL(c->signal)); opus_encoder_ctl(e, OPUS_SET_DTX(c->dtx));
   opus_encoder_ctl(e, OPUS_SET_LSB_DEPTH(c->lsb));
   return e;
}
static void set_cap(int cap)
{
   if (cap < 0) unsetenv("OPUS_VERIF_ARCH_CAP");
   else { char b[4]; b[0] = (char)('0' + cap); b[1] = 0; setenv("OPUS_VERIF_ARCH_CAP", b, 1); }
}

static long d_mode[4], d_pk_equal = 0, d_pk_pairs = 0, d_pk_eq_nonequiv = 0, d_pk_pairs_nonequiv = 0, d_dec = 0, d_frames = 0;
static double d_pcm_maxdiff_nonequiv = 0;

static unsigned char g_pk[6][MAXFR][MAXPKT]; static int g_len[6][MAXFR]; static opus_uint32 g_rng[6][MAXFR];
static float g_out[5][MAXFR * 2880 * 2];

static void run_cfg(uint64_t sub, int compare_caps)
{
   vrng r; cfg_t c; opus_int16 *pcm; int ci, f, a, b, total;
   static const int CAPS[6] = {-1, 0, 1, 2, 3, 4};
   char eb[256], ob[256];
   r.s = sub; g_cfg_seed = sub; g_compare_caps = compare_caps;
   g_pr.s = sub ^ 0xC15C15C15ULL;
   gen_cfg(&r, &c);
   if (g_print_cfg)
      printf("# cfg %llu: Fs=%d ch=%d app=%d mode=%d bitrate=%d complexity=%d frame=%d samples x %d frames bw=%d vbr=%d fec=%d loss=%d signal=%d pcm-kind=%d dtx=%d lsb=%d\n",
             (unsigned long long)sub, c.Fs, c.ch, c.app, c.mode, c.bitrate, c.complexity, c.frame, c.nframes, c.bw, c.vbr, c.fec, c.loss, c.signal, c.sigkind, c.dtx, c.lsb);
   total = c.frame * c.nframes;
   pcm = (opus_int16 *)malloc(sizeof(opus_int16) * total * c.ch);
   gen_pcm(&r, &c, pcm, total);
   for (ci = 0; ci < 6; ci++) {
      OpusEncoder *e; int cap = CAPS[ci], want = cap < 0 || cap > g_host_arch ? g_host_arch : cap;
      set_cap(cap);
      g_cap_now = cap; g_levels_seen = 0;
      g_compare = (cap < 0) || (cap == 0 && compare_caps >= 2);
      e = make_enc(&c);
      if (!e) { viol("opus_encoder_create succeeds", "NULL"); break; }
      for (f = 0; f < c.nframes; f++) {
         int n;
         g_frame_now = f;
         n = opus_encode(e, pcm + (size_t)f * c.frame * c.ch, c.frame, g_pk[ci][f], MAXPKT);
         g_len[ci][f] = n;
         if (n < 0) { snprintf(ob, sizeof ob, "opus_encode returned %s at frame %d", verr(n), f); viol("opus_encode succeeds at every arch level", ob); g_len[ci][f] = 0; }
         opus_encoder_ctl(e, OPUS_GET_FINAL_RANGE(&g_rng[ci][f]));
         d_frames++;
         if (ci == 0 && n > 0) { int m = (g_pk[ci][f][0] & 0x80) ? 2 : ((g_pk[ci][f][0] & 0x60) == 0x60 ? 1 : 0); d_mode[m]++; }
      }
      g_compare = 0;
      opus_encoder_destroy(e);
      g_cases++;
      if (g_levels_seen & ~(1u << want)) {
         snprintf(eb, sizeof eb, "with OPUS_VERIF_ARCH_CAP=%d on a level-%d CPU every dispatched call uses table index %d", cap, g_host_arch, want);
         snprintf(ob, sizeof ob, "table indices used (bit mask) = 0x%x", g_levels_seen);
         viol(eb, ob);
      }
   }
   /* packets: identical between float-equivalent levels */
   for (a = 1; a < 6; a++) for (b = a + 1; b < 6; b++) {
      int la = CAPS[a] > g_host_arch ? g_host_arch : CAPS[a], lb = CAPS[b] > g_host_arch ? g_host_arch : CAPS[b];
      int eq = float_equiv(la, lb), same = 1, firstdiff = -1;
      for (f = 0; f < c.nframes; f++)
         if (g_len[a][f] != g_len[b][f] || g_rng[a][f] != g_rng[b][f] || memcmp(g_pk[a][f], g_pk[b][f], g_len[a][f] > 0 ? g_len[a][f] : 0)) { same = 0; if (firstdiff < 0) firstdiff = f; }
      g_cases++;
      if (eq) { d_pk_pairs++; d_pk_equal += same; } else { d_pk_pairs_nonequiv++; d_pk_eq_nonequiv += same; }
      if (eq && !same) {
         snprintf(eb, sizeof eb, "arch levels %d and %d differ only in bit-exact integer kernels, so the encoder emits identical packets", la, lb);
         snprintf(ob, sizeof ob, "first differing frame %d: len %d vs %d, final range %08x vs %08x", firstdiff, g_len[a][firstdiff], g_len[b][firstdiff], g_rng[a][firstdiff], g_rng[b][firstdiff]);
         g_cap_now = CAPS[b]; g_frame_now = firstdiff;
         viol(eb, ob);
      }
   }
   {  /* uncapped run == run capped at the host level */
      int hb = g_host_arch + 1 <= 5 ? g_host_arch + 1 : 5, same = 1;
      for (f = 0; f < c.nframes; f++) if (g_len[0][f] != g_len[hb][f] || g_rng[0][f] != g_rng[hb][f] || memcmp(g_pk[0][f], g_pk[hb][f], g_len[0][f] > 0 ? g_len[0][f] : 0)) same = 0;
      if (!same) viol("the uncapped encoder equals the encoder capped at the host level", "packets differ");
   }
   /* decoders at every level on every encoder level's packets */
   {
      int dFs = c.Fs, dch = c.ch, lossy = c.loss > 0;
      for (a = 1; a < 6; a++) {
         for (b = 0; b < 5; b++) {
            int err; OpusDecoder *d;
            set_cap(b);
            d = opus_decoder_create(dFs, dch, &err);
            if (!d) { viol("opus_decoder_create succeeds", "NULL"); continue; }
            for (f = 0; f < c.nframes; f++) {
               opus_uint32 rng = 0; int n;
               int lost = lossy && f > 2 && ((f * 7 + (int)(sub % 5)) % 11 == 0);
               float *out = g_out[b] + (size_t)f * c.frame * dch;
               g_frame_now = f; g_cap_now = b;
               if (lost || g_len[a][f] <= 0) { n = opus_decode_float(d, NULL, 0, out, c.frame, 0); }
               else {
                  n = opus_decode_float(d, g_pk[a][f], g_len[a][f], out, c.frame, 0);
                  opus_decoder_ctl(d, OPUS_GET_FINAL_RANGE(&rng));
                  d_dec++; g_cases++;
                  if (n != c.frame || rng != g_rng[a][f]) {
                     snprintf(eb, sizeof eb, "decoder at arch level %d decodes the level-%d encoder's packet to the encoder's final range", b, CAPS[a]);
                     snprintf(ob, sizeof ob, "ret=%d (frame %d) decoder range %08x encoder range %08x", n, c.frame, rng, g_rng[a][f]);
                     viol(eb, ob);
                  }
               }
            }
            opus_decoder_destroy(d);
         }
         /* PCM between decoder levels on the same packets */
         for (b = 1; b < 5; b++) {
            size_t ns = (size_t)c.nframes * c.frame * dch, i; int hb = b > g_host_arch ? g_host_arch : b;
            if (float_equiv(0, hb)) {
               g_cases++;
               if (memcmp(g_out[0], g_out[b], ns * sizeof(float))) {
                  snprintf(eb, sizeof eb, "decoders at float-equivalent arch levels 0 and %d produce identical PCM", b);
                  for (i = 0; i < ns && g_out[0][i] == g_out[b][i]; i++) ;
                  snprintf(ob, sizeof ob, "first difference at sample %lu: %.9g vs %.9g", (unsigned long)i, g_out[0][i], g_out[b][i]);
                  viol(eb, ob);
               }
            } else {
               for (i = 0; i < ns; i++) { double dd = fabs((double)g_out[0][i] - g_out[b][i]); if (dd > d_pcm_maxdiff_nonequiv) d_pcm_maxdiff_nonequiv = dd; }
            }
         }
      }
   }
   set_cap(-1);
   free(pcm);
}

static void report(void)
{
   int k, l;
   for (k = 0; k < 6; k++) {
      printf("# dist calls/%s", KNAME[k]);
      for (l = 0; l < 5; l++) printf(" L%d=%ld", l, g_calls[k][l]);
      printf(" compared-live=%ld compared-perturbed=%ld\n", g_cmp[k], g_cmp_pert[k]);
   }
   printf("# dist nsq-compared voiced=%ld unvoiced=%ld shaping10_predict16=%ld states>=3=%ld warped=%ld\n", g_nsq_paths[0], g_nsq_paths[1], g_nsq_paths[2], g_nsq_paths[3], g_nsq_paths[4]);
   printf("# dist nsq perturbed cases in which the portable quantiser saturated (pulses at +-31/30 or int16-clipped output; compared like all others): %ld\n", g_excluded_sat);
   printf("# observation: silk_NSQ_sse4_1 with shapingLPCOrder=10/predictLPCOrder=16 (a shape no complexity setting selects) differs from silk_NSQ_c in %ld of %ld probes\n", g_obs_order10, g_probe_order10);
   printf("# dist frames=%ld silk=%ld hybrid=%ld celt=%ld decodes=%ld\n", d_frames, d_mode[0], d_mode[1], d_mode[2], d_dec);
   printf("# dist packet-streams identical: float-equivalent level pairs %ld of %ld (required), other pairs %ld of %ld (not required)\n",
          d_pk_equal, d_pk_pairs, d_pk_eq_nonequiv, d_pk_pairs_nonequiv);
   printf("# dist worst |simd-c|/bound: silk_inner_product_FLP %.3g celt_pitch_xcorr %.3g; max |pcm diff| between non-equivalent decoder levels %.3g\n",
          g_flp_worst, g_px_worst, d_pcm_maxdiff_nonequiv);
   printf("# host arch level %d\n", g_host_arch);
   printf("# search cases=%ld violations=%ld\n", g_cases, g_viol);
}

int main(int argc, char **argv)
{
   vinstall_traps();
   unsetenv("OPUS_VERIF_ARCH_CAP");
   g_host_arch = opus_select_arch();
   if (argc >= 6 && (!strcmp(argv[1], "wrapx") || !strcmp(argv[1], "cfgx"))) g_extreme = 1;
   if (argc >= 6 && !strcmp(argv[1], "cfgx")) {
      g_nperturb = atoi(argv[3]); g_print_cfg = 1;
      run_cfg(strtoull(argv[2], 0, 10), atoi(argv[4]));
   } else if (argc >= 6 && (!strcmp(argv[1], "wrap") || !strcmp(argv[1], "wrapx"))) {
      vrng r; long i, n = atol(argv[3]);
      r.s = strtoull(argv[2], 0, 10) ^ 0xC0DEC15ULL; r.s = vnext(&r) + 1500;   /* mixed: consecutive seeds give unrelated streams */
      g_nperturb = atoi(argv[4]);
      for (i = 0; i < n; i++) {
         uint64_t sub = vnext(&r);
         /* named before it runs, so that a trap (sanitizer, OPUS_CHECK_ASM self-check assert) can be replayed alone */
         printf("# running cfg %llu\n", (unsigned long long)sub); fflush(stdout);
         run_cfg(sub, atoi(argv[5]));
      }
   } else if (argc >= 5 && !strcmp(argv[1], "cfg")) {
      g_nperturb = atoi(argv[3]); g_print_cfg = 1;
      run_cfg(strtoull(argv[2], 0, 10), atoi(argv[4]));
   } else { fprintf(stderr, "usage: c15_codec wrap <seed> <nconfigs> <nperturb> <compare-caps> | cfg <subseed> <nperturb> <compare-caps>\n"); return 64; }
   report();
   fflush(stdout);
   return 0;
}
