/* c03_synth.c — property C03, stage 2b: can the `ec_tell(dec) > 8*len` exit of celt_decode_with_ec_dred be reached?
   A CELT frame is SYNTHESISED symbol by symbol: while opus_decode runs on a dummy payload, every entropy-decoder entry point
   (GNU ld --wrap) returns a value taken from a "tape" instead of decoding it, encodes the same value with a shadow range
   ENCODER and copies the encoder's rng / nbits_total into the decoder context, so that every budget decision of the decoder
   (ec_tell, ec_tell_frac) is the one it would take on the bytes the encoder is producing.  The tape is hill-climbed to minimise
   total_bits - ec_tell_frac at the exit of quant_all_bands; the packet the encoder wrote is then decoded for real.
   usage: c03_synth <seed> <starts> <iters> */
#include <stdio.h>
#include <stdlib.h>
#include <string.h>
#include <stdint.h>
#include "vcommon.h"
#include "opus.h"
#include "celt/celt.h"
#include "celt/entdec.h"
#include "celt/entenc.h"
#include "celt/bands.h"
#include "celt/modes.h"

#define TAPE 8192
static uint32_t g_tape[TAPE]; static int g_ti, g_synth, g_in_celt, g_idx_bands, g_transient_ok;
static ec_enc g_enc; static unsigned char g_buf[1300];
static int g_slack, g_end, g_celt_ret, g_pos, g_spd; static opus_uint32 g_last[4]; static int g_nlast;
static int special(void) { int k, c = 0; for (k = 0; k < 4; k++) c += g_last[k] == 285088u || g_last[k] == 1385794152u; return c; }
static uint32_t T(void) { uint32_t v = g_tape[g_ti % TAPE]; g_ti++; return v; }
static void mirror(ec_dec *d) { d->rng = g_enc.rng; d->nbits_total = g_enc.nbits_total; }

int __real_ec_dec_bit_logp(ec_dec *, unsigned);
int __wrap_ec_dec_bit_logp(ec_dec *d, unsigned logp)
{
   int v;
   if (!(g_synth && g_in_celt)) return __real_ec_dec_bit_logp(d, logp);
   v = (int)(T() & 1);
   if (logp == 15) v = 0;                       /* silence */
   if (logp == 3 && !g_transient_ok) v = 0;     /* transient / intra share logp 3: keep long blocks */
   ec_enc_bit_logp(&g_enc, v, logp); mirror(d); return v;
}
opus_uint32 __real_ec_dec_uint(ec_dec *, opus_uint32);
opus_uint32 __wrap_ec_dec_uint(ec_dec *d, opus_uint32 ft)
{
   opus_uint32 v;
   if (!(g_synth && g_in_celt)) {
      if (g_in_celt == 2) { int t0 = (int)ec_tell_frac(d); v = __real_ec_dec_uint(d, ft); (void)t0; return v; }
      return __real_ec_dec_uint(d, ft);
   }
   v = (opus_uint32)((((uint64_t)T() << 16) ^ T()) % ft);
   if (ft > 40) { g_last[g_nlast & 3] = ft; g_nlast++; }
   { int t0 = (int)ec_tell_frac(d);
     ec_enc_uint(&g_enc, v, ft); mirror(d);
     if (ft == 285088u) g_spd += (int)ec_tell_frac(d) - t0 - 145;
     if (ft == 1385794152u) g_spd += (int)ec_tell_frac(d) - t0 - 243; }
   return v;
}
opus_uint32 __real_ec_dec_bits(ec_dec *, unsigned);
opus_uint32 __wrap_ec_dec_bits(ec_dec *d, unsigned n)
{
   opus_uint32 v;
   if (!(g_synth && g_in_celt)) return __real_ec_dec_bits(d, n);
   v = T() & ((1u << n) - 1);
   ec_enc_bits(&g_enc, v, n); mirror(d); return v;
}
int __real_ec_dec_icdf(ec_dec *, const unsigned char *, unsigned);
int __wrap_ec_dec_icdf(ec_dec *d, const unsigned char *icdf, unsigned ftb)
{
   int n = 0, v;
   if (!(g_synth && g_in_celt)) return __real_ec_dec_icdf(d, icdf, ftb);
   while (icdf[n] != 0) n++;
   v = (int)(T() % (unsigned)(n + 1));
   ec_enc_icdf(&g_enc, v, icdf, ftb); mirror(d); return v;
}
unsigned __real_ec_decode_bin(ec_dec *, unsigned);
unsigned __wrap_ec_decode_bin(ec_dec *d, unsigned bits)
{
   if (!(g_synth && g_in_celt)) return __real_ec_decode_bin(d, bits);
   return T() % (1u << bits);
}
unsigned __real_ec_decode(ec_dec *, unsigned);
unsigned __wrap_ec_decode(ec_dec *d, unsigned ft)
{
   if (!(g_synth && g_in_celt)) return __real_ec_decode(d, ft);
   return T() % ft;
}
void __real_ec_dec_update(ec_dec *, unsigned, unsigned, unsigned);
void __wrap_ec_dec_update(ec_dec *d, unsigned fl, unsigned fh, unsigned ft)
{
   if (!(g_synth && g_in_celt)) { __real_ec_dec_update(d, fl, fh, ft); return; }
   ec_encode(&g_enc, fl, fh, ft); mirror(d);
}
void __real_quant_all_bands(int, const CELTMode *, int, int, celt_norm *, celt_norm *, unsigned char *, const celt_ener *, int *, int, int,
   int, int, int *, opus_int32, opus_int32, ec_ctx *, int, int, opus_uint32 *, int, int, int);
void __wrap_quant_all_bands(int encode, const CELTMode *m, int start, int end, celt_norm *X, celt_norm *Y, unsigned char *cm,
   const celt_ener *bandE, int *pulses, int shortBlocks, int spread, int dual_stereo, int intensity, int *tf_res, opus_int32 total_bits,
   opus_int32 balance, ec_ctx *ec, int LM, int codedBands, opus_uint32 *seed, int complexity, int arch, int disable_inv)
{
   g_idx_bands = g_ti; g_spd = 0; g_nlast = 0; memset(g_last, 0, sizeof g_last);
   __real_quant_all_bands(encode, m, start, end, X, Y, cm, bandE, pulses, shortBlocks, spread, dual_stereo, intensity, tf_res, total_bits,
      balance, ec, LM, codedBands, seed, complexity, arch, disable_inv);
   if (!encode) { g_slack = (int)total_bits - (int)ec_tell_frac(ec); g_pos = g_ti; }
}
int __real_celt_decode_with_ec_dred(CELTDecoder *, const unsigned char *, int, opus_res *, int, ec_dec *, int);
int __wrap_celt_decode_with_ec_dred(CELTDecoder *st, const unsigned char *data, int len, opus_res *pcm, int frame_size, ec_dec *dec, int accum)
{
   int ret;
   g_in_celt = 1;
   if (g_synth) { ec_enc_init(&g_enc, g_buf, (opus_uint32)len); mirror(dec); }
   ret = __real_celt_decode_with_ec_dred(st, data, len, pcm, frame_size, dec, accum);
   g_in_celt = 0;
   if (data != NULL && len > 1) { g_end = 8 * len - ec_tell(dec); g_celt_ret = ret; }
   return ret;
}

static opus_int16 pcm[5760 * 2]; static int g_sc; static long g_dh[4][8]; static long g_hist_sc[5];
static OpusDecoder *D[2];
static int run(int synth, const unsigned char *pk, int n, int st)
{
   int ret;
   g_synth = synth; g_ti = 0; g_slack = 99; g_end = 99; g_celt_ret = 0;
   opus_decoder_ctl(D[st], OPUS_RESET_STATE);
   ret = opus_decode(D[st], pk, n, pcm, 5760, 0);
   g_synth = 0;
   return ret;
}
int main(int argc, char **argv)
{
   vrng r; long starts, iters, i, it, fired = 0, confirmed = 0, best_all = 99, real_min_slack = 99, real_min_end = 99; int err;
   if (argc < 4) { fprintf(stderr, "usage: c03_synth <seed> <starts> <iters>\n"); return 64; }
   r.s = strtoull(argv[1], 0, 10) * 0xD1342543DE82EF95ULL + 0x7654321ULL; vnext(&r); starts = atol(argv[2]); iters = atol(argv[3]);
   D[0] = opus_decoder_create(48000, 1, &err); D[1] = opus_decoder_create(48000, 2, &err);
   for (i = 0; i < starts; i++) {
      unsigned char pk[1300]; static uint32_t keep[TAPE]; int len = vrange(&r, 12, 200), st = vchance(&r, 25), cfg, k, cur, ret, curspd = 0;
      static const int CFG[6] = {23, 27, 31, 22, 26, 30};    /* WB / SWB / FB at 20 ms and 10 ms */
      cfg = CFG[vbelow(&r, 6)];
      g_transient_ok = vchance(&r, 20);
      pk[0] = (unsigned char)((cfg << 3) | (st << 2)); memset(pk + 1, 0x55, len);
      for (k = 0; k < TAPE; k++) g_tape[k] = (uint32_t)vnext(&r);
      run(1, pk, len + 1, st); cur = g_slack; curspd = 0;
      {  /* phase A: steer the frame (any symbol, and the packet size) until the last PVQ reads use the two cache entries whose
            coded cost exceeds the cached cost, (N,K) = (16,5) and (12,15) */
         int sc = special(), lenk = len;
         for (it = 0; it < iters && sc < 4; it++) {
            int idx, ns;
            memcpy(keep, g_tape, sizeof keep); lenk = len;
            if (vchance(&r, 25)) { len += vrange(&r, -6, 6); if (len < 12) len = 12; if (len > 400) len = 400; memset(pk + 1, 0x55, len); }
            idx = vrange(&r, 0, g_pos > 1 ? g_pos - 1 : 1);
            g_tape[idx % TAPE] = (uint32_t)vnext(&r);
            run(1, pk, len + 1, st); ns = special();
            if (ns >= sc) sc = ns; else { memcpy(g_tape, keep, sizeof keep); len = lenk; run(1, pk, len + 1, st); }
         }
         cur = g_slack; g_sc = sc; curspd = g_spd;
      }
      if (g_sc >= 4) for (it = 0; it < 6 * iters && cur >= 0; it++) {
         /* phase B: neighbours of the steered frame (one or two symbols re-drawn, the frame itself kept): they keep most of the
            structure and re-draw the fractional bit positions at which the special reads happen */
         int idx, nv;
         memcpy(keep, g_tape, sizeof keep);
         idx = vrange(&r, 0, g_pos > 1 ? g_pos - 1 : 1);
         g_tape[idx % TAPE] = (uint32_t)vnext(&r);
         if (vchance(&r, 50)) g_tape[vrange(&r, 0, g_pos > 1 ? g_pos - 1 : 1) % TAPE] = (uint32_t)vnext(&r);
         run(1, pk, len + 1, st); nv = g_slack;
         if (g_spd >= 0 && g_spd < 4 && nv >= 0 && nv < 8) g_dh[g_spd][nv]++;
         if (nv < 0) { cur = nv; break; }
         if (nv < cur) cur = nv;
         memcpy(g_tape, keep, sizeof keep);
      }
      if (cur >= 0) run(1, pk, len + 1, st);
      g_hist_sc[g_sc]++;
      if (cur < best_all) best_all = cur;
      /* the packet the shadow encoder wrote for the kept tape, decoded for real */
      run(1, pk, len + 1, st);
      ec_enc_done(&g_enc);
      memcpy(pk + 1, g_buf, len);
      ret = run(0, pk, len + 1, st);
      if (g_slack < real_min_slack) real_min_slack = g_slack;
      if (g_end < real_min_end) real_min_end = g_end;
      if (cur < 0) fired++;
      if (ret < 0 || g_end < 0) {
         confirmed++;
         printf("W ch=%d synth_slack=%d real: ret=%s celt_ret=%d slack=%d bits_left=%d pkt=", st + 1, cur, ret < 0 ? verr(ret) : "ok", g_celt_ret, g_slack, g_end);
         vhex(stdout, pk, len + 1); printf("\n"); fflush(stdout);
      }
   }
   { int a, b; for (a = 0; a < 4; a++) { printf("# drift_sum=%d slack histogram:", a); for (b = 0; b < 8; b++) printf(" %ld", g_dh[a][b]); printf("\n"); } }
   printf("# special-count histogram: %ld %ld %ld %ld %ld\n", g_hist_sc[0], g_hist_sc[1], g_hist_sc[2], g_hist_sc[3], g_hist_sc[4]);
   printf("# synth starts=%ld best_synth_slack=%ld synth_negative=%ld real_errors=%ld real_min_slack=%ld real_min_bits_left=%ld\n",
          starts, best_all, fired, confirmed, real_min_slack, real_min_end);
   return 0;
}
