/* c06_framing.c — correspondence harness for the packet parser and TOC helpers (C06).
   Modes:  enum <level> [shard nshards]   exhaustive header-shape enumeration (optionally one shard of it)
           rand <seed> <n>       serialiser-driven structured fuzz + mutations
           helpers               all 256 TOC x 5 rates x packet shapes
           stdin                 answer `framing ...` lines read from stdin            */
#include "vcommon.h"
#include "opus.h"
#include "opus_private.h"

static void do_parse(int sd, long len, const unsigned char *buf, long n)
{
   unsigned char toc = 0;
   const unsigned char *frames[48];
   opus_int16 size[48];
   int poff = -1, ret, i;
   opus_int32 pkoff = -1, padlen = -1;
   const unsigned char *pad = NULL;
   unsigned char *p = vexact(buf, n);
   printf("I framing parse %d %ld ", sd, len); vhex(stdout, buf, n); printf("\n");
   ret = opus_packet_parse_impl(p, (opus_int32)len, sd, &toc, frames, size, &poff, &pkoff, &pad, &padlen);
   if (ret < 0) printf("O %s\n", verr(ret));
   else {
      printf("O OK toc=%d count=%d sizes=", toc, ret);
      for (i = 0; i < ret; i++) printf("%s%d", i ? "," : "", size[i]);
      printf(" foffs=");
      for (i = 0; i < ret; i++) printf("%s%ld", i ? "," : "", (long)(frames[i] - p));
      printf(" poff=%d pad=%ld:%d pkoff=%d\n", poff, (long)(pad - p), padlen, pkoff);
   }
   free(p);
}

static void pr_res(const char *k, int v) { if (v < 0) printf("%s=%s", k, verr(v)); else printf("%s=%d", k, v); }

static void do_helpers(const unsigned char *buf, long n, int fs)
{
   unsigned char *p = vexact(buf, n);
   printf("I framing helpers "); vhex(stdout, buf, n); printf(" %d\n", fs);
   fflush(stdout);
   {
      int nf = opus_packet_get_nb_frames(p, (opus_int32)n);
      int ns = opus_packet_get_nb_samples(p, (opus_int32)n, fs);
      int lb = opus_packet_has_lbrr(p, (opus_int32)n);
      printf("O "); pr_res("nf", nf); printf(" "); pr_res("ns", ns);
      if (n > 0) {
         int mode = (p[0] & 0x80) ? 1002 : ((p[0] & 0x60) == 0x60 ? 1001 : 1000);
         printf(" spf=%d bw=%d ch=%d mode=%d ", opus_packet_get_samples_per_frame(p, fs),
                opus_packet_get_bandwidth(p), opus_packet_get_nb_channels(p), mode);
      } else printf(" spf=- bw=- ch=- mode=- ");
      pr_res("lbrr", lb); printf("\n");
   }
   free(p);
}

static void do_encsize(int n)
{
   unsigned char b[2]; int k;
   printf("I framing encsize %d\n", n);
   k = encode_size(n, b);
   printf("O "); vhex(stdout, b, k); printf("\n");
}

/* ---------- independent serialiser used by the structured generator ---------- */
static const int szclass[] = {0, 0, 1, 1, 2, 3, 10, 100, 250, 251, 252, 253, 254, 255, 256, 257, 508, 509, 1020, 1274, 1275, 1275, 1276, 1300};
static long put_size(unsigned char *o, int s) { if (s < 252) { o[0] = s; return 1; } o[0] = 252 + (s & 3); o[1] = (s - o[0]) >> 2; return 2; }

static long gen_packet(vrng *r, int sd, unsigned char *o)
{
   int code = vbelow(r, 4), config = vbelow(r, 32), stereo = vbelow(r, 2);
   int count, vbr = 0, i, sizes[64];
   long n = 0, padtotal = 0;
   int chain255 = 0, last = 0, haspad = 0;
   o[n++] = config * 8 + stereo * 4 + code;
   if (code == 0) count = 1; else if (code < 3) count = 2;
   else { count = vchance(r, 85) ? vrange(r, 1, 8) : vrange(r, 0, 63); if (vchance(r, 10)) count = vrange(r, 46, 50); vbr = vbelow(r, 2); }
   {
      int base = vchance(r, 50) ? (int)vbelow(r, 40) : szclass[vbelow(r, sizeof(szclass) / sizeof(int))];
      for (i = 0; i < count; i++)
         sizes[i] = (code == 1 || (code == 3 && !vbr)) ? base
                  : (vchance(r, 60) ? (int)vbelow(r, 30) : szclass[vbelow(r, sizeof(szclass) / sizeof(int))]);
   }
   if (code == 3) {
      haspad = vbelow(r, 2);
      o[n++] = (count & 63) | (haspad ? 64 : 0) | (vbr ? 128 : 0);
      if (haspad) {
         chain255 = vchance(r, 70) ? 0 : vrange(r, 1, 3);
         last = vchance(r, 50) ? (int)vbelow(r, 6) : vrange(r, 0, 254);
         for (i = 0; i < chain255; i++) o[n++] = 255;
         o[n++] = last; padtotal = 254L * chain255 + last;
      }
   }
   if (code == 2 || (code == 3 && vbr)) for (i = 0; i < count - 1; i++) n += put_size(o + n, sizes[i]);
   if (sd && count > 0) n += put_size(o + n, sizes[count - 1]);
   for (i = 0; i < count; i++) { int k; for (k = 0; k < sizes[i]; k++) o[n++] = (unsigned char)vnext(r); }
   { long k; for (k = 0; k < padtotal; k++) o[n++] = vchance(r, 80) ? 0 : (unsigned char)vnext(r); }
   if (sd) { int extra = vchance(r, 50) ? 0 : (int)vbelow(r, 20); while (extra--) o[n++] = (unsigned char)vnext(r); }
   return n;
}


/* Huge packets: implicit last frames and padding totals beyond 2^15 / 2^16, where an `opus_int16` store or a
   narrower `last_size` / `pad` would wrap (the model computes in unbounded integers; theorems int_ranges /
   int16_stores_lossless / int16_truncated_store_rejected say the C code must agree with it for every
   len < 2^31).  All are rejected by a correct parser unless only the padding is huge. */
static long gen_huge(vrng *r, int sd, unsigned char *o)
{
   static const long edge[] = {32767, 32768, 32769, 34043, 34044, 65535, 65536, 65537, 65540, 66811, 66812, 66813, 98304, 131072, 131075};
   long n = 0, v = vchance(r, 70) ? edge[vbelow(r, sizeof(edge) / sizeof(edge[0]))] + vrange(r, -2, 2) : vrange(r, 32768, 150000), k;
   int kind = (int)vbelow(r, 5), config = (int)vbelow(r, 32), fill = vchance(r, 50) ? 0 : (int)vbelow(r, 256);
   if (kind == 0) {                                     /* code 0: one implicit frame of v bytes */
      o[n++] = (unsigned char)(config * 8);
      if (sd) n += put_size(o + n, (int)vbelow(r, 1276));
      for (k = 0; k < v; k++) o[n++] = (unsigned char)fill;
   } else if (kind == 1) {                              /* code 1: two implicit frames of v/2 bytes (sometimes odd total) */
      if (v > 95000) v = 95000;
      o[n++] = (unsigned char)(config * 8 + 1);
      if (sd) n += put_size(o + n, (int)vbelow(r, 1276));
      for (k = 0; k < 2 * v + (vchance(r, 15) ? 1 : 0); k++) o[n++] = (unsigned char)fill;
   } else if (kind == 2) {                              /* code 2 / code 3 VBR: small explicit frames, huge implicit last frame */
      int c3 = vbelow(r, 2), cnt = c3 ? vrange(r, 2, 6) : 2, i, sz[8];
      o[n++] = (unsigned char)(config * 8 + (c3 ? 3 : 2));
      if (c3) o[n++] = (unsigned char)(cnt | 128);
      for (i = 0; i < cnt - 1; i++) { sz[i] = vchance(r, 50) ? (int)vbelow(r, 6) : (int)vbelow(r, 1276); n += put_size(o + n, sz[i]); }
      if (sd) n += put_size(o + n, (int)vbelow(r, 1276));
      for (i = 0; i < cnt - 1; i++) for (k = 0; k < sz[i]; k++) o[n++] = (unsigned char)fill;
      for (k = 0; k < v; k++) o[n++] = (unsigned char)fill;
   } else if (kind == 3) {                              /* code 3 CBR: cnt frames of v' bytes each, v' beyond 2^15 / 2^16 */
      int cnt = vrange(r, 2, 5); long per = v; if (per * cnt > 190000) per = 190000 / cnt;
      o[n++] = (unsigned char)(config * 8 + 3);
      o[n++] = (unsigned char)cnt;
      if (sd) n += put_size(o + n, (int)vbelow(r, 1276));
      for (k = 0; k < per * cnt + (vchance(r, 15) ? 1 : 0); k++) o[n++] = (unsigned char)fill;
   } else {                                             /* code 3 with a long padding chain: pad total beyond 2^15 / 2^16 */
      int cnt = vrange(r, 1, 3), vbr = vbelow(r, 2), i, sz[4]; long links = v / 254, last = vchance(r, 50) ? v % 254 : (long)vbelow(r, 255), pad;
      if (links > 740) links = 740;
      pad = 254 * links + last;
      o[n++] = (unsigned char)(config * 8 + 3);
      o[n++] = (unsigned char)(cnt | 64 | (vbr ? 128 : 0));
      for (k = 0; k < links; k++) o[n++] = 255;
      o[n++] = (unsigned char)last;
      for (i = 0; i < cnt; i++) sz[i] = vbr ? (int)vbelow(r, 40) : 7;
      if (vbr) for (i = 0; i < cnt - 1; i++) n += put_size(o + n, sz[i]);
      if (sd) n += put_size(o + n, sz[cnt - 1]);
      for (i = 0; i < cnt; i++) for (k = 0; k < sz[i]; k++) o[n++] = (unsigned char)fill;
      if (vchance(r, 25)) pad -= vrange(r, 1, 300);     /* padding cut short: the chain promises more than there is */
      for (k = 0; k < pad; k++) o[n++] = 0;
   }
   return n;
}

static void run_rand(uint64_t seed, long cases)
{
   static unsigned char buf[400000];
   vrng r; long c; r.s = seed;
   for (c = 0; c < cases; c++) {
      int sd = vbelow(&r, 2);
      int huge = (c % 300 == 7 && c < 60000);            /* at most 200 huge packets per stream */
      long n = huge ? gen_huge(&r, sd, buf) : gen_packet(&r, sd, buf);
      int mut = huge ? 5 + (int)vbelow(&r, 20) : (int)vbelow(&r, 10);
      if (mut == 0 && n > 0) n = vbelow(&r, (uint32_t)n + 1);                 /* truncate */
      else if (mut == 1) { int k = vrange(&r, 1, 4); while (k--) buf[n++] = (unsigned char)vnext(&r); } /* extend */
      else if (mut == 2 && n > 0) buf[vbelow(&r, n < 6 ? (uint32_t)n : 6)] = (unsigned char)vnext(&r);   /* header byte */
      else if (mut == 3 && n > 0) buf[vbelow(&r, (uint32_t)n)] ^= 1 << vbelow(&r, 8);
      else if (mut == 4) { n = vbelow(&r, 12); { long k; for (k = 0; k < n; k++) buf[k] = (unsigned char)vnext(&r); } }
      do_parse(sd, n, buf, n);
      if (vchance(&r, 3)) do_parse(sd, vchance(&r, 50) ? -1 : (long)vbelow(&r, (uint32_t)n + 1), buf, n);
      if (vchance(&r, 20)) { static const int fss[5] = {8000, 12000, 16000, 24000, 48000}; do_helpers(buf, n < 400 ? n : 400, fss[vbelow(&r, 5)]); }
   }
}

static void run_enum(int level, int shard, int nshards)
{
   int combo = 0;
   static unsigned char buf[4096];
   /* representative TOCs: every code x every distinct 48 kHz frame size */
   static const int cfgs[] = {0, 1, 2, 3, 16, 17, 12, 13, 18, 19};   /* 10,20,40,60 SILK; 10,20 hybrid; 2.5,5,10,20 CELT */
   static const int b1q[] = {0, 1, 2, 3, 47, 48, 49, 63, 64, 65, 66, 111, 112, 128, 129, 130, 176, 177, 192, 193, 194, 240, 241, 251, 252, 253, 255};
   static const int bq[] = {0, 1, 2, 251, 252, 254, 255, 5, 253};
   static const int fillq[] = {0, 1, 252, 255};
   int lens[256], nl = 0, i;
   int maxsmall = level ? 70 : 18;
   int ncfg = level ? 10 : 7;
   for (i = 0; i <= maxsmall; i++) lens[nl++] = i;
   { static const int extra[] = {251, 252, 253, 254, 255, 256, 257, 258, 259, 260, 506, 507, 508, 509, 510, 511, 512, 1274, 1275, 1276, 1277, 1278, 1279, 1280, 1281, 1282, 1530, 1600};
     int ne = level ? (int)(sizeof(extra) / sizeof(int)) : 0; for (i = 0; i < ne; i++) lens[nl++] = extra[i];
     if (!level) { lens[nl++] = 255; lens[nl++] = 256; lens[nl++] = 258; lens[nl++] = 511; lens[nl++] = 1277; lens[nl++] = 1278; lens[nl++] = 1279; } }
   {
      int ci, code, sd, i1, i2, i3, fi, li;
      int nb1 = sizeof(b1q) / sizeof(int), nb = sizeof(bq) / sizeof(int), nf = level ? 4 : 2;
      int nb3 = level ? nb : 4;
      int nb2 = level ? nb : 7;
      for (ci = 0; ci < ncfg; ci++) for (code = 0; code < 4; code++) for (sd = 0; sd < 2; sd++)
      if (combo++ % nshards != shard) continue; else   /* (TOC config, code, framing) combinations are dealt round-robin to the shards */
      for (i1 = 0; i1 < nb1; i1++) {
         if (code != 3 && (b1q[i1] & 63) > 3 && b1q[i1] < 250) continue;   /* fewer classes when b1 is a length byte */
         for (i2 = 0; i2 < nb2; i2++) for (i3 = 0; i3 < nb3; i3++) for (fi = 0; fi < nf; fi++)
         for (li = 0; li < nl; li++) {
            long n = lens[li], k;
            buf[0] = cfgs[ci] * 8 + code;
            for (k = 1; k < n; k++) buf[k] = fillq[fi];
            if (n > 1) buf[1] = b1q[i1];
            if (n > 2) buf[2] = bq[i2];
            if (n > 3) buf[3] = bq[i3 * (level ? 1 : 2)];
            if (n <= 1 && (i1 || i2 || i3 || fi)) continue;
            if (n <= 2 && (i2 || i3 || fi)) continue;
            if (n <= 3 && (i3 || fi)) continue;
            if (n <= 4 && fi) continue;
            do_parse(sd, n, buf, n);
         }
      }
   }
}

static void run_helpers(void)
{
   static const int fss[5] = {8000, 12000, 16000, 24000, 48000};
   unsigned char buf[8]; int toc, f, s, b1;
   for (toc = 0; toc < 256; toc++) for (f = 0; f < 5; f++) {
      buf[0] = toc;
      for (s = 0; s <= 4; s++) {
         static const int b1s[] = {0, 1, 2, 3, 6, 12, 24, 48, 49, 63, 65, 129, 255, 0x80, 0x7f};
         int j;
         if ((toc & 3) == 3 && s >= 2) {
            for (j = 0; j < 15; j++) { b1 = b1s[j]; buf[1] = b1; buf[2] = 0x55; buf[3] = 0xAA; do_helpers(buf, s, fss[f]); }
         } else { buf[1] = 0x80 | (toc * 7); buf[2] = toc ^ 0x40; buf[3] = 0; do_helpers(buf, s, fss[f]); }
      }
   }
   { int n; for (n = 0; n < 2000; n++) do_encsize(n); }
}

int main(int argc, char **argv)
{
   static char line[1 << 20];
   static unsigned char buf[1 << 19];
   vinstall_traps();
   if (argc >= 3 && !strcmp(argv[1], "enum")) run_enum(atoi(argv[2]), argc >= 5 ? atoi(argv[3]) : 0, argc >= 5 ? atoi(argv[4]) : 1);
   else if (argc >= 4 && !strcmp(argv[1], "rand")) run_rand(strtoull(argv[2], 0, 10), atol(argv[3]));
   else if (argc >= 2 && !strcmp(argv[1], "helpers")) run_helpers();
   else if (argc >= 2 && !strcmp(argv[1], "stdin")) {
      while (fgets(line, sizeof line, stdin)) {
         char op[32], hex[1 << 19 > 0 ? 16 : 16]; long a, b; (void)hex;
         char *h;
         if (sscanf(line, "framing %31s", op) != 1) continue;
         if (!strcmp(op, "parse")) {
            int sd; long len, n;
            h = strchr(line, 'x'); if (!h) continue;
            sscanf(line, "framing parse %d %ld", &sd, &len);
            n = vunhex(h, buf, sizeof buf); do_parse(sd, len, buf, n);
         } else if (!strcmp(op, "helpers")) {
            long n; int fs; char *sp;
            h = strchr(line, 'x'); if (!h) continue;
            n = vunhex(h, buf, sizeof buf); sp = strchr(h, ' '); fs = sp ? atoi(sp + 1) : 48000;
            do_helpers(buf, n, fs);
         } else if (!strcmp(op, "encsize")) { sscanf(line, "framing encsize %ld", &a); do_encsize((int)a); }
         (void)b;
      }
   } else { fprintf(stderr, "usage\n"); return 64; }
   return 0;
}
