/* c18_stereo.c — property C18, slice Stereo: the SILK mid/side predictor side information
   (silk/stereo_quant_pred.c, silk/stereo_encode_pred.c, silk/stereo_decode_pred.c) against the Lean model
   OpusModel/SilkStereo.lean (driver suite `silkparams`, ops `stereo-*`).

      tabs                 I silkparams stereo-tabs                       O OK <tables and constants of the library>
      quant <seed> <n>     I silkparams stereo-quant <p0> <p1> <ix on entry>
                           O OK <pred_Q13[0]> <pred_Q13[1]> <ix[0][0..2],ix[1][0..2]>       (silk_stereo_quant_pred)
                           `ix` is pre-filled with the printed values so that an entry the search leaves unset shows.
                           Inputs for which `pred_Q13[n] - lvl_Q13` of the FIRST level leaves opus_int32 (signed overflow,
                           undefined) are not handed to the library: the harness answers `UB` from a 64-bit computation
                           on the library's table — this ties the model's undefined-behaviour boundary.
      dec                  all 25*3*5*3*5 index tuples: the five symbols are written with the library's ec_enc_icdf and
                           read back by silk_stereo_decode_pred:
                           I silkparams stereo-dec <n> <a0> <b0> <a1> <b1>   O OK <pred_Q13[0]> <pred_Q13[1]>
      rt <seed> <n>        quant -> silk_stereo_encode_pred -> ec_enc_done -> ec_dec_init -> silk_stereo_decode_pred:
                           I silkparams stereo-rt <p0> <p1> <size>
                           O OK <enc pred0> <enc pred1> <ix> x<bytes> <enc error> <dec pred0> <dec pred1>
      syms <seed> <n>      random index arrays through silk_stereo_encode_pred, the five symbols read back with
                           ec_dec_icdf; the LAST case has one index beyond its celt_assert bound (expected: ABORT):
                           I silkparams stereo-syms <ix>                   O OK <symbols> <table sizes> | ABORT
      search <seed> <n>    predicates on the library alone (no model): `W <name> <input> => <observed>` per violation,
                           `S cases=<n> ...` at the end.
   Every randomly drawn case is derived from the seed argument only. */
#include "vcommon.h"
#include <sys/types.h>
#include <sys/wait.h>
#include "main.h"

#define NLEV ((STEREO_QUANT_TAB_SIZE - 1) * STEREO_QUANT_SUB_STEPS)
static opus_int32 lev[NLEV];

static void mk_levels(void)
{
   int i, j;
   for (i = 0; i < STEREO_QUANT_TAB_SIZE - 1; i++) {
      opus_int32 low_Q13 = silk_stereo_pred_quant_Q13[i];
      opus_int32 step_Q13 = silk_SMULWB(silk_stereo_pred_quant_Q13[i + 1] - low_Q13, SILK_FIX_CONST(0.5 / STEREO_QUANT_SUB_STEPS, 16));
      for (j = 0; j < STEREO_QUANT_SUB_STEPS; j++) lev[i * STEREO_QUANT_SUB_STEPS + j] = silk_SMLABB(low_Q13, step_Q13, 2 * j + 1);
   }
}
/* first-level difference leaves opus_int32 (or is silk_int32_MIN, which silk_abs negates) */
static int is_ub(opus_int32 p)
{
   int64_t d = (int64_t)p - lev[0];
   return d > 2147483647LL || d < -2147483647LL;
}
static opus_int32 ub_bound(void) { return (opus_int32)(2147483647LL + (lev[0] < 0 ? lev[0] : 0)); }  /* largest non-UB input */

static opus_int32 draw_pred(vrng *r)
{
   static const opus_int32 fixed[] = { 0, 1, -1, 16384, -16384, 16385, -16385, 32767, -32768, 65536, -65536,
                                       (-2147483647 - 1), -2147483647, 2147483647, 2147483646, 1073741824, -1073741824 };
   int c = (int)vbelow(r, 100), k;
   if (c < 30) return vrange(r, -16384, 16384);                         /* what silk_stereo_find_predictor can return */
   if (c < 45) return lev[vbelow(r, NLEV)] + vrange(r, -2, 2);             /* at / next to a level */
   if (c < 65) {                                                        /* exact mid-points between neighbouring levels, +-1 */
      k = (int)vbelow(r, NLEV - 1);
      return (lev[k] + lev[k + 1]) / 2 + vrange(r, -1, 1);
   }
   if (c < 72) return silk_stereo_pred_quant_Q13[vbelow(r, STEREO_QUANT_TAB_SIZE)] + vrange(r, -1, 1);
   if (c < 80) return vrange(r, -20000, 20000);
   if (c < 86) return fixed[vbelow(r, sizeof(fixed) / sizeof(fixed[0]))];
   if (c < 92) return ub_bound() + vrange(r, -3, 3 < (2147483647 - ub_bound()) ? 3 : (2147483647 - ub_bound()));
   if (c < 95) return (-2147483647 - 1) + (opus_int32)vbelow(r, 40000);
   return (opus_int32)(uint32_t)vnext(r);
}
static opus_int32 draw_defined(vrng *r) { opus_int32 p; do p = draw_pred(r); while (is_ub(p)); return p; }

static void pix(opus_int8 ix[2][3])
{
   printf("%d,%d,%d,%d,%d,%d", ix[0][0], ix[0][1], ix[0][2], ix[1][0], ix[1][1], ix[1][2]);
}

static void do_tabs(void)
{
   int i;
   printf("I silkparams stereo-tabs\nO OK ");
   for (i = 0; i < STEREO_QUANT_TAB_SIZE; i++) printf("%s%d", i ? "," : "", silk_stereo_pred_quant_Q13[i]);
   printf(" ");
   for (i = 0; i < 25; i++) printf("%s%d", i ? "," : "", silk_stereo_pred_joint_iCDF[i]);
   printf(" ");
   for (i = 0; i < 3; i++) printf("%s%d", i ? "," : "", silk_uniform3_iCDF[i]);
   printf(" ");
   for (i = 0; i < 5; i++) printf("%s%d", i ? "," : "", silk_uniform5_iCDF[i]);
   printf(" ");
   for (i = 0; i < 2; i++) printf("%s%d", i ? "," : "", silk_stereo_only_code_mid_iCDF[i]);
   printf(" %d %d\n", STEREO_QUANT_SUB_STEPS, (int)SILK_FIX_CONST(0.5 / STEREO_QUANT_SUB_STEPS, 16));
}

static void do_quant(uint64_t seed, long n)
{
   vrng r; long t, nub = 0, nunset = 0, nsat = 0, nin = 0;
   r.s = seed * 0x9E3779B97F4A7C15ULL + 11;
   for (t = 0; t < n; t++) {
      opus_int32 p[2]; opus_int8 ix[2][3]; int k, ub;
      p[0] = draw_pred(&r); p[1] = draw_pred(&r);
      if (t == 0) { p[0] = ub_bound(); p[1] = 100; }                     /* the input that leaves ix[0] unset */
      if (t == 1) { p[0] = -100; p[1] = ub_bound(); }
      if (t == 2) { p[0] = ub_bound() - 1; p[1] = (-2147483647 - 1); }
      if (t == 3) { p[0] = 2147483647; p[1] = 0; }
      if (t == 4) { p[0] = 0; p[1] = 2147483647; }
      for (k = 0; k < 6; k++) ((opus_int8 *)ix)[k] = (t & 1) ? 85 : (opus_int8)vrange(&r, -128, 127);
      ub = is_ub(p[0]) || is_ub(p[1]);
      printf("I silkparams stereo-quant %d %d ", p[0], p[1]); pix(ix); printf("\n");
      if (ub) { printf("O UB\n"); nub++; continue; }
      if (p[0] == ub_bound() || p[1] == ub_bound()) nunset++;
      else if (p[1] < lev[0] || p[1] > lev[NLEV - 1]) nsat++; else nin++;
      fflush(stdout);
      silk_stereo_quant_pred(p, ix);
      printf("O OK %d %d ", p[0], p[1]); pix(ix); printf("\n");
   }
   printf("# dist quant: cases=%ld undefined(not called)=%ld unset-input=%ld second-outside-span=%ld second-inside-span=%ld\n", n, nub, nunset, nsat, nin);
}

static void enc_five(ec_enc *e, int n, int a0, int b0, int a1, int b1)
{
   ec_enc_icdf(e, n, silk_stereo_pred_joint_iCDF, 8);
   ec_enc_icdf(e, a0, silk_uniform3_iCDF, 8);
   ec_enc_icdf(e, b0, silk_uniform5_iCDF, 8);
   ec_enc_icdf(e, a1, silk_uniform3_iCDF, 8);
   ec_enc_icdf(e, b1, silk_uniform5_iCDF, 8);
}

static void do_dec(void)
{
   int n, a0, b0, a1, b1; long cases = 0;
   for (n = 0; n < 25; n++) for (a0 = 0; a0 < 3; a0++) for (b0 = 0; b0 < STEREO_QUANT_SUB_STEPS; b0++)
   for (a1 = 0; a1 < 3; a1++) for (b1 = 0; b1 < STEREO_QUANT_SUB_STEPS; b1++) {
      unsigned char *buf = (unsigned char *)calloc(16, 1);
      ec_enc e; ec_dec d; opus_int32 p[2] = { 12345678, 12345678 };
      ec_enc_init(&e, buf, 16);
      enc_five(&e, n, a0, b0, a1, b1);
      ec_enc_done(&e);
      printf("I silkparams stereo-dec %d %d %d %d %d\n", n, a0, b0, a1, b1); fflush(stdout);
      ec_dec_init(&d, buf, 16);
      silk_stereo_decode_pred(&d, p);
      printf("O OK %d %d\n", p[0], p[1]);
      free(buf); cases++;
   }
   printf("# dist dec: cases=%ld (exhaustive)\n", cases);
}

static void do_rt(uint64_t seed, long n)
{
   vrng r; long t;
   r.s = seed * 0x9E3779B97F4A7C15ULL + 23;
   for (t = 0; t < n; t++) {
      opus_int32 p[2], q[2] = { 12345678, 12345678 }; opus_int8 ix[2][3]; ec_enc e; ec_dec d;
      int size = vrange(&r, 4, 24);
      unsigned char *buf = (unsigned char *)calloc(size, 1);
      p[0] = draw_defined(&r); p[1] = draw_defined(&r);
      if (p[0] == ub_bound()) p[0]--;
      if (p[1] == ub_bound()) p[1]--;
      memset(ix, 0, sizeof(ix));
      printf("I silkparams stereo-rt %d %d %d\n", p[0], p[1], size); fflush(stdout);
      silk_stereo_quant_pred(p, ix);
      ec_enc_init(&e, buf, size);
      silk_stereo_encode_pred(&e, ix);
      ec_enc_done(&e);
      ec_dec_init(&d, buf, size);
      silk_stereo_decode_pred(&d, q);
      printf("O OK %d %d ", p[0], p[1]); pix(ix); printf(" "); vhex(stdout, buf, size);
      printf(" %d %d %d\n", e.error, q[0], q[1]);
      free(buf);
   }
   printf("# dist rt: cases=%ld\n", n);
}

static void do_syms(uint64_t seed, long n)
{
   vrng r; long t;
   r.s = seed * 0x9E3779B97F4A7C15ULL + 37;
   for (t = 0; t <= n; t++) {
      opus_int8 ix[2][3]; ec_enc e; ec_dec d; int k, s[5];
      unsigned char *buf = (unsigned char *)calloc(16, 1);
      for (k = 0; k < 2; k++) { ix[k][0] = (opus_int8)vbelow(&r, 3); ix[k][1] = (opus_int8)vbelow(&r, STEREO_QUANT_SUB_STEPS); ix[k][2] = (opus_int8)vbelow(&r, 5); }
      if (t == n) {   /* malformed: one entry beyond its assert bound */
         switch (vbelow(&r, 4)) {
         case 0: ix[vbelow(&r, 2)][0] = (opus_int8)vrange(&r, 3, 127); break;
         case 1: ix[vbelow(&r, 2)][1] = (opus_int8)vrange(&r, STEREO_QUANT_SUB_STEPS, 127); break;
         case 2: ix[0][2] = (opus_int8)vrange(&r, 5, 20); break;
         default: ix[0][2] = 4; ix[1][2] = (opus_int8)vrange(&r, 5, 100); break;
         }
      }
      printf("I silkparams stereo-syms "); pix(ix); printf("\n"); fflush(stdout);
      if (t == n) {   /* the expected answer is a hardening abort: run it in a child so that this process ends normally */
         pid_t pid = fork();
         if (pid != 0) { int status; waitpid(pid, &status, 0); free(buf); break; }
      }
      ec_enc_init(&e, buf, 16);
      silk_stereo_encode_pred(&e, ix);
      ec_enc_done(&e);
      ec_dec_init(&d, buf, 16);
      s[0] = ec_dec_icdf(&d, silk_stereo_pred_joint_iCDF, 8);
      s[1] = ec_dec_icdf(&d, silk_uniform3_iCDF, 8);
      s[2] = ec_dec_icdf(&d, silk_uniform5_iCDF, 8);
      s[3] = ec_dec_icdf(&d, silk_uniform3_iCDF, 8);
      s[4] = ec_dec_icdf(&d, silk_uniform5_iCDF, 8);
      printf("O OK %d,%d,%d,%d,%d 25,3,5,3,5\n", s[0], s[1], s[2], s[3], s[4]);
      free(buf);
      if (t == n) { fflush(stdout); _exit(0); }   /* child that did not abort */
   }
   printf("# dist syms: valid=%ld malformed=1\n", n);
}

/* ---- search: predicates on the library alone ---- */
static long nwit = 0;
static void wit(const char *name, opus_int32 p0, opus_int32 p1, const char *obs, long a, long b)
{
   if (nwit++ < 20) printf("W %s silk_stereo_quant_pred pred_Q13={%d,%d} => %s %ld %ld\n", name, p0, p1, obs, a, b);
}
static void do_search(uint64_t seed, long n)
{
   vrng r; long t, maxerr = 0, inside = 0, outside = 0; int k, m;
   int64_t lo = lev[0], hi = lev[NLEV - 1];
   r.s = seed * 0x9E3779B97F4A7C15ULL + 53;
   for (k = 0; k + 1 < NLEV; k++) if (!(lev[k] < lev[k + 1])) { printf("W levels table => not strictly increasing at %d\n", k); nwit++; }
   for (t = 0; t < n; t++) {
      opus_int32 in[2], p[2], q[2] = { 12345678, 12345678 }; opus_int8 ix[2][3]; ec_enc e; ec_dec d;
      unsigned char *buf = (unsigned char *)calloc(8, 1);
      in[0] = draw_defined(&r); in[1] = draw_defined(&r);
      if (in[0] == ub_bound()) in[0]--;
      if (in[1] == ub_bound()) in[1]--;
      p[0] = in[0]; p[1] = in[1];
      memset(ix, 0x55, sizeof(ix));
      silk_stereo_quant_pred(p, ix);
      for (k = 0; k < 2; k++) {
         if (ix[k][0] < 0 || ix[k][0] > 2) wit("ixrange", in[0], in[1], "ix[n][0] outside [0,2]: n, value", k, ix[k][0]);
         if (ix[k][1] < 0 || ix[k][1] >= STEREO_QUANT_SUB_STEPS) wit("ixrange", in[0], in[1], "ix[n][1] outside [0,SUB_STEPS): n, value", k, ix[k][1]);
         if (ix[k][2] < 0 || ix[k][2] > 4) wit("ixrange", in[0], in[1], "ix[n][2] outside [0,4]: n, value", k, ix[k][2]);
      }
      if (nwit) { free(buf); continue; }
      /* the quantised values: nearest level (ties to the lower), inside the span, error bound */
      for (k = 0; k < 2; k++) {
         int64_t qk = (k == 0) ? (int64_t)p[0] + p[1] : p[1], x = in[k], err = x > qk ? x - qk : qk - x, best = -1; int bi = 0;
         for (m = 0; m < NLEV; m++) { int64_t em = x > lev[m] ? x - lev[m] : lev[m] - x; if (best < 0 || em < best) { best = em; bi = m; } }
         if (qk != lev[bi]) wit("nearest", in[0], in[1], "quantised value is not the nearest level: value, nearest", (long)qk, (long)lev[bi]);
         if (qk < lo || qk > hi) wit("range", in[0], in[1], "quantised value outside the level span: n, value", k, (long)qk);
         if (x >= lo && x <= hi) { inside++; if (err > maxerr) maxerr = (long)err; } else outside++;
         if (x <= lo && qk != lo) wit("saturate", in[0], in[1], "input below the span not mapped to the lowest level: n, value", k, (long)qk);
         if (x >= hi && qk != hi) wit("saturate", in[0], in[1], "input above the span not mapped to the highest level: n, value", k, (long)qk);
      }
      /* encoder / decoder agreement through the real range coder */
      ec_enc_init(&e, buf, 8);
      silk_stereo_encode_pred(&e, ix);
      ec_enc_done(&e);
      ec_dec_init(&d, buf, 8);
      silk_stereo_decode_pred(&d, q);
      if (q[0] != p[0] || q[1] != p[1]) wit("agree", in[0], in[1], "decoder rebuilds different predictors: dec[0], dec[1]", q[0], q[1]);
      if (e.error) wit("agree", in[0], in[1], "range encoder error", e.error, 0);
      free(buf);
   }
   {  /* largest half-gap of the level grid = the bound the error inside the span must respect */
      long g = 0; for (k = 0; k + 1 < NLEV; k++) if ((lev[k + 1] - lev[k] + 1) / 2 > g) g = (lev[k + 1] - lev[k] + 1) / 2;
      if (maxerr > g) { printf("W errbound inside-span error %ld exceeds half of the largest level gap %ld\n", maxerr, g); nwit++; }
      printf("S cases=%ld inside=%ld outside=%ld maxerr=%ld halfgap=%ld span=[%ld,%ld] witnesses=%ld\n", n, inside, outside, maxerr, g, (long)lo, (long)hi, nwit);
   }
}

int main(int argc, char **argv)
{
   vinstall_traps();
   mk_levels();
   if (argc >= 2 && !strcmp(argv[1], "tabs")) do_tabs();
   else if (argc >= 4 && !strcmp(argv[1], "quant")) do_quant(strtoull(argv[2], 0, 10), atol(argv[3]));
   else if (argc >= 2 && !strcmp(argv[1], "dec")) do_dec();
   else if (argc >= 4 && !strcmp(argv[1], "rt")) do_rt(strtoull(argv[2], 0, 10), atol(argv[3]));
   else if (argc >= 4 && !strcmp(argv[1], "syms")) do_syms(strtoull(argv[2], 0, 10), atol(argv[3]));
   else if (argc >= 4 && !strcmp(argv[1], "search")) do_search(strtoull(argv[2], 0, 10), atol(argv[3]));
   else { fprintf(stderr, "usage: c18_stereo tabs | quant <seed> <n> | dec | rt <seed> <n> | syms <seed> <n> | search <seed> <n>\n"); return 2; }
   return 0;
}
