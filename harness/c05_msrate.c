/* c05_msrate.c — tie of the multistream bit-rate allocation (src/opus_multistream_encoder.c:668-798, `rate_allocation`,
   `surround_rate_allocation`, `ambisonics_rate_allocation`, and the OPUS_SET_BITRATE clamp of :1121-1131) to the model
   OpusModel/EncSkel/MsRate.lean.  This TU #includes src/opus_multistream_encoder.c and src/opus_projection_encoder.c so that
   the static functions and the encoder structs are visible; nothing is wrapped.  For every case it prints
       I encskel msrate <Fs> <frame_size> <nb_streams> <nb_coupled> <lfe_stream> <ambisonics> <st->bitrate_bps>
       O sum=<rate_sum> fits=1 r=<bitrates[0..nb_streams-1]>
   (the model answers with its own sum / per-stream rates and with whether every 32-bit intermediate fits).
   Modes:
     grid <level>            layouts x Fs x frame sizes x bit-rate settings, exhaustively over a grid; layouts as the create
                             functions make them with nb_channels = nb_streams + nb_coupled (bit-rate range 500..300000 per
                             channel); `rate_allocation` is called on an OpusMSEncoder whose layout fields are set directly
                             (it reads only those, bitrate_bps, mapping_type and Fs of the first stream)
     api <seed> <n>          encoders made by the public create functions (families 0, 1, 2, 3, 255 and explicit mappings with
                             nb_channels = nb_streams + nb_coupled), settings through the public ctl; prints the layout the
                             encoder really has (`# LAYOUT`), the allocation, and after one real encode call the bit-rate each
                             stream's encoder stored (`I encskel msuser ... <i>` / `O v=`)
     corpus <file>           the regression cases of corpus/C05/msrate_cases.txt (explicit mappings with muted input channels; the
                             first is the pre-fix overflow of :729), through the public API as in api
     generic <seed> <n>      as api, explicit mappings with nb_channels up to 255 > nb_streams + nb_coupled (muted / shared input
                             channels), where the OPUS_SET_BITRATE range 300000*nb_channels is far above what the streams take */
#include "vcommon.h"
#ifdef HAVE_CONFIG_H
#include "config.h"
#endif
#include <math.h>
#include "src/opus_multistream_encoder.c"
#include "src/opus_projection_encoder.c"

static const int FSS[5] = {8000, 12000, 16000, 24000, 48000};
static const int DUR400[9] = {1, 2, 4, 8, 16, 24, 32, 40, 48};

static void emit(OpusMSEncoder *st, int fs, int fsz)
{
   static opus_int32 rates[256]; opus_int32 sum; int i, n = st->layout.nb_streams;
   printf("I encskel msrate %d %d %d %d %d %d %d\n", fs, fsz, n, st->layout.nb_coupled_streams, st->lfe_stream,
          st->mapping_type == MAPPING_TYPE_AMBISONICS, (int)st->bitrate_bps);
   fflush(stdout);
   sum = rate_allocation(st, rates, fsz);
   printf("O sum=%d fits=1 r=", (int)sum);
   for (i = 0; i < n; i++) printf("%s%d", i ? "," : "", (int)rates[i]);
   printf("\n");
}

/* ------------------------------------------------------------------ grid */
static long grid_layout(OpusMSEncoder *st, int n, int c, int lfe, int amb)
{
   int fi, di, k; long cases = 0;
   int nch = n + c, nn = n + c - (lfe >= 0);
   st->layout.nb_channels = nch; st->layout.nb_streams = n; st->layout.nb_coupled_streams = c; st->lfe_stream = lfe;
   st->mapping_type = amb ? MAPPING_TYPE_AMBISONICS : (lfe >= 0 ? MAPPING_TYPE_SURROUND : MAPPING_TYPE_NONE);
   for (fi = 0; fi < 5; fi++) {
      int fs = FSS[fi];
      opus_encoder_init((OpusEncoder *)((char *)st + align(sizeof(OpusMSEncoder))), fs, 1, OPUS_APPLICATION_AUDIO);
      for (di = 0; di < 9; di++) {
         int fsz = fs / 400 * DUR400[di], r = fs / fsz, co = 40 * IMAX(50, r), lo = 15 * IMAX(50, r);
         opus_int32 lo_b = 500 * nch, hi_b = 300000 * nch, brs[40]; int nb = 0;
         opus_int32 t0 = co * nn + (lfe >= 0 ? lo : 0);                       /* where the offsets are just covered */
         brs[nb++] = OPUS_AUTO; brs[nb++] = OPUS_BITRATE_MAX; brs[nb++] = lo_b; brs[nb++] = lo_b + 1; brs[nb++] = hi_b; brs[nb++] = hi_b - 1;
         for (k = -1; k <= 1; k++) { brs[nb++] = t0 + k; brs[nb++] = t0 + 3000 + k; brs[nb++] = t0 + t0 / 19 + k; brs[nb++] = t0 + 40000 * nn + k; brs[nb++] = 60000 + k; }
         for (k = 1; k < 12; k++) brs[nb++] = (opus_int32)(lo_b * pow(600.0, k / 12.0)) + 7 * k;
         brs[nb++] = (fs + 60 * fs / fsz) * nch + 15000 * n; brs[nb++] = 64000 * nch + 1; brs[nb++] = 2 * t0 + 1;
         for (k = 0; k < nb; k++) {
            opus_int32 b = brs[k];
            if (b != OPUS_AUTO && b != OPUS_BITRATE_MAX) b = IMIN(hi_b, IMAX(lo_b, b));
            st->bitrate_bps = b;
            emit(st, fs, fsz); cases++;
         }
      }
   }
   return cases;
}

static void run_grid(int level)
{
   OpusMSEncoder *st = (OpusMSEncoder *)calloc(1, align(sizeof(OpusMSEncoder)) + opus_encoder_get_size(2));
   int n, c; long cases = 0, layouts = 0;
   static const int big[] = {12, 16, 31, 32, 64, 100, 127, 128, 129, 170, 200, 254, 255};
   int nmax = level ? 24 : 5, bi;
   for (n = 1; n <= nmax; n++) for (c = 0; c <= n && n + c <= 255; c++) {
      cases += grid_layout(st, n, c, -1, 0); layouts++;
      cases += grid_layout(st, n, c, -1, 1); layouts++;
      if (n >= 2 && c < n) { cases += grid_layout(st, n, c, n - 1, 0); layouts++; }
   }
   for (bi = 0; bi < (int)(sizeof big / sizeof big[0]); bi++) {
      int cs[6], k; n = big[bi]; if (n <= nmax) continue;
      if (!level && n != 16 && n != 128 && n != 255) continue;
      cs[0] = 0; cs[1] = 1; cs[2] = n / 2; cs[3] = IMIN(n, 255 - n); cs[4] = IMAX(0, IMIN(n, 255 - n) - 1); cs[5] = n / 3;
      for (k = 0; k < (level ? 6 : 3); k++) {
         int dup = 0, j; c = cs[k];
         for (j = 0; j < k; j++) if (cs[j] == c) dup = 1;
         if (dup || c > n || n + c > 255) continue;
         cases += grid_layout(st, n, c, -1, 0); layouts++;
         if (level || k < 2) { cases += grid_layout(st, n, c, -1, 1); layouts++; }
         if (c < n && (level || k == 1)) { cases += grid_layout(st, n, c, n - 1, 0); layouts++; }
      }
   }
   printf("# msrate grid layouts=%ld cases=%ld\n", layouts, cases);
   free(st);
}

/* ------------------------------------------------------------------ real encoders */
static void after_create(OpusMSEncoder *ms, OpusProjectionEncoder *pj, int fam, int fs, int ch, vrng *r, int steps)
{
   OpusMSEncoder *st = pj ? get_multistream_encoder(pj) : ms;
   static float x[5760 * 255]; static unsigned char out[8000];
   int k, i, n = st->layout.nb_streams;
   printf("# LAYOUT fam=%d fs=%d ch=%d nch=%d streams=%d coupled=%d lfe=%d mt=%d\n", fam, fs, ch, st->layout.nb_channels, n,
          st->layout.nb_coupled_streams, st->lfe_stream, (int)st->mapping_type);
   for (k = 0; k < steps; k++) {
      int d = DUR400[vbelow(r, 9)], fsz = fs / 400 * d, ret, rc; opus_int32 br, vbr = vchance(r, 75);
      static opus_int32 rates[256];
      switch (vbelow(r, 8)) {
      case 0: br = OPUS_AUTO; break;
      case 1: br = OPUS_BITRATE_MAX; break;
      case 2: br = 300000 * ch - (int)vbelow(r, 3); break;
      case 3: br = 500 * ch + (int)vbelow(r, 3); break;
      case 4: br = vrange(r, 1, 2000) * ch; break;
      case 5: br = vrange(r, 100000, 400000) * ch; break;
      default: br = (opus_int32)(500.0 * ch * pow(600.0, vbelow(r, 1000) / 1000.0)); break;
      }
      rc = pj ? opus_projection_encoder_ctl(pj, OPUS_SET_BITRATE(br)) : opus_multistream_encoder_ctl(ms, OPUS_SET_BITRATE(br));
      printf("I encskel msctl %d %d\nO v=%d\n", st->layout.nb_channels, (int)br, rc == OPUS_OK ? (int)st->bitrate_bps : -99999);
      if (pj) opus_projection_encoder_ctl(pj, OPUS_SET_VBR(vbr)); else opus_multistream_encoder_ctl(ms, OPUS_SET_VBR(vbr));
      emit(st, fs, fsz);
      if (n > 48 && k > 0) continue;                       /* one real encode for the big layouts */
      for (i = 0; i < fsz * ch; i++) x[i] = 0.25f * (float)sin(0.013 * (i / ch) * (1 + i % ch)) + 0.02f * ((int)vbelow(r, 2001) - 1000) / 1000.f;
      ret = pj ? opus_projection_encode_float(pj, x, fsz, out, 8000) : opus_multistream_encode_float(ms, x, fsz, out, 8000);
      if (ret < 0) { printf("# MSRATE-ENCODE-FAILED ret=%d fam=%d ch=%d fs=%d fsz=%d br=%d\n", ret, fam, ch, fs, fsz, (int)st->bitrate_bps); continue; }
      rate_allocation(st, rates, fsz);
      for (i = 0; i < n; i++) {
         OpusEncoder *e; opus_int32 got = 0;
         if (!vbr && i == n - 1) continue;                  /* :986 overrides the last stream's rate in CBR */
         if (pj) opus_projection_encoder_ctl(pj, OPUS_MULTISTREAM_GET_ENCODER_STATE(i, &e)); else opus_multistream_encoder_ctl(ms, OPUS_MULTISTREAM_GET_ENCODER_STATE(i, &e));
         opus_encoder_ctl(e, OPUS_GET_BITRATE(&got));
         printf("I encskel msuser %d %d %d %d %d %d %d %d\nO v=%d\n", fs, fsz, n, st->layout.nb_coupled_streams, st->lfe_stream,
                st->mapping_type == MAPPING_TYPE_AMBISONICS, (int)st->bitrate_bps, i, (int)got);
      }
   }
}

static void run_api(uint64_t seed, long nconf, int generic)
{
   vrng r; long s; r.s = seed * 0x9E3779B97F4A7C15ULL + (generic ? 29 : 17);
   for (s = 0; s < nconf; s++) {
      int fs = FSS[vbelow(&r, 5)], err = 0, streams = 0, coupled = 0, ch, fam, i;
      unsigned char map[255]; OpusMSEncoder *ms = NULL; OpusProjectionEncoder *pj = NULL;
      if (generic) {
         fam = -1; streams = vchance(&r, 60) ? vrange(&r, 1, 3) : vrange(&r, 1, 40); coupled = vchance(&r, 70) ? vrange(&r, 0, streams) : streams;
         if (vchance(&r, 50) && coupled == 0) coupled = 1;
         ch = vchance(&r, 50) ? 255 : vrange(&r, streams + coupled, 255);
         memset(map, 255, sizeof map);
         for (i = 0; i < streams + coupled; i++) map[i] = (unsigned char)i;
         for (i = streams + coupled; i < ch; i++) map[i] = vchance(&r, 50) ? 255 : (unsigned char)vbelow(&r, streams + coupled);
         ms = opus_multistream_encoder_create(fs, ch, streams, coupled, map, OPUS_APPLICATION_AUDIO, &err);
      } else switch (fam = (int)vbelow(&r, 6)) {
      case 0: ch = vrange(&r, 1, 2); ms = opus_multistream_surround_encoder_create(fs, ch, 0, &streams, &coupled, map, OPUS_APPLICATION_AUDIO, &err); break;
      case 1: ch = vrange(&r, 1, 8); ms = opus_multistream_surround_encoder_create(fs, ch, 1, &streams, &coupled, map, OPUS_APPLICATION_AUDIO, &err); break;
      case 2: { int o = vrange(&r, 1, 6); ch = o * o + (vchance(&r, 50) ? 2 : 0);
                ms = opus_multistream_surround_encoder_create(fs, ch, 2, &streams, &coupled, map, OPUS_APPLICATION_AUDIO, &err); break; }
      case 3: { int o = vrange(&r, 2, 6); ch = o * o + (vchance(&r, 50) ? 2 : 0);
                pj = opus_projection_ambisonics_encoder_create(fs, ch, 3, &streams, &coupled, OPUS_APPLICATION_AUDIO, &err); break; }
      case 4: ch = vchance(&r, 80) ? vrange(&r, 1, 24) : vrange(&r, 25, 255);
              ms = opus_multistream_surround_encoder_create(fs, ch, 255, &streams, &coupled, map, OPUS_APPLICATION_AUDIO, &err); break;
      default: streams = vrange(&r, 1, 12); coupled = vrange(&r, 0, streams); ch = streams + coupled;
              for (i = 0; i < ch; i++) map[i] = (unsigned char)i;
              ms = opus_multistream_encoder_create(fs, ch, streams, coupled, map, OPUS_APPLICATION_AUDIO, &err); break;
      }
      if (!ms && !pj) { printf("# MSRATE-CREATE-FAILED fam=%d ch=%d err=%d\n", fam, ch, err); continue; }
      after_create(ms, pj, fam, fs, ch, &r, generic ? 3 : 4);
      if (ms) opus_multistream_encoder_destroy(ms);
      if (pj) opus_projection_encoder_destroy(pj);
   }
   printf("# msrate %s configs=%ld\n", generic ? "generic" : "api", nconf);
}

/* regression corpus: explicit layouts with muted input channels (file format in corpus/C05/msrate_cases.txt) */
static void run_corpus(const char *path)
{
   FILE *f = fopen(path, "r"); char line[256]; long n = 0; vrng r; r.s = 12345;
   if (!f) { fprintf(stderr, "cannot open %s\n", path); exit(64); }
   while (fgets(line, sizeof line, f)) {
      int fs, fsz, ch, streams, coupled, br, err = 0, i; unsigned char map[255]; OpusMSEncoder *ms;
      static float x[5760 * 255]; static unsigned char out[8000]; OpusMSEncoder *st; int ret;
      if (line[0] == '#' || sscanf(line, "%d %d %d %d %d %d", &fs, &fsz, &ch, &streams, &coupled, &br) != 6) continue;
      memset(map, 255, sizeof map);
      for (i = 0; i < streams + coupled; i++) map[i] = (unsigned char)i;
      ms = opus_multistream_encoder_create(fs, ch, streams, coupled, map, OPUS_APPLICATION_AUDIO, &err);
      if (!ms) { printf("# MSRATE-CREATE-FAILED corpus ch=%d err=%d\n", ch, err); continue; }
      st = ms;
      printf("# LAYOUT fam=-1 fs=%d ch=%d nch=%d streams=%d coupled=%d lfe=%d mt=%d\n", fs, ch, st->layout.nb_channels, streams, coupled, st->lfe_stream, (int)st->mapping_type);
      err = opus_multistream_encoder_ctl(ms, OPUS_SET_BITRATE(br));
      printf("I encskel msctl %d %d\nO v=%d\n", ch, br, err == OPUS_OK ? (int)st->bitrate_bps : -99999);
      emit(st, fs, fsz);
      for (i = 0; i < fsz * ch; i++) x[i] = 0.25f * (float)sin(0.013 * (i / ch) * (1 + i % ch)) + 0.02f * ((int)vbelow(&r, 2001) - 1000) / 1000.f;
      ret = opus_multistream_encode_float(ms, x, fsz, out, 8000);
      if (ret < 0) printf("# MSRATE-ENCODE-FAILED ret=%d corpus ch=%d fs=%d fsz=%d br=%d\n", ret, ch, fs, fsz, br);
      else for (i = 0; i < streams; i++) {
         OpusEncoder *e; opus_int32 got = 0;
         opus_multistream_encoder_ctl(ms, OPUS_MULTISTREAM_GET_ENCODER_STATE(i, &e));
         opus_encoder_ctl(e, OPUS_GET_BITRATE(&got));
         printf("I encskel msuser %d %d %d %d %d %d %d %d\nO v=%d\n", fs, fsz, streams, coupled, st->lfe_stream, 0, (int)st->bitrate_bps, i, (int)got);
      }
      opus_multistream_encoder_destroy(ms); n++;
   }
   fclose(f);
   printf("# msrate corpus cases=%ld\n", n);
}

int main(int argc, char **argv)
{
   if (argc < 3) { fprintf(stderr, "usage: c05_msrate grid <level> | api <seed> <n> | generic <seed> <n> | corpus <file>\n"); return 64; }
   setvbuf(stdout, NULL, _IOFBF, 1 << 16);
   vinstall_traps();
   if (!strcmp(argv[1], "grid")) run_grid(atoi(argv[2]));
   else if (!strcmp(argv[1], "corpus")) run_corpus(argv[2]);
   else if (!strcmp(argv[1], "api") && argc >= 4) run_api(strtoull(argv[2], 0, 10), atol(argv[3]), 0);
   else if (!strcmp(argv[1], "generic") && argc >= 4) run_api(strtoull(argv[2], 0, 10), atol(argv[3]), 1);
   else return 64;
   return 0;
}
